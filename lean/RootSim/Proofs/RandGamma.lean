import RootSim.Model.RandGamma
import RootSim.Proofs.RandApi
/-!
Helper lemmas for the rejection branch of `Gamma` (`Model/RandGamma.lean`): magnitude bounds that
survive the concrete rounding of `*`, `+`, `-`, `/`, and the case analysis of the two loops.
-/
namespace RootSim.Rand
open RootSim.Float

/-- finite and `|v| ≤ 2^k` -/
def FinAbsLe (k : Nat) : FVal → Prop
  | .fin m s => m.natAbs ≤ 2 ^ (k + s)
  | _ => False

theorem finAbsLe_mono {i j : Nat} {v : FVal} (h : FinAbsLe i v) (hij : i ≤ j) : FinAbsLe j v := by
  cases v with
  | fin m s => exact Nat.le_trans h (Nat.pow_le_pow_right (by omega) (by omega))
  | inf n => exact h
  | nan => exact h

/-- **rounding keeps a magnitude bound `2^k`, `k < 1024`, and the sign** -/
theorem roundFin_bound (m : Int) (s k : Nat) (hk : k < 1024) (h : m.natAbs ≤ 2 ^ (k + s)) :
    ∃ a : Int, roundFin m s = .fin a s ∧ a.natAbs ≤ 2 ^ (k + s) ∧ (0 ≤ m → 0 ≤ a) := by
  have hlt : m.natAbs < 2 ^ (53 + (k + s)) := by
    have : 2 ^ (k + s) < 2 ^ (53 + (k + s)) := Nat.pow_lt_pow_right (by omega) (by omega)
    omega
  have hle := rneNat_le_repr m.natAbs s 1 (k + s) (by omega) (by simpa using h) hlt
  rw [Nat.one_mul] at hle
  have hno : ¬ rneNat m.natAbs s ≥ 2 ^ (1024 + s) := by
    have : 2 ^ (k + s) < 2 ^ (1024 + s) := Nat.pow_lt_pow_right (by omega) (by omega)
    omega
  by_cases hneg : m < 0
  · refine ⟨-((rneNat m.natAbs s : Nat) : Int), ?_, ?_, by omega⟩
    · simp only [roundFin, hno, hneg, if_true, if_false]
    · simpa using hle
  · refine ⟨((rneNat m.natAbs s : Nat) : Int), ?_, ?_, by omega⟩
    · simp only [roundFin, hno, hneg, if_false]
    · simpa using hle

theorem mul_absLe {x y : FVal} {i j : Nat} (hx : FinAbsLe i x) (hy : FinAbsLe j y) (hij : i + j < 1024) :
    FinAbsLe (i + j) (FVal.mul x y) := by
  cases x with
  | fin a s =>
    cases y with
    | fin b t =>
      have h : (a * b).natAbs ≤ 2 ^ (i + j + (s + t)) := by
        rw [Int.natAbs_mul]
        have e : i + j + (s + t) = (i + s) + (j + t) := by omega
        rw [e, Nat.pow_add]
        exact Nat.mul_le_mul hx hy
      obtain ⟨c, hc, hb, _⟩ := roundFin_bound (a * b) (s + t) (i + j) hij h
      simp only [FVal.mul, hc]
      exact hb
    | inf n => exact hy.elim
    | nan => exact hy.elim
  | inf n => exact hx.elim
  | nan => exact hx.elim

theorem natAbs_comb_le (a b : Int) (s t i j : Nat) (ha : a.natAbs ≤ 2 ^ (i + s)) (hb : b.natAbs ≤ 2 ^ (j + t)) :
    (a * 2 ^ t).natAbs + (b * 2 ^ s).natAbs ≤ 2 ^ (max i j + 1 + (s + t)) := by
  have e1 : (a * 2 ^ t).natAbs = a.natAbs * 2 ^ t := by
    rw [Int.natAbs_mul, Int.natAbs_pow]; rfl
  have e2 : (b * 2 ^ s).natAbs = b.natAbs * 2 ^ s := by
    rw [Int.natAbs_mul, Int.natAbs_pow]; rfl
  rw [e1, e2]
  have h1 : a.natAbs * 2 ^ t ≤ 2 ^ (max i j + (s + t)) := by
    have := Nat.mul_le_mul_right (2 ^ t) ha
    rw [← Nat.pow_add] at this
    exact Nat.le_trans this (Nat.pow_le_pow_right (by omega) (by omega))
  have h2 : b.natAbs * 2 ^ s ≤ 2 ^ (max i j + (s + t)) := by
    have := Nat.mul_le_mul_right (2 ^ s) hb
    rw [← Nat.pow_add] at this
    exact Nat.le_trans this (Nat.pow_le_pow_right (by omega) (by omega))
  have e : max i j + 1 + (s + t) = (max i j + (s + t)) + 1 := by omega
  rw [e, Nat.pow_succ]
  omega

theorem add_absLe {x y : FVal} {i j : Nat} (hx : FinAbsLe i x) (hy : FinAbsLe j y) (hij : max i j + 1 < 1024) :
    FinAbsLe (max i j + 1) (FVal.add x y) := by
  cases x with
  | fin a s =>
    cases y with
    | fin b t =>
      have h : (a * 2 ^ t + b * 2 ^ s).natAbs ≤ 2 ^ (max i j + 1 + (s + t)) :=
        Nat.le_trans (Int.natAbs_add_le _ _) (natAbs_comb_le a b s t i j hx hy)
      obtain ⟨c, hc, hb, _⟩ := roundFin_bound _ (s + t) (max i j + 1) hij h
      simp only [FVal.add, hc]
      exact hb
    | inf n => exact hy.elim
    | nan => exact hy.elim
  | inf n => exact hx.elim
  | nan => exact hx.elim

/-- numbers below `2^53` at scale 0 are not rounded -/
theorem rneNat_small (m : Nat) (h : m < 2 ^ 53) : rneNat m 0 = m := by
  have : dropBits m 0 = 0 := by
    unfold dropBits
    have := bitlen_le_of_lt h
    omega
  unfold rneNat
  simp [this]

theorem roundFin_small (m : Nat) (h : m < 2 ^ 53) : roundFin (m : Int) 0 = .fin (m : Int) 0 := by
  have hno : ∀ z : Nat, z = 0 → ¬ rneNat m 0 ≥ 2 ^ (1024 + z) := by
    intro z _
    rw [rneNat_small m h]
    have : (2 : Nat) ^ 53 < 2 ^ (1024 + z) := Nat.pow_lt_pow_right (by omega) (by omega)
    omega
  rw [roundFin_nat m 0 (hno 0 rfl), rneNat_small m h]

/-- `2.0 * am + 1.0` is exact for `ia < 2^32` -/
theorem gammaSqArg_eq (ia : Nat) (h32 : ia < 2 ^ 32) :
    gammaSqArg (gammaAm ia) = .fin ((2 * (ia - 1) + 1 : Nat) : Int) 0 := by
  have e1 : ((2 : Int) * ((ia - 1 : Nat) : Int)) = ((2 * (ia - 1) : Nat) : Int) := by simp
  have e2 : (((2 * (ia - 1) : Nat) : Int) * 2 ^ 0 + 1 * 2 ^ 0) = ((2 * (ia - 1) + 1 : Nat) : Int) := by simp
  simp only [gammaSqArg, gammaAm, FVal.ofInt, FVal.two, FVal.one, FVal.mul, Nat.add_zero]
  rw [e1, roundFin_small _ (by omega)]
  simp only [FVal.add, Nat.add_zero]
  rw [e2, roundFin_small _ (by omega)]

theorem gammaAm_absLe (ia : Nat) (h32 : ia < 2 ^ 32) : FinAbsLe 32 (gammaAm ia) := by
  simp only [gammaAm, FVal.ofInt, FinAbsLe, Int.natAbs_natCast, Nat.add_zero]
  omega

/-- `sqrt(2.0 * am + 1.0)` is finite and at most `2^33` in magnitude -/
theorem gammaSqrt_absLe (L : Libm) (hL : LibmLaws2 L) (ia : Nat) (h32 : ia < 2 ^ 32) :
    FinAbsLe 33 (L.sqrt (gammaSqArg (gammaAm ia))) := by
  rw [gammaSqArg_eq ia h32]
  obtain ⟨a, t, h, _, h2⟩ := hL.sqrt_ge_one (2 * (ia - 1) + 1) 0 (by simp)
  rw [h]
  simp only [FinAbsLe, Int.natAbs_natCast]
  have : (2 * (ia - 1) + 1) * 2 ^ t ≤ 2 ^ 33 * 2 ^ t := Nat.mul_le_mul_right _ (by omega)
  rw [← Nat.pow_add] at this
  omega

theorem randVal_repr {r : FVal} (hr : RandVal r) : ∃ M s : Nat, r = .fin (M : Int) s ∧ M ≤ 2 ^ s := by
  cases hr with
  | zero => exact ⟨0, 0, rfl, by omega⟩
  | pos M s h52 h53 hs53 hs116 =>
    have : 2 ^ 53 ≤ 2 ^ s := Nat.pow_le_pow_right (by omega) hs53
    exact ⟨M, s, rfl, by omega⟩

/-- `v2 = 2.0 * Random() - 1.0` is finite and `|v2| ≤ 1` -/
theorem gammaV2_absLe (r : FVal) (hr : RandVal r) : FinAbsLe 0 (gammaV2 r) := by
  have key : ∀ (M s : Nat), M ≤ 2 ^ s → FinAbsLe 0 (gammaV2 (.fin (M : Int) s)) := by
    intro M s hM
    have h2 : ((2 : Int) * (M : Int)).natAbs ≤ 2 ^ (1 + (0 + s)) := by
      have : ((2 : Int) * (M : Int)).natAbs = 2 * M := by
        rw [Int.natAbs_mul]; simp
      rw [this, Nat.zero_add, Nat.add_comm 1 s, Nat.pow_succ]
      omega
    obtain ⟨a, ha, hab, hpos⟩ := roundFin_bound (2 * (M : Int)) (0 + s) 1 (by omega) h2
    have ha0 : 0 ≤ a := hpos (by omega)
    have h3 : (a * 2 ^ 0 - 1 * 2 ^ (0 + s)).natAbs ≤ 2 ^ (0 + (0 + s + 0)) := by
      have e : ((2 : Int) ^ (0 + s)) = ((2 ^ s : Nat) : Int) := by simp
      have hab' : a.natAbs ≤ 2 * 2 ^ s := by
        have : (2 : Nat) ^ (1 + (0 + s)) = 2 * 2 ^ s := by
          rw [Nat.zero_add, Nat.add_comm 1 s, Nat.pow_succ]; omega
        omega
      rw [e]
      simp only [Nat.zero_add, Nat.add_zero]
      omega
    obtain ⟨c, hc, hcb, _⟩ := roundFin_bound _ (0 + s + 0) 0 (by omega) h3
    simp only [gammaV2, FVal.two, FVal.one, FVal.mul, FVal.sub, ha, hc]
    exact hcb
  obtain ⟨M, s, rfl, hM⟩ := randVal_repr hr
  exact key M s hM

/-- **`a / b` for `|a| ≤ 2^i`, `|b| ≥ 2^-j`** is finite and at most `2^(i+j+1)` in magnitude -/
theorem divFin_absLe (a : Int) (s : Nat) (b : Int) (t i j : Nat) (ha : a.natAbs ≤ 2 ^ (i + s))
    (hb : 2 ^ t ≤ b.natAbs * 2 ^ j) (hij : i + j + 1 < 1024) : FinAbsLe (i + j + 1) (FVal.divFin a s b t) := by
  have hb0 : 0 < b.natAbs := by
    rcases Nat.eq_zero_or_pos b.natAbs with h | h
    · rw [h] at hb
      have := Nat.two_pow_pos t
      omega
    · exact h
  -- abbreviations of the `let`s of `divFin`
  generalize hp : (bitlen (b.natAbs * 2 ^ s) + 55) - bitlen (a.natAbs * 2 ^ t) = p
  generalize hq : a.natAbs * 2 ^ t * 2 ^ p / (b.natAbs * 2 ^ s) = q
  generalize hst : (if a.natAbs * 2 ^ t * 2 ^ p % (b.natAbs * 2 ^ s) = 0 then 0 else 1 : Nat) = st
  have hst1 : st ≤ 1 := by
    rw [← hst]; split <;> omega
  have hd0 : 0 < b.natAbs * 2 ^ s := Nat.mul_pos hb0 (Nat.two_pow_pos _)
  -- q * d ≤ n * 2^p ≤ 2^(i+j+p) * d
  have hqd : q * (b.natAbs * 2 ^ s) ≤ a.natAbs * 2 ^ t * 2 ^ p := by
    rw [← hq]; exact Nat.div_mul_le_self _ _
  have hn : a.natAbs * 2 ^ t * 2 ^ p ≤ 2 ^ (i + j + p) * (b.natAbs * 2 ^ s) := by
    calc a.natAbs * 2 ^ t * 2 ^ p ≤ 2 ^ (i + s) * (b.natAbs * 2 ^ j) * 2 ^ p :=
          Nat.mul_le_mul_right _ (Nat.mul_le_mul ha hb)
      _ = 2 ^ (i + j + p) * (b.natAbs * 2 ^ s) := by
          rw [Nat.pow_add, Nat.pow_add, Nat.pow_add]
          simp only [Nat.mul_assoc, Nat.mul_comm, Nat.mul_left_comm]
  have hq' : q ≤ 2 ^ (i + j + p) := Nat.le_of_mul_le_mul_right (Nat.le_trans hqd hn) hd0
  have hm : (2 * q + st) ≤ 2 ^ (i + j + 1 + (p + 1)) := by
    have e : i + j + 1 + (p + 1) = (i + j + p) + 1 + 1 := by omega
    rw [e, Nat.pow_succ, Nat.pow_succ]
    have := Nat.two_pow_pos (i + j + p)
    omega
  have hfin : ∀ m : Int, m.natAbs = 2 * q + st → FinAbsLe (i + j + 1) (roundFin m (p + 1)) := by
    intro m hmabs
    obtain ⟨c, hc, hcb, _⟩ := roundFin_bound m (p + 1) (i + j + 1) hij (by rw [hmabs]; exact hm)
    rw [hc]; exact hcb
  simp only [FVal.divFin, hp, hq, hst]
  have hcast : ((2 * q + st : Nat) : Int).natAbs = 2 * q + st := Int.natAbs_natCast _
  split
  · exact hfin _ (by rw [Int.natAbs_neg]; exact hcast)
  · exact hfin _ hcast

/-- the values of `Random()` other than `0.0` are at least `2^-64` -/
theorem randVal_nonzero_ge {v1 : FVal} (h : RandVal v1) (hz : v1.isZero = false) :
    ∃ (M s : Nat), v1 = .fin (M : Int) s ∧ M ≠ 0 ∧ 2 ^ s ≤ M * 2 ^ 64 := by
  cases h with
  | zero => simp [FVal.isZero] at hz
  | pos M s h52 h53 hs53 hs116 =>
    refine ⟨M, s, rfl, by omega, ?_⟩
    have h1 : 2 ^ s ≤ 2 ^ 116 := Nat.pow_le_pow_right (by omega) hs116
    have h2 : 2 ^ 52 * 2 ^ 64 ≤ M * 2 ^ 64 := Nat.mul_le_mul_right _ h52
    have e : (2 : Nat) ^ 52 * 2 ^ 64 = 2 ^ 116 := by rw [← Nat.pow_add]
    omega

/-- `y = v2 / v1` for `|v2| ≤ 1` and a non-zero value `v1` of `Random()`: `|y| ≤ 2^65` -/
theorem gammaY_absLe {v1 v2 : FVal} (h1 : RandVal v1) (hz : v1.isZero = false) (h2 : FinAbsLe 0 v2) :
    FinAbsLe 65 (gammaY v1 v2) := by
  obtain ⟨M, s, rfl, hM, hge⟩ := randVal_nonzero_ge h1 hz
  cases v2 with
  | fin a t =>
    have hne : ¬ ((M : Int) = 0) := by omega
    simp only [gammaY, FVal.div, hne, if_false]
    exact divFin_absLe a t (M : Int) s 0 64 h2 (by simpa using hge) (by omega)
  | inf n => exact h2.elim
  | nan => exact h2.elim

/-- finite, `0 ≤ v ≤ 2^k` -/
def FinNonnegLe (k : Nat) : FVal → Prop
  | .fin m s => 0 ≤ m ∧ m.natAbs ≤ 2 ^ (k + s)
  | _ => False

theorem finNonneg_of_le {k : Nat} {v : FVal} (h : FinNonnegLe k v) : FVal.FinNonneg v := by
  cases v with
  | fin m s => exact h.1
  | inf n => exact h.elim
  | nan => exact h.elim

/-- a finite `x` for which `x < 0.0` is false is `≥ 0` -/
theorem nonneg_of_not_lt {k : Nat} {x : FVal} (h : FinAbsLe k x) (hlt : FVal.lt x FVal.zero = false) :
    FinNonnegLe k x := by
  cases x with
  | fin m s =>
    refine ⟨?_, h⟩
    simp only [FVal.lt, FVal.zero, FVal.gt, decide_eq_false_iff_not] at hlt
    have hp : (0 : Int) < 2 ^ 0 := by decide
    simp at hlt
    exact hlt
  | inf n => exact h.elim
  | nan => exact h.elim

/-- **`x = sqrt(2 am + 1) * y + am` is finite, `|x| ≤ 2^100`**, when `v1 ≠ 0` -/
theorem gammaX_absLe (L : Libm) (hL : LibmLaws2 L) (ia : Nat) (h32 : ia < 2 ^ 32) {v1 v2 : FVal}
    (h1 : RandVal v1) (hz : v1.isZero = false) (h2 : FinAbsLe 0 v2) :
    FinAbsLe 100 (FVal.add (FVal.mul (L.sqrt (gammaSqArg (gammaAm ia))) (gammaY v1 v2)) (gammaAm ia)) := by
  have hs := mul_absLe (gammaSqrt_absLe L hL ia h32) (gammaY_absLe h1 hz h2) (by omega)
  have := add_absLe hs (gammaAm_absLe ia h32) (by omega)
  exact finAbsLe_mono this (by omega)

/-! ### the loops -/

/-- what the inner loop delivers: values of `Random()` / of `2 Random() - 1`; `v1 ≠ 0` on the
repaired code -/
def InnerOk (fixed : Bool) (o : Option (FVal × FVal)) : Prop :=
  ∀ v1 v2, o = some (v1, v2) → RandVal v1 ∧ FinAbsLe 0 v2 ∧ (fixed = true → v1.isZero = false)

theorem gammaInner_cases (f : BitsFn) (hf : GoodBits f) (fixed : Bool) (fi : Nat) (g : Rng) :
    (∃ o k, gammaInner f fixed fi g = .ok ((o, k), advance (2 * k) g) ∧ k ≤ fi ∧ InnerOk fixed o) ∨
    (∃ e, gammaInner f fixed fi g = .error e) := by
  induction fi generalizing g with
  | zero => exact .inl ⟨none, 0, rfl, by omega, by intro v1 v2 h; cases h⟩
  | succ fi ih =>
    rcases random_cases f hf g with ⟨v1, h1, hv1⟩ | ⟨e, h1⟩
    · rcases random_cases f hf (advance 1 g) with ⟨r, h2, hr⟩ | ⟨e, h2⟩
      · rw [advance_add] at h2
        by_cases hc : gammaInnerCond fixed v1 (gammaV2 r) = true
        · rcases ih (advance 2 g) with ⟨o, k, h3, hk, hok⟩ | ⟨e, h3⟩
          · refine .inl ⟨o, k + 1, ?_, by omega, hok⟩
            rw [advance_add] at h3
            have e2 : 2 + 2 * k = 2 * (k + 1) := by omega
            rw [e2] at h3
            simp [gammaInner, bind, Except.bind, h1, h2, hc, h3, pure, Except.pure]
          · exact .inr ⟨e, by simp [gammaInner, bind, Except.bind, h1, h2, hc, h3]⟩
        · refine .inl ⟨some (v1, gammaV2 r), 1, ?_, by omega, ?_⟩
          · simp [gammaInner, bind, Except.bind, h1, h2, hc, pure, Except.pure]
          · intro a b hab
            injection hab with hab
            injection hab with ha hb
            subst ha; subst hb
            refine ⟨hv1, gammaV2_absLe r hr, ?_⟩
            intro hfx
            subst hfx
            simp only [gammaInnerCond, Bool.true_and, Bool.or_eq_true, not_or] at hc
            simpa using hc.1
      · exact .inr ⟨e, by simp [gammaInner, bind, Except.bind, h1, h2]⟩
    · exact .inr ⟨e, by simp [gammaInner, bind, Except.bind, h1]⟩

/-- what one pass of the outer loop guarantees -/
def StepOk (fixed : Bool) (st : GammaStep) : Prop :=
  (fixed = true → st.divZero = false) ∧
  (st.divZero = false → ∀ x, st.out = .ret x → FinNonnegLe 100 x)

theorem gammaBigIter_cases (f : BitsFn) (hf : GoodBits f) (L : Libm) (hL : LibmLaws2 L) (fixed : Bool)
    (ia : Nat) (h32 : ia < 2 ^ 32) (fi : Nat) (g : Rng) :
    (∃ st, gammaBigIter f L fixed (gammaAm ia) fi g = .ok (st, advance st.draws g) ∧
        st.draws ≤ 2 * fi + 1 ∧ StepOk fixed st) ∨
    (∃ e, gammaBigIter f L fixed (gammaAm ia) fi g = .error e) := by
  rcases gammaInner_cases f hf fixed fi g with ⟨o, k, h1, hk, hok⟩ | ⟨e, h1⟩
  · cases o with
    | none =>
      refine .inl ⟨⟨.stuck, 2 * k, false⟩, ?_, by simp only; omega, ?_⟩
      · simp [gammaBigIter, bind, Except.bind, h1, pure, Except.pure]
      · exact ⟨fun _ => rfl, fun _ x hx => by cases hx⟩
    | some p =>
      obtain ⟨v1, v2⟩ := p
      obtain ⟨hv1, hv2, hfz⟩ := hok v1 v2 rfl
      -- the value of `x` when it is returned
      have hret : v1.isZero = false →
          FVal.lt (FVal.add (FVal.mul (L.sqrt (gammaSqArg (gammaAm ia))) (gammaY v1 v2)) (gammaAm ia)) FVal.zero = false →
          FinNonnegLe 100 (FVal.add (FVal.mul (L.sqrt (gammaSqArg (gammaAm ia))) (gammaY v1 v2)) (gammaAm ia)) :=
        fun hz hlt => nonneg_of_not_lt (gammaX_absLe L hL ia h32 hv1 hz hv2) hlt
      by_cases hlt : FVal.lt (FVal.add (FVal.mul (L.sqrt (gammaSqArg (gammaAm ia))) (gammaY v1 v2)) (gammaAm ia)) FVal.zero = true
      · refine .inl ⟨⟨.again, 2 * k, v1.isZero⟩, ?_, by simp only; omega, ?_⟩
        · simp [gammaBigIter, bind, Except.bind, h1, hlt, pure, Except.pure]
        · exact ⟨hfz, fun _ x hx => by cases hx⟩
      · rcases random_cases f hf (advance (2 * k) g) with ⟨r, h3, _⟩ | ⟨e, h3⟩
        · rw [advance_add] at h3
          by_cases hgt : FVal.gt r (gammaRhs L (gammaAm ia) (gammaY v1 v2)
              (FVal.mul (L.sqrt (gammaSqArg (gammaAm ia))) (gammaY v1 v2))
              (FVal.add (FVal.mul (L.sqrt (gammaSqArg (gammaAm ia))) (gammaY v1 v2)) (gammaAm ia))) = true
          · refine .inl ⟨⟨.again, 2 * k + 1, v1.isZero⟩, ?_, by simp only; omega, ?_⟩
            · simp [gammaBigIter, bind, Except.bind, h1, hlt, h3, hgt, pure, Except.pure]
            · exact ⟨hfz, fun _ x hx => by cases hx⟩
          · refine .inl ⟨⟨.ret (FVal.add (FVal.mul (L.sqrt (gammaSqArg (gammaAm ia))) (gammaY v1 v2)) (gammaAm ia)),
              2 * k + 1, v1.isZero⟩, ?_, by simp only; omega, ?_⟩
            · simp [gammaBigIter, bind, Except.bind, h1, hlt, h3, hgt, pure, Except.pure]
            · refine ⟨hfz, ?_⟩
              intro hz x hx
              injection hx with hx
              subst hx
              exact hret hz (by simpa using hlt)
        · exact .inr ⟨e, by simp [gammaBigIter, bind, Except.bind, h1, hlt, h3]⟩
  · exact .inr ⟨e, by simp [gammaBigIter, bind, Except.bind, h1]⟩

/-- what the whole function guarantees -/
def ResOk (fixed : Bool) (r : GammaRes) : Prop :=
  (fixed = true → r.divZero = false) ∧
  (r.divZero = false → ∀ x, r.value = some x → FinNonnegLe 100 x)

theorem gammaBigLoop_cases (f : BitsFn) (hf : GoodBits f) (L : Libm) (hL : LibmLaws2 L) (fixed : Bool)
    (ia : Nat) (h32 : ia < 2 ^ 32) (fi fo : Nat) (g : Rng) :
    (∃ r, gammaBigLoop f L fixed (gammaAm ia) fi fo g = .ok (r, advance r.draws g) ∧
        r.draws ≤ (2 * fi + 1) * fo ∧ ResOk fixed r) ∨
    (∃ e, gammaBigLoop f L fixed (gammaAm ia) fi fo g = .error e) := by
  induction fo generalizing g with
  | zero => exact .inl ⟨⟨none, 0, false⟩, rfl, by simp, fun _ => rfl, fun _ x hx => by cases hx⟩
  | succ fo ih =>
    have hmul : (2 * fi + 1) * (fo + 1) = (2 * fi + 1) * fo + (2 * fi + 1) := Nat.mul_succ _ _
    rcases gammaBigIter_cases f hf L hL fixed ia h32 fi g with ⟨st, h1, hd, hok⟩ | ⟨e, h1⟩
    · obtain ⟨out, draws, dz⟩ := st
      cases out with
      | ret x =>
        refine .inl ⟨⟨some x, draws, dz⟩, ?_, by simp only at hd ⊢; omega, hok.1, ?_⟩
        · simp [gammaBigLoop, bind, Except.bind, h1, pure, Except.pure]
        · intro hz y hy
          injection hy with hy
          subst hy
          exact hok.2 hz x rfl
      | stuck =>
        refine .inl ⟨⟨none, draws, dz⟩, ?_, by simp only at hd ⊢; omega, hok.1, fun _ x hx => by cases hx⟩
        simp [gammaBigLoop, bind, Except.bind, h1, pure, Except.pure]
      | again =>
        rcases ih (advance draws g) with ⟨r, h2, hd2, hok2⟩ | ⟨e, h2⟩
        · rw [advance_add] at h2
          refine .inl ⟨⟨r.value, draws + r.draws, dz || r.divZero⟩, ?_, by simp only at hd ⊢; omega, ?_, ?_⟩
          · simp [gammaBigLoop, bind, Except.bind, h1, h2, pure, Except.pure]
          · intro hfx
            have a := hok.1 hfx
            have b := hok2.1 hfx
            simp only at a
            simp [a, b]
          · intro hz x hx
            simp only [Bool.or_eq_false_iff] at hz
            exact hok2.2 hz.2 x hx
        · exact .inr ⟨e, by simp [gammaBigLoop, bind, Except.bind, h1, h2]⟩
    · exact .inr ⟨e, by simp [gammaBigLoop, bind, Except.bind, h1]⟩

end RootSim.Rand
