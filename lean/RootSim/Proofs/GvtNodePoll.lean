import RootSim.Proofs.GvtNodeSteps2
/-! Preservation of `Inv` by `poll`. -/
namespace RootSim.GvtNode

theorem nReported_pos (s : St) (t : Nat) (th : Thr) (h : s.thr[t]? = some th)
    (hr : th.stage.reported = true) : 1 ≤ nReported s th.node := by
  have h1 := countP_set' (fun th0 : Thr => th0.node = th.node && th0.stage.reported) s.thr t th
    { th with stage := .redux1 } h
  have hw : Stage.reported .redux1 = false := rfl
  simp [hr, hw] at h1
  simp only [nReported]; omega

theorem allContrib_get (s : St) (k : Nat) (nd : Node) (h : s.nodes[k]? = some nd)
    (ha : allContrib s = true) : nd.contrib.isSome = true := by
  simp only [allContrib, List.all_eq_true] at ha
  exact ha nd (List.mem_of_getElem? h)

/-- `no_premature_pass`, invariant form: while the `fetch_sub` of `node_sent_reduce_wait` has not happened
at node `k`, a thread of `k` that has reported reads a value `≥ 1` from `total_msg_received` -/
theorem recv_pos_of_not_subtracted (old : Bool) (s : St) (hinv : Inv old s) (t : Nat) (th : Thr) (nd : Node)
    (h : s.thr[t]? = some th) (hnd : s.nodes[th.node]? = some nd) (hr : th.stage.reported = true)
    (hsub : nd.subtracted = false) : 1 ≤ nd.totalRecv := by
  have I := hinv.node _ nd hnd
  have := nReported_pos s t th h hr
  have h1 := I.recv_eq
  have h2 := I.cc_eq
  simp only [hsub] at h1
  simp at h1; omega

theorem inv_poll (old : Bool) (s s' : St) (t : Nat) (hinv : Inv old s)
    (hs : poll s t = some s') : Inv old s' := by
  unfold poll at hs
  split at hs
  · simp at hs
  rename_i th h
  split at hs
  · simp at hs
  rename_i nd hnd
  split at hs
  case isFalse => simp at hs
  rename_i hst
  have T := hinv.thr t th h
  have I0 := hinv.node _ nd hnd
  have hpost : th.colour = !old := T.col_post (by simp [hst])
  have hrep : th.stage.reported = true := by simp [hst, Stage.reported]
  have hno : (!th.colour) = old := by simp [hpost]
  simp only [Option.some.injEq, hno] at hs
  generalize hth' : ({ th with
      recv := th.recv.set old 0
      stage := if nd.totalRecv = 0 then Stage.redux2 else Stage.wait } : Thr) = th' at hs
  generalize hnd' : ({ nd with
      totalRecv := nd.totalRecv + (th.recv.get old : Int)
      polled := nd.polled + th.recv.get old
      totalSent := if nd.totalRecv = 0 then cleanup s.nodes.length s.N th.rid nd.totalSent
                   else nd.totalSent } : Node) = nd' at hs
  have hthr : s'.thr = s.thr.set t th' := by rw [← hs]
  have hnodes : s'.nodes = s.nodes.set th.node nd' := by rw [← hs]
  have hN : s'.N = s.N := by rw [← hs]
  have hfl : s'.flight = s.flight := by rw [← hs]
  clear hs
  have e1 : th'.node = th.node := by rw [← hth']
  have e2 : th'.colour = th.colour := by rw [← hth']
  have e3 : th'.unrep = th.unrep := by rw [← hth']
  have e4 : th'.recv.get old = 0 := by rw [← hth']; simp
  have e5 : th'.stage.reported = true ∧ th'.stage ≠ .reduceWait ∧ th'.stage ≠ .redux1 := by
    rw [← hth']; dsimp only; split <;> simp [Stage.reported]
  have f1 : nd'.cc = nd.cc := by rw [← hnd']
  have f2 : nd'.contrib = nd.contrib := by rw [← hnd']
  have f3 : nd'.subtracted = nd.subtracted := by rw [← hnd']
  have f4 : nd'.toReceive = nd.toReceive := by rw [← hnd']
  have f5 : nd'.totalRecv = nd.totalRecv + (th.recv.get old : Int) := by rw [← hnd']
  have f6 : nd'.polled = nd.polled + th.recv.get old := by rw [← hnd']
  have f7 : eff nd' = eff nd := by
    rw [← hnd']; simp only [eff]
    split
    · rename_i h0
      have hsub : nd.subtracted = true := by
        cases hsb : nd.subtracted
        · have := recv_pos_of_not_subtracted old s hinv t th nd h hnd hrep hsb; omega
        · rfl
      have := allContrib_get s _ nd hnd (I0.sub hsub).1
      cases hc : nd.contrib <;> simp [hc] at this ⊢
    · rfl
  obtain ⟨o1, o2, o3⟩ := counts_own s s' t th th' h e1 hthr
  rw [hrep, e5.1] at o2
  simp [hst, e5.2.1] at o3
  constructor
  · intro t' x hx
    rw [hthr] at hx; simp only [hnodes, List.length_set]
    rcases thr_set_cases _ _ _ _ _ hx with ⟨_, rfl⟩ | ⟨_, hx⟩
    · refine ⟨e1 ▸ T.node_lt, fun h1 => absurd h1 e5.2.2, fun _ => e2 ▸ hpost, fun _ => ?_⟩
      rw [e3]; exact T.unrep_nil hrep
    · exact hinv.thr t' x hx
  · intro k nd1 hk
    obtain ⟨a1, a2⟩ := contrib_same s s' th.node nd nd' hnd hnodes f2 k
    obtain ⟨b1, b2, b3⟩ := sums_step old s s' t th.node th th' nd nd' h hnd hthr hnodes k
    rw [f7] at b1; rw [e3] at b2; rw [e1, e4] at b3
    rw [hnodes] at hk
    rcases thr_set_cases _ _ _ _ _ hk with ⟨rfl, rfl⟩ | ⟨hne, hk⟩
    · have bal := I0.balance
      have hr := I0.recv_eq
      constructor <;> (try rw [hN])
      · rw [o1]; exact I0.nthr
      · rw [f1, I0.cc_eq]; omega
      · rw [f2, f3, o3]; exact I0.redwait
      · rw [f1, f3, f4, f5, f6, hr]; simp; omega
      · rw [f1, f2]; exact I0.contrib_iff
      · rw [f3, f4, a1, a2]; exact I0.sub
      · simp only [flightTo, hfl] at *; simp at b3; omega
    · have I := hinv.node k nd1 hk
      obtain ⟨c1, c2, c3⟩ := counts_other s s' t th th' h e1 hthr k hne
      have bal := I.balance
      have hne' : th.node ≠ k := fun h => hne h.symm
      constructor <;> (try rw [hN])
      · rw [c1]; exact I.nthr
      · rw [c2]; exact I.cc_eq
      · rw [c3]; exact I.redwait
      · exact I.recv_eq
      · exact I.contrib_iff
      · rw [a1, a2]; exact I.sub
      · simp only [flightTo, hfl] at *; simp [hne'] at b3; omega

end RootSim.GvtNode
