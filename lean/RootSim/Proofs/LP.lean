import RootSim.Model.LP
/-! Invariants of the LP-local rollback machine (L2): C05(b), C13(b), C01(A). -/
namespace RootSim.LP
open RootSim

variable {σ : Type}

/-- deterministic re-execution of a list of messages from a state (outputs ignored) -/
def replay (h : σ → Event → σ × List Event) (ev : Nat → Event) (s : σ) (ms : List Nat) : σ :=
  ms.foldl (fun s m => (h s (ev m)).1) s

theorem silentExec_eq_replay (h : σ → Event → σ × List Event) (ev : Nat → Event) (s : σ) (ms : List Nat) :
    silentExec h ev s ms = replay h ev s ms := rfl

theorem replay_append (h : σ → Event → σ × List Event) (ev : Nat → Event) (s : σ) (a b : List Nat) :
    replay h ev s (a ++ b) = replay h ev (replay h ev s a) b := by
  simp [replay, List.foldl_append]

theorem pastMsgs_append (a b : List Entry) : pastMsgs (a ++ b) = pastMsgs a ++ pastMsgs b := by
  simp [pastMsgs, List.filterMap_append]

theorem pastMsgs_sent (outs : List Nat) : pastMsgs (outs.map Entry.sent) = [] := by
  induction outs with
  | nil => rfl
  | cons o os ih => simp [pastMsgs] at ih ⊢

/-- `scanBack` on a reversed list `r`: either nothing satisfies `p`, or `r = pre ++ x :: xs` where
`x` is the first hit and the result is `xs.length + 1` -/
theorem scanBack_spec {α : Type} (p : α → Bool) : ∀ (r : List α),
    (scanBack p r = 0 ∧ ∀ x ∈ r, p x = false) ∨
    (∃ pre x xs, r = pre ++ x :: xs ∧ (∀ y ∈ pre, p y = false) ∧ p x = true ∧
      scanBack p r = xs.length + 1)
  | [] => by left; simp [scanBack]
  | a :: as => by
    by_cases ha : p a = true
    · right; exact ⟨[], a, as, rfl, by simp, ha, by simp [scanBack, ha]⟩
    · have ha' : p a = false := by simpa using ha
      rcases scanBack_spec p as with ⟨h0, hall⟩ | ⟨pre, x, xs, hr, hpre, hx, hk⟩
      · left; refine ⟨by simp [scanBack, ha', h0], ?_⟩
        intro x hx; rcases List.mem_cons.mp hx with h | h
        · subst h; exact ha'
        · exact hall x h
      · right; refine ⟨a :: pre, x, xs, by simp [hr], ?_, hx, by simp [scanBack, ha', hk]⟩
        intro y hy; rcases List.mem_cons.mp hy with h | h
        · subst h; exact ha'
        · exact hpre y h

/-- the same, phrased on the original (un-reversed) list `l`: `l = A ++ x :: B`, `x` is the LAST
element satisfying `p`, result `A.length + 1` -/
theorem scanBack_rev_spec {α : Type} (p : α → Bool) (l : List α) :
    (scanBack p l.reverse = 0 ∧ ∀ x ∈ l, p x = false) ∨
    (∃ A x B, l = A ++ x :: B ∧ (∀ y ∈ B, p y = false) ∧ p x = true ∧
      scanBack p l.reverse = A.length + 1) := by
  rcases scanBack_spec p l.reverse with ⟨h0, hall⟩ | ⟨pre, x, xs, hr, hpre, hx, hk⟩
  · left; exact ⟨h0, fun x hx => hall x (List.mem_reverse.mpr hx)⟩
  · right
    refine ⟨xs.reverse, x, pre.reverse, ?_, ?_, hx, by simp [hk]⟩
    · have := congrArg List.reverse hr
      simp at this; rw [this]
    · intro y hy; exact hpre y (List.mem_reverse.mp hy)

theorem findLog_some {logs : List (Nat × σ)} {target i : Nat} (h : findLog logs target = some i) :
    ∃ A x B, logs = A ++ x :: B ∧ i = A.length ∧ x.1 ≤ target ∧ ∀ y ∈ B, ¬ y.1 ≤ target := by
  unfold findLog at h
  rcases scanBack_rev_spec (fun (x : Nat × σ) => decide (x.1 ≤ target)) logs with
    ⟨h0, _⟩ | ⟨A, x, B, hl, hB, hx, hk⟩
  · simp [h0] at h
  · simp only [hk, Nat.add_one_ne_zero, if_false, Nat.add_sub_cancel, Option.some.injEq] at h
    refine ⟨A, x, B, hl, h.symm, by simpa using hx, ?_⟩
    intro y hy; have := hB y hy; simpa using this

theorem findLog_exists {logs : List (Nat × σ)} {target : Nat} (x : Nat × σ) (hx : x ∈ logs) (hle : x.1 ≤ target) :
    ∃ i, findLog logs target = some i := by
  unfold findLog
  rcases scanBack_rev_spec (fun (x : Nat × σ) => decide (x.1 ≤ target)) logs with
    ⟨_, hall⟩ | ⟨A, _, _, _, _, _, hk⟩
  · have := hall x hx; simp at this; omega
  · exact ⟨A.length, by simp [hk]⟩


/-! ### The LP invariant

`init` is the LP state before its first kept message, `base` the (ghost) list of messages already
committed and dropped by fossil collection. The invariant says: the current state and every
checkpoint are *exactly* the deterministic re-execution of the corresponding history prefix. -/

structure LInv (h : σ → Event → σ × List Event) (ev : Nat → Event) (init : σ) (base : List Nat)
    (lp : LPState σ) : Prop where
  log_ok : ∀ x ∈ lp.logs, x.1 ≤ lp.hist.length ∧
    x.2 = replay h ev init (base ++ pastMsgs (lp.hist.take x.1))
  sorted : lp.logs.Pairwise (fun a b => a.1 ≤ b.1)
  st_ok : lp.st = replay h ev init (base ++ pastMsgs lp.hist)

variable {h : σ → Event → σ × List Event} {ev : Nat → Event} {init : σ} {base : List Nat}

theorem forward_hist (lp : LPState σ) (m : Nat) (e : Event) (outs : List Nat) :
    (forward h lp m e outs).1.hist = lp.hist ++ outs.map Entry.sent ++ [.past m] := by
  simp [forward]

theorem forward_inv {lp : LPState σ} (hI : LInv h ev init base lp) (m : Nat) (outs : List Nat) :
    LInv h ev init base (forward h lp m (ev m) outs).1 := by
  have hh := forward_hist (h := h) lp m (ev m) outs
  refine ⟨?_, ?_, ?_⟩
  · intro x hx
    have hx' : x ∈ lp.logs := by simpa [forward] using hx
    obtain ⟨h1, h2⟩ := hI.log_ok x hx'
    rw [hh]
    refine ⟨by simp; omega, ?_⟩
    rw [h2, List.append_assoc, List.take_append_of_le_length h1]
  · simpa [forward] using hI.sorted
  · rw [hh]
    simp only [pastMsgs_append, pastMsgs_sent, List.append_nil]
    have : pastMsgs [Entry.past m] = [m] := rfl
    rw [this, ← List.append_assoc, replay_append, ← hI.st_ok]
    simp [forward, replay]

theorem checkpoint_inv {lp : LPState σ} (hI : LInv h ev init base lp) :
    LInv h ev init base (checkpoint lp) := by
  refine ⟨?_, ?_, ?_⟩
  · intro x hx
    simp only [checkpoint, List.mem_append, List.mem_singleton] at hx ⊢
    rcases hx with hx | hx
    · exact hI.log_ok x hx
    · subst hx; simp [hI.st_ok]
  · simp only [checkpoint]
    rw [List.pairwise_append]
    refine ⟨hI.sorted, by simp, ?_⟩
    intro a ha b hb
    simp at hb; subst hb
    exact (hI.log_ok a ha).1
  · simpa [checkpoint] using hI.st_ok

theorem take_len_succ {α : Type} (A : List α) (x : α) (B : List α) :
    (A ++ x :: B).take (A.length + 1) = A ++ [x] := by
  induction A with
  | nil => simp
  | cons a as ih => simp [ih]

theorem pastMsgs_take_split (hist : List Entry) (r i : Nat) (hri : r ≤ i) :
    pastMsgs (hist.take r) ++ pastMsgs ((hist.take i).drop r) = pastMsgs (hist.take i) := by
  rw [← pastMsgs_append]
  congr 1
  have : hist.take r = (hist.take i).take r := by
    rw [List.take_take]; congr 1; omega
  rw [this, List.take_append_drop]

/-- **Rollback is exact** (C05): whenever some checkpoint is not after the target index `i`, the
rollback succeeds, keeps exactly `hist[0..i)`, and the state handed to the next handler equals the
deterministic re-execution of exactly the messages that remain valid — for every history, every
checkpoint placement, every target. -/
theorem rollback_exact {lp : LPState σ} (hI : LInv h ev init base lp) (i : Nat)
    (hck : ∃ x ∈ lp.logs, x.1 ≤ i) :
    ∃ o, rollback h ev lp i = some o ∧
      o.lp.hist = lp.hist.take i ∧
      o.undone = lp.hist.drop i ∧
      o.lp.st = replay h ev init (base ++ pastMsgs (lp.hist.take i)) ∧
      LInv h ev init base o.lp := by
  obtain ⟨x0, hx0, hle0⟩ := hck
  obtain ⟨li, hli⟩ := findLog_exists x0 hx0 hle0
  obtain ⟨A, x, B, hlogs, hlen, hxi, _⟩ := findLog_some hli
  have hget : lp.logs[li]? = some x := by
    rw [hlogs, hlen]; simp
  have hxmem : x ∈ lp.logs := by rw [hlogs]; simp
  obtain ⟨hx1, hx2⟩ := hI.log_ok x hxmem
  have hst : silentExec h ev x.2 (pastMsgs ((lp.hist.take i).drop x.1)) =
      replay h ev init (base ++ pastMsgs (lp.hist.take i)) := by
    rw [silentExec_eq_replay, hx2, ← replay_append, List.append_assoc, pastMsgs_take_split _ _ _ hxi]
  refine ⟨_, by simp only [rollback, hli, hget]; rfl, rfl, rfl, hst, ?_⟩
  refine ⟨?_, ?_, hst⟩
  · intro y hy
    simp only at hy
    have hy' : y ∈ A ++ [x] := by
      rw [hlogs, hlen, take_len_succ] at hy
      exact hy
    have hymem : y ∈ lp.logs := by
      rw [hlogs]; rcases List.mem_append.mp hy' with h1 | h1
      · exact List.mem_append_left _ h1
      · simp at h1; subst h1; simp
    have hyi : y.1 ≤ i := by
      rcases List.mem_append.mp hy' with h1 | h1
      · have hs := hI.sorted
        rw [hlogs, List.pairwise_append] at hs
        have := hs.2.2 y h1 x (by simp)
        omega
      · simp at h1; subst h1; exact hxi
    obtain ⟨hy1, hy2⟩ := hI.log_ok y hymem
    refine ⟨by rw [List.length_take]; omega, ?_⟩
    rw [hy2]; congr 2
    simp only; rw [List.take_take, Nat.min_eq_left hyi]
  · simp only
    exact (hI.sorted.sublist (List.take_sublist _ _))

/-- **Fossil collection keeps what a legal rollback needs** (C13): the kept history starts exactly
at the kept checkpoint (whose reference becomes 0), the state is untouched, the dropped entries are
a prefix, and the invariant continues to hold with the dropped messages added to the committed base —
so `rollback_exact` applies to every later target (a checkpoint with reference 0 ≤ anything exists). -/
theorem fossil_inv {lp : LPState σ} (hI : LInv h ev init base lp) (t : Nat → Nat) (gvt ep : Nat)
    {o : FossilOut σ} (ho : fossil t lp gvt ep = some o) :
    lp.hist = o.dropped ++ o.lp.hist ∧ o.lp.st = lp.st ∧ o.dropped.length = o.n ∧
    (∃ x, o.lp.logs.head? = some x ∧ x.1 = 0) ∧
    LInv h ev init (base ++ pastMsgs o.dropped) o.lp := by
  unfold fossil at ho
  simp only at ho
  split at ho
  · simp at ho
  · rename_i hk
    split at ho
    · simp at ho
    · rename_i li hli
      obtain ⟨A, x, B, hlogs, hlen, hxk, _⟩ := findLog_some hli
      have hget : lp.logs[li]? = some x := by rw [hlogs, hlen]; simp
      rw [hget] at ho
      simp only [Option.some.injEq] at ho
      subst ho
      have hxmem : x ∈ lp.logs := by rw [hlogs]; simp
      obtain ⟨hx1, hx2⟩ := hI.log_ok x hxmem
      have hdrop : lp.logs.drop li = x :: B := by
        rw [hlogs, hlen]; simp
      refine ⟨by simp, rfl, by simp; omega, ⟨(0, x.2), by simp [hdrop], rfl⟩, ?_⟩
      refine ⟨?_, ?_, ?_⟩
      · intro y hy
        simp only [hdrop, List.mem_map] at hy
        obtain ⟨z, hz, rfl⟩ := hy
        have hzmem : z ∈ lp.logs := by rw [hlogs]; exact List.mem_append_right _ hz
        have hzx : x.1 ≤ z.1 := by
          rcases List.mem_cons.mp hz with h1 | h1
          · subst h1; exact Nat.le_refl _
          · have hs := hI.sorted
            rw [hlogs, List.pairwise_append] at hs
            exact (List.pairwise_cons.mp hs.2.1).1 z h1
        obtain ⟨hz1, hz2⟩ := hI.log_ok z hzmem
        refine ⟨by simp; omega, ?_⟩
        simp only
        rw [hz2, List.append_assoc, ← pastMsgs_append]
        congr 3
        have : z.1 = x.1 + (z.1 - x.1) := by omega
        conv => lhs; rw [this]
        rw [List.take_add]
      · simp only [hdrop]
        rw [List.pairwise_map]
        have hs := hI.sorted
        rw [hlogs, List.pairwise_append] at hs
        exact hs.2.1.imp (fun {a b} hab => by omega)
      · simp only
        rw [hI.st_ok, List.append_assoc, ← pastMsgs_append, List.take_append_drop]

end RootSim.LP
