import RootSim.Model.Alloc
/-! Byte-level lemmas: `writeAt` / `readAt` pointwise, the checkpoint copy loops. -/
namespace RootSim.Alloc

theorem writeAt_length {mem : List Nat} {o : Nat} {bs : List Nat} (h : o + bs.length ≤ mem.length) :
    (writeAt mem o bs).length = mem.length := by
  simp [writeAt]; omega

theorem writeAt_get {mem : List Nat} {o : Nat} {bs : List Nat} (h : o + bs.length ≤ mem.length) (i : Nat) :
    (writeAt mem o bs)[i]? = if o ≤ i ∧ i < o + bs.length then bs[i - o]? else mem[i]? := by
  unfold writeAt
  by_cases h1 : i < o
  · rw [List.append_assoc, List.getElem?_append_left (by simp; omega)]
    simp [h1]; omega
  · rw [List.append_assoc, List.getElem?_append_right (by simp; omega)]
    have ht : (List.take o mem).length = o := by simp; omega
    rw [ht]
    by_cases h2 : i < o + bs.length
    · rw [List.getElem?_append_left (by omega)]
      simp [h2]; omega
    · rw [List.getElem?_append_right (by omega)]
      simp [List.getElem?_drop, h2]
      congr 1; omega

theorem readAt_get (mem : List Nat) (o len i : Nat) :
    (readAt mem o len)[i]? = if i < len then mem[o + i]? else none := by
  simp [readAt, List.getElem?_take, List.getElem?_drop]

theorem readAt_length {mem : List Nat} {o len : Nat} (h : o + len ≤ mem.length) :
    (readAt mem o len).length = len := by
  simp [readAt]; omega

theorem readAt_ext {m1 m2 : List Nat} {o len : Nat}
    (h : ∀ i, o ≤ i → i < o + len → m1[i]? = m2[i]?) : readAt m1 o len = readAt m2 o len := by
  apply List.ext_getElem?
  intro i
  rw [readAt_get, readAt_get]
  split
  · exact h _ (by omega) (by omega)
  · rfl

theorem readAt_writeAt_same {mem : List Nat} {o : Nat} {bs : List Nat} (h : o + bs.length ≤ mem.length) :
    readAt (writeAt mem o bs) o bs.length = bs := by
  apply List.ext_getElem?
  intro i
  rw [readAt_get, writeAt_get h]
  by_cases hi : i < bs.length
  · simp [hi]
  · simp [hi]

/-- membership of `i` in one of the regions -/
def inRegions (R : List (Nat × Nat)) (i : Nat) : Prop := ∃ r ∈ R, r.1 ≤ i ∧ i < r.1 + r.2

/-- Copying the regions `R` of `src` into a checkpoint and back into `m` (the two `buddy_tree_visit`
loops of `checkpoint_full_take` / `checkpoint_full_restore`) makes `m` agree with `src` on the
regions and leaves every other byte alone. -/
theorem restoreMem_saved (R : List (Nat × Nat)) (src m : List Nat) (hl : m.length = src.length)
    (hR : ∀ r ∈ R, r.1 + r.2 ≤ src.length) :
    let m' := restoreMem m R (R.flatMap fun r => readAt src r.1 r.2)
    m'.length = m.length ∧
      ∀ i, (inRegions R i → m'[i]? = src[i]?) ∧ (¬ inRegions R i → m'[i]? = m[i]?) := by
  induction R generalizing m with
  | nil => simp [restoreMem, inRegions]
  | cons r R ih =>
    have hr := hR r (by simp)
    have hlen : (readAt src r.1 r.2).length = r.2 := readAt_length hr
    simp only [List.flatMap_cons, restoreMem]
    rw [List.take_append_of_le_length (by omega), List.drop_append_of_le_length (by omega),
      List.take_of_length_le (by omega), List.drop_of_length_le (by omega)]
    simp only [List.nil_append]
    have hw : r.1 + (readAt src r.1 r.2).length ≤ m.length := by omega
    have := ih (writeAt m r.1 (readAt src r.1 r.2)) (by rw [writeAt_length hw, hl])
      (fun x hx => hR x (by simp [hx]))
    obtain ⟨l1, l2⟩ := this
    refine ⟨by rw [l1, writeAt_length hw], ?_⟩
    intro i
    have hwg := writeAt_get hw i
    rw [hlen, readAt_get] at hwg
    by_cases hin : inRegions R i
    · have h' : inRegions (r :: R) i := by
        obtain ⟨x, hx, q⟩ := hin; exact ⟨x, by simp [hx], q⟩
      exact ⟨fun _ => (l2 i).1 hin, fun hn => absurd h' hn⟩
    · rw [(l2 i).2 hin, hwg]
      by_cases hr' : r.1 ≤ i ∧ i < r.1 + r.2
      · have h' : inRegions (r :: R) i := ⟨r, by simp, hr'⟩
        have e : r.1 + (i - r.1) = i := by omega
        have e' : i - r.1 < r.2 := by omega
        exact ⟨fun _ => by simp [hr', e, e'], fun hn => absurd h' hn⟩
      · have h' : ¬ inRegions (r :: R) i := by
          rintro ⟨x, hx, q⟩
          simp at hx
          rcases hx with rfl | hx
          · exact hr' q
          · exact hin ⟨x, hx, q⟩
        exact ⟨fun hp => absurd hp h', fun _ => by simp [hr']⟩

theorem saved_length {R : List (Nat × Nat)} {src : List Nat} (hR : ∀ r ∈ R, r.1 + r.2 ≤ src.length) :
    (R.flatMap fun r => readAt src r.1 r.2).length = (R.map (·.2)).sum := by
  induction R with
  | nil => simp
  | cons r R ih =>
    simp only [List.flatMap_cons, List.length_append, List.map_cons, List.sum_cons]
    rw [readAt_length (hR r (by simp)), ih (fun x hx => hR x (by simp [hx]))]

end RootSim.Alloc
