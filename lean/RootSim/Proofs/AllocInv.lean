import RootSim.Proofs.AllocOps
/-! The global invariant of the allocator (arenas + checkpoint log) and its preservation by every
API call; exactness of `model_allocator_checkpoint_restore`.

Ghost instrumentation: next to the real state we carry `snaps`, the list of the allocator states at the
moments the currently logged checkpoints were taken (`snaps[i]` belongs to `logs[i]`).  It is only
used to *state* what a restore must reproduce. -/
namespace RootSim.Alloc

/-- real state + ghost snapshots -/
structure GS where
  s : MM
  snaps : List MM

def GS.init (c : Cfg) : GS := ⟨MM.init c, []⟩

/-- `step` with ghost bookkeeping: `take` records the current state; `restore` forgets the snapshots of
the dropped (later) logs; `fossil` forgets those of the dropped (earlier) logs. -/
def gstep (c : Cfg) (g : GS) (op : Op) : Option (GS × Ret) :=
  match step c g.s op with
  | none => none
  | some (s', r) =>
    some (⟨s', match op with
      | .take _ => g.snaps ++ [g.s]
      | .restore _ => g.snaps.take s'.logs.length
      | .fossil _ => g.snaps.drop (g.snaps.length - s'.logs.length)
      | _ => g.snaps⟩, r)

def grun (c : Cfg) : GS → List Op → Option GS
  | g, [] => some g
  | g, op :: ops => match gstep c g op with
    | some (g', _) => grun c g' ops
    | none => none

/-- the invariant of the instrumented state -/
structure GInv (c : Cfg) (g : GS) : Prop where
  inv0 : Inv0 c g.s
  /-- every logged checkpoint is exactly the checkpoint of its snapshot -/
  cks : g.s.logs.map (·.2) = g.snaps.map (mkCkpt c)
  /-- snapshots were consistent states whose arenas still exist, in the same address order -/
  snaps : ∀ σ ∈ g.snaps, Inv0 c σ ∧ (ids σ.arenas).Sublist (ids g.s.arenas)
  /-- `ref_i` strictly increasing -/
  sorted : (g.s.logs.map (·.1)).Pairwise (· < ·)

/-- the (ghost-free) invariant `WF` of C12 (1) -/
def Inv (c : Cfg) (s : MM) : Prop := ∃ snaps, GInv c ⟨s, snaps⟩

theorem Inv.inv0 {c s} (h : Inv c s) : Inv0 c s := h.choose_spec.inv0

theorem GInv_init (c : Cfg) : GInv c (GS.init c) := by
  refine ⟨⟨by simp [GS.init, MM.init], by simp [GS.init, MM.init], by simp [GS.init, MM.init], ?_⟩,
    rfl, by simp [GS.init], by simp [GS.init, MM.init]⟩
  simp [GS.init, MM.init]

/-- what a restore must reproduce of the snapshot `σ` -/
structure Restored (c : Cfg) (σ s' : MM) : Prop where
  same : ∀ a ∈ σ.arenas, ∃ a' ∈ s'.arenas, a'.id = a.id ∧ a'.tree = a.tree ∧
    ∀ b ∈ a.tree.blocks c.T 0, readAt a'.mem b.1 (2 ^ b.2) = readAt a.mem b.1 (2 ^ b.2)
  later : ∀ a' ∈ s'.arenas, a'.id ∉ ids σ.arenas → a'.tree = .free
  full : s'.full = σ.full + (s'.arenas.length - σ.arenas.length) * c.perArena

theorem nodup_reverse {l : List Nat} (h : l.Nodup) : l.reverse.Nodup := by
  unfold List.Nodup at *
  rw [List.pairwise_reverse]
  exact h.imp fun h => Ne.symm h

theorem ids_reverse (as : List Arena) : ids as.reverse = (ids as).reverse := by simp [ids]

theorem sizeOf_reverse (c : Cfg) (as : List Arena) : sizeOf c as.reverse = sizeOf c as := by
  simp [sizeOf, List.sum_reverse]

theorem ids_length (as : List Arena) : (ids as).length = as.length := by simp [ids]

/-- decomposition of the log / snapshot lists at the entry chosen by a backward scan -/
theorem scan_decomp {c : Cfg} {g : GS} (hG : GInv c g) {x r : Nat} {k : Ckpt}
    (h : (keepUpTo x g.s.logs).getLast? = some (r, k)) :
    ∃ ys rest S1 σ S2, keepUpTo x g.s.logs = ys ++ [(r, k)] ∧ g.s.logs = ys ++ (r, k) :: rest ∧
      g.snaps = S1 ++ σ :: S2 ∧ S1.length = ys.length ∧ S2.length = rest.length ∧ k = mkCkpt c σ ∧
      r ≤ x ∧ (∀ e ∈ rest, x < e.1) ∧
      ys.map (·.2) = S1.map (mkCkpt c) ∧ rest.map (·.2) = S2.map (mkCkpt c) := by
  obtain ⟨rest, h1, h2, h3⟩ := keepUpTo_spec x g.s.logs
  have hr := h3 _ h
  rw [List.getLast?_eq_some_iff] at h
  obtain ⟨ys, hys⟩ := h
  rw [hys] at h1
  have hc := hG.cks
  rw [h1] at hc
  simp only [List.map_append, List.map_cons, List.map_nil, List.append_assoc] at hc
  have hc' := hc.symm
  rw [List.map_eq_append_iff] at hc'
  obtain ⟨S1, S', e1, e2, e3⟩ := hc'
  simp only [List.singleton_append] at e3
  rw [List.map_eq_cons_iff] at e3
  obtain ⟨σ, S2, e4, e5, e6⟩ := e3
  refine ⟨ys, rest, S1, σ, S2, hys, by simpa using h1, by rw [e1, e4], ?_, ?_, e5.symm, hr, h2, e2.symm, e6.symm⟩
  · have := congrArg List.length e2; simpa using this
  · have := congrArg List.length e6; simpa using this

/-- C05 core: `model_allocator_checkpoint_restore` reproduces the snapshot of the chosen checkpoint,
whatever happened since (including arenas created later, anywhere in the address order). -/
theorem ckptRestore_spec {c : Cfg} (hc : c.ok) {g : GS} (hG : GInv c g) {x r : Nat} {s' : MM}
    (h : ckptRestore c g.s x = some (s', r)) :
    ∃ ys k rest S1 σ S2, g.s.logs = ys ++ (r, k) :: rest ∧ g.snaps = S1 ++ σ :: S2 ∧
      S1.length = ys.length ∧ r ≤ x ∧ (∀ e ∈ rest, x < e.1) ∧
      s'.logs = ys ++ [(r, k)] ∧ Restored c σ s' ∧ ids s'.arenas = ids g.s.arenas ∧
      s'.nextId = g.s.nextId ∧ GInv c ⟨s', S1 ++ [σ]⟩ := by
  unfold ckptRestore at h
  simp only at h
  split at h
  · simp at h
  · rename_i r' k hlast
    obtain ⟨ys, rest, S1, σ, S2, d1, d2, d3, d4, d5, d6, d7, d8, d9, d10⟩ := scan_decomp hG hlast
    have hσ := hG.snaps σ (by rw [d3]; simp)
    obtain ⟨as, n, q1, q2, q3, q4, q5, q6, q7⟩ :=
      restoreArenas_spec hc g.s.arenas.reverse σ.arenas.reverse
        (fun a ha => (hG.inv0.ok a (by simpa using ha)).2)
        (fun a ha => hσ.1.ok a (by simpa using ha))
        (by rw [ids_reverse]; exact nodup_reverse hG.inv0.nodup)
        (by rw [ids_reverse, ids_reverse]; exact hσ.2.reverse)
    have hrecs : k.recs = σ.arenas.reverse.map (recOf c.T) := by rw [d6]; rfl
    rw [hrecs, q1] at h
    simp only [Option.some.injEq, Prod.mk.injEq] at h
    obtain ⟨rfl, rfl⟩ := h
    have hids : ids as.reverse = ids g.s.arenas := by
      rw [ids_reverse, q2, ids_reverse, List.reverse_reverse]
    have hlen : as.length = g.s.arenas.length := by
      have := congrArg List.length q2
      simpa [ids_length] using this
    have hI' : Inv0 c { g.s with arenas := as.reverse, full := k.size + n * c.perArena,
                                  logs := keepUpTo x g.s.logs } := by
      constructor
      · intro a ha; exact q4 a (by simpa using ha)
      · simp only; rw [hids]; exact hG.inv0.nodup
      · intro a ha
        have : a.id ∈ ids g.s.arenas := by rw [← hids]; exact mem_ids ha
        simp [ids] at this
        obtain ⟨a0, ha0, he⟩ := this
        simp only; rw [← he]; exact hG.inv0.fresh a0 ha0
      · simp only
        rw [sizeOf_reverse, q7, sizeOf_reverse, d6]
        simp only [mkCkpt]
        rw [hσ.1.full]; omega
    refine ⟨ys, k, rest, S1, σ, S2, d2, d3, d4, d7, d8, d1, ?_, hids, rfl, ?_⟩
    · constructor
      · intro a ha
        obtain ⟨a', m1, m2⟩ := q5 a (by simpa using ha)
        exact ⟨a', by simpa using m1, m2⟩
      · intro a' ha' hn
        exact q6 a' (by simpa using ha') (by rw [ids_reverse]; simpa using hn)
      · simp only [List.length_reverse]
        rw [d6]; simp only [mkCkpt]
        simp at q3
        have : n = as.length - σ.arenas.length := by omega
        rw [this]
    · constructor
      · exact hI'
      · simp only [d1, List.map_append, List.map_cons, List.map_nil, d9, d6]
      · intro τ hτ
        have hτ' : τ ∈ g.snaps := by
          rw [d3]; simp at hτ ⊢
          rcases hτ with hτ | hτ
          · exact Or.inl hτ
          · exact Or.inr (Or.inl hτ)
        have := hG.snaps τ hτ'
        exact ⟨this.1, by simp only; rw [hids]; exact this.2⟩
      · simp only [d1]
        have := hG.sorted
        rw [d2] at this
        refine List.Pairwise.sublist ?_ this
        simp

/-- the scans of restore / fossil succeed iff some log has `ref_i ≤` the target -/
theorem ckptRestore_isSome {c : Cfg} {s : MM} {x : Nat} {e : Nat × Ckpt} (he : e ∈ s.logs) (hx : e.1 ≤ x) :
    (ckptRestore c s x).isSome := by
  unfold ckptRestore
  simp only
  have hne := keepUpTo_ne_nil he hx
  cases hk : (keepUpTo x s.logs).getLast? with
  | none => rw [List.getLast?_eq_none_iff] at hk; exact absurd hk hne
  | some v => simp

theorem fossil_isSome {s : MM} {x : Nat} {e : Nat × Ckpt} (he : e ∈ s.logs) (hx : e.1 ≤ x) :
    (fossil s x).isSome := by
  unfold fossil
  simp only
  have hne := keepUpTo_ne_nil he hx
  cases hk : (keepUpTo x s.logs).getLast? with
  | none => rw [List.getLast?_eq_none_iff] at hk; exact absurd hk hne
  | some v => simp

/-- C13 core: effect of `model_allocator_fossil_lp_collect` -/
theorem fossil_spec {c : Cfg} {g : GS} (hG : GInv c g) {x r : Nat} {s' : MM}
    (h : fossil g.s x = some (s', r)) :
    ∃ ys k rest S1 σ S2, g.s.logs = ys ++ (r, k) :: rest ∧ g.snaps = S1 ++ σ :: S2 ∧
      S1.length = ys.length ∧ r ≤ x ∧ (∀ e ∈ rest, x < e.1) ∧ (∀ e ∈ ys, e.1 < r) ∧ (∀ e ∈ rest, r < e.1) ∧
      s' = { g.s with logs := (0, k) :: rest.map fun l => (l.1 - r, l.2) } ∧
      GInv c ⟨s', σ :: S2⟩ := by
  unfold fossil at h
  simp only at h
  split at h
  · simp at h
  · rename_i r' k hlast
    obtain ⟨ys, rest, S1, σ, S2, d1, d2, d3, d4, d5, d6, d7, d8, d9, d10⟩ := scan_decomp hG hlast
    simp only [Option.some.injEq, Prod.mk.injEq] at h
    obtain ⟨rfl, rfl⟩ := h
    have hs := hG.sorted
    rw [d2] at hs
    simp only [List.map_append, List.map_cons] at hs
    rw [List.pairwise_append] at hs
    obtain ⟨_, hs2, hs3⟩ := hs
    rw [List.pairwise_cons] at hs2
    have hlt1 : ∀ e ∈ ys, e.1 < r' := fun e he => hs3 e.1 (List.mem_map_of_mem he) r' (by simp)
    have hlt2 : ∀ e ∈ rest, r' < e.1 := fun e he => hs2.1 e.1 (List.mem_map_of_mem he)
    have hdrop : List.drop ((keepUpTo x g.s.logs).length - 1) g.s.logs = (r', k) :: rest := by
      rw [d1, d2]; simp
    refine ⟨ys, k, rest, S1, σ, S2, d2, d3, d4, d7, d8, hlt1, hlt2, ?_, ?_⟩
    · simp only [hdrop, List.map_cons, Nat.sub_self]
    · simp only [hdrop, List.map_cons, Nat.sub_self]
      constructor
      · exact ⟨hG.inv0.ok, hG.inv0.nodup, hG.inv0.fresh, hG.inv0.full⟩
      · simp only [List.map_cons, List.map_map, Function.comp_def, d6]
        congr 1
      · intro τ hτ
        exact hG.snaps τ (by rw [d3]; simp at hτ ⊢; exact Or.inr hτ)
      · simp only [List.map_cons, List.map_map, Function.comp_def]
        rw [List.pairwise_cons]
        constructor
        · intro y hy
          rw [List.mem_map] at hy
          obtain ⟨e, he, rfl⟩ := hy
          have := hlt2 _ he; omega
        · rw [List.pairwise_map]
          have := hs2.2
          rw [List.pairwise_map] at this
          refine this.imp_of_mem ?_
          intro a b ha hb hab
          have := hlt2 _ ha; have := hlt2 _ hb
          omega


/-! ### preservation -/

theorem GInv.frame {c : Cfg} {s s' : MM} {snaps : List MM} (hG : GInv c ⟨s, snaps⟩) (hF : Frame c s s') :
    GInv c ⟨s', snaps⟩ :=
  ⟨hF.inv, by simpa [hF.logs] using hG.cks, fun σ hσ => ⟨(hG.snaps σ hσ).1, (hG.snaps σ hσ).2.trans hF.sub⟩,
    by simpa [hF.logs] using hG.sorted⟩

/-- the user-level operations (everything except the three checkpoint calls) -/
def Op.isUser : Op → Bool
  | .take _ | .restore _ | .fossil _ => false
  | _ => true

theorem legal_some {c : Cfg} {s : MM} (hI : Inv0 c s) {p : Ptr} (h : s.legal c (some p) = true) :
    ∃ j, (p.aid, p.off, j) ∈ s.live c := by
  simp [MM.legal, Option.isSome_iff_exists] at h
  obtain ⟨j, hj⟩ := h
  exact ⟨j, (blockAt_iff hI p j).1 hj⟩

theorem step_user_frame {c : Cfg} (hc : c.ok) {s s' : MM} (hI : Inv0 c s) {op : Op} {r : Ret}
    (hu : op.isUser = true) (h : step c s op = some (s', r)) : Frame c s s' := by
  cases op with
  | malloc n ins =>
    simp only [step] at h
    split at h
    · simp only [Option.some.injEq] at h
      by_cases hr : ∃ p, r = .ptr p
      · obtain ⟨p, rfl⟩ := hr
        exact (rsMalloc_ptr hc hI h).toFrame
      · have := (rsMalloc_not_ptr hc hI h (fun p hp => hr ⟨p, hp⟩)).1
        subst this; exact Frame.refl hI
    · simp at h
  | calloc nm sz ins =>
    simp only [step] at h
    split at h
    · simp only [Option.some.injEq] at h
      by_cases hr : ∃ p, r = .ptr p
      · obtain ⟨p, rfl⟩ := hr
        obtain ⟨s1, h1, h2⟩ := rsCalloc_ptr hc hI h
        exact h1.toFrame.trans h2.toFrame
      · have := (rsCalloc_not_ptr hc hI h (fun p hp => hr ⟨p, hp⟩)).1
        subst this; exact Frame.refl hI
    · simp at h
  | realloc p n ins =>
    simp only [step] at h
    split at h
    · rename_i hl
      by_cases hn : n = 0
      · simp [rsRealloc, hn] at h
        rw [← h.1]; exact Frame.refl hI
      · cases p with
        | none =>
          simp only [rsRealloc, hn, if_false, Option.some.injEq] at h
          by_cases hr : ∃ p, r = .ptr p
          · obtain ⟨p, rfl⟩ := hr
            exact (rsMalloc_ptr hc hI h).toFrame
          · have := (rsMalloc_not_ptr hc hI h (fun p hp => hr ⟨p, hp⟩)).1
            subst this; exact Frame.refl hI
        | some p =>
          obtain ⟨j, hj⟩ := legal_some hI hl.2
          rcases rsRealloc_spec hc hI hj n ins (by omega) with ⟨_, h1⟩ | ⟨_, _, h1⟩ |
            ⟨_, _, s1, s3, q, h1, h2, h3, h4⟩
          · rw [h1] at h; simp at h; rw [← h.1]; exact Frame.refl hI
          · rw [h1] at h; simp at h; rw [← h.1]; exact Frame.refl hI
          · rw [h1] at h; simp at h; rw [← h.1]
            exact (h2.toFrame.trans h3.toFrame).trans h4.toFrame
    · simp at h
  | free p =>
    simp only [step] at h
    split at h
    · rename_i hl
      cases p with
      | none => simp [rsFree] at h; rw [← h.1]; exact Frame.refl hI
      | some p =>
        obtain ⟨j, hj⟩ := legal_some hI hl
        obtain ⟨s3, h1, h2⟩ := rsFree_spec hc hI hj
        rw [h1] at h; simp at h; rw [← h.1]; exact h2.toFrame
    · simp at h
  | write p i bs =>
    simp only [step] at h
    split at h
    · rename_i k hk
      split at h
      · rename_i hle
        simp at h
        have hl := (blockAt_iff hI p k).1 hk
        have hb := live_bounds hI hl
        obtain ⟨a, ha, he⟩ := mem_arena_of_live hl
        simp at he
        rw [← h.1, ← he]
        exact (poke_spec hI ha (p.off + i) bs (by omega)).toFrame
      · simp at h
    · simp at h
  | take _ => simp [Op.isUser] at hu
  | restore _ => simp [Op.isUser] at hu
  | fossil _ => simp [Op.isUser] at hu

theorem gstep_user {c : Cfg} {g g' : GS} {op : Op} {r : Ret} (hu : op.isUser = true)
    (h : gstep c g op = some (g', r)) : step c g.s op = some (g'.s, r) ∧ g'.snaps = g.snaps := by
  unfold gstep at h
  split at h
  · simp at h
  · rename_i s' r' hs
    simp only [Option.some.injEq, Prod.mk.injEq] at h
    obtain ⟨rfl, rfl⟩ := h
    refine ⟨hs, ?_⟩
    cases op <;> simp [Op.isUser] at hu <;> rfl

/-- **the invariant is preserved by every API call** -/
theorem GInv.step {c : Cfg} (hc : c.ok) {g g' : GS} (hG : GInv c g) {op : Op} {r : Ret}
    (h : gstep c g op = some (g', r)) : GInv c g' := by
  by_cases hu : op.isUser = true
  · obtain ⟨h1, h2⟩ := gstep_user hu h
    have := hG.frame (step_user_frame hc hG.inv0 hu h1)
    rcases g' with ⟨s', sn⟩
    simp at h2; subst h2; exact this
  · unfold gstep at h
    cases op with
    | take ref =>
      simp only [Alloc.step] at h
      split at h
      · simp at h
      · rename_i s' r' hs
        split at hs
        · rename_i hall
          simp only [Option.some.injEq, Prod.mk.injEq] at hs h
          obtain ⟨rfl, rfl⟩ := hs
          obtain ⟨rfl, rfl⟩ := h
          refine ⟨⟨hG.inv0.ok, hG.inv0.nodup, hG.inv0.fresh, hG.inv0.full⟩, ?_, ?_, ?_⟩
          · simp [ckptTake, hG.cks]
          · intro σ hσ
            simp at hσ
            rcases hσ with hσ | rfl
            · exact hG.snaps σ hσ
            · exact ⟨hG.inv0, List.Sublist.refl _⟩
          · simp only [ckptTake, List.map_append, List.map_cons, List.map_nil]
            rw [List.pairwise_append]
            refine ⟨hG.sorted, by simp, ?_⟩
            intro a ha b hb
            simp at hb; subst hb
            rw [List.mem_map] at ha
            obtain ⟨e, he, rfl⟩ := ha
            rw [List.all_eq_true] at hall
            simpa using hall e he
        · simp at hs
    | restore x =>
      simp only [Alloc.step] at h
      split at h
      · simp at h
      · rename_i s' r' hs
        simp only [Option.map_eq_some_iff] at hs
        obtain ⟨⟨s1, r1⟩, hs1, hs2⟩ := hs
        simp only [Prod.mk.injEq] at hs2
        obtain ⟨rfl, rfl⟩ := hs2
        simp only [Option.some.injEq, Prod.mk.injEq] at h
        obtain ⟨rfl, rfl⟩ := h
        obtain ⟨ys, k, rest, S1, σ, S2, d1, d2, d3, _, _, d6, _, _, _, d10⟩ := ckptRestore_spec hc hG hs1
        show GInv c ⟨s1, g.snaps.take s1.logs.length⟩
        rw [d6, d2]
        have : List.take (ys ++ [(r1, k)]).length (S1 ++ σ :: S2) = S1 ++ [σ] := by
          have e : (ys ++ [(r1, k)]).length = (S1 ++ [σ]).length := by simp [d3]
          rw [e]
          have : S1 ++ σ :: S2 = (S1 ++ [σ]) ++ S2 := by simp
          rw [this, List.take_left]
        rw [this]; exact d10
    | fossil x =>
      simp only [Alloc.step] at h
      split at h
      · simp at h
      · rename_i s' r' hs
        simp only [Option.map_eq_some_iff] at hs
        obtain ⟨⟨s1, r1⟩, hs1, hs2⟩ := hs
        simp only [Prod.mk.injEq] at hs2
        obtain ⟨rfl, rfl⟩ := hs2
        simp only [Option.some.injEq, Prod.mk.injEq] at h
        obtain ⟨rfl, rfl⟩ := h
        obtain ⟨ys, k, rest, S1, σ, S2, d1, d2, d3, _, _, _, _, d8, d9⟩ := fossil_spec hG hs1
        show GInv c ⟨s1, g.snaps.drop (g.snaps.length - s1.logs.length)⟩
        have hl : S2.length = rest.length := by
          have := congrArg List.length hG.cks
          rw [d1, d2] at this
          simp at this; omega
        have : List.drop ((g.snaps).length - s1.logs.length) g.snaps = σ :: S2 := by
          rw [d8, d2]; simp only [List.length_cons, List.length_map, List.length_append]
          rw [show S1.length + (S2.length + 1) - (rest.length + 1) = S1.length by omega]
          simp
        rw [this]; exact d9
    | malloc _ _ => simp [Op.isUser] at hu
    | calloc _ _ _ => simp [Op.isUser] at hu
    | realloc _ _ _ => simp [Op.isUser] at hu
    | free _ => simp [Op.isUser] at hu
    | write _ _ _ => simp [Op.isUser] at hu

theorem gstep_fst {c : Cfg} {g g' : GS} {op : Op} {r : Ret} (h : gstep c g op = some (g', r)) :
    step c g.s op = some (g'.s, r) := by
  unfold gstep at h
  split at h
  · simp at h
  · rename_i s' r' hs
    simp only [Option.some.injEq, Prod.mk.injEq] at h
    obtain ⟨rfl, rfl⟩ := h
    exact hs

theorem gstep_of_step {c : Cfg} {g : GS} {s' : MM} {op : Op} {r : Ret} (h : step c g.s op = some (s', r)) :
    ∃ sn, gstep c g op = some (⟨s', sn⟩, r) := by
  unfold gstep
  rw [h]
  exact ⟨_, rfl⟩

theorem GInv.run {c : Cfg} (hc : c.ok) {g g' : GS} (hG : GInv c g) {ops : List Op}
    (h : grun c g ops = some g') : GInv c g' := by
  induction ops generalizing g with
  | nil => simp [grun] at h; subst h; exact hG
  | cons op ops ih =>
    simp only [grun] at h
    split at h
    · rename_i g1 r hs
      exact ih (hG.step hc hs) h
    · simp at h

end RootSim.Alloc

namespace RootSim.Alloc

theorem arena_unique {c : Cfg} {s : MM} (hI : Inv0 c s) {a a' : Arena} (ha : a ∈ s.arenas) (ha' : a' ∈ s.arenas)
    (he : a.id = a'.id) : a = a' := by
  have q1 := findArena_of_mem hI.nodup ha
  have q2 := findArena_of_mem hI.nodup ha'
  rw [he, q2] at q1
  simpa using q1.symm

/-- `Restored` in terms of the live set -/
theorem Restored.live {c : Cfg} {σ s' : MM} (hs : Inv0 c s') (h : Restored c σ s')
    (b : Nat × Nat × Nat) : b ∈ s'.live c ↔ b ∈ σ.live c := by
  rw [mem_live, mem_live]
  constructor
  · rintro ⟨a', ha', e, hb⟩
    by_cases hin : a'.id ∈ ids σ.arenas
    · simp [ids] at hin
      obtain ⟨a, ha, hea⟩ := hin
      obtain ⟨a'', ha'', e1, e2, _⟩ := h.same a ha
      have : a'' = a' := arena_unique hs ha'' ha' (by rw [e1, hea])
      subst this
      exact ⟨a, ha, by rw [hea, e], by rw [← e2]; exact hb⟩
    · rw [h.later a' ha' hin] at hb; simp at hb
  · rintro ⟨a, ha, e, hb⟩
    obtain ⟨a', ha', e1, e2, _⟩ := h.same a ha
    exact ⟨a', ha', by rw [e1, e], by rw [e2]; exact hb⟩

/-- `Restored` in terms of block contents -/
theorem Restored.bytes {c : Cfg} {σ s' : MM} (hσ : Inv0 c σ) (hs : Inv0 c s') (h : Restored c σ s')
    {b : Nat × Nat × Nat} (hb : b ∈ σ.live c) : s'.bytes b = σ.bytes b := by
  rw [mem_live] at hb
  obtain ⟨a, ha, e, hbl⟩ := hb
  obtain ⟨a', ha', e1, _, e3⟩ := h.same a ha
  unfold MM.bytes MM.peek
  rw [← e, findArena_of_mem hσ.nodup ha, ← e1, findArena_of_mem hs.nodup ha']
  exact e3 _ hbl

end RootSim.Alloc

namespace RootSim.Alloc

theorem Inv.init (c : Cfg) : Inv c (MM.init c) := ⟨[], GInv_init c⟩

theorem Inv.step {c : Cfg} (hc : c.ok) {s s' : MM} {op : Op} {r : Ret} (hI : Inv c s)
    (h : step c s op = some (s', r)) : Inv c s' := by
  obtain ⟨snaps, hG⟩ := hI
  obtain ⟨sn, hg⟩ := gstep_of_step (g := ⟨s, snaps⟩) h
  exact ⟨sn, hG.step hc hg⟩

theorem Inv.run {c : Cfg} (hc : c.ok) {s s' : MM} {ops : List Op} (hI : Inv c s)
    (h : run c s ops = some s') : Inv c s' := by
  induction ops generalizing s with
  | nil => simp [Alloc.run] at h; subst h; exact hI
  | cons op ops ih =>
    simp only [Alloc.run] at h
    split at h
    · rename_i s1 r hs; exact ih (hI.step hc hs) h
    · simp at h

/-- the ghost run projects onto the real run -/
theorem run_of_grun {c : Cfg} {g g' : GS} {ops : List Op} (h : grun c g ops = some g') :
    run c g.s ops = some g'.s := by
  induction ops generalizing g with
  | nil => simp [grun] at h; subst h; rfl
  | cons op ops ih =>
    simp only [grun] at h
    split at h
    · rename_i g1 r hs
      simp only [Alloc.run, gstep_fst hs]
      exact ih h
    · simp at h

/-- every real run lifts to a ghost run -/
theorem grun_of_run {c : Cfg} {g : GS} {s' : MM} {ops : List Op} (h : run c g.s ops = some s') :
    ∃ sn, grun c g ops = some ⟨s', sn⟩ := by
  induction ops generalizing g with
  | nil => simp [Alloc.run] at h; subst h; exact ⟨g.snaps, rfl⟩
  | cons op ops ih =>
    simp only [Alloc.run] at h
    split at h
    · rename_i s1 r hs
      obtain ⟨sn, hg⟩ := gstep_of_step (g := g) hs
      obtain ⟨sn', hr⟩ := ih (g := ⟨s1, sn⟩) h
      exact ⟨sn', by simp only [grun, hg]; exact hr⟩
    · simp at h

theorem sorted_index_unique {α : Type} {l : List (Nat × α)} (h : (l.map (·.1)).Pairwise (· < ·))
    {i j : Nat} {a : Nat} {x y : α} (hi : l[i]? = some (a, x)) (hj : l[j]? = some (a, y)) : i = j := by
  rw [List.pairwise_map, List.pairwise_iff_getElem] at h
  obtain ⟨hi1, hi2⟩ := List.getElem?_eq_some_iff.1 hi
  obtain ⟨hj1, hj2⟩ := List.getElem?_eq_some_iff.1 hj
  rcases Nat.lt_trichotomy i j with hlt | heq | hgt
  · have := h i j hi1 hj1 hlt; rw [hi2, hj2] at this; simp at this
  · exact heq
  · have := h j i hj1 hi1 hgt; rw [hi2, hj2] at this; simp at this

end RootSim.Alloc
