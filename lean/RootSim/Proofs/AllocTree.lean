import RootSim.Model.Alloc
/-! Helper lemmas about one buddy tree (`BT`): well-formedness, live blocks, malloc descent, free with
coalescing, `buddy_tree_visit`. -/
namespace RootSim.Alloc
namespace BT

@[simp] theorem longest_free (k) : longest k free = k := rfl
@[simp] theorem longest_alloc (k) : longest k alloc = 0 := by simp [longest]
@[simp] theorem longest_split (k l r) : longest (k + 1) (split l r) = max (longest k l) (longest k r) := by
  simp [longest]
@[simp] theorem blocks_free (k o) : blocks k o free = [] := by simp [blocks]
@[simp] theorem blocks_alloc (k o) : blocks k o alloc = [(o, k)] := by simp [blocks]
@[simp] theorem blocks_split (k o l r) :
    blocks (k + 1) o (split l r) = blocks k o l ++ blocks k (o + 2 ^ k) r := by simp [blocks]
@[simp] theorem WF_free (B k) : WF B k free ↔ B ≤ k := by simp [WF]
@[simp] theorem WF_alloc (B k) : WF B k alloc ↔ B ≤ k := by simp [WF]
@[simp] theorem WF_split_zero (B l r) : WF B 0 (split l r) ↔ False := by simp [WF]
@[simp] theorem WF_split (B k l r) :
    WF B (k + 1) (split l r) ↔ WF B k l ∧ WF B k r ∧ ¬(l = free ∧ r = free) := by simp [WF]

theorem WF.le {B k t} (h : WF B k t) : B ≤ k := by
  induction t generalizing k with
  | free => simpa using h
  | alloc => simpa using h
  | split l r ihl _ =>
    cases k with
    | zero => simp at h
    | succ k => simp at h; have := ihl h.1; omega

theorem longest_le {B k t} (h : WF B k t) : longest k t ≤ k := by
  induction t generalizing k with
  | free => simp
  | alloc => simp
  | split l r ihl ihr =>
    cases k with
    | zero => simp at h
    | succ k => simp at h; have := ihl h.1; have := ihr h.2.1; simp; omega

/-- under `WF` (and `0 < B`) a node is completely free iff its `longest` equals its level -/
theorem longest_eq_iff {B k t} (hB : 0 < B) (h : WF B k t) : longest k t = k ↔ t = free := by
  cases t with
  | free => simp
  | alloc => have := h.le; simp; omega
  | split l r =>
    cases k with
    | zero => simp at h
    | succ k =>
      simp at h
      have := longest_le h.1; have := longest_le h.2.1
      simp; omega

theorem mk_eq {B k l r} (hB : 0 < B) (hl : WF B k l) (hr : WF B k r) :
    mk (k + 1) l r = if l = free ∧ r = free then free else split l r := by
  simp [mk, longest_eq_iff hB hl, longest_eq_iff hB hr]

theorem WF_mk {B k l r} (hB : 0 < B) (hl : WF B k l) (hr : WF B k r) : WF B (k + 1) (mk (k + 1) l r) := by
  rw [mk_eq hB hl hr]
  split
  · simp; have := hl.le; omega
  · simp [*]

theorem blocks_mk {B k l r} (hB : 0 < B) (hl : WF B k l) (hr : WF B k r) (o : Nat) :
    blocks (k + 1) o (mk (k + 1) l r) = blocks k o l ++ blocks k (o + 2 ^ k) r := by
  rw [mk_eq hB hl hr]
  split
  · rename_i h; simp [h.1, h.2]
  · simp

/-- position, size, alignment of the live blocks of a well-formed tree -/
theorem blocks_bounds {B k t} (h : WF B k t) {o o' j : Nat} (hm : (o', j) ∈ blocks k o t) :
    B ≤ j ∧ j ≤ k ∧ o ≤ o' ∧ o' + 2 ^ j ≤ o + 2 ^ k ∧ 2 ^ j ∣ (o' - o) := by
  induction t generalizing k o with
  | free => simp at hm
  | alloc => simp at hm; obtain ⟨rfl, rfl⟩ := hm; simp at h; simp [h]
  | split l r ihl ihr =>
    cases k with
    | zero => simp at h
    | succ k =>
      simp at h hm
      have e : 2 ^ (k + 1) = 2 ^ k + 2 ^ k := by rw [Nat.pow_succ]; omega
      rcases hm with hm | hm
      · have := ihl h.1 hm; omega
      · obtain ⟨h1, h2, h3, h4, h5⟩ := ihr h.2.1 hm
        refine ⟨h1, by omega, by omega, by omega, ?_⟩
        have : o' - o = (o' - (o + 2 ^ k)) + 2 ^ k := by omega
        rw [this]
        exact Nat.dvd_add h5 (Nat.pow_dvd_pow 2 h2)

/-- the live blocks are listed in address order and do not overlap -/
theorem blocks_sorted {B k t} (h : WF B k t) (o : Nat) :
    (blocks k o t).Pairwise (fun a b => a.1 + 2 ^ a.2 ≤ b.1) := by
  induction t generalizing k o with
  | free => simp
  | alloc => simp
  | split l r ihl ihr =>
    cases k with
    | zero => simp at h
    | succ k =>
      simp at h
      simp only [blocks_split]
      rw [List.pairwise_append]
      refine ⟨ihl h.1 o, ihr h.2.1 _, ?_⟩
      intro a ha b hb
      have := blocks_bounds h.1 ha
      have := blocks_bounds h.2.1 hb
      omega

theorem blocks_shift (k o : Nat) (t : BT) :
    blocks k o t = (blocks k 0 t).map fun b => (o + b.1, b.2) := by
  induction t generalizing k o with
  | free => simp
  | alloc => simp
  | split l r ihl ihr =>
    cases k with
    | zero =>
      simp only [blocks]
      rw [ihl, ihr (o := o + 2 ^ (0 - 1)), ihr (o := 0 + 2 ^ (0 - 1))]
      simp [List.map_map, Function.comp_def, Nat.add_assoc]
    | succ k =>
      simp only [blocks_split]
      rw [ihl, ihr (o := o + 2 ^ k), ihr (o := 0 + 2 ^ k)]
      simp [List.map_map, Function.comp_def, Nat.add_assoc]

/-- a well-formed tree without live blocks is the initial tree -/
theorem eq_free_of_blocks_nil {B k t} (h : WF B k t) (o : Nat) (hb : blocks k o t = []) : t = free := by
  induction t generalizing k o with
  | free => rfl
  | alloc => simp at hb
  | split l r ihl ihr =>
    cases k with
    | zero => simp at h
    | succ k =>
      simp at h hb
      exact absurd (ihr h.2.1 _ hb.2) (h.2.2 (ihl h.1 _ hb.1))


theorem longest_split_le {B k l r} (h : WF B (k + 1) (split l r)) : longest (k + 1) (split l r) ≤ k := by
  simp at h; have := longest_le h.1; have := longest_le h.2.1; simp; omega

/-! ### `buddy_malloc` -/

theorem descendN_free (e n : Nat) : descendN e n free = some (carve n, 0) := by
  induction n with
  | zero => rfl
  | succ n ih => simp [descendN, ih, carve]

theorem ne_free_of_blocks {k o t} {l1 l2 : List (Nat × Nat)} {x} (h : blocks k o t = l1 ++ x :: l2) :
    t ≠ free := by
  rintro rfl; simp at h

/-- C12 (8) and the effect of `buddy_malloc`'s descent: on a well-formed node of level `e + n` whose
`longest` is at least the requested order `e`, the descent ends on a completely free node of level
exactly `e`; the result is well-formed, the block is in range and aligned, and the live blocks are the
old ones plus the new one. -/
theorem descendN_spec {B e n t} (hB : 0 < B) (hBe : B ≤ e) (h : WF B (e + n) t)
    (hl : e ≤ longest (e + n) t) :
    ∃ t' off, descendN e n t = some (t', off) ∧ WF B (e + n) t' ∧ off + 2 ^ e ≤ 2 ^ (e + n) ∧
      2 ^ e ∣ off ∧
      ∀ o, ∃ l1 l2, blocks (e + n) o t = l1 ++ l2 ∧ blocks (e + n) o t' = l1 ++ (o + off, e) :: l2 := by
  induction n generalizing t with
  | zero =>
    cases t with
    | free =>
      refine ⟨alloc, 0, rfl, by simpa using hBe, by simp, by simp, fun o => ⟨[], [], by simp, by simp⟩⟩
    | alloc => simp at hl; omega
    | split l r =>
      cases e with
      | zero => omega
      | succ e => have := longest_split_le h; simp at hl this; omega
  | succ n ih =>
    have hk : e + (n + 1) = (e + n) + 1 := rfl
    rw [hk] at h hl ⊢
    have e2 : 2 ^ (e + n + 1) = 2 ^ (e + n) + 2 ^ (e + n) := by rw [Nat.pow_succ]; omega
    cases t with
    | free =>
      obtain ⟨l', off, h1, h2, h3, h4, h5⟩ := ih (t := free) (by simp; omega) (by simp)
      refine ⟨split l' free, off, by simp [descendN, h1], ?_, by omega, h4, ?_⟩
      · obtain ⟨l1, l2, _, q⟩ := h5 0
        simp [h2, ne_free_of_blocks q]; omega
      · intro o
        obtain ⟨l1, l2, p, q⟩ := h5 o
        simp at p
        refine ⟨[], [], by simp, ?_⟩
        simp [q, p.1, p.2]
    | alloc => simp at hl; omega
    | split l r =>
      simp at h hl
      by_cases hc : longest (e + n) l < e
      · obtain ⟨r', off, h1, h2, h3, h4, h5⟩ := ih (t := r) h.2.1 (by omega)
        refine ⟨split l r', 2 ^ (e + n) + off, by simp [descendN, hc, h1], ?_, by omega, ?_, ?_⟩
        · obtain ⟨l1, l2, _, q⟩ := h5 0
          simp [h.1, h2, ne_free_of_blocks q]
        · exact Nat.dvd_add (Nat.pow_dvd_pow 2 (by omega)) h4
        · intro o
          obtain ⟨l1, l2, p, q⟩ := h5 (o + 2 ^ (e + n))
          exact ⟨blocks (e + n) o l ++ l1, l2, by simp [p], by rw [blocks_split, q, Nat.add_assoc, List.append_assoc]⟩
      · obtain ⟨l', off, h1, h2, h3, h4, h5⟩ := ih (t := l) h.1 (by omega)
        refine ⟨split l' r, off, by simp [descendN, hc, h1], ?_, by omega, h4, ?_⟩
        · obtain ⟨l1, l2, _, q⟩ := h5 0
          simp [h.2.1, h2, ne_free_of_blocks q]
        · intro o
          obtain ⟨l1, l2, p, q⟩ := h5 o
          exact ⟨l1, l2 ++ blocks (e + n) (o + 2 ^ (e + n)) r, by simp [p], by simp [q]⟩

/-- `buddy_malloc` on a well-formed tree of level `T`: succeeds iff `longest[0] ≥ e`. -/
theorem bmalloc_spec {B T e t} (hB : 0 < B) (hBe : B ≤ e) (heT : e ≤ T) (h : WF B T t)
    (hl : e ≤ longest T t) :
    ∃ t' off, bmalloc T e t = some (t', off) ∧ WF B T t' ∧ off + 2 ^ e ≤ 2 ^ T ∧ 2 ^ e ∣ off ∧
      ∀ o, ∃ l1 l2, blocks T o t = l1 ++ l2 ∧ blocks T o t' = l1 ++ (o + off, e) :: l2 := by
  have hT : e + (T - e) = T := by omega
  have := descendN_spec (n := T - e) hB hBe (by rwa [hT]) (by rwa [hT])
  rw [hT] at this
  obtain ⟨t', off, h1, rest⟩ := this
  exact ⟨t', off, by simp [bmalloc, h1]; omega, rest⟩

theorem bmalloc_eq_none {B T e t} (hB : 0 < B) (hBe : B ≤ e) (heT : e ≤ T) (h : WF B T t) :
    bmalloc T e t = none ↔ longest T t < e := by
  constructor
  · intro hn
    apply Nat.lt_of_not_le
    intro hl
    obtain ⟨t', off, h1, _⟩ := bmalloc_spec hB hBe heT h hl
    simp [hn] at h1
  · intro hl; simp [bmalloc, hl]

/-! ### `buddy_free`, `buddy_best_effort_realloc` -/

/-- `buddy_free` of a pointer inside the live block `(o', j)`: frees exactly that block, coalesces,
keeps the tree well-formed; afterwards `longest ≥ j` (the space is reusable). -/
theorem bfree_spec {B k t} (hB : 0 < B) (h : WF B k t) {base o o' j : Nat}
    (hm : (o', j) ∈ blocks k base t) (h1 : o' ≤ base + o) (h2 : base + o < o' + 2 ^ j) :
    ∃ t', bfree k o t = some (t', j) ∧ WF B k t' ∧ j ≤ longest k t' ∧
      ∀ b, ∃ l1 l2, blocks k b t = l1 ++ (b + (o' - base), j) :: l2 ∧ blocks k b t' = l1 ++ l2 := by
  induction t generalizing k base o with
  | free => simp at hm
  | alloc =>
    simp at hm; obtain ⟨rfl, rfl⟩ := hm
    exact ⟨free, by simp [bfree], by simpa using h, by simp, fun b => ⟨[], [], by simp, by simp⟩⟩
  | split l r ihl ihr =>
    cases k with
    | zero => simp at h
    | succ k =>
      simp at h hm
      rcases hm with hm | hm
      · have bb := blocks_bounds h.1 hm
        have ho : o < 2 ^ k := by omega
        obtain ⟨l', q1, q2, q3, q4⟩ := ihl h.1 hm h1 h2
        refine ⟨mk (k + 1) l' r, by simp [bfree, ho, q1], WF_mk hB q2 h.2.1, ?_, ?_⟩
        · rw [mk_eq hB q2 h.2.1]; have := longest_le q2; split <;> simp <;> omega
        · intro b
          obtain ⟨l1, l2, p, q⟩ := q4 b
          exact ⟨l1, l2 ++ blocks k (b + 2 ^ k) r, by simp [p], by simp [blocks_mk hB q2 h.2.1, q]⟩
      · have bb := blocks_bounds h.2.1 hm
        have ho : ¬ o < 2 ^ k := by omega
        obtain ⟨r', q1, q2, q3, q4⟩ := ihr (o := o - 2 ^ k) h.2.1 hm (by omega) (by omega)
        refine ⟨mk (k + 1) l r', by simp [bfree, ho, q1], WF_mk hB h.1 q2, ?_, ?_⟩
        · rw [mk_eq hB h.1 q2]; have := longest_le q2; split <;> simp <;> omega
        · intro b
          obtain ⟨l1, l2, p, q⟩ := q4 (b + 2 ^ k)
          have e : b + 2 ^ k + (o' - (base + 2 ^ k)) = b + (o' - base) := by omega
          rw [e] at p
          exact ⟨blocks k b l ++ l1, l2, by simp [p], by simp [blocks_mk hB h.1 q2, q]⟩

theorem orderAt_spec {B k t} (h : WF B k t) {base o o' j : Nat}
    (hm : (o', j) ∈ blocks k base t) (h1 : o' ≤ base + o) (h2 : base + o < o' + 2 ^ j) :
    orderAt k o t = some j := by
  induction t generalizing k base o with
  | free => simp at hm
  | alloc => simp at hm; simp [orderAt, hm.2]
  | split l r ihl ihr =>
    cases k with
    | zero => simp at h
    | succ k =>
      simp at h hm
      rcases hm with hm | hm
      · have bb := blocks_bounds h.1 hm
        have ho : o < 2 ^ k := by omega
        simp [orderAt, ho, ihl h.1 hm h1 h2]
      · have bb := blocks_bounds h.2.1 hm
        have ho : ¬ o < 2 ^ k := by omega
        simp [orderAt, ho, ihr (o := o - 2 ^ k) h.2.1 hm (by omega) (by omega)]


/-! ### `buddy_tree_visit` -/

@[simp] theorem visit_alloc (k o) : visit k o alloc = [(o, 2 ^ k)] := by simp [visit]
theorem visit_free {k} (o) (hk : 0 < k) : visit k o free = [] := by
  have : k ≠ 0 := by omega
  simp [visit, this]

theorem visit_bounds {B k t} (hB : 0 < B) (h : WF B k t) {o : Nat} {r : Nat × Nat} (hr : r ∈ visit k o t) :
    o ≤ r.1 ∧ r.1 + r.2 ≤ o + 2 ^ k := by
  induction t generalizing k o with
  | free => have := h.le; rw [visit_free o (by omega)] at hr; simp at hr
  | alloc => simp at hr; subst hr; simp
  | split l r ihl ihr =>
    cases k with
    | zero => simp at h
    | succ k =>
      have hle := longest_split_le h
      simp at h
      have e2 : 2 ^ (k + 1) = 2 ^ k + 2 ^ k := by rw [Nat.pow_succ]; omega
      unfold visit at hr
      split at hr
      · simp at hr; subst hr; simp
      · split at hr
        · simp at hr
        · simp at hr
          rcases hr with hr | hr
          · have := ihl h.1 hr; omega
          · have := ihr h.2.1 hr; omega

/-- a node with `longest = 0` is completely allocated -/
theorem sum_blocks_of_longest_zero {B k t} (hB : 0 < B) (h : WF B k t) (hz : longest k t = 0) (o : Nat) :
    ((blocks k o t).map fun b => 2 ^ b.2).sum = 2 ^ k := by
  induction t generalizing k o with
  | free => have := h.le; simp at hz; omega
  | alloc => simp
  | split l r ihl ihr =>
    cases k with
    | zero => simp at h
    | succ k =>
      simp at h hz
      have hz' : longest k l = 0 ∧ longest k r = 0 := by omega
      rw [blocks_split, List.map_append, List.sum_append, ihl h.1 hz'.1, ihr h.2.1 hz'.2, Nat.pow_succ]
      omega

/-- the regions visited by `buddy_tree_visit` have the same total size as the live blocks -/
theorem visit_sum {B k t} (hB : 0 < B) (h : WF B k t) (o : Nat) :
    ((visit k o t).map (·.2)).sum = ((blocks k o t).map fun b => 2 ^ b.2).sum := by
  induction t generalizing k o with
  | free => have := h.le; rw [visit_free o (by omega)]; simp
  | alloc => simp
  | split l r ihl ihr =>
    cases k with
    | zero => simp at h
    | succ k =>
      have hle := longest_split_le h
      have hwf := h
      simp at h
      unfold visit
      split
      · rename_i hz; rw [sum_blocks_of_longest_zero hB hwf hz]; simp
      · split
        · omega
        · simp [ihl h.1, ihr h.2.1]

/-- every byte of every live block lies in a visited region -/
theorem visit_cover {B k t} (h : WF B k t) {o o' j : Nat} (hm : (o', j) ∈ blocks k o t)
    {i : Nat} (h1 : o' ≤ i) (h2 : i < o' + 2 ^ j) : ∃ r ∈ visit k o t, r.1 ≤ i ∧ i < r.1 + r.2 := by
  induction t generalizing k o with
  | free => simp at hm
  | alloc => simp at hm; obtain ⟨rfl, rfl⟩ := hm; exact ⟨(o', 2 ^ j), by simp, h1, h2⟩
  | split l r ihl ihr =>
    cases k with
    | zero => simp at h
    | succ k =>
      have hle := longest_split_le h
      have bb := blocks_bounds h hm
      simp at h hm
      unfold visit
      split
      · exact ⟨(o, 2 ^ (k + 1)), by simp, by simp; omega, by simp; omega⟩
      · split
        · omega
        · rcases hm with hm | hm
          · obtain ⟨r, hr, q⟩ := ihl h.1 hm
            exact ⟨r, by simp [hr], q⟩
          · obtain ⟨r, hr, q⟩ := ihr h.2.1 hm
            exact ⟨r, by simp [hr], q⟩

/-- conversely every visited byte belongs to a live block -/
theorem visit_sub {B k t} (hB : 0 < B) (h : WF B k t) {o : Nat} {rg : Nat × Nat} (hr : rg ∈ visit k o t)
    {i : Nat} (h1 : rg.1 ≤ i) (h2 : i < rg.1 + rg.2) : ∃ b ∈ blocks k o t, b.1 ≤ i ∧ i < b.1 + 2 ^ b.2 := by
  induction t generalizing k o rg with
  | free => have := h.le; rw [visit_free o (by omega)] at hr; simp at hr
  | alloc => simp at hr; subst hr; exact ⟨(o, k), by simp, h1, h2⟩
  | split l r ihl ihr =>
    cases k with
    | zero => simp at h
    | succ k =>
      have hle := longest_split_le h
      have hwf := h
      simp at h
      have e2 : 2 ^ (k + 1) = 2 ^ k + 2 ^ k := by rw [Nat.pow_succ]; omega
      unfold visit at hr
      split at hr
      · rename_i hz
        simp at hr; subst hr
        simp at hz
        have hz' : longest k l = 0 ∧ longest k r = 0 := by omega
        simp at h1 h2
        by_cases hi : i < o + 2 ^ k
        · have hv : (o, 2 ^ k) ∈ visit k o l := by
            cases l with
            | free => have := h.1.le; simp at hz'; omega
            | alloc => simp
            | split a b => unfold visit; simp [hz'.1]
          obtain ⟨b, hb, q⟩ := ihl h.1 hv (by simp; omega) (by simp; omega)
          exact ⟨b, by simp [hb], q⟩
        · have hv : (o + 2 ^ k, 2 ^ k) ∈ visit k (o + 2 ^ k) r := by
            cases r with
            | free => have := h.1.le; simp at hz'; omega
            | alloc => simp
            | split a b => unfold visit; simp [hz'.2]
          obtain ⟨b, hb, q⟩ := ihr h.2.1 hv (by simp; omega) (by simp; omega)
          exact ⟨b, by simp [hb], q⟩
      · split at hr
        · simp at hr
        · simp at hr
          rcases hr with hr | hr
          · obtain ⟨b, hb, q⟩ := ihl h.1 hr h1 h2
            exact ⟨b, by simp [hb], q⟩
          · obtain ⟨b, hb, q⟩ := ihr h.2.1 hr h1 h2
            exact ⟨b, by simp [hb], q⟩

end BT
end RootSim.Alloc
