import RootSim.Model.Barrier
/-!
Helper lemmas for C17: the inductive invariant of the two-counter barrier, for every number of
threads and every interleaving.
-/
namespace RootSim.Barrier

/-- value the counter of use `k` must hold when `a` of the `N` threads have entered use `k` -/
def expect (N k a : Nat) : Nat := if up k then a else N - a

/-- number of `true` leader flags that must have been handed out in use `k` when `a` threads entered it:
going up the FIRST thread (old value 0) is the leader, going down the LAST one (old value 1). -/
def leadExp (N k a : Nat) : Nat :=
  if up k then (if 0 < a then 1 else 0) else (if a = N then 1 else 0)

/-- The invariant, relative to the current *round* `m` (the oldest use some thread has not left). -/
structure BInv (s : St) (m : Nat) : Prop where
  nlen  : s.n = s.ths.length
  npos  : 0 < s.n
  nW    : s.n < W
  range : ∀ t ∈ s.ths, t.uses = m ∨ t.uses = m + 1
  cm    : ctr s m = expect s.n m (cnt s m)
  cm1   : ctr s (m+1) = expect s.n (m+1) (cnt s (m+1))
  full  : (∃ t ∈ s.ths, t.uses = m + 1) → cnt s m = s.n
  /-- ghost bookkeeping of each thread: one flag per executed `fetch_add`; `l` is the latest one -/
  loc   : ∀ t ∈ s.ths, t.flags.length = t.uses + (if t.spin then 1 else 0) ∧
            (t.spin = true → t.flags[t.uses]? = some t.l)
  /-- leader flags handed out so far, for EVERY use `k` -/
  lead  : ∀ k, leadCnt s k = leadExp s.n k (cnt s k)

theorem up_add_two (k : Nat) : up (k+2) = !up k := by
  unfold up
  have : k % 4 = 0 ∨ k % 4 = 1 ∨ k % 4 = 2 ∨ k % 4 = 3 := by omega
  rcases this with h|h|h|h <;> simp [Nat.add_mod, h]

theorem ctr_setCtr_same (s : St) (k : Nat) (v : Nat) : ctr (setCtr s k v) k = v := by
  unfold ctr setCtr; split <;> simp_all
theorem ctr_setCtr_other (s : St) (k : Nat) (v : Nat) : ctr (setCtr s k v) (k+1) = ctr s (k+1) := by
  unfold ctr setCtr
  by_cases h : k % 2 = 0
  · have : (k+1) % 2 ≠ 0 := by omega
    simp [h, this]
  · have : (k+1) % 2 = 0 := by omega
    simp [h, this]
theorem ctr_setCtr_other' (s : St) (k : Nat) (v : Nat) : ctr (setCtr s (k+1) v) k = ctr s k := by
  unfold ctr setCtr
  by_cases h : k % 2 = 0
  · have : (k+1) % 2 ≠ 0 := by omega
    simp [h, this]
  · have : (k+1) % 2 = 0 := by omega
    simp [h, this]
theorem ctr_add_two (s : St) (k : Nat) : ctr s (k+2) = ctr s k := by
  unfold ctr
  have : (k+2) % 2 = k % 2 := by omega
  rw [this]
theorem ths_setCtr (s : St) (k : Nat) (v : Nat) : (setCtr s k v).ths = s.ths := by
  unfold setCtr; split <;> rfl
theorem n_setCtr (s : St) (k : Nat) (v : Nat) : (setCtr s k v).n = s.n := by
  unfold setCtr; split <;> rfl
theorem ctr_ths (s : St) (l : List Th) (k : Nat) : ctr { s with ths := l } k = ctr s k := rfl

theorem cnt_le (s : St) (k : Nat) : cnt s k ≤ s.ths.length := List.countP_le_length

/-- a thread with `uses ≥ k+1` has entered use `k`; with `uses < k` it has not -/
theorem entered_of_gt {k : Nat} {t : Th} (h : k < t.uses) : entered k t = true := by
  simp [entered, h]
theorem not_entered_of_lt {k : Nat} {t : Th} (h : t.uses < k) : entered k t = false := by
  simp [entered]; omega

/-- the effect of replacing thread `i` on a `countP` -/
theorem countP_set_eq (l : List Th) (i : Nat) (x : Th) (p : Th → Bool) (hi : i < l.length) :
    (l.set i x).countP p = l.countP p - (if p l[i] then 1 else 0) + (if p x then 1 else 0) :=
  List.countP_set hi

/-! ### enter -/

/-- data extracted from a successful `enter` -/
theorem enter_spec {s s' : St} {i : Nat} (he : enter s i = some s') :
    ∃ t, s.ths[i]? = some t ∧ t.spin = false ∧
      s' = { (setCtr s t.uses (newCtr t.uses (ctr s t.uses))) with
             ths := s.ths.set i { t with spin := true, l := leadOf t.uses (ctr s t.uses),
                                         flags := t.flags ++ [leadOf t.uses (ctr s t.uses)] } } := by
  unfold enter at he
  split at he
  · rename_i t ht
    by_cases hs : t.spin = true
    · simp [hs] at he
    · simp only [hs] at he
      refine ⟨t, ht, by simpa using hs, ?_⟩
      simpa using he.symm
  · simp at he

theorem exit_spec {s s' : St} {i : Nat} (he : exit s i = some s') :
    ∃ t, s.ths[i]? = some t ∧ t.spin = true ∧ exitOk s t = true ∧
      s' = { s with ths := s.ths.set i { t with uses := t.uses + 1, spin := false } } := by
  unfold exit at he
  split at he
  · rename_i t ht
    by_cases hg : (t.spin && exitOk s t) = true
    · simp only [hg, if_true] at he
      simp only [Bool.and_eq_true] at hg
      exact ⟨t, ht, hg.1, hg.2, by simpa using he.symm⟩
    · simp [hg] at he
  · simp at he


/-- counting after thread `i` (= `t`, outside) has been replaced by its "entered" version -/
theorem countP_entered_enter (l : List Th) (i : Nat) (t : Th) (hi : i < l.length) (hget : l[i] = t)
    (hsp : t.spin = false) (b : Bool) (f : List Bool) (k : Nat) :
    (l.set i { t with spin := true, l := b, flags := f }).countP (entered k)
      = l.countP (entered k) + (if k = t.uses then 1 else 0) := by
  rw [countP_set_eq l i _ _ hi, hget]
  have hmem : t ∈ l := hget ▸ List.getElem_mem hi
  rcases Nat.lt_trichotomy k t.uses with h | h | h
  · have e1 : entered k t = true := entered_of_gt h
    have e2 : entered k { t with spin := true, l := b, flags := f } = true := entered_of_gt h
    have hpos : 0 < l.countP (entered k) := List.countP_pos_iff.mpr ⟨t, hmem, e1⟩
    have hne : k ≠ t.uses := by omega
    simp only [e1, e2, hne, if_true, if_false]; omega
  · subst h
    have e1 : entered t.uses t = false := by simp [entered, hsp]
    have e2 : entered t.uses { t with spin := true, l := b, flags := f } = true := by simp [entered]
    simp [e1, e2]
  · have e1 : entered k t = false := not_entered_of_lt h
    have e2 : entered k { t with spin := true, l := b, flags := f } = false := not_entered_of_lt h
    have hne : k ≠ t.uses := by omega
    simp [e1, e2, hne]

/-- leader-flag counting after thread `i` has entered and was handed flag `b` -/
theorem countP_ledIn_enter (l : List Th) (i : Nat) (t : Th) (hi : i < l.length) (hget : l[i] = t)
    (hlen : t.flags.length = t.uses) (b : Bool) (k : Nat) :
    (l.set i { t with spin := true, l := b, flags := t.flags ++ [b] }).countP (ledIn k)
      = l.countP (ledIn k) + (if k = t.uses ∧ b = true then 1 else 0) := by
  rw [countP_set_eq l i _ _ hi, hget]
  have hmem : t ∈ l := hget ▸ List.getElem_mem hi
  rcases Nat.lt_trichotomy k t.uses with h | h | h
  · have hk : k < t.flags.length := by omega
    have e : ledIn k { t with spin := true, l := b, flags := t.flags ++ [b] } = ledIn k t := by
      simp [ledIn, List.getElem?_append_left hk]
    have hne : ¬ (k = t.uses ∧ b = true) := by omega
    rw [e]; simp only [hne, if_false]
    by_cases hl : ledIn k t = true
    · have hpos : 0 < l.countP (ledIn k) := List.countP_pos_iff.mpr ⟨t, hmem, hl⟩
      simp only [hl, if_true]; omega
    · simp [hl]
  · have e1 : ledIn k t = false := by
      have : t.flags[k]? = none := by rw [List.getElem?_eq_none_iff]; omega
      simp [ledIn, this]
    have e2 : ledIn k { t with spin := true, l := b, flags := t.flags ++ [b] } = b := by
      have : (t.flags ++ [b])[k]? = some b := by
        rw [List.getElem?_append_right (by omega)]; simp [h, hlen]
      simp [ledIn, this]
    rw [e1, e2]; cases b <;> simp [h]
  · have e1 : ledIn k t = false := by
      have : t.flags[k]? = none := by rw [List.getElem?_eq_none_iff]; omega
      simp [ledIn, this]
    have e2 : ledIn k { t with spin := true, l := b, flags := t.flags ++ [b] } = false := by
      have : (t.flags ++ [b])[k]? = none := by rw [List.getElem?_eq_none_iff]; simp; omega
      simp [ledIn, this]
    have hne : ¬ (k = t.uses ∧ b = true) := by omega
    simp [e1, e2, hne]


/-- the state after thread `i` (= `t`) executed its `fetch_add` -/
def enterSt (s : St) (i : Nat) (t : Th) : St :=
  { (setCtr s t.uses (newCtr t.uses (ctr s t.uses))) with
    ths := s.ths.set i { t with spin := true, l := leadOf t.uses (ctr s t.uses),
                                flags := t.flags ++ [leadOf t.uses (ctr s t.uses)] } }

theorem enterSt_n (s : St) (i : Nat) (t : Th) : (enterSt s i t).n = s.n := by
  simp [enterSt, n_setCtr]
theorem enterSt_len (s : St) (i : Nat) (t : Th) : (enterSt s i t).ths.length = s.ths.length := by
  simp [enterSt]
theorem enterSt_ctr_same (s : St) (i : Nat) (t : Th) :
    ctr (enterSt s i t) t.uses = newCtr t.uses (ctr s t.uses) := by
  simp only [enterSt, ctr_ths, ctr_setCtr_same]
theorem enterSt_ctr_succ (s : St) (i : Nat) (t : Th) :
    ctr (enterSt s i t) (t.uses + 1) = ctr s (t.uses + 1) := by
  simp only [enterSt, ctr_ths, ctr_setCtr_other]
theorem enterSt_ctr_pred (s : St) (i : Nat) (t : Th) (m : Nat) (hm : t.uses = m + 1) :
    ctr (enterSt s i t) m = ctr s m := by
  simp only [enterSt, ctr_ths, hm, ctr_setCtr_other']

theorem enterSt_cnt (s : St) (i : Nat) (t : Th) (hi : i < s.ths.length) (hget : s.ths[i] = t)
    (hsp : t.spin = false) (k : Nat) :
    cnt (enterSt s i t) k = cnt s k + (if k = t.uses then 1 else 0) := by
  simp only [cnt, enterSt]
  exact countP_entered_enter s.ths i t hi hget hsp _ _ k

theorem enterSt_leadCnt (s : St) (i : Nat) (t : Th) (hi : i < s.ths.length) (hget : s.ths[i] = t)
    (hlen : t.flags.length = t.uses) (k : Nat) :
    leadCnt (enterSt s i t) k
      = leadCnt s k + (if k = t.uses ∧ leadOf t.uses (ctr s t.uses) = true then 1 else 0) := by
  simp only [leadCnt, enterSt]
  exact countP_ledIn_enter s.ths i t hi hget hlen _ k

/-- a thread that has not entered use `k` witnesses `cnt k < N` -/
theorem cnt_lt_of_not_entered (s : St) (k : Nat) (t : Th) (hmem : t ∈ s.ths) (h : entered k t = false) :
    cnt s k < s.ths.length := by
  have hle := cnt_le s k
  have : cnt s k ≠ s.ths.length := by
    intro hc
    have := (List.countP_eq_length.mp hc) _ hmem
    simp [h] at this
  omega

theorem mem_enterSt {s : St} {i : Nat} {t t' : Th} (h : t' ∈ (enterSt s i t).ths) :
    t' ∈ s.ths ∨ t' = { t with spin := true, l := leadOf t.uses (ctr s t.uses),
                               flags := t.flags ++ [leadOf t.uses (ctr s t.uses)] } := by
  simp only [enterSt] at h
  exact List.mem_or_eq_of_mem_set h

/-- **`enter` preserves the invariant** (same round). Also shows that the unsigned counter does not wrap. -/
theorem enter_inv {s s' : St} {m i : Nat} (h : BInv s m) (he : enter s i = some s') : BInv s' m := by
  obtain ⟨t, ht, hsp, hs'⟩ := enter_spec he
  have hs'' : s' = enterSt s i t := hs'
  subst hs''
  have hi : i < s.ths.length := (List.getElem?_eq_some_iff.mp ht).1
  have hget : s.ths[i] = t := (List.getElem?_eq_some_iff.mp ht).2
  have hmem : t ∈ s.ths := List.mem_of_getElem? ht
  have hlen : t.flags.length = t.uses := by simpa [hsp] using (h.loc t hmem).1
  have hcnt := enterSt_cnt s i t hi hget hsp
  have hlead := enterSt_leadCnt s i t hi hget hlen
  have hN := h.nlen
  have hW := h.nW
  have hnot : entered t.uses t = false := by simp [entered, hsp]
  have hlt : cnt s t.uses < s.n := by rw [hN]; exact cnt_lt_of_not_entered s _ t hmem hnot
  -- value of the counter of the use being entered, before and after
  have hold : ctr s t.uses = expect s.n t.uses (cnt s t.uses) := by
    rcases h.range t hmem with hu | hu
    · rw [hu]; exact h.cm
    · rw [hu]; exact h.cm1
  have hnew : ctr (enterSt s i t) t.uses = expect s.n t.uses (cnt s t.uses + 1) := by
    rw [enterSt_ctr_same, hold]
    unfold expect newCtr fetchAdd
    by_cases hup : up t.uses = true
    · simp only [hup, if_true, W] at hW ⊢; omega
    · simp only [hup] at hW ⊢; simp only [Bool.false_eq_true, if_false, W] at hW ⊢; omega
  have hleadU : leadCnt (enterSt s i t) t.uses = leadExp s.n t.uses (cnt s t.uses + 1) := by
    rw [hlead, h.lead t.uses, hold]
    unfold leadExp leadOf expect
    by_cases hup : up t.uses = true
    · simp only [hup, if_true, true_and, beq_iff_eq]
      by_cases hc : cnt s t.uses = 0 <;> simp [hc]
    · simp only [hup, true_and]; simp only [Bool.false_eq_true, if_false]
      have h1 : cnt s t.uses ≠ s.n := by omega
      by_cases hc : s.n - cnt s t.uses = 1
      · have : cnt s t.uses + 1 = s.n := by omega
        simp [hc, h1, this]
      · have : cnt s t.uses + 1 ≠ s.n := by omega
        simp [hc, h1, this]
  refine ⟨?_, ?_, ?_, ?_, ?_, ?_, ?_, ?_, ?_⟩
  · rw [enterSt_n, enterSt_len]; exact hN
  · rw [enterSt_n]; exact h.npos
  · rw [enterSt_n]; exact hW
  · intro t' ht'
    rcases mem_enterSt ht' with h' | h'
    · exact h.range t' h'
    · subst h'; exact h.range t hmem
  · -- counter of use m
    rw [enterSt_n]
    rcases h.range t hmem with hu | hu
    · rw [← hu, hnew, hcnt]; simp
    · rw [enterSt_ctr_pred s i t m hu, hcnt, h.cm]
      have : m ≠ t.uses := by omega
      simp [this]
  · -- counter of use m+1
    rw [enterSt_n]
    rcases h.range t hmem with hu | hu
    · rw [← hu, enterSt_ctr_succ, hcnt, hu, h.cm1]
      simp
    · rw [← hu, hnew, hcnt]; simp
  · -- full
    rintro ⟨t', ht', hu'⟩
    rw [enterSt_n, hcnt]
    rcases mem_enterSt ht' with h' | h'
    · have := h.full ⟨t', h', hu'⟩
      rcases h.range t hmem with hu | hu
      · exfalso; rw [hu] at hlt; omega
      · have : m ≠ t.uses := by omega
        simp only [this, if_false]; omega
    · subst h'
      simp only at hu'
      have := h.full ⟨t, hmem, hu'⟩
      have : m ≠ t.uses := by omega
      simp only [this, if_false]; omega
  · -- loc
    intro t' ht'
    rcases mem_enterSt ht' with h' | h'
    · exact h.loc t' h'
    · subst h'
      refine ⟨by simp [hlen], fun _ => ?_⟩
      simp only
      rw [List.getElem?_append_right (by omega)]; simp [hlen]
  · -- lead
    intro k
    rw [enterSt_n]
    by_cases hk : k = t.uses
    · subst hk; rw [hleadU, hcnt]; simp
    · rw [hlead, hcnt, h.lead k]; simp [hk]


/-! ### exit -/

/-- the state after thread `i` (= `t`, spinning) left the barrier -/
def exitSt (s : St) (i : Nat) (t : Th) : St :=
  { s with ths := s.ths.set i { t with uses := t.uses + 1, spin := false } }

theorem exitSt_cnt (s : St) (i : Nat) (t : Th) (hi : i < s.ths.length) (hget : s.ths[i] = t)
    (hsp : t.spin = true) (k : Nat) : cnt (exitSt s i t) k = cnt s k := by
  simp only [cnt, exitSt]
  rw [countP_set_eq s.ths i _ _ hi, hget]
  have hmem : t ∈ s.ths := hget ▸ List.getElem_mem hi
  have e : entered k { t with uses := t.uses + 1, spin := false } = entered k t := by
    simp only [entered, hsp, Bool.and_true, Bool.and_false, Bool.false_or]
    by_cases h1 : t.uses = k
    · simp [h1]
    · by_cases h2 : k < t.uses
      · have : k < t.uses + 1 := by omega
        simp [h2, this]
      · have : ¬ k < t.uses + 1 := by omega
        simp [h1, h2, this]
  rw [e]
  by_cases hl : entered k t = true
  · have hpos : 0 < s.ths.countP (entered k) := List.countP_pos_iff.mpr ⟨t, hmem, hl⟩
    simp only [hl, if_true]; omega
  · simp [hl]

theorem exitSt_leadCnt (s : St) (i : Nat) (t : Th) (hi : i < s.ths.length) (hget : s.ths[i] = t)
    (k : Nat) : leadCnt (exitSt s i t) k = leadCnt s k := by
  simp only [leadCnt, exitSt]
  rw [countP_set_eq s.ths i _ _ hi, hget]
  have hmem : t ∈ s.ths := hget ▸ List.getElem_mem hi
  have e : ledIn k { t with uses := t.uses + 1, spin := false } = ledIn k t := rfl
  rw [e]
  by_cases hl : ledIn k t = true
  · have hpos : 0 < s.ths.countP (ledIn k) := List.countP_pos_iff.mpr ⟨t, hmem, hl⟩
    simp only [hl, if_true]; omega
  · simp [hl]

theorem mem_exitSt {s : St} {i : Nat} {t t' : Th} (h : t' ∈ (exitSt s i t).ths) :
    t' ∈ s.ths ∨ t' = { t with uses := t.uses + 1, spin := false } := by
  simp only [exitSt] at h
  exact List.mem_or_eq_of_mem_set h

/-- the spin-loop guard of a spinning thread is true **iff** all `N` threads have entered its use -/
theorem exitOk_iff {s : St} {m : Nat} (h : BInv s m) {t : Th} (hmem : t ∈ s.ths) :
    exitOk s t = true ↔ cnt s t.uses = s.n := by
  have hle := cnt_le s t.uses
  have hN := h.nlen
  have hold : ctr s t.uses = expect s.n t.uses (cnt s t.uses) := by
    rcases h.range t hmem with hu | hu
    · rw [hu]; exact h.cm
    · rw [hu]; exact h.cm1
  unfold exitOk
  rw [hold]; unfold expect
  by_cases hup : up t.uses = true
  · simp [hup]
  · simp only [hup]; simp only [Bool.false_eq_true, if_false, beq_iff_eq]; omega

/-- **`exit` preserves the invariant**: the round stays `m` when a thread of round `m` leaves and
advances to `m+1` when a thread of round `m+1` leaves (then everybody has left round `m`). -/
theorem exit_inv {s s' : St} {m i : Nat} (h : BInv s m) (he : exit s i = some s') :
    BInv s' m ∨ BInv s' (m+1) := by
  obtain ⟨t, ht, hsp, hok, hs'⟩ := exit_spec he
  have hs'' : s' = exitSt s i t := hs'
  subst hs''
  have hi : i < s.ths.length := (List.getElem?_eq_some_iff.mp ht).1
  have hget : s.ths[i] = t := (List.getElem?_eq_some_iff.mp ht).2
  have hmem : t ∈ s.ths := List.mem_of_getElem? ht
  have hcnt := exitSt_cnt s i t hi hget hsp
  have hlead := exitSt_leadCnt s i t hi hget
  have hall : cnt s t.uses = s.n := (exitOk_iff h hmem).mp hok
  have hlen' : (exitSt s i t).ths.length = s.ths.length := by simp [exitSt]
  have hctr : ∀ k, ctr (exitSt s i t) k = ctr s k := fun k => rfl
  have hn : (exitSt s i t).n = s.n := rfl
  have hloc : ∀ t' ∈ (exitSt s i t).ths, t'.flags.length = t'.uses + (if t'.spin then 1 else 0) ∧
            (t'.spin = true → t'.flags[t'.uses]? = some t'.l) := by
    intro t' ht'
    rcases mem_exitSt ht' with h' | h'
    · exact h.loc t' h'
    · subst h'
      have := (h.loc t hmem).1
      simp only [hsp, if_true] at this
      exact ⟨by simp [this], by simp⟩
  rcases h.range t hmem with hu | hu
  · -- a thread of round m leaves
    left
    refine ⟨by rw [hn, hlen']; exact h.nlen, h.npos, h.nW, ?_, ?_, ?_, ?_, hloc, ?_⟩
    · intro t' ht'
      rcases mem_exitSt ht' with h' | h'
      · exact h.range t' h'
      · subst h'; right; simp [hu]
    · rw [hctr, hcnt, hn]; exact h.cm
    · rw [hctr, hcnt, hn]; exact h.cm1
    · intro _; rw [hcnt, hn, ← hu]; exact hall
    · intro k; rw [hlead, hcnt, hn]; exact h.lead k
  · -- a thread of round m+1 leaves: everybody is in round m+1
    right
    have hN := h.nlen
    have hev : ∀ t' ∈ s.ths, entered (m+1) t' = true := by
      have : cnt s (m+1) = s.ths.length := by rw [← hu, hall, hN]
      exact List.countP_eq_length.mp this
    have huses : ∀ t' ∈ s.ths, t'.uses = m + 1 := by
      intro t' ht'
      have e := hev t' ht'
      rcases h.range t' ht' with h1 | h1
      · simp [entered, h1] at e; omega
      · exact h1
    have hcm : cnt s m = s.n := h.full ⟨t, hmem, hu⟩
    have hc2 : cnt s (m+2) = 0 := by
      unfold cnt
      rw [List.countP_eq_zero]
      intro t' ht'
      have := huses t' ht'
      simp [entered, this]
    refine ⟨by rw [hn, hlen']; exact h.nlen, h.npos, h.nW, ?_, ?_, ?_, ?_, hloc, ?_⟩
    · intro t' ht'
      rcases mem_exitSt ht' with h' | h'
      · left; exact huses t' h'
      · subst h'; right; simp [hu]
    · rw [hctr, hcnt, hn]; exact h.cm1
    · rw [hctr, hcnt, hn, ctr_add_two, h.cm, hcm, hc2]
      unfold expect
      rw [up_add_two]
      cases up m <;> simp
    · intro _; rw [hcnt, hn, ← hu]; exact hall
    · intro k; rw [hlead, hcnt, hn]; exact h.lead k

/-- the invariant holds initially, for every `0 < N < 2^32` -/
theorem init_inv (N : Nat) (hpos : 0 < N) (hW : N < W) : BInv (init N) 0 := by
  have hcnt : ∀ k, cnt (init N) k = 0 := by
    intro k
    unfold cnt init
    rw [List.countP_eq_zero]
    intro t ht
    rw [List.eq_of_mem_replicate ht]
    simp [entered]
  have hlead : ∀ k, leadCnt (init N) k = 0 := by
    intro k
    unfold leadCnt init
    rw [List.countP_eq_zero]
    intro t ht
    rw [List.eq_of_mem_replicate ht]
    simp [ledIn]
  refine ⟨by simp [init], hpos, hW, ?_, ?_, ?_, ?_, ?_, ?_⟩
  · intro t ht; left
    simp only [init] at ht
    rw [List.eq_of_mem_replicate ht]
  · rw [hcnt]; simp [ctr, init, expect, up]
  · rw [hcnt]; simp [ctr, init, expect, up]
  · rintro ⟨t, ht, hu⟩
    simp only [init] at ht
    rw [List.eq_of_mem_replicate ht] at hu
    simp at hu
  · intro t ht
    simp only [init] at ht
    rw [List.eq_of_mem_replicate ht]
    simp
  · intro k
    rw [hcnt, hlead]
    have : (init N).n = N := rfl
    rw [this]; unfold leadExp
    have : 0 ≠ N := by omega
    by_cases hup : up k = true <;> simp [hup, this]


/-! ### reachable states, schedules (used by `Props/C17.lean`) -/

/-- the states the barrier can be in: start with all `N` threads outside, then any interleaving -/
inductive Reachable : St → Prop
  | init (N : Nat) (hpos : 0 < N) (hW : N < W) : Reachable (init N)
  | step {s s' : St} (i : Nat) : Reachable s → step s i = some s' → Reachable s'

/-- run a schedule (a list of thread ids); `none` if it names a thread that does not exist -/
def exec (s : St) : List Nat → Option St
  | [] => some s
  | i :: is => match step s i with
    | some s' => exec s' is
    | none => none

/-- a step is the `fetch_add`, a successful pass of the spin loop, or a failed spin iteration -/
theorem step_cases {s s' : St} {i : Nat} (h : step s i = some s') :
    enter s i = some s' ∨ exit s i = some s' ∨ s' = s := by
  unfold step at h
  split at h
  · rename_i t ht
    by_cases hs : t.spin = true
    · simp only [hs, if_true] at h
      by_cases ho : exitOk s t = true
      · simp only [ho, if_true] at h; exact Or.inr (Or.inl h)
      · simp only [ho] at h; right; right; simpa using h.symm
    · simp only [hs] at h; exact Or.inl h
  · simp at h

theorem exec_reachable {s s' : St} (sched : List Nat) (hr : Reachable s) (he : exec s sched = some s') :
    Reachable s' := by
  induction sched generalizing s with
  | nil => simp [exec] at he; subst he; exact hr
  | cons i is ih =>
    simp only [exec] at he
    split at he
    · rename_i s1 hs1; exact ih (Reachable.step i hr hs1) he
    · simp at he

theorem step_n {s s' : St} {i : Nat} (hs : step s i = some s') : s'.n = s.n := by
  rcases step_cases hs with he | he | he
  · obtain ⟨t, _, _, rfl⟩ := enter_spec he; exact n_setCtr _ _ _
  · obtain ⟨t, _, _, _, rfl⟩ := exit_spec he; rfl
  · subst he; rfl

/-- the number of threads that have entered use `k` never decreases -/
theorem cnt_mono {s s' : St} {i : Nat} (hs : step s i = some s') (k : Nat) : cnt s k ≤ cnt s' k := by
  rcases step_cases hs with he | he | he
  · obtain ⟨t, ht, hsp, hs'⟩ := enter_spec he
    have hs'' : s' = enterSt s i t := hs'
    subst hs''
    rw [enterSt_cnt s i t (List.getElem?_eq_some_iff.mp ht).1 (List.getElem?_eq_some_iff.mp ht).2 hsp]
    omega
  · obtain ⟨t, ht, hsp, _, hs'⟩ := exit_spec he
    have hs'' : s' = exitSt s i t := hs'
    subst hs''
    rw [exitSt_cnt s i t (List.getElem?_eq_some_iff.mp ht).1 (List.getElem?_eq_some_iff.mp ht).2 hsp]
    exact Nat.le_refl _
  · subst he; exact Nat.le_refl _

theorem exec_cnt_mono {s s' : St} (sched : List Nat) (he : exec s sched = some s') (k : Nat) :
    cnt s k ≤ cnt s' k ∧ s'.n = s.n := by
  induction sched generalizing s with
  | nil => simp [exec] at he; subst he; exact ⟨Nat.le_refl _, rfl⟩
  | cons i is ih =>
    simp only [exec] at he
    split at he
    · rename_i s1 hs1
      have := ih he
      exact ⟨Nat.le_trans (cnt_mono hs1 k) this.1, by rw [this.2, step_n hs1]⟩
    · simp at he


end RootSim.Barrier
