import RootSim.Model.TimeWarpG
import RootSim.Proofs.TimeWarp
import RootSim.Proofs.SpecV2
/-! The invariant of the instrumented global Time Warp machine (`Model/TimeWarpG.lean`) under the
NON-STRICT contract `Spec.V2`:

* the content-level invariant of `Proofs/TimeWarp.lean` (I1 well-formed sorted histories, I2 counting) holds
  of the projection — I2 even at the level of TAGGED messages (content + creation step);
* the ghost creation order: every processed entry was created before it was processed, the entries of an LP
  were processed in the order in which they stand, everything pending was created in the past.

From these, for every lower bound `g` of what is pending, the projection of the histories satisfies
`Spec.Hist` AND `Spec.Progress` (`GInv.hist`, `GInv.progress`): the ingredient that `Hist` alone cannot
give under V2. -/
namespace RootSim.TWG
open RootSim RootSim.Spec RootSim.TW List

variable {σ : Type}

/-! ### contents of entries, tagged outputs -/

@[simp] theorem evs_nil : evs [] = [] := rfl
@[simp] theorem evs_cons (u : TEntry) (l : List TEntry) : evs (u :: l) = u.ev :: evs l := rfl
theorem evs_append (a b : List TEntry) : evs (a ++ b) = evs a ++ evs b := List.map_append
theorem evs_tail (l : List TEntry) : evs l.tail = (evs l).tail := List.map_tail
theorem mem_evs {x : Event} {l : List TEntry} : x ∈ evs l ↔ ∃ u ∈ l, u.ev = x := List.mem_map

@[simp] theorem msg_ev (u : TEntry) : u.msg.ev = u.ev := rfl
@[simp] theorem msg_cr (u : TEntry) : u.msg.cr = u.cr := rfl

theorem map_msg_ev (l : List TEntry) : (l.map TEntry.msg).map TMsg.ev = evs l := by
  simp [evs, List.map_map, Function.comp_def]

theorem toutsFrom_append (M : SimModel σ) (ℓ : Nat) : ∀ (s : σ) (a b : List TEntry),
    toutsFrom M ℓ s (a ++ b) = toutsFrom M ℓ s a ++ toutsFrom M ℓ (stFrom M ℓ s (evs a)) b
  | _, [], _ => rfl
  | s, u :: a, b => by
    simp only [List.cons_append, toutsFrom, evs_cons, stFrom, List.append_assoc]
    rw [toutsFrom_append M ℓ _ a b]

theorem touts_append (M : SimModel σ) (ℓ : Nat) (a b : List TEntry) :
    touts M ℓ (a ++ b) = touts M ℓ a ++ toutsFrom M ℓ (lpState M ℓ (evs a)) b :=
  toutsFrom_append M ℓ _ a b

/-- erasing the tags of the tagged outputs gives the outputs -/
theorem toutsFrom_ev (M : SimModel σ) (ℓ : Nat) : ∀ (s : σ) (l : List TEntry),
    (toutsFrom M ℓ s l).map TMsg.ev = outsFrom M ℓ s (evs l)
  | _, [] => rfl
  | s, u :: l => by
    simp only [toutsFrom, evs_cons, outsFrom, List.map_append, List.map_map]
    rw [toutsFrom_ev M ℓ _ l]
    congr 1
    simp [Function.comp_def]

theorem touts_ev (M : SimModel σ) (ℓ : Nat) (l : List TEntry) :
    (touts M ℓ l).map TMsg.ev = outs M ℓ (evs l) := toutsFrom_ev M ℓ _ l

/-- every tagged output of a fold is an output of one invocation of the fold, tagged with its step -/
theorem mem_toutsFrom (M : SimModel σ) (ℓ : Nat) {m : TMsg} : ∀ (s : σ) (l : List TEntry),
    m ∈ toutsFrom M ℓ s l →
    ∃ P u S, l = P ++ u :: S ∧ m.cr = u.pr ∧ m.ev ∈ (M.handler ℓ (stFrom M ℓ s (evs P)) u.ev).2
  | _, [], h => by simp [toutsFrom] at h
  | s, u :: l, h => by
    simp only [toutsFrom, List.mem_append, List.mem_map] at h
    rcases h with ⟨o, ho, rfl⟩ | h
    · exact ⟨[], u, l, rfl, rfl, ho⟩
    · obtain ⟨P, w, S, hl, hc, hy⟩ := mem_toutsFrom M ℓ _ l h
      exact ⟨u :: P, w, S, by rw [hl]; rfl, hc, hy⟩

/-! ### the backward scan on entries -/

theorem evs_take_keep (e : Event) (T : List TEntry) :
    evs (T.take (keepLen e T)) = (splitUndo e (evs T)).1 := by
  unfold evs keepLen
  rw [List.map_take]
  conv => lhs; rw [← splitUndo_append e (T.map TEntry.ev)]
  exact List.take_left' rfl

theorem evs_undoG (e : Event) (T : List TEntry) : evs (undoG e T) = undoOf e (evs T) := by
  unfold evs undoG keepLen undoOf
  rw [List.map_drop]
  conv => lhs; rw [← splitUndo_append e (T.map TEntry.ev)]
  exact List.drop_left' rfl

theorem evs_keepG (e : Event) (h : TEntry) (T : List TEntry) :
    evs (keepG e h T) = keepOf e h.ev (evs T) := by
  simp only [keepG, evs_cons, keepOf, evs_take_keep]

theorem keepG_undoG (e : Event) (h : TEntry) (T : List TEntry) : keepG e h T ++ undoG e T = h :: T := by
  simp [keepG, undoG, List.take_append_drop]

theorem take_undoG (e : Event) (T : List TEntry) : T.take (keepLen e T) ++ undoG e T = T :=
  List.take_append_drop _ _

/-! ### additive measures over `flatMap`, any element type -/

structure AddM {α : Type} (m : List α → Nat) : Prop where
  nil : m [] = 0
  append : ∀ a b, m (a ++ b) = m a + m b

theorem addM_count {α : Type} [BEq α] (x : α) : AddM (List.count x) :=
  ⟨by simp, fun _ _ => List.count_append⟩

theorem addM_countP {α : Type} (p : α → Bool) : AddM (List.countP p) :=
  ⟨by simp, fun _ _ => List.countP_append⟩

theorem addM_flatMap_cons {α : Type} {m : List α → Nat} (hm : AddM m) (a : Nat) (L : List Nat)
    (f : Nat → List α) : m ((a :: L).flatMap f) = m (f a) + m (L.flatMap f) := by
  rw [List.flatMap_cons, hm.append]

/-- comparison of two sums, possibly over different element types -/
theorem addM_flatMap_le {α β : Type} {m₁ : List α → Nat} {m₂ : List β → Nat} (h₁ : AddM m₁)
    (h₂ : AddM m₂) {f₁ : Nat → List α} {f₂ : Nat → List β} :
    ∀ (L : List Nat), (∀ ℓ ∈ L, m₁ (f₁ ℓ) ≤ m₂ (f₂ ℓ)) → m₁ (L.flatMap f₁) ≤ m₂ (L.flatMap f₂)
  | [], _ => by simp [h₁.nil]
  | a :: L, hle => by
    rw [addM_flatMap_cons h₁, addM_flatMap_cons h₂]
    have e1 := hle a (by simp)
    have e2 := addM_flatMap_le h₁ h₂ L (fun ℓ hℓ => hle ℓ (List.mem_cons_of_mem _ hℓ))
    omega

theorem addM_flatMap_congr {α : Type} {m : List α → Nat} (hm : AddM m) {f h : Nat → List α} :
    ∀ (L : List Nat), (∀ ℓ ∈ L, m (f ℓ) = m (h ℓ)) → m (L.flatMap f) = m (L.flatMap h)
  | [], _ => by simp [hm.nil]
  | a :: L, hle => by
    rw [addM_flatMap_cons hm, addM_flatMap_cons hm]
    have e1 := hle a (by simp)
    have e2 := addM_flatMap_congr hm L (fun ℓ hℓ => hle ℓ (List.mem_cons_of_mem _ hℓ))
    omega

/-- one summand is at most the sum -/
theorem addM_single_le {α : Type} {m : List α → Nat} (hm : AddM m) {f : Nat → List α} {ℓ : Nat} :
    ∀ (L : List Nat), ℓ ∈ L → m (f ℓ) ≤ m (L.flatMap f)
  | [], h => by simp at h
  | a :: L, h => by
    rw [addM_flatMap_cons hm]
    rcases List.mem_cons.mp h with rfl | h
    · omega
    · have := addM_single_le hm (f := f) L h; omega

/-- changing one summand, two-sided form -/
theorem addM_flatMap_upd2 {α : Type} {m : List α → Nat} (hm : AddM m) {f f' : Nat → List α}
    {ℓ a b : Nat} (hk : m (f' ℓ) + a = m (f ℓ) + b) :
    ∀ (L : List Nat), L.Nodup → ℓ ∈ L → (∀ ℓ' ∈ L, ℓ' ≠ ℓ → f' ℓ' = f ℓ') →
      m (L.flatMap f') + a = m (L.flatMap f) + b
  | [], _, hℓ, _ => by simp at hℓ
  | c :: L, hn, hℓ, hne => by
    rw [addM_flatMap_cons hm, addM_flatMap_cons hm]
    rw [List.nodup_cons] at hn
    by_cases hc : c = ℓ
    · subst hc
      have : m (L.flatMap f') = m (L.flatMap f) := by
        apply addM_flatMap_congr hm
        intro ℓ' hℓ'
        rw [hne ℓ' (List.mem_cons_of_mem _ hℓ') (by rintro rfl; exact hn.1 hℓ')]
      omega
    · have hℓL : ℓ ∈ L := by
        rcases List.mem_cons.mp hℓ with h | h
        · exact absurd h.symm hc
        · exact h
      have := addM_flatMap_upd2 hm hk L hn.2 hℓL (fun ℓ' hℓ' => hne ℓ' (List.mem_cons_of_mem _ hℓ'))
      rw [hne c (by simp) hc]
      omega

theorem count_erase_add' {α : Type} [BEq α] [LawfulBEq α] {l : List α} {e : α} (h : e ∈ l) (x : α) :
    (l.erase e).count x + [e].count x = l.count x := by
  rw [List.count_erase, List.count_singleton]
  have hpos : 0 < l.count e := List.count_pos_iff.mpr h
  by_cases hxe : e = x
  · subst hxe
    simp only [beq_self_eq_true, if_true]
    omega
  · have hb : (e == x) = false := by simpa using hxe
    simp only [hb, Bool.false_eq_true, if_false]
    omega

/-! ### the tagged tables -/

/-- the messages of the non-`LP_INIT` entries of all LPs -/
def restAllT (n : Nat) (D : Nat → List TEntry) : List TMsg :=
  (List.range n).flatMap (fun ℓ => (D ℓ).tail.map TEntry.msg)

theorem restAllT_ev (n : Nat) (D : Nat → List TEntry) :
    (restAllT n D).map TMsg.ev = restAll n (fun ℓ => evs (D ℓ)) := by
  unfold restAllT restAll
  rw [List.map_flatMap]
  congr 1
  funext ℓ
  rw [map_msg_ev, evs_tail]

theorem toutsAll_ev (M : SimModel σ) (D : Nat → List TEntry) :
    (toutsAll M D).map TMsg.ev = outsAll M (fun ℓ => evs (D ℓ)) := by
  unfold toutsAll outsAll
  rw [List.map_flatMap]
  congr 1
  funext ℓ
  rw [touts_ev]

theorem count_restAllT_upd {n : Nat} {D : Nat → List TEntry} {ℓ : Nat} (hℓ : ℓ < n) (v : List TEntry)
    (x : TMsg) {a b : Nat}
    (h : (v.tail.map TEntry.msg).count x + a = ((D ℓ).tail.map TEntry.msg).count x + b) :
    (restAllT n (upd D ℓ v)).count x + a = (restAllT n D).count x + b := by
  unfold restAllT
  apply addM_flatMap_upd2 (addM_count x) (f := fun ℓ' => (D ℓ').tail.map TEntry.msg)
    (f' := fun ℓ' => (upd D ℓ v ℓ').tail.map TEntry.msg) (ℓ := ℓ) _ _ List.nodup_range
    (List.mem_range.mpr hℓ)
  · intro ℓ' _ hne; simp only [upd_other _ _ hne]
  · simp only [upd_same]; exact h

theorem count_toutsAll_upd (M : SimModel σ) {D : Nat → List TEntry} {ℓ : Nat} (hℓ : ℓ < M.nLps)
    (v : List TEntry) (x : TMsg) {a b : Nat}
    (h : (touts M ℓ v).count x + a = (touts M ℓ (D ℓ)).count x + b) :
    (toutsAll M (upd D ℓ v)).count x + a = (toutsAll M D).count x + b := by
  unfold toutsAll
  apply addM_flatMap_upd2 (addM_count x) (f := fun ℓ' => touts M ℓ' (D ℓ'))
    (f' := fun ℓ' => touts M ℓ' (upd D ℓ v ℓ')) (ℓ := ℓ) _ _ List.nodup_range
    (List.mem_range.mpr hℓ)
  · intro ℓ' _ hne; simp only [upd_other _ _ hne]
  · simp only [upd_same]; exact h

/-- under V2 everything a fold of the handler schedules is a model event for an existing LP -/
theorem toutsFrom_ok {M : SimModel σ} (V : V2 M) {ℓ : Nat} {st : σ} {l : List TEntry} {y : TMsg}
    (h : y ∈ toutsFrom M ℓ st l) : y.ev.dest < M.nLps ∧ y.ev.type < LP_INIT := by
  obtain ⟨P, c, S, _, _, hy⟩ := mem_toutsFrom M ℓ st l h
  exact (V ℓ _ c.ev y.ev hy).2

/-! ### the invariant -/

structure GInv (M : SimModel σ) (s : TWGState) : Prop where
  out    : ∀ ℓ, M.nLps ≤ ℓ → s.past ℓ = []
  head   : ∀ ℓ, ℓ < M.nLps → (s.past ℓ).head? = some (initEntry ℓ)
  dest   : ∀ ℓ, ℓ < M.nLps → ∀ u ∈ (s.past ℓ).tail, u.ev.dest = ℓ ∧ u.ev.type < LP_INIT
  sorted : ∀ ℓ, ℓ < M.nLps → (evs (s.past ℓ).tail).Pairwise (fun a b => Event.before b a = false)
  pendOk : ∀ x ∈ s.pending, x.ev.dest < M.nLps ∧ x.ev.type < LP_INIT
  antiOk : ∀ x ∈ s.antis, x.ev.dest < M.nLps ∧ x.ev.type < LP_INIT
  /-- I2 for tagged messages -/
  cnt    : ∀ x : TMsg, s.pending.count x + (restAllT M.nLps s.past).count x =
             (toutsAll M s.past).count x + s.antis.count x
  /-- everything pending was created in the past -/
  pendCr : ∀ x ∈ s.pending, x.cr < s.now
  /-- everything processed was processed in the past … -/
  prLt   : ∀ ℓ, ∀ u ∈ s.past ℓ, u.pr < s.now
  /-- … after it was created … -/
  crLt   : ∀ ℓ, ∀ u ∈ (s.past ℓ).tail, u.cr < u.pr
  /-- … and the entries of an LP stand in the order in which they were processed -/
  prInc  : ∀ ℓ, (s.past ℓ).Pairwise (fun a b => a.pr < b.pr)

theorem init_past (M : SimModel σ) {ℓ : Nat} (hℓ : ℓ < M.nLps) : (init M).past ℓ = [initEntry ℓ] := by
  simp [init, initPast, hℓ]

theorem init_past_out (M : SimModel σ) {ℓ : Nat} (hℓ : M.nLps ≤ ℓ) : (init M).past ℓ = [] := by
  have : ¬ ℓ < M.nLps := by omega
  simp [init, initPast, this]

theorem init_past_cases (M : SimModel σ) (ℓ : Nat) :
    (init M).past ℓ = [initEntry ℓ] ∨ (init M).past ℓ = [] := by
  by_cases h : ℓ < M.nLps
  · exact Or.inl (init_past M h)
  · exact Or.inr (init_past_out M (by omega))

theorem inv_init {M : SimModel σ} (V : V2 M) : GInv M (init M) := by
  have hpend : ∀ x ∈ (init M).pending, (x.ev.dest < M.nLps ∧ x.ev.type < LP_INIT) ∧ x.cr = 0 := by
    intro x hx
    simp only [init, toutsAll, List.mem_flatMap, List.mem_range] at hx
    obtain ⟨ℓ, hℓ, hx⟩ := hx
    refine ⟨toutsFrom_ok V hx, ?_⟩
    obtain ⟨P, c, S, hl, hc, _⟩ := mem_toutsFrom M ℓ _ _ hx
    have hc' : c ∈ initPast M ℓ := by rw [hl]; simp
    simp only [initPast, hℓ, if_true, List.mem_singleton] at hc'
    rw [hc, hc']; rfl
  refine ⟨?_, ?_, ?_, ?_, ?_, ?_, ?_, ?_, ?_, ?_, ?_⟩
  · intro ℓ hℓ; exact init_past_out M hℓ
  · intro ℓ hℓ; rw [init_past M hℓ]; rfl
  · intro ℓ hℓ e he; rw [init_past M hℓ] at he; simp at he
  · intro ℓ hℓ; rw [init_past M hℓ]; simp
  · intro x hx; exact (hpend x hx).1
  · intro x hx; simp [init] at hx
  · intro x
    have hr : (restAllT M.nLps (init M).past).count x = 0 := by
      rw [List.count_eq_zero]
      simp only [restAllT, List.mem_flatMap, List.mem_range, not_exists, not_and]
      intro ℓ hℓ; rw [init_past M hℓ]; simp
    rw [hr]
    simp [init]
  · intro x hx; rw [(hpend x hx).2]; simp [init]
  · intro ℓ u hu
    rcases init_past_cases M ℓ with h | h
    · rw [h] at hu; simp at hu; subst hu; simp [init, initEntry]
    · rw [h] at hu; simp at hu
  · intro ℓ u hu
    rcases init_past_cases M ℓ with h | h <;> · rw [h] at hu; simp at hu
  · intro ℓ
    rcases init_past_cases M ℓ with h | h <;> · rw [h]; simp

section steps
variable {M : SimModel σ} {s : TWGState}

theorem GInv.lt_of_past_ne_nil (I : GInv M s) {ℓ : Nat} (h : s.past ℓ ≠ []) : ℓ < M.nLps := by
  apply Nat.lt_of_not_le
  intro hge
  exact h (I.out ℓ hge)

theorem GInv.exec (V : V2 M) (I : GInv M s) {ℓ : Nat} {m : TMsg} {h : TEntry} {T : List TEntry}
    (hmem : m ∈ s.pending) (hdest : m.ev.dest = ℓ) (hℓ : ℓ < M.nLps) (htype : m.ev.type < LP_INIT)
    (hpast : s.past ℓ = h :: T) : GInv M (execResult M s ℓ m h T) := by
  have hh : h = initEntry ℓ := by
    have := I.head ℓ hℓ
    rw [hpast] at this
    simpa using this
  have hTd := I.dest ℓ hℓ
  have hTs := I.sorted ℓ hℓ
  have hTpr := I.prLt ℓ
  have hTcr := I.crLt ℓ
  have hTinc := I.prInc ℓ
  rw [hpast] at hTpr hTinc
  rw [hpast, List.tail_cons] at hTd hTs hTcr
  have happ : T.take (keepLen m.ev T) ++ undoG m.ev T = T := take_undoG m.ev T
  have hsubK : ∀ u ∈ T.take (keepLen m.ev T), u ∈ T := fun u hu => List.mem_of_mem_take hu
  have hsubU : ∀ u ∈ undoG m.ev T, u ∈ T := fun u hu => List.mem_of_mem_drop hu
  have hnew : keepG m.ev h T ++ [({ ev := m.ev, cr := m.cr, pr := s.now } : TEntry)] =
      h :: (T.take (keepLen m.ev T) ++ [{ ev := m.ev, cr := m.cr, pr := s.now }]) := rfl
  refine ⟨?_, ?_, ?_, ?_, ?_, ?_, ?_, ?_, ?_, ?_, ?_⟩
  · intro ℓ' hℓ'
    show upd s.past ℓ _ ℓ' = []
    rw [upd_other _ _ (by omega)]
    exact I.out ℓ' hℓ'
  · intro ℓ' hℓ'
    show (upd s.past ℓ _ ℓ').head? = _
    by_cases hne : ℓ' = ℓ
    · subst hne
      rw [upd_same, hnew, hh]; rfl
    · rw [upd_other _ _ hne]; exact I.head ℓ' hℓ'
  · intro ℓ' hℓ' a
    show a ∈ (upd s.past ℓ _ ℓ').tail → _
    by_cases hne : ℓ' = ℓ
    · subst hne
      rw [upd_same, hnew, List.tail_cons, List.mem_append]
      rintro (ha | ha)
      · exact hTd a (hsubK a ha)
      · rw [List.mem_singleton] at ha
        rw [ha]; exact ⟨hdest, htype⟩
    · rw [upd_other _ _ hne]; exact I.dest ℓ' hℓ' a
  · intro ℓ' hℓ'
    show (evs (upd s.past ℓ _ ℓ').tail).Pairwise _
    by_cases hne : ℓ' = ℓ
    · subst hne
      rw [upd_same, hnew, List.tail_cons, evs_append, evs_take_keep]
      exact sorted_keep_snoc hTs
    · rw [upd_other _ _ hne]; exact I.sorted ℓ' hℓ'
  · intro x hx
    simp only [execResult, List.mem_append, List.mem_map] at hx
    rcases hx with (hx | ⟨u, hu, rfl⟩) | ⟨o, ho, rfl⟩
    · exact I.pendOk x (List.mem_of_mem_erase hx)
    · have := hTd u (hsubU u hu)
      exact ⟨by rw [msg_ev, this.1]; exact hℓ, this.2⟩
    · exact (V ℓ _ m.ev o ho).2
  · intro x hx
    simp only [execResult, List.mem_append] at hx
    rcases hx with hx | hx
    · exact I.antiOk x hx
    · exact toutsFrom_ok V hx
  · intro x
    have hc := I.cnt x
    have he := count_erase_add' hmem x
    have hr : (restAllT M.nLps (upd s.past ℓ (keepG m.ev h T ++
          [{ ev := m.ev, cr := m.cr, pr := s.now }]))).count x +
          ((undoG m.ev T).map TEntry.msg).count x =
        (restAllT M.nLps s.past).count x + [m].count x := by
      apply count_restAllT_upd hℓ
      rw [hpast, hnew, List.tail_cons, List.tail_cons, List.map_append, List.count_append]
      conv => rhs; rw [← happ, List.map_append, List.count_append]
      show _ + [m].count x + _ = _
      omega
    have ho : (toutsAll M (upd s.past ℓ (keepG m.ev h T ++
          [{ ev := m.ev, cr := m.cr, pr := s.now }]))).count x +
          (toutsFrom M ℓ (lpState M ℓ (evs (keepG m.ev h T))) (undoG m.ev T)).count x =
        (toutsAll M s.past).count x +
          ((M.handler ℓ (lpState M ℓ (evs (keepG m.ev h T))) m.ev).2.map
            (fun o => ({ ev := o, cr := s.now } : TMsg))).count x := by
      apply count_toutsAll_upd M hℓ
      rw [hpast, ← keepG_undoG m.ev h T, touts_append, touts_append, List.count_append,
        List.count_append]
      simp only [toutsFrom, List.append_nil]
      omega
    simp only [execResult, List.count_append]
    omega
  · intro x hx
    simp only [execResult, List.mem_append, List.mem_map] at hx
    show x.cr < s.now + 1
    rcases hx with (hx | ⟨u, hu, rfl⟩) | ⟨o, ho, rfl⟩
    · have := I.pendCr x (List.mem_of_mem_erase hx); omega
    · have h1 := hTcr u (hsubU u hu)
      have h2 := hTpr u (List.mem_cons_of_mem _ (hsubU u hu))
      rw [msg_cr]; omega
    · exact Nat.lt_succ_self _
  · intro ℓ' u
    show u ∈ upd s.past ℓ _ ℓ' → u.pr < s.now + 1
    by_cases hne : ℓ' = ℓ
    · subst hne
      rw [upd_same, hnew, List.mem_cons, List.mem_append]
      rintro (hu | hu | hu)
      · have := hTpr u (by rw [hu]; simp); omega
      · have := hTpr u (List.mem_cons_of_mem _ (hsubK u hu)); omega
      · rw [List.mem_singleton] at hu; rw [hu]; exact Nat.lt_succ_self _
    · rw [upd_other _ _ hne]
      intro hu
      have := I.prLt ℓ' u hu; omega
  · intro ℓ' u
    show u ∈ (upd s.past ℓ _ ℓ').tail → _
    by_cases hne : ℓ' = ℓ
    · subst hne
      rw [upd_same, hnew, List.tail_cons, List.mem_append]
      rintro (hu | hu)
      · exact hTcr u (hsubK u hu)
      · rw [List.mem_singleton] at hu; rw [hu]; exact I.pendCr m hmem
    · rw [upd_other _ _ hne]; exact I.crLt ℓ' u
  · intro ℓ'
    show (upd s.past ℓ _ ℓ').Pairwise _
    by_cases hne : ℓ' = ℓ
    · subst hne
      rw [upd_same]
      rw [List.pairwise_append]
      refine ⟨?_, by simp, ?_⟩
      · refine List.Pairwise.sublist ?_ hTinc
        exact List.Sublist.cons_cons _ (List.take_sublist _ _)
      · intro a ha b hb
        rw [List.mem_singleton] at hb
        rw [hb]
        apply hTpr a
        rcases List.mem_cons.mp ha with ha | ha
        · rw [ha]; simp
        · exact List.mem_cons_of_mem _ (hsubK a ha)
    · rw [upd_other _ _ hne]; exact I.prInc ℓ'

theorem GInv.annihilate (I : GInv M s) {o : TMsg} (hp : o ∈ s.pending) (ha : o ∈ s.antis) :
    GInv M (annihilateResult s o) := by
  refine ⟨I.out, I.head, I.dest, I.sorted, ?_, ?_, ?_, ?_, I.prLt, I.crLt, I.prInc⟩
  · intro x hx; exact I.pendOk x (List.mem_of_mem_erase hx)
  · intro x hx; exact I.antiOk x (List.mem_of_mem_erase hx)
  · intro x
    have hc := I.cnt x
    have h1 := count_erase_add' hp x
    have h2 := count_erase_add' ha x
    simp only [annihilateResult]
    omega
  · intro x hx; exact I.pendCr x (List.mem_of_mem_erase hx)

theorem GInv.antiRollback (V : V2 M) (I : GInv M s) {ℓ : Nat} {o : TEntry} {K U : List TEntry}
    (ha : o.msg ∈ s.antis) (hpast : s.past ℓ = K ++ o :: U) (hK : K ≠ []) :
    GInv M (antiRollbackResult M s ℓ o K U) := by
  have hℓ : ℓ < M.nLps := I.lt_of_past_ne_nil (by rw [hpast]; simp)
  obtain ⟨k0, Kt, rfl⟩ := List.exists_cons_of_ne_nil hK
  have hhd := I.head ℓ hℓ
  have hTd := I.dest ℓ hℓ
  have hTs := I.sorted ℓ hℓ
  have hTpr := I.prLt ℓ
  have hTcr := I.crLt ℓ
  have hTinc := I.prInc ℓ
  rw [hpast] at hhd hTd hTs hTpr hTcr hTinc
  simp only [List.cons_append, List.tail_cons, List.head?_cons] at hhd hTd hTs hTcr
  refine ⟨?_, ?_, ?_, ?_, ?_, ?_, ?_, ?_, ?_, ?_, ?_⟩
  · intro ℓ' hℓ'
    show upd s.past ℓ _ ℓ' = []
    rw [upd_other _ _ (by omega)]
    exact I.out ℓ' hℓ'
  · intro ℓ' hℓ'
    show (upd s.past ℓ _ ℓ').head? = _
    by_cases hne : ℓ' = ℓ
    · subst hne
      rw [upd_same]; exact hhd
    · rw [upd_other _ _ hne]; exact I.head ℓ' hℓ'
  · intro ℓ' hℓ' a
    show a ∈ (upd s.past ℓ _ ℓ').tail → _
    by_cases hne : ℓ' = ℓ
    · subst hne
      rw [upd_same, List.tail_cons]
      intro ha'
      exact hTd a (List.mem_append_left _ ha')
    · rw [upd_other _ _ hne]; exact I.dest ℓ' hℓ' a
  · intro ℓ' hℓ'
    show (evs (upd s.past ℓ _ ℓ').tail).Pairwise _
    by_cases hne : ℓ' = ℓ
    · subst hne
      rw [upd_same, List.tail_cons]
      rw [evs_append] at hTs
      exact (List.pairwise_append.mp hTs).1
    · rw [upd_other _ _ hne]; exact I.sorted ℓ' hℓ'
  · intro x hx
    simp only [antiRollbackResult, List.mem_append, List.mem_map] at hx
    rcases hx with hx | ⟨u, hu, rfl⟩
    · exact I.pendOk x hx
    · have := hTd u (List.mem_append_right _ (List.mem_cons_of_mem _ hu))
      exact ⟨by rw [msg_ev, this.1]; exact hℓ, this.2⟩
  · intro x hx
    simp only [antiRollbackResult, List.mem_append] at hx
    rcases hx with hx | hx
    · exact I.antiOk x (List.mem_of_mem_erase hx)
    · exact toutsFrom_ok V hx
  · intro x
    have hc := I.cnt x
    have he := count_erase_add' ha x
    have hr : (restAllT M.nLps (upd s.past ℓ (k0 :: Kt))).count x +
          ([o.msg].count x + (U.map TEntry.msg).count x) =
        (restAllT M.nLps s.past).count x + 0 := by
      apply count_restAllT_upd hℓ
      rw [hpast]
      simp only [List.cons_append, List.tail_cons, List.map_append, List.map_cons, List.count_append]
      rw [show o.msg :: U.map TEntry.msg = [o.msg] ++ U.map TEntry.msg from rfl, List.count_append]
      omega
    have ho : (toutsAll M (upd s.past ℓ (k0 :: Kt))).count x +
          (toutsFrom M ℓ (lpState M ℓ (evs (k0 :: Kt))) (o :: U)).count x =
        (toutsAll M s.past).count x + 0 := by
      apply count_toutsAll_upd M hℓ
      rw [hpast, touts_append, List.count_append]
      omega
    simp only [antiRollbackResult, List.count_append]
    omega
  · intro x hx
    simp only [antiRollbackResult, List.mem_append, List.mem_map] at hx
    show x.cr < s.now
    rcases hx with hx | ⟨u, hu, rfl⟩
    · exact I.pendCr x hx
    · have h1 := hTcr u (List.mem_append_right _ (List.mem_cons_of_mem _ hu))
      have h2 := hTpr u (List.mem_append_right _ (List.mem_cons_of_mem _ hu))
      rw [msg_cr]; omega
  · intro ℓ' u
    show u ∈ upd s.past ℓ _ ℓ' → u.pr < s.now
    by_cases hne : ℓ' = ℓ
    · subst hne
      rw [upd_same]
      intro hu
      exact hTpr u (List.mem_append_left _ hu)
    · rw [upd_other _ _ hne]; exact I.prLt ℓ' u
  · intro ℓ' u
    show u ∈ (upd s.past ℓ _ ℓ').tail → _
    by_cases hne : ℓ' = ℓ
    · subst hne
      rw [upd_same, List.tail_cons]
      intro hu
      exact hTcr u (List.mem_append_left _ hu)
    · rw [upd_other _ _ hne]; exact I.crLt ℓ' u
  · intro ℓ'
    show (upd s.past ℓ _ ℓ').Pairwise _
    by_cases hne : ℓ' = ℓ
    · subst hne
      rw [upd_same]
      exact (List.pairwise_append.mp hTinc).1
    · rw [upd_other _ _ hne]; exact I.prInc ℓ'

theorem GInv.step (V : V2 M) (I : GInv M s) {s' : TWGState} (h : Step M s s') : GInv M s' := by
  cases h with
  | exec ℓ e h T hmem hdest hℓ htype hpast => exact I.exec V hmem hdest hℓ htype hpast
  | annihilate o hp ha => exact I.annihilate hp ha
  | antiRollback ℓ o K U ha hpast hK => exact I.antiRollback V ha hpast hK

end steps

/-- the invariant holds in every reachable state, under the NON-STRICT contract -/
theorem reachable_ginv {M : SimModel σ} (V : V2 M) {s : TWGState} (hr : Reachable M s) : GInv M s := by
  induction hr with
  | init => exact inv_init V
  | step _ hs ih => exact ih.step V hs

end RootSim.TWG
