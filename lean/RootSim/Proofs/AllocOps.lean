import RootSim.Proofs.AllocCkpt
/-! `rs_calloc`, `rs_realloc` as compositions; the frame relation shared by all user-level operations. -/
namespace RootSim.Alloc

/-- what every user-level operation (malloc/calloc/realloc/free/store) preserves -/
structure Frame (c : Cfg) (s s' : MM) : Prop where
  inv : Inv0 c s'
  logs : s'.logs = s.logs
  sub : (ids s.arenas).Sublist (ids s'.arenas)

theorem Frame.refl {c : Cfg} {s : MM} (h : Inv0 c s) : Frame c s s := ⟨h, rfl, List.Sublist.refl _⟩

theorem Frame.trans {c : Cfg} {s1 s2 s3 : MM} (h1 : Frame c s1 s2) (h2 : Frame c s2 s3) : Frame c s1 s3 :=
  ⟨h2.inv, h2.logs.trans h1.logs, h1.sub.trans h2.sub⟩

theorem AllocRes.toFrame {c s s' p e} (h : AllocRes c s s' p e) : Frame c s s' := ⟨h.inv, h.logs, h.sub⟩

theorem FreeRes.toFrame {c s s' p j} (h : FreeRes c s s' p j) : Frame c s s' :=
  ⟨h.inv, h.logs, by rw [h.ids]; exact List.Sublist.refl _⟩

theorem PokeRes.ids {c s s' aid o bs} (h : PokeRes c s s' aid o bs) : ids s'.arenas = ids s.arenas := by
  have := congrArg (List.map Prod.fst) h.trees
  unfold Alloc.ids
  simpa [List.map_map, Function.comp_def] using this

theorem PokeRes.toFrame {c s s' aid o bs} (h : PokeRes c s s' aid o bs) : Frame c s s' :=
  ⟨h.inv, h.logs, by rw [h.ids]; exact List.Sublist.refl _⟩

theorem mem_arena_of_live {c : Cfg} {s : MM} {b : Nat × Nat × Nat} (h : b ∈ s.live c) :
    ∃ a ∈ s.arenas, a.id = b.1 := by
  rw [mem_live] at h
  obtain ⟨a, ha, e, _⟩ := h
  exact ⟨a, ha, e⟩

/-- a store inside one live block leaves the bytes of every other live block alone -/
theorem poke_bytes_other {c : Cfg} {s s' : MM} {aid o : Nat} {bs : List Nat} (hI : Inv0 c s)
    (h : PokeRes c s s' aid o bs) {ob kb : Nat} (hblk : (aid, ob, kb) ∈ s.live c) (h1 : ob ≤ o)
    (h2 : o + bs.length ≤ ob + 2 ^ kb) {b : Nat × Nat × Nat} (hb : b ∈ s.live c) (hne : b ≠ (aid, ob, kb)) :
    s'.bytes b = s.bytes b := by
  unfold MM.bytes
  apply h.frame
  by_cases he : b.1 = aid
  · right
    rcases b with ⟨b1, b2, b3⟩
    simp at he; subst he
    have := live_disjoint hI hb hblk (by intro h; apply hne; simp at h; simp [h])
    simp; omega
  · exact Or.inl he

theorem readAt_take (mem : List Nat) (o len m : Nat) : (readAt mem o len).take m = readAt mem o (min m len) := by
  simp [readAt, List.take_take]

theorem peek_take (s : MM) (id o len m : Nat) : (s.peek id o len).take m = s.peek id o (min m len) := by
  unfold MM.peek
  split
  · exact readAt_take _ _ _ _
  · simp

theorem peek_length {c : Cfg} {s : MM} (hI : Inv0 c s) {a : Arena} (ha : a ∈ s.arenas) {o len : Nat}
    (h : o + len ≤ 2 ^ c.T) : (s.peek a.id o len).length = len := by
  unfold MM.peek
  rw [findArena_of_mem hI.nodup ha]
  exact readAt_length (by rw [(hI.ok a ha).2]; exact h)

/-- `rs_malloc` creates a new arena only when no existing one can satisfy the request -/
theorem rsMalloc_no_grow {c : Cfg} {s s' : MM} {n ins : Nat} {r : Ret} (hc : c.ok) (hI : Inv0 c s)
    {a : Arena} (ha : a ∈ s.arenas) (hl : blockExp c.B n ≤ a.tree.longest c.T)
    (h : rsMalloc c s n ins = (s', r)) : s'.arenas.length = s.arenas.length := by
  unfold rsMalloc at h
  split at h
  · simp at h; rw [← h.1]
  · simp only at h
    split at h
    · simp at h; rw [← h.1]
    · rename_i hn heT
      have heT : blockExp c.B n ≤ c.T := by omega
      have hBe := (blockExp_spec c.B n).1
      rcases mallocIn_spec hc hBe heT s.arenas hI.ok with ⟨_, h2⟩ | ⟨pre, b, post, t', off, h1, h2, _⟩
      · have := h2 a ha; omega
      · rw [h2] at h
        simp at h
        rw [← h.1, h1]; simp

/-! ### `rs_calloc` -/

theorem rsCalloc_ptr {c : Cfg} {s s' : MM} {nm sz ins : Nat} {p : Ptr} (hc : c.ok) (hI : Inv0 c s)
    (h : rsCalloc c s nm sz ins = (s', .ptr p)) :
    ∃ s1, AllocRes c s s1 p (blockExp c.B (nm * sz % 2 ^ 64)) ∧
      PokeRes c s1 s' p.aid p.off (List.replicate (nm * sz % 2 ^ 64) 0) := by
  unfold rsCalloc at h
  split at h
  · simp at h
  simp only at h
  generalize nm * sz % 2 ^ 64 = tot at *
  cases hm : rsMalloc c s tot ins with
  | mk s1 r =>
    rw [hm] at h
    cases r with
    | ptr q =>
      simp only [Prod.mk.injEq, Ret.ptr.injEq] at h
      obtain ⟨rfl, rfl⟩ := h
      have hA := rsMalloc_ptr hc hI hm
      refine ⟨s1, hA, ?_⟩
      have hl : (q.aid, q.off, blockExp c.B tot) ∈ s1.live c := (hA.live _).2 (Or.inl rfl)
      obtain ⟨a, ha, he⟩ := mem_arena_of_live hl
      simp at he
      rw [← he]
      apply poke_spec hA.inv ha
      have := (blockExp_spec c.B tot).2.1
      have := hA.inside
      simp; omega
    | null => simp at h
    | enomem => simp at h
    | einval => simp at h
    | ok => simp at h
    | ref r => simp at h

theorem rsCalloc_not_ptr {c : Cfg} {s s' : MM} {nm sz ins : Nat} {r : Ret} (hc : c.ok) (hI : Inv0 c s)
    (h : rsCalloc c s nm sz ins = (s', r)) (hr : ∀ p, r ≠ .ptr p) :
    s' = s ∧ ((nm * sz % 2 ^ 64 = 0 ∧ r = .null) ∨ (2 ^ c.T < nm * sz % 2 ^ 64 ∧ r = .enomem) ∨
      (c.callocChecked = true ∧ 2 ^ 64 ≤ nm * sz ∧ r = .enomem)) := by
  unfold rsCalloc at h
  split at h
  · rename_i hck
    simp only [Prod.mk.injEq] at h
    exact ⟨h.1.symm, Or.inr (Or.inr ⟨hck.1, hck.2, h.2.symm⟩)⟩
  simp only at h
  generalize nm * sz % 2 ^ 64 = tot at *
  have fin : ∀ {s1 r1}, rsMalloc c s tot ins = (s1, r1) → (∀ p, r1 ≠ .ptr p) → s1 = s' → r1 = r →
      s' = s ∧ ((tot = 0 ∧ r = .null) ∨ (2 ^ c.T < tot ∧ r = .enomem) ∨
        (c.callocChecked = true ∧ 2 ^ 64 ≤ nm * sz ∧ r = .enomem)) := by
    intro s1 r1 hm hn e1 e2
    subst e1; subst e2
    obtain ⟨q1, q2⟩ := rsMalloc_not_ptr hc hI hm hn
    exact ⟨q1, q2.elim Or.inl (fun h => Or.inr (Or.inl h))⟩
  cases hm : rsMalloc c s tot ins with
  | mk s1 r1 =>
    rw [hm] at h
    cases r1 with
    | ptr q => simp at h; exact absurd h.2.symm (hr q)
    | null => simp at h; exact fin hm (by simp) h.1 h.2
    | enomem => simp at h; exact fin hm (by simp) h.1 h.2
    | einval => simp at h; exact fin hm (by simp) h.1 h.2
    | ok => simp at h; exact fin hm (by simp) h.1 h.2
    | ref x => simp at h; exact fin hm (by simp) h.1 h.2

/-! ### `rs_realloc` -/

/-- the three outcomes of `rs_realloc(p, n)` for a live `p` of order `j` and `n > 0` -/
theorem rsRealloc_spec {c : Cfg} {s : MM} (hc : c.ok) (hI : Inv0 c s) {p : Ptr} {j : Nat}
    (hp : (p.aid, p.off, j) ∈ s.live c) (n ins : Nat) (hn : 0 < n) :
    (j = blockExp c.B n ∧ rsRealloc c s (some p) n ins = some (s, .ptr p)) ∨
    (j ≠ blockExp c.B n ∧ 2 ^ c.T < n ∧ rsRealloc c s (some p) n ins = some (s, .enomem)) ∨
    (j ≠ blockExp c.B n ∧ n ≤ 2 ^ c.T ∧ ∃ s1 s3 q,
      rsRealloc c s (some p) n ins = some (s3, .ptr q) ∧
      AllocRes c s s1 q (blockExp c.B n) ∧
      PokeRes c s1 (s1.poke q.aid q.off (s1.peek p.aid p.off (min n (2 ^ j)))) q.aid q.off
        (s1.peek p.aid p.off (min n (2 ^ j))) ∧
      FreeRes c (s1.poke q.aid q.off (s1.peek p.aid p.off (min n (2 ^ j)))) s3 p j) := by
  have hb := live_bounds hI hp
  have hp' := hp
  rw [mem_live] at hp
  obtain ⟨a, ha, h1, hbk⟩ := hp
  simp at h1 hbk
  have hpos : 0 < 2 ^ j := Nat.two_pow_pos _
  have hord := BT.orderAt_spec (o := p.off) (hI.ok a ha).1 hbk (by simp) (by omega)
  have hoff : ¬ 2 ^ c.T ≤ p.off := by omega
  have hn0 : n ≠ 0 := by omega
  have hfa : findArena s.arenas p.aid = some a := by rw [← h1]; exact findArena_of_mem hI.nodup ha
  unfold rsRealloc
  simp only [hn0, if_false, hfa, hoff, hord]
  by_cases hj : j = blockExp c.B n
  · left; exact ⟨hj, by simp [hj]⟩
  · right
    simp only [hj, if_false]
    rcases rsMalloc_cases hc hI n ins with ⟨h0, _⟩ | ⟨hT, hm⟩ | ⟨_, hT, s1, q, hm⟩
    · omega
    · left; exact ⟨hj, hT, by simp [hm]⟩
    · right
      have hA := rsMalloc_ptr hc hI hm
      have hpl1 : (p.aid, p.off, j) ∈ s1.live c := (hA.live _).2 (Or.inr hp')
      have hql1 : (q.aid, q.off, blockExp c.B n) ∈ s1.live c := (hA.live _).2 (Or.inl rfl)
      obtain ⟨aq, haq, heq⟩ := mem_arena_of_live hql1
      obtain ⟨ap, hap, hep⟩ := mem_arena_of_live hpl1
      simp at heq hep
      have hlen : (s1.peek p.aid p.off (min n (2 ^ j))).length = min n (2 ^ j) := by
        rw [← hep]; apply peek_length hA.inv hap; omega
      have hP : PokeRes c s1 (s1.poke q.aid q.off (s1.peek p.aid p.off (min n (2 ^ j)))) q.aid q.off
          (s1.peek p.aid p.off (min n (2 ^ j))) := by
        rw [← heq]
        apply poke_spec hA.inv haq
        rw [hlen]
        have := (blockExp_spec c.B n).2.1
        have := hA.inside
        simp at *; omega
      have hpl2 : (p.aid, p.off, j) ∈ (s1.poke q.aid q.off (s1.peek p.aid p.off (min n (2 ^ j)))).live c := by
        rw [hP.live]; exact hpl1
      obtain ⟨s3, hf, hF⟩ := rsFree_spec hc hP.inv hpl2
      refine ⟨hj, hT, s1, s3, q, ?_, hA, hP, hF⟩
      simp only [hm, hf, Option.map_some]

end RootSim.Alloc
