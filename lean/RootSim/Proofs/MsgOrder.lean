import RootSim.Model.Msg
/-! Helper lemmas for the event order (C16). -/
namespace RootSim

theorem memcmpGt_irrefl (x : List Nat) : memcmpGt x x = false := by
  induction x with
  | nil => rfl
  | cons a as ih => simp [memcmpGt, ih]

theorem memcmpGt_asymm : ∀ (x y : List Nat), memcmpGt x y = true → memcmpGt y x = false
  | [], _, h => by simp [memcmpGt] at h
  | _ :: _, [], h => by simp [memcmpGt] at h
  | a :: as, b :: bs, h => by
    simp only [memcmpGt] at h ⊢
    by_cases hab : a = b
    · subst hab; simp only [if_true] at h ⊢; exact memcmpGt_asymm as bs h
    · have hba : ¬ b = a := fun e => hab e.symm
      simp only [hab, hba, if_false, decide_eq_true_eq, decide_eq_false_iff_not] at h ⊢
      omega

theorem memcmpGt_trans : ∀ (x y z : List Nat), x.length = y.length → y.length = z.length →
    memcmpGt x y = true → memcmpGt y z = true → memcmpGt x z = true
  | [], _, _, _, _, h, _ => by simp [memcmpGt] at h
  | _ :: _, [], _, _, _, h, _ => by simp [memcmpGt] at h
  | _ :: _, _ :: _, [], _, _, _, h => by simp [memcmpGt] at h
  | a :: as, b :: bs, c :: cs, l1, l2, h1, h2 => by
    simp only [memcmpGt] at h1 h2 ⊢
    simp only [List.length_cons, Nat.add_right_cancel_iff] at l1 l2
    by_cases hab : a = b
    · subst hab
      simp only [if_true] at h1
      by_cases hac : a = c
      · subst hac; simp only [if_true] at h2 ⊢; exact memcmpGt_trans as bs cs l1 l2 h1 h2
      · simpa [hac] using h2
    · simp only [hab, if_false, decide_eq_true_eq] at h1
      by_cases hbc : b = c
      · subst hbc; simp [hab, h1]
      · simp only [hbc, if_false, decide_eq_true_eq] at h2
        have : ¬ a = c := by omega
        simp only [this, if_false, decide_eq_true_eq]; omega

/-- On byte strings of equal length `memcmp` is a *total* order: incomparable ⇒ equal. -/
theorem memcmpGt_total : ∀ (x y : List Nat), x.length = y.length →
    memcmpGt x y = false → memcmpGt y x = false → x = y
  | [], [], _, _, _ => rfl
  | [], _ :: _, l, _, _ => by simp at l
  | _ :: _, [], l, _, _ => by simp at l
  | a :: as, b :: bs, l, h1, h2 => by
    simp only [memcmpGt] at h1 h2
    simp only [List.length_cons, Nat.add_right_cancel_iff] at l
    by_cases hab : a = b
    · subst hab; simp only [if_true] at h1 h2
      rw [memcmpGt_total as bs l h1 h2]
    · have hba : ¬ b = a := fun e => hab e.symm
      simp only [hab, hba, if_false, decide_eq_false_iff_not] at h1 h2
      omega

theorem Msg.body_length (m : Msg) (h : m.WF) : m.body.length = m.plSize := by
  unfold Msg.body Msg.WF at *; simp [List.length_take]; omega

/-- Prop-level reading of `msg_is_before_extended` as a lexicographic order. -/
theorem isBeforeExt_iff (a b : Msg) : isBeforeExt a b = true ↔
    (a.anti > b.anti ∨ (a.anti = b.anti ∧ (a.mType > b.mType ∨ (a.mType = b.mType ∧
      (a.plSize < b.plSize ∨ (a.plSize = b.plSize ∧ memcmpGt a.body b.body = true)))))) := by
  unfold isBeforeExt
  by_cases x : a.anti = b.anti <;> by_cases y : a.mType = b.mType <;>
    by_cases z : a.plSize = b.plSize <;> simp [x, y, z] <;> omega

theorem isBefore_iff (a b : Msg) : isBefore a b = true ↔
    (a.destT < b.destT ∨ (a.destT = b.destT ∧
    (a.anti > b.anti ∨ (a.anti = b.anti ∧ (a.mType > b.mType ∨ (a.mType = b.mType ∧
      (a.plSize < b.plSize ∨ (a.plSize = b.plSize ∧ memcmpGt a.body b.body = true)))))))) := by
  unfold isBefore
  rw [Bool.or_eq_true, Bool.and_eq_true, isBeforeExt_iff]; simp

end RootSim
