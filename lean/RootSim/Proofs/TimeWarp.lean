import RootSim.Model.TimeWarp
import RootSim.Proofs.Spec
/-! The invariant of the abstract global Time Warp machine (`Model/TimeWarp.lean`): in every reachable
state the per-LP histories are well formed (I1) and "pending + processed = sent + anti" holds as an
equation between multiplicities for every event content (I2). From the invariant and a lower bound `g`
of everything pending, `Spec.Hist M s.past g` follows. -/
namespace RootSim.TW
open RootSim RootSim.Spec List

variable {σ : Type}

/-! ### the backward scan of `match_straggler_msg` -/

theorem splitUndo_append (e : Event) : ∀ l, (splitUndo e l).1 ++ (splitUndo e l).2 = l
  | [] => rfl
  | x :: l => by
    have ih := splitUndo_append e l
    simp only [splitUndo]
    split
    · rename_i h
      simp only [Bool.and_eq_true, List.isEmpty_iff] at h
      rw [h.1] at ih
      simpa using ih
    · simp [ih]

/-- everything undone is after the straggler -/
theorem splitUndo_undone (e : Event) : ∀ l, ∀ x ∈ (splitUndo e l).2, Event.before e x = true
  | [] => by simp [splitUndo]
  | a :: l => by
    have ih := splitUndo_undone e l
    simp only [splitUndo]
    split
    · rename_i h
      simp only [Bool.and_eq_true] at h
      intro x hx
      rcases List.mem_cons.mp hx with hx | hx
      · rw [hx]; exact h.2
      · exact ih x hx
    · exact ih

/-- in a sorted history nothing kept is after the straggler: the scan stops at the LAST entry that is
not after `e`, the earlier ones are not after that entry, and the order is negatively transitive -/
theorem splitUndo_kept {e : Event} : ∀ {l : List Event},
    l.Pairwise (fun a b => Event.before b a = false) →
    ∀ a ∈ (splitUndo e l).1, Event.before e a = false
  | [], _ => by simp [splitUndo]
  | x :: l, hs => by
    rw [List.pairwise_cons] at hs
    have ih := splitUndo_kept (e := e) hs.2
    have happ := splitUndo_append e l
    simp only [splitUndo]
    split
    · simp
    · rename_i h
      intro a ha
      rcases List.mem_cons.mp ha with ha | ha
      · rw [ha]
        cases hb : Event.before e x with
        | false => rfl
        | true =>
          exfalso
          simp only [hb, Bool.and_true, List.isEmpty_iff] at h
          obtain ⟨b, hbm⟩ := List.exists_mem_of_ne_nil _ h
          have hbl : b ∈ l := by rw [← happ]; exact List.mem_append_left _ hbm
          rcases Event.before_cases b hb with h1 | h1
          · rw [ih b hbm] at h1; exact Bool.noConfusion h1
          · rw [hs.1 b hbl] at h1; exact Bool.noConfusion h1
      · exact ih a ha

/-- the history after the straggler has been appended to the kept part is sorted -/
theorem sorted_keep_snoc {e : Event} {T : List Event}
    (hs : T.Pairwise (fun a b => Event.before b a = false)) :
    ((splitUndo e T).1 ++ [e]).Pairwise (fun a b => Event.before b a = false) := by
  have hs' : ((splitUndo e T).1 ++ (splitUndo e T).2).Pairwise
      (fun a b => Event.before b a = false) := by rw [splitUndo_append]; exact hs
  rw [List.pairwise_append] at hs' ⊢
  refine ⟨hs'.1, by simp, ?_⟩
  intro a ha b hb
  rw [List.mem_singleton] at hb
  rw [hb]
  exact splitUndo_kept hs a ha

theorem keep_snoc (e h : Event) (T : List Event) :
    keepOf e h T ++ [e] = h :: ((splitUndo e T).1 ++ [e]) := rfl

theorem keep_undo (e h : Event) (T : List Event) : keepOf e h T ++ undoOf e T = h :: T := by
  simp [keepOf, undoOf, splitUndo_append]

/-! ### multiplicities -/

/-- changing one summand, two-sided form -/
theorem add_flatMap_upd2 {m : List Event → Nat} (hm : Additive m) {f f' : Nat → List Event}
    {ℓ a b : Nat} (hk : m (f' ℓ) + a = m (f ℓ) + b) :
    ∀ (L : List Nat), L.Nodup → ℓ ∈ L → (∀ ℓ' ∈ L, ℓ' ≠ ℓ → f' ℓ' = f ℓ') →
      m (L.flatMap f') + a = m (L.flatMap f) + b
  | [], _, hℓ, _ => by simp at hℓ
  | c :: L, hn, hℓ, hne => by
    rw [add_flatMap_cons hm, add_flatMap_cons hm]
    rw [List.nodup_cons] at hn
    by_cases hc : c = ℓ
    · subst hc
      have : m (L.flatMap f') = m (L.flatMap f) := by
        apply add_flatMap_congr hm
        intro ℓ' hℓ'
        rw [hne ℓ' (List.mem_cons_of_mem _ hℓ') (by rintro rfl; exact hn.1 hℓ')]
      omega
    · have hℓL : ℓ ∈ L := by
        rcases List.mem_cons.mp hℓ with h | h
        · exact absurd h.symm hc
        · exact h
      have := add_flatMap_upd2 hm hk L hn.2 hℓL (fun ℓ' hℓ' => hne ℓ' (List.mem_cons_of_mem _ hℓ'))
      rw [hne c (by simp) hc]
      omega

/-- the processed events when one LP's history changes -/
theorem count_restAll_upd {n : Nat} {D : Nat → List Event} {ℓ : Nat} (hℓ : ℓ < n) (v : List Event)
    (x : Event) {a b : Nat} (h : v.tail.count x + a = (D ℓ).tail.count x + b) :
    (restAll n (upd D ℓ v)).count x + a = (restAll n D).count x + b := by
  unfold restAll
  apply add_flatMap_upd2 (additive_count x) (f := fun ℓ' => (D ℓ').tail)
    (f' := fun ℓ' => (upd D ℓ v ℓ').tail) (ℓ := ℓ) _ _ List.nodup_range (List.mem_range.mpr hℓ)
  · intro ℓ' _ hne; simp only [upd_other _ _ hne]
  · simp only [upd_same]; exact h

/-- the sent events when one LP's history changes -/
theorem count_outsAll_upd (M : SimModel σ) {D : Nat → List Event} {ℓ : Nat} (hℓ : ℓ < M.nLps)
    (v : List Event) (x : Event) {a b : Nat}
    (h : (outs M ℓ v).count x + a = (outs M ℓ (D ℓ)).count x + b) :
    (outsAll M (upd D ℓ v)).count x + a = (outsAll M D).count x + b := by
  unfold outsAll
  apply add_flatMap_upd2 (additive_count x) (f := fun ℓ' => outs M ℓ' (D ℓ'))
    (f' := fun ℓ' => outs M ℓ' (upd D ℓ v ℓ')) (ℓ := ℓ) _ _ List.nodup_range (List.mem_range.mpr hℓ)
  · intro ℓ' _ hne; simp only [upd_other _ _ hne]
  · simp only [upd_same]; exact h

theorem count_erase_add {l : List Event} {e : Event} (h : e ∈ l) (x : Event) :
    (l.erase e).count x + [e].count x = l.count x := by
  rw [List.count_erase, List.count_singleton]
  have hpos : 0 < l.count e := List.count_pos_iff.mpr h
  by_cases hxe : e = x
  · subst hxe
    simp only [beq_self_eq_true, if_true]
    omega
  · have hb : (e == x) = false := by simpa using hxe
    simp only [hb, Bool.false_eq_true, if_false]
    omega

/-- under the strict contract everything a fold of the handler schedules is a model event for an
existing LP -/
theorem outsFrom_ok {M : SimModel σ} (V : V2s M) {ℓ : Nat} {st : σ} {l : List Event} {y : Event}
    (h : y ∈ outsFrom M ℓ st l) : y.dest < M.nLps ∧ y.type < LP_INIT := by
  obtain ⟨P, c, S, _, hy⟩ := mem_outsFrom M ℓ st l h
  exact (V ℓ _ c y hy).2

/-! ### the invariant -/

/-- (I1) well-formed histories, (I2) the counting invariant; plus: LPs that do not exist have no
history, and every message and anti-message is a model event for an existing LP -/
structure Inv (M : SimModel σ) (s : TWState) : Prop where
  out    : ∀ ℓ, M.nLps ≤ ℓ → s.past ℓ = []
  head   : ∀ ℓ, ℓ < M.nLps → (s.past ℓ).head? = some (initEv ℓ)
  dest   : ∀ ℓ, ℓ < M.nLps → ∀ e ∈ (s.past ℓ).tail, e.dest = ℓ ∧ e.type < LP_INIT
  sorted : ∀ ℓ, ℓ < M.nLps → (s.past ℓ).tail.Pairwise (fun a b => Event.before b a = false)
  pendOk : ∀ x ∈ s.pending, x.dest < M.nLps ∧ x.type < LP_INIT
  antiOk : ∀ x ∈ s.antis, x.dest < M.nLps ∧ x.type < LP_INIT
  cnt    : ∀ x : Event, s.pending.count x + (restAll M.nLps s.past).count x =
             (outsAll M s.past).count x + s.antis.count x

/-- the initial bag of messages is what the `LP_INIT` invocations schedule -/
theorem flatMap_congr_mem {f h : Nat → List Event} : ∀ (L : List Nat), (∀ a ∈ L, f a = h a) →
    L.flatMap f = L.flatMap h
  | [], _ => rfl
  | a :: L, hfh => by
    rw [List.flatMap_cons, List.flatMap_cons, hfh a (by simp),
      flatMap_congr_mem L (fun b hb => hfh b (List.mem_cons_of_mem _ hb))]

theorem init_pending (M : SimModel σ) : (init M).pending = outsAll M (fun ℓ => [initEv ℓ]) := by
  show outsAll M (initPast M) = _
  unfold outsAll
  apply flatMap_congr_mem
  intro ℓ hℓ
  simp [initPast, List.mem_range.mp hℓ]

theorem init_past (M : SimModel σ) {ℓ : Nat} (hℓ : ℓ < M.nLps) : (init M).past ℓ = [initEv ℓ] := by
  simp [init, initPast, hℓ]

theorem inv_init {M : SimModel σ} (V : V2s M) : Inv M (init M) := by
  refine ⟨?_, ?_, ?_, ?_, ?_, ?_, ?_⟩
  · intro ℓ hℓ
    have : ¬ ℓ < M.nLps := by omega
    simp [init, initPast, this]
  · intro ℓ hℓ; simp [init, initPast, hℓ]
  · intro ℓ hℓ e he; simp [init, initPast, hℓ] at he
  · intro ℓ hℓ; simp [init, initPast, hℓ]
  · intro x hx
    simp only [init, outsAll, List.mem_flatMap] at hx
    obtain ⟨ℓ, _, hx⟩ := hx
    exact outsFrom_ok V hx
  · intro x hx; simp [init] at hx
  · intro x
    have hr : (restAll M.nLps (init M).past).count x = 0 := by
      rw [List.count_eq_zero]
      simp only [restAll, List.mem_flatMap, List.mem_range, not_exists, not_and]
      intro ℓ hℓ; simp [init, initPast, hℓ]
    rw [hr]
    simp [init]

section steps
variable {M : SimModel σ} {s : TWState}

theorem Inv.exec (V : V2s M) (I : Inv M s) {ℓ : Nat} {e h : Event} {T : List Event}
    (hmem : e ∈ s.pending) (hdest : e.dest = ℓ) (hℓ : ℓ < M.nLps) (htype : e.type < LP_INIT)
    (hpast : s.past ℓ = h :: T) : Inv M (execResult M s ℓ e h T) := by
  have hh : h = initEv ℓ := by
    have := I.head ℓ hℓ
    rw [hpast] at this
    simpa using this
  have hTd := I.dest ℓ hℓ
  have hTs := I.sorted ℓ hℓ
  rw [hpast, List.tail_cons] at hTd hTs
  have happ : (splitUndo e T).1 ++ undoOf e T = T := splitUndo_append e T
  refine ⟨?_, ?_, ?_, ?_, ?_, ?_, ?_⟩
  · intro ℓ' hℓ'
    show upd s.past ℓ _ ℓ' = []
    rw [upd_other _ _ (by omega)]
    exact I.out ℓ' hℓ'
  · intro ℓ' hℓ'
    show (upd s.past ℓ _ ℓ').head? = _
    by_cases hne : ℓ' = ℓ
    · subst hne
      rw [upd_same, keep_snoc, hh]; rfl
    · rw [upd_other _ _ hne]; exact I.head ℓ' hℓ'
  · intro ℓ' hℓ' a
    show a ∈ (upd s.past ℓ _ ℓ').tail → _
    by_cases hne : ℓ' = ℓ
    · subst hne
      rw [upd_same, keep_snoc, List.tail_cons, List.mem_append]
      rintro (ha | ha)
      · exact hTd a (by rw [← happ]; exact List.mem_append_left _ ha)
      · rw [List.mem_singleton] at ha
        rw [ha]; exact ⟨hdest, htype⟩
    · rw [upd_other _ _ hne]; exact I.dest ℓ' hℓ' a
  · intro ℓ' hℓ'
    show (upd s.past ℓ _ ℓ').tail.Pairwise _
    by_cases hne : ℓ' = ℓ
    · subst hne
      rw [upd_same, keep_snoc, List.tail_cons]
      exact sorted_keep_snoc hTs
    · rw [upd_other _ _ hne]; exact I.sorted ℓ' hℓ'
  · intro x hx
    simp only [execResult, List.mem_append] at hx
    rcases hx with (hx | hx) | hx
    · exact I.pendOk x (List.mem_of_mem_erase hx)
    · have := hTd x (by rw [← happ]; exact List.mem_append_right _ hx)
      exact ⟨by rw [this.1]; exact hℓ, this.2⟩
    · exact (V ℓ _ e x hx).2
  · intro x hx
    simp only [execResult, List.mem_append] at hx
    rcases hx with hx | hx
    · exact I.antiOk x hx
    · exact outsFrom_ok V hx
  · intro x
    have hc := I.cnt x
    have he := count_erase_add hmem x
    have hr : (restAll M.nLps (upd s.past ℓ (keepOf e h T ++ [e]))).count x + (undoOf e T).count x =
        (restAll M.nLps s.past).count x + [e].count x := by
      apply count_restAll_upd hℓ
      rw [hpast, keep_snoc, List.tail_cons, List.tail_cons, List.count_append]
      conv => rhs; rw [← happ, List.count_append]
      omega
    have ho : (outsAll M (upd s.past ℓ (keepOf e h T ++ [e]))).count x +
          (outsFrom M ℓ (lpState M ℓ (keepOf e h T)) (undoOf e T)).count x =
        (outsAll M s.past).count x + (M.handler ℓ (lpState M ℓ (keepOf e h T)) e).2.count x := by
      apply count_outsAll_upd M hℓ
      rw [hpast, ← keep_undo e h T, outs_append, outs_append, List.count_append, List.count_append]
      simp only [outsFrom, List.append_nil]
      omega
    simp only [execResult, List.count_append]
    omega

theorem Inv.annihilate (I : Inv M s) {o : Event} (hp : o ∈ s.pending) (ha : o ∈ s.antis) :
    Inv M (annihilateResult s o) := by
  refine ⟨I.out, I.head, I.dest, I.sorted, ?_, ?_, ?_⟩
  · intro x hx; exact I.pendOk x (List.mem_of_mem_erase hx)
  · intro x hx; exact I.antiOk x (List.mem_of_mem_erase hx)
  · intro x
    have hc := I.cnt x
    have h1 := count_erase_add hp x
    have h2 := count_erase_add ha x
    simp only [annihilateResult]
    omega

theorem Inv.antiRollback (V : V2s M) (I : Inv M s) {ℓ : Nat} {o : Event} {K U : List Event}
    (ha : o ∈ s.antis) (hpast : s.past ℓ = K ++ o :: U) (hK : K ≠ []) :
    Inv M (antiRollbackResult M s ℓ o K U) := by
  have hℓ : ℓ < M.nLps := by
    apply Nat.lt_of_not_le
    intro hge
    have := I.out ℓ hge
    rw [hpast] at this
    simp at this
  obtain ⟨k0, Kt, rfl⟩ := List.exists_cons_of_ne_nil hK
  have hhd := I.head ℓ hℓ
  have hTd := I.dest ℓ hℓ
  have hTs := I.sorted ℓ hℓ
  rw [hpast] at hhd hTd hTs
  simp only [List.cons_append, List.tail_cons, List.head?_cons] at hhd hTd hTs
  refine ⟨?_, ?_, ?_, ?_, ?_, ?_, ?_⟩
  · intro ℓ' hℓ'
    show upd s.past ℓ _ ℓ' = []
    rw [upd_other _ _ (by omega)]
    exact I.out ℓ' hℓ'
  · intro ℓ' hℓ'
    show (upd s.past ℓ _ ℓ').head? = _
    by_cases hne : ℓ' = ℓ
    · subst hne
      rw [upd_same]; exact hhd
    · rw [upd_other _ _ hne]; exact I.head ℓ' hℓ'
  · intro ℓ' hℓ' a
    show a ∈ (upd s.past ℓ _ ℓ').tail → _
    by_cases hne : ℓ' = ℓ
    · subst hne
      rw [upd_same, List.tail_cons]
      intro ha'
      exact hTd a (List.mem_append_left _ ha')
    · rw [upd_other _ _ hne]; exact I.dest ℓ' hℓ' a
  · intro ℓ' hℓ'
    show (upd s.past ℓ _ ℓ').tail.Pairwise _
    by_cases hne : ℓ' = ℓ
    · subst hne
      rw [upd_same, List.tail_cons]
      exact (List.pairwise_append.mp hTs).1
    · rw [upd_other _ _ hne]; exact I.sorted ℓ' hℓ'
  · intro x hx
    simp only [antiRollbackResult, List.mem_append] at hx
    rcases hx with hx | hx
    · exact I.pendOk x hx
    · have := hTd x (List.mem_append_right _ (List.mem_cons_of_mem _ hx))
      exact ⟨by rw [this.1]; exact hℓ, this.2⟩
  · intro x hx
    simp only [antiRollbackResult, List.mem_append] at hx
    rcases hx with hx | hx
    · exact I.antiOk x (List.mem_of_mem_erase hx)
    · exact outsFrom_ok V hx
  · intro x
    have hc := I.cnt x
    have he := count_erase_add ha x
    have hr : (restAll M.nLps (upd s.past ℓ (k0 :: Kt))).count x + ([o].count x + U.count x) =
        (restAll M.nLps s.past).count x + 0 := by
      apply count_restAll_upd hℓ
      rw [hpast]
      simp only [List.cons_append, List.tail_cons, List.count_append]
      rw [show o :: U = [o] ++ U from rfl, List.count_append]
      omega
    have ho : (outsAll M (upd s.past ℓ (k0 :: Kt))).count x +
          (outsFrom M ℓ (lpState M ℓ (k0 :: Kt)) (o :: U)).count x =
        (outsAll M s.past).count x + 0 := by
      apply count_outsAll_upd M hℓ
      rw [hpast, outs_append, List.count_append]
      omega
    simp only [antiRollbackResult, List.count_append]
    omega

theorem Inv.step (V : V2s M) (I : Inv M s) {s' : TWState} (h : Step M s s') : Inv M s' := by
  cases h with
  | exec ℓ e h T hmem hdest hℓ htype hpast => exact I.exec V hmem hdest hℓ htype hpast
  | annihilate o hp ha => exact I.annihilate hp ha
  | antiRollback ℓ o K U ha hpast hK => exact I.antiRollback V ha hpast hK

end steps

/-- the invariant holds in every reachable state -/
theorem reachable_inv {M : SimModel σ} (V : V2s M) {s : TWState} (hr : Reachable M s) : Inv M s := by
  induction hr with
  | init => exact inv_init V
  | step _ hs ih => exact ih.step V hs

/-! ### from the invariant to the hypotheses of prefix uniqueness -/

theorem Inv.count_rest {M : SimModel σ} {s : TWState} (I : Inv M s) {x : Event}
    (hd : x.dest < M.nLps) : (restAll M.nLps s.past).count x = (s.past x.dest).tail.count x := by
  apply count_flatMap_single (f := fun ℓ => (s.past ℓ).tail) _ List.nodup_range
    (List.mem_range.mpr hd)
  intro ℓ' hℓ' hne hx
  exact hne (I.dest ℓ' (List.mem_range.mp hℓ') x hx).1.symm

/-- with a lower bound `g` of everything pending, the histories satisfy H1–H3 at `g` -/
theorem Inv.hist {M : SimModel σ} {s : TWState} (I : Inv M s) {g : Nat}
    (hp : ∀ x ∈ s.pending, g ≤ x.t) (ha : ∀ x ∈ s.antis, g ≤ x.t) : Hist M s.past g := by
  refine ⟨I.head, I.dest, I.sorted, ?_⟩
  intro ℓ hℓ e he
  by_cases hd : e.dest = ℓ
  · subst hd
    rw [List.count_filter (by simp)]
    have hc := I.cnt e
    have h1 : s.pending.count e = 0 :=
      List.count_eq_zero.mpr (fun hm => by have := hp e hm; omega)
    have h2 : s.antis.count e = 0 :=
      List.count_eq_zero.mpr (fun hm => by have := ha e hm; omega)
    have h3 := I.count_rest hℓ
    omega
  · have h1 : (s.past ℓ).tail.count e = 0 :=
      List.count_eq_zero.mpr (fun hm => hd (I.dest ℓ hℓ e hm).1)
    have h2 : ((outsAll M s.past).filter (fun o => decide (o.dest = ℓ))).count e = 0 :=
      List.count_eq_zero.mpr (fun hm => by
        have := (List.mem_filter.mp hm).2
        exact hd (by simpa using this))
    rw [h1, h2]

/-! ### the executable step functions perform exactly the steps of the relation -/

theorem exec?_sound {M : SimModel σ} {s s' : TWState} {ℓ : Nat} {e : Event}
    (h : exec? M s ℓ e = some s') : Step M s s' := by
  unfold exec? at h
  split at h
  · rename_i hc
    split at h
    · cases h
    · rename_i hd T hpast
      cases h
      exact Step.exec s ℓ e hd T hc.1 hc.2.1 hc.2.2.1 hc.2.2.2 hpast
  · cases h

theorem annihilate?_sound {M : SimModel σ} {s s' : TWState} {o : Event}
    (h : annihilate? s o = some s') : Step M s s' := by
  unfold annihilate? at h
  split at h
  · rename_i hc
    cases h
    exact Step.annihilate s o hc.1 hc.2
  · cases h

theorem antiRollback?_sound {M : SimModel σ} {s s' : TWState} {ℓ i : Nat}
    (h : antiRollback? M s ℓ i = some s') : Step M s s' := by
  unfold antiRollback? at h
  split at h
  · cases h
  · rename_i o ho
    split at h
    · rename_i hc
      cases h
      obtain ⟨hi, hoi⟩ := List.getElem?_eq_some_iff.mp ho
      have hsplit : s.past ℓ = (s.past ℓ).take i ++ o :: (s.past ℓ).drop (i + 1) := by
        rw [← hoi, List.getElem_cons_drop, List.take_append_drop]
      refine Step.antiRollback s ℓ o _ _ hc.2 hsplit ?_
      intro hnil
      rw [List.take_eq_nil_iff] at hnil
      rcases hnil with h0 | h0
      · omega
      · rw [h0] at hi; simp at hi
    · cases h

theorem step?_sound {M : SimModel σ} {s s' : TWState} {a : Action} (h : step? M s a = some s') :
    Step M s s' := by
  cases a with
  | exec ℓ e => exact exec?_sound h
  | annihilate o => exact annihilate?_sound h
  | antiRollback ℓ i => exact antiRollback?_sound h

/-- every step of the relation is performed by the executable step function on some action -/
theorem step?_complete {M : SimModel σ} {s s' : TWState} (h : Step M s s') :
    ∃ a, step? M s a = some s' := by
  cases h with
  | exec ℓ e hd T hmem hdest hℓ htype hpast =>
    refine ⟨.exec ℓ e, ?_⟩
    simp only [step?, exec?, hmem, hdest, hℓ, htype, and_self, if_true, hpast]
  | annihilate o hp ha =>
    refine ⟨.annihilate o, ?_⟩
    simp only [step?, annihilate?, hp, ha, and_self, if_true]
  | antiRollback ℓ o K U ha hpast hK =>
    refine ⟨.antiRollback ℓ K.length, ?_⟩
    have hpos : 0 < K.length := List.length_pos_iff.mpr hK
    have hget : (s.past ℓ)[K.length]? = some o := by rw [hpast]; simp
    have htake : (s.past ℓ).take K.length = K := by rw [hpast]; simp
    have hdrop : (s.past ℓ).drop (K.length + 1) = U := by rw [hpast]; simp
    simp only [step?, antiRollback?, hget, hpos, ha, and_self, if_true, htake, hdrop]

theorem run?_reachable {M : SimModel σ} : ∀ (as : List Action) {s s' : TWState},
    Reachable M s → run? M s as = some s' → Reachable M s'
  | [], s, s', hr, h => by simp only [run?, Option.some.injEq] at h; rw [← h]; exact hr
  | a :: as, s, s', hr, h => by
    unfold run? at h
    split at h
    · cases h
    · rename_i s1 hs1
      exact run?_reachable as (Reachable.step hr (step?_sound hs1)) h

theorem lowerBound_sound {s : TWState} {g : Nat} (h : lowerBound s g = true) :
    (∀ x ∈ s.pending, g ≤ x.t) ∧ (∀ x ∈ s.antis, g ≤ x.t) := by
  unfold lowerBound at h
  simp only [Bool.and_eq_true, List.all_eq_true, decide_eq_true_eq] at h
  exact h

/-! ### quiescent states -/

theorem exists_time_bound : ∀ l : List Event, ∃ g, ∀ x ∈ l, x.t < g
  | [] => ⟨0, by simp⟩
  | a :: l => by
    obtain ⟨g, hg⟩ := exists_time_bound l
    refine ⟨max g (a.t + 1), ?_⟩
    intro x hx
    rcases List.mem_cons.mp hx with h | h
    · rw [h]; omega
    · have := hg x h; omega

theorem filter_below_self {g : Nat} {l : List Event} (h : ∀ x ∈ l, x.t < g) :
    l.filter (below g) = l :=
  List.filter_eq_self.mpr (fun a ha => by simpa [below] using h a ha)

/-- a state with nothing pending and no anti-message IS a final state of a sequential run -/
theorem Inv.quiescent_sequential {M : SimModel σ} (V : V2s M) {s : TWState} (I : Inv M s)
    (hp : s.pending = []) (ha : s.antis = []) :
    ∃ q, Spec.Reachable M q ∧ q.pending = [] ∧ ∀ ℓ, ℓ < M.nLps → q.disp ℓ = s.past ℓ := by
  obtain ⟨g, hg⟩ := exists_time_bound ((List.range M.nLps).flatMap s.past)
  have hg' : ∀ ℓ, ℓ < M.nLps → ∀ x ∈ s.past ℓ, x.t < g := fun ℓ hℓ x hx =>
    hg x (List.mem_flatMap.mpr ⟨ℓ, List.mem_range.mpr hℓ, hx⟩)
  have H : Hist M s.past g := I.hist (by rw [hp]; simp) (by rw [ha]; simp)
  obtain ⟨q, hq, P, hl⟩ := exists_run_to H (V.below _ _) V.timeMono
  have P2 := P.toPhase2 H (V.below _ _) V.timeMono hl
  have hdisp : ∀ ℓ, ℓ < M.nLps → q.disp ℓ = s.past ℓ := by
    intro ℓ hℓ
    have h1 := P2.filter_eq H hℓ
    have hpre := P.pre ℓ hℓ
    rw [filter_below_self (hg' ℓ hℓ),
      filter_below_self (fun x hx => hg' ℓ hℓ x (hpre.subset hx))] at h1
    exact h1
  refine ⟨q, hq, ?_, hdisp⟩
  rw [List.eq_nil_iff_forall_not_mem]
  intro x hx
  have hc := P.cnt x
  have hi := I.cnt x
  have hr : (restAll M.nLps q.disp).count x = (restAll M.nLps s.past).count x := by
    unfold restAll
    apply add_flatMap_congr (additive_count x)
    intro ℓ hℓ; rw [hdisp ℓ (List.mem_range.mp hℓ)]
  have ho : (outsAll M q.disp).count x = (outsAll M s.past).count x := by
    unfold outsAll
    apply add_flatMap_congr (additive_count x)
    intro ℓ hℓ; rw [hdisp ℓ (List.mem_range.mp hℓ)]
  rw [hp, ha] at hi
  simp only [List.count_nil] at hi
  have : 0 < q.pending.count x := List.count_pos_iff.mpr hx
  omega

end RootSim.TW
