import RootSim.Model.Float
import Mathlib.Tactic.Positivity
import Mathlib.Algebra.Order.Field.Basic
/-!
The cross-multiplied order `FVal.leFin` on dyadic pairs is the order of the rational numbers
they denote (this file alone uses Mathlib; nothing executable depends on it).
-/
namespace RootSim.Float

/-- the rational number denoted by `fin m s` -/
def dyQ (m : Int) (s : Nat) : ℚ := (m : ℚ) / 2 ^ s

theorem leFin_iff_rat (a : Int) (s : Nat) (b : Int) (t : Nat) :
    FVal.leFin a s b t ↔ dyQ a s ≤ dyQ b t := by
  unfold FVal.leFin dyQ
  rw [div_le_div_iff₀ (by positivity) (by positivity)]
  constructor
  · intro h; exact_mod_cast h
  · intro h; exact_mod_cast h

end RootSim.Float
