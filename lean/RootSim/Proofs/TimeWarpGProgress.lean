import RootSim.Proofs.TimeWarpG
/-! From the invariant of the instrumented Time Warp machine to the two hypotheses of prefix uniqueness
under V2 (`Proofs/SpecV2.lean`): `Spec.Hist` (through the content-level invariant `TW.Inv` of the
projection) and `Spec.Progress` (through the ghost creation order). -/
namespace RootSim.TWG
open RootSim RootSim.Spec RootSim.TW List

variable {σ : Type}

/-- the per-LP histories (contents) of a state -/
def histOf (s : TWGState) : Nat → List Event := fun ℓ => evs (s.past ℓ)

theorem proj_past (s : TWGState) : (proj s).past = histOf s := rfl

section inv
variable {M : SimModel σ} {s : TWGState}

/-- I2 for tagged messages, as a permutation -/
theorem GInv.cntPerm (I : GInv M s) :
    (s.pending ++ restAllT M.nLps s.past).Perm (toutsAll M s.past ++ s.antis) := by
  rw [List.perm_iff_count]
  intro a
  rw [List.count_append, List.count_append]
  exact I.cnt a

/-- the projection satisfies the content-level invariant of `Proofs/TimeWarp.lean` -/
theorem GInv.toInv (I : GInv M s) : TW.Inv M (proj s) := by
  refine ⟨?_, ?_, ?_, ?_, ?_, ?_, ?_⟩
  · intro ℓ hℓ
    show evs (s.past ℓ) = []
    rw [I.out ℓ hℓ]; rfl
  · intro ℓ hℓ
    show (evs (s.past ℓ)).head? = _
    unfold evs
    rw [List.head?_map, I.head ℓ hℓ]; rfl
  · intro ℓ hℓ e he
    change e ∈ (evs (s.past ℓ)).tail at he
    rw [← evs_tail] at he
    obtain ⟨u, hu, rfl⟩ := mem_evs.mp he
    exact I.dest ℓ hℓ u hu
  · intro ℓ hℓ
    show (evs (s.past ℓ)).tail.Pairwise _
    rw [← evs_tail]
    exact I.sorted ℓ hℓ
  · intro x hx
    obtain ⟨m, hm, rfl⟩ := List.mem_map.mp hx
    exact I.pendOk m hm
  · intro x hx
    obtain ⟨m, hm, rfl⟩ := List.mem_map.mp hx
    exact I.antiOk m hm
  · intro x
    have hperm := (I.cntPerm.map TMsg.ev).count_eq x
    rw [List.map_append, List.map_append, restAllT_ev, toutsAll_ev, List.count_append,
      List.count_append] at hperm
    exact hperm

/-- with a lower bound `g` of everything pending, the histories satisfy H1–H3 at `g` -/
theorem GInv.hist (I : GInv M s) {g : Nat}
    (hp : ∀ x ∈ s.pending, g ≤ x.ev.t) (ha : ∀ x ∈ s.antis, g ≤ x.ev.t) : Hist M (histOf s) g := by
  apply I.toInv.hist (s := proj s)
  · intro x hx
    obtain ⟨m, hm, rfl⟩ := List.mem_map.mp hx
    exact hp m hm
  · intro x hx
    obtain ⟨m, hm, rfl⟩ := List.mem_map.mp hx
    exact ha m hm

end inv

/-- a non-empty set of naturals has a least element -/
theorem exists_min_nat {P : Nat → Prop} (h : ∃ n, P n) : ∃ n, P n ∧ ∀ m, P m → n ≤ m := by
  obtain ⟨n, hn⟩ := h
  induction n using Nat.strongRecOn with
  | _ n ih =>
    by_cases hmin : ∀ m, P m → n ≤ m
    · exact ⟨n, hn, hmin⟩
    · have : ∃ m, P m ∧ m < n := by
        apply Classical.byContradiction
        intro hc
        apply hmin
        intro m hm
        apply Nat.le_of_not_lt
        intro hlt
        exact hc ⟨m, hm, hlt⟩
      obtain ⟨m, hm, hlt⟩ := this
      exact ih m hlt hm

/-- **The machine's contribution under V2.** In a state that satisfies the invariant, with a lower bound `g`
of everything pending: whenever a sequential run has followed the histories so far and some event of the
histories below `g` is not dispatched yet, a minimal such event is pending in the sequential run.

Proof idea: among the not-yet-dispatched entries below `g` whose content is minimal for the event order,
take the one `u` that was processed FIRST in real time (step `τ`). Count the tagged messages with the
content `y` of `u` that were created before `τ`: those that are processed are at least the copies the
sequential run has dispatched plus `u` itself (entries stand in processing order, and are created before
they are processed); those that were sent come from invocations performed before `τ`, which by V2 are on
events not after `y`, hence — by the choice of `u` — on entries the sequential run has already dispatched;
the two numbers agree by the tagged counting invariant (nothing with content `y` is pending or cancelled:
`y` is below `g`). So the sequential run has sent more copies of `y` than it has dispatched. -/
theorem GInv.progress {M : SimModel σ} (V : V2 M) {s : TWGState} (I : GInv M s) {g : Nat}
    (hp : ∀ x ∈ s.pending, g ≤ x.ev.t) (ha : ∀ x ∈ s.antis, g ≤ x.ev.t) :
    Progress M (histOf s) g := by
  intro q P hne
  have H : Hist M (histOf s) g := I.hist hp ha
  have hrem : ∀ ℓ, remOf (histOf s) q ℓ = evs ((s.past ℓ).drop (q.disp ℓ).length) := by
    intro ℓ; simp [remOf, histOf, evs, List.map_drop]
  -- every LP's entries split into the part the sequential run has dispatched and the remainder
  have hD : ∀ ℓ, ℓ < M.nLps → evs ((s.past ℓ).take (q.disp ℓ).length) = q.disp ℓ := by
    intro ℓ hℓ
    have := List.prefix_iff_eq_take.mp (P.pre ℓ hℓ)
    rw [this]
    simp [histOf, evs, List.map_take]
  -- the candidates: steps at which a minimal not-yet-dispatched entry below `g` was processed
  have hC : ∃ τ, ∃ ℓ, ℓ < M.nLps ∧ ∃ u ∈ (s.past ℓ).drop (q.disp ℓ).length, u.ev.t < g ∧
      (∀ z ∈ remAll M (histOf s) g q, Event.before z u.ev = false) ∧ u.pr = τ := by
    obtain ⟨y, hyR, hymin⟩ := Event.exists_minimal _ hne
    obtain ⟨ℓ, hℓ, hyr, hyt⟩ := mem_remAll.mp hyR
    rw [hrem] at hyr
    obtain ⟨u, hu, rfl⟩ := mem_evs.mp hyr
    exact ⟨u.pr, ℓ, hℓ, u, hu, hyt, hymin, rfl⟩
  obtain ⟨τ, ⟨ℓ, hℓ, u, hu, hut, humin, hupr⟩, hτmin⟩ := exists_min_nat hC
  have hyr : u.ev ∈ remOf (histOf s) q ℓ := by rw [hrem]; exact mem_evs.mpr ⟨u, hu, rfl⟩
  have hyR : u.ev ∈ remAll M (histOf s) g q := mem_remAll.mpr ⟨ℓ, hℓ, hyr, hut⟩
  refine ⟨u.ev, hyR, humin, ?_⟩
  have hdest : u.ev.dest = ℓ := P.rem_dest H hℓ hyr
  -- the tagged messages with the content of `u` created before step `τ`
  let φ : TMsg → Bool := fun m => decide (m.ev = u.ev) && decide (m.cr < τ)
  have hφ : ∀ m, φ m = true ↔ m.ev = u.ev ∧ m.cr < τ := by
    intro m; simp [φ]
  have hcp := I.cntPerm.countP_eq φ
  rw [List.countP_append, List.countP_append] at hcp
  have hpend0 : s.pending.countP φ = 0 := by
    rw [List.countP_eq_zero]
    intro m hm hm'
    have := hp m hm
    rw [((hφ m).mp hm').1] at this
    omega
  have hanti0 : s.antis.countP φ = 0 := by
    rw [List.countP_eq_zero]
    intro m hm hm'
    have := ha m hm
    rw [((hφ m).mp hm').1] at this
    omega
  -- (1) processed: at least the dispatched copies and `u` itself
  have hlow : (q.disp ℓ).tail.count u.ev + 1 ≤ (restAllT M.nLps s.past).countP φ := by
    have h1 : ((s.past ℓ).tail.map TEntry.msg).countP φ ≤ (restAllT M.nLps s.past).countP φ :=
      addM_single_le (addM_countP φ) (f := fun ℓ' => (s.past ℓ').tail.map TEntry.msg)
        (List.range M.nLps) (List.mem_range.mpr hℓ)
    have hsplit : s.past ℓ = (s.past ℓ).take (q.disp ℓ).length ++ (s.past ℓ).drop (q.disp ℓ).length :=
      (List.take_append_drop _ _).symm
    have hDne : (s.past ℓ).take (q.disp ℓ).length ≠ [] := by
      intro h0
      have := hD ℓ hℓ
      rw [h0] at this
      exact P.ne ℓ hℓ this.symm
    have htail : (s.past ℓ).tail = ((s.past ℓ).take (q.disp ℓ).length).tail ++
        (s.past ℓ).drop (q.disp ℓ).length := by
      conv => lhs; rw [hsplit]
      exact List.tail_append_of_ne_nil hDne
    have hinc := I.prInc ℓ
    rw [hsplit, List.pairwise_append] at hinc
    have hutail : u ∈ (s.past ℓ).tail := by rw [htail]; exact List.mem_append_right _ hu
    have hR : 1 ≤ (((s.past ℓ).drop (q.disp ℓ).length).map TEntry.msg).countP φ := by
      apply List.countP_pos_iff.mpr
      refine ⟨u.msg, List.mem_map.mpr ⟨u, hu, rfl⟩, ?_⟩
      rw [hφ]
      refine ⟨rfl, ?_⟩
      have := I.crLt ℓ u hutail
      rw [msg_cr]; omega
    have hDc : (q.disp ℓ).tail.count u.ev ≤
        ((((s.past ℓ).take (q.disp ℓ).length).tail).map TEntry.msg).countP φ := by
      have hDt : evs ((s.past ℓ).take (q.disp ℓ).length).tail = (q.disp ℓ).tail := by
        rw [evs_tail, hD ℓ hℓ]
      rw [← hDt]
      unfold evs
      rw [List.count_eq_countP, List.countP_map, List.countP_map]
      apply List.countP_mono_left
      intro w hw hwy
      have hwy' : w.ev = u.ev := by simpa using hwy
      have hwD : w ∈ (s.past ℓ).take (q.disp ℓ).length := List.mem_of_mem_tail hw
      have hwt : w ∈ (s.past ℓ).tail := by rw [htail]; exact List.mem_append_left _ hw
      have h2 := I.crLt ℓ w hwt
      have h3 := hinc.2.2 w hwD u hu
      show φ w.msg = true
      rw [hφ]
      exact ⟨hwy', by rw [msg_cr]; omega⟩
    rw [htail, List.map_append, List.countP_append] at h1
    omega
  -- (2) sent: only by invocations the sequential run has performed too
  have hup : (toutsAll M s.past).countP φ ≤ (outsAll M q.disp).count u.ev := by
    unfold toutsAll outsAll
    apply addM_flatMap_le (addM_countP φ) (addM_count u.ev)
      (f₁ := fun ℓ' => touts M ℓ' (s.past ℓ')) (f₂ := fun ℓ' => outs M ℓ' (q.disp ℓ'))
    intro ℓ' hℓ'
    have hℓ' := List.mem_range.mp hℓ'
    show (touts M ℓ' (s.past ℓ')).countP φ ≤ _
    have hsplit : s.past ℓ' = (s.past ℓ').take (q.disp ℓ').length ++
        (s.past ℓ').drop (q.disp ℓ').length := (List.take_append_drop _ _).symm
    rw [hsplit, touts_append, List.countP_append, hD ℓ' hℓ']
    have h1 : (touts M ℓ' ((s.past ℓ').take (q.disp ℓ').length)).countP φ ≤
        (outs M ℓ' (q.disp ℓ')).count u.ev := by
      have hO : outs M ℓ' (q.disp ℓ') =
          (touts M ℓ' ((s.past ℓ').take (q.disp ℓ').length)).map TMsg.ev := by
        rw [touts_ev, hD ℓ' hℓ']
      rw [hO, List.count_eq_countP, List.countP_map]
      apply List.countP_mono_left
      intro m _ hm
      simpa using ((hφ m).mp hm).1
    have h2 : (toutsFrom M ℓ' (lpState M ℓ' (q.disp ℓ'))
        ((s.past ℓ').drop (q.disp ℓ').length)).countP φ = 0 := by
      rw [List.countP_eq_zero]
      intro m hm hm'
      obtain ⟨hmy, hmτ⟩ := (hφ m).mp hm'
      obtain ⟨P0, w, S0, hl, hcr, hout⟩ := mem_toutsFrom M ℓ' _ _ hm
      rw [hmy] at hout
      have hV := (V ℓ' _ w.ev u.ev hout).1
      have hwt : w.ev.t < g := by have := Event.t_le_of_not_before hV; omega
      have hwmin : ∀ z ∈ remAll M (histOf s) g q, Event.before z w.ev = false := by
        intro z hz
        cases hzw : Event.before z w.ev with
        | false => rfl
        | true =>
          rcases Event.before_cases u.ev hzw with h | h
          · rw [humin z hz] at h; exact Bool.noConfusion h
          · rw [hV] at h; exact Bool.noConfusion h
      have := hτmin w.pr ⟨ℓ', hℓ', w, by rw [hl]; simp, hwt, hwmin, rfl⟩
      omega
    omega
  -- (3) the sequential run's own counting
  have hcq := P.cnt u.ev
  have hrq := P.count_rest H (x := u.ev) (by rw [hdest]; exact hℓ)
  rw [hdest] at hrq
  exact List.count_pos_iff.mp (by omega)

/-! ### the executable step functions perform exactly the steps of the relation -/

theorem exec?_sound {M : SimModel σ} {s s' : TWGState} {ℓ : Nat} {m : TMsg}
    (h : exec? M s ℓ m = some s') : Step M s s' := by
  unfold exec? at h
  split at h
  · rename_i hc
    split at h
    · cases h
    · rename_i hd T hpast
      cases h
      exact Step.exec s ℓ m hd T hc.1 hc.2.1 hc.2.2.1 hc.2.2.2 hpast
  · cases h

theorem annihilate?_sound {M : SimModel σ} {s s' : TWGState} {o : TMsg}
    (h : annihilate? s o = some s') : Step M s s' := by
  unfold annihilate? at h
  split at h
  · rename_i hc
    cases h
    exact Step.annihilate s o hc.1 hc.2
  · cases h

theorem antiRollback?_sound {M : SimModel σ} {s s' : TWGState} {ℓ i : Nat}
    (h : antiRollback? M s ℓ i = some s') : Step M s s' := by
  unfold antiRollback? at h
  split at h
  · cases h
  · rename_i o ho
    split at h
    · rename_i hc
      cases h
      obtain ⟨hi, hoi⟩ := List.getElem?_eq_some_iff.mp ho
      have hsplit : s.past ℓ = (s.past ℓ).take i ++ o :: (s.past ℓ).drop (i + 1) := by
        rw [← hoi, List.getElem_cons_drop, List.take_append_drop]
      refine Step.antiRollback s ℓ o _ _ hc.2 hsplit ?_
      intro hnil
      rw [List.take_eq_nil_iff] at hnil
      rcases hnil with h0 | h0
      · omega
      · rw [h0] at hi; simp at hi
    · cases h

theorem step?_sound {M : SimModel σ} {s s' : TWGState} {a : Action} (h : step? M s a = some s') :
    Step M s s' := by
  cases a with
  | exec ℓ e c => exact exec?_sound h
  | annihilate e c => exact annihilate?_sound h
  | antiRollback ℓ i => exact antiRollback?_sound h

theorem step?_complete {M : SimModel σ} {s s' : TWGState} (h : Step M s s') :
    ∃ a, step? M s a = some s' := by
  cases h with
  | exec ℓ m hd T hmem hdest hℓ htype hpast =>
    refine ⟨.exec ℓ m.ev m.cr, ?_⟩
    simp only [step?, exec?, hmem, hdest, hℓ, htype, and_self, if_true, hpast]
  | annihilate o hp ha =>
    refine ⟨.annihilate o.ev o.cr, ?_⟩
    simp only [step?, annihilate?, hp, ha, and_self, if_true]
  | antiRollback ℓ o K U ha hpast hK =>
    refine ⟨.antiRollback ℓ K.length, ?_⟩
    have hpos : 0 < K.length := List.length_pos_iff.mpr hK
    have hget : (s.past ℓ)[K.length]? = some o := by rw [hpast]; simp
    have htake : (s.past ℓ).take K.length = K := by rw [hpast]; simp
    have hdrop : (s.past ℓ).drop (K.length + 1) = U := by rw [hpast]; simp
    simp only [step?, antiRollback?, hget, hpos, ha, and_self, if_true, htake, hdrop]

theorem run?_reachable {M : SimModel σ} : ∀ (as : List Action) {s s' : TWGState},
    Reachable M s → run? M s as = some s' → Reachable M s'
  | [], s, s', hr, h => by simp only [run?, Option.some.injEq] at h; rw [← h]; exact hr
  | a :: as, s, s', hr, h => by
    unfold run? at h
    split at h
    · cases h
    · rename_i s1 hs1
      exact run?_reachable as (Reachable.step hr (step?_sound hs1)) h

theorem lowerBound_sound {s : TWGState} {g : Nat} (h : lowerBound s g = true) :
    (∀ x ∈ s.pending, g ≤ x.ev.t) ∧ (∀ x ∈ s.antis, g ≤ x.ev.t) := by
  unfold lowerBound at h
  simp only [Bool.and_eq_true, List.all_eq_true, decide_eq_true_eq] at h
  exact h

/-! ### quiescent states -/

/-- a state with nothing pending and no anti-message IS a final state of a sequential run -/
theorem GInv.quiescent_sequential {M : SimModel σ} (V : V2 M) {s : TWGState} (I : GInv M s)
    (hp : s.pending = []) (ha : s.antis = []) :
    ∃ q, Spec.Reachable M q ∧ q.pending = [] ∧ ∀ ℓ, ℓ < M.nLps → q.disp ℓ = histOf s ℓ := by
  obtain ⟨g, hg⟩ := exists_time_bound ((List.range M.nLps).flatMap (histOf s))
  have hg' : ∀ ℓ, ℓ < M.nLps → ∀ x ∈ histOf s ℓ, x.t < g := fun ℓ hℓ x hx =>
    hg x (List.mem_flatMap.mpr ⟨ℓ, List.mem_range.mpr hℓ, hx⟩)
  have H : Hist M (histOf s) g := I.hist (by rw [hp]; simp) (by rw [ha]; simp)
  have W : Progress M (histOf s) g := I.progress V (by rw [hp]; simp) (by rw [ha]; simp)
  obtain ⟨q, hq, P, hl⟩ := exists_run_to2 H V W
  have P2 := P.toPhase2' H W hl
  have hdisp : ∀ ℓ, ℓ < M.nLps → q.disp ℓ = histOf s ℓ := by
    intro ℓ hℓ
    have h1 := P2.filter_eq H hℓ
    have hpre := P.pre ℓ hℓ
    rw [filter_below_self (hg' ℓ hℓ),
      filter_below_self (fun x hx => hg' ℓ hℓ x (hpre.subset hx))] at h1
    exact h1
  refine ⟨q, hq, ?_, hdisp⟩
  rw [List.eq_nil_iff_forall_not_mem]
  intro x hx
  have hc := P.cnt x
  have hi := I.toInv.cnt x
  have hr : (restAll M.nLps q.disp).count x = (restAll M.nLps (histOf s)).count x := by
    unfold restAll
    apply add_flatMap_congr (additive_count x)
    intro ℓ hℓ; rw [hdisp ℓ (List.mem_range.mp hℓ)]
  have ho : (outsAll M q.disp).count x = (outsAll M (histOf s)).count x := by
    unfold outsAll
    apply add_flatMap_congr (additive_count x)
    intro ℓ hℓ; rw [hdisp ℓ (List.mem_range.mp hℓ)]
  simp only [proj, hp, ha, List.map_nil, List.count_nil] at hi
  have : 0 < q.pending.count x := List.count_pos_iff.mpr hx
  change 0 + (restAll M.nLps (histOf s)).count x = (outsAll M (histOf s)).count x + 0 at hi
  omega

end RootSim.TWG
