import RootSim.Proofs.LP
import RootSim.Props.C16
import RootSim.Props.C01
/-! The history of an LP stays sorted by the event order (hypothesis H1 of the prefix-uniqueness
theorem): straggler detection + rollback + forward execution preserve sortedness. -/
namespace RootSim.LP
open RootSim

/-- negative transitivity of the event order (from the strict-weak-order theorems of C16) -/
theorem not_before_trans (a b c : Msg) (ha : a.WF) (hb : b.WF) (hc : c.WF)
    (h1 : isBefore a b = false) (h2 : isBefore b c = false) : isBefore a c = false := by
  cases hac : isBefore a c with
  | false => rfl
  | true =>
    exfalso
    have hba : isBefore b a = false := by
      cases h : isBefore b a with
      | false => rfl
      | true => have := C16.trans b a c hb ha hc h hac; rw [h2] at this; exact Bool.noConfusion this
    have hcb : isBefore c b = false := by
      cases h : isBefore c b with
      | false => rfl
      | true => have := C16.trans a c b ha hc hb hac h; rw [h1] at this; exact Bool.noConfusion this
    have := C16.incomp_trans a b c ha hb hc ⟨h1, hba⟩ ⟨h2, hcb⟩
    rw [this.1] at hac; exact Bool.noConfusion hac

variable {σ : Type}

/-- sortedness of the processed messages of a history: no later one is before an earlier one -/
def Sorted (look : Nat → Msg) (hist : List Entry) : Prop :=
  (pastMsgs hist).Pairwise (fun a b => isBefore (look b) (look a) = false)

/-- what straggler detection relies on -/
structure SInv (look : Nat → Msg) (lp : LPState σ) : Prop where
  sorted : Sorted look lp.hist
  /-- `bound` is an upper bound of the time stamps in the history (it is `none` only when empty) -/
  bound_ok : ∀ m ∈ pastMsgs lp.hist, ∃ b, lp.bound = some b ∧ (look m).destT ≤ b
  /-- layout: the history ends with a processed message -/
  last_past : ∀ e, lp.hist.getLast? = some e → e.isPast = true
  wf : ∀ m ∈ pastMsgs lp.hist, (look m).WF

theorem pastMsgs_take_sub (hist : List Entry) (k : Nat) : (pastMsgs (hist.take k)).Sublist (pastMsgs hist) := by
  unfold pastMsgs
  exact (List.take_sublist k hist).filterMap _

theorem isBefore_of_lt (a b : Msg) (h : a.destT < b.destT) : isBefore a b = true := by
  simp [isBefore, h]

theorem not_before_of_lt (a b : Msg) (h : a.destT < b.destT) : isBefore b a = false := by
  have := isBefore_of_lt a b h
  exact C16.asymm a b this

theorem getLast?_past_mem (hist : List Entry) (e : Entry) (h : hist.getLast? = some e) (hp : e.isPast = true) :
    e.msg ∈ pastMsgs hist := by
  have hm : e ∈ hist := List.mem_of_getLast? h
  unfold pastMsgs
  rw [List.mem_filterMap]
  refine ⟨e, hm, ?_⟩
  cases e <;> simp_all [Entry.isPast, Entry.msg]

theorem pastMsgs_last (hist : List Entry) (e : Entry) (h : hist.getLast? = some e) (hp : e.isPast = true) :
    ∃ pre, pastMsgs hist = pre ++ [e.msg] := by
  obtain ⟨pre, rfl⟩ : ∃ pre, hist = pre ++ [e] := by
    cases hh : hist with
    | nil => simp [hh] at h
    | cons a as =>
      refine ⟨(a :: as).dropLast, ?_⟩
      have : (a :: as).getLast? = some e := by rw [← hh]; exact h
      rw [List.getLast?_eq_some_iff] at this
      obtain ⟨ys, hys⟩ := this
      rw [hys]; simp
  refine ⟨pastMsgs pre, ?_⟩
  rw [pastMsgs_append]
  cases e <;> simp_all [Entry.isPast, Entry.msg, pastMsgs]

/-- the new message is not before any message kept in the history (after the straggler handling) -/
theorem forward_sorted (look : Nat → Msg) (lp : LPState σ) (h : σ → Event → σ × List Event)
    (m : Nat) (e : Event) (outs : List Nat) (hI : SInv look lp)
    (hnb : ∀ x ∈ pastMsgs lp.hist, isBefore (look m) (look x) = false)
    (hwf : (look m).WF) (ht : (look m).destT = e.t) :
    SInv look (forward h lp m e outs).1 := by
  have hh : (forward h lp m e outs).1.hist = lp.hist ++ outs.map Entry.sent ++ [.past m] := by simp [forward]
  have hp : pastMsgs (forward h lp m e outs).1.hist = pastMsgs lp.hist ++ [m] := by
    rw [hh]; simp only [pastMsgs_append, pastMsgs_sent, List.append_nil]; rfl
  refine ⟨?_, ?_, ?_, ?_⟩
  · unfold Sorted; rw [hp, List.pairwise_append]
    refine ⟨hI.sorted, by simp, ?_⟩
    intro a ha b hb; simp at hb; subst hb; exact hnb a ha
  · intro x hx
    rw [hp] at hx
    refine ⟨e.t, by simp [forward], ?_⟩
    rcases List.mem_append.mp hx with h1 | h1
    · -- x is not after m: x.t ≤ m.t
      have := hnb x h1
      by_cases hlt : (look m).destT < (look x).destT
      · rw [isBefore_of_lt _ _ hlt] at this; exact Bool.noConfusion this
      · omega
    · simp at h1; subst h1; omega
  · intro e' he'
    rw [hh] at he'
    simp at he'; subst he'; rfl
  · intro x hx; rw [hp] at hx
    rcases List.mem_append.mp hx with h1 | h1
    · exact hI.wf x h1
    · simp at h1; subst h1; exact hwf

/-- **Sortedness is preserved by `process_msg`** (ordinary message): whatever the history, after the
straggler test, the rollback it may trigger, and the forward execution, the processed messages of the
LP are again sorted by the event order, with the comparisons the code actually performs. -/
theorem processPlain_sorted (h : σ → Event → σ × List Event) (ev : Nat → Event) (look : Nat → Msg)
    (lp : LPState σ) (m : Nat) (outs : List Nat) (hI : SInv look lp)
    (hwf : (look m).WF) (ht : (look m).destT = (ev m).t)
    {lp' : LPState σ} {evs : List Event}
    (hp : processPlain h ev look lp m (look m) outs = some (lp', evs)) : SInv look lp' := by
  unfold processPlain at hp
  split at hp
  · -- straggler: roll back, then forward
    rename_i hs
    split at hp
    · rename_i o ho
      cases hp
      -- the rollback keeps hist.take k
      have hk : o.lp.hist = lp.hist.take (matchStraggler look lp.hist (look m)) ∧ o.lp.bound = lp.bound := by
        unfold rollback at ho
        split at ho
        · simp at ho
        · split at ho
          · simp at ho
          · simp at ho; subst ho; exact ⟨rfl, rfl⟩
      obtain ⟨hk1, hk2⟩ := hk
      have hsub := pastMsgs_take_sub lp.hist (matchStraggler look lp.hist (look m))
      have hspec := C01.matchStraggler_spec look lp.hist (look m)
      have hI' : SInv look o.lp := by
        refine ⟨?_, ?_, ?_, ?_⟩
        · unfold Sorted; rw [hk1]; exact hI.sorted.sublist hsub
        · intro x hx; rw [hk1] at hx; rw [hk2]; exact hI.bound_ok x (hsub.subset hx)
        · intro e he
          rw [hk1] at he
          -- last entry of take k is hist[k-1], a past entry by the spec
          have hkpos : 0 < matchStraggler look lp.hist (look m) := by
            rcases Nat.eq_zero_or_pos (matchStraggler look lp.hist (look m)) with h0 | h0
            · rw [h0] at he; simp at he
            · exact h0
          obtain ⟨e', he', hpast, _⟩ := hspec.2.1 hkpos
          have : (lp.hist.take (matchStraggler look lp.hist (look m))).getLast? = some e' := by
            rw [List.getLast?_take]
            have hk0 : matchStraggler look lp.hist (look m) ≠ 0 := by omega
            simp only [hk0, if_false]
            rw [he']; rfl
          rw [this] at he; cases he; exact hpast
        · intro x hx; rw [hk1] at hx; exact hI.wf x (hsub.subset hx)
      refine forward_sorted look o.lp h m (ev m) outs hI' ?_ hwf ht
      -- m is not before any kept message
      intro x hx
      rcases Nat.eq_zero_or_pos (matchStraggler look lp.hist (look m)) with h0 | h0
      · rw [hk1, h0] at hx; simp [pastMsgs] at hx
      · obtain ⟨e', he', hpast, hnb⟩ := hspec.2.1 h0
        have hlast : o.lp.hist.getLast? = some e' := by
          rw [hk1, List.getLast?_take]
          have hk0 : matchStraggler look lp.hist (look m) ≠ 0 := by omega
          simp only [hk0, if_false]; rw [he']; rfl
        obtain ⟨pre, hpre⟩ := pastMsgs_last o.lp.hist e' hlast hpast
        have hsorted := hI'.sorted
        unfold Sorted at hsorted
        rw [hpre, List.pairwise_append] at hsorted
        rw [hpre] at hx
        rcases List.mem_append.mp hx with h1 | h1
        · have h2 := hsorted.2.2 x h1 e'.msg (by simp)
          have hwx : (look x).WF := hI'.wf x (by rw [hpre]; exact List.mem_append_left _ h1)
          have hwe : (look e'.msg).WF := hI'.wf e'.msg (by rw [hpre]; simp)
          exact not_before_trans _ _ _ hwf hwe hwx hnb h2
        · simp at h1; subst h1; exact hnb
    · simp at hp
  · -- not a straggler
    rename_i hs
    cases hp
    refine forward_sorted look lp h m (ev m) outs hI ?_ hwf ht
    intro x hx
    obtain ⟨b, hb, hxb⟩ := hI.bound_ok x hx
    have hs' : isStraggler look lp (look m) = false := by simpa using hs
    unfold isStraggler at hs'
    rw [hb] at hs'
    cases hl : lp.hist.getLast? with
    | none =>
      have : lp.hist = [] := List.getLast?_eq_none_iff.mp hl
      rw [this] at hx; simp [pastMsgs] at hx
    | some last =>
      rw [hl] at hs'
      simp only [Bool.and_eq_false_iff, decide_eq_false_iff_not] at hs'
      have hlp := hI.last_past last hl
      obtain ⟨pre, hpre⟩ := pastMsgs_last lp.hist last hl hlp
      rcases hs' with h1 | h1
      · -- bound < m.t, and x.t ≤ bound
        exact not_before_of_lt _ _ (by omega)
      · have hsorted := hI.sorted
        unfold Sorted at hsorted
        rw [hpre, List.pairwise_append] at hsorted
        rw [hpre] at hx
        rcases List.mem_append.mp hx with h2 | h2
        · have h3 := hsorted.2.2 x h2 last.msg (by simp)
          have hwx : (look x).WF := hI.wf x (by rw [hpre]; exact List.mem_append_left _ h2)
          have hwe : (look last.msg).WF := hI.wf last.msg (by rw [hpre]; simp)
          exact not_before_trans _ _ _ hwf hwe hwx h1 h3
        · simp at h2; subst h2; exact h1

end RootSim.LP
