import RootSim.Model.Spec
import RootSim.Proofs.EventOrder
/-! Lemmas about the sequential reference executor (`Model/Spec.lean`) and the invariant that ties
each of its runs to a global history of the optimistic runtime (work package D). -/
namespace RootSim.Spec
open RootSim List

variable {σ : Type}

/-! ### basic facts -/

theorem upd_same {α : Type} (f : Nat → α) (i : Nat) (v : α) : upd f i v i = v := by simp [upd]

theorem upd_other {α : Type} (f : Nat → α) {i j : Nat} (v : α) (h : j ≠ i) : upd f i v j = f j := by
  simp [upd, h]

theorem dispatch_pending (M : SimModel σ) (s : SeqState σ) (e : Event) :
    (dispatch M s e).pending = s.pending ++ (M.handler e.dest (s.st e.dest) e).2 := rfl

theorem dispatch_st (M : SimModel σ) (s : SeqState σ) (e : Event) :
    (dispatch M s e).st = upd s.st e.dest (M.handler e.dest (s.st e.dest) e).1 := rfl

theorem dispatch_disp (M : SimModel σ) (s : SeqState σ) (e : Event) :
    (dispatch M s e).disp = upd s.disp e.dest (s.disp e.dest ++ [e]) := rfl

/-! ### folds -/

theorem stFrom_append (M : SimModel σ) (ℓ : Nat) : ∀ (s : σ) (a b : List Event),
    stFrom M ℓ s (a ++ b) = stFrom M ℓ (stFrom M ℓ s a) b
  | _, [], _ => rfl
  | s, e :: a, b => by simp only [List.cons_append, stFrom]; exact stFrom_append M ℓ _ a b

theorem outsFrom_append (M : SimModel σ) (ℓ : Nat) : ∀ (s : σ) (a b : List Event),
    outsFrom M ℓ s (a ++ b) = outsFrom M ℓ s a ++ outsFrom M ℓ (stFrom M ℓ s a) b
  | _, [], _ => rfl
  | s, e :: a, b => by
    simp only [List.cons_append, outsFrom, stFrom, List.append_assoc]
    rw [outsFrom_append M ℓ _ a b]

theorem lpState_append (M : SimModel σ) (ℓ : Nat) (a b : List Event) :
    lpState M ℓ (a ++ b) = stFrom M ℓ (lpState M ℓ a) b := stFrom_append M ℓ _ a b

theorem outs_append (M : SimModel σ) (ℓ : Nat) (a b : List Event) :
    outs M ℓ (a ++ b) = outs M ℓ a ++ outsFrom M ℓ (lpState M ℓ a) b := outsFrom_append M ℓ _ a b

/-- every output of a fold is an output of one handler invocation of the fold -/
theorem mem_outsFrom (M : SimModel σ) (ℓ : Nat) {y : Event} : ∀ (s : σ) (l : List Event),
    y ∈ outsFrom M ℓ s l →
    ∃ P c S, l = P ++ c :: S ∧ y ∈ (M.handler ℓ (stFrom M ℓ s P) c).2
  | _, [], h => by simp [outsFrom] at h
  | s, e :: l, h => by
    simp only [outsFrom, List.mem_append] at h
    rcases h with h | h
    · exact ⟨[], e, l, rfl, h⟩
    · obtain ⟨P, c, S, hl, hy⟩ := mem_outsFrom M ℓ _ l h
      exact ⟨e :: P, c, S, by rw [hl]; rfl, hy⟩

/-! ### additive measures of lists (`count x`, `length`) over `flatMap` -/

structure Additive (m : List Event → Nat) : Prop where
  nil : m [] = 0
  append : ∀ a b, m (a ++ b) = m a + m b

theorem additive_count (x : Event) : Additive (List.count x) :=
  ⟨by simp, fun _ _ => List.count_append⟩

theorem additive_length : Additive (List.length (α := Event)) :=
  ⟨rfl, fun _ _ => List.length_append⟩

theorem add_flatMap_cons {m : List Event → Nat} (hm : Additive m) (a : Nat) (L : List Nat)
    (f : Nat → List Event) : m ((a :: L).flatMap f) = m (f a) + m (L.flatMap f) := by
  rw [List.flatMap_cons, hm.append]

theorem add_flatMap_le {m : List Event → Nat} (hm : Additive m) {f h : Nat → List Event} :
    ∀ (L : List Nat), (∀ ℓ ∈ L, m (f ℓ) ≤ m (h ℓ)) → m (L.flatMap f) ≤ m (L.flatMap h)
  | [], _ => by simp [hm.nil]
  | a :: L, hle => by
    rw [add_flatMap_cons hm, add_flatMap_cons hm]
    have h1 := hle a (by simp)
    have h2 := add_flatMap_le hm L (fun ℓ hℓ => hle ℓ (List.mem_cons_of_mem _ hℓ))
    omega

theorem add_flatMap_congr {m : List Event → Nat} (hm : Additive m) {f h : Nat → List Event} :
    ∀ (L : List Nat), (∀ ℓ ∈ L, m (f ℓ) = m (h ℓ)) → m (L.flatMap f) = m (L.flatMap h)
  | [], _ => by simp [hm.nil]
  | a :: L, hle => by
    rw [add_flatMap_cons hm, add_flatMap_cons hm]
    have h1 := hle a (by simp)
    have h2 := add_flatMap_congr hm L (fun ℓ hℓ => hle ℓ (List.mem_cons_of_mem _ hℓ))
    omega

/-- changing one summand -/
theorem add_flatMap_upd {m : List Event → Nat} (hm : Additive m) {f f' : Nat → List Event} {ℓ k : Nat}
    (hk : m (f' ℓ) = m (f ℓ) + k) :
    ∀ (L : List Nat), L.Nodup → ℓ ∈ L → (∀ ℓ' ∈ L, ℓ' ≠ ℓ → f' ℓ' = f ℓ') →
      m (L.flatMap f') = m (L.flatMap f) + k
  | [], _, hℓ, _ => by simp at hℓ
  | a :: L, hn, hℓ, hne => by
    rw [add_flatMap_cons hm, add_flatMap_cons hm]
    rw [List.nodup_cons] at hn
    by_cases ha : a = ℓ
    · subst ha
      have : m (L.flatMap f') = m (L.flatMap f) := by
        apply add_flatMap_congr hm
        intro ℓ' hℓ'
        rw [hne ℓ' (List.mem_cons_of_mem _ hℓ') (by rintro rfl; exact hn.1 hℓ')]
      omega
    · have hℓL : ℓ ∈ L := by
        rcases List.mem_cons.mp hℓ with h | h
        · exact absurd h.symm ha
        · exact h
      have := add_flatMap_upd hm hk L hn.2 hℓL (fun ℓ' hℓ' => hne ℓ' (List.mem_cons_of_mem _ hℓ'))
      rw [hne a (by simp) ha]
      omega

/-- only one summand can contain `x` -/
theorem count_flatMap_single {x : Event} {f : Nat → List Event} {ℓ : Nat} :
    ∀ (L : List Nat), L.Nodup → ℓ ∈ L → (∀ ℓ' ∈ L, ℓ' ≠ ℓ → x ∉ f ℓ') →
      (L.flatMap f).count x = (f ℓ).count x
  | [], _, hℓ, _ => by simp at hℓ
  | a :: L, hn, hℓ, hne => by
    rw [add_flatMap_cons (additive_count x)]
    rw [List.nodup_cons] at hn
    by_cases ha : a = ℓ
    · subst ha
      have : (L.flatMap f).count x = 0 := by
        rw [List.count_eq_zero, List.mem_flatMap]
        rintro ⟨ℓ', hℓ', hx⟩
        exact hne ℓ' (List.mem_cons_of_mem _ hℓ') (by rintro rfl; exact hn.1 hℓ') hx
      omega
    · have hℓL : ℓ ∈ L := by
        rcases List.mem_cons.mp hℓ with h | h
        · exact absurd h.symm ha
        · exact h
      have := count_flatMap_single L hn.2 hℓL (fun ℓ' hℓ' => hne ℓ' (List.mem_cons_of_mem _ hℓ'))
      have h0 : (f a).count x = 0 := List.count_eq_zero.mpr (hne a (by simp) ha)
      omega

/-! ### histories sorted by time stamp -/

theorem tsorted_filter_prefix {g' g : Nat} (hg : g' ≤ g) : ∀ (l : List Event),
    l.Pairwise (fun a b => a.t ≤ b.t) → l.filter (below g') <+: l.filter (below g)
  | [], _ => by simp
  | a :: l, h => by
    rw [List.pairwise_cons] at h
    by_cases ha : a.t < g'
    · have ha' : a.t < g := by omega
      simp only [List.filter_cons, below, ha, ha', decide_true, if_true, List.cons_prefix_cons,
        true_and]
      exact tsorted_filter_prefix hg l h.2
    · have : l.filter (below g') = [] := by
        rw [List.filter_eq_nil_iff]
        intro b hb
        have := h.1 b hb
        simp only [below, decide_eq_true_eq]; omega
      simp [below, ha, this]

theorem tsorted_filter_prefix_self {g : Nat} : ∀ (l : List Event),
    l.Pairwise (fun a b => a.t ≤ b.t) → l.filter (below g) <+: l
  | [], _ => by simp
  | a :: l, h => by
    rw [List.pairwise_cons] at h
    by_cases ha : a.t < g
    · simp only [List.filter_cons, below, ha, decide_true, if_true, List.cons_prefix_cons, true_and]
      exact tsorted_filter_prefix_self l h.2
    · have : l.filter (below g) = [] := by
        rw [List.filter_eq_nil_iff]
        intro b hb
        have := h.1 b hb
        simp only [below, decide_eq_true_eq]; omega
      simp [below, ha, this]

/-! ### consequences of `Hist` -/

section hist
variable {M : SimModel σ} {G : Nat → List Event} {g : Nat}

theorem Hist.cons (H : Hist M G g) {ℓ : Nat} (hℓ : ℓ < M.nLps) : ∃ rest, G ℓ = initEv ℓ :: rest :=
  List.head?_eq_some_iff.mp (H.head ℓ hℓ)

/-- a history is sorted by time stamp (the `LP_INIT` event has time 0) -/
theorem Hist.tsorted (H : Hist M G g) {ℓ : Nat} (hℓ : ℓ < M.nLps) :
    (G ℓ).Pairwise (fun a b => a.t ≤ b.t) := by
  obtain ⟨rest, hr⟩ := H.cons hℓ
  have hs := H.sorted ℓ hℓ
  rw [hr] at hs ⊢
  rw [List.pairwise_cons]
  refine ⟨fun b _ => by simp [initEv], ?_⟩
  exact List.Pairwise.imp (fun h => Event.t_le_of_not_before h) hs

/-- H3 for an event of LP `ℓ`: the filter on the destination is the identity -/
theorem Hist.count_eq (H : Hist M G g) {x : Event} (hd : x.dest < M.nLps) (hx : x.t < g) :
    (G x.dest).tail.count x = (outsAll M G).count x := by
  rw [H.arrived x.dest hd x hx, List.count_filter]
  simp

end hist

/-! ### Phase 1 of a sequential run: everything dispatched so far is below `g` -/

/-- the non-`LP_INIT` events of a per-LP table -/
def restAll (n : Nat) (D : Nat → List Event) : List Event :=
  (List.range n).flatMap (fun ℓ => (D ℓ).tail)

/-- what LP `ℓ` of the history has processed beyond what the sequential run has dispatched to it -/
def remOf (G : Nat → List Event) (s : SeqState σ) (ℓ : Nat) : List Event :=
  (G ℓ).drop (s.disp ℓ).length

/-- all remainder events below `g` -/
def remAll (M : SimModel σ) (G : Nat → List Event) (g : Nat) (s : SeqState σ) : List Event :=
  (List.range M.nLps).flatMap (fun ℓ => (remOf G s ℓ).filter (below g))

/-- the invariant of the part of a sequential run that has only dispatched events below `g` -/
structure Phase1 (M : SimModel σ) (G : Nat → List Event) (g : Nat) (s : SeqState σ) : Prop where
  pre : ∀ ℓ, ℓ < M.nLps → s.disp ℓ <+: G ℓ
  ne  : ∀ ℓ, ℓ < M.nLps → s.disp ℓ ≠ []
  low : ∀ ℓ, ℓ < M.nLps → ∀ x ∈ (s.disp ℓ).tail, x.t < g
  st  : ∀ ℓ, ℓ < M.nLps → s.st ℓ = lpState M ℓ (s.disp ℓ)
  cnt : ∀ x : Event,
    s.pending.count x + (restAll M.nLps s.disp).count x = (outsAll M s.disp).count x

section phase1
variable {M : SimModel σ} {G : Nat → List Event} {g : Nat} {s : SeqState σ}

theorem Phase1.split (P : Phase1 M G g s) {ℓ : Nat} (hℓ : ℓ < M.nLps) :
    G ℓ = s.disp ℓ ++ remOf G s ℓ :=
  (List.prefix_iff_eq_append.mp (P.pre ℓ hℓ)).symm

theorem Phase1.tail_split (P : Phase1 M G g s) {ℓ : Nat} (hℓ : ℓ < M.nLps) :
    (G ℓ).tail = (s.disp ℓ).tail ++ remOf G s ℓ := by
  conv => lhs; rw [P.split hℓ]
  exact List.tail_append_of_ne_nil (P.ne ℓ hℓ)

theorem Phase1.disp_cons (H : Hist M G g) (P : Phase1 M G g s) {ℓ : Nat} (hℓ : ℓ < M.nLps) :
    s.disp ℓ = initEv ℓ :: (s.disp ℓ).tail := by
  obtain ⟨rest, hr⟩ := H.cons hℓ
  have hs := P.split hℓ
  have hne := P.ne ℓ hℓ
  cases hd : s.disp ℓ with
  | nil => exact absurd hd hne
  | cons a d =>
    rw [hr, hd] at hs
    simp only [List.cons_append, List.cons.injEq] at hs
    simp [hs.1]

theorem Phase1.rem_dest (H : Hist M G g) (P : Phase1 M G g s) {ℓ : Nat} (hℓ : ℓ < M.nLps)
    {x : Event} (hx : x ∈ remOf G s ℓ) : x.dest = ℓ :=
  (H.dest ℓ hℓ x (by rw [P.tail_split hℓ]; exact List.mem_append_right _ hx)).1

theorem Phase1.disp_dest (H : Hist M G g) (P : Phase1 M G g s) {ℓ : Nat} (hℓ : ℓ < M.nLps)
    {x : Event} (hx : x ∈ (s.disp ℓ).tail) : x.dest = ℓ :=
  (H.dest ℓ hℓ x (by rw [P.tail_split hℓ]; exact List.mem_append_left _ hx)).1

/-- everything dispatched in phase 1 is below `g` (if anything is) -/
theorem Phase1.disp_low (H : Hist M G g) (P : Phase1 M G g s) {ℓ : Nat} (hℓ : ℓ < M.nLps)
    (hg : 0 < g) {c : Event} (hc : c ∈ s.disp ℓ) : c.t < g := by
  rw [P.disp_cons H hℓ] at hc
  rcases List.mem_cons.mp hc with rfl | hc
  · exact hg
  · exact P.low ℓ hℓ c hc

theorem Phase1.count_rest (H : Hist M G g) (P : Phase1 M G g s) {x : Event} (hd : x.dest < M.nLps) :
    (restAll M.nLps s.disp).count x = (s.disp x.dest).tail.count x := by
  apply count_flatMap_single (f := fun ℓ => (s.disp ℓ).tail) _ List.nodup_range
    (List.mem_range.mpr hd)
  intro ℓ' hℓ' hne hx
  exact hne (P.disp_dest H (List.mem_range.mp hℓ') hx).symm

theorem Phase1.outs_split (P : Phase1 M G g s) {ℓ : Nat} (hℓ : ℓ < M.nLps) :
    outs M ℓ (G ℓ) = outs M ℓ (s.disp ℓ) ++ outsFrom M ℓ (lpState M ℓ (s.disp ℓ)) (remOf G s ℓ) := by
  conv => lhs; rw [P.split hℓ]
  exact outs_append M ℓ _ _

theorem Phase1.count_outs_le (P : Phase1 M G g s) (x : Event) :
    (outsAll M s.disp).count x ≤ (outsAll M G).count x := by
  apply add_flatMap_le (additive_count x)
  intro ℓ hℓ
  rw [P.outs_split (List.mem_range.mp hℓ), List.count_append]
  omega

/-- a pending event below `g` is in the remainder of its destination LP's history -/
theorem Phase1.pending_in_rem (H : Hist M G g) (V : V2sBelow M G g) (P : Phase1 M G g s)
    {e : Event} (he : e ∈ s.pending) (hlt : e.t < g) :
    e.dest < M.nLps ∧ e ∈ remOf G s e.dest := by
  have hc := P.cnt e
  have hpos : 0 < s.pending.count e := List.count_pos_iff.mpr he
  have hmem : e ∈ outsAll M s.disp := List.count_pos_iff.mp (by omega)
  obtain ⟨ℓ', hℓ', hout⟩ := List.mem_flatMap.mp hmem
  have hℓ' := List.mem_range.mp hℓ'
  obtain ⟨P0, c, S, hl, hy⟩ := mem_outsFrom M ℓ' _ _ hout
  have hct : c.t < g := P.disp_low H hℓ' (by omega) (by rw [hl]; simp)
  have hG : G ℓ' = P0 ++ c :: (S ++ remOf G s ℓ') := by
    rw [P.split hℓ', hl]; simp
  have hd := (V ℓ' hℓ' P0 c _ hG hct e hy).2
  refine ⟨hd, ?_⟩
  have h1 := P.count_rest H hd
  have h2 := P.count_outs_le e
  have h3 := H.count_eq hd hlt
  rw [P.tail_split hd, List.count_append] at h3
  exact List.count_pos_iff.mp (by omega)

theorem mem_remAll {y : Event} : y ∈ remAll M G g s ↔
    ∃ ℓ, ℓ < M.nLps ∧ y ∈ remOf G s ℓ ∧ y.t < g := by
  simp [remAll, List.mem_flatMap, List.mem_filter, below]

/-- a minimal remainder event below `g` is pending: all its causes have been dispatched -/
theorem Phase1.minimal_rem_pending (H : Hist M G g) (V : V2sBelow M G g) (T : TimeMono M)
    (P : Phase1 M G g s) {y : Event} (hy : y ∈ remAll M G g s)
    (hmin : ∀ z ∈ remAll M G g s, Event.before z y = false) : y ∈ s.pending := by
  obtain ⟨ℓy, hℓy, hyr, hyt⟩ := mem_remAll.mp hy
  have hdy : y.dest = ℓy := P.rem_dest H hℓy hyr
  subst hdy
  -- no occurrence of `y` among the outputs is caused by a remainder event
  have hout : (outsAll M G).count y = (outsAll M s.disp).count y := by
    apply add_flatMap_congr (additive_count y)
    intro ℓ' hℓ'
    have hℓ' := List.mem_range.mp hℓ'
    rw [P.outs_split hℓ', List.count_append]
    have : (outsFrom M ℓ' (lpState M ℓ' (s.disp ℓ')) (remOf G s ℓ')).count y = 0 := by
      rw [List.count_eq_zero]
      intro hmem
      obtain ⟨P0, c, S, hl, hyc⟩ := mem_outsFrom M ℓ' _ _ hmem
      have hG : G ℓ' = (s.disp ℓ' ++ P0) ++ c :: S := by
        rw [P.split hℓ', hl]; simp
      by_cases hct : c.t < g
      · have hb := (V ℓ' hℓ' _ c S hG hct y (by rw [lpState_append]; exact hyc)).1
        have hcR : c ∈ remAll M G g s := mem_remAll.mpr ⟨ℓ', hℓ', by rw [hl]; simp, hct⟩
        rw [hmin c hcR] at hb
        exact Bool.noConfusion hb
      · have := T ℓ' _ c y hyc
        omega
    omega
  have h1 := P.count_rest H hℓy
  have h3 := H.count_eq hℓy hyt
  rw [P.tail_split hℓy, List.count_append] at h3
  have hpos : 0 < (remOf G s y.dest).count y := List.count_pos_iff.mpr hyr
  have hc := P.cnt y
  exact List.count_pos_iff.mp (by omega)

/-- **Key lemma**: in phase 1, a minimal pending event below `g` is exactly the next event of its
destination LP's history. -/
theorem Phase1.next_of_minimal (H : Hist M G g) (V : V2sBelow M G g) (T : TimeMono M)
    (P : Phase1 M G g s) {e : Event} (he : e ∈ s.pending) (hmin : Minimal e s.pending)
    (hlt : e.t < g) : e.dest < M.nLps ∧ ∃ S, remOf G s e.dest = e :: S := by
  obtain ⟨hd, her⟩ := P.pending_in_rem H V he hlt
  refine ⟨hd, ?_⟩
  have heR : e ∈ remAll M G g s := mem_remAll.mpr ⟨_, hd, her, hlt⟩
  -- a minimal remainder event `y`; it is pending, hence incomparable with `e`
  obtain ⟨y, hyR, hymin⟩ := Event.exists_minimal (remAll M G g s) (List.ne_nil_of_mem heR)
  have hyp : y ∈ s.pending := P.minimal_rem_pending H V T hyR hymin
  have hye : Event.before y e = false := hmin y hyp
  have hey : Event.before e y = false := hymin e heR
  -- so `e` is minimal among the remainder events too
  have heminR : ∀ z ∈ remAll M G g s, Event.before z e = false := by
    intro z hz
    cases hze : Event.before z e with
    | false => rfl
    | true =>
      rcases Event.before_cases y hze with h | h
      · rw [hymin z hz] at h; exact Bool.noConfusion h
      · rw [hye] at h; exact Bool.noConfusion h
  -- the first remainder event `x` of LP `e.dest`
  cases hrem : remOf G s e.dest with
  | nil => rw [hrem] at her; simp at her
  | cons x S =>
    rw [hrem] at her
    have hsorted := H.sorted _ hd
    rw [P.tail_split hd, hrem, List.pairwise_append, List.pairwise_cons] at hsorted
    have hex : Event.before e x = false := by
      rcases List.mem_cons.mp her with rfl | h
      · exact Event.before_irrefl _
      · exact hsorted.2.1.1 e h
    have hxt : x.t < g := by have := Event.t_le_of_not_before hex; omega
    have hxR : x ∈ remAll M G g s := mem_remAll.mpr ⟨_, hd, by rw [hrem]; simp, hxt⟩
    have hxe : Event.before x e = false := heminR x hxR
    have hxd : x.dest = e.dest := P.rem_dest H hd (by rw [hrem]; simp)
    have : x = e := Event.eq_of_incomp hxe hex hxd
    exact ⟨S, by rw [this]⟩

/-- phase 1 is preserved by dispatching a minimal pending event below `g` -/
theorem Phase1.step (H : Hist M G g) (V : V2sBelow M G g) (T : TimeMono M)
    (P : Phase1 M G g s) {e : Event} (he : e ∈ s.pending) (hmin : Minimal e s.pending)
    (hlt : e.t < g) :
    Phase1 M G g (dispatch M { s with pending := s.pending.erase e } e) := by
  obtain ⟨hd, S, hS⟩ := P.next_of_minimal H V T he hmin hlt
  have hne := P.ne _ hd
  refine ⟨?_, ?_, ?_, ?_, ?_⟩
  · intro ℓ hℓ
    rw [dispatch_disp]
    by_cases h : ℓ = e.dest
    · subst h
      rw [upd_same]
      exact ⟨S, by rw [P.split hd, hS]; simp⟩
    · rw [upd_other _ _ h]; exact P.pre ℓ hℓ
  · intro ℓ hℓ
    rw [dispatch_disp]
    by_cases h : ℓ = e.dest
    · subst h; rw [upd_same]; simp
    · rw [upd_other _ _ h]; exact P.ne ℓ hℓ
  · intro ℓ hℓ x hx
    rw [dispatch_disp] at hx
    by_cases h : ℓ = e.dest
    · subst h
      rw [upd_same, List.tail_append_of_ne_nil hne, List.mem_append] at hx
      rcases hx with hx | hx
      · exact P.low _ hd x hx
      · simp at hx; subst hx; exact hlt
    · rw [upd_other _ _ h] at hx; exact P.low ℓ hℓ x hx
  · intro ℓ hℓ
    rw [dispatch_disp, dispatch_st]
    by_cases h : ℓ = e.dest
    · subst h
      rw [upd_same, upd_same, lpState_append, ← P.st _ hd]
      rfl
    · rw [upd_other _ _ h, upd_other _ _ h]; exact P.st ℓ hℓ
  · intro x
    have hc := P.cnt x
    rw [dispatch_pending, dispatch_disp]
    simp only [List.count_append, List.count_erase]
    have hr : (restAll M.nLps (upd s.disp e.dest (s.disp e.dest ++ [e]))).count x =
        (restAll M.nLps s.disp).count x + [e].count x := by
      apply add_flatMap_upd (additive_count x) (f := fun ℓ => (s.disp ℓ).tail)
        (f' := fun ℓ => (upd s.disp e.dest (s.disp e.dest ++ [e]) ℓ).tail) (ℓ := e.dest) _ _
        List.nodup_range (List.mem_range.mpr hd)
      · intro ℓ' _ h; rw [upd_other _ _ h]
      · rw [upd_same, List.tail_append_of_ne_nil hne, List.count_append]
    have ho : (outsAll M (upd s.disp e.dest (s.disp e.dest ++ [e]))).count x =
        (outsAll M s.disp).count x + (M.handler e.dest (s.st e.dest) e).2.count x := by
      apply add_flatMap_upd (additive_count x) (f := fun ℓ => outs M ℓ (s.disp ℓ))
        (f' := fun ℓ => outs M ℓ (upd s.disp e.dest (s.disp e.dest ++ [e]) ℓ)) (ℓ := e.dest) _ _
        List.nodup_range (List.mem_range.mpr hd)
      · intro ℓ' _ h; rw [upd_other _ _ h]
      · rw [upd_same, outs_append, List.count_append, ← P.st _ hd]
        simp [outsFrom]
    rw [hr, ho, List.count_singleton]
    have hpos : 0 < s.pending.count e := List.count_pos_iff.mpr he
    by_cases hxe : e = x
    · subst hxe
      simp only [beq_self_eq_true, if_true]
      omega
    · have hb : (e == x) = false := by simpa using hxe
      simp only [hb, Bool.false_eq_true, if_false]
      omega

/-- if a minimal pending event is not below `g`, no pending event is -/
theorem late_of_minimal_late {l : List Event} {e : Event} (hmin : Minimal e l) (hge : g ≤ e.t) :
    ∀ x ∈ l, g ≤ x.t := by
  intro x hx
  have := Event.t_le_of_not_before (hmin x hx)
  omega

/-- in phase 1, when no pending event is below `g`, the histories have no remainder below `g` -/
theorem Phase1.remAll_nil (H : Hist M G g) (V : V2sBelow M G g) (T : TimeMono M)
    (P : Phase1 M G g s) (hlate : ∀ x ∈ s.pending, g ≤ x.t) : remAll M G g s = [] := by
  cases hR : remAll M G g s with
  | nil => rfl
  | cons a R =>
    exfalso
    obtain ⟨y, hyR, hymin⟩ := Event.exists_minimal (remAll M G g s) (by rw [hR]; simp)
    have hyp := P.minimal_rem_pending H V T hyR hymin
    obtain ⟨_, _, _, hyt⟩ := mem_remAll.mp hyR
    have := hlate y hyp
    omega

end phase1

/-! ### Phase 2: nothing below `g` is pending any more -/

structure Phase2 (M : SimModel σ) (G : Nat → List Event) (g : Nat) (s : SeqState σ) : Prop where
  late : ∀ x ∈ s.pending, g ≤ x.t
  disp : ∀ ℓ, ℓ < M.nLps → ∃ L, s.disp ℓ = initEv ℓ :: ((G ℓ).tail.filter (below g) ++ L) ∧
    ∀ x ∈ L, g ≤ x.t

section phase2
variable {M : SimModel σ} {G : Nat → List Event} {g : Nat} {s : SeqState σ}

theorem Phase1.toPhase2 (H : Hist M G g) (V : V2sBelow M G g) (T : TimeMono M)
    (P : Phase1 M G g s) (hlate : ∀ x ∈ s.pending, g ≤ x.t) : Phase2 M G g s := by
  refine ⟨hlate, ?_⟩
  intro ℓ hℓ
  refine ⟨[], ?_, by simp⟩
  have hR := P.remAll_nil H V T hlate
  have hrem : (remOf G s ℓ).filter (below g) = [] := by
    unfold remAll at hR
    rw [List.flatMap_eq_nil_iff] at hR
    exact hR ℓ (List.mem_range.mpr hℓ)
  have hd : (s.disp ℓ).tail.filter (below g) = (s.disp ℓ).tail := by
    rw [List.filter_eq_self]
    intro a ha
    simpa [below] using P.low ℓ hℓ a ha
  rw [P.tail_split hℓ, List.filter_append, hrem, hd, List.append_nil, List.append_nil]
  exact P.disp_cons H hℓ

/-- phase 2 is preserved by every step -/
theorem Phase2.step (T : TimeMono M) (P : Phase2 M G g s) {e : Event} (he : e ∈ s.pending) :
    Phase2 M G g (dispatch M { s with pending := s.pending.erase e } e) := by
  have het := P.late e he
  refine ⟨?_, ?_⟩
  · intro x hx
    rw [dispatch_pending, List.mem_append] at hx
    rcases hx with hx | hx
    · exact P.late x (List.mem_of_mem_erase hx)
    · have := T _ _ _ x hx
      omega
  · intro ℓ hℓ
    obtain ⟨L, hL, hLl⟩ := P.disp ℓ hℓ
    rw [dispatch_disp]
    by_cases h : ℓ = e.dest
    · subst h
      rw [upd_same]
      refine ⟨L ++ [e], by rw [hL]; simp, ?_⟩
      intro x hx
      rcases List.mem_append.mp hx with hx | hx
      · exact hLl x hx
      · simp at hx; subst hx; exact het
    · rw [upd_other _ _ h]; exact ⟨L, hL, hLl⟩

/-- in phase 2 the dispatch sequences and the histories agree below `g` -/
theorem Phase2.filter_eq (H : Hist M G g) (P : Phase2 M G g s) {ℓ : Nat} (hℓ : ℓ < M.nLps) :
    (s.disp ℓ).filter (below g) = (G ℓ).filter (below g) := by
  obtain ⟨L, hL, hLl⟩ := P.disp ℓ hℓ
  obtain ⟨rest, hr⟩ := H.cons hℓ
  have hLn : L.filter (below g) = [] := by
    rw [List.filter_eq_nil_iff]
    intro a ha
    have := hLl a ha
    simp only [below, decide_eq_true_eq]; omega
  rw [hL, hr]
  simp only [List.filter_cons, List.tail_cons, List.filter_append, List.filter_filter, Bool.and_self,
    hLn, List.append_nil]

end phase2

/-! ### the initial state -/

/-- `LP_INIT` dispatched to the LPs `0 .. n-1` -/
def initN (M : SimModel σ) (n : Nat) : SeqState σ :=
  (List.range n).foldl (fun s ℓ => dispatch M s (initEv ℓ)) (start M)

theorem initN_succ (M : SimModel σ) (n : Nat) :
    initN M (n + 1) = dispatch M (initN M n) (initEv n) := by
  simp [initN, List.range_succ, List.foldl_append]

theorem initN_spec (M : SimModel σ) : ∀ n,
    (initN M n).pending = (List.range n).flatMap (fun ℓ => (M.handler ℓ (M.init ℓ) (initEv ℓ)).2) ∧
    (∀ ℓ, (initN M n).st ℓ = if ℓ < n then (M.handler ℓ (M.init ℓ) (initEv ℓ)).1 else M.init ℓ) ∧
    (∀ ℓ, (initN M n).disp ℓ = if ℓ < n then [initEv ℓ] else [])
  | 0 => by simp [initN, start]
  | n + 1 => by
    obtain ⟨h1, h2, h3⟩ := initN_spec M n
    have hd : (initEv n).dest = n := rfl
    have hst : (initN M n).st n = M.init n := by rw [h2]; simp
    rw [initN_succ]
    refine ⟨?_, ?_, ?_⟩
    · rw [dispatch_pending, h1, hd, hst, List.range_succ, List.flatMap_append]
      simp
    · intro ℓ
      rw [dispatch_st, hd, hst]
      by_cases h : ℓ = n
      · subst h; rw [upd_same]; simp
      · rw [upd_other _ _ h, h2]
        by_cases h' : ℓ < n
        · simp [h', Nat.lt_succ_of_lt h']
        · have : ¬ ℓ < n + 1 := by omega
          simp [h', this]
    · intro ℓ
      rw [dispatch_disp, hd]
      by_cases h : ℓ = n
      · subst h; rw [upd_same, h3]; simp
      · rw [upd_other _ _ h, h3]
        by_cases h' : ℓ < n
        · simp [h', Nat.lt_succ_of_lt h']
        · have : ¬ ℓ < n + 1 := by omega
          simp [h', this]

theorem init_eq_initN (M : SimModel σ) : init M = initN M M.nLps := rfl

theorem phase1_init {M : SimModel σ} {G : Nat → List Event} {g : Nat} (H : Hist M G g) :
    Phase1 M G g (init M) := by
  obtain ⟨h1, h2, h3⟩ := initN_spec M M.nLps
  rw [init_eq_initN]
  refine ⟨?_, ?_, ?_, ?_, ?_⟩
  · intro ℓ hℓ
    obtain ⟨rest, hr⟩ := H.cons hℓ
    rw [h3, hr]; simp [hℓ]
  · intro ℓ hℓ; rw [h3]; simp [hℓ]
  · intro ℓ hℓ x hx; rw [h3] at hx; simp [hℓ] at hx
  · intro ℓ hℓ; rw [h2, h3]; simp [hℓ, lpState, stFrom]
  · intro x
    have hr : (restAll M.nLps (initN M M.nLps).disp).count x = 0 := by
      rw [List.count_eq_zero]
      simp only [restAll, List.mem_flatMap, List.mem_range, not_exists, not_and]
      intro ℓ hℓ; rw [h3]; simp [hℓ]
    have ho : (outsAll M (initN M M.nLps).disp).count x = (initN M M.nLps).pending.count x := by
      rw [h1]
      apply add_flatMap_congr (additive_count x)
      intro ℓ hℓ
      rw [h3]; simp [List.mem_range.mp hℓ, outs, outsFrom]
    omega

/-! ### general facts about sequential runs -/

/-- the LP states of a sequential run are the folds of the handler over the dispatch sequences -/
theorem reachable_st {M : SimModel σ} {s : SeqState σ} (hr : Reachable M s) :
    ∀ ℓ, s.st ℓ = lpState M ℓ (s.disp ℓ) := by
  induction hr with
  | init =>
    intro ℓ
    obtain ⟨_, h2, h3⟩ := initN_spec M M.nLps
    rw [init_eq_initN, h2, h3]
    by_cases h : ℓ < M.nLps <;> simp [h, lpState, stFrom]
  | @step s _ _ hs ih =>
    cases hs with
    | mk e hmem hmin =>
      intro ℓ
      rw [dispatch_disp, dispatch_st]
      by_cases h : ℓ = e.dest
      · subst h
        rw [upd_same, upd_same, lpState_append]
        show _ = stFrom M e.dest (lpState M e.dest (s.disp e.dest)) [e]
        rw [← ih e.dest]; rfl
      · rw [upd_other _ _ h, upd_other _ _ h]; exact ih ℓ

theorem pickMin_some {l : List Event} {e : Event} (h : pickMin l = some e) :
    e ∈ l ∧ Minimal e l := by
  unfold pickMin at h
  refine ⟨List.mem_of_find?_eq_some h, ?_⟩
  have := List.find?_some h
  intro e' he'
  simpa using List.all_eq_true.mp this e' he'

/-- the executable instance performs steps of the relation -/
theorem seqStep_step {M : SimModel σ} {s s' : SeqState σ} (h : seqStep M s = some s') :
    Step M s s' := by
  unfold seqStep at h
  split at h
  · cases h
  · rename_i e he
    obtain ⟨hm, hmin⟩ := pickMin_some he
    cases h
    exact Step.mk s e hm hmin

theorem seqRunFrom_reachable {M : SimModel σ} : ∀ (n : Nat) (s : SeqState σ),
    Reachable M s → Reachable M (seqRunFrom M n s)
  | 0, _, h => h
  | n + 1, s, h => by
    unfold seqRunFrom
    split
    · exact h
    · rename_i s' hs
      exact seqRunFrom_reachable n s' (Reachable.step h (seqStep_step hs))

theorem seqRunN_reachable (M : SimModel σ) (n : Nat) : Reachable M (seqRunN M n) :=
  seqRunFrom_reachable n _ Reachable.init

/-! ### the invariant of all sequential runs -/

section main
variable {M : SimModel σ} {G : Nat → List Event} {g : Nat}

theorem reachable_phase (H : Hist M G g) (V : V2sBelow M G g) (T : TimeMono M) {s : SeqState σ}
    (hr : Reachable M s) : Phase1 M G g s ∨ Phase2 M G g s := by
  induction hr with
  | init => exact Or.inl (phase1_init H)
  | @step s _ _ hs ih =>
    cases hs with
    | mk e hmem hmin =>
      rcases ih with P | P
      · by_cases hlt : e.t < g
        · exact Or.inl (P.step H V T hmem hmin hlt)
        · exact Or.inr ((P.toPhase2 H V T (late_of_minimal_late hmin (by omega))).step T hmem)
      · exact Or.inr (P.step T hmem)

/-- from a phase-1 state some run reaches a phase-1 state with nothing pending below `g` -/
theorem Phase1.exists_run (H : Hist M G g) (V : V2sBelow M G g) (T : TimeMono M) :
    ∀ (n : Nat) (s : SeqState σ), Reachable M s → Phase1 M G g s →
      (restAll M.nLps s.disp).length + n = (restAll M.nLps G).length →
      ∃ s', Reachable M s' ∧ Phase1 M G g s' ∧ ∀ x ∈ s'.pending, g ≤ x.t := by
  intro n
  induction n with
  | zero =>
    intro s hr P hlen
    refine ⟨s, hr, P, ?_⟩
    intro x hx
    apply Nat.le_of_not_lt
    intro hxt
    -- otherwise a further phase-1 step would make the dispatched part longer than the history
    obtain ⟨e, he, hmin⟩ := Event.exists_minimal s.pending (List.ne_nil_of_mem hx)
    have het : e.t < g := by have := Event.t_le_of_not_before (hmin x hx); omega
    have P' := P.step H V T he hmin het
    obtain ⟨hd, S, hS⟩ := P.next_of_minimal H V T he hmin het
    have hle : (restAll M.nLps (dispatch M { s with pending := s.pending.erase e } e).disp).length ≤
        (restAll M.nLps G).length := by
      apply add_flatMap_le additive_length
      intro ℓ hℓ
      rw [P'.tail_split (List.mem_range.mp hℓ), List.length_append]; omega
    have hup : (restAll M.nLps (dispatch M { s with pending := s.pending.erase e } e).disp).length =
        (restAll M.nLps s.disp).length + 1 := by
      rw [dispatch_disp]
      apply add_flatMap_upd additive_length (f := fun ℓ => (s.disp ℓ).tail)
        (f' := fun ℓ => (upd s.disp e.dest (s.disp e.dest ++ [e]) ℓ).tail) (ℓ := e.dest) _ _
        List.nodup_range (List.mem_range.mpr hd)
      · intro ℓ' _ h; rw [upd_other _ _ h]
      · rw [upd_same, List.tail_append_of_ne_nil (P.ne _ hd)]; simp
    omega
  | succ n ih =>
    intro s hr P hlen
    by_cases hl : ∀ x ∈ s.pending, g ≤ x.t
    · exact ⟨s, hr, P, hl⟩
    · have ⟨x, hx, hxt⟩ : ∃ x ∈ s.pending, x.t < g := by
        apply Classical.byContradiction
        intro hcon
        apply hl
        intro x hx
        apply Nat.le_of_not_lt
        intro hxt
        exact hcon ⟨x, hx, hxt⟩
      obtain ⟨e, he, hmin⟩ := Event.exists_minimal s.pending (List.ne_nil_of_mem hx)
      have het : e.t < g := by have := Event.t_le_of_not_before (hmin x hx); omega
      have P' := P.step H V T he hmin het
      obtain ⟨hd, S, hS⟩ := P.next_of_minimal H V T he hmin het
      have hup : (restAll M.nLps (dispatch M { s with pending := s.pending.erase e } e).disp).length =
          (restAll M.nLps s.disp).length + 1 := by
        rw [dispatch_disp]
        apply add_flatMap_upd additive_length (f := fun ℓ => (s.disp ℓ).tail)
          (f' := fun ℓ => (upd s.disp e.dest (s.disp e.dest ++ [e]) ℓ).tail) (ℓ := e.dest) _ _
          List.nodup_range (List.mem_range.mpr hd)
        · intro ℓ' _ h; rw [upd_other _ _ h]
        · rw [upd_same, List.tail_append_of_ne_nil (P.ne _ hd)]; simp
      exact ih _ (Reachable.step hr (Step.mk s e he hmin)) P' (by omega)

/-- some sequential run executes everything below `g` (and nothing else) -/
theorem exists_run_to (H : Hist M G g) (V : V2sBelow M G g) (T : TimeMono M) :
    ∃ s, Reachable M s ∧ Phase1 M G g s ∧ ∀ x ∈ s.pending, g ≤ x.t := by
  have P0 := phase1_init (g := g) H
  have hle : (restAll M.nLps (init M).disp).length ≤ (restAll M.nLps G).length := by
    apply add_flatMap_le additive_length
    intro ℓ hℓ
    rw [P0.tail_split (List.mem_range.mp hℓ), List.length_append]; omega
  exact Phase1.exists_run H V T ((restAll M.nLps G).length - (restAll M.nLps (init M).disp).length)
    _ Reachable.init P0 (by omega)

end main

/-! ### monotonicity in `g`, global contracts, soundness of the Boolean checkers -/

theorem Hist.mono {M : SimModel σ} {G : Nat → List Event} {g' g : Nat} (hg : g' ≤ g)
    (H : Hist M G g) : Hist M G g' :=
  ⟨H.head, H.dest, H.sorted, fun ℓ hℓ e he => H.arrived ℓ hℓ e (by omega)⟩

theorem V2sBelow.mono {M : SimModel σ} {G : Nat → List Event} {g' g : Nat} (hg : g' ≤ g)
    (V : V2sBelow M G g) : V2sBelow M G g' :=
  fun ℓ hℓ P c S hG hc => V ℓ hℓ P c S hG (by omega)

theorem V2s.below {M : SimModel σ} (V : V2s M) (G : Nat → List Event) (g : Nat) : V2sBelow M G g :=
  fun ℓ _ _ c _ _ _ o ho => ⟨(V ℓ _ c o ho).1, (V ℓ _ c o ho).2.1⟩

theorem V2s.timeMono {M : SimModel σ} (V : V2s M) : TimeMono M :=
  fun ℓ s c o ho => Event.t_le_of_before (V ℓ s c o ho).1

theorem arrivedCheck_sound {M : SimModel σ} {G : Nat → List Event} {g ℓ : Nat}
    (h : arrivedCheck M G g ℓ = true) (e : Event) (he : e.t < g) :
    (G ℓ).tail.count e = ((outsAll M G).filter (fun o => decide (o.dest = ℓ))).count e := by
  unfold arrivedCheck at h
  simp only [List.all_eq_true] at h
  by_cases hm : e ∈ (G ℓ).tail ++ (outsAll M G).filter (fun o => decide (o.dest = ℓ))
  · have := h e hm
    simpa [below, he] using this
  · rw [List.mem_append, not_or] at hm
    rw [List.count_eq_zero.mpr hm.1, List.count_eq_zero.mpr hm.2]

theorem histCheck_sound {M : SimModel σ} {G : Nat → List Event} {g : Nat}
    (h : histCheck M G g = true) : Hist M G g := by
  unfold histCheck at h
  simp only [List.all_eq_true, List.mem_range, Bool.and_eq_true, decide_eq_true_eq] at h
  refine ⟨fun ℓ hℓ => (h ℓ hℓ).1.1.1, fun ℓ hℓ e he => (h ℓ hℓ).1.1.2 e he,
    fun ℓ hℓ => (h ℓ hℓ).1.2, fun ℓ hℓ => arrivedCheck_sound (h ℓ hℓ).2⟩

end RootSim.Spec
