import RootSim.Model.MQueue
/-!
Helper lemmas for C15 (buffer half): the inductive invariant of the lock-free insertion buffer,
for every number of producers and every interleaving.
-/
namespace RootSim.MQueue

/-- the pointers `h, next h, next (next h), …` spell exactly the (finite) list `l` and end in `NULL` -/
def IsChain (next : Nat → Option Nat) : Option Nat → List Nat → Prop
  | h, [] => h = none
  | h, a :: l => h = some a ∧ IsChain next (next a) l

/-- writing `next` of a node outside the chain does not change the chain -/
theorem IsChain.frame {next : Nat → Option Nat} {h : Option Nat} {l : List Nat} (hc : IsChain next h l)
    (m : Nat) (v : Option Nat) (hm : m ∉ l) : IsChain (fun j => if j = m then v else next j) h l := by
  induction l generalizing h with
  | nil => exact hc
  | cons a l ih =>
    obtain ⟨h1, h2⟩ := hc
    have ham : a ≠ m := fun e => hm (e ▸ List.mem_cons_self)
    refine ⟨h1, ?_⟩
    have := ih h2 (fun hin => hm (List.mem_cons_of_mem _ hin))
    simpa [ham] using this

/-- everything that has been inserted and is not pending: shared list, detached list, private heap, extracted -/
def all4 (s : St) : List Nat := s.lst ++ s.det ++ s.priv ++ s.out

/-- The invariant. -/
structure QInv (s : St) : Prop where
  /-- the shared list is the finite, `NULL`-terminated chain `lst` starting at `head` -/
  chainL : IsChain s.next s.head s.lst
  /-- while walking, the consumer's cursor points to the chain `det`; otherwise nothing is detached -/
  chainD : match s.cons with
           | .walk cur => IsChain s.next cur s.det
           | _ => s.det = []
  /-- no duplicates among list / detached / private / extracted -/
  nodup : (all4 s).Nodup
  bound : ∀ m ∈ all4 s, m < s.nmsgs
  /-- a pending producer's node is fresh and in none of them -/
  pendFresh : ∀ (p m : Nat), s.prod[p]? = some (PPc.loaded m) → m < s.nmsgs ∧ m ∉ all4 s
  pendInj : ∀ (p q m : Nat), s.prod[p]? = some (PPc.loaded m) → s.prod[q]? = some (PPc.loaded m) → p = q
  /-- **no loss, no duplication**: the completed inserts are exactly list + detached + private + extracted -/
  perm : s.comp.Perm (all4 s)
  /-- while a consumer operation is in progress, what was completed-and-not-extracted at its `swap`
  is detached or private -/
  snapW : s.cons ≠ .idle → ∀ m ∈ s.snap, m ∈ s.det ∨ m ∈ s.priv

theorem init_inv (n : Nat) : QInv (init n) := by
  refine ⟨rfl, rfl, by simp [all4, init], by simp [all4, init], ?_, ?_, by simp [all4, init], by simp [init]⟩
  · intro p m h
    simp only [init] at h
    rw [List.getElem?_replicate] at h
    split at h <;> simp at h
  · intro p q m h
    simp only [init] at h
    rw [List.getElem?_replicate] at h
    split at h <;> simp at h

theorem mem_all4 {s : St} {m : Nat} : m ∈ all4 s ↔ m ∈ s.lst ∨ m ∈ s.det ∨ m ∈ s.priv ∨ m ∈ s.out := by
  simp [all4]

/-! ### producers -/

theorem insLoad_spec {s s' : St} {p ts : Nat} (h : insLoad s p ts = some s') :
    s.prod[p]? = some PPc.idle ∧
    s' = { s with nmsgs := s.nmsgs + 1,
                  t := fun j => if j = s.nmsgs then ts else s.t j,
                  next := fun j => if j = s.nmsgs then s.head else s.next j,
                  prod := s.prod.set p (.loaded s.nmsgs) } := by
  unfold insLoad at h
  split at h
  · rename_i hp; simp at h; exact ⟨hp, h.symm⟩
  · simp at h

theorem insLoad_inv {s s' : St} {p ts : Nat} (hi : QInv s) (h : insLoad s p ts = some s') : QInv s' := by
  obtain ⟨hp, rfl⟩ := insLoad_spec h
  have hfresh : s.nmsgs ∉ all4 s := fun hin => Nat.lt_irrefl _ (hi.bound _ hin)
  have hfl : s.nmsgs ∉ s.lst := fun hin => hfresh (mem_all4.mpr (Or.inl hin))
  have hfd : s.nmsgs ∉ s.det := fun hin => hfresh (mem_all4.mpr (Or.inr (Or.inl hin)))
  refine ⟨hi.chainL.frame _ _ hfl, ?_, hi.nodup, ?_, ?_, ?_, hi.perm, hi.snapW⟩
  · have := hi.chainD
    simp only
    split
    · rename_i cur hc; simp only [hc] at this; exact this.frame _ _ hfd
    · rename_i hc
      split at this
      · rename_i cur hc'; exact absurd hc' (by intro e; exact hc cur e)
      · exact this
  · intro m hm; have := hi.bound m hm; simp only; omega
  · intro q m hq
    simp only [List.getElem?_set] at hq
    split at hq
    · split at hq
      · simp only [Option.some.injEq, PPc.loaded.injEq] at hq
        subst hq; exact ⟨by simp, hfresh⟩
      · simp at hq
    · have := hi.pendFresh q m hq
      exact ⟨by simp only; omega, this.2⟩
  · intro q r m hq hr
    simp only [List.getElem?_set] at hq hr
    have hlt : ∀ x, s.prod[x]? = some (PPc.loaded m) → m < s.nmsgs := fun x hx => (hi.pendFresh x m hx).1
    split at hq <;> split at hr
    · omega
    · split at hq
      · simp only [Option.some.injEq, PPc.loaded.injEq] at hq
        have := hlt r hr; omega
      · simp at hq
    · split at hr
      · simp only [Option.some.injEq, PPc.loaded.injEq] at hr
        have := hlt q hq; omega
      · simp at hr
    · exact hi.pendInj q r m hq hr

theorem insCas_spec {s s' : St} {p : Nat} {sp : Bool} (h : insCas s p sp = some s') :
    ∃ m, s.prod[p]? = some (PPc.loaded m) ∧
      ((sp = false ∧ s.head = s.next m ∧
          s' = { s with head := some m, prod := s.prod.set p .idle, lst := m :: s.lst, comp := m :: s.comp }) ∨
       s' = setNext s m s.head) := by
  unfold insCas at h
  split at h
  · rename_i m hp
    refine ⟨m, hp, ?_⟩
    by_cases hc : (!sp && s.head == s.next m) = true
    · simp only [hc, if_true, Option.some.injEq] at h
      simp only [Bool.and_eq_true, Bool.not_eq_true', beq_iff_eq] at hc
      exact Or.inl ⟨hc.1, hc.2, h.symm⟩
    · simp only [hc] at h
      exact Or.inr (by simpa using h.symm)
  · simp at h

theorem insCas_inv {s s' : St} {p : Nat} {sp : Bool} (hi : QInv s) (h : insCas s p sp = some s') : QInv s' := by
  obtain ⟨m, hp, hcase⟩ := insCas_spec h
  have hpf := hi.pendFresh p m hp
  have hml : m ∉ s.lst := fun hin => hpf.2 (mem_all4.mpr (Or.inl hin))
  have hmd : m ∉ s.det := fun hin => hpf.2 (mem_all4.mpr (Or.inr (Or.inl hin)))
  rcases hcase with ⟨_, hhead, rfl⟩ | rfl
  · -- the CAS succeeds: `m` becomes the new head
    have hall : all4 { s with head := some m, prod := s.prod.set p .idle, lst := m :: s.lst, comp := m :: s.comp }
        = m :: all4 s := by simp [all4]
    refine ⟨⟨rfl, hhead ▸ hi.chainL⟩, hi.chainD, ?_, ?_, ?_, ?_, ?_, ?_⟩
    · rw [hall]; exact List.nodup_cons.mpr ⟨hpf.2, hi.nodup⟩
    · intro x hx; rw [hall] at hx
      rcases List.mem_cons.mp hx with rfl | hx
      · exact hpf.1
      · exact hi.bound x hx
    · intro q m' hq
      simp only [List.getElem?_set] at hq
      split at hq
      · split at hq <;> simp at hq
      · rename_i hne
        have := hi.pendFresh q m' hq
        refine ⟨this.1, ?_⟩
        rw [hall]
        intro hin
        rcases List.mem_cons.mp hin with rfl | hin
        · exact hne (hi.pendInj p q m' hp hq)
        · exact this.2 hin
    · intro q r m' hq hr
      simp only [List.getElem?_set] at hq hr
      split at hq
      · split at hq <;> simp at hq
      · split at hr
        · split at hr <;> simp at hr
        · exact hi.pendInj q r m' hq hr
    · rw [hall]; exact List.Perm.cons m hi.perm
    · intro hc x hx
      exact hi.snapW hc x hx
  · -- the CAS fails: `msg->next` is refreshed, nothing else changes
    refine ⟨hi.chainL.frame _ _ hml, ?_, hi.nodup, hi.bound, hi.pendFresh, hi.pendInj, hi.perm, hi.snapW⟩
    have := hi.chainD
    simp only [setNext]
    split
    · rename_i cur hc; simp only [hc] at this; exact this.frame _ _ hmd
    · rename_i hc
      split at this
      · rename_i cur hc'; exact absurd hc' (by intro e; exact hc cur e)
      · exact this

/-! ### consumer -/

theorem swap_spec {s s' : St} (h : swap s = some s') :
    s.cons = .idle ∧ s' = { s with cons := .walk s.head, head := none, det := s.lst, lst := [],
                                   snap := s.lst ++ s.priv } := by
  unfold swap at h
  split at h
  · rename_i hc; simp at h; exact ⟨hc, h.symm⟩
  all_goals simp at h

theorem swap_inv {s s' : St} (hi : QInv s) (h : swap s = some s') : QInv s' := by
  obtain ⟨hc, rfl⟩ := swap_spec h
  have hdet : s.det = [] := by have := hi.chainD; simpa [hc] using this
  have hall : all4 { s with cons := .walk s.head, head := none, det := s.lst, lst := [], snap := s.lst ++ s.priv }
      = all4 s := by simp [all4, hdet]
  refine ⟨rfl, hi.chainL, by rw [hall]; exact hi.nodup, by rw [hall]; exact hi.bound, ?_, hi.pendInj,
    by rw [hall]; exact hi.perm, ?_⟩
  · intro p m hp; rw [hall]; exact hi.pendFresh p m hp
  · intro _ m hm
    simpa using hm

theorem walk_spec {s s' : St} (h : walk s = some s') :
    (∃ m, s.cons = .walk (some m) ∧
        s' = { s with priv := m :: s.priv, cons := .walk (s.next m), det := s.det.tail }) ∨
    (s.cons = .walk none ∧ s' = { s with cons := .ready }) := by
  unfold walk at h
  split at h
  · rename_i m hc; simp at h; exact Or.inl ⟨m, hc, h.symm⟩
  · rename_i hc; simp at h; exact Or.inr ⟨hc, h.symm⟩
  · simp at h

theorem walk_inv {s s' : St} (hi : QInv s) (h : walk s = some s') : QInv s' := by
  rcases walk_spec h with ⟨m, hc, rfl⟩ | ⟨hc, rfl⟩
  · have hcd := hi.chainD
    simp only [hc] at hcd
    have hex : ∃ rest, s.det = m :: rest ∧ IsChain s.next (s.next m) rest := by
      cases hd : s.det with
      | nil => rw [hd] at hcd; simp [IsChain] at hcd
      | cons a rest =>
        rw [hd] at hcd
        obtain ⟨ha, hrest⟩ := hcd
        have ham : a = m := by simpa using ha.symm
        subst ham
        exact ⟨rest, rfl, hrest⟩
    obtain ⟨rest, hdet, hrest⟩ := hex
    have hperm : (all4 { s with priv := m :: s.priv, cons := .walk (s.next m), det := s.det.tail }).Perm (all4 s) := by
      simp only [all4, hdet, List.tail_cons]
      rw [List.perm_iff_count]; intro x
      simp [List.count_append, List.count_cons]; omega
    refine ⟨hi.chainL, by simpa [hdet] using hrest, (hperm.nodup_iff).mpr hi.nodup, ?_, ?_, hi.pendInj,
      hi.perm.trans hperm.symm, ?_⟩
    · intro x hx; exact hi.bound x (hperm.mem_iff.mp hx)
    · intro p m' hp
      have := hi.pendFresh p m' hp
      exact ⟨this.1, fun hin => this.2 (hperm.mem_iff.mp hin)⟩
    · intro _ x hx
      have := hi.snapW (by rw [hc]; simp) x hx
      simp only [hdet, List.tail_cons]
      rcases this with h1 | h1
      · rw [hdet] at h1
        rcases List.mem_cons.mp h1 with rfl | h1
        · exact Or.inr List.mem_cons_self
        · exact Or.inl h1
      · exact Or.inr (List.mem_cons_of_mem _ h1)
  · have hcd := hi.chainD
    simp only [hc] at hcd
    have hdet : s.det = [] := by
      cases hd : s.det with
      | nil => rfl
      | cons a r => rw [hd] at hcd; simp [IsChain] at hcd
    refine ⟨hi.chainL, hdet, hi.nodup, hi.bound, hi.pendFresh, hi.pendInj, hi.perm, ?_⟩
    intro _ x hx
    exact hi.snapW (by rw [hc]; simp) x hx

theorem extract_spec {s s' : St} {c : Option Nat} (h : extract s c = some s') :
    s.cons = .ready ∧
    ((∃ m, c = some m ∧ isMin s m = true ∧ s' = { s with cons := .idle, priv := s.priv.erase m, out := m :: s.out }) ∨
     (c = none ∧ s.priv = [] ∧ s' = { s with cons := .idle })) := by
  unfold extract at h
  split at h
  · rename_i m hc
    by_cases hm : isMin s m = true
    · simp only [hm, if_true, Option.some.injEq] at h
      exact ⟨hc, Or.inl ⟨m, rfl, hm, h.symm⟩⟩
    · simp [hm] at h
  · rename_i hc
    by_cases he : s.priv.isEmpty = true
    · simp only [he, if_true, Option.some.injEq] at h
      exact ⟨hc, Or.inr ⟨rfl, by simpa using he, h.symm⟩⟩
    · simp [he] at h
  · simp at h

theorem isMin_mem {s : St} {m : Nat} (h : isMin s m = true) : m ∈ s.priv ∧ ∀ j ∈ s.priv, s.t m ≤ s.t j := by
  simp only [isMin, Bool.and_eq_true, List.contains_iff_mem, List.all_eq_true, decide_eq_true_eq] at h
  exact h

theorem extract_inv {s s' : St} {c : Option Nat} (hi : QInv s) (h : extract s c = some s') : QInv s' := by
  obtain ⟨hc, hcase⟩ := extract_spec h
  have hdet : s.det = [] := by have := hi.chainD; simpa [hc] using this
  rcases hcase with ⟨m, _, hm, rfl⟩ | ⟨_, _, rfl⟩
  · have hmem := (isMin_mem hm).1
    have hperm : (all4 { s with cons := .idle, priv := s.priv.erase m, out := m :: s.out }).Perm (all4 s) := by
      have h1 : s.priv.Perm (m :: s.priv.erase m) := List.perm_cons_erase hmem
      simp only [all4]
      rw [List.perm_iff_count]; intro x
      have h2 := List.perm_iff_count.mp h1 x
      simp only [List.count_append, List.count_cons] at h2 ⊢
      omega
    refine ⟨hi.chainL, hdet, (hperm.nodup_iff).mpr hi.nodup, ?_, ?_, hi.pendInj, hi.perm.trans hperm.symm, ?_⟩
    · intro x hx; exact hi.bound x (hperm.mem_iff.mp hx)
    · intro p m' hp
      have := hi.pendFresh p m' hp
      exact ⟨this.1, fun hin => this.2 (hperm.mem_iff.mp hin)⟩
    · intro hne; exact absurd rfl hne
  · exact ⟨hi.chainL, hdet, hi.nodup, hi.bound, hi.pendFresh, hi.pendInj, hi.perm, fun hne => absurd rfl hne⟩

theorem peek_spec {s s' : St} {v : Nat} (h : peek s = some (s', v)) :
    s.cons = .ready ∧ s' = { s with cons := .idle } ∧ v = minT s := by
  unfold peek at h
  split at h
  · rename_i hc; simp at h; exact ⟨hc, h.1.symm, h.2.symm⟩
  all_goals simp at h

theorem peek_inv {s s' : St} {v : Nat} (hi : QInv s) (h : peek s = some (s', v)) : QInv s' := by
  obtain ⟨hc, rfl, _⟩ := peek_spec h
  have hdet : s.det = [] := by have := hi.chainD; simpa [hc] using this
  exact ⟨hi.chainL, hdet, hi.nodup, hi.bound, hi.pendFresh, hi.pendInj, hi.perm, fun hne => absurd rfl hne⟩

theorem step_inv {s s' : St} {a : Act} (hi : QInv s) (h : step s a = some s') : QInv s' := by
  cases a with
  | insLoad p ts => exact insLoad_inv hi h
  | insCas p sp => exact insCas_inv hi h
  | swap => exact swap_inv hi h
  | walk => exact walk_inv hi h
  | extract c => exact extract_inv hi h
  | peek =>
    simp only [step, Option.map_eq_some_iff] at h
    obtain ⟨⟨s1, v⟩, h1, rfl⟩ := h
    exact peek_inv hi h1

/-! ### the minimum -/

theorem foldl_min_le (t : Nat → Nat) (l : List Nat) (acc : Nat) :
    l.foldl (fun a j => min a (t j)) acc ≤ acc ∧ ∀ j ∈ l, l.foldl (fun a j => min a (t j)) acc ≤ t j := by
  induction l generalizing acc with
  | nil => simp
  | cons x l ih =>
    simp only [List.foldl_cons]
    have h1 := ih (min acc (t x))
    refine ⟨Nat.le_trans h1.1 (Nat.min_le_left _ _), ?_⟩
    intro j hj
    rcases List.mem_cons.mp hj with rfl | hj
    · exact Nat.le_trans h1.1 (Nat.min_le_right _ _)
    · exact h1.2 j hj

theorem minT_le {s : St} {m : Nat} (h : m ∈ s.priv) : minT s ≤ s.t m :=
  (foldl_min_le s.t s.priv SIMTIME_MAX).2 m h


/-! ### reachable states, executions, frame lemmas (used by `Props/C15.lean`) -/

inductive Reachable : St → Prop
  | init (n : Nat) : Reachable (init n)
  | step {s s' : St} (a : Act) : Reachable s → step s a = some s' → Reachable s'

theorem exec_reachable {s s' : St} (acts : List Act) (hr : Reachable s) (he : exec s acts = some s') :
    Reachable s' := by
  induction acts generalizing s with
  | nil => simp [exec] at he; subst he; exact hr
  | cons a as ih =>
    simp only [exec] at he
    split at he
    · rename_i s1 h1; exact ih (Reachable.step a hr h1) he
    · simp at he

/-- actions that end a consumer operation -/
def finishes : Act → Bool
  | .extract _ => true
  | .peek => true
  | _ => false

theorem step_keeps {s s' : St} {a : Act} (h : step s a = some s') (hf : finishes a = false)
    (hc : s.cons ≠ .idle) : s'.snap = s.snap ∧ s'.out = s.out ∧ s'.cons ≠ .idle := by
  cases a with
  | insLoad p ts => obtain ⟨_, rfl⟩ := insLoad_spec h; exact ⟨rfl, rfl, hc⟩
  | insCas p sp =>
    obtain ⟨m, _, hcase⟩ := insCas_spec h
    rcases hcase with ⟨_, _, rfl⟩ | rfl
    · exact ⟨rfl, rfl, hc⟩
    · exact ⟨rfl, rfl, hc⟩
  | swap => exact absurd (swap_spec h).1 hc
  | walk =>
    rcases walk_spec h with ⟨m, _, rfl⟩ | ⟨_, rfl⟩
    · exact ⟨rfl, rfl, by simp⟩
    · exact ⟨rfl, rfl, by simp⟩
  | extract c => simp [finishes] at hf
  | peek => simp [finishes] at hf

theorem exec_keeps {s s' : St} (acts : List Act) (h : exec s acts = some s')
    (hf : ∀ a ∈ acts, finishes a = false) (hc : s.cons ≠ .idle) :
    s'.snap = s.snap ∧ s'.out = s.out ∧ s'.cons ≠ .idle := by
  induction acts generalizing s with
  | nil => simp [exec] at h; subst h; exact ⟨rfl, rfl, hc⟩
  | cons a as ih =>
    simp only [exec] at h
    split at h
    · rename_i s1 h1
      have k1 := step_keeps h1 (hf a List.mem_cons_self) hc
      have k2 := ih h (fun b hb => hf b (List.mem_cons_of_mem _ hb)) k1.2.2
      exact ⟨k2.1.trans k1.1, k2.2.1.trans k1.2.1, k2.2.2⟩
    · simp at h

/-- time stamps of existing messages never change, ids are never reused -/
theorem step_t_stable {s s' : St} {a : Act} (h : step s a = some s') :
    s.nmsgs ≤ s'.nmsgs ∧ ∀ m, m < s.nmsgs → s'.t m = s.t m := by
  cases a with
  | insLoad p ts =>
    obtain ⟨_, rfl⟩ := insLoad_spec h
    refine ⟨Nat.le_succ _, fun m hm => ?_⟩
    have : m ≠ s.nmsgs := by omega
    simp [this]
  | insCas p sp =>
    obtain ⟨m, _, hcase⟩ := insCas_spec h
    rcases hcase with ⟨_, _, rfl⟩ | rfl
    · exact ⟨Nat.le_refl _, fun _ _ => rfl⟩
    · exact ⟨Nat.le_refl _, fun _ _ => rfl⟩
  | swap => obtain ⟨_, rfl⟩ := swap_spec h; exact ⟨Nat.le_refl _, fun _ _ => rfl⟩
  | walk =>
    rcases walk_spec h with ⟨m, _, rfl⟩ | ⟨_, rfl⟩
    · exact ⟨Nat.le_refl _, fun _ _ => rfl⟩
    · exact ⟨Nat.le_refl _, fun _ _ => rfl⟩
  | extract c =>
    obtain ⟨_, hcase⟩ := extract_spec h
    rcases hcase with ⟨m, _, _, rfl⟩ | ⟨_, _, rfl⟩
    · exact ⟨Nat.le_refl _, fun _ _ => rfl⟩
    · exact ⟨Nat.le_refl _, fun _ _ => rfl⟩
  | peek =>
    simp only [step, Option.map_eq_some_iff] at h
    obtain ⟨⟨s1, v⟩, h1, rfl⟩ := h
    obtain ⟨_, rfl, _⟩ := peek_spec h1
    exact ⟨Nat.le_refl _, fun _ _ => rfl⟩

theorem exec_t_stable {s s' : St} (acts : List Act) (h : exec s acts = some s') :
    s.nmsgs ≤ s'.nmsgs ∧ ∀ m, m < s.nmsgs → s'.t m = s.t m := by
  induction acts generalizing s with
  | nil => simp [exec] at h; subst h; exact ⟨Nat.le_refl _, fun _ _ => rfl⟩
  | cons a as ih =>
    simp only [exec] at h
    split at h
    · rename_i s1 h1
      have k1 := step_t_stable h1
      have k2 := ih h
      exact ⟨Nat.le_trans k1.1 k2.1, fun m hm => (k2.2 m (by omega)).trans (k1.2 m hm)⟩
    · simp at h


end RootSim.MQueue
