import RootSim.Proofs.AllocMM
/-! Helper lemmas about checkpoints: size of a checkpoint, `checkpoint_full_restore`, the arena
matching loop of `model_allocator_checkpoint_restore`, the backward scans over `logs`. -/
namespace RootSim.Alloc

/-- the record `checkpoint_full_take` writes for one arena -/
def recOf (T : Nat) (a : Arena) : BCkpt := ⟨a.id, a.tree, a.tree.saved T a.mem⟩

theorem mkCkpt_eq (c : Cfg) (s : MM) : mkCkpt c s = ⟨s.full, s.arenas.reverse.map (recOf c.T)⟩ := rfl

theorem saved_length' {c : Cfg} (hc : c.ok) {a : Arena} (ha : ArenaOk c a) :
    (a.tree.saved c.T a.mem).length = a.tree.liveBytes c.T := by
  unfold BT.saved
  rw [saved_length, BT.visit_sum hc.1 ha.1 0, ← liveBytes_eq]
  intro r hr
  have := BT.visit_bounds hc.1 ha.1 hr
  rw [ha.2]; omega

/-- C05 `ckpt_size_exact`, arena-list level -/
theorem written_mkCkpt {c : Cfg} (hc : c.ok) {s : MM} (hI : Inv0 c s) : (mkCkpt c s).written c = s.full := by
  rw [hI.full, mkCkpt_eq]
  unfold Ckpt.written sizeOf
  simp only
  rw [List.map_map, List.map_reverse, List.sum_reverse]
  congr 2
  apply List.map_congr_left
  intro a ha
  simp [recOf, saved_length' hc (hI.ok a ha)]

/-- `checkpoint_full_restore` of the record taken from `m` into an arena at the same address -/
theorem restore_rec {c : Cfg} (hc : c.ok) {a m : Arena} (ha : a.mem.length = 2 ^ c.T) (hm : ArenaOk c m) :
    (a.restore c.T (recOf c.T m)).id = a.id ∧ (a.restore c.T (recOf c.T m)).tree = m.tree ∧
    (a.restore c.T (recOf c.T m)).mem.length = 2 ^ c.T ∧
    ∀ b ∈ m.tree.blocks c.T 0,
      readAt (a.restore c.T (recOf c.T m)).mem b.1 (2 ^ b.2) = readAt m.mem b.1 (2 ^ b.2) := by
  have hR : ∀ r ∈ m.tree.visit c.T 0, r.1 + r.2 ≤ m.mem.length := by
    intro r hr
    have := BT.visit_bounds hc.1 hm.1 hr
    rw [hm.2]; omega
  obtain ⟨h1, h2⟩ := restoreMem_saved (m.tree.visit c.T 0) m.mem a.mem (by rw [ha, hm.2]) hR
  refine ⟨rfl, rfl, by simpa [Arena.restore, recOf, BT.saved, ha] using h1, ?_⟩
  intro b hb
  apply readAt_ext
  intro i hi1 hi2
  have hcov := BT.visit_cover hm.1 (o' := b.1) (j := b.2) hb hi1 hi2
  exact (h2 i).1 hcov

theorem ArenaOk_reinit {c : Cfg} (hc : c.ok) {a : Arena} (ha : a.mem.length = 2 ^ c.T) : ArenaOk c a.reinit :=
  ⟨by simpa [Arena.reinit] using hc.2, ha⟩

@[simp] theorem liveBytes_free (T) : BT.free.liveBytes T = 0 := by simp [BT.liveBytes]

/-- The arena loop of `model_allocator_checkpoint_restore`: `L` = current arenas in processing order,
`M` = the arenas that existed at the checkpoint (same order; a sub-sequence by identity). -/
theorem restoreArenas_spec {c : Cfg} (hc : c.ok) (L M : List Arena) (hL : ∀ a ∈ L, a.mem.length = 2 ^ c.T)
    (hM : ∀ m ∈ M, ArenaOk c m) (hn : (ids L).Nodup) (hsub : (ids M).Sublist (ids L)) :
    ∃ as n, restoreArenas c.T L (M.map (recOf c.T)) = (as, n) ∧ ids as = ids L ∧
      n + M.length = L.length ∧ (∀ a ∈ as, ArenaOk c a) ∧
      (∀ m ∈ M, ∃ a' ∈ as, a'.id = m.id ∧ a'.tree = m.tree ∧
        ∀ b ∈ m.tree.blocks c.T 0, readAt a'.mem b.1 (2 ^ b.2) = readAt m.mem b.1 (2 ^ b.2)) ∧
      (∀ a' ∈ as, a'.id ∉ ids M → a'.tree = .free) ∧
      sizeOf c as = sizeOf c M + n * c.perArena := by
  induction L generalizing M with
  | nil =>
    have : M = [] := by cases M with
      | nil => rfl
      | cons m M => simp at hsub
    subst this
    exact ⟨[], 0, by simp [restoreArenas], rfl, rfl, by simp, by simp, by simp, by simp⟩
  | cons a L ih =>
    have hn' := List.nodup_cons.1 (by simpa using hn)
    have hL' : ∀ x ∈ L, x.mem.length = 2 ^ c.T := fun x hx => hL x (by simp [hx])
    cases M with
    | nil =>
      obtain ⟨as, n, h1, h2, h3, h4, h5, h6, h7⟩ := ih [] hL' (by simp) hn'.2 (by simp)
      simp at h1
      refine ⟨a.reinit :: as, n + 1, by simp [restoreArenas, h1], by simp [h2, Arena.reinit], by simp at h3 ⊢; omega,
        ?_, by simp, ?_, ?_⟩
      · intro x hx
        simp at hx
        rcases hx with rfl | hx
        · exact ArenaOk_reinit hc (hL a (by simp))
        · exact h4 x hx
      · intro x hx _
        simp at hx
        rcases hx with rfl | hx
        · rfl
        · exact h6 x hx (by simp)
      · simp [h7, Arena.reinit, Nat.add_mul]; omega
    | cons m M =>
      simp only [ids_cons] at hsub
      by_cases he : m.id = a.id
      · have hsub' : (ids M).Sublist (ids L) := by
          rw [List.sublist_cons_iff] at hsub
          rcases hsub with h | ⟨r, h1, h2⟩
          · exact absurd (he ▸ h.subset (by simp)) hn'.1
          · simp at h1; rw [h1.2]; exact h2
        obtain ⟨as, n, h1, h2, h3, h4, h5, h6, h7⟩ :=
          ih M hL' (fun x hx => hM x (by simp [hx])) hn'.2 hsub'
        obtain ⟨r1, r2, r3, r4⟩ := restore_rec hc (hL a (by simp)) (hM m (by simp))
        refine ⟨a.restore c.T (recOf c.T m) :: as, n, ?_, by simp [h2, r1], by simp at h3 ⊢; omega, ?_, ?_, ?_, ?_⟩
        · simp only [List.map_cons, restoreArenas]
          simp [recOf, he] at h1 ⊢
          rw [h1]; simp
        · intro x hx
          simp at hx
          rcases hx with rfl | hx
          · exact ⟨by rw [r2]; exact (hM m (by simp)).1, r3⟩
          · exact h4 x hx
        · intro x hx
          simp at hx
          rcases hx with rfl | hx
          · exact ⟨_, by simp, by rw [r1, he], r2, r4⟩
          · obtain ⟨a', q1, q2⟩ := h5 x hx
            exact ⟨a', by simp [q1], q2⟩
        · intro x hx hnot
          simp at hx
          rcases hx with rfl | hx
          · exfalso; apply hnot; simp [r1, he]
          · exact h6 x hx (fun hm => hnot (by simp [hm]))
        · simp [h7, r2]; omega
      · have hsub' : (ids (m :: M)).Sublist (ids L) := by
          rw [List.sublist_cons_iff] at hsub
          rcases hsub with h | ⟨r, h1, h2⟩
          · exact h
          · simp at h1; exact absurd h1.1 he
        obtain ⟨as, n, h1, h2, h3, h4, h5, h6, h7⟩ := ih (m :: M) hL' hM hn'.2 hsub'
        refine ⟨a.reinit :: as, n + 1, ?_, by simp [h2, Arena.reinit], by simp at h3 ⊢; omega, ?_, ?_, ?_, ?_⟩
        · simp only [List.map_cons, restoreArenas] at h1 ⊢
          simp [recOf, he] at h1 ⊢
          rw [h1]; simp
        · intro x hx
          simp at hx
          rcases hx with rfl | hx
          · exact ArenaOk_reinit hc (hL a (by simp))
          · exact h4 x hx
        · intro x hx
          obtain ⟨a', q1, q2⟩ := h5 x hx
          exact ⟨a', by simp [q1], q2⟩
        · intro x hx hnot
          simp at hx
          rcases hx with rfl | hx
          · rfl
          · exact h6 x hx hnot
        · simp [h7, Arena.reinit, Nat.add_mul] at *; omega

/-! ### the backward scans -/

theorem keepUpTo_spec {α : Type} (x : Nat) (l : List (Nat × α)) :
    ∃ rest, l = keepUpTo x l ++ rest ∧ (∀ e ∈ rest, x < e.1) ∧
      (∀ e, (keepUpTo x l).getLast? = some e → e.1 ≤ x) := by
  induction l with
  | nil => exact ⟨[], by simp [keepUpTo], by simp, by simp [keepUpTo]⟩
  | cons e t ih =>
    obtain ⟨rest, h1, h2, h3⟩ := ih
    unfold keepUpTo
    cases hk : keepUpTo x t with
    | nil =>
      rw [hk] at h1 h3
      simp at h1
      subst h1
      by_cases he : e.1 ≤ x
      · exact ⟨t, by simp [he], h2, by simp [he]⟩
      · refine ⟨e :: t, by simp [he], ?_, by simp [he]⟩
        intro y hy
        simp at hy
        rcases hy with rfl | hy
        · omega
        · exact h2 y hy
    | cons k ks =>
      rw [hk] at h1 h3
      refine ⟨rest, by simp; simpa using h1, h2, ?_⟩
      intro y hy
      apply h3 y
      simpa [List.getLast?_cons_cons] using hy

theorem keepUpTo_ne_nil {α : Type} {x : Nat} {l : List (Nat × α)} {e : Nat × α} (he : e ∈ l) (hx : e.1 ≤ x) :
    keepUpTo x l ≠ [] := by
  obtain ⟨rest, h1, h2, _⟩ := keepUpTo_spec x l
  intro hn
  rw [hn] at h1
  simp at h1
  subst h1
  have := h2 e he; omega

end RootSim.Alloc

namespace RootSim.Alloc

theorem keepUpTo_cons_of_ne {α : Type} {x : Nat} {a : Nat × α} {l : List (Nat × α)} (h : keepUpTo x l ≠ []) :
    keepUpTo x (a :: l) = a :: keepUpTo x l := by
  rw [keepUpTo]
  cases hk : keepUpTo x l with
  | nil => exact absurd hk h
  | cons k ks => rfl

theorem keepUpTo_cons_of_nil {α : Type} {x : Nat} {a : Nat × α} {l : List (Nat × α)} (h : keepUpTo x l = []) :
    keepUpTo x (a :: l) = if a.1 ≤ x then [a] else [] := by
  rw [keepUpTo, h]

theorem keepUpTo_append {α : Type} (x : Nat) (A Bl : List (Nat × α)) (h : keepUpTo x Bl ≠ []) :
    keepUpTo x (A ++ Bl) = A ++ keepUpTo x Bl := by
  induction A with
  | nil => rfl
  | cons a A ih =>
    simp only [List.cons_append]
    rw [keepUpTo_cons_of_ne (by rw [ih]; simp [h]), ih]

/-- the scan commutes with the rebasing `ref_i -= r` of fossil collection -/
theorem keepUpTo_rebase {α : Type} (x r : Nat) (l : List (Nat × α)) (hl : ∀ e ∈ l, r ≤ e.1) (hx : r ≤ x) :
    keepUpTo (x - r) (l.map fun e => (e.1 - r, e.2)) = (keepUpTo x l).map fun e => (e.1 - r, e.2) := by
  induction l with
  | nil => rfl
  | cons a l ih =>
    have ih' := ih (fun e he => hl e (by simp [he]))
    have ha := hl a (by simp)
    simp only [List.map_cons]
    by_cases hk : keepUpTo x l = []
    · rw [keepUpTo_cons_of_nil hk, keepUpTo_cons_of_nil (by rw [ih', hk]; rfl)]
      by_cases h1 : a.1 ≤ x
      · have : a.1 - r ≤ x - r := by omega
        simp [h1, this]
      · have : ¬ a.1 - r ≤ x - r := by omega
        simp [h1, this]
    · rw [keepUpTo_cons_of_ne hk, keepUpTo_cons_of_ne (by rw [ih']; simpa using hk), ih']
      rfl

theorem keepUpTo_sub {α : Type} (x : Nat) (l : List (Nat × α)) : ∀ e ∈ keepUpTo x l, e ∈ l := by
  obtain ⟨rest, h1, _, _⟩ := keepUpTo_spec x l
  intro e he
  rw [h1]; simp [he]

end RootSim.Alloc
