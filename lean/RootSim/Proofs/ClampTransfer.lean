import RootSim.Proofs.GenModelContract
import RootSim.Proofs.TimeWarpV2
import RootSim.Proofs.TimeWarpD
/-!
# The relativised contracts are enough: `M` and `Spec.clamp M` have the same runs

The sequential executor (`Spec.Reachable`), the content-level Time Warp machine (`TW.Reachable`) and the
relaxed tagged machine (`TWD.Reachable`) only ever invoke the handler on ADMISSIBLE arguments
(`Spec.Admissible`: existing LP; a model event or the LP's own `LP_INIT`). Hence, for a model that satisfies the
relativised contract `V2On` (resp. `V2sOn`), every run of `M` is a run of `clamp M`, which satisfies the global
contract `V2` (resp. `V2s`) — and the end-to-end theorems apply.
-/
namespace RootSim.Spec
open RootSim

variable {σ : Type} {M : SimModel σ}

/-- all entries of a history of LP `ℓ` are admissible -/
def AdmList (ℓ : Nat) (L : List Event) : Prop := ∀ e ∈ L, e.type < LP_INIT ∨ e = initEv ℓ

theorem stFrom_clamp {ℓ : Nat} (hℓ : ℓ < M.nLps) : ∀ (L : List Event) (s : σ), AdmList ℓ L →
    stFrom (clamp M) ℓ s L = stFrom M ℓ s L
  | [], _, _ => rfl
  | e :: L, s, h => by
    have he : Admissible M ℓ e := ⟨hℓ, h e (by simp)⟩
    simp only [stFrom, clamp_handler_of he]
    exact stFrom_clamp hℓ L _ (fun x hx => h x (List.mem_cons_of_mem _ hx))

theorem outsFrom_clamp {ℓ : Nat} (hℓ : ℓ < M.nLps) : ∀ (L : List Event) (s : σ), AdmList ℓ L →
    outsFrom (clamp M) ℓ s L = outsFrom M ℓ s L
  | [], _, _ => rfl
  | e :: L, s, h => by
    have he : Admissible M ℓ e := ⟨hℓ, h e (by simp)⟩
    simp only [outsFrom, clamp_handler_of he]
    rw [outsFrom_clamp hℓ L _ (fun x hx => h x (List.mem_cons_of_mem _ hx))]

theorem lpState_clamp {ℓ : Nat} (hℓ : ℓ < M.nLps) {L : List Event} (h : AdmList ℓ L) :
    lpState (clamp M) ℓ L = lpState M ℓ L := stFrom_clamp hℓ L _ h

theorem outs_clamp {ℓ : Nat} (hℓ : ℓ < M.nLps) {L : List Event} (h : AdmList ℓ L) :
    outs (clamp M) ℓ L = outs M ℓ L := outsFrom_clamp hℓ L _ h

/-- a well-formed history (`LP_INIT` first, then model events) is admissible -/
theorem admList_of_wf {ℓ : Nat} {L : List Event} (hh : L.head? = some (initEv ℓ))
    (ht : ∀ e ∈ L.tail, e.type < LP_INIT) : AdmList ℓ L := by
  cases L with
  | nil => intro e he; simp at he
  | cons a L =>
    simp only [List.head?_cons, Option.some.injEq] at hh
    intro e he
    rcases List.mem_cons.mp he with h | h
    · right; rw [h, hh]
    · left; exact ht e h

theorem AdmList.sub {ℓ : Nat} {L L' : List Event} (h : AdmList ℓ L) (hs : ∀ e ∈ L', e ∈ L) :
    AdmList ℓ L' := fun e he => h e (hs e he)

/-! ### the sequential executor -/

theorem dispatch_clamp {s : SeqState σ} {e : Event} (hd : e.dest < M.nLps)
    (ht : e.type < LP_INIT ∨ e = initEv e.dest) : dispatch (clamp M) s e = dispatch M s e := by
  simp only [dispatch, clamp_handler_of (M := M) ⟨hd, ht⟩]

theorem initN_clamp : ∀ n, n ≤ M.nLps → initN (clamp M) n = initN M n
  | 0, _ => rfl
  | n + 1, h => by
    rw [initN_succ, initN_succ, initN_clamp n (by omega)]
    exact dispatch_clamp (show (initEv n).dest < M.nLps from h) (Or.inr rfl)

theorem init_clamp : init (clamp M) = init M := by
  rw [init_eq_initN, init_eq_initN]; exact initN_clamp _ (Nat.le_refl _)

/-- in every sequential run of a `V2` model everything pending is a model event for an existing LP -/
theorem reachable_pendOk {N : SimModel σ} (V : V2 N) {q : SeqState σ} (hq : Reachable N q) :
    ∀ x ∈ q.pending, x.dest < N.nLps ∧ x.type < LP_INIT := by
  induction hq with
  | init =>
    obtain ⟨h1, _, _⟩ := initN_spec N N.nLps
    intro x hx
    rw [init_eq_initN, h1] at hx
    obtain ⟨ℓ, _, hx⟩ := List.mem_flatMap.mp hx
    exact (V _ _ _ x hx).2
  | @step s _ _ hs ih =>
    cases hs with
    | mk e hmem hmin =>
      intro x hx
      rw [dispatch_pending] at hx
      rcases List.mem_append.mp hx with h | h
      · exact ih x (List.mem_of_mem_erase h)
      · exact (V _ _ _ x h).2

/-- every sequential run of `M` is a sequential run of `clamp M` -/
theorem reachable_clamp (V : V2On M) {q : SeqState σ} (hq : Reachable M q) : Reachable (clamp M) q := by
  have V' : V2 (clamp M) := (V2On_iff_clamp M).mp V
  induction hq with
  | init => rw [← init_clamp]; exact Reachable.init
  | @step s _ hr hs ih =>
    cases hs with
    | mk e hmem hmin =>
      have hok := reachable_pendOk V' ih e hmem
      have : dispatch M { s with pending := s.pending.erase e } e =
          dispatch (clamp M) { s with pending := s.pending.erase e } e :=
        (dispatch_clamp (M := M) hok.1 (Or.inl hok.2)).symm
      rw [this]
      exact Reachable.step ih (Step.mk s e hmem hmin)

end RootSim.Spec

namespace RootSim.TW
open RootSim RootSim.Spec

variable {σ : Type} {M : SimModel σ}

theorem Inv.adm {N : SimModel σ} {s : TWState} (I : Inv N s) {ℓ : Nat} (hℓ : ℓ < N.nLps) :
    AdmList ℓ (s.past ℓ) :=
  admList_of_wf (I.head ℓ hℓ) (fun e he => (I.dest ℓ hℓ e he).2)

theorem outsAll_clamp {D : Nat → List Event} (h : ∀ ℓ, ℓ < M.nLps → AdmList ℓ (D ℓ)) :
    outsAll (clamp M) D = outsAll M D := by
  unfold outsAll
  apply flatMap_congr_mem
  intro ℓ hℓ
  exact outs_clamp (M := M) (List.mem_range.mp hℓ) (h ℓ (List.mem_range.mp hℓ))

theorem init_clamp : TW.init (clamp M) = TW.init M := by
  have hp : initPast (clamp M) = initPast M := rfl
  simp only [TW.init, hp]
  rw [outsAll_clamp]
  intro ℓ hℓ e he
  simp only [initPast, hℓ, if_true, List.mem_singleton] at he
  exact Or.inr he

theorem mem_splitUndo_fst (e : Event) (T : List Event) : ∀ x ∈ (splitUndo e T).1, x ∈ T := by
  intro x hx; rw [← splitUndo_append e T]; exact List.mem_append_left _ hx

theorem mem_splitUndo_snd (e : Event) (T : List Event) : ∀ x ∈ (splitUndo e T).2, x ∈ T := by
  intro x hx; rw [← splitUndo_append e T]; exact List.mem_append_right _ hx

/-- a step of `M` from a state that satisfies the invariant of `clamp M` is a step of `clamp M` -/
theorem Step.toClamp {s s' : TWState} (I : Inv (clamp M) s) (h : Step M s s') : Step (clamp M) s s' := by
  cases h with
  | exec ℓ e h T hmem hdest hℓ htype hpast =>
    have hA := I.adm (N := clamp M) hℓ
    rw [hpast] at hA
    have hK : AdmList ℓ (keepOf e h T) := hA.sub (by
      intro x hx
      rcases List.mem_cons.mp hx with hx | hx
      · rw [hx]; simp
      · exact List.mem_cons_of_mem _ (mem_splitUndo_fst e T x hx))
    have hU : AdmList ℓ (undoOf e T) := hA.sub (fun x hx =>
      List.mem_cons_of_mem _ (mem_splitUndo_snd e T x hx))
    have : execResult M s ℓ e h T = execResult (clamp M) s ℓ e h T := by
      simp only [execResult, lpState_clamp hℓ hK, outsFrom_clamp hℓ _ _ hU,
        clamp_handler_of (M := M) ⟨hℓ, Or.inl htype⟩]
    rw [this]
    exact Step.exec s ℓ e h T hmem hdest hℓ htype hpast
  | annihilate o hp ha => exact Step.annihilate s o hp ha
  | antiRollback ℓ o K U ha hpast hK =>
    have hℓ : ℓ < M.nLps := by
      apply Nat.lt_of_not_le
      intro hge
      have := I.out ℓ hge
      rw [hpast] at this
      simp at this
    have hA := I.adm (N := clamp M) hℓ
    rw [hpast] at hA
    have h1 : AdmList ℓ K := hA.sub (fun x hx => List.mem_append_left _ hx)
    have h2 : AdmList ℓ (o :: U) := hA.sub (fun x hx => List.mem_append_right _ hx)
    have : antiRollbackResult M s ℓ o K U = antiRollbackResult (clamp M) s ℓ o K U := by
      simp only [antiRollbackResult, lpState_clamp hℓ h1, outsFrom_clamp hℓ _ _ h2]
    rw [this]
    exact Step.antiRollback s ℓ o K U ha hpast hK

/-- every reachable state of the Time Warp machine of `M` is a reachable state of the machine of `clamp M` -/
theorem reachable_clamp (V : V2On M) {s : TWState} (hr : Reachable M s) : Reachable (clamp M) s := by
  have V' : V2 (clamp M) := (V2On_iff_clamp M).mp V
  induction hr with
  | init => rw [← init_clamp]; exact Reachable.init
  | step _ hs ih => exact Reachable.step ih (hs.toClamp (reachable_inv_V2 V' ih))

end RootSim.TW

namespace RootSim.TWD
open RootSim RootSim.Spec RootSim.TW RootSim.TWG

variable {σ : Type} {M : SimModel σ}

theorem toutsFrom_clamp {ℓ : Nat} (hℓ : ℓ < M.nLps) : ∀ (L : List TEntry) (s : σ), AdmList ℓ (evs L) →
    toutsFrom (clamp M) ℓ s L = toutsFrom M ℓ s L
  | [], _, _ => rfl
  | u :: L, s, h => by
    have he : Admissible M ℓ u.ev := ⟨hℓ, h u.ev (by simp [evs])⟩
    simp only [toutsFrom, clamp_handler_of he]
    rw [toutsFrom_clamp hℓ L _ (fun x hx => h x (by
      simp only [evs, List.map_cons]; exact List.mem_cons_of_mem _ hx))]

theorem toutsAll_clamp {D : Nat → List TEntry} (h : ∀ ℓ, ℓ < M.nLps → AdmList ℓ (evs (D ℓ))) :
    toutsAll (clamp M) D = toutsAll M D := by
  unfold toutsAll
  have : ∀ (L : List Nat), (∀ a ∈ L, a < M.nLps) →
      L.flatMap (fun ℓ => touts (clamp M) ℓ (D ℓ)) = L.flatMap (fun ℓ => touts M ℓ (D ℓ)) := by
    intro L
    induction L with
    | nil => intro _; rfl
    | cons a L ih =>
      intro hL
      rw [List.flatMap_cons, List.flatMap_cons, ih (fun b hb => hL b (List.mem_cons_of_mem _ hb))]
      have ha := hL a (by simp)
      have : touts (clamp M) a (D a) = touts M a (D a) := toutsFrom_clamp (M := M) ha _ _ (h a ha)
      rw [this]
  exact this _ (fun a ha => List.mem_range.mp ha)

theorem init_clamp : TWG.init (clamp M) = TWG.init M := by
  have hp : TWG.initPast (clamp M) = TWG.initPast M := rfl
  simp only [TWG.init, hp]
  rw [toutsAll_clamp]
  intro ℓ hℓ e he
  simp only [TWG.initPast, hℓ, if_true, evs, List.map_cons, List.map_nil, List.mem_singleton] at he
  exact Or.inr he

theorem BInv.adm {N : SimModel σ} {s : TWGState} (I : BInv N s) {ℓ : Nat} (hℓ : ℓ < N.nLps) :
    AdmList ℓ (evs (s.past ℓ)) := by
  apply admList_of_wf
  · have := I.head ℓ hℓ
    cases hp : s.past ℓ with
    | nil => rw [hp] at this; simp at this
    | cons a L =>
      rw [hp] at this
      simp only [List.head?_cons, Option.some.injEq] at this
      simp [evs, this, initEntry]
  · intro e he
    have : e ∈ evs (s.past ℓ).tail := by simpa [evs] using he
    obtain ⟨u, hu, rfl⟩ := List.mem_map.mp this
    exact (I.dest ℓ hℓ u hu).2

theorem admList_evs_sub {ℓ : Nat} {L L' : List TEntry} (h : AdmList ℓ (evs L)) (hs : ∀ u ∈ L', u ∈ L) :
    AdmList ℓ (evs L') := by
  intro e he
  obtain ⟨u, hu, rfl⟩ := List.mem_map.mp he
  exact h u.ev (List.mem_map.mpr ⟨u, hs u hu, rfl⟩)

/-- a step of `M` from a state that satisfies the invariant of `clamp M` is a step of `clamp M` -/
theorem Step.toClamp {s s' : TWGState} (I : BInv (clamp M) s) (h : Step M s s') : Step (clamp M) s s' := by
  cases h with
  | exec ℓ m h T V W hmem hdest hℓ htype hpast hsplit hstop =>
    have hA := I.adm (N := clamp M) hℓ
    rw [hpast] at hA
    have hT : T = T.take (keepLen m.ev T) ++ (V ++ W) := by
      rw [← hsplit]; exact (List.take_append_drop _ _).symm
    have hK : AdmList ℓ (evs (h :: (T.take (keepLen m.ev T) ++ V))) := admList_evs_sub hA (by
      intro u hu
      rcases List.mem_cons.mp hu with hu | hu
      · rw [hu]; simp
      · apply List.mem_cons_of_mem
        rw [hT]
        rcases List.mem_append.mp hu with hu | hu
        · exact List.mem_append_left _ hu
        · exact List.mem_append_right _ (List.mem_append_left _ hu))
    have hU : AdmList ℓ (evs W) := admList_evs_sub hA (by
      intro u hu
      apply List.mem_cons_of_mem
      rw [hT]
      exact List.mem_append_right _ (List.mem_append_right _ hu))
    have : execResult M s ℓ m h (T.take (keepLen m.ev T) ++ V) W =
        execResult (clamp M) s ℓ m h (T.take (keepLen m.ev T) ++ V) W := by
      simp only [execResult, lpState_clamp hℓ hK, toutsFrom_clamp hℓ _ _ hU,
        clamp_handler_of (M := M) ⟨hℓ, Or.inl htype⟩]
    rw [this]
    exact Step.exec s ℓ m h T V W hmem hdest hℓ htype hpast hsplit hstop
  | annihilate o hp ha => exact Step.annihilate s o hp ha
  | antiRollback ℓ o K U ha hpast hK =>
    have hℓ : ℓ < M.nLps := by
      apply Nat.lt_of_not_le
      intro hge
      have := I.out ℓ hge
      rw [hpast] at this
      simp at this
    have hA := I.adm (N := clamp M) hℓ
    rw [hpast] at hA
    have h1 : AdmList ℓ (evs K) := admList_evs_sub hA (fun x hx => List.mem_append_left _ hx)
    have h2 : AdmList ℓ (evs (o :: U)) := admList_evs_sub hA (fun x hx => List.mem_append_right _ hx)
    have : antiRollbackResult M s ℓ o K U = antiRollbackResult (clamp M) s ℓ o K U := by
      simp only [TWG.antiRollbackResult, lpState_clamp hℓ h1, toutsFrom_clamp hℓ _ _ h2]
    rw [this]
    exact Step.antiRollback s ℓ o K U ha hpast hK

/-- every reachable state of the relaxed machine of `M` is a reachable state of the machine of `clamp M` -/
theorem reachable_clamp (V : V2On M) {s : TWGState} (hr : Reachable M s) : Reachable (clamp M) s := by
  have V' : V2 (clamp M) := (V2On_iff_clamp M).mp V
  induction hr with
  | init => rw [← init_clamp]; exact Reachable.init
  | step _ hs ih => exact Reachable.step ih (hs.toClamp (reachable_dinv V' ih).b)

end RootSim.TWD
