import RootSim.Model.Topology
/-! Helper lemmas for the topology model (property C19). -/
namespace RootSim.Topo

/-! ### coordinates -/

theorem lt_U32_of_mul {w h : Nat} (hw : 1 ≤ w) (hh : 1 ≤ h) (hwh : w * h < U32) : w < U32 ∧ h < U32 := by
  have h1 : w * 1 ≤ w * h := Nat.mul_le_mul_left w hh
  have h2 : 1 * h ≤ w * h := Nat.mul_le_mul_right h hw
  omega

/-- inside the grid the C coordinate computation is plain division with remainder -/
theorem coords_of_lt {w h src : Nat} (hw : 1 ≤ w) (hwh : w * h < U32) (hs : src < w * h) :
    coords w src = (src % w, src / w) ∧ src % w < w ∧ src / w < h := by
  have hy : src / w < h := Nat.div_lt_of_lt_mul hs
  have hx : src % w < w := Nat.mod_lt _ (by omega)
  have hdm : w * (src / w) + src % w = src := Nat.div_add_mod src w
  have hc : src / w * w = w * (src / w) := Nat.mul_comm _ _
  refine ⟨?_, hx, hy⟩
  have hyl : src / w ≤ src := Nat.div_le_self _ _
  have e1 : src / w % U32 = src / w := Nat.mod_eq_of_lt (by omega)
  simp only [coords, e1, hc]
  congr 1
  omega

theorem cell_eq_some {w h x y r : Nat} : cell w h x y = some r ↔ x < w ∧ y < h ∧ r = (y * w + x) % U32 := by
  unfold cell
  split
  · simp_all [eq_comm]
  · simp only [reduceCtorEq, false_iff]; omega

theorem cell_isSome {w h x y : Nat} : (cell w h x y).isSome = decide (x < w ∧ y < h) := by
  unfold cell
  split <;> simp_all

theorem cell_eq_none {w h x y : Nat} : cell w h x y = none ↔ ¬ (x < w ∧ y < h) := by
  unfold cell
  split <;> simp_all

theorem lin_lt {w h x y : Nat} (hx : x < w) (hy : y < h) : y * w + x < w * h := by
  have : (y + 1) * w ≤ h * w := Nat.mul_le_mul_right w hy
  rw [Nat.mul_comm w h]
  rw [Nat.add_mul] at this
  omega

theorem cell_lt {w h x y r : Nat} (hwh : w * h < U32) (hc : cell w h x y = some r) : r < w * h := by
  rw [cell_eq_some] at hc
  obtain ⟨hx, hy, rfl⟩ := hc
  have := lin_lt hx hy
  rw [Nat.mod_eq_of_lt (by omega)]
  exact this

/-! ### the Fisher-Yates pass keeps the array a permutation -/

theorem swapAt_perm {a a' : List Nat} {i j : Nat} (h : swapAt a i j = some a') : a'.Perm a := by
  unfold swapAt at h
  split at h
  · rename_i ai aj hi hj
    cases h
    rw [List.perm_iff_count]
    intro x
    obtain ⟨hil, rfl⟩ := List.getElem?_eq_some_iff.mp hi
    obtain ⟨hjl, rfl⟩ := List.getElem?_eq_some_iff.mp hj
    grind
  · cases h

theorem swapAt_isSome {a : List Nat} {i j : Nat} (hi : i < a.length) (hj : j < a.length) :
    ∃ a', swapAt a i j = some a' := by
  unfold swapAt
  rw [List.getElem?_eq_getElem hi, List.getElem?_eq_getElem hj]
  exact ⟨_, rfl⟩

theorem shuffleLoop_perm {a a' : List Nat} {i k : Nat} {js : List Nat}
    (h : shuffleLoop a i k js = some a') : a'.Perm a := by
  induction k generalizing a i js with
  | zero => simp only [shuffleLoop] at h; cases h; exact List.Perm.refl _
  | succ k ih =>
    cases js with
    | nil => simp [shuffleLoop] at h
    | cons j js =>
      simp only [shuffleLoop] at h
      split at h
      · cases h
      · rename_i a1 h1
        exact (ih h).trans (swapAt_perm h1)

theorem shuffle_perm {a a' js : List Nat} (h : shuffle a js = some a') : a'.Perm a := by
  unfold shuffle at h
  split at h
  · exact shuffleLoop_perm h
  · cases h; exact List.Perm.refl _

/-- with `k` draws, all inside the array, the loop runs to completion -/
theorem shuffleLoop_isSome {a : List Nat} {i k : Nat} {js : List Nat}
    (hik : i + k ≤ a.length) (hlen : k ≤ js.length) (hj : ∀ j ∈ js.take k, j < a.length) :
    ∃ a', shuffleLoop a i k js = some a' := by
  induction k generalizing a i js with
  | zero => exact ⟨a, by simp [shuffleLoop]⟩
  | succ k ih =>
    cases js with
    | nil => simp at hlen
    | cons j js =>
      have hjl : j < a.length := hj j (by simp)
      obtain ⟨a1, h1⟩ := swapAt_isSome (a := a) (i := i) (j := j) (by omega) hjl
      have hl : a1.length = a.length := (swapAt_perm h1).length_eq
      simp only [shuffleLoop, h1]
      apply ih
      · omega
      · simpa using hlen
      · intro j' hj'
        rw [hl]
        exact hj j' (by simp [hj'])

theorem shuffle_isSome {a js : List Nat} (hlen : a.length - 1 ≤ js.length)
    (hj : ∀ j ∈ js.take (a.length - 1), j < a.length) : ∃ a', shuffle a js = some a' := by
  unfold shuffle
  split
  · exact shuffleLoop_isSome (by omega) hlen hj
  · exact ⟨a, rfl⟩

/-! ### `firstValid` -/

theorem firstValid_region {fixed : Nat → Option Nat} {l : List Nat} {r : Nat}
    (h : firstValid fixed l = .region r) : ∃ d ∈ l, d ≠ dRANDOM ∧ fixed d = some r := by
  induction l with
  | nil => simp [firstValid] at h
  | cons d ds ih =>
    simp only [firstValid] at h
    by_cases hd : d = dRANDOM
    · simp [hd] at h
    · simp only [hd, if_false] at h
      cases hf : fixed d with
      | some r' =>
        simp only [hf, Recv.region.injEq] at h
        subst h
        exact ⟨d, by simp, hd, hf⟩
      | none =>
        simp only [hf] at h
        obtain ⟨d', hm, h1, h2⟩ := ih h
        exact ⟨d', by simp [hm], h1, h2⟩

theorem firstValid_invalid {fixed : Nat → Option Nat} {l : List Nat}
    (h : firstValid fixed l = .invalid) : ∀ d ∈ l, fixed d = none := by
  induction l with
  | nil => simp
  | cons d ds ih =>
    simp only [firstValid] at h
    split at h
    · cases h
    · split at h
      · cases h
      · rename_i hn
        intro d' hd'
        rcases List.mem_cons.mp hd' with rfl | hm
        · exact hn
        · exact ih h d' hm

theorem firstValid_undef {fixed : Nat → Option Nat} {l : List Nat}
    (h : firstValid fixed l = .undef) : dRANDOM ∈ l := by
  induction l with
  | nil => simp [firstValid] at h
  | cons d ds ih =>
    simp only [firstValid] at h
    split at h
    · rename_i hd; simp [hd]
    · split at h
      · cases h
      · simp [ih h]

theorem firstValid_exists {fixed : Nat → Option Nat} {l : List Nat}
    (hnr : ∀ d ∈ l, d ≠ dRANDOM) (hex : ∃ d ∈ l, fixed d ≠ none) : ∃ r, firstValid fixed l = .region r := by
  cases hfv : firstValid fixed l with
  | region r => exact ⟨r, rfl⟩
  | invalid =>
    obtain ⟨d, hm, hd⟩ := hex
    exact absurd (firstValid_invalid hfv d hm) hd
  | undef => exact absurd rfl (hnr _ (firstValid_undef hfv))

/-! ### fixed directions: which codes can answer, and the answer is a cell of the grid -/

theorem hexFixed_dir {w h src d r : Nat} (hr : hexFixed w h src d = some r) : d ∈ hexDirs := by
  unfold hexFixed at hr
  simp only [List.mem_cons, List.not_mem_nil, or_false]
  split at hr
  repeat' split at hr
  all_goals first | omega | cases hr

theorem hexFixed_lt {w h src d r : Nat} (hwh : w * h < U32) (hr : hexFixed w h src d = some r) : r < w * h := by
  unfold hexFixed at hr
  split at hr
  repeat' split at hr
  all_goals first | exact cell_lt hwh hr | cases hr

theorem sqFixed_dir {w h src d r : Nat} (hr : sqFixed w h src d = some r) : d ∈ sqDirs := by
  unfold sqFixed at hr
  simp only [List.mem_cons, List.not_mem_nil, or_false]
  split at hr
  repeat' split at hr
  all_goals first | omega | cases hr

theorem sqFixed_lt {w h src d r : Nat} (hwh : w * h < U32) (hr : sqFixed w h src d = some r) : r < w * h := by
  unfold sqFixed at hr
  split at hr
  repeat' split at hr
  all_goals first | exact cell_lt hwh hr | cases hr

theorem torFixed_dir {w h src d r : Nat} (hr : torFixed w h src d = some r) : d ∈ sqDirs := by
  unfold torFixed at hr
  simp only [List.mem_cons, List.not_mem_nil, or_false]
  split at hr
  repeat' split at hr
  all_goals first | omega | cases hr



theorem lin_mod_lt {w h x y : Nat} (hwh : w * h < U32) (hx : x < w) (hy : y < h) :
    (y * w + x) % U32 < w * h := by
  have := lin_lt hx hy
  rw [Nat.mod_eq_of_lt (by omega)]
  exact this

theorem torFixed_lt {w h src d r : Nat} (hw : 1 ≤ w) (hh : 1 ≤ h) (hwh : w * h < U32) (hs : src < w * h)
    (hr : torFixed w h src d = some r) : r < w * h := by
  obtain ⟨hc, hx, hy⟩ := coords_of_lt hw hwh hs
  unfold torFixed at hr
  rw [hc] at hr
  simp only at hr
  have hwpos : 0 < w := hw
  have hhpos : 0 < h := hh
  have key : ∀ x' y', x' < w → y' < h → some ((y' * w + x') % U32) = some r → r < w * h := by
    intro x' y' hx' hy' he
    simp only [Option.some.injEq] at he
    subst he
    exact lin_mod_lt hwh hx' hy'
  split at hr
  · exact key _ _ hx (Nat.mod_lt _ hhpos) hr
  split at hr
  · exact key _ _ hx (Nat.mod_lt _ hhpos) hr
  split at hr
  · exact key _ _ (Nat.mod_lt _ hwpos) hy hr
  split at hr
  · exact key _ _ (Nat.mod_lt _ hwpos) hy hr
  · simp only [reduceCtorEq] at hr

/-! ### non-grid geometries -/

theorem meshLoop_region {src r : Nat} {cs : List Nat} (h : meshLoop src cs = .region r) : r ∈ cs ∧ r ≠ src := by
  induction cs with
  | nil => simp [meshLoop] at h
  | cons c cs ih =>
    simp only [meshLoop] at h
    split at h
    · have := ih h; exact ⟨by simp [this.1], this.2⟩
    · simp only [Recv.region.injEq] at h; subst h; exact ⟨by simp, by assumption⟩

theorem meshLoop_exists {src : Nat} {cs : List Nat} (h : ∃ c ∈ cs, c ≠ src) : ∃ r, meshLoop src cs = .region r := by
  induction cs with
  | nil => simp at h
  | cons c cs ih =>
    simp only [meshLoop]
    split
    · rename_i hc
      apply ih
      obtain ⟨c', hm, hne⟩ := h
      rcases List.mem_cons.mp hm with rfl | hm'
      · exact absurd hc hne
      · exact ⟨c', hm', hne⟩
    · exact ⟨c, rfl⟩

theorem graphWalk_region {l bs : List Nat} {r : Nat} (h : graphWalk l bs = .region r) : ∃ n ∈ l, r = n % U32 := by
  induction l generalizing bs with
  | nil => simp [graphWalk] at h
  | cons n rest ih =>
    cases bs with
    | nil => simp [graphWalk] at h
    | cons b bs =>
      simp only [graphWalk] at h
      split at h
      · obtain ⟨n', hm, hr⟩ := ih h
        exact ⟨n', by simp [hm], hr⟩
      · simp only [Recv.region.injEq] at h
        exact ⟨n, by simp, h.symm⟩

theorem graphWalk_exists {l bs : List Nat} (hl : l ≠ []) (hb : l.length ≤ bs.length) :
    ∃ r, graphWalk l bs = .region r := by
  induction l generalizing bs with
  | nil => exact absurd rfl hl
  | cons n rest ih =>
    cases bs with
    | nil => simp at hb
    | cons b bs =>
      simp only [graphWalk]
      split
      · rename_i hc
        exact ih hc.2 (by simpa using hb)
      · exact ⟨_, rfl⟩



theorem getRandomNeighborOrig_region {fixed : Nat → Option Nat} {arr js a : List Nat} {r : Nat}
    (h : getRandomNeighborOrig fixed arr js = (.region r, a)) :
    (∃ d ∈ a, d ≠ dRANDOM ∧ fixed d = some r) ∧ a.Perm arr := by
  unfold getRandomNeighborOrig at h
  split at h
  · simp at h
  · rename_i arr' hsh
    simp only [Prod.mk.injEq] at h
    obtain ⟨h1, rfl⟩ := h
    exact ⟨firstValid_region h1, shuffle_perm hsh⟩

theorem gridRandom_region {hf : Bool} {fixed : Nat → Option Nat} {dirs arr js a : List Nat} {r : Nat}
    (h : gridRandom hf fixed dirs arr js = (.region r, a)) : ∃ d, d ≠ dRANDOM ∧ fixed d = some r := by
  unfold gridRandom at h
  split at h
  · simp only [getRandomNeighbor, Prod.mk.injEq] at h
    have : getRandomNeighborOrig fixed dirs js = (.region r, (getRandomNeighborOrig fixed dirs js).2) := by
      rw [← h.1]
    obtain ⟨⟨d, _, h1, h2⟩, _⟩ := getRandomNeighborOrig_region this
    exact ⟨d, h1, h2⟩
  · obtain ⟨⟨d, _, h1, h2⟩, _⟩ := getRandomNeighborOrig_region h
    exact ⟨d, h1, h2⟩

theorem isNeighbor_hexagon {T : Topo} (hg : T.geom = .hexagon) {src d r : Nat}
    (h : hexFixed T.width T.height src d = some r) : isNeighbor T src r = true := by
  have hd := hexFixed_dir h
  simp only [isNeighbor, hg, List.any_eq_true, List.mem_range, beq_iff_eq]
  refine ⟨d, ?_, by rw [h]; rfl⟩
  simp only [List.mem_cons, List.not_mem_nil, or_false] at hd
  omega

theorem isNeighbor_square {T : Topo} (hg : T.geom = .square) {src d r : Nat}
    (h : sqFixed T.width T.height src d = some r) : isNeighbor T src r = true := by
  have hd := sqFixed_dir h
  simp only [isNeighbor, hg, List.any_eq_true, List.mem_range, beq_iff_eq]
  refine ⟨d, ?_, by rw [h]; rfl⟩
  simp only [List.mem_cons, List.not_mem_nil, or_false] at hd
  omega

theorem isNeighbor_torus {T : Topo} (hg : T.geom = .torus) {src d r : Nat}
    (h : torFixed T.width T.height src d = some r) : isNeighbor T src r = true := by
  have hd := torFixed_dir h
  simp only [isNeighbor, hg, List.any_eq_true, List.mem_range, beq_iff_eq]
  refine ⟨d, ?_, by rw [h]; rfl⟩
  simp only [List.mem_cons, List.not_mem_nil, or_false] at hd
  omega

theorem Recv.ofOption_region {o : Option Nat} {r : Nat} (h : Recv.ofOption o = .region r) : o = some r := by
  cases o <;> simp_all [Recv.ofOption]

theorem grid_case {hf : Bool} {fixed : Nat → Option Nat} {dirs arr rin : List Nat} {d r : Nat}
    {X st st' : Arrays}
    (h : (if d = dRANDOM then ((gridRandom hf fixed dirs arr rin).fst, X)
          else (Recv.ofOption (fixed d), st)) = (Recv.region r, st')) : ∃ d', fixed d' = some r := by
  split at h
  · simp only [Prod.mk.injEq] at h
    obtain ⟨d', _, hd'⟩ := gridRandom_region (hf := hf) (fixed := fixed) (dirs := dirs) (arr := arr) (js := rin)
      (a := (gridRandom hf fixed dirs arr rin).snd) (r := r) (by rw [← h.1])
    exact ⟨d', hd'⟩
  · simp only [Prod.mk.injEq] at h
    exact ⟨d, Recv.ofOption_region h.1⟩

theorem recv_valid_grid {sf hf : Bool} {T : Topo} (hWF : T.WF) {st st' : Arrays} {src d r : Nat} {rin : List Nat}
    (hg : T.geom = .hexagon ∨ T.geom = .square ∨ T.geom = .torus) (hs : src < T.regions)
    (h : getReceiverV sf hf T st src d rin = (.region r, st')) :
    r < T.regions ∧ isNeighbor T src r = true := by
  obtain ⟨hr1, hr2, hgeo⟩ := hWF
  unfold getReceiverV at h
  rw [if_neg (by omega)] at h
  rcases hg with hg | hg | hg
  all_goals
    simp only [hg] at h
    simp only [Topo.WFgeo, hg] at hgeo
    obtain ⟨hw, hh, hreg⟩ := hgeo
    have hwh : T.width * T.height < U32 := by omega
    obtain ⟨d', hd'⟩ := grid_case h
  · exact ⟨by rw [hreg]; exact hexFixed_lt hwh hd', isNeighbor_hexagon hg hd'⟩
  · exact ⟨by rw [hreg]; exact sqFixed_lt hwh hd', isNeighbor_square hg hd'⟩
  · exact ⟨by rw [hreg]; exact torFixed_lt hw hh hwh (by omega) hd', isNeighbor_torus hg hd'⟩

theorem recv_valid_ring {sf hf : Bool} {T : Topo} (hWF : T.WF) {st st' : Arrays} {src d r : Nat} {rin : List Nat}
    (hg : T.geom = .ring) (hs : src < T.regions)
    (h : getReceiverV sf hf T st src d rin = (.region r, st')) :
    r < T.regions ∧ isNeighbor T src r = true := by
  obtain ⟨hr1, hr2, _⟩ := hWF
  unfold getReceiverV at h
  rw [if_neg (by omega)] at h
  simp only [hg, Prod.mk.injEq] at h
  have h1 := Recv.ofOption_region h.1
  unfold ringFixed at h1
  split at h1
  · simp only [Option.some.injEq] at h1
    subst h1
    refine ⟨Nat.mod_lt _ (by omega), ?_⟩
    simp [isNeighbor, hg, ringFixed, enc]
  · simp at h1

theorem bidFixed_E (R s : Nat) : bidFixed R s dE = some (((s + 1) % U64) % R) := rfl
theorem bidFixed_W (R s : Nat) : bidFixed R s dW = some (((s + R + U64 - 1) % U64) % R) := rfl

theorem enc_some (r : Nat) : enc (some r) = r := rfl

theorem isNeighbor_bidring {T : Topo} (hg : T.geom = .bidring) (src to : Nat) :
    isNeighbor T src to =
      (enc (bidFixed T.regions src dE) == to || enc (bidFixed T.regions src dW) == to) := by
  simp only [isNeighbor, hg]

theorem recv_valid_bidring {sf hf : Bool} {T : Topo} (hWF : T.WF) {st st' : Arrays} {src d r : Nat} {rin : List Nat}
    (hg : T.geom = .bidring) (hs : src < T.regions)
    (h : getReceiverV sf hf T st src d rin = (.region r, st')) :
    r < T.regions ∧ isNeighbor T src r = true := by
  obtain ⟨hr1, hr2, _⟩ := hWF
  unfold getReceiverV at h
  rw [if_neg (by omega)] at h
  simp only [hg, Prod.mk.injEq] at h
  have h1 := h.1
  unfold getNeighborBidring at h1
  simp only at h1
  have hpos : 0 < T.regions := hr1
  split at h1
  · simp only [reduceCtorEq] at h1
  · split at h1
    · simp only [Recv.region.injEq] at h1
      subst h1
      refine ⟨Nat.mod_lt _ hpos, ?_⟩
      rw [isNeighbor_bidring hg, bidFixed_E, enc_some, beq_self_eq_true, Bool.true_or]
    · split at h1
      · simp only [Recv.region.injEq] at h1
        subst h1
        refine ⟨Nat.mod_lt _ hpos, ?_⟩
        rw [isNeighbor_bidring hg, bidFixed_W, enc_some, beq_self_eq_true, Bool.or_true]
      · simp only [reduceCtorEq] at h1

theorem recv_valid_mesh {sf hf : Bool} {T : Topo} {st st' : Arrays} {src d r : Nat} {rin : List Nat}
    (hg : T.geom = .fcmesh) (hs : src < T.regions) (hrin : ∀ c ∈ rin, c < T.regions)
    (h : getReceiverV sf hf T st src d rin = (.region r, st')) :
    r < T.regions ∧ isNeighbor T src r = true := by
  unfold getReceiverV at h
  rw [if_neg (by omega)] at h
  simp only [hg, Prod.mk.injEq] at h
  have h1 := h.1
  unfold getNeighborMesh at h1
  split at h1
  · simp at h1
  · split at h1
    · simp at h1
    · have hr := hrin r (meshLoop_region h1).1
      exact ⟨hr, by simp [isNeighbor, hg, hs, hr]⟩

theorem recv_valid_star {sf hf : Bool} {T : Topo} {st st' : Arrays} {src d r : Nat} {rin : List Nat}
    (hg : T.geom = .star) (hs : src < T.regions)
    (hrin : src = 0 → ∃ k, rin.head? = some k ∧ 1 ≤ k ∧ k < T.regions)
    (h : getReceiverV sf hf T st src d rin = (.region r, st')) :
    r < T.regions ∧ isNeighbor T src r = true := by
  unfold getReceiverV at h
  rw [if_neg (by omega)] at h
  simp only [hg, Prod.mk.injEq] at h
  have h1 := h.1
  unfold getNeighborStar at h1
  split at h1
  · simp at h1
  · split at h1
    · rename_i hs0
      obtain ⟨k, hk, hk1, hk2⟩ := hrin hs0
      split at h1
      · simp at h1
      · cases rin with
        | nil => simp at hk
        | cons k' rest =>
          simp only [List.head?_cons, Option.some.injEq] at hk
          simp only [Recv.region.injEq] at h1
          subst hk h1
          refine ⟨hk2, ?_⟩
          simp only [isNeighbor, hg, hs0]
          simp [hk2]
          omega
    · rename_i hs0
      simp only [Recv.region.injEq] at h1
      subst h1
      refine ⟨by omega, ?_⟩
      simp [isNeighbor, hg, hs0, hs]

theorem recv_valid_graph {sf hf : Bool} {T : Topo} (hWF : T.WF) {st st' : Arrays} {src d r : Nat} {rin : List Nat}
    (hg : T.geom = .graph) (hs : src < T.regions)
    (h : getReceiverV sf hf T st src d rin = (.region r, st')) :
    r < T.regions ∧ isNeighbor T src r = true := by
  obtain ⟨hr1, hr2, hgeo⟩ := hWF
  simp only [Topo.WFgeo, hg] at hgeo
  obtain ⟨hlen, hadj⟩ := hgeo
  unfold getReceiverV at h
  rw [if_neg (by omega)] at h
  simp only [hg, Prod.mk.injEq] at h
  have h1 := h.1
  unfold getNeighborGraph at h1
  split at h1
  · simp at h1
  · split at h1
    · simp at h1
    · rename_i l hl
      split at h1
      · simp at h1
      · obtain ⟨n, hn, hrn⟩ := graphWalk_region h1
        have hlm : l ∈ T.adj := List.mem_of_getElem? hl
        have hnr : n < T.regions := hadj l hlm n hn
        rw [Nat.mod_eq_of_lt (by omega)] at hrn
        subst hrn
        refine ⟨hnr, ?_⟩
        simp [isNeighbor, hg, hl, hn]

/-! ### `DIRECTION_RANDOM` on grids: success and failure -/

theorem getRandomNeighborOrig_some {fixed : Nat → Option Nat} {dirs arr js : List Nat}
    (hp : arr.Perm dirs) (hnr : ∀ d ∈ dirs, d ≠ dRANDOM)
    (hlen : dirs.length - 1 ≤ js.length) (hj : ∀ j ∈ js.take (dirs.length - 1), j < dirs.length)
    (hex : ∃ d ∈ dirs, fixed d ≠ none) :
    ∃ r a, getRandomNeighborOrig fixed arr js = (.region r, a) ∧ a.Perm dirs := by
  have hl := hp.length_eq
  obtain ⟨a, ha⟩ := shuffle_isSome (a := arr) (js := js) (by rw [hl]; exact hlen) (by rw [hl]; exact hj)
  have hpa : a.Perm dirs := (shuffle_perm ha).trans hp
  obtain ⟨r, hr⟩ := firstValid_exists (fixed := fixed) (l := a)
    (fun d hd => hnr d (hpa.mem_iff.mp hd))
    (by obtain ⟨d, hd, hv⟩ := hex; exact ⟨d, hpa.mem_iff.mpr hd, hv⟩)
  exact ⟨r, a, by simp only [getRandomNeighborOrig, ha, hr], hpa⟩

theorem firstValid_none {fixed : Nat → Option Nat} {l : List Nat}
    (hnr : ∀ d ∈ l, d ≠ dRANDOM) (hno : ∀ d ∈ l, fixed d = none) : firstValid fixed l = .invalid := by
  cases hfv : firstValid fixed l with
  | invalid => rfl
  | region r =>
    obtain ⟨d, hm, _, hd⟩ := firstValid_region hfv
    rw [hno d hm] at hd
    cases hd
  | undef => exact absurd rfl (hnr _ (firstValid_undef hfv))

theorem getRandomNeighborOrig_none {fixed : Nat → Option Nat} {dirs arr js : List Nat}
    (hp : arr.Perm dirs) (hnr : ∀ d ∈ dirs, d ≠ dRANDOM)
    (hlen : dirs.length - 1 ≤ js.length) (hj : ∀ j ∈ js.take (dirs.length - 1), j < dirs.length)
    (hno : ∀ d ∈ dirs, fixed d = none) :
    ∃ a, getRandomNeighborOrig fixed arr js = (.invalid, a) ∧ a.Perm dirs := by
  have hl := hp.length_eq
  obtain ⟨a, ha⟩ := shuffle_isSome (a := arr) (js := js) (by rw [hl]; exact hlen) (by rw [hl]; exact hj)
  have hpa : a.Perm dirs := (shuffle_perm ha).trans hp
  have hr := firstValid_none (fixed := fixed) (l := a)
    (fun d hd => hnr d (hpa.mem_iff.mp hd)) (fun d hd => hno d (hpa.mem_iff.mp hd))
  exact ⟨a, by simp only [getRandomNeighborOrig, ha, hr], hpa⟩

/-- every outcome of the original `get_random_neighbor` leaves a permutation in the array -/
theorem getRandomNeighborOrig_perm {fixed : Nat → Option Nat} {arr js : List Nat} :
    (getRandomNeighborOrig fixed arr js).2.Perm arr := by
  unfold getRandomNeighborOrig
  split
  · exact List.Perm.refl _
  · rename_i a ha; exact shuffle_perm ha

theorem gridRandom_some {hf : Bool} {fixed : Nat → Option Nat} {dirs arr js : List Nat}
    (hp : arr.Perm dirs) (hnr : ∀ d ∈ dirs, d ≠ dRANDOM)
    (hlen : dirs.length - 1 ≤ js.length) (hj : ∀ j ∈ js.take (dirs.length - 1), j < dirs.length)
    (hex : ∃ d ∈ dirs, fixed d ≠ none) :
    ∃ r, (gridRandom hf fixed dirs arr js).1 = .region r := by
  unfold gridRandom
  split
  · obtain ⟨r, a, h, _⟩ := getRandomNeighborOrig_some (fixed := fixed) (List.Perm.refl dirs) hnr hlen hj hex
    exact ⟨r, by simp only [getRandomNeighbor, h]⟩
  · obtain ⟨r, a, h, _⟩ := getRandomNeighborOrig_some (fixed := fixed) hp hnr hlen hj hex
    exact ⟨r, by simp only [h]⟩

theorem gridRandom_none {hf : Bool} {fixed : Nat → Option Nat} {dirs arr js : List Nat}
    (hp : arr.Perm dirs) (hnr : ∀ d ∈ dirs, d ≠ dRANDOM)
    (hlen : dirs.length - 1 ≤ js.length) (hj : ∀ j ∈ js.take (dirs.length - 1), j < dirs.length)
    (hno : ∀ d ∈ dirs, fixed d = none) :
    (gridRandom hf fixed dirs arr js).1 = .invalid := by
  unfold gridRandom
  split
  · obtain ⟨a, h, _⟩ := getRandomNeighborOrig_none (fixed := fixed) (List.Perm.refl dirs) hnr hlen hj hno
    simp only [getRandomNeighbor, h]
  · obtain ⟨a, h, _⟩ := getRandomNeighborOrig_none (fixed := fixed) hp hnr hlen hj hno
    simp only [h]

theorem gridRandom_perm {hf : Bool} {fixed : Nat → Option Nat} {dirs arr js : List Nat} :
    (gridRandom hf fixed dirs arr js).2.Perm arr := by
  unfold gridRandom
  split
  · exact List.Perm.refl _
  · exact getRandomNeighborOrig_perm

/-! ### `CountDirections`: arithmetic of the closed formulas of the pinned tree -/
/-- number of valid fixed directions of a square-grid cell, and the closed formula of the pinned tree -/
theorem square_count_xy {w h x y : Nat} (hw : w < U32) (hh : h < U32) (hx : x < w) (hy : y < h) :
    let valid :=
      (if (x + 1) % U32 < w ∧ y < h then 1 else 0) + (if (x + U32 - 1) % U32 < w ∧ y < h then 1 else 0) +
      (if x < w ∧ (y + U32 - 1) % U32 < h then 1 else 0) + (if x < w ∧ (y + 1) % U32 < h then 1 else 0)
    let n1 := if x = 0 ∨ x = (w + U32 - 1) % U32 then sub64 4 1 else 4
    let n2 := if y = 0 ∨ y = (h + U32 - 1) % U32 then sub64 n1 1 else n1
    (n2 = valid ↔ 2 ≤ w ∧ 2 ≤ h) := by
  simp only [sub64]
  split <;> split <;> split <;> split <;> split <;> split <;> omega



theorem ite_cases {c : Prop} [Decidable c] (a b : Nat) : (c ∧ (if c then a else b) = a) ∨ (¬ c ∧ (if c then a else b) = b) := by
  by_cases h : c <;> simp [h]

/-- the arithmetic core of the hexagon count (mod-free conditions), rows with `y % 2 = 0` -/
theorem hexagon_count_core_even {w h x y : Nat} (hp : y % 2 = 0) (hx : x < w) (hy : y < h) :
    let valid :=
      (if x + 1 < w then 1 else 0) +
      (if 1 ≤ x then 1 else 0) +
      (if 1 ≤ y ∧ (0 = 0 ∨ x + 1 < w) then 1 else 0) +
      (if 1 ≤ y ∧ (0 = 1 ∨ 1 ≤ x) then 1 else 0) +
      (if y + 1 < h ∧ (0 = 0 ∨ x + 1 < w) then 1 else 0) +
      (if y + 1 < h ∧ (0 = 1 ∨ 1 ≤ x) then 1 else 0)
    let n1 := if y = 0 ∨ y + 1 = h then 6 - (if x = 0 then 1 else 2) else 6
    let n2 := if x = 0 then n1 - (3 - 2 * 0) else n1
    let n3 := if x + 1 = w then n2 - (3 - 2 * (1 - 0)) else n2
    (n3 = valid ↔ ¬ (h = 1 ∨ (h % 2 = 0 ∧ 2 ≤ w ∧ y + 1 = h ∧ (x = 0 ∨ x + 1 = w)))) ∧
      1 ≤ n1 ∧ 1 ≤ n2 ∧ 1 ≤ n3 ∧ n1 ≤ 6 ∧ n2 ≤ 6 ∧ n3 ≤ 6 := by
  intro valid n1 n2 n3
  have e1 := ite_cases (c := x + 1 < w) 1 0
  have e2 := ite_cases (c := 1 ≤ x) 1 0
  have e3 := ite_cases (c := 1 ≤ y ∧ (0 = 0 ∨ x + 1 < w)) 1 0
  have e4 := ite_cases (c := 1 ≤ y ∧ (0 = 1 ∨ 1 ≤ x)) 1 0
  have e5 := ite_cases (c := y + 1 < h ∧ (0 = 0 ∨ x + 1 < w)) 1 0
  have e6 := ite_cases (c := y + 1 < h ∧ (0 = 1 ∨ 1 ≤ x)) 1 0
  have f0 := ite_cases (c := x = 0) 1 2
  have f1 := ite_cases (c := y = 0 ∨ y + 1 = h) (6 - (if x = 0 then 1 else 2)) 6
  have f2 := ite_cases (c := x = 0) (n1 - (3 - 2 * 0)) n1
  have f3 := ite_cases (c := x + 1 = w) (n2 - (3 - 2 * (1 - 0))) n2
  have hn3 : n3 = if x + 1 = w then n2 - (3 - 2 * (1 - 0)) else n2 := rfl
  have hn2 : n2 = if x = 0 then n1 - (3 - 2 * 0) else n1 := rfl
  have hn1 : n1 = if y = 0 ∨ y + 1 = h then 6 - (if x = 0 then 1 else 2) else 6 := rfl
  have hv : valid = (if x + 1 < w then 1 else 0) +
      (if 1 ≤ x then 1 else 0) +
      (if 1 ≤ y ∧ (0 = 0 ∨ x + 1 < w) then 1 else 0) +
      (if 1 ≤ y ∧ (0 = 1 ∨ 1 ≤ x) then 1 else 0) +
      (if y + 1 < h ∧ (0 = 0 ∨ x + 1 < w) then 1 else 0) +
      (if y + 1 < h ∧ (0 = 1 ∨ 1 ≤ x) then 1 else 0) := rfl
  rw [← hn1] at f1
  rw [← hn2] at f2
  rw [← hn3] at f3
  generalize (if x + 1 < w then 1 else 0) = v1 at *
  generalize (if 1 ≤ x then 1 else 0) = v2 at *
  generalize (if 1 ≤ y ∧ (0 = 0 ∨ x + 1 < w) then 1 else 0) = v3 at *
  generalize (if 1 ≤ y ∧ (0 = 1 ∨ 1 ≤ x) then 1 else 0) = v4 at *
  generalize (if y + 1 < h ∧ (0 = 0 ∨ x + 1 < w) then 1 else 0) = v5 at *
  generalize (if y + 1 < h ∧ (0 = 1 ∨ 1 ≤ x) then 1 else 0) = v6 at *
  generalize (if x = 0 then 1 else 2) = k0 at *
  clear hn1 hn2 hn3
  generalize n1 = m1 at *
  generalize n2 = m2 at *
  generalize n3 = m3 at *
  generalize valid = vv at *
  omega

/-- the arithmetic core of the hexagon count (mod-free conditions), rows with `y % 2 = 1` -/
theorem hexagon_count_core_odd {w h x y : Nat} (hp : y % 2 = 1) (hx : x < w) (hy : y < h) :
    let valid :=
      (if x + 1 < w then 1 else 0) +
      (if 1 ≤ x then 1 else 0) +
      (if 1 ≤ y ∧ (1 = 0 ∨ x + 1 < w) then 1 else 0) +
      (if 1 ≤ y ∧ (1 = 1 ∨ 1 ≤ x) then 1 else 0) +
      (if y + 1 < h ∧ (1 = 0 ∨ x + 1 < w) then 1 else 0) +
      (if y + 1 < h ∧ (1 = 1 ∨ 1 ≤ x) then 1 else 0)
    let n1 := if y = 0 ∨ y + 1 = h then 6 - (if x = 0 then 1 else 2) else 6
    let n2 := if x = 0 then n1 - (3 - 2 * 1) else n1
    let n3 := if x + 1 = w then n2 - (3 - 2 * (1 - 1)) else n2
    (n3 = valid ↔ ¬ (h = 1 ∨ (h % 2 = 0 ∧ 2 ≤ w ∧ y + 1 = h ∧ (x = 0 ∨ x + 1 = w)))) ∧
      1 ≤ n1 ∧ 1 ≤ n2 ∧ 1 ≤ n3 ∧ n1 ≤ 6 ∧ n2 ≤ 6 ∧ n3 ≤ 6 := by
  intro valid n1 n2 n3
  have e1 := ite_cases (c := x + 1 < w) 1 0
  have e2 := ite_cases (c := 1 ≤ x) 1 0
  have e3 := ite_cases (c := 1 ≤ y ∧ (1 = 0 ∨ x + 1 < w)) 1 0
  have e4 := ite_cases (c := 1 ≤ y ∧ (1 = 1 ∨ 1 ≤ x)) 1 0
  have e5 := ite_cases (c := y + 1 < h ∧ (1 = 0 ∨ x + 1 < w)) 1 0
  have e6 := ite_cases (c := y + 1 < h ∧ (1 = 1 ∨ 1 ≤ x)) 1 0
  have f0 := ite_cases (c := x = 0) 1 2
  have f1 := ite_cases (c := y = 0 ∨ y + 1 = h) (6 - (if x = 0 then 1 else 2)) 6
  have f2 := ite_cases (c := x = 0) (n1 - (3 - 2 * 1)) n1
  have f3 := ite_cases (c := x + 1 = w) (n2 - (3 - 2 * (1 - 1))) n2
  have hn3 : n3 = if x + 1 = w then n2 - (3 - 2 * (1 - 1)) else n2 := rfl
  have hn2 : n2 = if x = 0 then n1 - (3 - 2 * 1) else n1 := rfl
  have hn1 : n1 = if y = 0 ∨ y + 1 = h then 6 - (if x = 0 then 1 else 2) else 6 := rfl
  have hv : valid = (if x + 1 < w then 1 else 0) +
      (if 1 ≤ x then 1 else 0) +
      (if 1 ≤ y ∧ (1 = 0 ∨ x + 1 < w) then 1 else 0) +
      (if 1 ≤ y ∧ (1 = 1 ∨ 1 ≤ x) then 1 else 0) +
      (if y + 1 < h ∧ (1 = 0 ∨ x + 1 < w) then 1 else 0) +
      (if y + 1 < h ∧ (1 = 1 ∨ 1 ≤ x) then 1 else 0) := rfl
  rw [← hn1] at f1
  rw [← hn2] at f2
  rw [← hn3] at f3
  generalize (if x + 1 < w then 1 else 0) = v1 at *
  generalize (if 1 ≤ x then 1 else 0) = v2 at *
  generalize (if 1 ≤ y ∧ (1 = 0 ∨ x + 1 < w) then 1 else 0) = v3 at *
  generalize (if 1 ≤ y ∧ (1 = 1 ∨ 1 ≤ x) then 1 else 0) = v4 at *
  generalize (if y + 1 < h ∧ (1 = 0 ∨ x + 1 < w) then 1 else 0) = v5 at *
  generalize (if y + 1 < h ∧ (1 = 1 ∨ 1 ≤ x) then 1 else 0) = v6 at *
  generalize (if x = 0 then 1 else 2) = k0 at *
  clear hn1 hn2 hn3
  generalize n1 = m1 at *
  generalize n2 = m2 at *
  generalize n3 = m3 at *
  generalize valid = vv at *
  omega



theorem hex_valid_xy {w h src x y : Nat} (hc : coords w src = (x, y)) :
    hexDirs.countP (fun d => (hexFixed w h src d).isSome) =
      (if (x + 1) % U32 < w ∧ y < h then 1 else 0) +
      (if (x + U32 - 1) % U32 < w ∧ y < h then 1 else 0) +
      (if (x + y % 2) % U32 < w ∧ (y + U32 - 1) % U32 < h then 1 else 0) +
      (if (x + oddm1 y) % U32 < w ∧ (y + U32 - 1) % U32 < h then 1 else 0) +
      (if (x + y % 2) % U32 < w ∧ (y + 1) % U32 < h then 1 else 0) +
      (if (x + oddm1 y) % U32 < w ∧ (y + 1) % U32 < h then 1 else 0) := by
  simp only [List.countP_cons, List.countP_nil, hexFixed, hc, cell_isSome, decide_eq_true_eq,
    Nat.reduceEqDiff, if_true, if_false, Nat.zero_add]
  omega

theorem sq_valid_xy {w h src x y : Nat} (hc : coords w src = (x, y)) :
    sqDirs.countP (fun d => (sqFixed w h src d).isSome) =
      (if (x + 1) % U32 < w ∧ y < h then 1 else 0) + (if (x + U32 - 1) % U32 < w ∧ y < h then 1 else 0) +
      (if x < w ∧ (y + U32 - 1) % U32 < h then 1 else 0) + (if x < w ∧ (y + 1) % U32 < h then 1 else 0) := by
  simp only [List.countP_cons, List.countP_nil, sqFixed, hc, cell_isSome, decide_eq_true_eq,
    Nat.reduceEqDiff, if_true, if_false, Nat.zero_add]
  omega

/-- hexagon: closed formula of the pinned tree vs. number of valid directions, rows with `y % 2 = 0` -/
theorem hexagon_count_xy_even {w h x y : Nat} (hw : w < U32) (hh : h < U32) (hp : y % 2 = 0) (hx : x < w) (hy : y < h) :
    let valid :=
      (if (x + 1) % U32 < w ∧ y < h then 1 else 0) +
      (if (x + U32 - 1) % U32 < w ∧ y < h then 1 else 0) +
      (if (x + y % 2) % U32 < w ∧ (y + U32 - 1) % U32 < h then 1 else 0) +
      (if (x + oddm1 y) % U32 < w ∧ (y + U32 - 1) % U32 < h then 1 else 0) +
      (if (x + y % 2) % U32 < w ∧ (y + 1) % U32 < h then 1 else 0) +
      (if (x + oddm1 y) % U32 < w ∧ (y + 1) % U32 < h then 1 else 0)
    let n1 := if y = 0 ∨ y = (h + U32 - 1) % U32 then sub64 6 (if x = 0 then 1 else 2) else 6
    let n2 := if x = 0 then sub64 n1 ((3 + U32 - 2 * (y % 2)) % U32) else n1
    let n3 := if x = (w + U32 - 1) % U32 then sub64 n2 ((3 + U32 - 2 * (1 - y % 2)) % U32) else n2
    (n3 = valid ↔ ¬ (h = 1 ∨ (h % 2 = 0 ∧ 2 ≤ w ∧ y + 1 = h ∧ (x = 0 ∨ x + 1 = w)))) := by
  intro valid n1 n2 n3
  have c1 : ((x + 1) % U32 < w ∧ y < h) ↔ x + 1 < w := by omega
  have c2 : ((x + U32 - 1) % U32 < w ∧ y < h) ↔ 1 ≤ x := by omega
  have c3 : ((x + 0) % U32 < w ∧ (y + U32 - 1) % U32 < h) ↔ (1 ≤ y ∧ (0 = 0 ∨ x + 1 < w)) := by omega
  have c4 : ((x + oddm1 y) % U32 < w ∧ (y + U32 - 1) % U32 < h) ↔ (1 ≤ y ∧ (0 = 1 ∨ 1 ≤ x)) := by
    unfold oddm1; omega
  have c5 : ((x + 0) % U32 < w ∧ (y + 1) % U32 < h) ↔ (y + 1 < h ∧ (0 = 0 ∨ x + 1 < w)) := by omega
  have c6 : ((x + oddm1 y) % U32 < w ∧ (y + 1) % U32 < h) ↔ (y + 1 < h ∧ (0 = 1 ∨ 1 ≤ x)) := by
    unfold oddm1; omega
  have d1 : (y = 0 ∨ y = (h + U32 - 1) % U32) ↔ (y = 0 ∨ y + 1 = h) := by omega
  have d3 : (x = (w + U32 - 1) % U32) ↔ x + 1 = w := by omega
  have k0 : ∀ a, sub64 6 a = (6 + U64 - a % U64) % U64 := fun a => rfl
  have core := hexagon_count_core_even (w := w) (h := h) hp hx hy
  simp only at core
  simp only [valid, n3, n2, n1, hp]
  simp only [c1, c2, c3, c4, c5, c6, d1, d3]
  have s1 : sub64 6 (if x = 0 then 1 else 2) = 6 - (if x = 0 then 1 else 2) := by
    unfold sub64; split <;> omega
  rw [s1]
  have k2 : (3 + U32 - 2 * 0) % U32 = 3 - 2 * 0 := by omega
  have k3 : (3 + U32 - 2 * (1 - 0)) % U32 = 3 - 2 * (1 - 0) := by omega
  rw [k2, k3]
  obtain ⟨hiff, g1, g2, g3, u1, u2, u3⟩ := core
  have s2 : ∀ n, 1 ≤ n - (3 - 2 * 0) → n ≤ 6 → sub64 n (3 - 2 * 0) = n - (3 - 2 * 0) := by
    intro n h1 h2; unfold sub64; omega
  have s3 : ∀ n, 1 ≤ n - (3 - 2 * (1 - 0)) → n ≤ 6 → sub64 n (3 - 2 * (1 - 0)) = n - (3 - 2 * (1 - 0)) := by
    intro n h1 h2; unfold sub64; omega
  by_cases hx0 : x = 0
  · simp only [hx0, if_true] at g2 g3 u1 u2 hiff ⊢
    rw [s2 _ g2 u1]
    by_cases hxw : 0 + 1 = w
    · simp only [hxw, if_true] at g3 hiff ⊢
      rw [s3 _ g3 u2]
      exact hiff
    · simp only [hxw, if_false] at g3 hiff ⊢
      exact hiff
  · simp only [hx0, if_false] at g2 g3 u1 u2 hiff ⊢
    by_cases hxw : x + 1 = w
    · simp only [hxw, if_true] at g3 hiff ⊢
      rw [s3 _ g3 u2]
      exact hiff
    · simp only [hxw, if_false] at g3 hiff ⊢
      exact hiff

/-- hexagon: closed formula of the pinned tree vs. number of valid directions, rows with `y % 2 = 1` -/
theorem hexagon_count_xy_odd {w h x y : Nat} (hw : w < U32) (hh : h < U32) (hp : y % 2 = 1) (hx : x < w) (hy : y < h) :
    let valid :=
      (if (x + 1) % U32 < w ∧ y < h then 1 else 0) +
      (if (x + U32 - 1) % U32 < w ∧ y < h then 1 else 0) +
      (if (x + y % 2) % U32 < w ∧ (y + U32 - 1) % U32 < h then 1 else 0) +
      (if (x + oddm1 y) % U32 < w ∧ (y + U32 - 1) % U32 < h then 1 else 0) +
      (if (x + y % 2) % U32 < w ∧ (y + 1) % U32 < h then 1 else 0) +
      (if (x + oddm1 y) % U32 < w ∧ (y + 1) % U32 < h then 1 else 0)
    let n1 := if y = 0 ∨ y = (h + U32 - 1) % U32 then sub64 6 (if x = 0 then 1 else 2) else 6
    let n2 := if x = 0 then sub64 n1 ((3 + U32 - 2 * (y % 2)) % U32) else n1
    let n3 := if x = (w + U32 - 1) % U32 then sub64 n2 ((3 + U32 - 2 * (1 - y % 2)) % U32) else n2
    (n3 = valid ↔ ¬ (h = 1 ∨ (h % 2 = 0 ∧ 2 ≤ w ∧ y + 1 = h ∧ (x = 0 ∨ x + 1 = w)))) := by
  intro valid n1 n2 n3
  have c1 : ((x + 1) % U32 < w ∧ y < h) ↔ x + 1 < w := by omega
  have c2 : ((x + U32 - 1) % U32 < w ∧ y < h) ↔ 1 ≤ x := by omega
  have c3 : ((x + 1) % U32 < w ∧ (y + U32 - 1) % U32 < h) ↔ (1 ≤ y ∧ (1 = 0 ∨ x + 1 < w)) := by omega
  have c4 : ((x + oddm1 y) % U32 < w ∧ (y + U32 - 1) % U32 < h) ↔ (1 ≤ y ∧ (1 = 1 ∨ 1 ≤ x)) := by
    unfold oddm1; omega
  have c5 : ((x + 1) % U32 < w ∧ (y + 1) % U32 < h) ↔ (y + 1 < h ∧ (1 = 0 ∨ x + 1 < w)) := by omega
  have c6 : ((x + oddm1 y) % U32 < w ∧ (y + 1) % U32 < h) ↔ (y + 1 < h ∧ (1 = 1 ∨ 1 ≤ x)) := by
    unfold oddm1; omega
  have d1 : (y = 0 ∨ y = (h + U32 - 1) % U32) ↔ (y = 0 ∨ y + 1 = h) := by omega
  have d3 : (x = (w + U32 - 1) % U32) ↔ x + 1 = w := by omega
  have k0 : ∀ a, sub64 6 a = (6 + U64 - a % U64) % U64 := fun a => rfl
  have core := hexagon_count_core_odd (w := w) (h := h) hp hx hy
  simp only at core
  simp only [valid, n3, n2, n1, hp]
  simp only [c1, c2, c3, c4, c5, c6, d1, d3]
  have s1 : sub64 6 (if x = 0 then 1 else 2) = 6 - (if x = 0 then 1 else 2) := by
    unfold sub64; split <;> omega
  rw [s1]
  have k2 : (3 + U32 - 2 * 1) % U32 = 3 - 2 * 1 := by omega
  have k3 : (3 + U32 - 2 * (1 - 1)) % U32 = 3 - 2 * (1 - 1) := by omega
  rw [k2, k3]
  obtain ⟨hiff, g1, g2, g3, u1, u2, u3⟩ := core
  have s2 : ∀ n, 1 ≤ n - (3 - 2 * 1) → n ≤ 6 → sub64 n (3 - 2 * 1) = n - (3 - 2 * 1) := by
    intro n h1 h2; unfold sub64; omega
  have s3 : ∀ n, 1 ≤ n - (3 - 2 * (1 - 1)) → n ≤ 6 → sub64 n (3 - 2 * (1 - 1)) = n - (3 - 2 * (1 - 1)) := by
    intro n h1 h2; unfold sub64; omega
  by_cases hx0 : x = 0
  · simp only [hx0, if_true] at g2 g3 u1 u2 hiff ⊢
    rw [s2 _ g2 u1]
    by_cases hxw : 0 + 1 = w
    · simp only [hxw, if_true] at g3 hiff ⊢
      rw [s3 _ g3 u2]
      exact hiff
    · simp only [hxw, if_false] at g3 hiff ⊢
      exact hiff
  · simp only [hx0, if_false] at g2 g3 u1 u2 hiff ⊢
    by_cases hxw : x + 1 = w
    · simp only [hxw, if_true] at g3 hiff ⊢
      rw [s3 _ g3 u2]
      exact hiff
    · simp only [hxw, if_false] at g3 hiff ⊢
      exact hiff

/-! ### counting and `DIRECTION_RANDOM` -/
theorem hex_count_pos {w h src : Nat}
    (hpos : 0 < (List.range dRANDOM).countP (fun d => (hexFixed w h src d).isSome)) :
    ∃ d ∈ hexDirs, hexFixed w h src d ≠ none := by
  obtain ⟨d, _, hd⟩ := List.countP_pos_iff.mp hpos
  obtain ⟨r, hr⟩ := Option.isSome_iff_exists.mp hd
  exact ⟨d, hexFixed_dir hr, by rw [hr]; simp⟩

theorem hex_count_zero {w h src : Nat}
    (hz : (List.range dRANDOM).countP (fun d => (hexFixed w h src d).isSome) = 0) :
    ∀ d ∈ hexDirs, hexFixed w h src d = none := by
  intro d hd
  have := List.countP_eq_zero.mp hz d (by
    simp only [List.mem_cons, List.not_mem_nil, or_false] at hd
    simp only [List.mem_range]; omega)
  simpa using this

theorem sq_count_pos {w h src : Nat}
    (hpos : 0 < (List.range dNE).countP (fun d => (sqFixed w h src d).isSome)) :
    ∃ d ∈ sqDirs, sqFixed w h src d ≠ none := by
  obtain ⟨d, _, hd⟩ := List.countP_pos_iff.mp hpos
  obtain ⟨r, hr⟩ := Option.isSome_iff_exists.mp hd
  exact ⟨d, sqFixed_dir hr, by rw [hr]; simp⟩

theorem sq_count_zero {w h src : Nat}
    (hz : (List.range dNE).countP (fun d => (sqFixed w h src d).isSome) = 0) :
    ∀ d ∈ sqDirs, sqFixed w h src d = none := by
  intro d hd
  have := List.countP_eq_zero.mp hz d (by
    simp only [List.mem_cons, List.not_mem_nil, or_false] at hd
    simp only [List.mem_range]; omega)
  simpa using this

theorem hexDirs_ne : ∀ d ∈ hexDirs, d ≠ dRANDOM := by decide
theorem sqDirs_ne : ∀ d ∈ sqDirs, d ≠ dRANDOM := by decide

theorem getNeighborBidring_random_exists (R src b : Nat) (rest : List Nat) :
    ∃ r, getNeighborBidring R src dRANDOM (b :: rest) = .region r := by
  unfold getNeighborBidring
  by_cases hb : b = 0
  · exact ⟨((src + R + U64 - 1) % U64) % R, by
      simp only [hb, ne_eq, not_true_eq_false, if_true, if_false, Nat.reduceEqDiff]⟩
  · exact ⟨((src + 1) % U64) % R, by simp only [hb, ne_eq, not_false_eq_true, if_true]⟩

/-- for a fixed direction of the geometry `GetReceiver` is the fixed-direction function, and leaves the arrays alone -/
theorem getReceiverV_fixed (sf hf : Bool) {T : Topo} {st : Arrays} {src d : Nat} (rin : List Nat)
    (hs : src < T.regions) (hd : d ∈ fixedDirs T.geom) :
    getReceiverV sf hf T st src d rin = (.ofOption (recvFixed T src d), st) := by
  unfold getReceiverV
  rw [if_neg (by omega)]
  cases hg : T.geom with
  | hexagon =>
    rw [hg] at hd
    have : d ≠ dRANDOM := hexDirs_ne d hd
    simp only [recvFixed, hg, this, if_false]
  | square =>
    rw [hg] at hd
    have : d ≠ dRANDOM := sqDirs_ne d hd
    simp only [recvFixed, hg, this, if_false]
  | torus =>
    rw [hg] at hd
    have : d ≠ dRANDOM := sqDirs_ne d hd
    simp only [recvFixed, hg, this, if_false]
  | ring =>
    rw [hg] at hd
    simp only [fixedDirs, List.mem_cons, List.not_mem_nil, or_false] at hd
    simp only [recvFixed, hg, hd, if_true]
  | bidring =>
    rw [hg] at hd
    simp only [fixedDirs, List.mem_cons, List.not_mem_nil, or_false] at hd
    rcases hd with rfl | rfl
    · simp only [recvFixed, hg, bidFixed_E, getNeighborBidring, Nat.reduceEqDiff, if_false, if_true, Recv.ofOption]
    · simp only [recvFixed, hg, bidFixed_W, getNeighborBidring, Nat.reduceEqDiff, if_false, if_true, Recv.ofOption]
  | star => rw [hg] at hd; simp [fixedDirs] at hd
  | fcmesh => rw [hg] at hd; simp [fixedDirs] at hd
  | graph => rw [hg] at hd; simp [fixedDirs] at hd

theorem ofOption_ne_invalid (o : Option Nat) : (Recv.ofOption o ≠ .invalid) ↔ o.isSome = true := by
  cases o <;> simp [Recv.ofOption]

/-- `validDirs` is what the property text says: the number of fixed directions `d` for which
`GetReceiver(from, d)` is not `INVALID_DIRECTION` -/
theorem validDirs_spec (sf hf : Bool) {T : Topo} (st : Arrays) {src : Nat} (rin : List Nat) (hs : src < T.regions) :
    validDirs T src =
      (fixedDirs T.geom).countP (fun d => decide ((getReceiverV sf hf T st src d rin).1 ≠ .invalid)) := by
  unfold validDirs
  apply List.countP_congr
  intro d hd
  rw [getReceiverV_fixed sf hf rin hs hd]
  simp only [decide_eq_true_eq, ofOption_ne_invalid]

theorem range8 : List.range 8 = [0, 1, 2, 3, 4, 5, 6, 7] := by decide
theorem range4 : List.range 4 = [0, 1, 2, 3] := by decide

theorem count_eq_validDirs {T : Topo} {src : Nat}
    (hg : T.geom = .hexagon ∨ T.geom = .square ∨ T.geom = .torus ∨ T.geom = .ring ∨ T.geom = .bidring) :
    countDirections T src = validDirs T src := by
  rcases hg with hg | hg | hg | hg | hg
  · simp only [countDirections, validDirs, hg, fixedDirs, recvFixed, range8, List.countP_cons, List.countP_nil]
    have h2 : hexFixed T.width T.height src 2 = none := by simp [hexFixed]
    have h3 : hexFixed T.width T.height src 3 = none := by simp [hexFixed]
    rw [h2, h3]
    simp only [Option.isSome_none, Bool.false_eq_true, if_false]
    omega
  · simp only [countDirections, validDirs, hg, fixedDirs, recvFixed, range4]
  · simp only [countDirections, countDirectionsOrig, validDirs, hg, fixedDirs, recvFixed, List.countP_cons,
      List.countP_nil, torFixed, Nat.reduceEqDiff, if_true, if_false, Option.isSome_some]
  · simp only [countDirections, countDirectionsOrig, validDirs, hg, fixedDirs, recvFixed, List.countP_cons,
      List.countP_nil, ringFixed, if_true, true_or, Option.isSome_some]
  · simp only [countDirections, countDirectionsOrig, validDirs, hg, fixedDirs, recvFixed, List.countP_cons,
      List.countP_nil, bidFixed_E, bidFixed_W, Option.isSome_some, if_true]

/-! ### graphs: `AddTopologyLink` -/
theorem addLink_graph {T T' : Topo} {s t : Nat} {b : Bool} (hg : T.geom = .graph)
    (h : addLink T s t true = some (T', b)) :
    ∃ l, T.adj[s]? = some l ∧ b = true ∧
      T' = { T with adj := T.adj.set s (if t ∈ l then l else l ++ [t]) } := by
  unfold addLink at h
  rw [if_neg (by simp [hg])] at h
  simp only [Bool.not_true, Bool.false_eq_true, if_false] at h
  split at h
  · cases h
  · rename_i l hl
    simp only [Option.some.injEq, Prod.mk.injEq] at h
    exact ⟨l, hl, h.2.symm, h.1.symm⟩

theorem addLink_nbrs {T T' : Topo} {s t : Nat} {b : Bool} (hg : T.geom = .graph)
    (h : addLink T s t true = some (T', b)) :
    s < T.adj.length ∧ T'.geom = .graph ∧ T'.regions = T.regions ∧ T'.adj.length = T.adj.length ∧
    ∀ u, T'.nbrs u = if u = s then (if t ∈ T.nbrs s then T.nbrs s else T.nbrs s ++ [t]) else T.nbrs u := by
  obtain ⟨l, hl, _, rfl⟩ := addLink_graph hg h
  have hlt : s < T.adj.length := (List.getElem?_eq_some_iff.mp hl).1
  refine ⟨hlt, hg, rfl, by simp, ?_⟩
  intro u
  simp only [Topo.nbrs, List.getElem?_set, hl, Option.getD_some]
  by_cases hu : u = s
  · subst hu; simp [hlt]
  · have : ¬ s = u := fun h => hu h.symm
    simp [hu, this]

theorem addLinks_spec {T T' : Topo} {ops : List (Nat × Nat)} (hg : T.geom = .graph)
    (h : addLinks T ops = some T') :
    T'.geom = .graph ∧ T'.regions = T.regions ∧ T'.adj.length = T.adj.length ∧
    ∀ s, ((T.nbrs s).Nodup → (T'.nbrs s).Nodup) ∧ ∀ t, t ∈ T'.nbrs s ↔ (t ∈ T.nbrs s ∨ (s, t) ∈ ops) := by
  induction ops generalizing T with
  | nil =>
    simp only [addLinks, Option.some.injEq] at h
    subst h
    exact ⟨hg, rfl, rfl, fun s => ⟨fun hn => hn, fun t => by simp⟩⟩
  | cons op ops ih =>
    obtain ⟨s0, t0⟩ := op
    simp only [addLinks] at h
    split at h
    · cases h
    · rename_i T1 b h1
      obtain ⟨_, hg1, hr1, hl1, hn1⟩ := addLink_nbrs hg h1
      obtain ⟨hg', hr', hl', hn'⟩ := ih hg1 h
      refine ⟨hg', hr'.trans hr1, hl'.trans hl1, ?_⟩
      intro s
      have hnd1 : (T.nbrs s).Nodup → (T1.nbrs s).Nodup := by
        intro hnd
        rw [hn1 s]
        by_cases hs : s = s0
        · subst hs
          by_cases ht : t0 ∈ T.nbrs s
          · simpa [ht] using hnd
          · simp only [ht, if_true, if_false]
            exact List.nodup_append.mpr ⟨hnd, by simp, by
              intro a ha b hb
              simp only [List.mem_cons, List.not_mem_nil, or_false] at hb
              subst hb
              intro hab; subst hab; exact ht ha⟩
        · simpa [hs] using hnd
      obtain ⟨hnd', hm'⟩ := hn' s
      refine ⟨fun hnd => hnd' (hnd1 hnd), fun t => ?_⟩
      rw [hm' t, hn1 s]
      by_cases hs : s = s0
      · subst hs
        by_cases ht : t0 ∈ T.nbrs s
        · simp only [ht, if_true, List.mem_cons, Prod.mk.injEq, true_and]
          constructor
          · rintro (h | h)
            · exact Or.inl h
            · exact Or.inr (Or.inr h)
          · rintro (h | h | h)
            · exact Or.inl h
            · subst h; exact Or.inl ht
            · exact Or.inr h
        · simp only [ht, if_true, if_false, List.mem_append, List.mem_cons, List.not_mem_nil, or_false,
            Prod.mk.injEq, true_and]
          constructor
          · rintro ((h | h) | h)
            · exact Or.inl h
            · exact Or.inr (Or.inl h)
            · exact Or.inr (Or.inr h)
          · rintro (h | h | h)
            · exact Or.inl (Or.inl h)
            · exact Or.inl (Or.inr h)
            · exact Or.inr h
      · simp only [hs, if_false, List.mem_cons, Prod.mk.injEq, false_and, false_or]

theorem mem_adj_iff {T : Topo} {l : List Nat} : l ∈ T.adj ↔ ∃ s, s < T.adj.length ∧ T.adj[s]? = some l := by
  rw [List.mem_iff_getElem?]
  constructor
  · rintro ⟨s, hs⟩
    exact ⟨s, (List.getElem?_eq_some_iff.mp hs).1, hs⟩
  · rintro ⟨s, _, hs⟩
    exact ⟨s, hs⟩

/-- `AddTopologyLink` used within its contract (`to < regions`) keeps the graph well-formed -/
theorem addLinks_WF {T T' : Topo} {ops : List (Nat × Nat)} (hWF : T.WF) (hg : T.geom = .graph)
    (hops : ∀ op ∈ ops, op.2 < T.regions) (h : addLinks T ops = some T') : T'.WF := by
  obtain ⟨hg', hr', hl', hn'⟩ := addLinks_spec hg h
  obtain ⟨h1, h2, h3⟩ := hWF
  simp only [Topo.WFgeo, hg] at h3
  refine ⟨by omega, by omega, ?_⟩
  simp only [Topo.WFgeo, hg']
  refine ⟨by omega, ?_⟩
  intro l hl t ht
  obtain ⟨s, hs, hls⟩ := mem_adj_iff.mp hl
  have hnb : T'.nbrs s = l := by simp [Topo.nbrs, hls]
  rw [← hnb] at ht
  rcases ((hn' s).2 t).mp ht with hm | hm
  · rw [hr']
    have hs' : s < T.adj.length := by omega
    have : T.nbrs s ∈ T.adj := by
      simp only [Topo.nbrs, List.getElem?_eq_getElem hs', Option.getD_some]
      exact List.getElem_mem hs'
    exact h3.2 _ this t hm
  · rw [hr']; exact hops _ hm

/-- what `vInitializeTopology` returns is well-formed, provided `width * height` fits `unsigned` -/
theorem initTopology_WF {g : Nat} {args : List Nat} {T : Topo} (h : initTopology g args = some T)
    (hfit : ∀ a b, args = [a, b] → a < U32 ∧ b < U32 ∧ b * a < U32) : T.WF := by
  unfold initTopology at h
  split at h
  · cases h
  · rename_i geom _
    split at h
    · rename_i hgrid
      split at h
      · rename_i a b
        obtain ⟨ha, hb, hab⟩ := hfit a b rfl
        simp only [Nat.mod_eq_of_lt ha, Nat.mod_eq_of_lt hb, Nat.mod_eq_of_lt hab] at h
        split at h
        · cases h
        · rename_i hne
          simp only [Option.some.injEq] at h
          subst h
          refine ⟨by simp only; omega, by simp only; omega, ?_⟩
          have hb1 : 1 ≤ b := by
            rcases Nat.eq_zero_or_pos b with h0 | h0
            · subst h0; simp at hne
            · exact h0
          have ha1 : 1 ≤ a := by
            rcases Nat.eq_zero_or_pos a with h0 | h0
            · subst h0; simp at hne
            · exact h0
          rcases hgrid with hgm | hgm | hgm <;> subst hgm <;> (simp only [Topo.WFgeo]; exact ⟨hb1, ha1, trivial⟩)
      · cases h
    · rename_i hgrid
      split at h
      · rename_i a
        by_cases hz : a % U32 = 0
        · simp [hz] at h
        · simp only [hz, if_false, Option.some.injEq] at h
          subst h
          have hlt : a % U32 < U32 := Nat.mod_lt _ (by omega)
          refine ⟨by simp only; omega, by simp only; omega, ?_⟩
          cases geom <;> simp_all [Topo.WFgeo]
      · cases h

/-! ### purity of the random choice -/

/-- with the shuffle on a local copy the arrays are neither read nor written -/
theorem getReceiverV_shufFix (sf : Bool) (T : Topo) (st st' : Arrays) (src d : Nat) (rin : List Nat) :
    (getReceiverV sf true T st src d rin).1 = (getReceiverV sf true T st' src d rin).1 ∧
    (getReceiverV sf true T st src d rin).2 = st := by
  unfold getReceiverV
  split
  · exact ⟨rfl, rfl⟩
  · cases T.geom <;> simp only [gridRandom, if_true] <;> first | exact ⟨trivial, trivial⟩ | (split <;> exact ⟨rfl, rfl⟩)

/-- draws `i, i+1, …` make every swap of the Fisher-Yates pass a no-op -/
theorem shuffleLoop_id (a : List Nat) (i k : Nat) (h : i + k ≤ a.length) :
    shuffleLoop a i k (List.range' i k) = some a := by
  induction k generalizing i with
  | zero => simp [shuffleLoop]
  | succ k ih =>
    have hi : i < a.length := by omega
    have hsw : swapAt a i i = some a := by
      unfold swapAt
      simp only [List.getElem?_eq_getElem hi]
      simp
    simp only [List.range'_succ, shuffleLoop, hsw]
    exact ih (i + 1) (by omega)

theorem shuffle_id (a : List Nat) : shuffle a (List.range' 0 (a.length - 1)) = some a := by
  unfold shuffle
  split
  · exact shuffleLoop_id a 0 _ (by omega)
  · rfl

/-- the original code: if all valid fixed directions lead to the same region, the array contents
cannot matter … -/
theorem getRandomNeighborOrig_coincide {fixed : Nat → Option Nat} {dirs arr arr' js : List Nat}
    (hp : arr.Perm dirs) (hp' : arr'.Perm dirs) (hnr : ∀ d ∈ dirs, d ≠ dRANDOM)
    (hlen : dirs.length - 1 ≤ js.length) (hj : ∀ j ∈ js.take (dirs.length - 1), j < dirs.length)
    (hco : ∀ d1 ∈ dirs, ∀ d2 ∈ dirs, ∀ r1 r2, fixed d1 = some r1 → fixed d2 = some r2 → r1 = r2) :
    (getRandomNeighborOrig fixed arr js).1 = (getRandomNeighborOrig fixed arr' js).1 := by
  by_cases hex : ∃ d ∈ dirs, fixed d ≠ none
  · obtain ⟨r, a, h, hpa⟩ := getRandomNeighborOrig_some (fixed := fixed) hp hnr hlen hj hex
    obtain ⟨r', a', h', hpa'⟩ := getRandomNeighborOrig_some (fixed := fixed) hp' hnr hlen hj hex
    obtain ⟨⟨d, hd, _, hfd⟩, _⟩ := getRandomNeighborOrig_region h
    obtain ⟨⟨d', hd', _, hfd'⟩, _⟩ := getRandomNeighborOrig_region h'
    have := hco d (hpa.mem_iff.mp hd) d' (hpa'.mem_iff.mp hd') r r' hfd hfd'
    rw [h, h', this]
  · have hno : ∀ d ∈ dirs, fixed d = none := by
      intro d hd
      cases hfd : fixed d with
      | none => rfl
      | some r => exact absurd ⟨d, hd, by rw [hfd]; simp⟩ hex
    obtain ⟨a, h, _⟩ := getRandomNeighborOrig_none (fixed := fixed) hp hnr hlen hj hno
    obtain ⟨a', h', _⟩ := getRandomNeighborOrig_none (fixed := fixed) hp' hnr hlen hj hno
    rw [h, h']

/-- … and if two valid fixed directions lead to different regions, there are two reachable array
contents on which the same draws give different receivers -/
theorem getRandomNeighborOrig_differ {fixed : Nat → Option Nat} {dirs : List Nat} {d1 d2 r1 r2 : Nat}
    (hnr : ∀ d ∈ dirs, d ≠ dRANDOM) (h1 : d1 ∈ dirs) (h2 : d2 ∈ dirs)
    (hf1 : fixed d1 = some r1) (hf2 : fixed d2 = some r2) (hne : r1 ≠ r2) :
    ∃ arr arr' js, arr.Perm dirs ∧ arr'.Perm dirs ∧ dirs.length - 1 ≤ js.length ∧
      (∀ j ∈ js.take (dirs.length - 1), j < dirs.length) ∧
      (getRandomNeighborOrig fixed arr js).1 ≠ (getRandomNeighborOrig fixed arr' js).1 := by
  have hp1 : (d1 :: dirs.erase d1).Perm dirs := (List.perm_cons_erase h1).symm
  have hp2 : (d2 :: dirs.erase d2).Perm dirs := (List.perm_cons_erase h2).symm
  have hl1 : (d1 :: dirs.erase d1).length = dirs.length := hp1.length_eq
  have hl2 : (d2 :: dirs.erase d2).length = dirs.length := hp2.length_eq
  refine ⟨d1 :: dirs.erase d1, d2 :: dirs.erase d2, List.range' 0 (dirs.length - 1), hp1, hp2, by simp, ?_, ?_⟩
  · intro j hj
    have := List.mem_of_mem_take hj
    simp only [List.mem_range'_1] at this
    omega
  · have e1 := shuffle_id (d1 :: dirs.erase d1)
    have e2 := shuffle_id (d2 :: dirs.erase d2)
    rw [hl1] at e1
    rw [hl2] at e2
    simp only [getRandomNeighborOrig, e1, e2, firstValid, hnr d1 h1, hnr d2 h2, if_false, hf1, hf2]
    intro h
    exact hne (by simpa using h)

end RootSim.Topo
