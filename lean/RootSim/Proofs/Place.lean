import RootSim.Model.Place
/-!
Helper lemmas for C14 (placement and routing).

The key fact is `partStart_spec`: for a monotone `part_fnc` the macro returns the least index `≥ start`
whose partition id is `≥ part_id` — *whatever* the initial guess `part_id * tot / part_cnt + start` is.
From it the Galois connection `partStart k ≤ g ↔ k ≤ fnc g` (`partStart_le_iff`) follows, and every
range property is a consequence of that connection plus arithmetic facts on `(g - first) * t / m`.
-/
namespace RootSim.Place

/-! ### the two loops -/

theorem loopDownB_spec (c : Nat → Bool) (start : Nat) : ∀ g0, start ≤ g0 →
    start ≤ loopDownB c start g0 ∧ loopDownB c start g0 ≤ g0 ∧
    (∀ g, loopDownB c start g0 < g → g ≤ g0 → c g = true) ∧
    (loopDownB c start g0 = start ∨ c (loopDownB c start g0) = false)
  | 0, h => by
    have : start = 0 := by omega
    subst this
    simp only [loopDownB]
    exact ⟨Nat.le_refl _, Nat.le_refl _, fun g h1 h2 => by omega, by simp⟩
  | g + 1, h => by
    unfold loopDownB
    by_cases hc : (decide (start < g + 1) && c (g + 1)) = true
    · rw [if_pos hc]
      simp only [Bool.and_eq_true, decide_eq_true_eq] at hc
      obtain ⟨h1, h2, h3, h4⟩ := loopDownB_spec c start g (by omega)
      refine ⟨h1, by omega, ?_, h4⟩
      intro x hx hx'
      by_cases e : x = g + 1
      · subst e; exact hc.2
      · exact h3 x hx (by omega)
    · rw [if_neg hc]
      simp only [Bool.and_eq_true, decide_eq_true_eq, not_and, Bool.not_eq_true] at hc
      refine ⟨h, Nat.le_refl _, fun x hx hx' => by omega, ?_⟩
      by_cases e : start < g + 1
      · right; exact hc e
      · left; omega

theorem loopDownB_congr (c c' : Nat → Bool) (start : Nat) : ∀ g0,
    (∀ g, start < g → g ≤ g0 → c g = c' g) → loopDownB c start g0 = loopDownB c' start g0
  | 0, _ => by simp [loopDownB]
  | g + 1, h => by
    unfold loopDownB
    by_cases e : start < g + 1
    · rw [h (g + 1) e (Nat.le_refl _), loopDownB_congr c c' start g (fun x hx hx' => h x hx (by omega))]
    · simp [e]

theorem loopUp_spec (fnc : Nat → Nat) (p : Nat) : ∀ (d g : Nat) (h : ∃ b, g ≤ b ∧ p ≤ fnc b),
    (∃ b, g ≤ b ∧ b ≤ g + d ∧ p ≤ fnc b) →
    g ≤ loopUp fnc p g h ∧ p ≤ fnc (loopUp fnc p g h) ∧ ∀ x, g ≤ x → x < loopUp fnc p g h → fnc x < p
  | 0, g, h, hb => by
    obtain ⟨b, h1, h2, h3⟩ := hb
    have : b = g := by omega
    subst this
    rw [loopUp, dif_neg (by omega)]
    exact ⟨Nat.le_refl _, h3, fun x h1 h2 => by omega⟩
  | d + 1, g, h, hb => by
    rw [loopUp]
    by_cases hlt : fnc g < p
    · rw [dif_pos hlt]
      obtain ⟨b, h1, h2, h3⟩ := hb
      have hne : b ≠ g := by intro e; subst e; omega
      obtain ⟨r1, r2, r3⟩ := loopUp_spec fnc p d (g + 1) (exit_next h hlt) ⟨b, by omega, by omega, h3⟩
      refine ⟨by omega, r2, ?_⟩
      intro x hx hx'
      by_cases e : x = g
      · subst e; exact hlt
      · exact r3 x (by omega) hx'
    · rw [dif_neg hlt]
      exact ⟨Nat.le_refl _, by omega, fun x h1 h2 => by omega⟩

theorem loopUp_spec' (fnc : Nat → Nat) (p g : Nat) (h : ∃ b, g ≤ b ∧ p ≤ fnc b) :
    g ≤ loopUp fnc p g h ∧ p ≤ fnc (loopUp fnc p g h) ∧ ∀ x, g ≤ x → x < loopUp fnc p g h → fnc x < p := by
  obtain ⟨b, h1, h2⟩ := h
  exact loopUp_spec fnc p (b - g) g ⟨b, h1, h2⟩ ⟨b, h1, by omega, h2⟩

/-- monotone on the index space `[start, ∞)` -/
def MonoFrom (fnc : Nat → Nat) (start : Nat) : Prop := ∀ a b, start ≤ a → a ≤ b → fnc a ≤ fnc b

/-- what `partition_start` returns without any assumption on `part_fnc`: an index `≥ start` with
`part_fnc ≥ part_id` whose predecessor (if `> start`… `≥ start`) has `part_fnc < part_id` -/
theorem partStart_local (partId partCnt : Nat) (fnc : Nat → Nat) (start tot : Nat) (hc : 0 < partCnt)
    (hx : CanExit fnc partId) :
    let r := partStart partId partCnt fnc start tot hc hx
    start ≤ r ∧ partId ≤ fnc r ∧ (r = start ∨ fnc (r - 1) < partId) := by
  intro r
  have hd := loopDownB_spec (fun g => decide (partId ≤ fnc g)) start (partId * tot / partCnt + start) (Nat.le_add_left _ _)
  have hu := loopUp_spec' fnc partId _ (hx (loopDownB (fun g => decide (partId ≤ fnc g)) start (partId * tot / partCnt + start)))
  obtain ⟨d1, d2, d3, d4⟩ := hd
  obtain ⟨u1, u2, u3⟩ := hu
  have hr : r = loopUp fnc partId _ (hx (loopDownB (fun g => decide (partId ≤ fnc g)) start (partId * tot / partCnt + start))) := rfl
  rw [← hr] at u1 u2 u3
  refine ⟨by omega, u2, ?_⟩
  generalize loopDownB (fun g => decide (partId ≤ fnc g)) start (partId * tot / partCnt + start) = g1 at *
  by_cases e : r = g1
  · rcases d4 with d4 | d4
    · left; omega
    · simp only [decide_eq_false_iff_not] at d4
      rw [← e] at d4; omega
  · right
    exact u3 (r - 1) (by omega) (by omega)

/-- **`partition_start` returns the least index `≥ start_i` whose partition id is `≥ part_id`**, for
every monotone `part_fnc` for which the second loop can exit. -/
theorem partStart_spec' (partId partCnt : Nat) (fnc : Nat → Nat) (start tot : Nat) (hc : 0 < partCnt)
    (hx : CanExit fnc partId) (hm : MonoFrom fnc start) :
    let r := partStart partId partCnt fnc start tot hc hx
    start ≤ r ∧ partId ≤ fnc r ∧ ∀ g, start ≤ g → partId ≤ fnc g → r ≤ g := by
  intro r
  obtain ⟨h1, h2, h3⟩ := partStart_local partId partCnt fnc start tot hc hx
  refine ⟨h1, h2, ?_⟩
  intro g hg hp
  rcases h3 with h3 | h3
  · have hr : r = partStart partId partCnt fnc start tot hc hx := rfl
    omega
  · apply Nat.le_of_not_lt
    intro hlt
    have hr : r = partStart partId partCnt fnc start tot hc hx := rfl
    rw [← hr] at h3 h1
    have := hm g (r - 1) hg (by omega)
    omega

/-- Galois connection between `partition_start` and `part_fnc` -/
theorem partStart_le_iff (partId partCnt : Nat) (fnc : Nat → Nat) (start tot : Nat) (hc : 0 < partCnt)
    (hx : CanExit fnc partId) (hm : MonoFrom fnc start) (g : Nat) (hg : start ≤ g) :
    partStart partId partCnt fnc start tot hc hx ≤ g ↔ partId ≤ fnc g := by
  obtain ⟨h1, h2, h3⟩ := partStart_spec' partId partCnt fnc start tot hc hx hm
  constructor
  · intro h
    exact Nat.le_trans h2 (hm _ _ h1 h)
  · exact h3 g hg

/-! ### arithmetic of `(g - first) * t / m` -/

theorem lidToRid_mono (first m t : Nat) : MonoFrom (lidToRid first m t) first := by
  intro a b _ hab
  unfold lidToRid
  exact Nat.div_le_div_right (Nat.mul_le_mul_right _ (Nat.sub_le_sub_right hab _))

theorem lidToNid_eq (lps n : Nat) : lidToNid lps n = lidToRid 0 lps n := by
  funext lp
  simp [lidToNid, lidToRid]

theorem lidToRid_first (first m t : Nat) : lidToRid first m t first = 0 := by
  simp [lidToRid]

theorem lidToRid_end (first m t : Nat) (hm : 0 < m) : lidToRid first m t (first + m) = t := by
  unfold lidToRid
  rw [Nat.add_sub_cancel_left, Nat.mul_comm]
  exact Nat.mul_div_cancel _ hm

theorem lidToRid_lt (first m t lp : Nat) (hm : 0 < m) (ht : 0 < t) (h : lp < first + m) :
    lidToRid first m t lp < t := by
  unfold lidToRid
  rw [Nat.div_lt_iff_lt_mul hm]
  have : lp - first < m := by omega
  exact Nat.mul_lt_mul_of_lt_of_le this (Nat.le_refl _) ht |> fun h => by rw [Nat.mul_comm t m]; exact h

/-! ### ranges of one level (threads inside a node; nodes are the instance `first = 0`) -/

section level
variable (first m t : Nat) (hm : 0 < m) (ht : 0 < t)

theorem threadFirst_le_iff (r g : Nat) (hg : first ≤ g) :
    threadFirst first m t hm ht r ≤ g ↔ r ≤ lidToRid first m t g :=
  partStart_le_iff r t _ first m ht _ (lidToRid_mono first m t) g hg

theorem threadFirst_ge (r : Nat) : first ≤ threadFirst first m t hm ht r :=
  (partStart_spec' r t _ first m ht (lidToRid_canExit first hm ht r) (lidToRid_mono first m t)).1

theorem threadFirst_fnc (r : Nat) : r ≤ lidToRid first m t (threadFirst first m t hm ht r) :=
  (partStart_spec' r t _ first m ht (lidToRid_canExit first hm ht r) (lidToRid_mono first m t)).2.1

theorem threadFirst_zero : threadFirst first m t hm ht 0 = first := by
  have h1 := threadFirst_ge first m t hm ht 0
  have h2 := (threadFirst_le_iff first m t hm ht 0 first (Nat.le_refl _)).2 (Nat.zero_le _)
  omega

theorem threadFirst_mono (r r' : Nat) (h : r ≤ r') :
    threadFirst first m t hm ht r ≤ threadFirst first m t hm ht r' := by
  rw [threadFirst_le_iff first m t hm ht r _ (threadFirst_ge first m t hm ht r')]
  exact Nat.le_trans h (threadFirst_fnc first m t hm ht r')

theorem threadFirst_last : threadFirst first m t hm ht t = first + m := by
  have h1 : threadFirst first m t hm ht t ≤ first + m := by
    rw [threadFirst_le_iff first m t hm ht t _ (by omega), lidToRid_end first m t hm]
    exact Nat.le_refl _
  have h2 : ¬ threadFirst first m t hm ht t < first + m := by
    intro h
    have := lidToRid_lt first m t _ hm ht h
    have := threadFirst_fnc first m t hm ht t
    omega
  omega

/-- routing = ownership at one level -/
theorem route_iff (r lp : Nat) (hlp : first ≤ lp) :
    lidToRid first m t lp = r ↔
      threadFirst first m t hm ht r ≤ lp ∧ lp < threadFirst first m t hm ht (r + 1) := by
  have a := threadFirst_le_iff first m t hm ht r lp hlp
  have b := threadFirst_le_iff first m t hm ht (r + 1) lp hlp
  constructor
  · intro h
    refine ⟨a.2 (by omega), ?_⟩
    apply Nat.lt_of_not_le
    intro h'
    have := b.1 h'
    omega
  · rintro ⟨h1, h2⟩
    have := a.1 h1
    have : ¬ (r + 1 ≤ lidToRid first m t lp) := fun h => by have := b.2 h; omega
    omega

/-- every part is non-empty when there are at least as many indexes as parts -/
theorem threadFirst_strict (htm : t ≤ m) (r : Nat) :
    threadFirst first m t hm ht r < threadFirst first m t hm ht (r + 1) := by
  apply Nat.lt_of_not_le
  intro h
  have hge := threadFirst_ge first m t hm ht r
  have h1 := (threadFirst_le_iff first m t hm ht (r + 1) _ hge).1 h
  -- h1 : r + 1 ≤ fnc (threadFirst r); show fnc (threadFirst r) ≤ r
  generalize ha : threadFirst first m t hm ht r = a at *
  by_cases e : a = first
  · subst e
    rw [lidToRid_first] at h1
    omega
  · have hlt : ¬ (threadFirst first m t hm ht r ≤ a - 1) := by omega
    rw [threadFirst_le_iff first m t hm ht r (a - 1) (by omega)] at hlt
    unfold lidToRid at hlt h1
    have hlt' : (a - 1 - first) * t / m < r := by omega
    rw [Nat.div_lt_iff_lt_mul hm] at hlt'
    rw [Nat.le_div_iff_mul_le hm] at h1
    obtain ⟨y, hy⟩ : ∃ y, a - first = y + 1 := ⟨a - first - 1, by omega⟩
    have e1 : a - 1 - first = y := by omega
    rw [e1] at hlt'
    rw [hy, Nat.succ_mul] at h1
    rw [Nat.succ_mul] at h1
    omega

end level

/-! ### nodes = the same level with `first = 0` -/

theorem partStart_congr (partId partCnt : Nat) (fnc fnc' : Nat → Nat) (start tot : Nat) (hc : 0 < partCnt)
    (hx : CanExit fnc partId) (hx' : CanExit fnc' partId) (h : fnc = fnc') :
    partStart partId partCnt fnc start tot hc hx = partStart partId partCnt fnc' start tot hc hx' := by
  subst h; rfl

theorem nodeFirst_eq (lps n : Nat) (hl : 0 < lps) (hn : 0 < n) (k : Nat) :
    nodeFirst lps n hl hn k = threadFirst 0 lps n hl hn k :=
  partStart_congr k n _ _ 0 lps hn _ _ (lidToNid_eq lps n)

theorem lidToNid_lt (lps n lp : Nat) (hn : 0 < n) (h : lp < lps) : lidToNid lps n lp < n := by
  rw [lidToNid_eq]
  exact lidToRid_lt 0 lps n lp (by omega) hn (by omega)

/-- with at least as many LPs as ranks every rank hosts an LP -/
theorem nLpsNode_pos (lps n : Nat) (hl : 0 < lps) (hn : 0 < n) (hnl : n ≤ lps) (k : Nat) :
    0 < nLpsNode lps n hl hn k := by
  unfold nLpsNode
  rw [nodeFirst_eq, nodeFirst_eq]
  have := threadFirst_strict 0 lps n hl hn hnl k
  omega

theorem nodeFirst_add_nLpsNode (lps n : Nat) (hl : 0 < lps) (hn : 0 < n) (k : Nat) :
    nodeFirst lps n hl hn k + nLpsNode lps n hl hn k = nodeFirst lps n hl hn (k + 1) := by
  unfold nLpsNode
  rw [nodeFirst_eq, nodeFirst_eq]
  have := threadFirst_mono 0 lps n hl hn k (k + 1) (by omega)
  omega

/-- with fewer LPs than ranks some rank hosts none (pigeonhole on the monotone `nodeFirst`) -/
theorem exists_empty_rank (lps n : Nat) (hl : 0 < lps) (hn : 0 < n) (hlt : lps < n) :
    ∃ k, k < n ∧ nLpsNode lps n hl hn k = 0 := by
  apply Classical.byContradiction
  intro hno
  have hall : ∀ k, k < n → 0 < nLpsNode lps n hl hn k := by
    intro k hk
    apply Nat.pos_of_ne_zero
    intro e
    exact hno ⟨k, hk, e⟩
  have hge : ∀ k, k ≤ n → k ≤ nodeFirst lps n hl hn k := by
    intro k
    induction k with
    | zero => intro _; exact Nat.zero_le _
    | succ k ih =>
      intro hk
      have := ih (by omega)
      have := hall k (by omega)
      have := nodeFirst_add_nLpsNode lps n hl hn k
      omega
  have h1 := hge n (Nat.le_refl _)
  rw [nodeFirst_eq, threadFirst_last] at h1
  omega

/-! ### fixed-width model -/

theorem scanUp_eq_some (c : Nat → Bool) (lim : Nat) : ∀ (d g r : Nat), r = g + d → r < lim →
    (∀ x, g ≤ x → x < r → c x = true) → c r = false → scanUp c lim g = some r
  | 0, g, r, hr, hlim, _, hc => by
    have : r = g := by omega
    subst this
    rw [scanUp, if_pos hlim, hc]; rfl
  | d + 1, g, r, hr, hlim, hall, hc => by
    rw [scanUp, if_pos (by omega), hall g (Nat.le_refl _) (by omega)]
    simp only [if_true]
    exact scanUp_eq_some c lim d (g + 1) r (by omega) hlim (fun x h1 h2 => hall x (by omega) h2) hc

theorem scanUp_none (c : Nat → Bool) (lim : Nat) : ∀ (d g : Nat), lim ≤ g + d →
    (∀ x, g ≤ x → x < lim → c x = true) → scanUp c lim g = none
  | 0, g, h, _ => by
    rw [scanUp, if_neg (by omega)]
  | d + 1, g, h, hall => by
    rw [scanUp]
    by_cases hg : g < lim
    · rw [if_pos hg, hall g (Nat.le_refl _) hg]
      simp only [if_true]
      exact scanUp_none c lim d (g + 1) (by omega) (fun x h1 h2 => hall x (by omega) h2)
    · rw [if_neg hg]

/-- if the loop condition holds on every `uint64_t` value the loop never exits -/
theorem loopUpU64_nonterm (c : Nat → Bool) (g : Nat) (hg : g ≤ 2 ^ 64)
    (hall : ∀ x, x < 2 ^ 64 → c x = true) : loopUpU64 c g = .error .nonterm := by
  unfold loopUpU64
  rw [scanUp_none c (2 ^ 64) (2 ^ 64) g (by omega) (fun x _ h => hall x h)]
  rw [scanUp_none c g g 0 (by omega) (fun x _ h => hall x (by omega))]

/-- The typed `partition_start` computes what the `Nat` one computes when nothing wraps on the indexes
it touches: `B` bounds the initial guess and the result, `fncU` agrees with `fnc` on `[start, B]`. -/
theorem partStartU64_eq (partId partCnt : Nat) (fnc : Nat → Nat) (fncU : Nat → Int) (start tot B : Nat)
    (hc : 0 < partCnt) (hx : CanExit fnc partId)
    (hs : start < 2 ^ 64) (ht : tot < 2 ^ 64) (hmul : partId * tot < 2 ^ 64)
    (hg0 : partId * tot / partCnt + start ≤ B)
    (hres : partStart partId partCnt fnc start tot hc hx ≤ B) (hB : B < 2 ^ 64)
    (hf : ∀ g, start ≤ g → g ≤ B → fncU g = Int.ofNat (fnc g)) :
    partStartU64 (Int.ofNat partId) partId partCnt fncU start tot
      = .ok (partStart partId partCnt fnc start tot hc hx) := by
  unfold partStartU64
  rw [if_neg (by omega)]
  have e1 : wrap64 tot = tot := Nat.mod_eq_of_lt ht
  have e2 : wrap64 start = start := Nat.mod_eq_of_lt hs
  have e3 : wrap64 (partId * tot) = partId * tot := Nat.mod_eq_of_lt hmul
  have e4 : wrap64 (partId * tot / partCnt + start) = partId * tot / partCnt + start :=
    Nat.mod_eq_of_lt (by omega)
  simp only [e1, e2, e3, e4]
  have hd : loopDownB (fun g => decide (Int.ofNat partId ≤ fncU g)) start (partId * tot / partCnt + start)
      = loopDownB (fun g => decide (partId ≤ fnc g)) start (partId * tot / partCnt + start) := by
    apply loopDownB_congr
    intro g h1 h2
    rw [hf g (by omega) (by omega)]
    simp [Int.ofNat_le]
  rw [hd]
  have hsp := loopDownB_spec (fun g => decide (partId ≤ fnc g)) start (partId * tot / partCnt + start)
    (Nat.le_add_left _ _)
  have hr : partStart partId partCnt fnc start tot hc hx = loopUp fnc partId _
    (hx (loopDownB (fun g => decide (partId ≤ fnc g)) start (partId * tot / partCnt + start))) := rfl
  have hu := loopUp_spec' fnc partId _
    (hx (loopDownB (fun g => decide (partId ≤ fnc g)) start (partId * tot / partCnt + start)))
  rw [← hr] at hu
  generalize loopDownB (fun g => decide (partId ≤ fnc g)) start (partId * tot / partCnt + start) = g1 at *
  generalize partStart partId partCnt fnc start tot hc hx = r at *
  obtain ⟨u1, u2, u3⟩ := hu
  unfold loopUpU64
  rw [scanUp_eq_some (fun g => decide (fncU g < Int.ofNat partId)) (2 ^ 64) (r - g1) g1 r (by omega) (by omega)]
  · intro x h1 h2
    rw [hf x (by omega) (by omega)]
    have := u3 x h1 h2
    simp only [decide_eq_true_eq]
    exact Int.ofNat_lt.2 this
  · rw [hf r (by omega) hres]
    simp only [decide_eq_false_iff_not, Int.not_lt]
    exact Int.ofNat_le.2 u2

theorem toI32_small (x : Nat) (h : x < 2 ^ 31) : toI32 x = Int.ofNat x := by
  unfold toI32
  have : x % 2 ^ 32 = x := Nat.mod_eq_of_lt (by omega)
  simp only [this, if_pos h]

theorem sext32_small (x : Nat) (h : x < 2 ^ 31) : sext32 x = x := by
  unfold sext32
  have : x % 2 ^ 32 = x := Nat.mod_eq_of_lt (by omega)
  simp only [this, if_pos h]

theorem lidToNidU64_eq (lps n lp : Nat) (hl : 0 < lps) (hn : 0 < n) (h31 : n < 2 ^ 31)
    (hov : lps * n < 2 ^ 64) (hlp : lp ≤ lps) :
    lidToNidU64 lps n lp = Int.ofNat (lidToNid lps n lp) := by
  have hlps : lps < 2 ^ 64 := Nat.lt_of_le_of_lt (Nat.le_mul_of_pos_right _ hn) hov
  have hmul : lp * n ≤ lps * n := Nat.mul_le_mul_right _ hlp
  unfold lidToNidU64 lidToNid wrap64
  rw [sext32_small n h31, Nat.mod_eq_of_lt (show lp < 2 ^ 64 by omega), Nat.mod_eq_of_lt hlps,
    Nat.mod_eq_of_lt (show lp * n < 2 ^ 64 by omega)]
  apply toI32_small
  have : lp * n / lps ≤ n := by
    rw [Nat.div_le_iff_le_mul_add_pred hl]
    have : lps * n ≤ lps * n + (lps - 1) := by omega
    omega
  omega

theorem lidToRidU64_eq (first m t lp : Nat) (hm : 0 < m) (ht : 0 < t) (h32 : t < 2 ^ 32)
    (hfm : first + m < 2 ^ 64) (hov : m * t < 2 ^ 64) (h1 : first ≤ lp) (h2 : lp ≤ first + m) :
    lidToRidU64 first m t lp = lidToRid first m t lp := by
  have hmul : (lp - first) * t ≤ m * t := Nat.mul_le_mul_right _ (by omega)
  unfold lidToRidU64 lidToRid wrap64 wrap32
  rw [Nat.mod_eq_of_lt (show lp < 2 ^ 64 by omega), Nat.mod_eq_of_lt (show first < 2 ^ 64 by omega),
    Nat.mod_eq_of_lt (show m < 2 ^ 64 by omega), Nat.mod_eq_of_lt h32]
  have e : (lp + 2 ^ 64 - first) % 2 ^ 64 = lp - first := by
    have : lp + 2 ^ 64 - first = (lp - first) + 2 ^ 64 := by omega
    rw [this, Nat.add_mod_right]
    exact Nat.mod_eq_of_lt (by omega)
  rw [e, Nat.mod_eq_of_lt (show (lp - first) * t < 2 ^ 64 by omega)]
  apply Nat.mod_eq_of_lt
  have : (lp - first) * t / m ≤ t := by
    rw [Nat.div_le_iff_le_mul_add_pred hm]
    have : m * t ≤ m * t + (m - 1) := by omega
    omega
  omega

theorem nodeFirst_le_lps (lps n : Nat) (hl : 0 < lps) (hn : 0 < n) (k : Nat) (hk : k ≤ n) :
    nodeFirst lps n hl hn k ≤ lps := by
  have := threadFirst_mono 0 lps n hl hn k n hk
  rw [threadFirst_last] at this
  rw [nodeFirst_eq]; omega

theorem nodeFirstU64_eq (lps n k : Nat) (hl : 0 < lps) (hn : 0 < n) (h31 : n < 2 ^ 31)
    (hov : lps * n < 2 ^ 64) (hk : k ≤ n) :
    nodeFirstU64 lps n k = .ok (nodeFirst lps n hl hn k) := by
  have hlps : lps < 2 ^ 64 := Nat.lt_of_le_of_lt (Nat.le_mul_of_pos_right _ hn) hov
  have hmul : k * lps ≤ lps * n := by rw [Nat.mul_comm lps n]; exact Nat.mul_le_mul_right _ hk
  unfold nodeFirstU64
  have e0 : wrap64 lps = lps := Nat.mod_eq_of_lt hlps
  rw [e0, if_neg (by omega), toI32_small k (by omega), sext32_small k (by omega), sext32_small n h31]
  unfold nodeFirst
  apply partStartU64_eq k n (lidToNid lps n) (lidToNidU64 lps n) 0 lps lps hn _ (by omega) hlps (by omega)
  · have : k * lps / n ≤ lps := by
      apply Nat.div_le_of_le_mul
      rw [Nat.mul_comm n lps]; exact hmul
    omega
  · exact nodeFirst_le_lps lps n hl hn k hk
  · exact hlps
  · intro g _ hg
    exact lidToNidU64_eq lps n g hl hn h31 hov hg

theorem threadFirst_le_end (first m t : Nat) (hm : 0 < m) (ht : 0 < t) (r : Nat) (hr : r ≤ t) :
    threadFirst first m t hm ht r ≤ first + m := by
  have := threadFirst_mono first m t hm ht r t hr
  rw [threadFirst_last] at this
  exact this

theorem threadFirstU64_eq (first m t r : Nat) (hm : 0 < m) (ht : 0 < t) (h32 : t < 2 ^ 32)
    (hfm : first + m < 2 ^ 64) (hov : m * t < 2 ^ 64) (hr : r ≤ t) :
    threadFirstU64 first m t r = .ok (threadFirst first m t hm ht r) := by
  have hmul : r * m ≤ m * t := by rw [Nat.mul_comm m t]; exact Nat.mul_le_mul_right _ hr
  unfold threadFirstU64
  have e0 : wrap32 t = t := Nat.mod_eq_of_lt h32
  have e1 : wrap64 m = m := Nat.mod_eq_of_lt (by omega)
  have e2 : wrap32 r = r := Nat.mod_eq_of_lt (by omega)
  rw [e0, e1, e2, if_neg (by omega)]
  unfold threadFirst
  apply partStartU64_eq r t (lidToRid first m t) _ first m (first + m) ht _ (by omega) (by omega) (by omega)
  · have : r * m / t ≤ m := by
      apply Nat.div_le_of_le_mul
      rw [Nat.mul_comm t m]; exact hmul
    omega
  · exact threadFirst_le_end first m t hm ht r hr
  · exact hfm
  · intro g h1 h2
    rw [lidToRidU64_eq first m t g hm ht h32 hfm hov h1 h2]

theorem lpGlobalInitU64_eq (lps n t k : Nat) (hl : 0 < lps) (hn : 0 < n) (h31 : n < 2 ^ 31)
    (hov : lps * n < 2 ^ 64) (h32 : t < 2 ^ 32) (hk : k < n) :
    lpGlobalInitU64 lps n t k = lpGlobalInit? lps n t k := by
  have hlps : lps < 2 ^ 64 := Nat.lt_of_le_of_lt (Nat.le_mul_of_pos_right _ hn) hov
  unfold lpGlobalInitU64 lpGlobalInit?
  rw [nodeFirstU64_eq lps n k hl hn h31 hov (by omega), nodeFirstU64_eq lps n (k + 1) hl hn h31 hov (by omega),
    dif_pos ⟨hl, hn⟩]
  have h1 := nodeFirst_add_nLpsNode lps n hl hn k
  have h2 := nodeFirst_le_lps lps n hl hn (k + 1) (by omega)
  have em : wrap64 (nodeFirst lps n hl hn (k + 1) + 2 ^ 64 - nodeFirst lps n hl hn k) = nLpsNode lps n hl hn k := by
    unfold wrap64
    have : nodeFirst lps n hl hn (k + 1) + 2 ^ 64 - nodeFirst lps n hl hn k = nLpsNode lps n hl hn k + 2 ^ 64 := by
      omega
    rw [this, Nat.add_mod_right]
    exact Nat.mod_eq_of_lt (by omega)
  simp only [em]
  have e0 : wrap32 t = t := Nat.mod_eq_of_lt h32
  rw [e0]
  unfold clampThreads
  by_cases hc : nLpsNode lps n hl hn k < t
  · have : wrap32 (nLpsNode lps n hl hn k) = nLpsNode lps n hl hn k := Nat.mod_eq_of_lt (by omega)
    simp only [if_pos hc, this]
  · simp only [if_neg hc]

end RootSim.Place
