import RootSim.Model.Gvt
/-!
# Invariants of the thread-level GVT reduction (C04): counters, stages, the cut lemma
-/
namespace RootSim.Gvt

/-! ### `minL` -/

theorem foldl_min_le_init (l : List Nat) (a : Nat) : l.foldl min a ≤ a := by
  induction l generalizing a with
  | nil => exact Nat.le_refl _
  | cons x xs ih => exact Nat.le_trans (ih (min a x)) (Nat.min_le_left _ _)

theorem foldl_min_le_mem (l : List Nat) (a x : Nat) (h : x ∈ l) : l.foldl min a ≤ x := by
  induction l generalizing a with
  | nil => cases h
  | cons y ys ih =>
    rcases List.mem_cons.mp h with rfl | h
    · exact Nat.le_trans (foldl_min_le_init ys _) (Nat.min_le_right _ _)
    · exact ih _ h

theorem le_foldl_min (l : List Nat) (a b : Nat) (ha : b ≤ a) (h : ∀ x ∈ l, b ≤ x) : b ≤ l.foldl min a := by
  induction l generalizing a with
  | nil => exact ha
  | cons y ys ih =>
    exact ih _ (Nat.le_min.mpr ⟨ha, h y (List.mem_cons_self ..)⟩) (fun x hx => h x (List.mem_cons_of_mem _ hx))

theorem foldl_min_mem (l : List Nat) (a : Nat) : l.foldl min a = a ∨ l.foldl min a ∈ l := by
  induction l generalizing a with
  | nil => left; rfl
  | cons y ys ih =>
    rcases ih (min a y) with h | h
    · rcases Nat.le_total a y with h' | h'
      · left; rw [List.foldl_cons, h, Nat.min_eq_left h']
      · right; rw [List.foldl_cons, h, Nat.min_eq_right h']; exact List.mem_cons_self ..
    · right; exact List.mem_cons_of_mem _ h

theorem minL_le_of_mem {l : List Nat} {x : Nat} (h : x ∈ l) : minL l ≤ x := by
  cases l with
  | nil => cases h
  | cons y ys =>
    rcases List.mem_cons.mp h with rfl | h
    · exact foldl_min_le_init ys _
    · exact foldl_min_le_mem ys _ _ h

theorem le_minL {l : List Nat} {b : Nat} (hne : l ≠ []) (h : ∀ x ∈ l, b ≤ x) : b ≤ minL l := by
  cases l with
  | nil => exact absurd rfl hne
  | cons y ys =>
    exact le_foldl_min ys y b (h y (List.mem_cons_self ..)) (fun x hx => h x (List.mem_cons_of_mem _ hx))

theorem le_minL' {l : List Nat} {b : Nat} (hb : b ≤ INF) (h : ∀ x ∈ l, b ≤ x) : b ≤ minL l := by
  cases l with
  | nil => exact hb
  | cons y ys => exact le_minL (by simp) h

theorem minL_mem {l : List Nat} (hne : l ≠ []) : minL l ∈ l := by
  cases l with
  | nil => exact absurd rfl hne
  | cons y ys =>
    rcases foldl_min_mem ys y with h | h
    · simp only [minL, h]; exact List.mem_cons_self ..
    · exact List.mem_cons_of_mem _ h

/-! ### Per-thread lower bound and the cut value `G` -/

def inBC (t : Th) : Bool := t.phase == .B || t.phase == .C
def inCD (t : Th) : Bool := t.phase == .C || t.phase == .D

/-- what a thread that has not yet written its slot will contribute at the latest:
`min(acc, min pending, cur)` -/
def lb (t : Th) : Nat :=
  match t.cur with
  | some c => min (min t.acc (peek t.pending)) c
  | none => min t.acc (peek t.pending)

/-- contribution of a thread to the cut value: its lower bound while it is in phase B or C (slot not
yet written in this round), its slot `reducing_p[rid]` afterwards -/
def contrib (t : Th) : Nat := if inBC t then lb t else t.r

/-- **the cut value** -/
def G (s : St) : Nat := minL (s.ths.map contrib)

theorem lb_le_acc (t : Th) : lb t ≤ t.acc := by
  unfold lb; split
  · exact Nat.le_trans (Nat.min_le_left _ _) (Nat.min_le_left _ _)
  · exact Nat.min_le_left _ _

theorem lb_le_pending (t : Th) {x : Nat} (h : x ∈ t.pending) : lb t ≤ x := by
  have : peek t.pending ≤ x := minL_le_of_mem h
  unfold lb; split
  · exact Nat.le_trans (Nat.min_le_left _ _) (Nat.le_trans (Nat.min_le_right _ _) this)
  · exact Nat.le_trans (Nat.min_le_right _ _) this

theorem lb_le_cur (t : Th) {c : Nat} (h : t.cur = some c) : lb t ≤ c := by
  unfold lb; rw [h]; exact Nat.min_le_right _ _

theorem le_lb (t : Th) (b : Nat) (hinf : t.acc ≤ INF) (h1 : b ≤ t.acc) (h2 : ∀ x ∈ t.pending, b ≤ x)
    (h3 : ∀ c, t.cur = some c → b ≤ c) : b ≤ lb t := by
  have hp : b ≤ peek t.pending := le_minL' (Nat.le_trans h1 hinf) h2
  unfold lb; split
  · rename_i c hc
    exact Nat.le_min.mpr ⟨Nat.le_min.mpr ⟨h1, hp⟩, h3 c hc⟩
  · exact Nat.le_min.mpr ⟨h1, hp⟩

theorem G_le_contrib {s : St} {t : Th} (h : t ∈ s.ths) : G s ≤ contrib t :=
  minL_le_of_mem (List.mem_map.mpr ⟨t, h, rfl⟩)

theorem le_G {s : St} {b : Nat} (hne : s.ths ≠ []) (h : ∀ t ∈ s.ths, b ≤ contrib t) : b ≤ G s := by
  refine le_minL (by simpa using hne) ?_
  intro x hx
  obtain ⟨t, ht, rfl⟩ := List.mem_map.mp hx
  exact h t ht

theorem G_attained {s : St} (hne : s.ths ≠ []) : ∃ t ∈ s.ths, G s = contrib t := by
  have := minL_mem (l := s.ths.map contrib) (by simpa using hne)
  obtain ⟨t, ht, h⟩ := List.mem_map.mp this
  exact ⟨t, ht, h.symm⟩

theorem mem_set_cases {α : Type} {l : List α} {i : Nat} {a b : α} (h : b ∈ l.set i a) : b = a ∨ b ∈ l := by
  rcases List.mem_or_eq_of_mem_set h with h | h
  · right; exact h
  · left; exact h

theorem mem_set_self {α : Type} {l : List α} {i : Nat} {a : α} (h : i < l.length) : a ∈ l.set i a :=
  List.mem_of_getElem? (List.getElem?_set_self h)

/-- an element of `l` other than the one at index `i` is still in `l.set i a`;
phrased through indices to be usable when elements may be equal -/
theorem mem_set_of_ne {α : Type} {l : List α} {i j : Nat} {a b : α} (hj : l[j]? = some b) (hij : i ≠ j) :
    b ∈ l.set i a :=
  List.mem_of_getElem? (by rw [List.getElem?_set_ne hij]; exact hj)

/-- **Replacing one thread keeps the cut value** if the new contribution is between `G` and the old one. -/
theorem G_set (s : St) (i : Nat) (t t' : Th) (ht : s.ths[i]? = some t) (ths' : List Th)
    (hths : ths' = s.ths.set i t') (s' : St) (hs' : s'.ths = ths')
    (h1 : G s ≤ contrib t') (h2 : contrib t' ≤ contrib t) : G s' = G s := by
  have hi : i < s.ths.length := (List.getElem?_eq_some_iff.mp ht).1
  have hne : s.ths ≠ [] := by intro h; rw [h] at hi; exact Nat.not_lt_zero _ hi
  have hne' : s'.ths ≠ [] := by
    rw [hs', hths]; intro h
    have := congrArg List.length h
    rw [List.length_set] at this; simp only [List.length_nil] at this; omega
  apply Nat.le_antisymm
  · obtain ⟨t0, ht0, hG⟩ := G_attained hne
    obtain ⟨j, hj, hjt⟩ := List.getElem_of_mem ht0
    rw [hG]
    by_cases hij : i = j
    · subst hij
      have : t0 = t := by
        have := (List.getElem?_eq_some_iff.mp ht).2; rw [← hjt, this]
      rw [this]
      refine Nat.le_trans (G_le_contrib (s := s') (t := t') ?_) h2
      rw [hs', hths]; exact mem_set_self hi
    · refine G_le_contrib (s := s') ?_
      rw [hs', hths]
      exact mem_set_of_ne (by rw [List.getElem?_eq_getElem hj, hjt]) hij
  · refine le_G hne' ?_
    intro u hu
    rw [hs', hths] at hu
    rcases mem_set_cases hu with rfl | hu
    · exact h1
    · exact G_le_contrib hu

end RootSim.Gvt

namespace RootSim.Gvt

/-! ### The invariant -/

/-- The four stages of a round `K` (`rd` = number of rounds a thread has completed):
gathering (idle/A/B), all in B/C, all in C/D, and the read window (D, or already done with round `K`). -/
def Stage (s : St) (K : Nat) : Prop :=
  (∀ t ∈ s.ths, (t.phase = .idle ∨ t.phase = .A ∨ t.phase = .B) ∧ t.rd = K) ∨
  (∀ t ∈ s.ths, (t.phase = .B ∨ t.phase = .C) ∧ t.rd = K) ∨
  (∀ t ∈ s.ths, (t.phase = .C ∨ t.phase = .D) ∧ t.rd = K) ∨
  (∀ t ∈ s.ths, (t.phase = .D ∧ t.rd = K) ∨ ((t.phase = .idle ∨ t.phase = .A) ∧ t.rd = K + 1))

/-- the cut is in force: every thread has left phase A of the current round (`c_b = N`), or some
thread is already past phase B (`c_a > 0`) -/
def Active (s : St) : Prop := s.cb = s.ths.length ∨ 0 < s.ca

/-- `g` is a lower bound of everything queued or being processed -/
def Safe (g : Nat) (s : St) : Prop :=
  ∀ t ∈ s.ths, (∀ x ∈ t.pending, g ≤ x) ∧ (∀ c, t.cur = some c → g ≤ c)

structure Inv (s : St) (K : Nat) : Prop where
  nlt : s.ths.length < W32
  cb_eq : s.cb = s.ths.countP inBC
  ca_eq : s.ca = s.ths.countP inCD
  stage : Stage s K
  wrEq : ∀ t ∈ s.ths, t.wr = t.rd + (if t.phase = .D then 1 else 0)
  accInf : ∀ t ∈ s.ths, t.phase ≠ .idle → t.acc ≤ INF
  accCur : ∀ t ∈ s.ths, t.phase ≠ .idle → ∀ c, t.cur = some c → t.acc ≤ c
  rInf : ∀ t ∈ s.ths, t.r ≤ INF
  cutSafe : Active s → ∀ t ∈ s.ths, inBC t = false →
    (∀ x ∈ t.pending, G s ≤ x) ∧ (∀ c, t.cur = some c → G s ≤ c)
  lastInf : s.last ≤ INF
  safeLast : Safe s.last s
  accLast : ∀ t ∈ s.ths, (t.phase = .A ∨ t.phase = .B ∨ t.phase = .C) → s.last ≤ t.acc
  rLast : ∀ t ∈ s.ths, t.phase = .D → s.last ≤ t.r
  lastEq : (∃ t ∈ s.ths, t.rd = K + 1) → (∃ t ∈ s.ths, t.phase = .D) → s.last = gmin s
  logK : ∀ e ∈ s.log, e.1 ≤ K ∧ e.2 ≤ s.last ∧ (e.1 = K → e.2 = s.last ∧ ∃ t ∈ s.ths, t.rd = K + 1)
  logMono : ∀ e ∈ s.log, ∀ e' ∈ s.log, e.1 ≤ e'.1 → e.2 ≤ e'.2

/-- initial states: everybody idle, nothing in progress (queues may hold anything) -/
structure Init (s : St) : Prop where
  nlt : s.ths.length < W32
  idle : ∀ t ∈ s.ths, t.phase = .idle ∧ t.cur = none ∧ t.rd = 0 ∧ t.wr = 0 ∧ t.r ≤ INF
  ca0 : s.ca = 0
  cb0 : s.cb = 0
  last0 : s.last = 0
  log0 : s.log = []

theorem forall_set {α : Type} {l : List α} {i : Nat} {a : α} {P : α → Prop}
    (h : ∀ t ∈ l, P t) (ha : P a) : ∀ t ∈ l.set i a, P t := by
  intro t ht
  rcases mem_set_cases ht with rfl | ht
  · exact ha
  · exact h t ht

theorem countP_zero_all {l : List Th} {p : Th → Bool} (h : l.countP p = 0) : ∀ t ∈ l, p t = false := by
  intro t ht
  have := List.countP_eq_zero.mp h t ht
  simpa using this

theorem countP_len_all {l : List Th} {p : Th → Bool} (h : l.countP p = l.length) : ∀ t ∈ l, p t = true :=
  List.countP_eq_length.mp h

theorem inv_init (s : St) (h : Init s) : Inv s 0 := by
  obtain ⟨nlt, hidle, ca0, cb0, last0, log0⟩ := h
  have hbc : s.ths.countP inBC = 0 := by
    rw [List.countP_eq_zero]; intro t ht; simp [inBC, (hidle t ht).1]
  have hcd : s.ths.countP inCD = 0 := by
    rw [List.countP_eq_zero]; intro t ht; simp [inCD, (hidle t ht).1]
  refine ⟨nlt, by rw [cb0, hbc], by rw [ca0, hcd], Or.inl fun t ht => ⟨Or.inl (hidle t ht).1, (hidle t ht).2.2.1⟩,
    ?_, ?_, ?_, fun t ht => (hidle t ht).2.2.2.2, ?_, by rw [last0]; exact Nat.zero_le _, ?_, ?_, ?_, ?_, ?_, ?_⟩
  · intro t ht; obtain ⟨h1, _, h3, h4, _⟩ := hidle t ht; simp [h1, h3, h4]
  · intro t ht h; exact absurd (hidle t ht).1 h
  · intro t ht h; exact absurd (hidle t ht).1 h
  · intro hact t ht _
    rcases hact with h | h
    · -- c_b = N = 0: no thread
      rw [cb0] at h
      have : s.ths = [] := List.eq_nil_of_length_eq_zero h.symm
      rw [this] at ht; cases ht
    · rw [ca0] at h; exact absurd h (Nat.lt_irrefl _)
  · intro t _; rw [last0]; exact ⟨fun _ _ => Nat.zero_le _, fun _ _ => Nat.zero_le _⟩
  · intro t _ _; rw [last0]; exact Nat.zero_le _
  · intro t _ _; rw [last0]; exact Nat.zero_le _
  · intro ⟨t, ht, h⟩; rw [(hidle t ht).2.2.1] at h; cases h
  · intro e he; rw [log0] at he; cases he
  · intro e he; rw [log0] at he; cases he

/-- if no thread is in phase B or C the cut value is the minimum of the slots -/
theorem G_eq_gmin (s : St) (h : ∀ t ∈ s.ths, inBC t = false) : G s = gmin s := by
  unfold G gmin
  congr 1
  apply List.map_congr_left
  intro t ht
  simp [contrib, h t ht]

/-- with the cut in force, `G` is below everything queued or being processed, on every thread -/
theorem cut_safe_all {s : St} {K : Nat} (h : Inv s K) (ha : Active s) : Safe (G s) s := by
  intro t ht
  cases hbc : inBC t
  · exact h.cutSafe ha t ht hbc
  · have hG : G s ≤ lb t := by
      have := G_le_contrib ht; simpa [contrib, hbc] using this
    exact ⟨fun x hx => Nat.le_trans hG (lb_le_pending t hx), fun c hc => Nat.le_trans hG (lb_le_cur t hc)⟩

end RootSim.Gvt

namespace RootSim.Gvt

theorem stage_set_same {s : St} {K i : Nat} {t t' : Th} (hs : Stage s K) (ht : s.ths[i]? = some t)
    (hp : t'.phase = t.phase) (hr : t'.rd = t.rd) (s' : St) (hs' : s'.ths = s.ths.set i t') : Stage s' K := by
  have htm : t ∈ s.ths := List.mem_of_getElem? ht
  unfold Stage; rw [hs']
  rcases hs with h | h | h | h
  · exact Or.inl (forall_set h (by rw [hp, hr]; exact h t htm))
  · exact Or.inr (Or.inl (forall_set h (by rw [hp, hr]; exact h t htm)))
  · exact Or.inr (Or.inr (Or.inl (forall_set h (by rw [hp, hr]; exact h t htm))))
  · exact Or.inr (Or.inr (Or.inr (forall_set h (by rw [hp, hr]; exact h t htm))))

theorem countP_set_same {l : List Th} {p : Th → Bool} {i : Nat} {t t' : Th} (ht : l[i]? = some t)
    (hp : p t' = p t) : (l.set i t').countP p = l.countP p := by
  have hi : i < l.length := (List.getElem?_eq_some_iff.mp ht).1
  have hgi : l[i] = t := (List.getElem?_eq_some_iff.mp ht).2
  rw [List.countP_set hi, hgi, hp]
  have hpos : p t = true → 0 < l.countP p := fun h => List.countP_pos_iff.mpr ⟨t, List.mem_of_getElem? ht, h⟩
  cases h : p t
  · simp
  · have := hpos h; simp; omega

theorem exists_set_of_exists {l : List Th} {i : Nat} {t t' : Th} {P : Th → Prop} (ht : l[i]? = some t)
    (hP : P t → P t') (h : ∃ u ∈ l, P u) : ∃ u ∈ l.set i t', P u := by
  have hi : i < l.length := (List.getElem?_eq_some_iff.mp ht).1
  obtain ⟨u, hu, hPu⟩ := h
  obtain ⟨j, hj, hju⟩ := List.getElem_of_mem hu
  by_cases hij : i = j
  · subst hij
    have : u = t := by rw [← hju]; exact (List.getElem?_eq_some_iff.mp ht).2
    exact ⟨t', mem_set_self hi, hP (this ▸ hPu)⟩
  · exact ⟨u, mem_set_of_ne (by rw [List.getElem?_eq_getElem hj, hju]) hij, hPu⟩

theorem exists_of_exists_set {l : List Th} {i : Nat} {t t' : Th} {P : Th → Prop} (ht : l[i]? = some t)
    (hP : P t' → P t) (h : ∃ u ∈ l.set i t', P u) : ∃ u ∈ l, P u := by
  obtain ⟨u, hu, hPu⟩ := h
  rcases mem_set_cases hu with rfl | hu
  · exact ⟨t, List.mem_of_getElem? ht, hP hPu⟩
  · exact ⟨u, hu, hPu⟩

theorem gmin_set_same {s : St} {i : Nat} {t t' : Th} (ht : s.ths[i]? = some t) (hr : t'.r = t.r)
    (s' : St) (hs' : s'.ths = s.ths.set i t') : gmin s' = gmin s := by
  unfold gmin; rw [hs', List.map_set, hr]
  congr 1
  have hi : i < s.ths.length := (List.getElem?_eq_some_iff.mp ht).1
  have hgi : s.ths[i] = t := (List.getElem?_eq_some_iff.mp ht).2
  apply List.ext_getElem?
  intro j
  rw [List.getElem?_set]
  by_cases hij : i = j
  · subst hij; simp [hi, hgi]
  · simp [hij]

/-- **Message steps**: one thread changes `acc`, `pending`, `cur` only. -/
theorem inv_msg (s s' : St) (K i : Nat) (t t' : Th) (h : Inv s K) (ht : s.ths[i]? = some t)
    (hs' : s' = { s with ths := s.ths.set i t' })
    (hp : t'.phase = t.phase) (hrd : t'.rd = t.rd) (hwr : t'.wr = t.wr) (hr : t'.r = t.r)
    (hacc : t'.acc ≤ t.acc)
    (hcur : t.phase ≠ .idle → ∀ c, t'.cur = some c → t'.acc ≤ c)
    (hG : Active s → inBC t = true → G s ≤ lb t' ∧ lb t' ≤ lb t)
    (hcut : Active s → inBC t = false → (∀ x ∈ t'.pending, G s ≤ x) ∧ (∀ c, t'.cur = some c → G s ≤ c))
    (hlast : (∀ x ∈ t'.pending, s.last ≤ x) ∧ (∀ c, t'.cur = some c → s.last ≤ c))
    (haccl : (t.phase = .A ∨ t.phase = .B ∨ t.phase = .C) → s.last ≤ t'.acc) :
    Inv s' K ∧ (Active s → G s' = G s) := by
  have htm : t ∈ s.ths := List.mem_of_getElem? ht
  have hi : i < s.ths.length := (List.getElem?_eq_some_iff.mp ht).1
  have hbc : inBC t' = inBC t := by simp [inBC, hp]
  have hcd : inCD t' = inCD t := by simp [inCD, hp]
  have hths : s'.ths = s.ths.set i t' := by rw [hs']
  have hca : s'.ca = s.ca := by rw [hs']
  have hcb : s'.cb = s.cb := by rw [hs']
  have hla : s'.last = s.last := by rw [hs']
  have hlo : s'.log = s.log := by rw [hs']
  have hlen : s'.ths.length = s.ths.length := by rw [hths]; simp
  have hact : Active s' ↔ Active s := by unfold Active; rw [hca, hcb, hlen]
  have hGs : Active s → G s' = G s := by
    intro ha
    cases hb : inBC t
    · refine G_set s i t t' ht _ rfl s' hths ?_ ?_
      · have := G_le_contrib htm; simp only [contrib, hb] at this
        simp only [contrib, hbc, hb, hr]; exact this
      · simp [contrib, hbc, hb, hr]
    · obtain ⟨h1, h2⟩ := hG ha hb
      refine G_set s i t t' ht _ rfl s' hths ?_ ?_
      · simp only [contrib, hbc, hb]; exact h1
      · simp only [contrib, hbc, hb]; exact h2
  obtain ⟨nlt, cb_eq, ca_eq, stage, wrEq, accInf, accCur, rInf, cutSafe, lastInf, safeLast, accLast, rLast,
    lastEq, logK, logMono⟩ := h
  refine ⟨⟨by rw [hlen]; exact nlt, ?_, ?_, stage_set_same stage ht hp hrd s' hths, ?_, ?_, ?_, ?_, ?_,
    by rw [hla]; exact lastInf, ?_, ?_, ?_, ?_, ?_, by rw [hlo]; exact logMono⟩, hGs⟩
  · rw [hcb, hths, countP_set_same ht hbc]; exact cb_eq
  · rw [hca, hths, countP_set_same ht hcd]; exact ca_eq
  · rw [hths]; exact forall_set wrEq (by rw [hwr, hrd, hp]; exact wrEq t htm)
  · rw [hths]; exact forall_set accInf (fun hne => Nat.le_trans hacc (accInf t htm (by rw [← hp]; exact hne)))
  · rw [hths]; exact forall_set accCur (fun hne => hcur (by rw [← hp]; exact hne))
  · rw [hths]; exact forall_set rInf (by rw [hr]; exact rInf t htm)
  · intro ha'
    have ha := hact.mp ha'
    rw [hGs ha, hths]
    intro u hu hub
    rcases mem_set_cases hu with rfl | hu
    · exact hcut ha (by rw [← hbc]; exact hub)
    · exact cutSafe ha u hu hub
  · unfold Safe; rw [hla, hths]; exact forall_set safeLast hlast
  · rw [hla, hths]; exact forall_set accLast (fun hph => haccl (by rw [← hp]; exact hph))
  · rw [hla, hths]; exact forall_set rLast (fun hph => by rw [hr]; exact rLast t htm (by rw [← hp]; exact hph))
  · intro h1 h2
    rw [hla, gmin_set_same ht hr s' hths]
    rw [hths] at h1 h2
    exact lastEq (exists_of_exists_set ht (fun h => by rw [← hrd]; exact h) h1)
      (exists_of_exists_set ht (fun h => by rw [← hp]; exact h) h2)
  · rw [hlo, hla]
    intro e he
    obtain ⟨h1, h2, h3⟩ := logK e he
    refine ⟨h1, h2, fun hk => ⟨(h3 hk).1, ?_⟩⟩
    rw [hths]
    exact exists_set_of_exists ht (fun h => by rw [hrd]; exact h) (h3 hk).2

end RootSim.Gvt

namespace RootSim.Gvt

theorem mem_eraseIdx_or_eq {l : List Nat} {k e x : Nat} (hk : l[k]? = some e) (hx : x ∈ l) :
    x = e ∨ x ∈ l.eraseIdx k := by
  obtain ⟨j, hj, hjx⟩ := List.getElem_of_mem hx
  by_cases hjk : j = k
  · left; subst hjk
    rw [List.getElem?_eq_getElem hj] at hk
    simp only [Option.some.injEq] at hk; rw [← hjx, hk]
  · right; exact List.mem_eraseIdx_iff_getElem.mpr ⟨j, hj, hjk, hjx⟩

theorem inBC_ne_idle {t : Th} (h : inBC t = true) : t.phase ≠ .idle := by
  intro h'; simp [inBC, h'] at h

theorem abc_ne_idle {t : Th} (h : t.phase = .A ∨ t.phase = .B ∨ t.phase = .C) : t.phase ≠ .idle := by
  intro h'; rw [h'] at h; rcases h with h | h | h <;> cases h

theorem inv_extract (s s' : St) (K i k : Nat) (h : Inv s K) (hs : step s (.extract i k) = some s') :
    Inv s' K ∧ (Active s → G s' = G s) := by
  simp only [step] at hs
  split at hs
  · cases hs
  · rename_i t ht
    split at hs
    · rename_i e hcur he
      simp only [Option.some.injEq] at hs
      have htm : t ∈ s.ths := List.mem_of_getElem? ht
      have hep : e ∈ t.pending := List.mem_of_getElem? he
      have hsub : ∀ x ∈ t.pending.eraseIdx k, x ∈ t.pending := fun x hx => List.mem_of_mem_eraseIdx hx
      refine inv_msg s s' K i t _ h ht hs.symm rfl rfl rfl rfl (Nat.min_le_left _ _) ?_ ?_ ?_ ?_ ?_
      · intro _ c hc
        simp only [Option.some.injEq] at hc; subst hc; exact Nat.min_le_right _ _
      · intro _ hb
        have hinf := h.accInf t htm (inBC_ne_idle hb)
        have hGl : G s ≤ lb t := by have := G_le_contrib htm; simpa [contrib, hb] using this
        constructor
        · refine le_lb _ _ (Nat.le_trans (Nat.min_le_left _ _) hinf) ?_ ?_ ?_
          · exact Nat.le_min.mpr ⟨Nat.le_trans hGl (lb_le_acc t), Nat.le_trans hGl (lb_le_pending t hep)⟩
          · intro x hx; exact Nat.le_trans hGl (lb_le_pending t (hsub x hx))
          · intro c hc; simp only [Option.some.injEq] at hc; subst hc
            exact Nat.le_trans hGl (lb_le_pending t hep)
        · refine le_lb t _ hinf ?_ ?_ ?_
          · exact Nat.le_trans (lb_le_acc _) (Nat.min_le_left _ _)
          · intro x hx
            rcases mem_eraseIdx_or_eq he hx with rfl | hx'
            · exact lb_le_cur _ rfl
            · exact lb_le_pending _ hx'
          · intro c hc; rw [hcur] at hc; cases hc
      · intro ha hb
        obtain ⟨h1, _⟩ := h.cutSafe ha t htm hb
        refine ⟨fun x hx => h1 x (hsub x hx), fun c hc => ?_⟩
        simp only [Option.some.injEq] at hc; subst hc; exact h1 _ hep
      · obtain ⟨h1, _⟩ := h.safeLast t htm
        refine ⟨fun x hx => h1 x (hsub x hx), fun c hc => ?_⟩
        simp only [Option.some.injEq] at hc; subst hc; exact h1 _ hep
      · intro hph
        exact Nat.le_min.mpr ⟨h.accLast t htm hph, (h.safeLast t htm).1 e hep⟩
    · cases hs

theorem inv_finish (s s' : St) (K i : Nat) (h : Inv s K) (hs : step s (.finish i) = some s') :
    Inv s' K ∧ (Active s → G s' = G s) := by
  simp only [step] at hs
  split at hs
  · cases hs
  · rename_i t ht
    split at hs
    · rename_i c hc
      simp only [Option.some.injEq] at hs
      have htm : t ∈ s.ths := List.mem_of_getElem? ht
      refine inv_msg s s' K i t _ h ht hs.symm rfl rfl rfl rfl (Nat.le_refl _) ?_ ?_ ?_ ?_ ?_
      · intro _ c' hc'; cases hc'
      · intro _ hb
        have hGl : G s ≤ lb t := by have := G_le_contrib htm; simpa [contrib, hb] using this
        have hac := h.accCur t htm (inBC_ne_idle hb) c hc
        have e1 : lb t = min (min t.acc (peek t.pending)) c := by unfold lb; rw [hc]
        have e2 : lb { t with cur := none } = min t.acc (peek t.pending) := by unfold lb; rfl
        rw [e2]
        constructor
        · rw [e1] at hGl; exact Nat.le_trans hGl (Nat.min_le_left _ _)
        · rw [e1]; exact Nat.le_min.mpr ⟨Nat.le_refl _, Nat.le_trans (Nat.min_le_left _ _) hac⟩
      · intro ha hb
        exact ⟨(h.cutSafe ha t htm hb).1, fun c' hc' => by cases hc'⟩
      · exact ⟨(h.safeLast t htm).1, fun c' hc' => by cases hc'⟩
      · exact h.accLast t htm
    · cases hs

theorem inv_emit (s s' : St) (K i u x : Nat) (h : Inv s K) (hs : step s (.emit i u x) = some s') :
    Inv s' K ∧ (Active s → G s' = G s) := by
  simp only [step] at hs
  split at hs
  · rename_i t tu ht htu
    split at hs
    · rename_i c hc
      split at hs
      · rename_i hcx
        simp only [Option.some.injEq] at hs
        have htm : t ∈ s.ths := List.mem_of_getElem? ht
        have htum : tu ∈ s.ths := List.mem_of_getElem? htu
        have hlastx : s.last ≤ x := Nat.le_trans ((h.safeLast t htm).2 c hc) hcx
        have hGx : Active s → G s ≤ x := fun ha => Nat.le_trans ((cut_safe_all h ha t htm).2 c hc) hcx
        refine inv_msg s s' K u tu _ h htu hs.symm rfl rfl rfl rfl (Nat.le_refl _) ?_ ?_ ?_ ?_ ?_
        · intro hne c' hc'; exact h.accCur tu htum hne c' hc'
        · intro ha hb
          have hinf := h.accInf tu htum (inBC_ne_idle hb)
          have hGl : G s ≤ lb tu := by have := G_le_contrib htum; simpa [contrib, hb] using this
          constructor
          · refine le_lb _ _ hinf (Nat.le_trans hGl (lb_le_acc tu)) ?_ ?_
            · intro y hy
              rcases List.mem_cons.mp hy with rfl | hy
              · exact hGx ha
              · exact Nat.le_trans hGl (lb_le_pending tu hy)
            · intro c' hc'; exact Nat.le_trans hGl (lb_le_cur tu hc')
          · refine le_lb tu _ hinf (lb_le_acc _) ?_ ?_
            · intro y hy; exact lb_le_pending _ (List.mem_cons_of_mem _ hy)
            · intro c' hc'; exact lb_le_cur _ hc'
        · intro ha hb
          obtain ⟨h1, h2⟩ := h.cutSafe ha tu htum hb
          refine ⟨fun y hy => ?_, h2⟩
          rcases List.mem_cons.mp hy with rfl | hy
          · exact hGx ha
          · exact h1 y hy
        · obtain ⟨h1, h2⟩ := h.safeLast tu htum
          refine ⟨fun y hy => ?_, h2⟩
          rcases List.mem_cons.mp hy with rfl | hy
          · exact hlastx
          · exact h1 y hy
        · exact h.accLast tu htum
      · cases hs
    · cases hs
  · cases hs

end RootSim.Gvt

namespace RootSim.Gvt

/-- **Phase steps other than D**: one thread changes `phase`, `acc`, `r`, `wr`; counters change. -/
theorem inv_phase (s s' : St) (K i : Nat) (t t' : Th) (ca' cb' : Nat) (h : Inv s K) (ht : s.ths[i]? = some t)
    (hs' : s' = { s with ths := s.ths.set i t', ca := ca', cb := cb' })
    (hrd : t'.rd = t.rd) (hpend : t'.pending = t.pending) (hcurr : t'.cur = t.cur)
    (hcb : cb' = (s.ths.set i t').countP inBC) (hca : ca' = (s.ths.set i t').countP inCD)
    (hstage : Stage s' K)
    (hwr : t'.wr = t'.rd + (if t'.phase = .D then 1 else 0))
    (haccInf : t'.phase ≠ .idle → t'.acc ≤ INF)
    (haccCur : t'.phase ≠ .idle → ∀ c, t'.cur = some c → t'.acc ≤ c)
    (hrInf : t'.r ≤ INF)
    (hcut : Active s' → (∀ u ∈ s'.ths, inBC u = true) ∨ (Active s ∧ G s' = G s))
    (haccLast : (t'.phase = .A ∨ t'.phase = .B ∨ t'.phase = .C) → s.last ≤ t'.acc)
    (hrLast : t'.phase = .D → s.last ≤ t'.r)
    (hlastEq : (∃ u ∈ s'.ths, u.rd = K + 1) → (∃ u ∈ s'.ths, u.phase = .D) → s.last = gmin s') :
    Inv s' K := by
  have htm : t ∈ s.ths := List.mem_of_getElem? ht
  have hths : s'.ths = s.ths.set i t' := by rw [hs']
  have hla : s'.last = s.last := by rw [hs']
  have hlo : s'.log = s.log := by rw [hs']
  have hlen : s'.ths.length = s.ths.length := by rw [hths]; simp
  refine ⟨by rw [hlen]; exact h.nlt, by rw [hs']; exact hcb, by rw [hs']; exact hca, hstage, ?_, ?_, ?_, ?_, ?_,
    by rw [hla]; exact h.lastInf, ?_, ?_, ?_, ?_, ?_, by rw [hlo]; exact h.logMono⟩
  · rw [hths]; exact forall_set h.wrEq hwr
  · rw [hths]; exact forall_set h.accInf haccInf
  · rw [hths]; exact forall_set h.accCur haccCur
  · rw [hths]; exact forall_set h.rInf hrInf
  · intro ha'
    rcases hcut ha' with hall | ⟨ha, hG⟩
    · intro u hu hub; rw [hall u hu] at hub; cases hub
    · rw [hG, hths]
      intro u hu hub
      rcases mem_set_cases hu with rfl | hu
      · rw [hpend, hcurr]; exact cut_safe_all h ha t htm
      · exact h.cutSafe ha u hu hub
  · unfold Safe; rw [hla, hths]
    exact forall_set h.safeLast (by rw [hpend, hcurr]; exact h.safeLast t htm)
  · rw [hla, hths]; exact forall_set h.accLast haccLast
  · rw [hla, hths]; exact forall_set h.rLast hrLast
  · rw [hla]; exact hlastEq
  · rw [hlo, hla]
    intro e he
    obtain ⟨h1, h2, h3⟩ := h.logK e he
    refine ⟨h1, h2, fun hk => ⟨(h3 hk).1, ?_⟩⟩
    rw [hths]
    exact exists_set_of_exists ht (fun h => by rw [hrd]; exact h) (h3 hk).2

/-- when the last thread has left phase D the read window of round `K` is over: same state, round `K+1` -/
theorem inv_relabel (s : St) (K : Nat) (h : Inv s K)
    (hall : ∀ t ∈ s.ths, (t.phase = .idle ∨ t.phase = .A) ∧ t.rd = K + 1) : Inv s (K + 1) := by
  obtain ⟨nlt, cb_eq, ca_eq, stage, wrEq, accInf, accCur, rInf, cutSafe, lastInf, safeLast, accLast, rLast,
    lastEq, logK, logMono⟩ := h
  refine ⟨nlt, cb_eq, ca_eq, Or.inl fun t ht => ⟨?_, (hall t ht).2⟩, wrEq, accInf, accCur, rInf, cutSafe, lastInf,
    safeLast, accLast, rLast, ?_, ?_, logMono⟩
  · rcases (hall t ht).1 with h | h
    · exact Or.inl h
    · exact Or.inr (Or.inl h)
  · intro ⟨t, ht, h1⟩; have := (hall t ht).2; omega
  · intro e he
    obtain ⟨h1, h2, _⟩ := logK e he
    exact ⟨by omega, h2, fun hk => by omega⟩

end RootSim.Gvt

namespace RootSim.Gvt

theorem countP_set_inc {l : List Th} {p : Th → Bool} {i : Nat} {t t' : Th} (ht : l[i]? = some t)
    (h1 : p t = false) (h2 : p t' = true) : (l.set i t').countP p = l.countP p + 1 := by
  have hi : i < l.length := (List.getElem?_eq_some_iff.mp ht).1
  have hgi : l[i] = t := (List.getElem?_eq_some_iff.mp ht).2
  rw [List.countP_set hi, hgi, h1, h2]; simp

theorem countP_set_dec {l : List Th} {p : Th → Bool} {i : Nat} {t t' : Th} (ht : l[i]? = some t)
    (h1 : p t = true) (h2 : p t' = false) : (l.set i t').countP p = l.countP p - 1 ∧ 0 < l.countP p := by
  have hi : i < l.length := (List.getElem?_eq_some_iff.mp ht).1
  have hgi : l[i] = t := (List.getElem?_eq_some_iff.mp ht).2
  have hpos : 0 < l.countP p := List.countP_pos_iff.mpr ⟨t, List.mem_of_getElem? ht, h1⟩
  rw [List.countP_set hi, hgi, h1, h2]; simp [hpos]

theorem countP_lt_length {l : List Th} {p : Th → Bool} {t : Th} (ht : t ∈ l) (h : p t = false) :
    l.countP p < l.length := by
  rcases Nat.lt_or_ge (l.countP p) l.length with h' | h'
  · exact h'
  · have := List.countP_eq_length.mp (Nat.le_antisymm List.countP_le_length h') t ht
    rw [h] at this; cases this

theorem inv_start (s s' : St) (K i : Nat) (h : Inv s K) (hs : step s (.start i) = some s') :
    Inv s' K ∧ (Active s → G s' = G s) := by
  simp only [step] at hs
  split at hs
  · cases hs
  · rename_i t ht
    split at hs
    · rename_i hg
      obtain ⟨hph, hcur, _⟩ := hg
      simp only [Option.some.injEq] at hs
      have htm : t ∈ s.ths := List.mem_of_getElem? ht
      have hbc : inBC { t with phase := Phase.A, acc := INF } = inBC t := by simp only [inBC, hph]; rfl
      have hcd : inCD { t with phase := Phase.A, acc := INF } = inCD t := by simp only [inCD, hph]; rfl
      have hbcf : inBC t = false := by simp only [inBC, hph]; rfl
      have hths : s'.ths = s.ths.set i { t with phase := Phase.A, acc := INF } := by rw [← hs]
      have hGeq : G s' = G s := by
        refine G_set s i t _ ht _ rfl s' hths ?_ ?_
        · have := G_le_contrib htm; simp only [contrib, hbcf] at this
          simp only [contrib, hbc, hbcf]; exact this
        · simp [contrib, hbc, hbcf]
      refine ⟨?_, fun _ => hGeq⟩
      refine inv_phase s s' K i t { t with phase := Phase.A, acc := INF } s.ca s.cb h ht (by rw [← hs]) rfl rfl rfl
        (by rw [countP_set_same ht hbc]; exact h.cb_eq) (by rw [countP_set_same ht hcd]; exact h.ca_eq)
        ?_ ?_ (fun _ => Nat.le_refl _) (fun _ c hc => by rw [hcur] at hc; cases hc) (h.rInf t htm) ?_
        (fun _ => h.lastInf) (fun hd => by cases hd) ?_
      · unfold Stage; rw [hths]
        rcases h.stage with hst | hst | hst | hst
        · exact Or.inl (forall_set hst ⟨Or.inr (Or.inl rfl), (hst t htm).2⟩)
        · have := (hst t htm).1; rw [hph] at this; rcases this with h | h <;> cases h
        · have := (hst t htm).1; rw [hph] at this; rcases this with h | h <;> cases h
        · refine Or.inr (Or.inr (Or.inr (forall_set hst ?_)))
          rcases hst t htm with ⟨h1, _⟩ | ⟨_, h2⟩
          · rw [hph] at h1; cases h1
          · exact Or.inr ⟨Or.inr rfl, h2⟩
      · have := h.wrEq t htm; simp only [hph] at this; simpa using this
      · intro ha'
        right
        have ha : Active s := by
          unfold Active at ha' ⊢; rw [← hs] at ha'; simpa using ha'
        exact ⟨ha, hGeq⟩
      · intro h1 h2
        rw [gmin_set_same (t' := { t with phase := Phase.A, acc := INF }) ht rfl s' hths]
        rw [hths] at h1 h2
        refine h.lastEq (exists_of_exists_set (t' := { t with phase := Phase.A, acc := INF }) ht (fun h => h) h1)
          (exists_of_exists_set (t' := { t with phase := Phase.A, acc := INF }) ht (fun h => ?_) h2)
        cases h
    · cases hs

/-- in phase A with `c_a = 0` the system is in the gathering stage of some round -/
theorem phaseA_stage (s : St) (K : Nat) (t : Th) (h : Inv s K) (htm : t ∈ s.ths) (hph : t.phase = .A)
    (hca : s.ca = 0) :
    ∃ K', Inv s K' ∧ ∀ u ∈ s.ths, (u.phase = .idle ∨ u.phase = .A ∨ u.phase = .B) ∧ u.rd = K' := by
  have hnocd := countP_zero_all (by rw [← h.ca_eq]; exact hca)
  rcases h.stage with hst | hst | hst | hst
  · exact ⟨K, h, hst⟩
  · have := (hst t htm).1; rw [hph] at this; rcases this with h | h <;> cases h
  · have := (hst t htm).1; rw [hph] at this; rcases this with h | h <;> cases h
  · have hall : ∀ u ∈ s.ths, (u.phase = .idle ∨ u.phase = .A) ∧ u.rd = K + 1 := by
      intro u hu
      rcases hst u hu with ⟨h1, _⟩ | h2
      · have := hnocd u hu; simp [inCD, h1] at this
      · exact h2
    refine ⟨K + 1, inv_relabel s K h hall, fun u hu => ⟨?_, (hall u hu).2⟩⟩
    rcases (hall u hu).1 with h | h
    · exact Or.inl h
    · exact Or.inr (Or.inl h)

theorem inv_phaseA (s s' : St) (K i : Nat) (h : Inv s K) (hs : step s (.phaseA i) = some s') :
    ∃ K', Inv s' K' ∧ (Active s → G s' = G s) := by
  simp only [step] at hs
  split at hs
  · cases hs
  · rename_i t ht
    split at hs
    · rename_i hg
      obtain ⟨hph, hca0⟩ := hg
      simp only [Option.some.injEq] at hs
      have htm : t ∈ s.ths := List.mem_of_getElem? ht
      obtain ⟨K', h', hst⟩ := phaseA_stage s K t h htm hph hca0
      have hbcf : inBC t = false := by simp only [inBC, hph]; rfl
      have hnact : Active s → G s' = G s := by
        intro ha
        rcases ha with ha | ha
        · have := countP_len_all (by rw [← h.cb_eq]; exact ha) t htm
          rw [hbcf] at this; cases this
        · rw [hca0] at ha; exact absurd ha (Nat.lt_irrefl _)
      refine ⟨K', ?_, hnact⟩
      have hne : t.phase ≠ .idle := by rw [hph]; intro h; cases h
      have hbct : inBC { t with acc := min t.acc (peek t.pending), phase := Phase.B } = true := rfl
      have hcd : inCD { t with acc := min t.acc (peek t.pending), phase := Phase.B } = inCD t := by
        simp only [inCD, hph]; rfl
      have hths : s'.ths = s.ths.set i { t with acc := min t.acc (peek t.pending), phase := Phase.B } := by
        rw [← hs]
      have hlt := countP_lt_length htm hbcf
      have hcnt := countP_set_inc ht hbcf hbct
      have hcb' : (s.cb + 1) % W32 = (s.ths.set i { t with acc := min t.acc (peek t.pending), phase := Phase.B }).countP inBC := by
        rw [hcnt, h'.cb_eq, Nat.mod_eq_of_lt]
        have := h'.nlt; omega
      refine inv_phase s s' K' i t { t with acc := min t.acc (peek t.pending), phase := Phase.B } s.ca
        ((s.cb + 1) % W32) h' ht (by rw [← hs]) rfl rfl rfl hcb'
        (by rw [countP_set_same ht hcd]; exact h'.ca_eq) ?_ ?_ ?_ ?_ (h'.rInf t htm) ?_ ?_ (fun hd => by cases hd) ?_
      · unfold Stage; rw [hths]
        exact Or.inl (forall_set hst ⟨Or.inr (Or.inr rfl), (hst t htm).2⟩)
      · have := h'.wrEq t htm; simp only [hph] at this; simpa using this
      · intro _; exact Nat.le_trans (Nat.min_le_left _ _) (h'.accInf t htm hne)
      · intro _ c hc; exact Nat.le_trans (Nat.min_le_left _ _) (h'.accCur t htm hne c hc)
      · intro ha'
        left
        have hcb2 : s'.cb = s'.ths.countP inBC := by rw [← hs]; exact hcb'
        have hca2 : s'.ca = 0 := by rw [← hs]; exact hca0
        rcases ha' with ha' | ha'
        · exact countP_len_all (by rw [← hcb2]; exact ha')
        · rw [hca2] at ha'; exact absurd ha' (Nat.lt_irrefl _)
      · intro _
        exact Nat.le_min.mpr ⟨h'.accLast t htm (Or.inl hph), le_minL' h'.lastInf (h'.safeLast t htm).1⟩
      · intro ⟨u, hu, hrd⟩ _
        rw [hths] at hu
        rcases mem_set_cases hu with rfl | hu
        · have := (hst t htm).2; simp only at hrd; omega
        · have := (hst u hu).2; omega
    · cases hs

end RootSim.Gvt

namespace RootSim.Gvt

theorem inBC_phase {t : Th} (h : inBC t = true) : t.phase = .B ∨ t.phase = .C := by
  cases hp : t.phase <;> simp [inBC, hp] at h ⊢

theorem inCD_phase {t : Th} (h : inCD t = true) : t.phase = .C ∨ t.phase = .D := by
  cases hp : t.phase <;> simp [inCD, hp] at h ⊢

/-- every stage fixes `rd = K` for a thread that is in B or C -/
theorem stage_rd_BC {s : St} {K : Nat} (hst : Stage s K) {t : Th} (ht : t ∈ s.ths)
    (hp : t.phase = .B ∨ t.phase = .C) : t.rd = K := by
  rcases hst with h | h | h | h
  · exact (h t ht).2
  · exact (h t ht).2
  · exact (h t ht).2
  · rcases h t ht with ⟨h1, _⟩ | ⟨h1, _⟩
    · rw [h1] at hp; rcases hp with h | h <;> cases h
    · rcases h1 with h1 | h1 <;> rw [h1] at hp <;> rcases hp with h | h <;> cases h

theorem inv_phaseB (s s' : St) (K i : Nat) (h : Inv s K) (hs : step s (.phaseB i) = some s') :
    Inv s' K ∧ (Active s → G s' = G s) := by
  simp only [step] at hs
  split at hs
  · cases hs
  · rename_i t ht
    split at hs
    · rename_i hg
      obtain ⟨hph, hcbN⟩ := hg
      simp only [Option.some.injEq] at hs
      have htm : t ∈ s.ths := List.mem_of_getElem? ht
      have hne : t.phase ≠ .idle := by rw [hph]; intro h; cases h
      have hallbc := countP_len_all (by rw [← h.cb_eq]; exact hcbN)
      have hbct : inBC t = true := hallbc t htm
      have hbc : inBC { t with phase := Phase.C } = inBC t := by rw [hbct]; rfl
      have hcdf : inCD t = false := by simp only [inCD, hph]; rfl
      have hcdt : inCD { t with phase := Phase.C } = true := rfl
      have hths : s'.ths = s.ths.set i { t with phase := Phase.C } := by rw [← hs]
      have hlt := countP_lt_length htm hcdf
      have hca' : (s.ca + 1) % W32 = (s.ths.set i { t with phase := Phase.C }).countP inCD := by
        rw [countP_set_inc ht hcdf hcdt, h.ca_eq, Nat.mod_eq_of_lt]
        have := h.nlt; omega
      have hlbeq : lb { t with phase := Phase.C } = lb t := rfl
      have hGeq : G s' = G s := by
        refine G_set s i t { t with phase := Phase.C } ht _ rfl s' hths ?_ ?_
        · have := G_le_contrib htm; simp only [contrib, hbct] at this
          simp only [contrib, hbc, hbct, hlbeq]; exact this
        · simp only [contrib, hbc, hbct, hlbeq]; exact Nat.le_refl _
      refine ⟨?_, fun _ => hGeq⟩
      refine inv_phase s s' K i t { t with phase := Phase.C } ((s.ca + 1) % W32) s.cb h ht (by rw [← hs]) rfl rfl rfl
        (by rw [countP_set_same ht hbc]; exact h.cb_eq) hca' ?_ ?_ (fun _ => h.accInf t htm hne)
        (fun _ c hc => h.accCur t htm hne c hc) (h.rInf t htm) ?_
        (fun _ => h.accLast t htm (Or.inr (Or.inl hph))) (fun hd => by cases hd) ?_
      · unfold Stage; rw [hths]
        refine Or.inr (Or.inl (forall_set (fun u hu => ?_) ⟨Or.inr rfl, (stage_rd_BC h.stage htm (Or.inl hph) : t.rd = K)⟩))
        exact ⟨inBC_phase (hallbc u hu), stage_rd_BC h.stage hu (inBC_phase (hallbc u hu))⟩
      · have := h.wrEq t htm; simp only [hph] at this; simpa using this
      · intro _
        right
        exact ⟨Or.inl hcbN, hGeq⟩
      · intro ⟨u, hu, hrd⟩ _
        rw [hths] at hu
        rcases mem_set_cases hu with rfl | hu
        · have := stage_rd_BC h.stage htm (Or.inl hph); simp only at hrd; omega
        · have := stage_rd_BC h.stage hu (inBC_phase (hallbc u hu)); omega
    · cases hs

/-- every stage fixes `rd = K` for a thread that is in C or D -/
theorem stage_rd_CD {s : St} {K : Nat} (hst : Stage s K) {t : Th} (ht : t ∈ s.ths)
    (hp : t.phase = .C ∨ t.phase = .D) : t.rd = K := by
  rcases hst with h | h | h | h
  · exact (h t ht).2
  · exact (h t ht).2
  · exact (h t ht).2
  · rcases h t ht with ⟨_, h2⟩ | ⟨h1, _⟩
    · exact h2
    · rcases h1 with h1 | h1 <;> rw [h1] at hp <;> rcases hp with h | h <;> cases h

theorem inv_phaseC (s s' : St) (K i : Nat) (h : Inv s K) (hs : step s (.phaseC i) = some s') :
    Inv s' K ∧ (Active s → G s' = G s) := by
  simp only [step] at hs
  split at hs
  · cases hs
  · rename_i t ht
    split at hs
    · rename_i hg
      obtain ⟨hph, hcaN⟩ := hg
      simp only [Option.some.injEq] at hs
      have htm : t ∈ s.ths := List.mem_of_getElem? ht
      have hi : i < s.ths.length := (List.getElem?_eq_some_iff.mp ht).1
      have hne : t.phase ≠ .idle := by rw [hph]; intro h; cases h
      have hallcd := countP_len_all (by rw [← h.ca_eq]; exact hcaN)
      have hbct : inBC t = true := by simp only [inBC, hph]; rfl
      have hbcf : inBC { t with r := min t.acc (peek t.pending), phase := Phase.D, wr := t.wr + 1 } = false := rfl
      have hcd : inCD { t with r := min t.acc (peek t.pending), phase := Phase.D, wr := t.wr + 1 } = inCD t := by
        rw [hallcd t htm]; rfl
      have hths : s'.ths = s.ths.set i { t with r := min t.acc (peek t.pending), phase := Phase.D, wr := t.wr + 1 } := by
        rw [← hs]
      obtain ⟨hdec, hpos⟩ := countP_set_dec ht hbct hbcf
      have hle : s.ths.countP inBC ≤ s.ths.length := List.countP_le_length
      have hcb' : (s.cb + W32 - 1) % W32 =
          (s.ths.set i { t with r := min t.acc (peek t.pending), phase := Phase.D, wr := t.wr + 1 }).countP inBC := by
        rw [hdec, h.cb_eq]
        have h1 : s.ths.countP inBC + W32 - 1 = (s.ths.countP inBC - 1) + W32 := by omega
        rw [h1, Nat.add_mod_right, Nat.mod_eq_of_lt]
        have := h.nlt; omega
      have hGl : G s ≤ lb t := by have := G_le_contrib htm; simpa [contrib, hbct] using this
      have hlbm : lb t ≤ min t.acc (peek t.pending) := by
        unfold lb; split
        · exact Nat.min_le_left _ _
        · exact Nat.le_refl _
      have hmlb : min t.acc (peek t.pending) ≤ lb t := by
        unfold lb; split
        · rename_i c hc
          exact Nat.le_min.mpr ⟨Nat.le_refl _, Nat.le_trans (Nat.min_le_left _ _) (h.accCur t htm hne c hc)⟩
        · exact Nat.le_refl _
      have hGeq : G s' = G s := by
        refine G_set s i t _ ht _ rfl s' hths ?_ ?_
        · simp only [contrib, hbcf]; exact Nat.le_trans hGl hlbm
        · simp only [contrib, hbcf, hbct]; exact hmlb
      refine ⟨?_, fun _ => hGeq⟩
      refine inv_phase s s' K i t { t with r := min t.acc (peek t.pending), phase := Phase.D, wr := t.wr + 1 }
        s.ca ((s.cb + W32 - 1) % W32) h ht (by rw [← hs]) rfl rfl rfl hcb'
        (by rw [countP_set_same ht hcd]; exact h.ca_eq) ?_ ?_ (fun _ => h.accInf t htm hne)
        (fun _ c hc => h.accCur t htm hne c hc) ?_ ?_ (fun hd => by rcases hd with h | h | h <;> cases h) ?_ ?_
      · unfold Stage; rw [hths]
        refine Or.inr (Or.inr (Or.inl (forall_set (fun u hu => ?_) ⟨Or.inr rfl, (stage_rd_CD h.stage htm (Or.inl hph) : t.rd = K)⟩)))
        exact ⟨inCD_phase (hallcd u hu), stage_rd_CD h.stage hu (inCD_phase (hallcd u hu))⟩
      · have := h.wrEq t htm; simp only [hph] at this; simp at this ⊢; omega
      · exact Nat.le_trans (Nat.min_le_left _ _) (h.accInf t htm hne)
      · intro _
        right
        exact ⟨Or.inr (by rw [hcaN]; omega), hGeq⟩
      · intro _
        exact Nat.le_min.mpr ⟨h.accLast t htm (Or.inr (Or.inr hph)), le_minL' h.lastInf (h.safeLast t htm).1⟩
      · intro ⟨u, hu, hrd⟩ _
        rw [hths] at hu
        rcases mem_set_cases hu with rfl | hu
        · have := stage_rd_CD h.stage htm (Or.inl hph); simp only at hrd; omega
        · have := stage_rd_CD h.stage hu (inCD_phase (hallcd u hu)); omega
    · cases hs

end RootSim.Gvt

namespace RootSim.Gvt

theorem inv_phaseD (s s' : St) (K i : Nat) (h : Inv s K) (hs : step s (.phaseD i) = some s') :
    Inv s' K ∧ (Active s → G s' = G s) := by
  simp only [step] at hs
  split at hs
  · cases hs
  · rename_i t ht
    split at hs
    · rename_i hg
      obtain ⟨hph, hcb0⟩ := hg
      simp only [Option.some.injEq] at hs
      have htm : t ∈ s.ths := List.mem_of_getElem? ht
      have hi : i < s.ths.length := (List.getElem?_eq_some_iff.mp ht).1
      have hne : s.ths ≠ [] := by intro h; rw [h] at htm; cases htm
      have hnobc := countP_zero_all (by rw [← h.cb_eq]; exact hcb0)
      have hGg : G s = gmin s := G_eq_gmin s hnobc
      have hrdK : t.rd = K := stage_rd_CD h.stage htm (Or.inr hph)
      have hbc : inBC { t with phase := Phase.idle, rd := t.rd + 1 } = inBC t := by rw [hnobc t htm]; rfl
      have hbcf : inBC t = false := hnobc t htm
      have hcdt : inCD t = true := by simp only [inCD, hph]; rfl
      have hcdf : inCD { t with phase := Phase.idle, rd := t.rd + 1 } = false := rfl
      have hths : s'.ths = s.ths.set i { t with phase := Phase.idle, rd := t.rd + 1 } := by rw [← hs]
      have hla : s'.last = gmin s := by rw [← hs]
      have hlo : s'.log = (t.rd, gmin s) :: s.log := by rw [← hs]
      have hlen : s'.ths.length = s.ths.length := by rw [hths]; simp
      obtain ⟨hdec, hpos⟩ := countP_set_dec ht hcdt hcdf
      have hle : s.ths.countP inCD ≤ s.ths.length := List.countP_le_length
      have hact : Active s := Or.inr (by rw [h.ca_eq]; exact hpos)
      have hgm' : gmin s' = gmin s :=
        gmin_set_same (t' := { t with phase := Phase.idle, rd := t.rd + 1 }) ht rfl s' hths
      have hG' : G s' = G s := by
        refine G_set s i t { t with phase := Phase.idle, rd := t.rd + 1 } ht _ rfl s' hths ?_ ?_
        · have := G_le_contrib htm; simp only [contrib, hbcf] at this
          simp only [contrib, hbc, hbcf]; exact this
        · simp only [contrib, hbc, hbcf]; exact Nat.le_refl _
      -- the phase structure: every other thread is in D (round K) or already done with round K
      have hst4 : ∀ u ∈ s.ths, (u.phase = .D ∧ u.rd = K) ∨ ((u.phase = .idle ∨ u.phase = .A) ∧ u.rd = K + 1) := by
        intro u hu
        rcases h.stage with hst | hst | hst | hst
        · have := (hst t htm).1; rw [hph] at this; rcases this with h | h | h <;> cases h
        · have := (hst t htm).1; rw [hph] at this; rcases this with h | h <;> cases h
        · left
          rcases (hst u hu).1 with hc | hd
          · have := hnobc u hu; simp [inBC, hc] at this
          · exact ⟨hd, (hst u hu).2⟩
        · exact hst u hu
      -- if some thread has already finished this round, the value was already reported
      have hsame : (∃ u ∈ s.ths, u.rd = K + 1) → s.last = gmin s := fun hex => h.lastEq hex ⟨t, htm, hph⟩
      have hmono : s.last ≤ gmin s := by
        by_cases hex : ∃ u ∈ s.ths, u.rd = K + 1
        · rw [hsame hex]; exact Nat.le_refl _
        · refine le_minL (by simpa using hne) ?_
          intro x hx
          obtain ⟨u, hu, rfl⟩ := List.mem_map.mp hx
          rcases hst4 u hu with ⟨hd, _⟩ | ⟨_, hk⟩
          · exact h.rLast u hu hd
          · exact absurd ⟨u, hu, hk⟩ hex
      have hsafe : Safe (gmin s) s := by rw [← hGg]; exact cut_safe_all h hact
      refine ⟨⟨by rw [hlen]; exact h.nlt, ?_, ?_, ?_, ?_, ?_, ?_, ?_, ?_, ?_, ?_, ?_, ?_, ?_, ?_, ?_⟩, fun _ => hG'⟩
      · rw [hths, countP_set_same ht hbc]; rw [← hs]; exact h.cb_eq
      · rw [hths, hdec]; rw [← hs]; simp only
        rw [h.ca_eq]
        have h1 : s.ths.countP inCD + W32 - 1 = (s.ths.countP inCD - 1) + W32 := by omega
        rw [h1, Nat.add_mod_right, Nat.mod_eq_of_lt]
        have := h.nlt; omega
      · unfold Stage; rw [hths]
        exact Or.inr (Or.inr (Or.inr (forall_set hst4 (Or.inr ⟨Or.inl rfl, by simp only; omega⟩))))
      · rw [hths]; refine forall_set h.wrEq ?_
        have := h.wrEq t htm; simp only [hph] at this; simp at this ⊢; omega
      · rw [hths]; exact forall_set h.accInf (fun hne => absurd rfl hne)
      · rw [hths]; exact forall_set h.accCur (fun hne => absurd rfl hne)
      · rw [hths]; exact forall_set h.rInf (h.rInf t htm)
      · intro _
        rw [hG', hths]
        intro u hu hub
        rcases mem_set_cases hu with rfl | hu
        · exact h.cutSafe hact t htm hbcf
        · exact h.cutSafe hact u hu hub
      · rw [hla]; exact Nat.le_trans (minL_le_of_mem (List.mem_map.mpr ⟨t, htm, rfl⟩)) (h.rInf t htm)
      · unfold Safe; rw [hla, hths]; exact forall_set hsafe (hsafe t htm)
      · rw [hla, hths]
        refine forall_set (fun u hu hp => ?_) (fun hp => by rcases hp with h | h | h <;> cases h)
        rcases hst4 u hu with ⟨hd, _⟩ | ⟨_, hk⟩
        · rw [hd] at hp; rcases hp with h | h | h <;> cases h
        · rw [← hsame ⟨u, hu, hk⟩]; exact h.accLast u hu hp
      · rw [hla, hths]
        refine forall_set (fun u hu _ => minL_le_of_mem (List.mem_map.mpr ⟨u, hu, rfl⟩)) (fun hp => by cases hp)
      · intro _ _; rw [hla, hgm']
      · rw [hlo, hla]
        intro e he
        rcases List.mem_cons.mp he with rfl | he
        · refine ⟨by simp only; omega, Nat.le_refl _, fun _ => ⟨rfl, ?_⟩⟩
          rw [hths]; exact ⟨_, mem_set_self hi, by simp only; omega⟩
        · obtain ⟨h1, h2, h3⟩ := h.logK e he
          refine ⟨h1, Nat.le_trans h2 hmono, fun hk => ?_⟩
          obtain ⟨h4, h5⟩ := h3 hk
          refine ⟨by rw [h4]; exact hsame h5, ?_⟩
          rw [hths]
          exact exists_set_of_exists (t' := { t with phase := Phase.idle, rd := t.rd + 1 }) ht
            (fun h => by simp only; omega) h5
      · rw [hlo]
        intro e he e' he' hle'
        rcases List.mem_cons.mp he with rfl | he <;> rcases List.mem_cons.mp he' with rfl | he'
        · exact Nat.le_refl _
        · simp only at hle' ⊢
          obtain ⟨h1, _, h3⟩ := h.logK e' he'
          have hk : e'.1 = K := by omega
          obtain ⟨h4, h5⟩ := h3 hk
          rw [h4, hsame h5]; exact Nat.le_refl _
        · simp only
          exact Nat.le_trans (h.logK e he).2.1 hmono
        · exact h.logMono e he e' he' hle'
    · cases hs

/-- **every enabled step preserves the invariant (for the current or the next round number)** -/
theorem inv_step (s s' : St) (K : Nat) (a : Act) (h : Inv s K) (hs : step s a = some s') :
    ∃ K', Inv s' K' ∧ (Active s → G s' = G s) := by
  cases a with
  | start i => exact ⟨K, inv_start s s' K i h hs⟩
  | phaseA i => exact inv_phaseA s s' K i h hs
  | phaseB i => exact ⟨K, inv_phaseB s s' K i h hs⟩
  | phaseC i => exact ⟨K, inv_phaseC s s' K i h hs⟩
  | phaseD i => exact ⟨K, inv_phaseD s s' K i h hs⟩
  | extract i k => exact ⟨K, inv_extract s s' K i k h hs⟩
  | emit i u x => exact ⟨K, inv_emit s s' K i u x h hs⟩
  | finish i => exact ⟨K, inv_finish s s' K i h hs⟩

theorem reach_inv (s0 s : St) (h0 : Init s0) (h : Reach s0 s) : ∃ K, Inv s K := by
  induction h with
  | init => exact ⟨0, inv_init s0 h0⟩
  | step _ hs ih =>
    obtain ⟨K, hK⟩ := ih
    obtain ⟨K', hK', _⟩ := inv_step _ _ K _ hK hs
    exact ⟨K', hK'⟩

end RootSim.Gvt
