import RootSim.Proofs.LPFull
/-! Runs of the complete LP step function: arbitrary sequences of `process_msg` steps, checkpoints and fossil collections on one
LP; the early list over a whole run; a remote event and its anti-message in any order. -/
namespace RootSim.LPFull
open RootSim RootSim.LP

variable {σ : Type}
variable {h : σ → Event → σ × List Event} {ev : Nat → Event} {init : σ} {base : List Nat}

/-! ### runs: arbitrary sequences of `process_msg` steps, checkpoints and fossil collections on one LP -/

/-- the inputs of one `process_msg` step -/
structure Inp where
  m : Nat
  f : Nat
  look : Nat → Msg
  alloc : Nat → Nat

inductive Op where
  | msg (i : Inp)
  | ckpt
  | fossil (gvt ep : Nat)

/-- the releases of `fossil_lp_collect` (fossil.c:52-58): from index `n - 1` down to 0, every entry that is not a local sent one -/
def fossilFrees (dropped : List Entry) : List Action :=
  dropped.reverse.filterMap (fun e => match e with
    | .sent _ => none
    | .rsent m => some (Action.free m)
    | .past m => some (Action.free m))

def stepOp (h : σ → Event → σ × List Event) (ev : Nat → Event) (remote : Nat → Bool) (s : St σ) :
    Op → Option (St σ × List Action)
  | .msg i => step h ev i.look remote i.alloc s i.m i.f
  | .ckpt => some ({ s with lp := checkpoint s.lp }, [])
  | .fossil gvt ep =>
    match fossil (fun m => (ev m).t) s.lp gvt ep with
    | some o => some ({ s with lp := fixBound o.lp }, fossilFrees o.dropped)
    | none => some ({ s with lp := fixBound s.lp }, [])

/-- annotated trace: (state before the operation, operation, its actions), oldest first -/
abbrev Trace (σ : Type) := List (St σ × Op × List Action)

def run (h : σ → Event → σ × List Event) (ev : Nat → Event) (remote : Nat → Bool) :
    St σ → List Op → Option (St σ × Trace σ)
  | s, [] => some (s, [])
  | s, op :: ops =>
    match stepOp h ev remote s op with
    | none => none
    | some r =>
      match run h ev remote r.1 ops with
      | none => none
      | some r2 => some (r2.1, (s, op, r.2) :: r2.2)

/-- all actions of a trace, in order -/
def Trace.acts (T : Trace σ) : List Action := T.flatMap (fun x => x.2.2)

theorem run_snoc {remote : Nat → Bool} : ∀ (ops : List Op) (s : St σ) (op : Op),
    run h ev remote s (ops ++ [op]) =
      match run h ev remote s ops with
      | none => none
      | some r => match stepOp h ev remote r.1 op with
        | none => none
        | some r2 => some (r2.1, r.2 ++ [(r.1, op, r2.2)])
  | [], s, op => by
    simp only [List.nil_append, run]
  | o :: ops, s, op => by
    simp only [List.cons_append, run]
    cases hso : stepOp h ev remote s o with
    | none => simp
    | some r =>
      simp only
      rw [run_snoc ops r.1 op]
      cases run h ev remote r.1 ops with
      | none => simp
      | some r1 =>
        simp only
        cases stepOp h ev remote r1.1 op <;> simp

/-- exactness (`∃ base, LInv`) is preserved by every operation -/
theorem stepOp_exact {remote : Nat → Bool} {s s' : St σ} {op : Op} {acts : List Action}
    (hE : ∃ base, LInv h ev init base s.lp) (hs : stepOp h ev remote s op = some (s', acts)) :
    ∃ base, LInv h ev init base s'.lp := by
  obtain ⟨base, hI⟩ := hE
  cases op with
  | msg i => exact ⟨base, step_linv hI hs⟩
  | ckpt =>
    simp only [stepOp, Option.some.injEq, Prod.mk.injEq] at hs
    rw [← hs.1]; exact ⟨base, checkpoint_inv hI⟩
  | fossil gvt ep =>
    simp only [stepOp] at hs
    split at hs
    · rename_i o ho
      simp only [Option.some.injEq, Prod.mk.injEq] at hs
      rw [← hs.1]
      exact ⟨_, fixBound_linv (fossil_inv hI _ gvt ep ho).2.2.2.2⟩
    · simp only [Option.some.injEq, Prod.mk.injEq] at hs
      rw [← hs.1]; exact ⟨base, fixBound_linv hI⟩

theorem run_exact {remote : Nat → Bool} : ∀ (ops : List Op) (s s' : St σ) (T : Trace σ),
    (∃ base, LInv h ev init base s.lp) → run h ev remote s ops = some (s', T) → ∃ base, LInv h ev init base s'.lp
  | [], s, s', T, hE, hr => by simp [run] at hr; rw [← hr.1]; exact hE
  | op :: ops, s, s', T, hE, hr => by
    simp only [run] at hr
    split at hr
    · simp at hr
    · rename_i r hso
      split at hr
      · simp at hr
      · rename_i r2 hr2
        simp only [Option.some.injEq, Prod.mk.injEq] at hr
        rw [← hr.1]
        exact run_exact ops r.1 r2.1 r2.2 (stepOp_exact hE (by rw [hso])) (by rw [hr2])

/-! ### the early list, over a whole run -/

/-- (id word, m_seq) a remote anti-message carries when it is dequeued with flag word `f` (`a_msg->raw_flags -= MSG_FLAG_ANTI`) -/
def Inp.antiKey (i : Inp) : Nat × Nat := (i.f + 1, (i.look i.m).mSeq)
/-- (id word, m_seq) of a dequeued remote event, after the `fetch_add(PROCESSED)` -/
def Inp.eventKey (i : Inp) : Nat × Nat := (i.f + 2, (i.look i.m).mSeq)

/-- the trace entry is the dequeue of a remote anti-message that finds no processed event with its (id, seq) in the history:
the message and its key -/
def parkedBy (x : St σ × Op × List Action) : Option (Nat × (Nat × Nat)) :=
  match x.2.1 with
  | .msg i =>
    if i.f % 2 = 1 ∧ 3 < i.f ∧ findRemote i.look x.1.lp.hist (i.f + 1) (i.look i.m).mSeq = 0 then some (i.m, i.antiKey)
    else none
  | _ => none

/-- the trace entry is the dequeue of a remote event (flag word even, not 0) with key `K` -/
def dequeuesEvent (K : Nat × Nat) (x : St σ × Op × List Action) : Bool :=
  match x.2.1 with
  | .msg i => i.f % 2 == 0 && i.f != 0 && i.eventKey == K
  | _ => false

/-- **specification of the early list**: the anti-messages that were parked at some point of the trace and whose event has not
been dequeued at any later point; newest first -/
def waiting : Trace σ → List (Nat × (Nat × Nat))
  | [] => []
  | x :: post =>
    match parkedBy x with
    | some aK => if post.all (fun y => !dequeuesEvent aK.2 y) then waiting post ++ [aK] else waiting post
    | none => waiting post

theorem waiting_snoc : ∀ (T : Trace σ) (x : St σ × Op × List Action),
    waiting (T ++ [x]) =
      (match parkedBy x with | some aK => [aK] | none => []) ++ (waiting T).filter (fun aK => !dequeuesEvent aK.2 x)
  | [], x => by
    simp only [List.nil_append, waiting]
    cases parkedBy x <;> simp
  | y :: T, x => by
    simp only [List.cons_append, waiting]
    rw [waiting_snoc T x]
    cases hy : parkedBy y with
    | none => simp
    | some bK =>
      simp only [List.all_append, List.all_cons, List.all_nil, Bool.and_true]
      by_cases hall : (T.all fun y => !dequeuesEvent bK.2 y) = true
      · by_cases hq : dequeuesEvent bK.2 x = true
        · simp [hall, hq]
        · have hq' : dequeuesEvent bK.2 x = false := by simpa using hq
          simp [hall, hq', List.filter_append]
      · have hall' : (T.all fun y => !dequeuesEvent bK.2 y) = false := by simpa using hall
        simp only [hall', Bool.false_and, Bool.false_eq_true, if_false]

theorem waiting_sublist : ∀ (T : Trace σ), (waiting T).Sublist (T.filterMap parkedBy).reverse
  | [] => by simp [waiting]
  | x :: post => by
    have ih := waiting_sublist post
    simp only [waiting, List.filterMap_cons]
    cases hx : parkedBy x with
    | none => simpa using ih
    | some aK =>
      simp only [List.reverse_cons]
      split
      · exact List.Sublist.append ih (List.Sublist.refl _)
      · exact ih.trans (List.sublist_append_left _ _)


/-- the hypothesis "a parked anti-message keeps its id word and sequence number while it waits": whenever a remote event is
dequeued, every anti-message waiting at that moment shows, in that step's snapshot, the key it was parked with -/
def KeysStable (T : Trace σ) : Prop :=
  ∀ pre x post, T = pre ++ x :: post → ∀ aK ∈ waiting pre, ∀ i, x.2.1 = Op.msg i → i.f % 2 = 0 → i.f ≠ 0 →
    keyAt i.look aK.1 = aK.2

theorem KeysStable.prefix {T1 T2 : Trace σ} (hk : KeysStable (T1 ++ T2)) : KeysStable T1 := by
  intro pre x post hT
  exact hk pre x (post ++ T2) (by rw [hT]; simp)

/-- removing the (unique) entry with key `K` from a list of (message, key) pairs with pairwise different keys -/
theorem filter_unique_key (W : List (Nat × (Nat × Nat))) (l1 l2 : List Nat) (b : Nat) (K : Nat × Nat)
    (key : Nat → Nat × Nat)
    (hW : W.map (·.1) = l1 ++ b :: l2) (hnd : (W.map (·.2)).Nodup)
    (hkey : ∀ aK ∈ W, key aK.1 = aK.2) (hb : key b = K) (hl1 : ∀ c ∈ l1, key c ≠ K) :
    (W.filter (fun aK => !(K == aK.2))).map (·.1) = l1 ++ l2 := by
  obtain ⟨W1, W2', h1, h2, h3⟩ := List.map_eq_append_iff.mp hW
  obtain ⟨bK, W2, rfl, h4, h5⟩ := List.map_eq_cons_iff.mp h3
  subst h1
  have hbK : bK.2 = K := by
    rw [← hkey bK (by simp), h4, hb]
  have hW1 : W1.filter (fun aK => !(K == aK.2)) = W1 := by
    rw [List.filter_eq_self]
    intro aK haK
    have hk := hkey aK (by simp [haK])
    have : key aK.1 ≠ K := hl1 aK.1 (by rw [← h2]; exact List.mem_map_of_mem haK)
    rw [hk] at this
    simpa using this.symm
  have hW2 : W2.filter (fun aK => !(K == aK.2)) = W2 := by
    rw [List.filter_eq_self]
    intro aK haK
    rw [List.map_append, List.map_cons, List.nodup_append] at hnd
    have hnd2 := (List.nodup_cons.mp hnd.2.1).1
    have : aK.2 ≠ bK.2 := by
      intro heq; exact hnd2 (by rw [← heq]; exact List.mem_map_of_mem haK)
    rw [hbK] at this
    simpa using this.symm
  rw [List.filter_append, hW1, List.filter_cons]
  simp only [hbK, BEq.rfl, Bool.not_true, Bool.false_eq_true, if_false, hW2, List.map_append, h2, h5]

theorem filter_const_true {α : Type} (l : List α) : l.filter (fun _ => true) = l :=
  List.filter_eq_self.mpr (fun _ _ => rfl)

theorem nodup_reverse_of {α : Type} {l : List α} (hl : l.Nodup) : l.reverse.Nodup := by
  unfold List.Nodup at *
  rw [List.pairwise_reverse]
  exact hl.imp Ne.symm

theorem filter_none_key (W : List (Nat × (Nat × Nat))) (K : Nat × Nat) (key : Nat → Nat × Nat)
    (hkey : ∀ aK ∈ W, key aK.1 = aK.2) (hall : ∀ c ∈ W.map (·.1), key c ≠ K) :
    W.filter (fun aK => !(K == aK.2)) = W := by
  rw [List.filter_eq_self]
  intro aK haK
  have := hall aK.1 (List.mem_map_of_mem haK)
  rw [hkey aK haK] at this
  simpa using this.symm

/-- **the early list is exact over every run**: starting with an empty list, after any sequence of `process_msg` steps,
checkpoints and fossil collections, `earlyAntis` is — in this order — the list `waiting` of the trace. -/
theorem earlyAntis_eq_waiting_rev {remote : Nat → Bool} : ∀ (rops : List Op) (s0 s' : St σ) (T : Trace σ),
    s0.earlyAntis = [] → (∃ base, LInv h ev init base s0.lp) →
    run h ev remote s0 rops.reverse = some (s', T) →
    ((T.filterMap parkedBy).map (·.2)).Nodup → KeysStable T →
    s'.earlyAntis = (waiting T).map (·.1) := by
  intro rops
  induction rops with
  | nil =>
    intro s0 s' T h0 _ hr _ _
    simp only [List.reverse_nil, run, Option.some.injEq, Prod.mk.injEq] at hr
    rw [← hr.1, ← hr.2, h0]; rfl
  | cons op rops ih =>
    intro s0 s' T h0 hE hr hnd hks
    rw [List.reverse_cons, run_snoc] at hr
    generalize hops : rops.reverse = ops at hr ih
    split at hr
    · simp at hr
    · rename_i r1 hr1
      split at hr
      · simp at hr
      · rename_i r2 hso
        simp only [Option.some.injEq, Prod.mk.injEq] at hr
        obtain ⟨rfl, rfl⟩ := hr
        obtain ⟨s1, T1⟩ := r1
        obtain ⟨s2, a2⟩ := r2
        simp only at hso hnd hks ⊢
        have hnd1 : ((T1.filterMap parkedBy).map (·.2)).Nodup := by
          rw [List.filterMap_append, List.map_append] at hnd
          exact (List.nodup_append.mp hnd).1
        have ih1 := ih s0 s1 T1 h0 hE hr1 hnd1 hks.prefix
        have hE1 := run_exact ops s0 s1 T1 hE hr1
        have hWnd : ((waiting T1).map (·.2)).Nodup := by
          have := (waiting_sublist T1).map (·.2)
          refine List.Nodup.sublist this ?_
          rw [List.map_reverse]; exact nodup_reverse_of hnd1
        rw [waiting_snoc]
        cases op with
        | ckpt =>
          simp only [stepOp, Option.some.injEq, Prod.mk.injEq] at hso
          rw [← hso.1]
          simp [parkedBy, dequeuesEvent, ih1, filter_const_true]
        | fossil gvt ep =>
          have : s2.earlyAntis = s1.earlyAntis := by
            simp only [stepOp] at hso
            split at hso <;> (simp only [Option.some.injEq, Prod.mk.injEq] at hso; rw [← hso.1])
          rw [this]
          simp [parkedBy, dequeuesEvent, ih1, filter_const_true]
        | msg i =>
          obtain ⟨base1, hI1⟩ := hE1
          have hstab : ∀ aK ∈ waiting T1, i.f % 2 = 0 → i.f ≠ 0 → keyAt i.look aK.1 = aK.2 :=
            fun aK haK he h0' => hks T1 (s1, Op.msg i, a2) [] rfl aK haK i rfl he h0'
          rcases step_summary hI1 hso with ⟨h1, h2, hz, _, he, _⟩ | ⟨h1, h2, j, x, k, hj, _, _, _, _, he, _⟩ |
            ⟨hf, k, _, he, _⟩ | ⟨h1, h2, b, l1, l2, hl, hb, hl1, _, he, _⟩ | ⟨h1, hno, k, _, he, _⟩
          · -- parked
            have hp : parkedBy (s1, Op.msg i, a2) = some (i.m, i.antiKey) := by
              simp [parkedBy, h1, h2, hz]
            have hd : ∀ K, dequeuesEvent K (s1, Op.msg i, a2) = false := by
              intro K; simp [dequeuesEvent, h1]
            rw [hp, he, ih1]
            simp [hd, filter_const_true]
          · have hp : parkedBy (s1, Op.msg i, a2) = none := by
              simp [parkedBy, hj]
            have hd : ∀ K, dequeuesEvent K (s1, Op.msg i, a2) = false := by
              intro K; simp [dequeuesEvent, h1]
            rw [hp, he, ih1]
            simp [hd, filter_const_true]
          · have hp : parkedBy (s1, Op.msg i, a2) = none := by
              simp only [parkedBy]; rw [if_neg]; omega
            have hd : ∀ K, dequeuesEvent K (s1, Op.msg i, a2) = false := by
              intro K; simp only [dequeuesEvent]
              rcases hf with hf | hf <;> simp [hf]
            rw [hp, he, ih1]
            simp [hd, filter_const_true]
          · -- early match: exactly the waiting entry with this key disappears
            have hp : parkedBy (s1, Op.msg i, a2) = none := by
              simp only [parkedBy]; rw [if_neg]; omega
            have hd : ∀ K, dequeuesEvent K (s1, Op.msg i, a2) = (i.eventKey == K) := by
              intro K; simp [dequeuesEvent, h1, h2]
            rw [hp, he]
            simp only [List.nil_append, hd]
            have := filter_unique_key (waiting T1) l1 l2 b i.eventKey (keyAt i.look) (by rw [← ih1, hl]) hWnd
              (fun aK haK => hstab aK haK h1 h2) hb hl1
            rw [← this]
          · have hp : parkedBy (s1, Op.msg i, a2) = none := by
              simp only [parkedBy]; rw [if_neg]; omega
            rw [hp, he, ih1]
            simp only [List.nil_append]
            by_cases hf0 : i.f = 0
            · have hd : ∀ K, dequeuesEvent K (s1, Op.msg i, a2) = false := by
                intro K; simp [dequeuesEvent, hf0]
              simp [hd, filter_const_true]
            · have hno' : ∀ c ∈ s1.earlyAntis, keyAt i.look c ≠ (i.f + 2, (i.look i.m).mSeq) := by
                rcases hno with h | h
                · exact absurd h hf0
                · exact h
              have hd : ∀ K, dequeuesEvent K (s1, Op.msg i, a2) = (i.eventKey == K) := by
                intro K; simp [dequeuesEvent, h1, hf0]
              simp only [hd]
              have := filter_none_key (waiting T1) i.eventKey (keyAt i.look)
                (fun aK haK => hstab aK haK h1 hf0) (by rw [← ih1]; exact hno')
              rw [this]


theorem earlyAntis_eq_waiting {remote : Nat → Bool} (ops : List Op) (s0 s' : St σ) (T : Trace σ)
    (h0 : s0.earlyAntis = []) (hE : ∃ base, LInv h ev init base s0.lp)
    (hr : run h ev remote s0 ops = some (s', T))
    (hnd : ((T.filterMap parkedBy).map (·.2)).Nodup) (hks : KeysStable T) :
    s'.earlyAntis = (waiting T).map (·.1) :=
  earlyAntis_eq_waiting_rev ops.reverse s0 s' T h0 hE (by rw [List.reverse_reverse]; exact hr) hnd hks


/-! ### a remote event and its anti-message, in any order -/

/-- a remote event `e` and its anti-message `a`: `w` = id word of the event on arrival (`raw_flags`, a multiple of 4 in the
real system; what is used: even and ≥ 4), `q` = `m_seq` -/
structure Pair where
  e : Nat
  a : Nat
  w : Nat
  q : Nat

/-- the key both carry when they are compared: id word + PROCESSED, sequence number -/
def Pair.key (P : Pair) : Nat × Nat := (P.w + 2, P.q)

structure Pair.Ok (P : Pair) : Prop where
  ne : P.e ≠ P.a
  even : P.w % 2 = 0
  big : 4 ≤ P.w

def Op.isA (P : Pair) : Op → Bool
  | .msg i => i.m == P.a
  | _ => false

def Op.isE (P : Pair) : Op → Bool
  | .msg i => i.m == P.e
  | _ => false

/-- What the environment guarantees for one operation on state `s` (`d` = the anti-message has already been dequeued):
* the snapshot shows the key of the pair exactly on `e` (while processed) and on `a` (while parked): ids are unique among the
  messages that reach the LP, and the id word / sequence number of a message in the history or on the early list do not change;
* `e` is dequeued with flag word `w`, only while it is not processed (it is in the queue) and not after the cancellation
  (its buffer is released then); `a` is dequeued with flag word `w + 1`, once;
* every other dequeued remote message has a different key;
* fossil collection does not release `e` or `a` (an event that can still be cancelled is not below the GVT). -/
def OkOp (P : Pair) (ev : Nat → Event) (d : Bool) (s : St σ) : Op → Prop
  | .msg i =>
    (∀ x ∈ pastMsgs s.lp.hist, (x = P.e → keyAt i.look x = P.key) ∧ (x ≠ P.e → keyAt i.look x ≠ P.key)) ∧
    (∀ b ∈ s.earlyAntis, (b = P.a → keyAt i.look b = P.key) ∧ (b ≠ P.a → keyAt i.look b ≠ P.key)) ∧
    (i.m = P.e → i.f = P.w ∧ (i.look i.m).mSeq = P.q ∧ P.e ∉ pastMsgs s.lp.hist ∧ (d = true → P.a ∈ s.earlyAntis)) ∧
    (i.m = P.a → i.f = P.w + 1 ∧ (i.look i.m).mSeq = P.q ∧ d = false) ∧
    (i.m ≠ P.e → i.m ≠ P.a →
      (i.f % 2 = 1 → 3 < i.f → i.antiKey ≠ P.key) ∧ (i.f % 2 = 0 → i.f ≠ 0 → i.eventKey ≠ P.key))
  | .ckpt => True
  | .fossil gvt ep => ∀ o, fossil (fun m => (ev m).t) s.lp gvt ep = some o →
      P.e ∉ frees (fossilFrees o.dropped) ∧ P.a ∉ frees (fossilFrees o.dropped)

/-- the environment's guarantees along a whole run -/
def Legal (P : Pair) (h : σ → Event → σ × List Event) (ev : Nat → Event) (remote : Nat → Bool) :
    Bool → St σ → List Op → Prop
  | _, _, [] => True
  | d, s, op :: ops => OkOp P ev d s op ∧
      ∀ s1 a1, stepOp h ev remote s op = some (s1, a1) → Legal P h ev remote (d || op.isA P) s1 ops

/-- the invariant of the pair; `F` = the buffers released so far -/
structure PInv (P : Pair) (d : Bool) (s : St σ) (F : List Nat) : Prop where
  e_not_early : P.e ∉ s.earlyAntis
  a_not_past : P.a ∉ pastMsgs s.lp.hist
  e_once : (pastMsgs s.lp.hist).count P.e ≤ 1
  a_once : s.earlyAntis.count P.a ≤ 1
  before : d = false → P.a ∉ s.earlyAntis ∧ F.count P.e = 0 ∧ F.count P.a = 0
  parked : d = true → P.a ∈ s.earlyAntis → P.e ∉ pastMsgs s.lp.hist ∧ F.count P.e = 0 ∧ F.count P.a = 0
  done : d = true → P.a ∉ s.earlyAntis → P.e ∉ pastMsgs s.lp.hist ∧ F.count P.e = 1 ∧ F.count P.a = 1

theorem not_mem_of_count_le {l1 l2 : List Nat} {x : Nat} (hc : l1.count x ≤ l2.count x) (hx : x ∉ l2) : x ∉ l1 := by
  rw [← List.count_eq_zero] at hx ⊢; omega

/-- an operation that neither adds the pair to the processed messages / the early list nor releases it keeps the invariant -/
theorem pinv_mono {P : Pair} {d : Bool} {s s1 : St σ} {F F1 : List Nat} (hinv : PInv P d s F)
    (hpe : (pastMsgs s1.lp.hist).count P.e ≤ (pastMsgs s.lp.hist).count P.e)
    (hpa : (pastMsgs s1.lp.hist).count P.a ≤ (pastMsgs s.lp.hist).count P.a)
    (hea : s1.earlyAntis.count P.a = s.earlyAntis.count P.a)
    (hee : P.e ∉ s1.earlyAntis)
    (hFe : F1.count P.e = F.count P.e) (hFa : F1.count P.a = F.count P.a) : PInv P d s1 F1 := by
  have hmem : P.a ∈ s1.earlyAntis ↔ P.a ∈ s.earlyAntis := by
    rw [← List.count_pos_iff, ← List.count_pos_iff, hea]
  refine ⟨hee, not_mem_of_count_le hpa hinv.a_not_past, by have := hinv.e_once; omega, by rw [hea]; exact hinv.a_once, ?_, ?_, ?_⟩
  · intro hd
    obtain ⟨h1, h2, h3⟩ := hinv.before hd
    exact ⟨fun hm => h1 (hmem.mp hm), by omega, by omega⟩
  · intro hd hm
    obtain ⟨h1, h2, h3⟩ := hinv.parked hd (hmem.mp hm)
    exact ⟨not_mem_of_count_le hpe h1, by omega, by omega⟩
  · intro hd hm
    obtain ⟨h1, h2, h3⟩ := hinv.done hd (fun hm' => hm (hmem.mpr hm'))
    exact ⟨not_mem_of_count_le hpe h1, by omega, by omega⟩

theorem count_pastMsgs_take_le (hist : List Entry) (k x : Nat) :
    (pastMsgs (hist.take k)).count x ≤ (pastMsgs hist).count x :=
  (pastMsgs_take_sub hist k).count_le x

theorem not_mem_take_of_once {hist : List Entry} {e i k : Nat} (hc : (pastMsgs hist).count e ≤ 1)
    (hi : hist[i]? = some (Entry.past e)) (hk : k ≤ i) : e ∉ pastMsgs (hist.take k) := by
  have hsplit : pastMsgs hist = pastMsgs (hist.take k) ++ pastMsgs (hist.drop k) := by
    rw [← pastMsgs_append, List.take_append_drop]
  have hmem : e ∈ pastMsgs (hist.drop k) := by
    rw [pastMsgs_mem]
    have : (hist.drop k)[i - k]? = some (Entry.past e) := by
      rw [List.getElem?_drop]; rw [show k + (i - k) = i by omega]; exact hi
    exact List.mem_of_getElem? this
  rw [hsplit, List.count_append] at hc
  have : 0 < (pastMsgs (hist.drop k)).count e := List.count_pos_iff.mpr hmem
  rw [← List.count_eq_zero]; omega

theorem count_two (F : List Nat) (x y z : Nat) : (F ++ [y, z]).count x = F.count x + (if y = x then 1 else 0) + (if z = x then 1 else 0) := by
  simp [List.count_append, List.count_cons]; omega

theorem count_one (F : List Nat) (x y : Nat) : (F ++ [y]).count x = F.count x + (if y = x then 1 else 0) := by
  simp [List.count_append, List.count_cons]


theorem mem_pastMsgs_of_getElem? {hist : List Entry} {i x : Nat} (hi : hist[i]? = some (Entry.past x)) :
    x ∈ pastMsgs hist := pastMsgs_mem.mpr (List.mem_of_getElem? hi)

theorem pinv_step_msg {P : Pair} (hP : P.Ok) {remote : Nat → Bool} {d : Bool} {s s1 : St σ} {F : List Nat} {i : Inp}
    {a1 : List Action} (hinv : PInv P d s F) (hI : LInv h ev init base s.lp) (hok : OkOp P ev d s (Op.msg i))
    (hs : step h ev i.look remote i.alloc s i.m i.f = some (s1, a1)) :
    PInv P (d || (Op.msg i).isA P) s1 (F ++ frees a1) := by
  obtain ⟨L1, L2, LE, LA, LO⟩ := hok
  have hne := hP.ne
  have hev := hP.even
  have hbig := hP.big
  rcases step_summary hI hs with ⟨h1, h2, hz, hh, he, hacts⟩ | ⟨h1, h2, j, x, k, hj, hx, hkx, hkj, hh, he, hfr⟩ |
    ⟨hf, k, hh, he, hfr⟩ | ⟨h1, h2, b, l1, l2, hl, hb, hl1, hh, he, hacts⟩ | ⟨h1, hno, k, hh, he, hfr⟩
  · -- a remote anti-message is parked
    have hfr : frees a1 = [] := by rw [hacts]; rfl
    rw [hfr, List.append_nil]
    have hme : i.m ≠ P.e := by
      intro hme; have := (LE hme).1; omega
    by_cases hma : i.m = P.a
    · obtain ⟨hfa, hq, hd⟩ := LA hma
      subst hd
      obtain ⟨b1, b2, b3⟩ := hinv.before rfl
      have henp : P.e ∉ pastMsgs s.lp.hist := by
        intro hmem
        have h1' := (L1 _ hmem).1 rfl
        have h2' := findRemote_zero hz _ hmem
        apply h2'; rw [h1', Pair.key, hfa, hq]
      have hd' : (false || (Op.msg i).isA P) = true := by simp [Op.isA, hma]
      rw [hd']
      refine ⟨?_, by rw [hh]; exact hinv.a_not_past, by rw [hh]; exact hinv.e_once, ?_, by simp, ?_, ?_⟩
      · rw [he, hma]; simp [hne, hinv.e_not_early]
      · rw [he, hma, List.count_cons_self, List.count_eq_zero.mpr b1]; omega
      · intro _ _; rw [hh]; exact ⟨henp, b2, b3⟩
      · intro _ hn; rw [he, hma] at hn; simp at hn
    · have hd' : (d || (Op.msg i).isA P) = d := by simp [Op.isA, hma]
      rw [hd']
      refine pinv_mono hinv (by rw [hh]; exact Nat.le_refl _) (by rw [hh]; exact Nat.le_refl _) ?_ ?_ rfl rfl
      · rw [he, List.count_cons_of_ne hma]
      · rw [he]; simp [hinv.e_not_early, Ne.symm hme]
  · -- a remote anti-message cancels the processed event `x`
    have hme : i.m ≠ P.e := by
      intro hme; have := (LE hme).1; omega
    have hxm := mem_pastMsgs_of_getElem? hx
    by_cases hma : i.m = P.a
    · obtain ⟨hfa, hq, hd⟩ := LA hma
      subst hd
      obtain ⟨b1, b2, b3⟩ := hinv.before rfl
      have hxe : x = P.e := by
        apply Classical.byContradiction
        intro hxe
        apply (L1 x hxm).2 hxe
        rw [hkx, Pair.key, hfa, hq]
      subst hxe
      have hd' : (false || (Op.msg i).isA P) = true := by simp [Op.isA, hma]
      rw [hd', hfr, hma]
      have henp : P.e ∉ pastMsgs s1.lp.hist := by rw [hh]; exact not_mem_take_of_once hinv.e_once hx hkj
      refine ⟨by rw [he]; exact hinv.e_not_early,
        by rw [hh]; exact not_mem_of_count_le (count_pastMsgs_take_le _ _ _) hinv.a_not_past,
        by rw [hh]; exact Nat.le_trans (count_pastMsgs_take_le _ _ _) hinv.e_once,
        by rw [he]; exact hinv.a_once, by simp, ?_, ?_⟩
      · intro _ hm; rw [he] at hm; exact absurd hm b1
      · intro _ _
        refine ⟨henp, ?_, ?_⟩
        · rw [count_two]; simp [hne.symm, b2]
        · rw [count_two]; simp [hne, b3]
    · have hd' : (d || (Op.msg i).isA P) = d := by simp [Op.isA, hma]
      rw [hd', hfr]
      have hkey := (LO hme hma).1 h1 h2
      have hxe : x ≠ P.e := by
        intro hxe; subst hxe
        apply hkey; rw [← (L1 _ hxm).1 rfl, hkx]; rfl
      have hxa : x ≠ P.a := fun hxa => hinv.a_not_past (hxa ▸ hxm)
      refine pinv_mono hinv (by rw [hh]; exact count_pastMsgs_take_le _ _ _) (by rw [hh]; exact count_pastMsgs_take_le _ _ _)
        (by rw [he]) (by rw [he]; exact hinv.e_not_early) ?_ ?_
      · rw [count_two]; simp [hxe, hme]
      · rw [count_two]; simp [hxa, hma]
  · -- a local anti-message
    have hme : i.m ≠ P.e := by
      intro hme; have := (LE hme).1; omega
    have hma : i.m ≠ P.a := by
      intro hma; have := (LA hma).1; omega
    have hd' : (d || (Op.msg i).isA P) = d := by simp [Op.isA, hma]
    rw [hd', hfr]
    refine pinv_mono hinv (by rw [hh]; exact count_pastMsgs_take_le _ _ _) (by rw [hh]; exact count_pastMsgs_take_le _ _ _)
      (by rw [he]) (by rw [he]; exact hinv.e_not_early) ?_ ?_
    · rw [count_one]; simp [hme]
    · rw [count_one]; simp [hma]
  · -- a remote event finds its anti-message waiting
    have hfr : frees a1 = [i.m, b] := by rw [hacts]; rfl
    have hma : i.m ≠ P.a := by
      intro hma; have := (LA hma).1; omega
    have hd' : (d || (Op.msg i).isA P) = d := by simp [Op.isA, hma]
    have hbm : b ∈ s.earlyAntis := by rw [hl]; simp
    rw [hd', hfr]
    by_cases hme : i.m = P.e
    · obtain ⟨hfe, hq, henp, hda⟩ := LE hme
      have hba : b = P.a := by
        apply Classical.byContradiction
        intro hba
        apply (L2 b hbm).2 hba
        rw [hb, Pair.key, hfe, hq]
      subst hba
      have hdt : d = true := by
        cases d with
        | true => rfl
        | false => exact absurd hbm (hinv.before rfl).1
      subst hdt
      obtain ⟨p1, p2, p3⟩ := hinv.parked rfl hbm
      have hcnt := hinv.a_once
      rw [hl, List.count_append, List.count_cons_self] at hcnt
      have hna : P.a ∉ s1.earlyAntis := by
        rw [he, ← List.count_eq_zero, List.count_append]; omega
      refine ⟨?_, by rw [hh]; exact hinv.a_not_past, by rw [hh]; exact hinv.e_once, ?_, by simp, ?_, ?_⟩
      · rw [he]; intro hm
        apply hinv.e_not_early; rw [hl]
        rcases List.mem_append.mp hm with hm | hm
        · exact List.mem_append_left _ hm
        · exact List.mem_append_right _ (List.mem_cons_of_mem _ hm)
      · rw [List.count_eq_zero.mpr hna]; omega
      · intro _ hm; exact absurd hm hna
      · intro _ _
        rw [hh, hme]
        refine ⟨p1, ?_, ?_⟩
        · rw [count_two]; simp [hne.symm, p2]
        · rw [count_two]; simp [hne, p3]
    · have hkey := (LO hme hma).2 h1 h2
      have hba : b ≠ P.a := by
        intro hba
        apply hkey; rw [← (L2 b hbm).1 hba, hb]; rfl
      have hbe : b ≠ P.e := fun hbe => hinv.e_not_early (hbe ▸ hbm)
      refine pinv_mono hinv (by rw [hh]; exact Nat.le_refl _) (by rw [hh]; exact Nat.le_refl _) ?_ ?_ ?_ ?_
      · rw [he, hl, List.count_append, List.count_append, List.count_cons_of_ne hba]
      · rw [he]; intro hm
        apply hinv.e_not_early; rw [hl]
        rcases List.mem_append.mp hm with hm | hm
        · exact List.mem_append_left _ hm
        · exact List.mem_append_right _ (List.mem_cons_of_mem _ hm)
      · rw [count_two]; simp [hme, hbe]
      · rw [count_two]; simp [hma, hba]
  · -- an ordinary message is processed
    have hma : i.m ≠ P.a := by
      intro hma; have := (LA hma).1; omega
    have hd' : (d || (Op.msg i).isA P) = d := by simp [Op.isA, hma]
    rw [hd', hfr, List.append_nil]
    by_cases hme : i.m = P.e
    · obtain ⟨hfe, hq, henp, hda⟩ := LE hme
      have hna : P.a ∉ s.earlyAntis := by
        intro hm
        rcases hno with h0 | hno
        · omega
        · apply hno _ hm
          rw [(L2 _ hm).1 rfl, Pair.key, hfe, hq]
      have hdf : d = false := by
        cases d with
        | false => rfl
        | true => exact absurd (hda rfl) hna
      subst hdf
      obtain ⟨b1, b2, b3⟩ := hinv.before rfl
      have hnt : P.e ∉ pastMsgs (s.lp.hist.take k) := not_mem_of_count_le (count_pastMsgs_take_le _ _ _) henp
      refine ⟨by rw [he]; exact hinv.e_not_early, ?_, ?_, by rw [he]; exact hinv.a_once, ?_, by simp, by simp⟩
      · rw [hh, hme]; intro hm
        rcases List.mem_append.mp hm with hm | hm
        · exact not_mem_of_count_le (count_pastMsgs_take_le _ _ _) hinv.a_not_past hm
        · simp at hm; exact hne hm.symm
      · rw [hh, hme, List.count_append, List.count_eq_zero.mpr hnt]; simp
      · intro _; rw [he]; exact ⟨b1, b2, b3⟩
    · refine pinv_mono hinv ?_ ?_ (by rw [he]) (by rw [he]; exact hinv.e_not_early) rfl rfl
      · rw [hh, List.count_append]
        have := count_pastMsgs_take_le s.lp.hist k P.e
        simp [List.count_cons, hme]; exact this
      · rw [hh, List.count_append]
        have := count_pastMsgs_take_le s.lp.hist k P.a
        simp [List.count_cons, hma]; exact this


theorem frees_fossilFrees_sub (dropped : List Entry) (x : Nat) (hx : x ∉ frees (fossilFrees dropped)) :
    (frees (fossilFrees dropped)).count x = 0 := List.count_eq_zero.mpr hx

theorem pinv_step {P : Pair} (hP : P.Ok) {remote : Nat → Bool} {d : Bool} {s s1 : St σ} {F : List Nat} {op : Op}
    {a1 : List Action} (hinv : PInv P d s F) (hE : ∃ base, LInv h ev init base s.lp) (hok : OkOp P ev d s op)
    (hs : stepOp h ev remote s op = some (s1, a1)) : PInv P (d || op.isA P) s1 (F ++ frees a1) := by
  obtain ⟨base, hI⟩ := hE
  cases op with
  | msg i => exact pinv_step_msg hP hinv hI hok hs
  | ckpt =>
    simp only [stepOp, Option.some.injEq, Prod.mk.injEq] at hs
    obtain ⟨rfl, rfl⟩ := hs
    have : (d || Op.ckpt.isA P) = d := by simp [Op.isA]
    rw [this]
    exact pinv_mono hinv (Nat.le_refl _) (Nat.le_refl _) rfl hinv.e_not_early (by simp [frees]) (by simp [frees])
  | fossil gvt ep =>
    have : (d || (Op.fossil gvt ep).isA P) = d := by simp [Op.isA]
    rw [this]
    simp only [stepOp] at hs
    split at hs
    · rename_i o ho
      simp only [Option.some.injEq, Prod.mk.injEq] at hs
      obtain ⟨rfl, rfl⟩ := hs
      obtain ⟨he, ha⟩ := hok o ho
      obtain ⟨hh, _⟩ := fossil_inv hI _ gvt ep ho
      have hsub : (pastMsgs o.lp.hist).Sublist (pastMsgs s.lp.hist) := by
        rw [hh, pastMsgs_append]; exact List.sublist_append_right _ _
      refine pinv_mono hinv (hsub.count_le _) (hsub.count_le _) rfl hinv.e_not_early ?_ ?_
      · rw [List.count_append, List.count_eq_zero.mpr he]; rfl
      · rw [List.count_append, List.count_eq_zero.mpr ha]; rfl
    · simp only [Option.some.injEq, Prod.mk.injEq] at hs
      obtain ⟨rfl, rfl⟩ := hs
      exact pinv_mono hinv (Nat.le_refl _) (Nat.le_refl _) rfl hinv.e_not_early (by simp [frees]) (by simp [frees])

theorem acts_cons (x : St σ × Op × List Action) (T : Trace σ) : Trace.acts (x :: T) = x.2.2 ++ Trace.acts T := by
  simp [Trace.acts]

theorem acts_append (T1 T2 : Trace σ) : Trace.acts (T1 ++ T2) = Trace.acts T1 ++ Trace.acts T2 := by
  simp [Trace.acts]

theorem pinv_run {P : Pair} (hP : P.Ok) {remote : Nat → Bool} : ∀ (ops : List Op) (d : Bool) (s s' : St σ) (F : List Nat)
    (T : Trace σ), PInv P d s F → (∃ base, LInv h ev init base s.lp) → Legal P h ev remote d s ops →
    run h ev remote s ops = some (s', T) →
    PInv P (d || ops.any (fun op => op.isA P)) s' (F ++ frees (Trace.acts T))
  | [], d, s, s', F, T, hinv, _, _, hr => by
    simp only [run, Option.some.injEq, Prod.mk.injEq] at hr
    obtain ⟨rfl, rfl⟩ := hr
    simpa [Trace.acts, frees] using hinv
  | op :: ops, d, s, s', F, T, hinv, hE, hl, hr => by
    simp only [run] at hr
    split at hr
    · simp at hr
    · rename_i r hso
      split at hr
      · simp at hr
      · rename_i r2 hr2
        simp only [Option.some.injEq, Prod.mk.injEq] at hr
        obtain ⟨rfl, rfl⟩ := hr
        obtain ⟨s1, a1⟩ := r
        obtain ⟨s2, T2⟩ := r2
        have h1 := pinv_step hP hinv hE hl.1 hso
        have hE1 := stepOp_exact hE hso
        have h2 := pinv_run hP ops _ s1 s2 _ T2 h1 hE1 (hl.2 s1 a1 hso) hr2
        simp only [List.any_cons, acts_cons, frees_append]
        rw [← Bool.or_assoc, ← List.append_assoc]
        exact h2

theorem run_append {remote : Nat → Bool} : ∀ (o1 o2 : List Op) (s s' : St σ) (T : Trace σ),
    run h ev remote s (o1 ++ o2) = some (s', T) →
    ∃ s1 T1 T2, run h ev remote s o1 = some (s1, T1) ∧ run h ev remote s1 o2 = some (s', T2) ∧ T = T1 ++ T2
  | [], o2, s, s', T, hr => ⟨s, [], T, rfl, hr, rfl⟩
  | op :: o1, o2, s, s', T, hr => by
    simp only [List.cons_append, run] at hr
    split at hr
    · simp at hr
    · rename_i r hso
      split at hr
      · simp at hr
      · rename_i r2 hr2
        simp only [Option.some.injEq, Prod.mk.injEq] at hr
        obtain ⟨rfl, rfl⟩ := hr
        obtain ⟨s1, T1, T2, q1, q2, q3⟩ := run_append o1 o2 r.1 r2.1 r2.2 hr2
        refine ⟨s1, (s, op, r.2) :: T1, T2, ?_, q2, by rw [q3]; rfl⟩
        simp only [run, hso, q1]

theorem legal_append {P : Pair} {remote : Nat → Bool} : ∀ (o1 o2 : List Op) (d : Bool) (s s1 : St σ) (T1 : Trace σ),
    Legal P h ev remote d s (o1 ++ o2) → run h ev remote s o1 = some (s1, T1) →
    Legal P h ev remote (d || o1.any (fun op => op.isA P)) s1 o2
  | [], o2, d, s, s1, T1, hl, hr => by
    simp only [run, Option.some.injEq, Prod.mk.injEq] at hr
    obtain ⟨rfl, _⟩ := hr
    simpa using hl
  | op :: o1, o2, d, s, s1, T1, hl, hr => by
    simp only [run] at hr
    split at hr
    · simp at hr
    · rename_i r hso
      split at hr
      · simp at hr
      · rename_i r2 hr2
        simp only [Option.some.injEq, Prod.mk.injEq] at hr
        obtain ⟨rfl, _⟩ := hr
        have := legal_append o1 o2 _ r.1 r2.1 r2.2 (hl.2 r.1 r.2 (by rw [hso])) (by rw [hr2])
        simp only [List.any_cons]
        rw [← Bool.or_assoc]
        exact this

theorem legal_prefix {P : Pair} {remote : Nat → Bool} : ∀ (o1 o2 : List Op) (d : Bool) (s : St σ),
    Legal P h ev remote d s (o1 ++ o2) → Legal P h ev remote d s o1
  | [], _, _, _, _ => trivial
  | op :: o1, o2, d, s, hl => ⟨hl.1, fun s1 a1 hso => legal_prefix o1 o2 _ s1 (hl.2 s1 a1 hso)⟩

/-- the anti-message finds its event processed: it is not parked -/
theorem a_step_done {P : Pair} (hP : P.Ok) {remote : Nat → Bool} {s s1 : St σ} {F : List Nat} {i : Inp} {a1 : List Action}
    (hinv : PInv P false s F) (hI : LInv h ev init base s.lp) (hok : OkOp P ev false s (Op.msg i)) (hma : i.m = P.a)
    (hep : P.e ∈ pastMsgs s.lp.hist)
    (hs : step h ev i.look remote i.alloc s i.m i.f = some (s1, a1)) : P.a ∉ s1.earlyAntis := by
  obtain ⟨L1, _, _, LA, _⟩ := hok
  obtain ⟨hfa, hq, _⟩ := LA hma
  have hev := hP.even
  have hbig := hP.big
  rcases step_summary hI hs with ⟨_, _, hz, _, _, _⟩ | ⟨_, _, j, x, k, _, _, _, _, _, he, _⟩ |
    ⟨hf, _⟩ | ⟨h1, _⟩ | ⟨h1, _⟩
  · exfalso
    apply findRemote_zero hz _ hep
    rw [(L1 _ hep).1 rfl, Pair.key, hfa, hq]
  · rw [he]; exact (hinv.before rfl).1
  · omega
  · omega
  · omega

/-- the event finds its anti-message waiting: the anti-message leaves the list -/
theorem e_step_done {P : Pair} (hP : P.Ok) {remote : Nat → Bool} {d : Bool} {s s1 : St σ} {F : List Nat} {i : Inp}
    {a1 : List Action} (hinv : PInv P d s F) (hI : LInv h ev init base s.lp) (hok : OkOp P ev d s (Op.msg i))
    (hme : i.m = P.e) (hap : P.a ∈ s.earlyAntis)
    (hs : step h ev i.look remote i.alloc s i.m i.f = some (s1, a1)) : P.a ∉ s1.earlyAntis := by
  obtain ⟨_, L2, LE, _, _⟩ := hok
  obtain ⟨hfe, hq, _, _⟩ := LE hme
  have hev := hP.even
  have hbig := hP.big
  rcases step_summary hI hs with ⟨h1, _⟩ | ⟨h1, _⟩ | ⟨hf, _⟩ | ⟨_, _, b, l1, l2, hl, hb, _, _, he, _⟩ | ⟨_, hno, _⟩
  · omega
  · omega
  · omega
  · have hbm : b ∈ s.earlyAntis := by rw [hl]; simp
    have hba : b = P.a := by
      apply Classical.byContradiction
      intro hba
      apply (L2 b hbm).2 hba
      rw [hb, Pair.key, hfe, hq]
    subst hba
    have hcnt := hinv.a_once
    rw [hl, List.count_append, List.count_cons_self] at hcnt
    rw [he, ← List.count_eq_zero, List.count_append]; omega
  · exfalso
    rcases hno with h0 | hno
    · omega
    · apply hno _ hap
      rw [(L2 _ hap).1 rfl, Pair.key, hfe, hq]

theorem count_append_ge (F G : List Nat) (x : Nat) : F.count x ≤ (F ++ G).count x := by
  rw [List.count_append]; omega


/-- neither message of the pair has been seen by the LP yet -/
def Pair.Fresh (P : Pair) (s : St σ) : Prop :=
  P.e ∉ pastMsgs s.lp.hist ∧ P.a ∉ pastMsgs s.lp.hist ∧ P.e ∉ s.earlyAntis ∧ P.a ∉ s.earlyAntis

theorem pinv_init {P : Pair} {s : St σ} (hf : P.Fresh s) : PInv P false s [] := by
  obtain ⟨h1, h2, h3, h4⟩ := hf
  refine ⟨h3, h2, by rw [List.count_eq_zero.mpr h1]; omega, by rw [List.count_eq_zero.mpr h4]; omega, ?_, by simp, by simp⟩
  intro _; exact ⟨h4, rfl, rfl⟩

/-- once the pair is cancelled it stays cancelled: with `d = true`, "the anti-message has been released" excludes "parked" -/
theorem done_of_count {P : Pair} {s : St σ} {F : List Nat} (hinv : PInv P true s F) (hc : 1 ≤ F.count P.a) :
    P.e ∉ pastMsgs s.lp.hist ∧ P.a ∉ s.earlyAntis ∧ F.count P.e = 1 ∧ F.count P.a = 1 := by
  have hna : P.a ∉ s.earlyAntis := by
    intro hm
    have := (hinv.parked rfl hm).2.2
    omega
  obtain ⟨h1, h2, h3⟩ := hinv.done rfl hna
  exact ⟨h1, hna, h2, h3⟩

theorem remote_cancel_core {P : Pair} (hP : P.Ok) {remote : Nat → Bool} {s0 s' : St σ} {T : Trace σ}
    (hE : ∃ base, LInv h ev init base s0.lp) (hfresh : P.Fresh s0)
    (pre post : List Op) (iA : Inp) (hA : iA.m = P.a)
    (hlegal : Legal P h ev remote false s0 (pre ++ Op.msg iA :: post))
    (hrun : run h ev remote s0 (pre ++ Op.msg iA :: post) = some (s', T))
    (hcomplete : (∃ s1 T1, run h ev remote s0 pre = some (s1, T1) ∧ P.e ∈ pastMsgs s1.lp.hist) ∨
                 (∃ op ∈ post, op.isE P = true)) :
    P.e ∉ pastMsgs s'.lp.hist ∧ P.a ∉ s'.earlyAntis ∧
    (frees (Trace.acts T)).count P.e = 1 ∧ (frees (Trace.acts T)).count P.a = 1 := by
  obtain ⟨s1, T1, Tr, hr1, hrr, rfl⟩ := run_append pre _ s0 s' T hrun
  have hinv1 := pinv_run hP pre false s0 s1 [] T1 (pinv_init hfresh) hE (legal_prefix pre _ _ _ hlegal) hr1
  have hE1 := run_exact pre s0 s1 T1 hE hr1
  have hl1 := legal_append pre _ false s0 s1 T1 hlegal hr1
  -- the anti-message is dequeued for the first time here
  have hd1 : (false || pre.any (fun op => op.isA P)) = false := by
    have := hl1.1.2.2.2.1 hA
    exact this.2.2
  rw [hd1] at hinv1 hl1
  simp only [List.nil_append] at hinv1
  -- the step of the anti-message
  simp only [run] at hrr
  split at hrr
  · simp at hrr
  · rename_i r hso
    split at hrr
    · simp at hrr
    · rename_i r2 hr2
      simp only [Option.some.injEq, Prod.mk.injEq] at hrr
      obtain ⟨rfl, rfl⟩ := hrr
      obtain ⟨s2, aA⟩ := r
      obtain ⟨s3, Tp⟩ := r2
      simp only at hr2 hso ⊢
      have hinv2 := pinv_step hP hinv1 hE1 hl1.1 hso
      have hE2 := stepOp_exact hE1 hso
      have hl2 := hl1.2 s2 aA hso
      have hdA : (false || (Op.msg iA).isA P) = true := by simp [Op.isA, hA]
      rw [hdA] at hinv2 hl2
      rw [acts_append, acts_cons, frees_append, frees_append]
      simp only
      rcases hcomplete with ⟨s1', T1', hr1', hep⟩ | ⟨opE, hmem, hisE⟩
      · -- the event is processed when the anti-message arrives
        rw [hr1] at hr1'; cases hr1'
        obtain ⟨base1, hI1⟩ := hE1
        have hna := a_step_done hP hinv1 hI1 hl1.1 hA hep hso
        have hc2 := (hinv2.done rfl hna).2.2
        have hinv3 := pinv_run hP post true s2 s3 _ Tp hinv2 hE2 hl2 hr2
        simp only [Bool.true_or] at hinv3
        have := done_of_count hinv3 (by
          have := count_append_ge (frees (Trace.acts T1) ++ frees aA) (frees (Trace.acts Tp)) P.a
          omega)
        rw [List.append_assoc] at this
        exact this
      · -- the event is dequeued after the anti-message
        obtain ⟨p1, p2, rfl⟩ := List.append_of_mem hmem
        obtain ⟨s4, T4, T5, hr4, hr5, rfl⟩ := run_append p1 _ s2 s3 Tp hr2
        have hinv4 := pinv_run hP p1 true s2 s4 _ T4 hinv2 hE2 (legal_prefix p1 _ _ _ hl2) hr4
        have hE4 := run_exact p1 s2 s4 T4 hE2 hr4
        have hl4 := legal_append p1 _ true s2 s4 T4 hl2 hr4
        simp only [Bool.true_or] at hinv4 hl4
        cases opE with
        | ckpt => simp [Op.isE] at hisE
        | fossil gvt ep => simp [Op.isE] at hisE
        | msg iE =>
          have hmE : iE.m = P.e := by simpa [Op.isE] using hisE
          have hap : P.a ∈ s4.earlyAntis := (hl4.1.2.2.1 hmE).2.2.2 rfl
          simp only [run] at hr5
          split at hr5
          · simp at hr5
          · rename_i r5 hso5
            split at hr5
            · simp at hr5
            · rename_i r6 hr6
              simp only [Option.some.injEq, Prod.mk.injEq] at hr5
              obtain ⟨rfl, rfl⟩ := hr5
              obtain ⟨s5, aE⟩ := r5
              obtain ⟨s6, T6⟩ := r6
              simp only at hr6 hso5 ⊢
              obtain ⟨base4, hI4⟩ := hE4
              have hna := e_step_done hP hinv4 hI4 hl4.1 hmE hap hso5
              have hinv5 := pinv_step hP hinv4 ⟨base4, hI4⟩ hl4.1 hso5
              have hE5 := stepOp_exact ⟨base4, hI4⟩ hso5
              have hl5 := hl4.2 s5 aE hso5
              simp only [Bool.true_or] at hinv5 hl5
              have hc5 := (hinv5.done rfl hna).2.2
              have hinv6 := pinv_run hP p2 true s5 s6 _ T6 hinv5 hE5 hl5 hr6
              simp only [Bool.true_or] at hinv6
              have := done_of_count hinv6 (by
                have := count_append_ge (frees (Trace.acts T1) ++ frees aA ++ frees (Trace.acts T4) ++ frees aE)
                  (frees (Trace.acts T6)) P.a
                omega)
              rw [acts_append, acts_cons, frees_append, frees_append]
              simp only
              simpa [List.append_assoc] using this

/-! ### hypotheses of `earlyAntis_eq_waiting` from the inputs alone -/

theorem run_ops {remote : Nat → Bool} : ∀ (ops : List Op) (s s' : St σ) (T : Trace σ),
    run h ev remote s ops = some (s', T) → T.map (fun x => x.2.1) = ops
  | [], s, s', T, hr => by
    simp only [run, Option.some.injEq, Prod.mk.injEq] at hr
    rw [← hr.2]; rfl
  | op :: ops, s, s', T, hr => by
    simp only [run] at hr
    split at hr
    · simp at hr
    · rename_i r hso
      split at hr
      · simp at hr
      · rename_i r2 hr2
        simp only [Option.some.injEq, Prod.mk.injEq] at hr
        rw [← hr.2]
        simp only [List.map_cons]
        rw [run_ops ops r.1 r2.1 r2.2 (by rw [hr2])]

/-- the key a dequeued remote anti-message carries (`none`: the operation is not the dequeue of a remote anti-message) -/
def Op.antiKey? : Op → Option (Nat × Nat)
  | .msg i => if i.f % 2 = 1 ∧ 3 < i.f then some i.antiKey else none
  | _ => none

theorem parkedBy_some {x : St σ × Op × List Action} {aK : Nat × (Nat × Nat)} (hp : parkedBy x = some aK) :
    ∃ i, x.2.1 = Op.msg i ∧ i.f % 2 = 1 ∧ 3 < i.f ∧ aK = (i.m, i.antiKey) := by
  unfold parkedBy at hp
  split at hp
  · rename_i i hi
    split at hp
    · rename_i hc
      simp only [Option.some.injEq] at hp
      exact ⟨i, hi, hc.1, hc.2.1, hp.symm⟩
    · simp at hp
  · simp at hp

theorem parked_keys_sublist : ∀ (T : Trace σ),
    ((T.filterMap parkedBy).map (·.2)).Sublist ((T.map (fun x => x.2.1)).filterMap Op.antiKey?)
  | [] => by simp
  | x :: T => by
    have ih := parked_keys_sublist T
    simp only [List.filterMap_cons, List.map_cons]
    cases hp : parkedBy x with
    | none =>
      simp only
      cases Op.antiKey? x.2.1 with
      | none => exact ih
      | some k => exact ih.trans (List.sublist_cons_self _ _)
    | some aK =>
      obtain ⟨i, hi, h1, h2, rfl⟩ := parkedBy_some hp
      have : Op.antiKey? x.2.1 = some i.antiKey := by rw [hi]; simp [Op.antiKey?, h1, h2]
      rw [this]
      simp only [List.map_cons]
      exact ih.cons₂ _

/-- dequeued remote anti-messages with pairwise different (id, seq): the parked ones too -/
theorem parked_nodup_of_ops {remote : Nat → Bool} {ops : List Op} {s s' : St σ} {T : Trace σ}
    (hr : run h ev remote s ops = some (s', T)) (hnd : (ops.filterMap Op.antiKey?).Nodup) :
    ((T.filterMap parkedBy).map (·.2)).Nodup := by
  have := parked_keys_sublist T
  rw [run_ops ops s s' T hr] at this
  exact List.Nodup.sublist this hnd

/-- one snapshot function for the whole run that shows, on every remote anti-message, the key it is dequeued with: the keys
are stable -/
theorem keysStable_of_const {remote : Nat → Bool} {ops : List Op} {s s' : St σ} {T : Trace σ} (lk : Nat → Msg)
    (hr : run h ev remote s ops = some (s', T))
    (hlk : ∀ op ∈ ops, ∀ i, op = Op.msg i → i.look = lk ∧ (i.f % 2 = 1 → 3 < i.f → keyAt lk i.m = i.antiKey)) :
    KeysStable T := by
  have hops := run_ops ops s s' T hr
  have hmem : ∀ y ∈ T, y.2.1 ∈ ops := fun y hy => by rw [← hops]; exact List.mem_map_of_mem hy
  intro pre x post hT aK haK i hi _ _
  have h1 : aK ∈ (pre.filterMap parkedBy).reverse := (waiting_sublist pre).subset haK
  rw [List.mem_reverse, List.mem_filterMap] at h1
  obtain ⟨y, hy, hp⟩ := h1
  obtain ⟨j, hj, q1, q2, rfl⟩ := parkedBy_some hp
  have hyT : y ∈ T := by rw [hT]; exact List.mem_append_left _ hy
  have hxT : x ∈ T := by rw [hT]; simp
  have hj' := hlk _ (hmem y hyT) j hj
  have hi' := hlk _ (hmem x hxT) i hi
  rw [hi'.1]
  exact hj'.2 q1 q2

/-! ### decidability of the environment's guarantees (for the non-vacuity examples) -/

instance decOkOp (P : Pair) (ev : Nat → Event) (d : Bool) (s : St σ) : (op : Op) → Decidable (OkOp P ev d s op)
  | .msg i =>
    have i1 : Decidable (∀ x ∈ pastMsgs s.lp.hist, (x = P.e → keyAt i.look x = P.key) ∧ (x ≠ P.e → keyAt i.look x ≠ P.key)) :=
      inferInstance
    have i2 : Decidable (∀ b ∈ s.earlyAntis, (b = P.a → keyAt i.look b = P.key) ∧ (b ≠ P.a → keyAt i.look b ≠ P.key)) :=
      inferInstance
    have i3 : Decidable (i.m = P.e → i.f = P.w ∧ (i.look i.m).mSeq = P.q ∧ P.e ∉ pastMsgs s.lp.hist ∧
        (d = true → P.a ∈ s.earlyAntis)) := inferInstance
    have i4 : Decidable (i.m = P.a → i.f = P.w + 1 ∧ (i.look i.m).mSeq = P.q ∧ d = false) := inferInstance
    have i5 : Decidable (i.m ≠ P.e → i.m ≠ P.a →
        (i.f % 2 = 1 → 3 < i.f → i.antiKey ≠ P.key) ∧ (i.f % 2 = 0 → i.f ≠ 0 → i.eventKey ≠ P.key)) := inferInstance
    @instDecidableAnd _ _ i1 (@instDecidableAnd _ _ i2 (@instDecidableAnd _ _ i3 (@instDecidableAnd _ _ i4 i5)))
  | .ckpt => isTrue trivial
  | .fossil gvt ep =>
    match hf : fossil (fun m => (ev m).t) s.lp gvt ep with
    | some o => decidable_of_iff (P.e ∉ frees (fossilFrees o.dropped) ∧ P.a ∉ frees (fossilFrees o.dropped))
        ⟨fun hh o' ho' => by rw [hf] at ho'; cases ho'; exact hh, fun hh => hh o hf⟩
    | none => isTrue (fun o ho => by rw [hf] at ho; cases ho)

instance decLegal (P : Pair) (h : σ → Event → σ × List Event) (ev : Nat → Event) (remote : Nat → Bool) :
    (ops : List Op) → (d : Bool) → (s : St σ) → Decidable (Legal P h ev remote d s ops)
  | [], _, _ => isTrue trivial
  | op :: ops, d, s =>
    match hs : stepOp h ev remote s op with
    | some r =>
      have := decLegal P h ev remote ops (d || op.isA P) r.1
      decidable_of_iff (OkOp P ev d s op ∧ Legal P h ev remote (d || op.isA P) r.1 ops)
        ⟨fun hh => ⟨hh.1, fun s1 a1 hs1 => by rw [hs] at hs1; cases hs1; exact hh.2⟩,
         fun hh => ⟨hh.1, hh.2 r.1 r.2 (by rw [hs])⟩⟩
    | none => decidable_of_iff (OkOp P ev d s op)
        ⟨fun hh => ⟨hh, fun s1 a1 hs1 => by rw [hs] at hs1; cases hs1⟩, fun hh => hh.1⟩

end RootSim.LPFull
