import RootSim.Model.MsgAutoRemote
/-!
Uniqueness of the identifiers `(raw_flags & ~3, m_seq)` by which a remote anti-message is matched with
its message (`gvt_remote_msg_send`, `gvt_remote_anti_msg_send`, `gvt_remote_msg_receive` in `gvt/gvt.h`).
-/
namespace RootSim.MsgAuto

/-- the three bit fields do not overlap, so the `|` is an addition -/
theorem stampFlags_eq (nid rid phase : Nat) (hn : nid < 65536) (hr : rid + 1 < 4096) (hp : phase < 2) :
    stampFlags nid rid phase = nid * 16384 + (rid + 1) * 4 + phase := by
  unfold stampFlags
  have h1 : (rid + 1) <<< 2 ||| phase = (rid + 1) <<< 2 + phase :=
    (Nat.shiftLeft_add_eq_or_of_lt (i := 2) (by omega : phase < 2 ^ 2) (rid + 1)).symm
  have h2 : (rid + 1) <<< 2 + phase < 2 ^ (MAX_THREADS_EXP + 2) := by
    rw [Nat.shiftLeft_eq]; simp only [MAX_THREADS_EXP]; omega
  rw [Nat.or_assoc, h1, ← Nat.shiftLeft_add_eq_or_of_lt h2 nid, Nat.shiftLeft_eq, Nat.shiftLeft_eq]
  simp only [MAX_THREADS_EXP, W32]; omega

theorem recvId_stamp (nid rid phase : Nat) (hn : nid < 65536) (hr : rid + 1 < 4096) (hp : phase < 2) :
    recvId (stampFlags nid rid phase) = nid * 16384 + (rid + 1) * 4 := by
  rw [stampFlags_eq nid rid phase hn hr hp]; unfold recvId; omega

/-- the id received is a multiple of four and at least 4: `last_flags > 3` identifies the remote path -/
theorem recvId_ge_four (nid rid phase : Nat) (hn : nid < 65536) (hr : rid + 1 < 4096) (hp : phase < 2) :
    4 ≤ recvId (stampFlags nid rid phase) ∧ recvId (stampFlags nid rid phase) % 4 = 0 ∧
    recvId (stampFlags nid rid phase) + 8 < W32 := by
  rw [recvId_stamp nid rid phase hn hr hp]; simp only [W32]; omega

/-- different sending threads (anywhere in the system) stamp different ids -/
theorem stamp_inj (n1 r1 p1 n2 r2 p2 : Nat) (hn1 : n1 < 65536) (hr1 : r1 + 1 < 4096) (hp1 : p1 < 2)
    (hn2 : n2 < 65536) (hr2 : r2 + 1 < 4096) (hp2 : p2 < 2)
    (h : recvId (stampFlags n1 r1 p1) = recvId (stampFlags n2 r2 p2)) : n1 = n2 ∧ r1 = r2 := by
  rw [recvId_stamp n1 r1 p1 hn1 hr1 hp1, recvId_stamp n2 r2 p2 hn2 hr2 hp2] at h; omega

theorem stampSeq_eq (c phase : Nat) (hp : phase < 2) : stampSeq c phase = 2 * (c % 2147483648) + phase := by
  unfold stampSeq
  have h0 : ((c % W32) <<< 1) % W32 = (c % 2147483648) <<< 1 := by
    rw [Nat.shiftLeft_eq, Nat.shiftLeft_eq]; simp only [W32]; omega
  rw [h0, ← Nat.shiftLeft_add_eq_or_of_lt (i := 1) (by omega : phase < 2 ^ 1), Nat.shiftLeft_eq]; omega

/-- equal sequence stamps: same phase, counters congruent modulo `2^31` -/
theorem stampSeq_inj (c1 p1 c2 p2 : Nat) (hp1 : p1 < 2) (hp2 : p2 < 2)
    (h : stampSeq c1 p1 = stampSeq c2 p2) : p1 = p2 ∧ c1 % 2147483648 = c2 % 2147483648 := by
  rw [stampSeq_eq c1 p1 hp1, stampSeq_eq c2 p2 hp2] at h; omega

/-- every counter value logged by `sendLog c ops` for `(phase, dest)` is at least the current value -/
theorem sendLog_ge (c : SendCtr) (ops : List SendOp) (d ph v : Nat) (h : (d, ph, v) ∈ sendLog c ops) :
    c.seq ph d ≤ v := by
  induction ops generalizing c with
  | nil => simp [sendLog] at h
  | cons op ops ih =>
    cases op with
    | msg ph' d' =>
      simp only [sendLog, List.mem_cons, Prod.mk.injEq] at h
      rcases h with ⟨rfl, rfl, rfl⟩ | h
      · exact Nat.le_refl _
      · have := ih (c.bump ph' d') h
        simp only [SendCtr.bump] at this
        split at this <;> omega
    | anti ph' d' =>
      simp only [sendLog] at h
      have := ih (c.bump ph' d') h
      simp only [SendCtr.bump] at this
      split at this <;> omega

/-- the counter values a thread uses for the same `(dest, phase)` strictly increase: every send
(message or anti-message) increments the counter -/
theorem sendLog_increasing (c : SendCtr) (ops : List SendOp) :
    (sendLog c ops).Pairwise (fun a b => a.1 = b.1 → a.2.1 = b.2.1 → a.2.2 < b.2.2) := by
  induction ops generalizing c with
  | nil => simp [sendLog]
  | cons op ops ih =>
    cases op with
    | msg ph d =>
      simp only [sendLog, List.pairwise_cons]
      refine ⟨?_, ih _⟩
      rintro ⟨d', ph', v⟩ hb hd hph
      simp only at hd hph
      subst hd; subst hph
      have := sendLog_ge (c.bump ph d) ops d ph v hb
      simp [SendCtr.bump] at this
      show c.seq ph d < v
      omega
    | anti ph d => simp only [sendLog]; exact ih _

end RootSim.MsgAuto
