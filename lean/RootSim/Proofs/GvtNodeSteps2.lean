import RootSim.Proofs.GvtNodeSteps1
/-! Helper lemmas for the steps that touch one thread and its node (`report`, `collective`, `poll`). -/
namespace RootSim.GvtNode

theorem all_set_same {α} (p : α → Bool) (l : List α) (i : Nat) (a b : α) (h : l[i]? = some a)
    (hp : p b = p a) : (l.set i b).all p = l.all p := by
  induction l generalizing i with
  | nil => simp at h
  | cons x l ih =>
    cases i with
    | zero => simp at h; subst h; simp [hp]
    | succ i => simp at h; simp [ih i h]

/-- a node step that leaves `contrib` alone does not change the collective -/
theorem contrib_same (s s' : St) (k0 : Nat) (nd nd' : Node) (h : s.nodes[k0]? = some nd)
    (hn : s'.nodes = s.nodes.set k0 nd') (hc : nd'.contrib = nd.contrib) (k : Nat) :
    allContrib s' = allContrib s ∧ scatter s' k = scatter s k := by
  simp only [allContrib, scatter, hn]
  exact ⟨all_set_same _ _ _ _ _ h (by simp [hc]), sumBy_set_same _ _ _ _ _ h (by simp [hc])⟩

/-- thread counters of the nodes other than the one of the stepping thread -/
theorem counts_other (s s' : St) (t : Nat) (th th' : Thr) (h : s.thr[t]? = some th)
    (hn : th'.node = th.node) (hs' : s'.thr = s.thr.set t th') (k : Nat) (hk : k ≠ th.node) :
    nThr s' k = nThr s k ∧ nReported s' k = nReported s k ∧ nRedWait s' k = nRedWait s k := by
  simp only [nThr, nReported, nRedWait, hs']
  have : th.node ≠ k := fun h => hk h.symm
  refine ⟨countP_set_same _ _ _ _ _ h ?_, countP_set_same _ _ _ _ _ h ?_, countP_set_same _ _ _ _ _ h ?_⟩ <;>
    simp [hn, this]

/-- thread counters of the node of the stepping thread -/
theorem counts_own (s s' : St) (t : Nat) (th th' : Thr) (h : s.thr[t]? = some th)
    (hn : th'.node = th.node) (hs' : s'.thr = s.thr.set t th') :
    nThr s' th.node = nThr s th.node ∧
    nReported s' th.node + (if th.stage.reported then 1 else 0)
      = nReported s th.node + (if th'.stage.reported then 1 else 0) ∧
    nRedWait s' th.node + (if th.stage = .reduceWait then 1 else 0)
      = nRedWait s th.node + (if th'.stage = .reduceWait then 1 else 0) := by
  simp only [nThr, nReported, nRedWait, hs']
  refine ⟨countP_set_same _ _ _ _ _ h (by simp [hn]), ?_, ?_⟩
  · have := countP_set' (fun th0 : Thr => th0.node = th.node && th0.stage.reported) s.thr t th th' h
    simpa [hn] using this
  · have := countP_set' (fun th0 : Thr => decide (th0.node = th.node) && decide (th0.stage = .reduceWait))
      s.thr t th th' h
    simpa [hn] using this

/-- a thread of node `k` that has not reported: fewer than `nThr` have -/
theorem nReported_lt (s : St) (t : Nat) (th : Thr) (h : s.thr[t]? = some th)
    (hr : th.stage.reported = false) : nReported s th.node < nThr s th.node := by
  have h1 := countP_set' (fun th0 : Thr => th0.node = th.node && th0.stage.reported) s.thr t th
    { th with stage := .wait } h
  have h2 := countP_set_same (fun th0 : Thr => decide (th0.node = th.node)) s.thr t th
    { th with stage := .wait } h (by simp)
  have h3 : List.countP (fun th0 : Thr => th0.node = th.node && th0.stage.reported)
      (s.thr.set t { th with stage := .wait }) ≤
      List.countP (fun th0 : Thr => decide (th0.node = th.node)) (s.thr.set t { th with stage := .wait }) :=
    List.countP_mono_left (by intro x _; simp; intro a _; exact a)
  have hw : Stage.reported .wait = true := rfl
  simp [hr, hw] at h1
  simp only [nReported, nThr]; omega

/-- how the three sums of the balance move when thread `t` and node `k0` are replaced -/
theorem sums_step (old : Bool) (s s' : St) (t k0 : Nat) (th th' : Thr) (nd nd' : Node)
    (h : s.thr[t]? = some th) (hnd : s.nodes[k0]? = some nd)
    (hthr : s'.thr = s.thr.set t th') (hnodes : s'.nodes = s.nodes.set k0 nd') (k : Nat) :
    reportedTo s' k + (eff nd).count k = reportedTo s k + (eff nd').count k ∧
    unreportedTo old s' k + (th.unrep.get old).count k
      = unreportedTo old s k + (th'.unrep.get old).count k ∧
    unpolledAt old s' k + (if th.node = k then th.recv.get old else 0)
      = unpolledAt old s k + (if th'.node = k then th'.recv.get old else 0) := by
  simp only [reportedTo, unreportedTo, unpolledAt, hthr, hnodes]
  exact ⟨sumBy_set _ _ _ _ _ hnd, sumBy_set _ _ _ _ _ h, sumBy_set _ _ _ _ _ h⟩

end RootSim.GvtNode
