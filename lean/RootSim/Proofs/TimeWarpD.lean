import RootSim.Model.TimeWarpD
import RootSim.Proofs.TimeWarpG
/-! The invariant of the Time Warp machine with the straggler rule of the code (`Model/TimeWarpD.lean`) under the
non-strict contract `Spec.V2`.

`BInv` is the part of `TWG.GInv` that does not depend on WHERE a history is cut by `exec` (well-formedness, the
tagged counting invariant I2, the ghost creation order), plus what makes "doomed" a STABLE property of a
processed entry: processing steps are unique across LPs, and the creation step of an anti-message is the
processing step of an invocation that has been undone (so nothing in any history was created by it: for the tag
of an anti-message, `pending + processed = antis`; every doomed entry has its own anti-message and stays doomed
until it is undone).

`SInv` is what is left of I1 "histories are sorted": every history is sorted by TIME STAMP, and every prefix
without doomed entries is sorted by the event order. -/
namespace RootSim.TWD
open RootSim RootSim.Spec RootSim.TW RootSim.TWG List

variable {σ : Type}

/-! ### every TWG step is a TWD step -/

theorem stopOk_nil (s : TWGState) (e : Event) : StopOk s e [] := by
  intro x hx; simp at hx

theorem execResult_twg (M : SimModel σ) (s : TWGState) (ℓ : Nat) (m : TMsg) (h : TEntry) (T : List TEntry) :
    TWG.execResult M s ℓ m h T = execResult M s ℓ m h (T.take (keepLen m.ev T) ++ []) (undoG m.ev T) := by
  rw [List.append_nil]; rfl

/-- **every step of the machine of `Model/TimeWarpG.lean` is a step of this machine** (`V = []`) -/
theorem twg_step_is_twd_step {M : SimModel σ} {s s' : TWGState} (h : TWG.Step M s s') : Step M s s' := by
  cases h with
  | exec ℓ m h T hmem hdest hℓ htype hpast =>
    rw [execResult_twg]
    exact Step.exec s ℓ m h T [] (undoG m.ev T) hmem hdest hℓ htype hpast rfl (stopOk_nil s m.ev)
  | annihilate o hp ha => exact Step.annihilate s o hp ha
  | antiRollback ℓ o K U ha hpast hK => exact Step.antiRollback s ℓ o K U ha hpast hK

theorem twg_reachable_is_twd_reachable {M : SimModel σ} {s : TWGState} (h : TWG.Reachable M s) :
    Reachable M s := by
  induction h with
  | init => exact Reachable.init
  | step _ hs ih => exact Reachable.step ih (twg_step_is_twd_step hs)

/-! ### the backward scan: where the kept part ends -/

/-- the last kept entry is not after the straggler -/
theorem splitUndo_last (e : Event) : ∀ (l : List Event) (k : Event),
    (splitUndo e l).1.getLast? = some k → Event.before e k = false
  | [], k, h => by simp [splitUndo] at h
  | x :: l, k, h => by
    simp only [splitUndo] at h
    split at h
    · simp at h
    · rename_i hc
      simp only [] at h
      cases hK : (splitUndo e l).1 with
      | nil =>
        rw [hK] at h hc
        simp only [List.getLast?_singleton, Option.some.injEq] at h
        subst h
        simpa using hc
      | cons a K =>
        rw [hK] at h
        rw [List.getLast?_cons_cons] at h
        exact splitUndo_last e l k (by rw [hK]; exact h)

/-- in a list sorted by a relation, every element is related to the last one or is the last one -/
theorem rel_last_of_pairwise {α : Type} {R : α → α → Prop} : ∀ {l : List α} {k : α},
    l.Pairwise R → l.getLast? = some k → ∀ a ∈ l.dropLast, R a k
  | [], _, _, h => by simp at h
  | [x], k, _, _ => by simp
  | x :: y :: l, k, hp, h => by
    rw [List.getLast?_cons_cons] at h
    rw [List.pairwise_cons] at hp
    intro a ha
    rw [List.dropLast_cons_cons] at ha
    rcases List.mem_cons.mp ha with rfl | ha
    · exact hp.1 k (List.mem_of_getLast? h)
    · exact rel_last_of_pairwise hp.2 h a ha

theorem mem_dropLast_or_last {α : Type} {l : List α} {k a : α} (h : l.getLast? = some k) (ha : a ∈ l) :
    a ∈ l.dropLast ∨ a = k := by
  have hl : l = l.dropLast ++ [k] := by
    rw [List.getLast?_eq_some_iff] at h
    obtain ⟨ys, rfl⟩ := h
    simp
  rw [hl] at ha
  rcases List.mem_append.mp ha with h1 | h1
  · exact Or.inl h1
  · exact Or.inr (by simpa using h1)

/-- appending `e` to a sorted list whose last entry is not after `e` keeps it sorted (negative transitivity) -/
theorem sorted_snoc_of_last {e : Event} {l : List Event}
    (hs : l.Pairwise (fun a b => Event.before b a = false))
    (hl : ∀ k, l.getLast? = some k → Event.before e k = false) :
    (l ++ [e]).Pairwise (fun a b => Event.before b a = false) := by
  rw [List.pairwise_append]
  refine ⟨hs, by simp, ?_⟩
  intro a ha b hb
  rw [List.mem_singleton] at hb
  subst hb
  cases hk : l.getLast? with
  | none => rw [List.getLast?_eq_none_iff] at hk; rw [hk] at ha; simp at ha
  | some k =>
    have hek := hl k hk
    rcases mem_dropLast_or_last hk ha with h1 | h1
    · have hka : Event.before k a = false := rel_last_of_pairwise hs hk a h1
      cases hb : Event.before b a with
      | false => rfl
      | true =>
        rcases Event.before_cases k hb with h | h
        · rw [hek] at h; exact Bool.noConfusion h
        · rw [hka] at h; exact Bool.noConfusion h
    · rw [h1]; exact hek

/-- in a list sorted by time stamp nothing is later than the last entry -/
theorem t_le_last {l : List Event} {k : Event} (hs : l.Pairwise (fun a b => a.t ≤ b.t))
    (hk : l.getLast? = some k) : ∀ a ∈ l, a.t ≤ k.t := by
  intro a ha
  rcases mem_dropLast_or_last hk ha with h1 | h1
  · exact rel_last_of_pairwise hs hk a h1
  · rw [h1]; exact Nat.le_refl _

theorem evs_getLast? (l : List TEntry) : (evs l).getLast? = l.getLast?.map TEntry.ev := by
  unfold evs; exact List.getLast?_map

/-! ### the split-independent part of the invariant -/

structure BInv (M : SimModel σ) (s : TWGState) : Prop where
  out    : ∀ ℓ, M.nLps ≤ ℓ → s.past ℓ = []
  head   : ∀ ℓ, ℓ < M.nLps → (s.past ℓ).head? = some (initEntry ℓ)
  dest   : ∀ ℓ, ℓ < M.nLps → ∀ u ∈ (s.past ℓ).tail, u.ev.dest = ℓ ∧ u.ev.type < LP_INIT
  pendOk : ∀ x ∈ s.pending, x.ev.dest < M.nLps ∧ x.ev.type < LP_INIT
  antiOk : ∀ x ∈ s.antis, x.ev.dest < M.nLps ∧ x.ev.type < LP_INIT
  /-- I2 for tagged messages -/
  cnt    : ∀ x : TMsg, s.pending.count x + (restAllT M.nLps s.past).count x =
             (toutsAll M s.past).count x + s.antis.count x
  pendCr : ∀ x ∈ s.pending, x.cr < s.now
  prLt   : ∀ ℓ, ∀ u ∈ s.past ℓ, u.pr < s.now
  crLt   : ∀ ℓ, ∀ u ∈ (s.past ℓ).tail, u.cr < u.pr
  prInc  : ∀ ℓ, (s.past ℓ).Pairwise (fun a b => a.pr < b.pr)
  /-- every anti-message was created in the past … -/
  antiCr : ∀ a ∈ s.antis, a.cr < s.now
  /-- … processing steps (other than step 0 of `LP_INIT`) are unique across the LPs … -/
  prUniq : ∀ ℓ ℓ', ∀ u ∈ s.past ℓ, ∀ u' ∈ s.past ℓ', 0 < u.pr → u.pr = u'.pr → ℓ = ℓ'
  /-- … and the invocation that created the message of an anti-message is in no history any more -/
  antiFresh : ∀ a ∈ s.antis, ∀ ℓ, ∀ u ∈ s.past ℓ, u.pr ≠ a.cr

theorem binv_init {M : SimModel σ} (V : V2 M) : BInv M (TWG.init M) := by
  have G := TWG.inv_init V
  refine ⟨G.out, G.head, G.dest, G.pendOk, G.antiOk, G.cnt, G.pendCr, G.prLt, G.crLt, G.prInc, ?_, ?_, ?_⟩
  · intro a ha; simp [TWG.init] at ha
  · intro ℓ ℓ' u hu u' _ hpos _
    rcases init_past_cases M ℓ with h | h
    · rw [h] at hu; simp at hu; subst hu; simp [initEntry] at hpos
    · rw [h] at hu; simp at hu
  · intro a ha; simp [TWG.init] at ha

section steps
variable {M : SimModel σ} {s : TWGState}

theorem BInv.lt_of_past_ne_nil (I : BInv M s) {ℓ : Nat} (h : s.past ℓ ≠ []) : ℓ < M.nLps := by
  apply Nat.lt_of_not_le
  intro hge
  exact h (I.out ℓ hge)

theorem BInv.lt_of_mem_past (I : BInv M s) {ℓ : Nat} {u : TEntry} (h : u ∈ s.past ℓ) : ℓ < M.nLps :=
  I.lt_of_past_ne_nil (List.ne_nil_of_mem h)

/-- the step of every tail entry is positive -/
theorem BInv.pr_pos (I : BInv M s) {ℓ : Nat} {u : TEntry} (h : u ∈ (s.past ℓ).tail) : 0 < u.pr := by
  have := I.crLt ℓ u h; omega

/-- nothing in any history was created by the invocation of an anti-message -/
theorem BInv.touts_anti (I : BInv M s) {a : TMsg} (ha : a ∈ s.antis) : (toutsAll M s.past).count a = 0 := by
  rw [List.count_eq_zero]
  intro hm
  simp only [toutsAll, List.mem_flatMap, List.mem_range] at hm
  obtain ⟨ℓ, _, hm⟩ := hm
  obtain ⟨P, u, S, hl, hc, _⟩ := mem_toutsFrom M ℓ _ _ hm
  exact I.antiFresh a ha ℓ u (by rw [hl]; simp) hc.symm

/-- for the tag of an anti-message: `pending + processed = antis` -/
theorem BInv.anti_count (I : BInv M s) {a : TMsg} (ha : a ∈ s.antis) :
    s.pending.count a + (restAllT M.nLps s.past).count a = s.antis.count a := by
  have := I.cnt a
  rw [I.touts_anti ha] at this
  omega

/-- a tail entry is counted among the processed messages -/
theorem BInv.count_rest_pos (I : BInv M s) {ℓ : Nat} {u : TEntry} (hu : u ∈ (s.past ℓ).tail) :
    ((s.past ℓ).tail.map TEntry.msg).count u.msg ≤ (restAllT M.nLps s.past).count u.msg :=
  addM_single_le (addM_count u.msg) (f := fun ℓ' => (s.past ℓ').tail.map TEntry.msg)
    (List.range M.nLps) (List.mem_range.mpr (I.lt_of_mem_past (List.mem_of_mem_tail hu)))

/-- **doomed is stable (1)**: when a pending message meets its anti-message, every processed entry with the
same tag still has an anti-message -/
theorem BInv.doomed_annihilate (I : BInv M s) {m : TMsg} (hp : m ∈ s.pending) {ℓ : Nat} {u : TEntry}
    (hu : u ∈ (s.past ℓ).tail) (hd : u.msg ∈ s.antis) : u.msg ∈ s.antis.erase m := by
  by_cases hne : u.msg = m
  · have hc := I.anti_count hd
    have h1 : 0 < s.pending.count u.msg := List.count_pos_iff.mpr (hne ▸ hp)
    have h2 : 0 < ((s.past ℓ).tail.map TEntry.msg).count u.msg :=
      List.count_pos_iff.mpr (List.mem_map.mpr ⟨u, hu, rfl⟩)
    have h3 := I.count_rest_pos hu
    rw [← hne]
    apply List.count_pos_iff.mp
    rw [List.count_erase_self]
    omega
  · exact (List.mem_erase_of_ne hne).mpr hd

/-- **doomed is stable (2)**: when an anti-message meets the processed entry `o`, every other processed entry
with the same tag that is not undone still has an anti-message -/
theorem BInv.doomed_antiRollback (I : BInv M s) {ℓ : Nat} {o : TEntry} {K U : List TEntry}
    (hpast : s.past ℓ = K ++ o :: U) (hK : K ≠ []) {ℓ' : Nat} {u : TEntry}
    (hu : if ℓ' = ℓ then u ∈ K.tail else u ∈ (s.past ℓ').tail) (hd : u.msg ∈ s.antis) :
    u.msg ∈ s.antis.erase o.msg := by
  have hℓ : ℓ < M.nLps := I.lt_of_past_ne_nil (by rw [hpast]; simp)
  have htail : (s.past ℓ).tail = K.tail ++ o :: U := by
    rw [hpast]; exact List.tail_append_of_ne_nil hK
  by_cases hne : u.msg = o.msg
  · by_cases hℓ' : ℓ' = ℓ
    · subst hℓ'
      simp only [if_true] at hu
      have hc := I.anti_count hd
      have hut : u ∈ (s.past ℓ').tail := by rw [htail]; exact List.mem_append_left _ hu
      have h3 := I.count_rest_pos hut
      have h2 : 2 ≤ ((s.past ℓ').tail.map TEntry.msg).count u.msg := by
        rw [htail, List.map_append, List.count_append, List.map_cons, List.count_cons, ← hne]
        have : 0 < (K.tail.map TEntry.msg).count u.msg :=
          List.count_pos_iff.mpr (List.mem_map.mpr ⟨u, hu, rfl⟩)
        simp only [beq_self_eq_true, if_true]
        omega
      rw [← hne]
      apply List.count_pos_iff.mp
      rw [List.count_erase_self]
      omega
    · exfalso
      simp only [hℓ', if_false] at hu
      have h1 := (I.dest ℓ' (I.lt_of_mem_past (List.mem_of_mem_tail hu)) u hu).1
      have h2 := (I.dest ℓ hℓ o (by rw [htail]; simp)).1
      have : u.ev = o.ev := congrArg TMsg.ev hne
      rw [this] at h1
      exact hℓ' (h1.symm.trans h2)
  · exact (List.mem_erase_of_ne hne).mpr hd

/-- `exec` with ANY cut `T = Kp ++ W` of the history preserves the split-independent invariant -/
theorem BInv.exec (V : V2 M) (I : BInv M s) {ℓ : Nat} {m : TMsg} {h : TEntry} {Kp W : List TEntry}
    (hmem : m ∈ s.pending) (hdest : m.ev.dest = ℓ) (hℓ : ℓ < M.nLps) (htype : m.ev.type < LP_INIT)
    (hpast : s.past ℓ = h :: (Kp ++ W)) : BInv M (execResult M s ℓ m h Kp W) := by
  have hh : h = initEntry ℓ := by
    have := I.head ℓ hℓ
    rw [hpast] at this
    simpa using this
  have hTd := I.dest ℓ hℓ
  have hTpr := I.prLt ℓ
  have hTcr := I.crLt ℓ
  have hTinc := I.prInc ℓ
  rw [hpast] at hTpr hTinc
  rw [hpast, List.tail_cons] at hTd hTcr
  have hsubK : ∀ u ∈ Kp, u ∈ Kp ++ W := fun u hu => List.mem_append_left _ hu
  have hsubU : ∀ u ∈ W, u ∈ Kp ++ W := fun u hu => List.mem_append_right _ hu
  have hWpast : ∀ w ∈ W, w ∈ s.past ℓ := fun w hw => by
    rw [hpast]; exact List.mem_cons_of_mem _ (hsubU w hw)
  have hWpos : ∀ w ∈ W, 0 < w.pr := fun w hw => by have := hTcr w (hsubU w hw); omega
  have hnew : h :: Kp ++ [({ ev := m.ev, cr := m.cr, pr := s.now } : TEntry)] =
      h :: (Kp ++ [{ ev := m.ev, cr := m.cr, pr := s.now }]) := rfl
  -- the entries of the new history of LP `ℓ`
  have hnewmem : ∀ u, u ∈ (h :: Kp ++ [({ ev := m.ev, cr := m.cr, pr := s.now } : TEntry)]) →
      (u ∈ s.past ℓ ∧ ∀ w ∈ W, u.pr < w.pr) ∨ u = { ev := m.ev, cr := m.cr, pr := s.now } := by
    intro u hu
    rw [hnew, List.mem_cons, List.mem_append, List.mem_singleton] at hu
    have hinc := hTinc
    rw [show h :: (Kp ++ W) = (h :: Kp) ++ W from rfl, List.pairwise_append] at hinc
    rcases hu with hu | hu | hu
    · exact Or.inl ⟨by rw [hpast, hu]; simp, fun w hw => hinc.2.2 u (by rw [hu]; simp) w hw⟩
    · exact Or.inl ⟨by rw [hpast]; exact List.mem_cons_of_mem _ (hsubK u hu),
        fun w hw => hinc.2.2 u (List.mem_cons_of_mem _ hu) w hw⟩
    · exact Or.inr hu
  refine ⟨?_, ?_, ?_, ?_, ?_, ?_, ?_, ?_, ?_, ?_, ?_, ?_, ?_⟩
  · intro ℓ' hℓ'
    show upd s.past ℓ _ ℓ' = []
    rw [upd_other _ _ (by omega)]
    exact I.out ℓ' hℓ'
  · intro ℓ' hℓ'
    show (upd s.past ℓ _ ℓ').head? = _
    by_cases hne : ℓ' = ℓ
    · subst hne
      rw [upd_same, hnew, hh]; rfl
    · rw [upd_other _ _ hne]; exact I.head ℓ' hℓ'
  · intro ℓ' hℓ' a
    show a ∈ (upd s.past ℓ _ ℓ').tail → _
    by_cases hne : ℓ' = ℓ
    · subst hne
      rw [upd_same, hnew, List.tail_cons, List.mem_append]
      rintro (ha | ha)
      · exact hTd a (hsubK a ha)
      · rw [List.mem_singleton] at ha
        rw [ha]; exact ⟨hdest, htype⟩
    · rw [upd_other _ _ hne]; exact I.dest ℓ' hℓ' a
  · intro x hx
    simp only [execResult, List.mem_append, List.mem_map] at hx
    rcases hx with (hx | ⟨u, hu, rfl⟩) | ⟨o, ho, rfl⟩
    · exact I.pendOk x (List.mem_of_mem_erase hx)
    · have := hTd u (hsubU u hu)
      exact ⟨by rw [msg_ev, this.1]; exact hℓ, this.2⟩
    · exact (V ℓ _ m.ev o ho).2
  · intro x hx
    simp only [execResult, List.mem_append] at hx
    rcases hx with hx | hx
    · exact I.antiOk x hx
    · exact toutsFrom_ok V hx
  · intro x
    have hc := I.cnt x
    have he := count_erase_add' hmem x
    have hr : (restAllT M.nLps (upd s.past ℓ (h :: Kp ++
          [{ ev := m.ev, cr := m.cr, pr := s.now }]))).count x +
          (W.map TEntry.msg).count x =
        (restAllT M.nLps s.past).count x + [m].count x := by
      apply count_restAllT_upd hℓ
      rw [hpast, hnew, List.tail_cons, List.tail_cons, List.map_append, List.count_append, List.map_append,
        List.count_append]
      show _ + [m].count x + _ = _
      omega
    have ho : (toutsAll M (upd s.past ℓ (h :: Kp ++
          [{ ev := m.ev, cr := m.cr, pr := s.now }]))).count x +
          (toutsFrom M ℓ (lpState M ℓ (evs (h :: Kp))) W).count x =
        (toutsAll M s.past).count x +
          ((M.handler ℓ (lpState M ℓ (evs (h :: Kp))) m.ev).2.map
            (fun o => ({ ev := o, cr := s.now } : TMsg))).count x := by
      apply count_toutsAll_upd M hℓ
      rw [hpast, show h :: (Kp ++ W) = (h :: Kp) ++ W from rfl,
        touts_append, touts_append, List.count_append, List.count_append]
      simp only [toutsFrom, List.append_nil]
      omega
    simp only [execResult, List.count_append]
    omega
  · intro x hx
    simp only [execResult, List.mem_append, List.mem_map] at hx
    show x.cr < s.now + 1
    rcases hx with (hx | ⟨u, hu, rfl⟩) | ⟨o, ho, rfl⟩
    · have := I.pendCr x (List.mem_of_mem_erase hx); omega
    · have h1 := hTcr u (hsubU u hu)
      have h2 := hTpr u (List.mem_cons_of_mem _ (hsubU u hu))
      rw [msg_cr]; omega
    · exact Nat.lt_succ_self _
  · intro ℓ' u
    show u ∈ upd s.past ℓ _ ℓ' → u.pr < s.now + 1
    by_cases hne : ℓ' = ℓ
    · subst hne
      rw [upd_same]
      intro hu
      rcases hnewmem u hu with ⟨hu, _⟩ | hu
      · have := I.prLt ℓ' u hu; omega
      · rw [hu]; exact Nat.lt_succ_self _
    · rw [upd_other _ _ hne]
      intro hu
      have := I.prLt ℓ' u hu; omega
  · intro ℓ' u
    show u ∈ (upd s.past ℓ _ ℓ').tail → _
    by_cases hne : ℓ' = ℓ
    · subst hne
      rw [upd_same, hnew, List.tail_cons, List.mem_append]
      rintro (hu | hu)
      · exact hTcr u (hsubK u hu)
      · rw [List.mem_singleton] at hu; rw [hu]; exact I.pendCr m hmem
    · rw [upd_other _ _ hne]; exact I.crLt ℓ' u
  · intro ℓ'
    show (upd s.past ℓ _ ℓ').Pairwise _
    by_cases hne : ℓ' = ℓ
    · subst hne
      rw [upd_same, List.pairwise_append]
      refine ⟨?_, by simp, ?_⟩
      · refine List.Pairwise.sublist ?_ hTinc
        exact List.Sublist.cons_cons _ (List.sublist_append_left _ _)
      · intro a ha b hb
        rw [List.mem_singleton] at hb
        rw [hb]
        apply hTpr a
        rcases List.mem_cons.mp ha with ha | ha
        · rw [ha]; simp
        · exact List.mem_cons_of_mem _ (hsubK a ha)
    · rw [upd_other _ _ hne]; exact I.prInc ℓ'
  · intro a ha
    simp only [execResult, List.mem_append] at ha
    show a.cr < s.now + 1
    rcases ha with ha | ha
    · have := I.antiCr a ha; omega
    · obtain ⟨P, w, S, hl, hc, _⟩ := mem_toutsFrom M ℓ _ _ ha
      have := I.prLt ℓ w (hWpast w (by rw [hl]; simp))
      omega
  · intro ℓ₁ ℓ₂ u hu u' hu' hpos heq
    change u ∈ upd s.past ℓ _ ℓ₁ at hu
    change u' ∈ upd s.past ℓ _ ℓ₂ at hu'
    by_cases h1 : ℓ₁ = ℓ <;> by_cases h2 : ℓ₂ = ℓ
    · rw [h1, h2]
    · subst h1
      rw [upd_same] at hu
      rw [upd_other _ _ h2] at hu'
      rcases hnewmem u hu with ⟨hu, _⟩ | hu
      · exact I.prUniq ℓ₁ ℓ₂ u hu u' hu' hpos heq
      · have := I.prLt ℓ₂ u' hu'
        rw [hu] at heq
        simp only at heq
        omega
    · subst h2
      rw [upd_same] at hu'
      rw [upd_other _ _ h1] at hu
      rcases hnewmem u' hu' with ⟨hu', _⟩ | hu'
      · exact I.prUniq ℓ₁ ℓ₂ u hu u' hu' hpos heq
      · have := I.prLt ℓ₁ u hu
        rw [hu'] at heq
        simp only at heq
        omega
    · rw [upd_other _ _ h1] at hu
      rw [upd_other _ _ h2] at hu'
      exact I.prUniq ℓ₁ ℓ₂ u hu u' hu' hpos heq
  · intro a ha ℓ' u hu
    simp only [execResult, List.mem_append] at ha
    change u ∈ upd s.past ℓ _ ℓ' at hu
    rcases ha with ha | ha
    · by_cases hne : ℓ' = ℓ
      · subst hne
        rw [upd_same] at hu
        rcases hnewmem u hu with ⟨hu, _⟩ | hu
        · exact I.antiFresh a ha ℓ' u hu
        · have := I.antiCr a ha
          rw [hu]; simp only; omega
      · rw [upd_other _ _ hne] at hu
        exact I.antiFresh a ha ℓ' u hu
    · obtain ⟨P, w, S, hl, hc, _⟩ := mem_toutsFrom M ℓ _ _ ha
      have hwW : w ∈ W := by rw [hl]; simp
      rw [hc]
      by_cases hne : ℓ' = ℓ
      · subst hne
        rw [upd_same] at hu
        rcases hnewmem u hu with ⟨_, hlt⟩ | hu
        · have := hlt w hwW; omega
        · have := I.prLt ℓ' w (hWpast w hwW)
          rw [hu]; simp only; omega
      · rw [upd_other _ _ hne] at hu
        intro heq
        exact hne (I.prUniq ℓ ℓ' w (hWpast w hwW) u hu (hWpos w hwW) heq.symm).symm

theorem BInv.annihilate (I : BInv M s) {o : TMsg} (hp : o ∈ s.pending) (ha : o ∈ s.antis) :
    BInv M (TWG.annihilateResult s o) := by
  refine ⟨I.out, I.head, I.dest, ?_, ?_, ?_, ?_, I.prLt, I.crLt, I.prInc, ?_, I.prUniq, ?_⟩
  · intro x hx; exact I.pendOk x (List.mem_of_mem_erase hx)
  · intro x hx; exact I.antiOk x (List.mem_of_mem_erase hx)
  · intro x
    have hc := I.cnt x
    have h1 := count_erase_add' hp x
    have h2 := count_erase_add' ha x
    simp only [TWG.annihilateResult]
    omega
  · intro x hx; exact I.pendCr x (List.mem_of_mem_erase hx)
  · intro a ha'; exact I.antiCr a (List.mem_of_mem_erase ha')
  · intro a ha'; exact I.antiFresh a (List.mem_of_mem_erase ha')

theorem BInv.antiRollback (V : V2 M) (I : BInv M s) {ℓ : Nat} {o : TEntry} {K U : List TEntry}
    (ha : o.msg ∈ s.antis) (hpast : s.past ℓ = K ++ o :: U) (hK : K ≠ []) :
    BInv M (TWG.antiRollbackResult M s ℓ o K U) := by
  have hℓ : ℓ < M.nLps := I.lt_of_past_ne_nil (by rw [hpast]; simp)
  obtain ⟨k0, Kt, rfl⟩ := List.exists_cons_of_ne_nil hK
  have hhd := I.head ℓ hℓ
  have hTd := I.dest ℓ hℓ
  have hTpr := I.prLt ℓ
  have hTcr := I.crLt ℓ
  have hTinc := I.prInc ℓ
  rw [hpast] at hhd hTd hTpr hTcr hTinc
  simp only [List.cons_append, List.tail_cons, List.head?_cons] at hhd hTd hTcr
  have hKpast : ∀ u ∈ k0 :: Kt, u ∈ s.past ℓ := fun u hu => by
    rw [hpast]; exact List.mem_append_left _ hu
  have hWpast : ∀ w ∈ o :: U, w ∈ s.past ℓ := fun w hw => by
    rw [hpast]; exact List.mem_append_right _ hw
  have hWpos : ∀ w ∈ o :: U, 0 < w.pr := fun w hw => by
    have := hTcr w (List.mem_append_right _ hw); omega
  have hKW : ∀ u ∈ k0 :: Kt, ∀ w ∈ o :: U, u.pr < w.pr := by
    rw [List.pairwise_append] at hTinc
    exact hTinc.2.2
  refine ⟨?_, ?_, ?_, ?_, ?_, ?_, ?_, ?_, ?_, ?_, ?_, ?_, ?_⟩
  · intro ℓ' hℓ'
    show upd s.past ℓ _ ℓ' = []
    rw [upd_other _ _ (by omega)]
    exact I.out ℓ' hℓ'
  · intro ℓ' hℓ'
    show (upd s.past ℓ _ ℓ').head? = _
    by_cases hne : ℓ' = ℓ
    · subst hne
      rw [upd_same]; exact hhd
    · rw [upd_other _ _ hne]; exact I.head ℓ' hℓ'
  · intro ℓ' hℓ' a
    show a ∈ (upd s.past ℓ _ ℓ').tail → _
    by_cases hne : ℓ' = ℓ
    · subst hne
      rw [upd_same, List.tail_cons]
      intro ha'
      exact hTd a (List.mem_append_left _ ha')
    · rw [upd_other _ _ hne]; exact I.dest ℓ' hℓ' a
  · intro x hx
    simp only [TWG.antiRollbackResult, List.mem_append, List.mem_map] at hx
    rcases hx with hx | ⟨u, hu, rfl⟩
    · exact I.pendOk x hx
    · have := hTd u (List.mem_append_right _ (List.mem_cons_of_mem _ hu))
      exact ⟨by rw [msg_ev, this.1]; exact hℓ, this.2⟩
  · intro x hx
    simp only [TWG.antiRollbackResult, List.mem_append] at hx
    rcases hx with hx | hx
    · exact I.antiOk x (List.mem_of_mem_erase hx)
    · exact toutsFrom_ok V hx
  · intro x
    have hc := I.cnt x
    have he := count_erase_add' ha x
    have hr : (restAllT M.nLps (upd s.past ℓ (k0 :: Kt))).count x +
          ([o.msg].count x + (U.map TEntry.msg).count x) =
        (restAllT M.nLps s.past).count x + 0 := by
      apply count_restAllT_upd hℓ
      rw [hpast]
      simp only [List.cons_append, List.tail_cons, List.map_append, List.map_cons, List.count_append]
      rw [show o.msg :: U.map TEntry.msg = [o.msg] ++ U.map TEntry.msg from rfl, List.count_append]
      omega
    have ho : (toutsAll M (upd s.past ℓ (k0 :: Kt))).count x +
          (toutsFrom M ℓ (lpState M ℓ (evs (k0 :: Kt))) (o :: U)).count x =
        (toutsAll M s.past).count x + 0 := by
      apply count_toutsAll_upd M hℓ
      rw [hpast, touts_append, List.count_append]
      omega
    simp only [TWG.antiRollbackResult, List.count_append]
    omega
  · intro x hx
    simp only [TWG.antiRollbackResult, List.mem_append, List.mem_map] at hx
    show x.cr < s.now
    rcases hx with hx | ⟨u, hu, rfl⟩
    · exact I.pendCr x hx
    · have h1 := hTcr u (List.mem_append_right _ (List.mem_cons_of_mem _ hu))
      have h2 := hTpr u (List.mem_append_right _ (List.mem_cons_of_mem _ hu))
      rw [msg_cr]; omega
  · intro ℓ' u
    show u ∈ upd s.past ℓ _ ℓ' → u.pr < s.now
    by_cases hne : ℓ' = ℓ
    · subst hne
      rw [upd_same]
      intro hu
      exact hTpr u (List.mem_append_left _ hu)
    · rw [upd_other _ _ hne]; exact I.prLt ℓ' u
  · intro ℓ' u
    show u ∈ (upd s.past ℓ _ ℓ').tail → _
    by_cases hne : ℓ' = ℓ
    · subst hne
      rw [upd_same, List.tail_cons]
      intro hu
      exact hTcr u (List.mem_append_left _ hu)
    · rw [upd_other _ _ hne]; exact I.crLt ℓ' u
  · intro ℓ'
    show (upd s.past ℓ _ ℓ').Pairwise _
    by_cases hne : ℓ' = ℓ
    · subst hne
      rw [upd_same]
      exact (List.pairwise_append.mp hTinc).1
    · rw [upd_other _ _ hne]; exact I.prInc ℓ'
  · intro a ha'
    simp only [TWG.antiRollbackResult, List.mem_append] at ha'
    show a.cr < s.now
    rcases ha' with ha' | ha'
    · exact I.antiCr a (List.mem_of_mem_erase ha')
    · obtain ⟨P, w, S, hl, hc, _⟩ := mem_toutsFrom M ℓ _ _ ha'
      have := I.prLt ℓ w (hWpast w (by rw [hl]; simp))
      omega
  · intro ℓ₁ ℓ₂ u hu u' hu' hpos heq
    change u ∈ upd s.past ℓ _ ℓ₁ at hu
    change u' ∈ upd s.past ℓ _ ℓ₂ at hu'
    have hu0 : u ∈ s.past ℓ₁ := by
      by_cases h1 : ℓ₁ = ℓ
      · subst h1; rw [upd_same] at hu; exact hKpast u hu
      · rw [upd_other _ _ h1] at hu; exact hu
    have hu0' : u' ∈ s.past ℓ₂ := by
      by_cases h2 : ℓ₂ = ℓ
      · subst h2; rw [upd_same] at hu'; exact hKpast u' hu'
      · rw [upd_other _ _ h2] at hu'; exact hu'
    exact I.prUniq ℓ₁ ℓ₂ u hu0 u' hu0' hpos heq
  · intro a ha' ℓ' u hu
    simp only [TWG.antiRollbackResult, List.mem_append] at ha'
    change u ∈ upd s.past ℓ _ ℓ' at hu
    rcases ha' with ha' | ha'
    · have hu0 : u ∈ s.past ℓ' := by
        by_cases h1 : ℓ' = ℓ
        · subst h1; rw [upd_same] at hu; exact hKpast u hu
        · rw [upd_other _ _ h1] at hu; exact hu
      exact I.antiFresh a (List.mem_of_mem_erase ha') ℓ' u hu0
    · obtain ⟨P, w, S, hl, hc, _⟩ := mem_toutsFrom M ℓ _ _ ha'
      have hwW : w ∈ o :: U := by rw [hl]; simp
      rw [hc]
      by_cases hne : ℓ' = ℓ
      · subst hne
        rw [upd_same] at hu
        have := hKW u hu w hwW; omega
      · rw [upd_other _ _ hne] at hu
        intro heq
        exact hne (I.prUniq ℓ ℓ' w (hWpast w hwW) u hu (hWpos w hwW) heq.symm).symm

end steps

/-! ### what is left of "histories are sorted" -/

structure SInv (s : TWGState) : Prop where
  /-- every history is sorted by time stamp -/
  tsorted : ∀ ℓ, (evs (s.past ℓ).tail).Pairwise (fun a b => a.t ≤ b.t)
  /-- every prefix of a history (after `LP_INIT`) without doomed entries is sorted by the event order -/
  csorted : ∀ ℓ n, (∀ u ∈ (s.past ℓ).tail.take n, u.msg ∉ s.antis) →
    (evs ((s.past ℓ).tail.take n)).Pairwise (fun a b => Event.before b a = false)

theorem sinv_init (M : SimModel σ) : SInv (TWG.init M) := by
  refine ⟨?_, ?_⟩
  · intro ℓ
    rcases init_past_cases M ℓ with h | h <;> · rw [h]; simp
  · intro ℓ n _
    rcases init_past_cases M ℓ with h | h <;> · rw [h]; simp

section ssteps
variable {M : SimModel σ} {s : TWGState}

theorem SInv.exec (S : SInv s) {ℓ : Nat} {m : TMsg} {h : TEntry} {T V W : List TEntry}
    (hpast : s.past ℓ = h :: T) (hsplit : undoG m.ev T = V ++ W) (hstop : StopOk s m.ev V) :
    SInv (execResult M s ℓ m h (T.take (keepLen m.ev T) ++ V) W) := by
  have hTt := S.tsorted ℓ
  have hTc := S.csorted ℓ
  rw [hpast, List.tail_cons] at hTt hTc
  have hT : T = (T.take (keepLen m.ev T) ++ V) ++ W := by
    rw [List.append_assoc, ← hsplit]; exact (take_undoG m.ev T).symm
  have hKlast : ∀ k, (evs (T.take (keepLen m.ev T))).getLast? = some k → Event.before m.ev k = false := by
    intro k hk
    rw [evs_take_keep] at hk
    exact splitUndo_last m.ev _ k hk
  have hnew : h :: (T.take (keepLen m.ev T) ++ V) ++ [({ ev := m.ev, cr := m.cr, pr := s.now } : TEntry)] =
      h :: ((T.take (keepLen m.ev T) ++ V) ++ [{ ev := m.ev, cr := m.cr, pr := s.now }]) := rfl
  refine ⟨?_, ?_⟩
  · intro ℓ'
    show (evs (upd s.past ℓ _ ℓ').tail).Pairwise _
    by_cases hne : ℓ' = ℓ
    · subst hne
      rw [upd_same, hnew, List.tail_cons, evs_append, List.pairwise_append]
      have hsub : (evs (T.take (keepLen m.ev T) ++ V)).Pairwise (fun a b => a.t ≤ b.t) := by
        refine List.Pairwise.sublist ?_ hTt
        conv => rhs; rw [hT]
        unfold evs
        exact List.Sublist.map _ (List.sublist_append_left _ _)
      refine ⟨hsub, by simp [evs], ?_⟩
      intro a ha b hb
      simp only [evs, List.map_cons, List.map_nil, List.mem_singleton] at hb
      subst hb
      show a.t ≤ m.ev.t
      cases hV : V.getLast? with
      | none =>
        rw [List.getLast?_eq_none_iff] at hV
        subst hV
        rw [List.append_nil] at ha hsub
        cases hk : (evs (T.take (keepLen m.ev T))).getLast? with
        | none => rw [List.getLast?_eq_none_iff] at hk; rw [hk] at ha; simp at ha
        | some k =>
          have h1 := t_le_last hsub hk a ha
          have h2 := Event.t_le_of_not_before (hKlast k hk)
          omega
      | some x =>
        have hx := (hstop x hV).2
        have hlast : (evs (T.take (keepLen m.ev T) ++ V)).getLast? = some x.ev := by
          rw [evs_getLast?, List.getLast?_append, hV]; rfl
        have := t_le_last hsub hlast a ha
        omega
    · rw [upd_other _ _ hne]; exact S.tsorted ℓ'
  · intro ℓ' n
    show (∀ u ∈ (upd s.past ℓ _ ℓ').tail.take n, u.msg ∉ s.antis ++ _) →
      (evs ((upd s.past ℓ _ ℓ').tail.take n)).Pairwise _
    by_cases hne : ℓ' = ℓ
    · subst hne
      rw [upd_same, hnew, List.tail_cons]
      intro hcl
      have hcl' : ∀ u ∈ ((T.take (keepLen m.ev T) ++ V) ++
          [({ ev := m.ev, cr := m.cr, pr := s.now } : TEntry)]).take n, u.msg ∉ s.antis :=
        fun u hu hm => hcl u hu (List.mem_append_left _ hm)
      by_cases hn : n ≤ (T.take (keepLen m.ev T) ++ V).length
      · rw [List.take_append_of_le_length hn] at hcl' ⊢
        have e1 : (T.take (keepLen m.ev T) ++ V).take n = T.take n := by
          conv => rhs; rw [hT]
          exact (List.take_append_of_le_length hn).symm
        rw [e1] at hcl' ⊢
        exact hTc n hcl'
      · have hn' : ((T.take (keepLen m.ev T) ++ V) ++
            [({ ev := m.ev, cr := m.cr, pr := s.now } : TEntry)]).length ≤ n := by
          simp only [List.length_append, List.length_singleton] at hn ⊢; omega
        rw [List.take_of_length_le hn'] at hcl' ⊢
        -- nothing kept is doomed, hence `V = []`
        have hV : V = [] := by
          cases hV : V.getLast? with
          | none => exact List.getLast?_eq_none_iff.mp hV
          | some x =>
            exfalso
            have hxm : x ∈ V := List.mem_of_getLast? hV
            exact hcl' x (List.mem_append_left _ (List.mem_append_right _ hxm)) (hstop x hV).1
        subst hV
        rw [List.append_nil] at hcl' ⊢
        rw [evs_append]
        apply sorted_snoc_of_last _ hKlast
        have := hTc (keepLen m.ev T) (fun u hu => hcl' u (List.mem_append_left _ hu))
        exact this
    · rw [upd_other _ _ hne]
      intro hcl
      exact S.csorted ℓ' n (fun u hu hm => hcl u hu (List.mem_append_left _ hm))

theorem SInv.annihilate (I : BInv M s) (S : SInv s) {o : TMsg} (hp : o ∈ s.pending) :
    SInv (TWG.annihilateResult s o) := by
  refine ⟨S.tsorted, ?_⟩
  intro ℓ n hcl
  apply S.csorted ℓ n
  intro u hu hm
  exact hcl u hu (I.doomed_annihilate hp (List.mem_of_mem_take hu) hm)

theorem SInv.antiRollback (I : BInv M s) (S : SInv s) {ℓ : Nat} {o : TEntry} {K U : List TEntry}
    (hpast : s.past ℓ = K ++ o :: U) (hK : K ≠ []) : SInv (TWG.antiRollbackResult M s ℓ o K U) := by
  have htail : (s.past ℓ).tail = K.tail ++ o :: U := by
    rw [hpast]; exact List.tail_append_of_ne_nil hK
  refine ⟨?_, ?_⟩
  · intro ℓ'
    show (evs (upd s.past ℓ _ ℓ').tail).Pairwise _
    by_cases hne : ℓ' = ℓ
    · subst hne
      rw [upd_same]
      have := S.tsorted ℓ'
      rw [htail, evs_append] at this
      exact (List.pairwise_append.mp this).1
    · rw [upd_other _ _ hne]; exact S.tsorted ℓ'
  · intro ℓ' n
    show (∀ u ∈ (upd s.past ℓ _ ℓ').tail.take n, u.msg ∉ s.antis.erase o.msg ++ _) →
      (evs ((upd s.past ℓ _ ℓ').tail.take n)).Pairwise _
    by_cases hne : ℓ' = ℓ
    · subst hne
      rw [upd_same]
      intro hcl
      have e1 : K.tail.take n = (s.past ℓ').tail.take (min n K.tail.length) := by
        rw [htail]
        conv => lhs; rw [← List.take_left' (l₁ := K.tail) (l₂ := o :: U) rfl, List.take_take]
      rw [e1] at hcl ⊢
      apply S.csorted ℓ' _
      intro u hu hm
      refine hcl u hu (List.mem_append_left _ (I.doomed_antiRollback hpast hK (ℓ' := ℓ') ?_ hm))
      simp only [if_true]
      rw [← e1] at hu
      exact List.mem_of_mem_take hu
    · rw [upd_other _ _ hne]
      intro hcl
      apply S.csorted ℓ' n
      intro u hu hm
      refine hcl u hu (List.mem_append_left _ (I.doomed_antiRollback hpast hK (ℓ' := ℓ') ?_ hm))
      simp only [hne, if_false]
      exact List.mem_of_mem_take hu

end ssteps

/-! ### the invariant -/

structure DInv (M : SimModel σ) (s : TWGState) : Prop where
  b : BInv M s
  s : SInv s

theorem DInv.step {M : SimModel σ} (V : V2 M) {s s' : TWGState} (I : DInv M s) (h : Step M s s') :
    DInv M s' := by
  cases h with
  | exec ℓ m h T V' W hmem hdest hℓ htype hpast hsplit hstop =>
    refine ⟨I.b.exec V hmem hdest hℓ htype ?_, I.s.exec hpast hsplit hstop⟩
    rw [hpast, List.append_assoc, ← hsplit, take_undoG]
  | annihilate o hp ha => exact ⟨I.b.annihilate hp ha, I.s.annihilate I.b hp⟩
  | antiRollback ℓ o K U ha hpast hK =>
    exact ⟨I.b.antiRollback V ha hpast hK, I.s.antiRollback I.b hpast hK⟩

/-- the invariant holds in every reachable state, under the NON-STRICT contract -/
theorem reachable_dinv {M : SimModel σ} (V : V2 M) {s : TWGState} (hr : Reachable M s) : DInv M s := by
  induction hr with
  | init => exact ⟨binv_init V, sinv_init M⟩
  | step _ hs ih => exact ih.step V hs

end RootSim.TWD
