import RootSim.Model.StatsLoop
/-! Witness schedules for finding F6 (threads end with different numbers of statistics records); every
configuration takes the variant of the flush loop (`Cfg.fix6`). -/
namespace RootSim.StatsLoop

def rep (l : List Nat) : Nat → List Nat
  | 0 => []
  | n+1 => l ++ rep l n

/-- 2 threads, `gvt_period = 0`, no termination predicate; an event handler of thread 1 calls
`RootsimStop()` in its 15th batch. -/
def stopCfg (fix6 : Bool) : Cfg :=
  { n := 2, period := 0, stopBatch := fun i => if i = 1 then 15 else 0, voteAt := fun _ => 0, fix6 := fix6 }

/-- Yield-point schedule (replayable on the real code): the threads alternate until the first GVT round
is in its last stage with thread 0 the reducer (`node_min_reduce_wait`, `c_d = 2`) standing at
`VP_WORKER_LOOP`, i.e. past its loop test; then thread 1 runs its batch (calls `RootsimStop`), calls
`gvt_phase_run` once more (`node_min_wait`: not yet released), fails the loop test and enters the
flush loop; thread 0 finishes its batch, its `gvt_phase_run` completes the round *inside the loop*
(record written), then it leaves too; thread 1 receives the same round's value in the flush loop,
where it is dropped. -/
def stopSched : List Nat := rep [0, 1] 28 ++ [0] ++ [1, 1, 0, 0, 0, 1, 1]

/-- 2 threads, normal termination: thread 0's LPs satisfy the predicate from the start (it votes at the
first GVT), thread 1's only later (it votes at the second). -/
def voteCfg (fix6 : Bool) : Cfg :=
  { n := 2, period := 0, stopBatch := fun _ => 0, voteAt := fun i => if i = 0 then 1 else 2, fix6 := fix6 }

/-- Fine-grained schedule: in the second round thread 1 is the reducer. Thread 0 calls
`gvt_phase_run` (`node_min_wait`, `c_c ≠ 0`: returns 0.0); *before thread 0 evaluates the loop test*
thread 1 completes the round, casts the last vote (`nodes_to_end = 0`) and writes its record; thread 0
then fails the loop test and gets the second round's value only in the flush loop. -/
def voteSched : List Nat := rep [0, 1] 60 ++ rep [1, 0] 32 ++ [0, 1, 0] ++ rep [0, 1] 6

/-- 3 threads, `gvt_period = 0`; an event handler of thread 2 calls `RootsimStop()` in its 14th batch. -/
def stop3Cfg (fix6 : Bool) : Cfg :=
  { n := 3, period := 0, stopBatch := fun i => if i = 2 then 14 else 0, voteAt := fun _ => 0, fix6 := fix6 }

/-- Yield-point schedule (replayable on the real code): round-robin until the first round is in its last stage,
then thread 0 gets ahead by one grant: it receives the round's value in its worker loop, threads 1 and 2
fail the loop test first and receive it in the flush loop. -/
def stop3Sched : List Nat := rep [0, 1, 2] 18 ++ [0, 1, 0, 2] ++ rep [0, 1, 2] 12

end RootSim.StatsLoop
