import RootSim.Proofs.TimeWarpGProgress
/-! The instrumented machine (`Model/TimeWarpG.lean`) is a RESTRICTION of the content-level machine
(`Model/TimeWarp.lean`): erasing the ghost fields maps every step to a step, up to the order in which the
two bags (`pending`, `antis`) are kept as lists (erasing the first occurrence of a tagged message and
erasing the first occurrence of its content may remove different positions). The content-level machine
itself is insensitive to that order (`step_bagEq`). Hence every reachable state of the instrumented
machine projects onto a reachable state of the content-level machine with the same histories and the same
bags (`proj_reachable`). The converse is false under V2 (`Props/C01GlueV2.lean`). -/
namespace RootSim.TWG
open RootSim RootSim.Spec RootSim.TW List

variable {σ : Type}

/-- equality of content-level states up to the order of the two bags -/
def BagEq (t t' : TWState) : Prop :=
  t.past = t'.past ∧ t.pending.Perm t'.pending ∧ t.antis.Perm t'.antis

theorem BagEq.refl (t : TWState) : BagEq t t := ⟨rfl, List.Perm.refl _, List.Perm.refl _⟩

theorem BagEq.symm {t t' : TWState} (h : BagEq t t') : BagEq t' t := ⟨h.1.symm, h.2.1.symm, h.2.2.symm⟩

theorem BagEq.trans {t t' t'' : TWState} (h : BagEq t t') (h' : BagEq t' t'') : BagEq t t'' :=
  ⟨h.1.trans h'.1, h.2.1.trans h'.2.1, h.2.2.trans h'.2.2⟩

/-- the content-level machine does not depend on the order of its bags -/
theorem step_bagEq {M : SimModel σ} {t₁ t₁' t₂ : TWState} (h : TW.Step M t₁ t₁') (e : BagEq t₁ t₂) :
    ∃ t₂', TW.Step M t₂ t₂' ∧ BagEq t₁' t₂' := by
  obtain ⟨hpa, hpe, han⟩ := e
  cases h with
  | exec ℓ e h T hmem hdest hℓ htype hpast =>
    refine ⟨TW.execResult M t₂ ℓ e h T,
      TW.Step.exec t₂ ℓ e h T (hpe.mem_iff.mp hmem) hdest hℓ htype (by rw [← hpa]; exact hpast), ?_, ?_, ?_⟩
    · show upd t₁.past ℓ _ = upd t₂.past ℓ _
      rw [hpa]
    · exact ((hpe.erase e).append_right _).append_right _
    · exact han.append_right _
  | annihilate o hp ha =>
    exact ⟨TW.annihilateResult t₂ o, TW.Step.annihilate t₂ o (hpe.mem_iff.mp hp) (han.mem_iff.mp ha),
      hpa, hpe.erase o, han.erase o⟩
  | antiRollback ℓ o K U ha hpast hK =>
    refine ⟨TW.antiRollbackResult M t₂ ℓ o K U,
      TW.Step.antiRollback t₂ ℓ o K U (han.mem_iff.mp ha) (by rw [← hpa]; exact hpast) hK, ?_, ?_, ?_⟩
    · show upd t₁.past ℓ _ = upd t₂.past ℓ _
      rw [hpa]
    · exact hpe.append_right _
    · exact (han.erase o).append_right _

/-- erasing an element and mapping, in either order -/
theorem map_erase_perm {α β : Type} [DecidableEq α] [DecidableEq β] (f : α → β) {l : List α} {m : α}
    (h : m ∈ l) : ((l.map f).erase (f m)).Perm ((l.erase m).map f) := by
  have h1 : (l.map f).Perm (f m :: (l.erase m).map f) := (List.perm_cons_erase h).map f
  have h2 : (l.map f).Perm (f m :: (l.map f).erase (f m)) :=
    List.perm_cons_erase (List.mem_map_of_mem h)
  exact List.Perm.cons_inv (h2.symm.trans h1)

theorem proj_past_apply (s : TWGState) (ℓ : Nat) : (proj s).past ℓ = evs (s.past ℓ) := rfl

/-- every step of the instrumented machine is, after erasing the ghost fields, a step of the content-level
machine -/
theorem step_proj {M : SimModel σ} {s s' : TWGState} (h : TWG.Step M s s') :
    ∃ t', TW.Step M (proj s) t' ∧ BagEq t' (proj s') := by
  cases h with
  | exec ℓ m h T hmem hdest hℓ htype hpast =>
    refine ⟨TW.execResult M (proj s) ℓ m.ev h.ev (evs T),
      TW.Step.exec (proj s) ℓ m.ev h.ev (evs T) (List.mem_map_of_mem hmem) hdest hℓ htype
        (by rw [proj_past_apply, hpast]; rfl), ?_, ?_, ?_⟩
    · funext ℓ'
      show upd (proj s).past ℓ _ ℓ' = evs (upd s.past ℓ _ ℓ')
      by_cases hne : ℓ' = ℓ
      · subst hne
        rw [upd_same, upd_same, evs_append, evs_keepG]; rfl
      · rw [upd_other _ _ hne, upd_other _ _ hne]; rfl
    · show ((s.pending.map TMsg.ev).erase m.ev ++ undoOf m.ev (evs T) ++
          (M.handler ℓ (lpState M ℓ (keepOf m.ev h.ev (evs T))) m.ev).2).Perm
        ((s.pending.erase m ++ (undoG m.ev T).map TEntry.msg ++
          (M.handler ℓ (lpState M ℓ (evs (keepG m.ev h T))) m.ev).2.map
            (fun o => ({ ev := o, cr := s.now } : TMsg))).map TMsg.ev)
      rw [List.map_append, List.map_append, map_msg_ev, evs_undoG, evs_keepG, List.map_map]
      have hid : (TMsg.ev ∘ fun o => ({ ev := o, cr := s.now } : TMsg)) = id := rfl
      rw [hid, List.map_id]
      exact ((map_erase_perm TMsg.ev hmem).append_right _).append_right _
    · show (s.antis.map TMsg.ev ++
          outsFrom M ℓ (lpState M ℓ (keepOf m.ev h.ev (evs T))) (undoOf m.ev (evs T))).Perm
        ((s.antis ++ toutsFrom M ℓ (lpState M ℓ (evs (keepG m.ev h T))) (undoG m.ev T)).map TMsg.ev)
      rw [List.map_append, toutsFrom_ev, evs_undoG, evs_keepG]
  | annihilate m hp ha =>
    refine ⟨TW.annihilateResult (proj s) m.ev,
      TW.Step.annihilate (proj s) m.ev (List.mem_map_of_mem hp) (List.mem_map_of_mem ha), rfl, ?_, ?_⟩
    · exact map_erase_perm TMsg.ev hp
    · exact map_erase_perm TMsg.ev ha
  | antiRollback ℓ o K U ha hpast hK =>
    refine ⟨TW.antiRollbackResult M (proj s) ℓ o.ev (evs K) (evs U),
      TW.Step.antiRollback (proj s) ℓ o.ev (evs K) (evs U)
        (List.mem_map_of_mem (f := TMsg.ev) ha)
        (by rw [proj_past_apply, hpast, evs_append]; rfl)
        (by intro h0; apply hK; exact List.map_eq_nil_iff.mp h0), ?_, ?_, ?_⟩
    · funext ℓ'
      show upd (proj s).past ℓ _ ℓ' = evs (upd s.past ℓ _ ℓ')
      by_cases hne : ℓ' = ℓ
      · subst hne
        rw [upd_same, upd_same]
      · rw [upd_other _ _ hne, upd_other _ _ hne]; rfl
    · show (s.pending.map TMsg.ev ++ evs U).Perm ((s.pending ++ U.map TEntry.msg).map TMsg.ev)
      rw [List.map_append, map_msg_ev]
    · show ((s.antis.map TMsg.ev).erase o.ev ++
          outsFrom M ℓ (lpState M ℓ (evs K)) (o.ev :: evs U)).Perm
        ((s.antis.erase o.msg ++ toutsFrom M ℓ (lpState M ℓ (evs K)) (o :: U)).map TMsg.ev)
      rw [List.map_append, toutsFrom_ev, evs_cons]
      exact (map_erase_perm TMsg.ev ha).append_right _

theorem proj_init (M : SimModel σ) : proj (TWG.init M) = TW.init M := by
  have hp : (fun ℓ => evs (TWG.initPast M ℓ)) = TW.initPast M := by
    funext ℓ
    unfold TWG.initPast TW.initPast
    split <;> rfl
  show ({ past := fun ℓ => evs (TWG.initPast M ℓ),
          pending := (toutsAll M (TWG.initPast M)).map TMsg.ev, antis := [] } : TWState) = _
  rw [toutsAll_ev, hp]; rfl

/-- **Refinement.** Every reachable state of the instrumented machine, with the ghost fields erased, is
(up to the order of the bags) a reachable state of the content-level machine. -/
theorem proj_reachable {M : SimModel σ} {s : TWGState} (hr : TWG.Reachable M s) :
    ∃ t, TW.Reachable M t ∧ BagEq t (proj s) := by
  induction hr with
  | init => exact ⟨TW.init M, TW.Reachable.init, by rw [proj_init]; exact BagEq.refl _⟩
  | step _ hs ih =>
    obtain ⟨t, htr, hte⟩ := ih
    obtain ⟨t', hst, he'⟩ := step_proj hs
    obtain ⟨t'', hst', he''⟩ := step_bagEq hst hte.symm
    exact ⟨t'', TW.Reachable.step htr hst', he''.symm.trans he'⟩

end RootSim.TWG
