import RootSim.Proofs.GvtNodeClean
/-! The `total_sent` cleaning invariant and the reset of the node counters at the end of the counting phase. -/
namespace RootSim.GvtNode

structure Clean (s : St) : Prop where
  unrep_lt : ∀ (t : Nat) th c, s.thr[t]? = some th → ∀ d ∈ th.unrep.get c, d < s.nodes.length
  sent_lt : ∀ (k : Nat) nd, s.nodes[k]? = some nd → ∀ d ∈ nd.totalSent, d < s.nodes.length
  /-- a thread that passed has cleared its slice, and nothing is added to it afterwards -/
  slice : ∀ (t : Nat) th nd, s.thr[t]? = some th → th.stage = .redux2 → s.nodes[th.node]? = some nd →
    ∀ d ∈ nd.totalSent, ¬ inSlice s.nodes.length s.N th.rid d

theorem clean_step (old : Bool) (s s' : St) (a : Action) (hinv : Inv old s) (hp : PassedZero s)
    (hc : Clean s) (hs : step s a = some s') : Clean s' := by
  obtain ⟨t, th, th', hth, hthr, hn, hrid, hN, hlen, hback⟩ := step_thr s s' a hs
  constructor
  · intro t1 th1 c h1 d hd
    obtain ⟨th0, h0, hsub⟩ := step_unrep s s' a hs t1 th1 h1
    rw [hlen]
    rcases hsub c d hd with h | h
    · exact hc.unrep_lt t1 th0 c h0 d h
    · exact h
  · intro k nd' hk d hd
    obtain ⟨nd, hnd, h1, _⟩ := step_totalSent s s' a hs k nd' hk
    rw [hlen]
    rcases h1 d hd with h | ⟨t0, th0, _, h0, _, hm⟩
    · exact hc.sent_lt k nd hnd d h
    · exact hc.unrep_lt t0 th0 _ h0 d hm
  · intro t1 th1 nd' h1 hst1 hk d hd
    obtain ⟨nd, hnd, f1, f2⟩ := step_totalSent s s' a hs th1.node nd' hk
    rw [hlen, hN]
    -- a thread that had already passed in `s`
    have old_case : ∀ (th0 : Thr), s.thr[t1]? = some th0 → th0.stage = .redux2 → th0.node = th1.node →
        th0.rid = th1.rid → ¬ inSlice s.nodes.length s.N th1.rid d := by
      intro th0 h0 hs0 hk0 hr0
      rw [← hk0] at hnd
      have hz := hp t1 th0 nd h0 hs0 hnd
      obtain ⟨_, d2, _⟩ := drained_of_zero old s hinv t1 th0 nd h0 hnd (by simp [hs0, Stage.reported]) hz
      rcases f1 d hd with h | ⟨t0, thr0, _, hr, hst, _⟩
      · rw [← hr0]; exact hc.slice t1 th0 nd h0 hs0 hnd d h
      · have := d2 t0 thr0 hr; simp [hst, Stage.reported] at this
    rw [hthr] at h1
    rcases thr_set_cases _ _ _ _ _ h1 with ⟨rfl, rfl⟩ | ⟨_, h1⟩
    · rcases hback hst1 with hb | rfl
      · exact old_case th hth hb hn.symm hrid.symm
      · obtain ⟨th2, nd2, th2', p1, p2, p3, p4, p5, p6, _⟩ := poll_spec s s' t1 hs
        rw [hth] at p1; cases p1
        rw [hthr] at p4
        have hlt : t1 < s.thr.length := (List.getElem?_eq_some_iff.1 hth).1
        simp [hlt] at p4; subst p4
        rw [← hn] at p2; rw [hnd] at p2; cases p2
        rw [hrid]
        exact f2 t1 th rfl hth hn.symm (p6.1 hst1) d hd
    · exact old_case th1 h1 hst1 rfl rfl

/-- static well-formedness: `N > 0` and the threads of every node are numbered `0 .. N-1` -/
def RidCover (s : St) : Prop :=
  0 < s.N ∧ ∀ k, k < s.nodes.length → ∀ r, r < s.N → ∃ th ∈ s.thr, th.node = k ∧ th.rid = r

theorem ridCover_step (s s' : St) (a : Action) (h : RidCover s) (hs : step s a = some s') : RidCover s' := by
  obtain ⟨t, th, th', hth, hthr, hn, hrid, hN, hlen, _⟩ := step_thr s s' a hs
  refine ⟨hN ▸ h.1, ?_⟩
  intro k hk r hr
  obtain ⟨th0, hm, h1, h2⟩ := h.2 k (hlen ▸ hk) r (hN ▸ hr)
  obtain ⟨t0, ht0⟩ := List.getElem?_of_mem hm
  have hlt : t < s.thr.length := (List.getElem?_eq_some_iff.1 hth).1
  by_cases he : t0 = t
  · subst he
    rw [hth] at ht0; cases ht0
    refine ⟨th', ?_, hn ▸ h1, hrid ▸ h2⟩
    rw [hthr]; exact List.mem_of_getElem? (by simp [hlt] : (s.thr.set t0 th')[t0]? = some th')
  · refine ⟨th0, ?_, h1, h2⟩
    rw [hthr]
    exact List.mem_of_getElem? (by rw [List.getElem?_set_ne (Ne.symm he)]; exact ht0 : (s.thr.set t th')[t0]? = some th0)

/-- everything that is carried along a round -/
structure Full (old : Bool) (s : St) : Prop where
  inv : Inv old s
  passed : PassedZero s
  clean : Clean s
  rids : RidCover s

theorem full_step (old : Bool) (s s' : St) (a : Action) (h : Full old s) (hs : step s a = some s') :
    Full old s' :=
  ⟨inv_step old s s' a h.inv hs, passedZero_step old s s' a h.inv h.passed hs,
   clean_step old s s' a h.inv h.passed h.clean hs, ridCover_step s s' a h.rids hs⟩

theorem full_run (old : Bool) (as : List Action) (s s' : St) (h : Full old s) (hs : run s as = some s') :
    Full old s' := by
  induction as generalizing s with
  | nil => simp [run] at hs; subst hs; exact h
  | cons a as ih =>
    simp only [run] at hs
    split at hs
    · simp at hs
    · rename_i s1 h1; exact ih s1 (full_step old s s1 a h h1) hs

theorem full_of_roundStart (old : Bool) (s : St) (h : RoundStart old s) : Full old s := by
  refine ⟨inv_of_roundStart old s h, ?_, ⟨?_, ?_, ?_⟩, ⟨h.npos, h.rids⟩⟩
  · intro t th nd ht hst
    have := (h.thr th (List.mem_of_getElem? ht)).2.2
    rw [this] at hst; cases hst
  · intro t th c ht d hd
    exact h.dest th (List.mem_of_getElem? ht) c d hd
  · intro k nd hk d hd
    rw [h.node nd (List.mem_of_getElem? hk)] at hd; simp at hd
  · intro t th nd ht hst
    have := (h.thr th (List.mem_of_getElem? ht)).2.2
    rw [this] at hst; cases hst

/-- the slices `[r*q, r*q+q)`, `r < N`, `q = K/N + 1`, cover `0 .. K-1` -/
theorem slice_cover (K N d : Nat) (hN : 0 < N) (hd : d < K) :
    d / (K / N + 1) < N ∧ inSlice K N (d / (K / N + 1)) d := by
  have hq : 0 < K / N + 1 := Nat.succ_pos _
  have h1 : K < N * (K / N + 1) := Nat.lt_mul_div_succ K hN
  refine ⟨?_, Nat.div_mul_le_self d _, Nat.lt_div_mul_add hq⟩
  rw [Nat.div_lt_iff_lt_mul hq]; exact Nat.lt_trans hd h1

theorem reset_of_full (old : Bool) (s : St) (h : Full old s) (k : Nat) (nd : Node)
    (hk : s.nodes[k]? = some nd) (hall : ∀ th ∈ s.thr, th.node = k → th.stage = .redux2) :
    nd.totalRecv = 0 ∧ nd.totalSent = [] := by
  have hlt : k < s.nodes.length := (List.getElem?_eq_some_iff.1 hk).1
  constructor
  · obtain ⟨th, hm, h1, _⟩ := h.rids.2 k hlt 0 h.rids.1
    obtain ⟨t, ht⟩ := List.getElem?_of_mem hm
    exact h.passed t th nd ht (hall th hm h1) (h1 ▸ hk)
  · rw [List.eq_nil_iff_forall_not_mem]
    intro d hd
    have hdK := h.clean.sent_lt k nd hk d hd
    obtain ⟨hr, hin⟩ := slice_cover s.nodes.length s.N d h.rids.1 hdK
    obtain ⟨th, hm, h1, h2⟩ := h.rids.2 k hlt _ hr
    obtain ⟨t, ht⟩ := List.getElem?_of_mem hm
    exact h.clean.slice t th nd ht (hall th hm h1) (h1 ▸ hk) d hd (h2 ▸ hin)

end RootSim.GvtNode
