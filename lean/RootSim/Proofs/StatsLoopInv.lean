import RootSim.Proofs.StatsLoopAbs
/-! The loop model keeps the invariant of `Proofs/StatsLoopAbs.lean`; what follows at the barrier. -/
namespace RootSim.StatsLoop

/-- the accounting of a returned value -/
def bump (v : Bool) (th : Th) : Th := { th with records := th.records + (if v then 1 else 0) }

theorem code_congr (R : Nat) (a b : Th) (h1 : a.tphase = b.tphase) (h2 : a.nphase = b.nphase)
    (h3 : a.records + a.discarded = b.records + b.discarded) : code R a = code R b := by
  simp only [code, h1, h2, h3]

/-- the positions, read backwards -/
theorem code_cases (R : Nat) (th : Th) (h : code R th ≠ 17) :
    (th.nphase = 0 ∧ th.tphase = 0 ∧ th.records + th.discarded = R ∧ code R th = 16) ∨
    (th.nphase = 0 ∧ th.tphase = 0 ∧ th.records + th.discarded + 1 = R ∧ code R th = 0) ∨
    (th.nphase = 0 ∧ th.tphase = 1 ∧ th.records + th.discarded + 1 = R ∧ code R th = 1) ∨
    (th.nphase = 0 ∧ th.tphase = 2 ∧ th.records + th.discarded + 1 = R ∧ code R th = 2) ∨
    (th.nphase = 0 ∧ th.tphase = 3 ∧ th.records + th.discarded + 1 = R ∧ code R th = 3) ∨
    (th.nphase = 0 ∧ th.tphase = 4 ∧ th.records + th.discarded + 1 = R ∧ code R th = 4) ∨
    (th.nphase = 1 ∧ th.tphase = 1 ∧ th.records + th.discarded + 1 = R ∧ code R th = 5) ∨
    (th.nphase = 2 ∧ th.tphase = 1 ∧ th.records + th.discarded + 1 = R ∧ code R th = 6) ∨
    (th.nphase = 3 ∧ th.tphase = 1 ∧ th.records + th.discarded + 1 = R ∧ code R th = 7) ∨
    (th.nphase = 4 ∧ th.tphase = 1 ∧ th.records + th.discarded + 1 = R ∧ code R th = 8) ∨
    (th.nphase = 4 ∧ th.tphase = 2 ∧ th.records + th.discarded + 1 = R ∧ code R th = 9) ∨
    (th.nphase = 4 ∧ th.tphase = 3 ∧ th.records + th.discarded + 1 = R ∧ code R th = 10) ∨
    (th.nphase = 4 ∧ th.tphase = 4 ∧ th.records + th.discarded + 1 = R ∧ code R th = 11) ∨
    (th.nphase = 5 ∧ th.tphase = 1 ∧ th.records + th.discarded + 1 = R ∧ code R th = 12) ∨
    (th.nphase = 6 ∧ th.tphase = 1 ∧ th.records + th.discarded + 1 = R ∧ code R th = 13) ∨
    (th.nphase = 7 ∧ th.tphase = 1 ∧ th.records + th.discarded + 1 = R ∧ code R th = 14) ∨
    (th.nphase = 8 ∧ th.tphase = 1 ∧ th.records + th.discarded = R ∧ code R th = 15) := by
  have h' := h
  simp only [code] at h'
  split at h' <;> rename_i h1 h2
  · by_cases e : th.records + th.discarded = R
    · simp [code, h1, h2, e]
    · by_cases e2 : th.records + th.discarded + 1 = R
      · have : code R th = 0 := by simp [code, h1, h2, e, e2]
        simp [h1, h2, e2, this]
      · simp [e, e2] at h'
  all_goals first
    | (by_cases e : th.records + th.discarded + 1 = R
       · simp [code, h1, h2, e]
       · simp [e] at h')
    | (by_cases e : th.records + th.discarded = R
       · simp [code, h1, h2, e]
       · simp [e] at h')
    | exact absurd rfl h'

theorem node_move (cfg : Cfg) (R : Nat) (sh : Sh) (th : Th) (ht : th.tphase ≠ 0) (ha : code R th ≠ 17) :
    Move cfg.n (code R th) (code R (bump (nodePhaseRun cfg sh th).1 (nodePhaseRun cfg sh th).2.2))
      (absSh sh) (absSh (nodePhaseRun cfg sh th).2.1) (nodePhaseRun cfg sh th).1 ∧
    (nodePhaseRun cfg sh th).2.1.started = sh.started := by
  rcases code_cases R th ha with ⟨h1, h2, htot, hc⟩ | ⟨h1, h2, htot, hc⟩ | ⟨h1, h2, htot, hc⟩ | ⟨h1, h2, htot, hc⟩ |
    ⟨h1, h2, htot, hc⟩ | ⟨h1, h2, htot, hc⟩ | ⟨h1, h2, htot, hc⟩ | ⟨h1, h2, htot, hc⟩ | ⟨h1, h2, htot, hc⟩ |
    ⟨h1, h2, htot, hc⟩ | ⟨h1, h2, htot, hc⟩ | ⟨h1, h2, htot, hc⟩ | ⟨h1, h2, htot, hc⟩ | ⟨h1, h2, htot, hc⟩ |
    ⟨h1, h2, htot, hc⟩ | ⟨h1, h2, htot, hc⟩ | ⟨h1, h2, htot, hc⟩
  · exact absurd h2 ht
  · exact absurd h2 ht
  · -- (0,1) A
    rw [hc]; simp only [nodePhaseRun, threadPhaseRun, h1, h2]
    by_cases hg : sh.cA = 0
    · simpa [absSh, code, bump, htot, hg] using Move.ab (n := cfg.n) 1 (absSh sh) (Or.inl rfl) hg
    · simpa [absSh, code, bump, htot, hg, h1, h2, hc] using Move.stay (n := cfg.n) 1 (absSh sh)
  · -- (0,2) B
    rw [hc]; simp only [nodePhaseRun, threadPhaseRun, h1, h2]
    by_cases hg : sh.cB = cfg.n
    · simpa [absSh, code, bump, htot, hg] using Move.bc (n := cfg.n) 2 (absSh sh) (Or.inl rfl) hg
    · simpa [absSh, code, bump, htot, hg, h1, h2, hc] using Move.stay (n := cfg.n) 2 (absSh sh)
  · -- (0,3) C
    rw [hc]; simp only [nodePhaseRun, threadPhaseRun, h1, h2]
    by_cases hg : sh.cA = cfg.n
    · simpa [absSh, code, bump, htot, hg] using Move.cd (n := cfg.n) 3 (absSh sh) (Or.inl rfl) hg
    · simpa [absSh, code, bump, htot, hg, h1, h2, hc] using Move.stay (n := cfg.n) 3 (absSh sh)
  · -- (0,4) D
    rw [hc]; simp only [nodePhaseRun, threadPhaseRun, h1, h2]
    by_cases hg : sh.cB = 0
    · simpa [absSh, code, bump, htot, hg] using Move.de (n := cfg.n) 4 (absSh sh) (Or.inl rfl) hg
    · simpa [absSh, code, bump, htot, hg, h1, h2, hc] using Move.stay (n := cfg.n) 4 (absSh sh)
  · -- (1,1) node_sent_reduce
    rw [hc]; simp only [nodePhaseRun, h1]
    by_cases hg : sh.cA = 0
    · by_cases hg2 : sh.cC = cfg.n - 1
      · simpa [absSh, code, bump, htot, hg, hg2, h2] using Move.sentLast (n := cfg.n) (absSh sh) hg hg2
      · simpa [absSh, code, bump, htot, hg, hg2, h2] using Move.sent (n := cfg.n) (absSh sh) hg hg2
    · simpa [absSh, code, bump, htot, hg, h1, h2, hc] using Move.stay (n := cfg.n) 5 (absSh sh)
  · -- (2,1) node_sent_reduce_wait
    rw [hc]; simp only [nodePhaseRun, h1]
    simpa [absSh, code, bump, htot, h2] using Move.scatter (n := cfg.n) (absSh sh)
  · -- (3,1) node_sent_wait
    rw [hc]; simp only [nodePhaseRun, h1]
    by_cases hg : sh.totalRecv = 0
    · simpa [absSh, code, bump, htot, hg, h2] using Move.recvd (n := cfg.n) (absSh sh) hg
    · simpa [absSh, code, bump, htot, hg, h1, h2, hc] using Move.stay (n := cfg.n) 7 (absSh sh)
  · -- (4,1) A
    rw [hc]; simp only [nodePhaseRun, threadPhaseRun, h1, h2]
    by_cases hg : sh.cA = 0
    · simpa [absSh, code, bump, htot, hg] using Move.ab (n := cfg.n) 8 (absSh sh) (Or.inr rfl) hg
    · simpa [absSh, code, bump, htot, hg, h1, h2, hc] using Move.stay (n := cfg.n) 8 (absSh sh)
  · -- (4,2) B
    rw [hc]; simp only [nodePhaseRun, threadPhaseRun, h1, h2]
    by_cases hg : sh.cB = cfg.n
    · simpa [absSh, code, bump, htot, hg] using Move.bc (n := cfg.n) 9 (absSh sh) (Or.inr rfl) hg
    · simpa [absSh, code, bump, htot, hg, h1, h2, hc] using Move.stay (n := cfg.n) 9 (absSh sh)
  · -- (4,3) C
    rw [hc]; simp only [nodePhaseRun, threadPhaseRun, h1, h2]
    by_cases hg : sh.cA = cfg.n
    · simpa [absSh, code, bump, htot, hg] using Move.cd (n := cfg.n) 10 (absSh sh) (Or.inr rfl) hg
    · simpa [absSh, code, bump, htot, hg, h1, h2, hc] using Move.stay (n := cfg.n) 10 (absSh sh)
  · -- (4,4) D
    rw [hc]; simp only [nodePhaseRun, threadPhaseRun, h1, h2]
    by_cases hg : sh.cB = 0
    · simpa [absSh, code, bump, htot, hg] using Move.de (n := cfg.n) 11 (absSh sh) (Or.inr rfl) hg
    · simpa [absSh, code, bump, htot, hg, h1, h2, hc] using Move.stay (n := cfg.n) 11 (absSh sh)
  · -- (5,1) node_min_reduce
    rw [hc]; simp only [nodePhaseRun, h1]
    by_cases hg : sh.cD = 0
    · simpa [absSh, code, bump, htot, hg, h2] using Move.minFirst (n := cfg.n) (absSh sh) hg
    · simpa [absSh, code, bump, htot, hg, h2] using Move.minLater (n := cfg.n) (absSh sh) hg
  · -- (6,1) node_min_reduce_wait
    rw [hc]; simp only [nodePhaseRun, h1]
    by_cases hg : sh.cD = cfg.n
    · have e : th.records + 1 + th.discarded = R := by omega
      simpa [absSh, code, bump, htot, hg, h2, e] using Move.reduced (n := cfg.n) (absSh sh) hg
    · simpa [absSh, code, bump, htot, hg, h1, h2, hc] using Move.stay (n := cfg.n) 13 (absSh sh)
  · -- (7,1) node_min_wait
    rw [hc]; simp only [nodePhaseRun, h1]
    by_cases hg : sh.cC = 0
    · have e : th.records + 1 + th.discarded = R := by omega
      simpa [absSh, code, bump, htot, hg, h2, e] using Move.released (n := cfg.n) (absSh sh) hg
    · simpa [absSh, code, bump, htot, hg, h1, h2, hc] using Move.stay (n := cfg.n) 14 (absSh sh)
  · -- (8,1) node_done
    rw [hc]; simp only [nodePhaseRun, h1]
    by_cases hd : sh.cD = 1
    · have hd' : (absSh sh).cD = 1 := hd
      have := Move.done (n := cfg.n) (absSh sh)
      simp only [hd', if_true] at this
      simpa [absSh, code, bump, htot, h2, hd] using this
    · have hd' : ¬ (absSh sh).cD = 1 := hd
      have := Move.done (n := cfg.n) (absSh sh)
      simp only [hd', if_false] at this
      simpa [absSh, code, bump, htot, h2, hd] using this

theorem moved_of_set (R : Nat) (ths : List Th) (i : Nat) (th th' : Th) (h : ths[i]? = some th) :
    Moved (cnt R ths) (cnt R (ths.set i th')) (code R th) (code R th') :=
  ⟨cnt_pos R ths i th h, fun k => cnt_set R ths i th th' h k⟩

/-- thread 0 starts a round: everybody was through with the previous one -/
theorem AInv_start (n : Nat) (c c' : Nat → Nat) (s : Ab) (h : AInv n c s) (hg : s.gn = 0)
    (hc : ∀ k, c' k + (if 0 = k then 1 else 0) = (if k = 0 then n else 0) + (if 1 = k then 1 else 0)) :
    AInv n c' { s with gn := s.gn + 1, st := s.st + 1 } := by
  have e0 := hc 0; have e1 := hc 1; have e2 := hc 2; have e3 := hc 3; have e4 := hc 4; have e5 := hc 5
  have e6 := hc 6; have e7 := hc 7; have e8 := hc 8; have e9 := hc 9; have e10 := hc 10; have e11 := hc 11
  have e12 := hc 12; have e13 := hc 13; have e14 := hc 14; have e15 := hc 15; have e16 := hc 16; have e17 := hc 17
  clear hc
  simp at e0 e1 e2 e3 e4 e5 e6 e7 e8 e9 e10 e11 e12 e13 e14 e15 e16 e17
  finish_move

theorem code_shift (R : Nat) (th : Th) (h : code R th = 16) : code (R + 1) th = 0 := by
  rcases code_cases R th (by omega) with ⟨h1, h2, htot, hc⟩ | ⟨h1, h2, htot, hc⟩ | ⟨h1, h2, htot, hc⟩ | ⟨h1, h2, htot, hc⟩ |
    ⟨h1, h2, htot, hc⟩ | ⟨h1, h2, htot, hc⟩ | ⟨h1, h2, htot, hc⟩ | ⟨h1, h2, htot, hc⟩ | ⟨h1, h2, htot, hc⟩ |
    ⟨h1, h2, htot, hc⟩ | ⟨h1, h2, htot, hc⟩ | ⟨h1, h2, htot, hc⟩ | ⟨h1, h2, htot, hc⟩ | ⟨h1, h2, htot, hc⟩ |
    ⟨h1, h2, htot, hc⟩ | ⟨h1, h2, htot, hc⟩ | ⟨h1, h2, htot, hc⟩ <;> first
    | omega
    | (simp only [code, h1, h2]; have : ¬ th.records + th.discarded = R + 1 := by omega
       simp [htot])

theorem AInv_idle (n : Nat) (c : Nat → Nat) (s : Ab) (h : AInv n c s) (hg : s.gn = 0) : c 16 = n := by
  rcases h.2 with h|h|h|h|h|h|h|h|h|h
  · exact h.1
  · have := h.2.2.1; omega
  · have := h.2.2.1; omega
  · have := h.2.2.1; omega
  · have := h.2.2.2.2.1; omega
  · have := h.2.2.1; omega
  · have := h.2.2.1; omega
  · have := h.2.2.1; omega
  · have := h.2.2.2.2.1; omega
  · have := h.2.2.1; omega

/-- **One call of `gvt_phase_run` keeps the invariant**, whatever is done with the returned value besides
counting it (`th''` = the thread afterwards: same phases as the call left them, one more value received
iff one was returned). -/
theorem phase_inv (cfg : Cfg) (i : Nat) (sh : Sh) (ths : List Th) (th : Th) (hi : ths[i]? = some th)
    (hlen : ths.length = cfg.n) (hA : AInv cfg.n (cnt sh.started ths) (absSh sh)) (th'' : Th)
    (h1 : th''.tphase = (gvtPhaseRun cfg i sh th).2.2.tphase)
    (h2 : th''.nphase = (gvtPhaseRun cfg i sh th).2.2.nphase)
    (h3 : th''.records + th''.discarded = (gvtPhaseRun cfg i sh th).2.2.records +
      (gvtPhaseRun cfg i sh th).2.2.discarded + (if (gvtPhaseRun cfg i sh th).1 then 1 else 0)) :
    AInv cfg.n (cnt (gvtPhaseRun cfg i sh th).2.1.started (ths.set i th'')) (absSh (gvtPhaseRun cfg i sh th).2.1) := by
  have hbad : code sh.started th ≠ 17 := by
    have := cnt_pos sh.started ths i th hi
    intro e; rw [e, hA.1.1] at this; omega
  by_cases ht : th.tphase = 0
  · -- idle
    have hp : th.nphase = 0 ∧ ((th.records + th.discarded = sh.started ∧ code sh.started th = 16) ∨
        (th.records + th.discarded + 1 = sh.started ∧ code sh.started th = 0)) := by
      rcases code_cases sh.started th hbad with ⟨h1, h2, htot, hc⟩ | ⟨h1, h2, htot, hc⟩ | ⟨h1, h2, htot, hc⟩ |
        ⟨h1, h2, htot, hc⟩ | ⟨h1, h2, htot, hc⟩ | ⟨h1, h2, htot, hc⟩ | ⟨h1, h2, htot, hc⟩ | ⟨h1, h2, htot, hc⟩ |
        ⟨h1, h2, htot, hc⟩ | ⟨h1, h2, htot, hc⟩ | ⟨h1, h2, htot, hc⟩ | ⟨h1, h2, htot, hc⟩ | ⟨h1, h2, htot, hc⟩ |
        ⟨h1, h2, htot, hc⟩ | ⟨h1, h2, htot, hc⟩ | ⟨h1, h2, htot, hc⟩ | ⟨h1, h2, htot, hc⟩ <;>
        first | exact ⟨h1, Or.inl ⟨htot, hc⟩⟩ | exact ⟨h1, Or.inr ⟨htot, hc⟩⟩ | omega
    obtain ⟨hp0, hp⟩ := hp
    by_cases hstart : i = 0 ∧ cfg.period < sh.clock + 1 - sh.timer ∧ sh.gvtNodes = 0
    · -- thread 0 starts a round
      have hrun : (gvtPhaseRun cfg i sh th).1 = false ∧
          (gvtPhaseRun cfg i sh th).2.1.started = sh.started + 1 ∧
          absSh (gvtPhaseRun cfg i sh th).2.1 = { absSh sh with gn := (absSh sh).gn + 1, st := (absSh sh).st + 1 } ∧
          (gvtPhaseRun cfg i sh th).2.2.tphase = 1 ∧ (gvtPhaseRun cfg i sh th).2.2.nphase = 0 ∧
          (gvtPhaseRun cfg i sh th).2.2.records + (gvtPhaseRun cfg i sh th).2.2.discarded =
            th.records + th.discarded := by
        obtain ⟨hi0, hper, hgn⟩ := hstart
        by_cases hb : sh.cB = 0 <;> simp [gvtPhaseRun, ht, hi0, hper, hgn, hb, absSh, hp0]
      obtain ⟨r1, r2, r3, r4, r5, r6⟩ := hrun
      rw [r2, r3]
      rw [r4] at h1; rw [r5] at h2; rw [r6, r1] at h3
      have h16 : cnt sh.started ths 16 = ths.length := by
        rw [hlen]; exact AInv_idle _ _ _ hA hstart.2.2
      have hall := cnt_all _ _ _ h16
      have hall' : ∀ t ∈ ths, code (sh.started + 1) t = 0 := fun t ht => code_shift _ _ (hall t ht)
      have hth : code (sh.started + 1) th = 0 := hall' th (List.mem_of_getElem? hi)
      have htot : th''.records + th''.discarded + 1 = sh.started + 1 := by
        have := hall th (List.mem_of_getElem? hi)
        rcases hp with ⟨e, _⟩ | ⟨_, e⟩
        · simp at h3; omega
        · omega
      have hth'' : code (sh.started + 1) th'' = 1 := by simp [code, h1, h2, htot]
      refine AInv_start _ (cnt sh.started ths) _ _ hA hstart.2.2 ?_
      intro k
      have := cnt_set (sh.started + 1) ths i th th'' hi k
      rw [hth, hth'', cnt_const _ _ _ hall' k, hlen] at this
      exact this
    · -- any other call of an idle thread
      have hrun : (gvtPhaseRun cfg i sh th).1 = false ∧
          (gvtPhaseRun cfg i sh th).2.1.started = sh.started ∧
          absSh (gvtPhaseRun cfg i sh th).2.1 = absSh sh ∧
          (gvtPhaseRun cfg i sh th).2.2 = (if sh.cB ≠ 0 then { th with tphase := 1 } else th) := by
        by_cases hi0 : i = 0
        · by_cases hc : cfg.period < sh.clock + 1 - sh.timer ∧ sh.gvtNodes = 0
          · exact absurd ⟨hi0, hc⟩ hstart
          · simp [gvtPhaseRun, ht, hi0, hc, absSh]
        · simp [gvtPhaseRun, ht, hi0]
      obtain ⟨r1, r2, r3, r4⟩ := hrun
      rw [r2, r3]
      rw [r4] at h1 h2 h3; rw [r1] at h3
      by_cases hb : sh.cB = 0
      · simp only [hb, ne_eq, not_true_eq_false, if_false] at h1 h2 h3
        have hcode : code sh.started th'' = code sh.started th := code_congr _ _ _ h1 h2 (by simpa using h3)
        have hm := moved_of_set sh.started ths i th th'' hi
        rw [hcode] at hm
        exact mv_stay _ _ _ _ _ hm hA
      · simp only [hb, ne_eq, not_false_eq_true, if_true] at h1 h2 h3
        have hm := moved_of_set sh.started ths i th th'' hi
        have h3' : th''.records + th''.discarded = th.records + th.discarded := by simpa using h3
        rcases hp with ⟨htot, hc⟩ | ⟨htot, hc⟩
        · have : code sh.started th'' = 17 := by
            have e : ¬ th.records + th.discarded + 1 = sh.started := by omega
            simp [code, h1, h2, h3', hp0, e]
          rw [hc, this] at hm
          exact mv_joinLate _ _ _ _ hb hm hA
        · have : code sh.started th'' = 1 := by simp [code, h1, h2, h3', hp0, htot]
          rw [hc, this] at hm
          exact mv_join _ _ _ _ hb hm hA
  · -- inside a round
    have hrun : gvtPhaseRun cfg i sh th = nodePhaseRun cfg sh th := by simp [gvtPhaseRun, ht]
    rw [hrun] at h1 h2 h3 ⊢
    obtain ⟨hm, hs⟩ := node_move cfg sh.started sh th ht hbad
    rw [hs]
    have hcode : code sh.started th'' =
        code sh.started (bump (nodePhaseRun cfg sh th).1 (nodePhaseRun cfg sh th).2.2) := by
      refine code_congr _ _ _ h1 h2 ?_
      rw [h3]; simp only [bump]; omega
    rw [← hcode] at hm
    exact AInv_move _ _ _ _ _ _ _ _ hm (moved_of_set _ _ _ _ _ hi) hA

/-! ## The invariant of the loop model -/

theorem threadPhaseRun_counts (cfg : Cfg) (sh : Sh) (th : Th) :
    (threadPhaseRun cfg sh th).2.2.records = th.records ∧ (threadPhaseRun cfg sh th).2.2.discarded = th.discarded := by
  unfold threadPhaseRun
  split <;> (try split) <;> simp

theorem nodePhaseRun_counts (cfg : Cfg) (sh : Sh) (th : Th) :
    (nodePhaseRun cfg sh th).2.2.records = th.records ∧ (nodePhaseRun cfg sh th).2.2.discarded = th.discarded := by
  have ht := threadPhaseRun_counts cfg sh th
  unfold nodePhaseRun
  split
  all_goals first
    | (split <;> rename_i heq <;> rw [heq] at ht <;> simpa using ht)
    | ((repeat' split) <;> simp)

/-- `gvt_phase_run` does not touch the statistics -/
theorem gvtPhaseRun_counts (cfg : Cfg) (i : Nat) (sh : Sh) (th : Th) :
    (gvtPhaseRun cfg i sh th).2.2.records = th.records ∧ (gvtPhaseRun cfg i sh th).2.2.discarded = th.discarded := by
  unfold gvtPhaseRun
  split
  · exact nodePhaseRun_counts cfg sh th
  · by_cases hb : sh.cB = 0 <;> by_cases hi : i = 0 <;>
      by_cases hc : cfg.period < sh.clock + 1 - sh.timer ∧ sh.gvtNodes = 0 <;> simp [hb, hi, hc]

def GInv (cfg : Cfg) (st : St) : Prop :=
  st.ths.length = cfg.n ∧ AInv cfg.n (cnt st.sh.started st.ths) (absSh st.sh) ∧
  (∀ th ∈ st.ths, th.pc = .barrier → th.tphase = 0) ∧
  (cfg.fix6 = true → ∀ th ∈ st.ths, th.discarded = 0)

theorem GInv_init (cfg : Cfg) : GInv cfg (init cfg) := by
  have hall : ∀ th ∈ (init cfg).ths, code 0 th = 16 := by
    intro th hm
    have : th = {} := by simpa [init] using (List.eq_of_mem_replicate hm)
    subst this; rfl
  refine ⟨by simp [init], ?_, ?_, ?_⟩
  · have hc := cnt_const 0 (init cfg).ths 16 hall
    have hl : (init cfg).ths.length = cfg.n := by simp [init]
    have e : ∀ j, cnt 0 (init cfg).ths j = if j = 16 then cfg.n else 0 := by
      intro j; rw [hc, hl]
    refine ⟨?_, Or.inl ?_⟩
    · show Common _ (cnt 0 (init cfg).ths) _
      simp only [Common, e]
      simp [absSh, init]
    · show Stage0 _ (cnt 0 (init cfg).ths) _
      simp only [Stage0, e]
      simp [absSh, init]
  · intro th hm
    have : th = {} := by simpa [init] using (List.eq_of_mem_replicate hm)
    subst this; intro h; cases h
  · intro _ th hm
    have : th = {} := by simpa [init] using (List.eq_of_mem_replicate hm)
    subst this; rfl

theorem cnt_set_same (R : Nat) (ths : List Th) (i : Nat) (th th' : Th) (h : ths[i]? = some th)
    (hc : code R th' = code R th) : cnt R (ths.set i th') = cnt R ths := by
  funext k
  have := cnt_set R ths i th th' h k
  rw [hc] at this; omega

/-- a step that changes neither the phases nor the statistics of thread `i` nor the shared variables
`absSh` speaks about -/
theorem GInv_pc (cfg : Cfg) (st : St) (i : Nat) (th : Th) (hi : st.ths[i]? = some th) (h : GInv cfg st)
    (sh' : Sh) (hs : absSh sh' = absSh st.sh) (th' : Th) (e1 : th'.tphase = th.tphase) (e2 : th'.nphase = th.nphase)
    (e3 : th'.records = th.records) (e4 : th'.discarded = th.discarded)
    (hpc : th'.pc = .barrier → th.tphase = 0) :
    GInv cfg { sh := sh', ths := st.ths.set i th' } := by
  obtain ⟨hl, hA, hb, hd⟩ := h
  have hst : sh'.started = st.sh.started := congrArg Ab.st hs
  refine ⟨by simpa using hl, ?_, ?_, ?_⟩
  · show AInv _ (cnt sh'.started (st.ths.set i th')) (absSh sh')
    rw [hs, hst, cnt_set_same st.sh.started st.ths i th th' hi (code_congr _ _ _ e1 e2 (by rw [e3, e4]))]
    exact hA
  · intro t ht
    rcases List.mem_or_eq_of_mem_set ht with hm | rfl
    · exact hb t hm
    · intro e; rw [e1]; exact hpc e
  · intro hf t ht
    rcases List.mem_or_eq_of_mem_set ht with hm | rfl
    · exact hd hf t hm
    · rw [e4]; exact hd hf th (List.mem_of_getElem? hi)

/-- a step that calls `gvt_phase_run` -/
theorem GInv_phase (cfg : Cfg) (st : St) (i : Nat) (th : Th) (hi : st.ths[i]? = some th) (h : GInv cfg st)
    (sh'' : Sh) (th'' : Th) (hs : absSh sh'' = absSh (gvtPhaseRun cfg i st.sh th).2.1)
    (h1 : th''.tphase = (gvtPhaseRun cfg i st.sh th).2.2.tphase)
    (h2 : th''.nphase = (gvtPhaseRun cfg i st.sh th).2.2.nphase)
    (h3 : th''.records + th''.discarded = (gvtPhaseRun cfg i st.sh th).2.2.records +
      (gvtPhaseRun cfg i st.sh th).2.2.discarded + (if (gvtPhaseRun cfg i st.sh th).1 then 1 else 0))
    (hpc : th''.pc ≠ .barrier) (hdis : cfg.fix6 = true → th''.discarded = (gvtPhaseRun cfg i st.sh th).2.2.discarded) :
    GInv cfg { sh := sh'', ths := st.ths.set i th'' } := by
  obtain ⟨hl, hA, hb, hd⟩ := h
  have hst : sh''.started = (gvtPhaseRun cfg i st.sh th).2.1.started := congrArg Ab.st hs
  refine ⟨by simpa using hl, ?_, ?_, ?_⟩
  · show AInv _ (cnt sh''.started (st.ths.set i th'')) (absSh sh'')
    rw [hs, hst]
    exact phase_inv cfg i st.sh st.ths th hi hl hA th'' h1 h2 h3
  · intro t ht
    rcases List.mem_or_eq_of_mem_set ht with hm | rfl
    · exact hb t hm
    · intro e; exact absurd e hpc
  · intro hf t ht
    rcases List.mem_or_eq_of_mem_set ht with hm | rfl
    · exact hd hf t hm
    · rw [hdis hf, (gvtPhaseRun_counts cfg i st.sh th).2]
      exact hd hf th (List.mem_of_getElem? hi)

/-- **Every atomic block keeps the invariant.** -/
theorem GInv_act (cfg : Cfg) (st : St) (i : Nat) (h : GInv cfg st) : GInv cfg (act cfg st i) := by
  unfold act
  split
  · exact h
  · rename_i th hi
    split
    · -- loopTop
      exact GInv_pc cfg st i th hi h st.sh rfl _ rfl rfl rfl rfl (by split <;> simp)
    · -- batch
      refine GInv_pc cfg st i th hi h _ ?_ _ rfl rfl rfl rfl (by simp)
      split <;> rfl
    · -- gvtCall
      split
      · rename_i sh' th' heq
        have := GInv_phase cfg st i th hi h sh' { th' with pc := .loopTop }
        rw [heq] at this
        exact this rfl rfl rfl (by simp) (by simp) (fun _ => rfl)
      · rename_i sh' th' heq
        have := GInv_phase cfg st i th hi h
          (if cfg.voteAt i = th'.records + 1 then
            { sh' with thrToEnd := sh'.thrToEnd - 1,
                       nodesToEnd := if sh'.thrToEnd = 1 then sh'.nodesToEnd - 1 else sh'.nodesToEnd }
           else sh') { th' with records := th'.records + 1, pc := .loopTop }
        rw [heq] at this
        refine this ?_ rfl rfl ?_ (by simp) (fun _ => rfl)
        · split <;> rfl
        · simp only [if_true]; omega
    · -- flushTop
      refine GInv_pc cfg st i th hi h st.sh rfl _ rfl rfl rfl rfl ?_
      split
      · simp
      · rename_i ht; intro _; simpa using ht
    · -- flushCall
      split
      rename_i v sh' th' heq
      have := GInv_phase cfg st i th hi h sh'
        { th' with discarded := th'.discarded + (if v && !cfg.fix6 then 1 else 0),
                   records := th'.records + (if v && cfg.fix6 then 1 else 0), pc := .flushTop }
      rw [heq] at this
      refine this rfl rfl rfl ?_ (by simp) ?_
      · cases v <;> cases cfg.fix6 <;> simp <;> omega
      · intro hf; simp [hf]
    · exact h

theorem GInv_runFine (cfg : Cfg) (st : St) (sched : List Nat) (h : GInv cfg st) : GInv cfg (runFine cfg st sched) := by
  induction sched generalizing st with
  | nil => exact h
  | cons i l ih => exact ih _ (GInv_act cfg st i h)

theorem GInv_settle (cfg : Cfg) (st : St) (i : Nat) (h : GInv cfg st) : GInv cfg (settle cfg st i) := by
  unfold settle
  split
  · simp only []
    split
    · exact GInv_act _ _ _ (GInv_act _ _ _ h)
    · exact GInv_act _ _ _ h
  · exact GInv_act _ _ _ h
  · exact h

theorem GInv_grant (cfg : Cfg) (st : St) (i : Nat) (h : GInv cfg st) : GInv cfg (grant cfg st i) :=
  GInv_settle _ _ _ (GInv_act _ _ _ h)

theorem GInv_runHook (cfg : Cfg) (st : St) (sched : List Nat) (h : GInv cfg st) : GInv cfg (runHook cfg st sched) := by
  induction sched generalizing st with
  | nil => exact h
  | cons i l ih => exact ih _ (GInv_grant cfg st i h)

theorem GInv_initHook (cfg : Cfg) : GInv cfg (initHook cfg) := by
  have : ∀ (l : List Nat) (st : St), GInv cfg st → GInv cfg (l.foldl (settle cfg) st) := by
    intro l
    induction l with
    | nil => intro st h; exact h
    | cons i l ih => intro st h; exact ih _ (GInv_settle cfg st i h)
  exact this _ _ (GInv_init cfg)

/-- every state of every execution, at both granularities -/
theorem reachable_fine (cfg : Cfg) (sched : List Nat) : GInv cfg (runFine cfg (init cfg) sched) :=
  GInv_runFine _ _ _ (GInv_init cfg)

theorem reachable_hook (cfg : Cfg) (sched : List Nat) : GInv cfg (runHook cfg (initHook cfg) sched) :=
  GInv_runHook _ _ _ (GInv_initHook cfg)

/-! ## At the barrier -/

theorem code_idle (R : Nat) (th : Th) (h : th.tphase = 0) (k : Nat) (h1 : 1 ≤ k) (h2 : k ≤ 15) : code R th ≠ k := by
  by_cases hb : code R th = 17
  · omega
  · rcases code_cases R th hb with ⟨h1, h2, htot, hc⟩ | ⟨h1, h2, htot, hc⟩ | ⟨h1, h2, htot, hc⟩ |
      ⟨h1, h2, htot, hc⟩ | ⟨h1, h2, htot, hc⟩ | ⟨h1, h2, htot, hc⟩ | ⟨h1, h2, htot, hc⟩ | ⟨h1, h2, htot, hc⟩ |
      ⟨h1, h2, htot, hc⟩ | ⟨h1, h2, htot, hc⟩ | ⟨h1, h2, htot, hc⟩ | ⟨h1, h2, htot, hc⟩ | ⟨h1, h2, htot, hc⟩ |
      ⟨h1, h2, htot, hc⟩ | ⟨h1, h2, htot, hc⟩ | ⟨h1, h2, htot, hc⟩ | ⟨h1, h2, htot, hc⟩ <;> omega

theorem code_through (R : Nat) (th : Th) (h : code R th = 16) : th.records + th.discarded = R := by
  rcases code_cases R th (by omega) with ⟨h1, h2, htot, hc⟩ | ⟨h1, h2, htot, hc⟩ | ⟨h1, h2, htot, hc⟩ |
    ⟨h1, h2, htot, hc⟩ | ⟨h1, h2, htot, hc⟩ | ⟨h1, h2, htot, hc⟩ | ⟨h1, h2, htot, hc⟩ | ⟨h1, h2, htot, hc⟩ |
    ⟨h1, h2, htot, hc⟩ | ⟨h1, h2, htot, hc⟩ | ⟨h1, h2, htot, hc⟩ | ⟨h1, h2, htot, hc⟩ | ⟨h1, h2, htot, hc⟩ |
    ⟨h1, h2, htot, hc⟩ | ⟨h1, h2, htot, hc⟩ | ⟨h1, h2, htot, hc⟩ | ⟨h1, h2, htot, hc⟩ <;> omega

theorem sameCount_of_all (st : St) (r : Nat) (h : ∀ th ∈ st.ths, th.records = r) : sameCount st = true := by
  unfold sameCount
  split
  · rfl
  · rename_i th rest heq
    apply List.all_eq_true.mpr
    intro t ht
    have h1 := h th (by rw [heq]; simp)
    have h2 := h t (by rw [heq]; simp [ht])
    simp [h1, h2]

/-- **When every thread stands at the barrier of `gvt_msg_drain`, every thread has received the value of
every round** (in its worker loop or in its flush loop), and every round that was started is over. -/
theorem GInv_final (cfg : Cfg) (st : St) (h : GInv cfg st) (hd : allDone st = true) :
    (∀ th ∈ st.ths, th.records + th.discarded = st.sh.completed) ∧ st.sh.started = st.sh.completed := by
  obtain ⟨hl, hA, hb, _⟩ := h
  have hidle : ∀ th ∈ st.ths, th.tphase = 0 := by
    intro th hm
    have := List.all_eq_true.mp hd th hm
    exact hb th hm (by simpa using this)
  have hz : ∀ k, 1 ≤ k → k ≤ 15 → cnt st.sh.started st.ths k = 0 := by
    intro k h1 h2
    apply List.countP_eq_zero.mpr
    intro th hm
    simpa using code_idle st.sh.started th (hidle th hm) k h1 h2
  have z1 := hz 1 (by omega) (by omega); have z2 := hz 2 (by omega) (by omega)
  have z3 := hz 3 (by omega) (by omega); have z4 := hz 4 (by omega) (by omega)
  have z5 := hz 5 (by omega) (by omega); have z6 := hz 6 (by omega) (by omega)
  have z7 := hz 7 (by omega) (by omega); have z8 := hz 8 (by omega) (by omega)
  have z9 := hz 9 (by omega) (by omega); have z10 := hz 10 (by omega) (by omega)
  have z11 := hz 11 (by omega) (by omega); have z12 := hz 12 (by omega) (by omega)
  have z13 := hz 13 (by omega) (by omega); have z14 := hz 14 (by omega) (by omega)
  have z15 := hz 15 (by omega) (by omega)
  have h0 : Stage0 cfg.n (cnt st.sh.started st.ths) (absSh st.sh) := by
    rcases hA.2 with h|h|h|h|h|h|h|h|h|h
    · exact h
    all_goals
      simp only [Stage1, Stage2, Stage3, Stage4, Stage5, Stage6, Stage7, Stage8, Stage9] at h
      omega
  have hall := cnt_all _ _ _ (h0.1.trans hl.symm)
  have hcs : st.sh.completed = st.sh.started := h0.2.2.2.2
  refine ⟨fun th hm => ?_, hcs.symm⟩
  rw [hcs]; exact code_through _ _ (hall th hm)

end RootSim.StatsLoop
