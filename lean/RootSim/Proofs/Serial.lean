import RootSim.Model.Serial
import RootSim.Proofs.SeqSpec
/-!
Helper lemmas for `serial_refines_spec` (C10): the serial runtime model of `Model/Serial.lean` simulates the
reference semantics of `Model/SeqSpec.lean`.
-/
namespace RootSim
open RootSim.Heap RootSim.C15.Heap

/-- a message as `msg_allocator_pack` + `raw_flags = 0` leaves it -/
def Msg.Packed (m : Msg) : Prop := m.rawFlags = 0 ∧ m.plSize = m.pl.length

theorem packMsg_packed (e : Event) (k : Nat) : (packMsg e k).Packed := by
  simp [packMsg, Event.toMsg, Msg.Packed]

theorem packMsg_toEvent (e : Event) (k : Nat) : (packMsg e k).toEvent = e := by
  cases e; simp [packMsg, Event.toMsg, Msg.toEvent, Msg.body]

theorem Msg.Packed.wf {m : Msg} (h : m.Packed) : m.WF := by
  unfold Msg.WF; rw [h.2]; exact Nat.le_refl _

theorem packed_before (a b : Msg) (ha : a.Packed) (hb : b.Packed) :
    isBefore a b = Event.before a.toEvent b.toEvent := by
  unfold Event.before
  apply C16.content_only
  · simp [Msg.content, Msg.toEvent, Event.toMsg, Msg.body, Msg.anti, ha.1, ha.2]
  · simp [Msg.content, Msg.toEvent, Event.toMsg, Msg.body, Msg.anti, hb.1, hb.2]

theorem isBefore_strictWeak_packed : StrictWeak isBefore Msg.Packed where
  asymm a b ha hb := isBefore_strictWeak.asymm a b ha.wf hb.wf
  ntrans a b c ha hb hc := isBefore_strictWeak.ntrans a b c ha.wf hb.wf hc.wf

/-- the pending events of a queue -/
def pendOf (q : Array Msg) : List Event := q.toList.map Msg.toEvent

theorem scheduleAll_spec (outs : List Event) : ∀ (q : Array Msg) (k : Nat), 0 < q.size →
    IsHeap isBefore q → AllP Msg.Packed q →
    (∀ r, q[0]? = some r → ∀ o ∈ outs, Event.before o r.toEvent = false) →
    IsHeap isBefore (scheduleAll q k outs).1 ∧ AllP Msg.Packed (scheduleAll q k outs).1 ∧
    (pendOf (scheduleAll q k outs).1).Perm (outs ++ pendOf q) ∧
    (scheduleAll q k outs).1[0]? = q[0]? := by
  induction outs with
  | nil => intro q k _ hh hp _; exact ⟨hh, hp, .refl _, rfl⟩
  | cons o os ih =>
    intro q k h0 hh hp hroot
    simp only [scheduleAll]
    have hins := insert_isHeap isBefore_strictWeak_packed q (packMsg o k) hp (packMsg_packed o k) hh
    have hperm : (pendOf (heapInsert isBefore q (packMsg o k)).1).Perm (o :: pendOf q) := by
      have := (insert_perm (constCmp isBefore) q (packMsg o k)).map Msg.toEvent
      simpa [pendOf, heapInsert, packMsg_toEvent] using this
    have hroot1 : (heapInsert isBefore q (packMsg o k)).1[0]? = q[0]? := by
      apply heapInsertI_root _ q _ h0
      intro _
      show isBefore (packMsg o k) q[0] = false
      rw [packed_before _ _ (packMsg_packed o k) (hp 0 h0), packMsg_toEvent]
      exact hroot q[0] (Array.getElem?_eq_getElem h0) o List.mem_cons_self
    have hsz : (heapInsert isBefore q (packMsg o k)).1.size = q.size + 1 := by
      have := (insert_perm (constCmp isBefore) q (packMsg o k)).length_eq
      simpa [heapInsert] using this
    obtain ⟨i1, i2, i3, i4⟩ := ih (heapInsert isBefore q (packMsg o k)).1 (k + 1) (by omega) hins.1 hins.2 (by
      intro r hr o' ho'
      rw [hroot1] at hr
      exact hroot r hr o' (List.mem_cons_of_mem _ ho'))
    refine ⟨i1, i2, ?_, by rw [i4, hroot1]⟩
    refine i3.trans ?_
    refine (List.Perm.append_left os hperm).trans ?_
    simp only [List.cons_append]
    exact List.perm_middle
theorem heapMin_some {q : Array Msg} {msg : Msg} (h : heapMin q = some msg) : 0 < q.size ∧ q[0]? = some msg := by
  unfold heapMin at h
  refine ⟨?_, h⟩
  rcases Nat.eq_zero_or_pos q.size with hz | hp
  · rw [Array.getElem?_eq_none (by omega)] at h; exact absurd h (by simp)
  · exact hp

theorem mem_pendOf {q : Array Msg} {m : Msg} (h : m ∈ q.toList) : m.toEvent ∈ pendOf q :=
  List.mem_map_of_mem h

/-- the root of the queue is a minimal pending event -/
theorem root_minIn {q : Array Msg} {msg : Msg} (hh : IsHeap isBefore q) (hp : AllP Msg.Packed q)
    (h : heapMin q = some msg) : msg.toEvent.minIn (pendOf q) ∧ msg.Packed := by
  obtain ⟨h0, hr⟩ := heapMin_some h
  have hmsg : msg = q[0] := by
    rw [Array.getElem?_eq_getElem h0] at hr; simpa using hr.symm
  have hmem : msg ∈ q.toList := by rw [hmsg]; exact Array.mem_toList_iff.2 (Array.getElem_mem h0)
  have hpk : msg.Packed := by rw [hmsg]; exact hp 0 h0
  refine ⟨⟨mem_pendOf hmem, ?_⟩, hpk⟩
  intro x hx
  obtain ⟨y, hy, rfl⟩ := List.mem_map.1 hx
  have hyp : y.Packed := by
    obtain ⟨j, hj, e⟩ := Array.mem_iff_getElem.1 (Array.mem_toList_iff.1 hy)
    rw [← e]; exact hp j hj
  rw [← packed_before y msg hyp hpk]
  exact root_minimal isBefore_strictWeak_packed q hp hh msg h y hy

/-- one `dispatch; schedule…; heap_extract` round: the extracted message IS the dispatched one
(this is where contract V2 and C16 are used) and the queue afterwards holds exactly the other
pending events plus the scheduled ones -/
theorem dispatch_extract {q : Array Msg} {msg : Msg} (k : Nat) (outs : List Event)
    (hh : IsHeap isBefore q) (hp : AllP Msg.Packed q) (h : heapMin q = some msg)
    (hv2 : ∀ o ∈ outs, Event.before o msg.toEvent = false) :
    ∃ q2, heapExtract isBefore (scheduleAll q k outs).1 = some (msg, q2) ∧
      IsHeap isBefore q2 ∧ AllP Msg.Packed q2 ∧
      (pendOf q2).Perm ((pendOf q).erase msg.toEvent ++ outs) := by
  obtain ⟨h0, hr⟩ := heapMin_some h
  obtain ⟨s1, s2, s3, s4⟩ := scheduleAll_spec outs q k h0 hh hp (by
    intro r hr'; rw [hr] at hr'; simp only [Option.some.injEq] at hr'; subst hr'; exact hv2)
  have hsz : 0 < (scheduleAll q k outs).1.size := by
    rcases Nat.eq_zero_or_pos (scheduleAll q k outs).1.size with hz | hp'
    · rw [Array.getElem?_eq_none (by omega), hr] at s4; exact absurd s4 (by simp)
    · exact hp'
  obtain ⟨q2, hq2⟩ := heapExtractI_isSome (constCmp isBefore) _ hsz
  have hroot : (scheduleAll q k outs).1[0] = msg := by
    rw [Array.getElem?_eq_getElem hsz, hr] at s4; simpa using s4
  rw [hroot] at hq2
  have hx := extract_isHeap isBefore_strictWeak_packed _ msg q2 hq2 s2 s1
  refine ⟨q2, hq2, hx.1, hx.2.1, ?_⟩
  have p1 : (pendOf (scheduleAll q k outs).1).Perm (msg.toEvent :: pendOf q2) := by
    have := (extract_perm _ _ msg q2 hq2).map Msg.toEvent
    simpa [pendOf] using this
  have hmem : msg.toEvent ∈ pendOf q := (root_minIn hh hp h).1.1
  have p2 : (pendOf q).Perm (msg.toEvent :: (pendOf q).erase msg.toEvent) := List.perm_cons_erase hmem
  have p3 : (msg.toEvent :: pendOf q2).Perm (msg.toEvent :: ((pendOf q).erase msg.toEvent ++ outs)) := by
    refine p1.symm.trans (s3.trans ?_)
    refine (List.Perm.append_left outs p2).trans ?_
    refine List.perm_middle.trans (List.Perm.cons _ List.perm_append_comm)
  exact p3.cons_inv

/-! ### the termination counter `to_terminate` vs. "all LPs have ended" -/

def cntFalse (l : List Bool) : Nat := l.countP (fun b => !b)

theorem all_id_eq (l : List Bool) : l.all id = (cntFalse l == 0) := by
  unfold cntFalse
  induction l with
  | nil => rfl
  | cons x xs ih => cases x <;> simp [ih]

theorem set_same {l : List Bool} {d : Nat} {b : Bool} (h : l[d]? = some b) : l.set d b = l := by
  obtain ⟨hd, e⟩ := List.getElem?_eq_some_iff.1 h
  rw [← e]; exact List.set_getElem_self hd

theorem cntFalse_pos_of_mem {l : List Bool} {d : Nat} (h : l[d]? = some false) : 0 < cntFalse l := by
  unfold cntFalse
  rw [List.countP_pos_iff]
  exact ⟨false, List.mem_of_getElem? h, rfl⟩

theorem ended_step (l : List Bool) (d : Nat) (b ce : Bool) (left : Nat) (hb : l[d]? = some b)
    (hl : left = cntFalse l) (hpos : 0 < left) :
    (if (!b && ce) then l.set d true else l) = l.set d (b || ce) ∧
    (if (!b && ce) then left - 1 else left) = cntFalse (l.set d (b || ce)) ∧
    (l.set d (b || ce)).all id = ((!b && ce) && (if (!b && ce) then left - 1 else left) == 0) ∧
    (((!b && ce) && (if (!b && ce) then left - 1 else left) == 0) = false →
      0 < (if (!b && ce) then left - 1 else left)) := by
  obtain ⟨hd, e⟩ := List.getElem?_eq_some_iff.1 hb
  have hcnt : cntFalse (l.set d (b || ce)) = (if (!b && ce) then left - 1 else left) := by
    unfold cntFalse at hl ⊢
    rw [List.countP_set hd, e, ← hl]
    cases b <;> cases ce <;> simp <;> omega
  refine ⟨?_, hcnt.symm, ?_, ?_⟩
  · cases b <;> cases ce <;> simp [set_same hb]
  · rw [all_id_eq, hcnt]
    cases b <;> cases ce <;> simp <;> omega
  · cases b <;> cases ce <;> simp <;> omega

/-! ### the main loop simulates the reference semantics -/
section Main
variable {σ : Type} {M : SimModel σ}

structure SerialInv (M : SimModel σ) (S : SerialSt σ) : Prop where
  heap : IsHeap isBefore S.queue
  packed : AllP Msg.Packed S.queue
  left : S.toTerminate = cntFalse S.ended
  pos : 0 < S.toTerminate ∨ M.nLps = 0

def SerialSt.cfg (S : SerialSt σ) : Cfg σ := ⟨S.states, S.ended, pendOf S.queue⟩

/-- the state after dispatching `msg` (LP state `s`, flag `b`) and the termination bookkeeping -/
def iterS1 (M : SimModel σ) (S : SerialSt σ) (msg : Msg) (s : σ) (b : Bool) : SerialSt σ :=
  let r := M.handler msg.dest s msg.toEvent
  let newly := !b && M.canEnd msg.dest r.1
  { queue := (scheduleAll S.queue S.nextSeq r.2).1, states := S.states.set msg.dest r.1,
    ended := if newly then S.ended.set msg.dest true else S.ended,
    toTerminate := if newly then S.toTerminate - 1 else S.toTerminate,
    nextSeq := (scheduleAll S.queue S.nextSeq r.2).2, traceRev := msg.toEvent :: S.traceRev }

def iterStop (M : SimModel σ) (termT : Nat) (timer : Nat → Bool) (k : Nat) (S : SerialSt σ) (msg : Msg) (s : σ) (b : Bool) : Bool :=
  let r := M.handler msg.dest s msg.toEvent
  let newly := !b && M.canEnd msg.dest r.1
  (newly && (if newly then S.toTerminate - 1 else S.toTerminate) == 0) || (timer k && decide (termT ≤ msg.destT))

theorem ite_chain {α : Type} (A B : Bool) (X Y Z : α) :
    (if A = true then X else if B = true then X else if True then Y else Z) = if (A || B) = true then X else Y := by
  cases A <;> cases B <;> simp

theorem serialMain_succ (termT : Nat) (timer : Nat → Bool) (fuel k : Nat) (S : SerialSt σ) (msg : Msg) (s : σ) (b : Bool)
    (q2 : Array Msg) (hmin : heapMin S.queue = some msg) (hs : S.states[msg.dest]? = some s)
    (hb : S.ended[msg.dest]? = some b)
    (hext : heapExtract isBefore (scheduleAll S.queue S.nextSeq (M.handler msg.dest s msg.toEvent).2).1 = some (msg, q2)) :
    serialMain M termT timer (fuel + 1) k S =
      if iterStop M termT timer k S msg s b then (iterS1 M S msg s b, .finished)
      else serialMain M termT timer fuel (k + 1) { iterS1 M S msg s b with queue := q2 } := by
  simp only [serialMain, hmin, hs, hb, hext, iterStop, iterS1]
  exact ite_chain _ _ _ _ _

theorem serialMain_refines (hv : M.Valid) (termT : Nat) (timer : Nat → Bool) : ∀ (fuel k : Nat) (S : SerialSt σ),
    SerialInv M S → Reachable M S.cfg →
    ∃ tr c', (serialMain M termT timer fuel k S).1.traceRev = tr.reverse ++ S.traceRev ∧
      (serialMain M termT timer fuel k S).1.states = c'.st ∧
      (((serialMain M termT timer fuel k S).2 = .finished ∧ MainRun M termT timer k S.cfg tr c' true) ∨
       ((serialMain M termT timer fuel k S).2 = .outOfFuel ∧ MainRun M termT timer k S.cfg tr c' false)) := by
  intro fuel
  induction fuel with
  | zero =>
    intro k S _ _
    exact ⟨[], S.cfg, by simp [serialMain], by simp [serialMain, SerialSt.cfg], .inr ⟨by simp [serialMain], .cut _ _⟩⟩
  | succ fuel ih =>
    intro k S hinv hreach
    obtain ⟨sh1, sh2, sh3⟩ := hreach.shape hv
    cases hmin : heapMin S.queue with
    | none =>
      refine ⟨[], S.cfg, by simp [serialMain, hmin], by simp [serialMain, hmin, SerialSt.cfg],
        .inl ⟨by simp [serialMain, hmin], .empty _ _ ?_⟩⟩
      unfold heapMin at hmin
      have hz : S.queue.size = 0 := by
        rcases Nat.eq_zero_or_pos S.queue.size with h | h
        · exact h
        · rw [Array.getElem?_eq_getElem h] at hmin; exact absurd hmin (by simp)
      have : S.queue = #[] := Array.eq_empty_of_size_eq_zero hz
      simp [SerialSt.cfg, pendOf, this]
    | some msg =>
      obtain ⟨hminIn, hpk⟩ := root_minIn hinv.heap hinv.packed hmin
      have hdest : msg.dest < M.nLps := sh3 _ hminIn.1
      obtain ⟨s, hs⟩ : ∃ s, S.states[msg.dest]? = some s :=
        ⟨S.states[msg.dest]'(by rw [show S.states.length = M.nLps from sh1]; exact hdest), List.getElem?_eq_getElem _⟩
      obtain ⟨b, hb⟩ : ∃ b, S.ended[msg.dest]? = some b :=
        ⟨S.ended[msg.dest]'(by rw [show S.ended.length = M.nLps from sh2]; exact hdest), List.getElem?_eq_getElem _⟩
      have hvalid := hv.step S.cfg hreach msg.toEvent s hminIn hs
      obtain ⟨q2, hext, hq2h, hq2p, hq2perm⟩ := dispatch_extract S.nextSeq (M.handler msg.dest s msg.toEvent).2
        hinv.heap hinv.packed hmin (fun o ho => (hvalid o ho).1)
      rw [serialMain_succ termT timer fuel k S msg s b q2 hmin hs hb hext]
      have hpos : 0 < S.toTerminate := by
        rcases hinv.pos with h | h
        · exact h
        · omega
      obtain ⟨e1, e2, e3, e4⟩ := ended_step S.ended msg.dest b
        (M.canEnd msg.dest (M.handler msg.dest s msg.toEvent).1) S.toTerminate hb hinv.left hpos
      -- the spec step to the configuration of the continuing state
      have hstep : Step M S.cfg msg.toEvent ({ iterS1 M S msg s b with queue := q2 } : SerialSt σ).cfg :=
        ⟨s, b, hminIn, hs, hb, rfl, by simp only [SerialSt.cfg, iterS1]; exact e1, hq2perm⟩
      have hstop : stopNow termT timer k ({ iterS1 M S msg s b with queue := q2 } : SerialSt σ).cfg msg.toEvent
          = iterStop M termT timer k S msg s b := by
        simp only [stopNow, Cfg.allEnded, SerialSt.cfg, iterS1, iterStop, e1, e3]
        rfl
      by_cases hst : iterStop M termT timer k S msg s b = true
      · rw [if_pos hst]
        refine ⟨[msg.toEvent], _, by simp [iterS1], ?_, .inl ⟨rfl, .stop hstep (hstop.trans hst)⟩⟩
        simp [iterS1, SerialSt.cfg]
      · rw [if_neg hst]
        have hst' : iterStop M termT timer k S msg s b = false := by simpa using hst
        have hinv2 : SerialInv M ({ iterS1 M S msg s b with queue := q2 } : SerialSt σ) := by
          refine ⟨hq2h, hq2p, ?_, .inl ?_⟩
          · simp only [iterS1, e1]; exact e2
          · simp only [iterS1]
            apply e4
            simp only [iterStop, Bool.or_eq_false_iff] at hst'
            exact hst'.1
        have hreach2 := hreach.step hstep
        obtain ⟨tr, c', t1, t2, t3⟩ := ih (k + 1) _ hinv2 hreach2
        refine ⟨msg.toEvent :: tr, c', ?_, t2, ?_⟩
        · rw [t1]; simp [iterS1]
        · rcases t3 with ⟨o, hm⟩ | ⟨o, hm⟩
          · exact .inl ⟨o, .step hstep (hstop.trans hst') hm⟩
          · exact .inr ⟨o, .step hstep (hstop.trans hst') hm⟩

/-! ### the init loop, and the whole run -/

/-- the `LP_INIT` message is strictly before every model event (types `< LP_INIT`, V3) -/
theorem init_before (m : Msg) (hm : m.Packed) (ht : m.mType < LP_INIT) (lp k : Nat) :
    isBefore (packMsg (initEvent lp) k) m = true := by
  have ha : m.anti = 0 := by simp [Msg.anti, hm.1]
  have hty : m.mType < 65534 := ht
  simp only [isBefore, isBeforeExt, packMsg, initEvent, Event.toMsg, Msg.anti, LP_INIT]
  simp only [Msg.anti] at ha
  rcases Nat.eq_zero_or_pos m.destT with h | h
  · have : ¬ (65534 = m.mType) := by omega
    simp [h, ha, this]; omega
  · simp [h]

structure InitInv (S : SerialSt σ) : Prop where
  heap : IsHeap isBefore S.queue
  packed : AllP Msg.Packed S.queue
  types : ∀ x ∈ pendOf S.queue, x.type < LP_INIT

theorem serialInitLp_spec (hv : M.Valid) (S : SerialSt σ) (lp : Nat) (hlp : lp < M.nLps) (hi : InitInv S) :
    ∃ S', serialInitLp M S lp = .ok S' ∧ InitInv S' ∧
      S'.states = S.states.set lp (M.handler lp (M.init lp) (initEvent lp)).1 ∧ S'.ended = S.ended ∧
      S'.toTerminate = S.toTerminate ∧ S'.traceRev = initEvent lp :: S.traceRev ∧
      (pendOf S'.queue).Perm (pendOf S.queue ++ (M.handler lp (M.init lp) (initEvent lp)).2) := by
  have hvalid := hv.init lp hlp
  -- insertion of the LP_INIT message
  have hins := insert_isHeap isBefore_strictWeak_packed S.queue (packMsg (initEvent lp) S.nextSeq) hi.packed
    (packMsg_packed _ _) hi.heap
  have hperm0 : (heapInsert isBefore S.queue (packMsg (initEvent lp) S.nextSeq)).1.toList.Perm
      (packMsg (initEvent lp) S.nextSeq :: S.queue.toList) := insert_perm _ _ _
  have hsz : 0 < (heapInsert isBefore S.queue (packMsg (initEvent lp) S.nextSeq)).1.size := by
    have := hperm0.length_eq; simp at this; omega
  -- its root is the LP_INIT message
  have hroot : heapMin (heapInsert isBefore S.queue (packMsg (initEvent lp) S.nextSeq)).1 =
      some (packMsg (initEvent lp) S.nextSeq) := by
    unfold heapMin
    rw [Array.getElem?_eq_getElem hsz]
    have hmem : (heapInsert isBefore S.queue (packMsg (initEvent lp) S.nextSeq)).1[0] ∈
        (packMsg (initEvent lp) S.nextSeq :: S.queue.toList) :=
      hperm0.mem_iff.1 (Array.mem_toList_iff.2 (Array.getElem_mem hsz))
    rcases List.mem_cons.1 hmem with h | h
    · rw [h]
    · exfalso
      have hmin := root_minimal isBefore_strictWeak_packed _ hins.2 hins.1 _
        (show heapMin _ = some _ from Array.getElem?_eq_getElem hsz)
        (packMsg (initEvent lp) S.nextSeq) (hperm0.mem_iff.2 List.mem_cons_self)
      have hpk : ((heapInsert isBefore S.queue (packMsg (initEvent lp) S.nextSeq)).1[0]).Packed := hins.2 0 hsz
      have hty := hi.types _ (mem_pendOf h)
      rw [init_before _ hpk hty] at hmin
      exact absurd hmin (by simp)
  have hmsgEv : (packMsg (initEvent lp) S.nextSeq).toEvent = initEvent lp := packMsg_toEvent _ _
  obtain ⟨q2, hext, hq2h, hq2p, hq2perm⟩ := dispatch_extract (S.nextSeq + 1)
    (M.handler lp (M.init lp) (initEvent lp)).2 hins.1 hins.2 hroot
    (fun o ho => by rw [hmsgEv]; exact (hvalid o ho).1)
  have hpend0 : (pendOf (heapInsert isBefore S.queue (packMsg (initEvent lp) S.nextSeq)).1).Perm
      (initEvent lp :: pendOf S.queue) := by
    have := hperm0.map Msg.toEvent
    simpa [pendOf, hmsgEv] using this
  have hq2perm' : (pendOf q2).Perm (pendOf S.queue ++ (M.handler lp (M.init lp) (initEvent lp)).2) := by
    rw [hmsgEv] at hq2perm
    refine hq2perm.trans (List.Perm.append_right _ ?_)
    have := hpend0.erase (initEvent lp)
    simpa using this
  refine ⟨{ S with queue := q2, states := S.states.set lp (M.handler lp (M.init lp) (initEvent lp)).1,
                   nextSeq := (scheduleAll (heapInsert isBefore S.queue (packMsg (initEvent lp) S.nextSeq)).1
                     (S.nextSeq + 1) (M.handler lp (M.init lp) (initEvent lp)).2).2,
                   traceRev := initEvent lp :: S.traceRev }, ?_, ⟨hq2h, hq2p, ?_⟩, rfl, rfl, rfl, rfl, hq2perm'⟩
  · simp only [serialInitLp, hmsgEv, hext]
    simp
  · intro x hx
    rcases List.mem_append.1 (hq2perm'.mem_iff.1 hx) with h | h
    · exact hi.types x h
    · exact (hvalid x h).2.2

theorem serialInitLoop_spec (hv : M.Valid) : ∀ (l : List Nat) (S : SerialSt σ) (c : Cfg σ),
    (∀ lp ∈ l, lp < M.nLps) → InitInv S → S.cfg.Equiv c →
    ∃ S', serialInitLoop M l S = .ok S' ∧ InitInv S' ∧ S'.cfg.Equiv (l.foldl (initStep M) c) ∧
      S'.toTerminate = S.toTerminate ∧ S'.traceRev = (l.map initEvent).reverse ++ S.traceRev := by
  intro l
  induction l with
  | nil => intro S c _ hi he; exact ⟨S, rfl, hi, he, rfl, by simp⟩
  | cons lp rest ih =>
    intro S c hl hi he
    obtain ⟨S1, h1, hi1, hst, hen, hto, htr, hpe⟩ := serialInitLp_spec hv S lp (hl lp List.mem_cons_self) hi
    have he1 : S1.cfg.Equiv (initStep M c lp) := by
      refine ⟨?_, ?_, ?_⟩
      · show S1.states = _
        rw [hst]; simp only [initStep]; rw [← he.1]; rfl
      · show S1.ended = _
        rw [hen]; exact he.2.1
      · exact hpe.trans (List.Perm.append_right _ he.2.2)
    obtain ⟨S', h2, hi2, he2, hto2, htr2⟩ := ih S1 (initStep M c lp) (fun x hx => hl x (List.mem_cons_of_mem _ hx)) hi1 he1
    refine ⟨S', ?_, hi2, he2, by rw [hto2, hto], ?_⟩
    · simp only [serialInitLoop, h1]; exact h2
    · rw [htr2, htr]; simp

/-- **the serial runtime refines the reference semantics** (helper form) -/
theorem serialRun_isSpecRun (hv : M.Valid) (termT : Nat) (timer : Nat → Bool) (fuel : Nat) :
    IsSpecRun M termT timer (serialRun M termT timer fuel) := by
  have hi0 : InitInv (serialSt0 M) :=
    ⟨fun c hc => by simp [serialSt0] at hc, fun k hk => by simp [serialSt0] at hk, by simp [serialSt0, pendOf]⟩
  obtain ⟨S0, h0, hi, he, hto, htr⟩ := serialInitLoop_spec hv (List.range M.nLps) (serialSt0 M) (initCfg0 M)
    (fun lp h => List.mem_range.1 h) hi0 ⟨rfl, rfl, by simp [SerialSt.cfg, serialSt0, pendOf, initCfg0]⟩
  have hshape := initStep_fold_st (M := M) (List.range M.nLps) (initCfg0 M)
  have hinv : SerialInv M S0 := by
    refine ⟨hi.heap, hi.packed, ?_, ?_⟩
    · rw [hto]
      have : S0.ended = List.replicate M.nLps false := by
        have := he.2.1; rw [hshape.2] at this; exact this
      rw [this]; simp [serialSt0, cntFalse, List.countP_replicate]
    · rw [hto]; simp only [serialSt0]; omega
  have hreach : Reachable M S0.cfg := .init he.1 he.2.1 he.2.2
  obtain ⟨tr, c', t1, t2, t3⟩ := serialMain_refines hv termT timer fuel 0 S0 hinv hreach
  have htr0 : S0.traceRev.reverse = initTrace M := by rw [htr]; simp [serialSt0, initTrace]
  unfold serialRun
  rw [h0]
  dsimp only
  rcases t3 with ⟨o, hm⟩ | ⟨o, hm⟩
  · obtain ⟨d', hd', hde⟩ := hm.congr (Cfg.Equiv.symm he)
    refine ⟨tr, d', .inl ?_⟩
    cases hres : serialMain M termT timer fuel 0 S0 with
    | mk S oc =>
    rw [hres] at t1 t2 o
    simp only at o t1 t2
    subst o
    refine ⟨rfl, hd', ?_, ?_⟩
    · simp only [t1, List.reverse_append, List.reverse_reverse, htr0]
    · simp only [t2, hde.1]
  · obtain ⟨d', hd', hde⟩ := hm.congr (Cfg.Equiv.symm he)
    refine ⟨tr, d', .inr ?_⟩
    cases hres : serialMain M termT timer fuel 0 S0 with
    | mk S oc =>
    rw [hres] at t1 t2 o
    simp only at o t1 t2
    subst o
    refine ⟨rfl, hd', ?_, ?_⟩
    · simp only [t1, List.reverse_append, List.reverse_reverse, htr0]
    · simp only [t2, hde.1]

end Main
end RootSim
