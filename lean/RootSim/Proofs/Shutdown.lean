import RootSim.Model.Shutdown
import RootSim.Proofs.Fair
/-!
# Helpers for C08: reachability, bounded exhaustive exploration (kernel-evaluable), stuck states
-/
namespace RootSim.Shutdown
open RootSim.Fair

/-- reachable from the initial state of `n` threads by arbitrary actions -/
inductive Reach (v : Variant) (n : Nat) (zq : Bool) : St → Prop where
  | init : Reach v n zq (St.init n zq)
  | step {s : St} (a : Act) : Reach v n zq s → Reach v n zq (step v s a)

/-- `a` is a step of thread `i` -/
def owns : Act → Nat → Prop
  | .run i _ _, j => i = j
  | _, _ => False

theorem reach_run (v : Variant) (n : Nat) (zq : Bool) (as : List Act) :
    ∀ s, Reach v n zq s → Reach v n zq (run v s as) := by
  induction as with
  | nil => intro s h; exact h
  | cons a as ih => intro s h; exact ih _ (Reach.step a h)

/-- a `run` action of a thread that does not exist is a spin -/
theorem step_run_oob (v : Variant) (s : St) (i : Nat) (tm vo : Bool) (h : s.n ≤ i) : step v s (.run i tm vo) = s := by
  have : s.ths[i]? = none := List.getElem?_eq_none (by unfold St.n at h; exact h)
  simp [step, this]

theorem step_stop_oob (v : Variant) (s : St) (i : Nat) (h : s.n ≤ i) : step v s (.stop i) = s := by
  have : s.ths[i]? = none := List.getElem?_eq_none (by unfold St.n at h; exact h)
  simp [step, this]

/-- in a stuck state every action is a spin -/
theorem stuck_step (v : Variant) (s : St) (h : stuck v s = true) (a : Act) : step v s a = s := by
  simp only [stuck, Bool.and_eq_true, List.all_eq_true, List.mem_range, beq_iff_eq] at h
  obtain ⟨hthr, hzero⟩ := h
  cases a with
  | zero => exact hzero
  | stop i =>
    by_cases hi : i < s.n
    · exact (hthr i hi).1
    · exact step_stop_oob v s i (by omega)
  | run i tm vo =>
    by_cases hi : i < s.n
    · have := (hthr i hi).2 tm (by cases tm <;> simp) vo (by cases vo <;> simp)
      exact this
    · exact step_run_oob v s i tm vo (by omega)

theorem stuck_exec (v : Variant) (s : St) (h : stuck v s = true) (f : Nat → Act) : ∀ k, exec (step v) f s k = s := by
  intro k
  induction k with
  | zero => rfl
  | succ k ih => simp only [exec, ih, stuck_step v s h]

/-! ### Bounded exhaustive exploration -/

/-- the actions of an `n`-thread system; `stop` only as long as termination has not been decided -/
def acts (n : Nat) : List Act :=
  (List.range n).flatMap (fun i =>
    [.run i false false, .run i true false, .run i false true, .run i true true, .stop i]) ++ [.zero]

/-- `RootsimStop` is not called again once termination has been decided -/
def stepNS (v : Variant) (s : St) (a : Act) : St :=
  match a with
  | .stop i => if triggered s then s else step v s (.stop i)
  | a => step v s a

/-- a cheap numeric fingerprint of a state (need not be injective): lets the kernel compare states by
one accelerated `Nat` comparison before falling back to structural equality -/
def fpTh (t : Th) : Nat :=
  let pc := match t.pc with
    | .head => 0 | .body => 1 | .flush => 2 | .barArrive k => 3 + k | .barWait k => 8 + k
    | .forced i => 13 + i | .lpfini => 16 | .done => 17
  let tp := match t.tph with | .idle => 0 | .A => 1 | .B => 2 | .C => 3 | .D => 4
  let np := match t.nph with
    | .reduxFirst => 0 | .sentReduce => 1 | .sentReduceWait => 2 | .sentWait => 3 | .reduxSecond => 4
    | .minReduce => 5 | .minReduceWait => 6 | .minWait => 7 | .done => 8
  ((((pc * 8 + tp) * 16 + np) * 8 + t.nb) * 4 + t.fini) * 2 + (if t.voted then 1 else 0)

def fp (s : St) : Nat :=
  let a := s.ths.foldl (fun acc t => acc * 1048576 + fpTh t) 0
  ((((((((a * 8 + s.ca) * 8 + s.cb) * 8 + s.cc) * 8 + s.cd) * 16 + (s.tmr + 8).toNat) * 4 + (s.gvtNodes + 1).toNat) * 16 +
    (s.nodesToEnd + 8).toNat) * 8 + s.thrToEnd) * 4 + (if s.zq then 2 else 0) + (if s.closed then 1 else 0)

def memFp (S : List (Nat × St)) (c : Nat) (x : St) : Bool :=
  S.any (fun p => p.1 == c && p.2 == x)

def insertNew (seen : List (Nat × St)) : List St → List (Nat × St) × List St
  | [] => (seen, [])
  | x :: xs =>
    let c := fp x
    if memFp seen c x then insertNew seen xs
    else
      let (seen', new) := insertNew ((c, x) :: seen) xs
      (seen', x :: new)

/-- breadth-first exploration with fuel -/
def explore (v : Variant) (n : Nat) : Nat → List St → List (Nat × St) → List (Nat × St)
  | 0, _, seen => seen
  | _ + 1, [], seen => seen
  | fuel + 1, s :: todo, seen =>
    let (seen', new) := insertNew seen ((acts n).map (stepNS v s))
    explore v n fuel (todo ++ new) seen'

def exploreFrom (v : Variant) (n : Nat) (zq : Bool) (fuel : Nat) : List (Nat × St) :=
  explore v n fuel [St.init n zq] [(fp (St.init n zq), St.init n zq)]

def mem (S : List (Nat × St)) (x : St) : Bool := memFp S (fp x) x

/-- `S` contains the initial state and is closed under every action -/
def closed (v : Variant) (n : Nat) (zq : Bool) (S : List (Nat × St)) : Bool :=
  mem S (St.init n zq) && S.all (fun p => (acts n).all (fun a => mem S (stepNS v p.2 a)))

theorem mem_sound {S : List (Nat × St)} {x : St} (h : mem S x = true) : ∃ c, (c, x) ∈ S := by
  simp only [mem, memFp, List.any_eq_true, Bool.and_eq_true, beq_iff_eq] at h
  obtain ⟨p, hp, h1, h2⟩ := h
  exact ⟨p.1, by rw [← h2]; exact hp⟩

end RootSim.Shutdown
