import RootSim.Model.GvtGlobal
/-!
# Helper lemmas for `Props/C04Global.lean` (model: `Model/GvtGlobal.lean`)

The invariant `RInv old s` of a round whose old colour is `old`:
* `col`        : a node has colour `old` before its flip and `!old` after it;
* `allFlipped` : if some node has passed, every node has flipped (guard of `pass`);
* `accCur`     : from `join` on, `acc ≤ cur` (`join` needs `cur = none`; every extraction lowers `acc`);
* `oldFlight`  : an old-colour message in flight is addressed to a node that has not passed (guard of `pass`, and
                 no flipped node stamps the old colour);
* `destOk`     : destinations are valid;
* `newFlight`  : as long as some node is still idle, every new-colour message in flight is `≥ acc` of some
                 flipped node (its sender: `ts ≥ cur ≥ acc`, and `acc` only decreases before the next `join`);
* `safe`       : once no node is idle: every `g` that is `≤ floor k` for all `k` and `≤` every old-colour message
                 in flight (`LBnd`) is `≤` every `pend`, `cur`, and in-flight time stamp (`AllGe`).
`safe` is inductive because, once no node is idle, the set of such `g` never grows (`lbnd_const`): every step
keeps `min(min_k floor k, min old-colour in flight)` constant.
-/
namespace RootSim.GvtGlobal

/-! ## values -/

@[simp] theorem le_none (g : Nat) : Le g none := by intro y h; cases h
@[simp] theorem le_some (g v : Nat) : Le g (some v) ↔ g ≤ v := by
  constructor
  · intro h; exact h v rfl
  · intro h y hy; cases hy; exact h

theorem le_omin (g : Nat) (a b : Option Nat) : Le g (omin a b) ↔ Le g a ∧ Le g b := by
  cases a <;> cases b <;> simp [omin] <;> omega

theorem le_lmin (g : Nat) (l : List Nat) : Le g (lmin l) ↔ ∀ x ∈ l, g ≤ x := by
  induction l with
  | nil => simp [lmin]
  | cons a l ih => simp [lmin, le_omin, ih]

theorem le_ominL (g : Nat) (l : List (Option Nat)) : Le g (ominL l) ↔ ∀ v ∈ l, Le g v := by
  induction l with
  | nil => simp [ominL]
  | cons a l ih => simp [ominL, le_omin, ih]

@[simp] theorem ole_none (x : Nat) : ¬ OLe none x := by rintro ⟨y, h, _⟩; cases h
@[simp] theorem ole_some (v x : Nat) : OLe (some v) x ↔ v ≤ x := by
  constructor
  · rintro ⟨y, h, hy⟩; cases h; exact hy
  · intro h; exact ⟨v, rfl, h⟩

theorem ole_omin (a b : Option Nat) (x : Nat) : OLe (omin a b) x ↔ OLe a x ∨ OLe b x := by
  cases a <;> cases b <;> simp [omin] <;> omega

theorem le_ole_trans {g : Nat} {v : Option Nat} {x : Nat} (h1 : Le g v) (h2 : OLe v x) : g ≤ x := by
  obtain ⟨y, hy, hyx⟩ := h2
  have := h1 y hy
  omega

theorem ole_trans {v : Option Nat} {x y : Nat} (h1 : OLe v x) (h2 : x ≤ y) : OLe v y := by
  obtain ⟨z, hz, hzx⟩ := h1
  exact ⟨z, hz, by omega⟩

/-- `v ≤ x` iff every `g ≤ v` is `≤ x` -/
theorem ole_of_forall_le {v : Option Nat} {x : Nat} (h : ∀ g, Le g v → g ≤ x) : OLe v x := by
  cases v with
  | none => have := h (x + 1) (le_none _); omega
  | some y => exact (ole_some y x).2 (h y ((le_some y y).2 (Nat.le_refl y)))

theorem le_of_ole_of_le {g : Nat} {v : Option Nat} (h : ∀ x, OLe v x → g ≤ x) : Le g v := by
  intro y hy; subst hy; exact h y ((ole_some y y).2 (Nat.le_refl y))

/-! ## `upd` -/

@[simp] theorem upd_flight (s : St) (k : Nat) (nd : Node) (fl : List Msg) : (upd s k nd fl).flight = fl := rfl
@[simp] theorem upd_length (s : St) (k : Nat) (nd : Node) (fl : List Msg) :
    (upd s k nd fl).nodes.length = s.nodes.length := by simp [upd]

theorem upd_get {s : St} {k : Nat} {nd : Node} (nd' : Node) (fl : List Msg) (j : Nat)
    (hk : s.nodes[k]? = some nd) :
    (upd s k nd' fl).nodes[j]? = if j = k then some nd' else s.nodes[j]? := by
  have hlt : k < s.nodes.length := by
    rcases Nat.lt_or_ge k s.nodes.length with h | h
    · exact h
    · rw [List.getElem?_eq_none h] at hk; cases hk
  simp only [upd, List.getElem?_set]
  by_cases hjk : j = k
  · subst hjk; simp [hlt]
  · have : ¬ k = j := fun h => hjk h.symm
    simp [hjk, this]

/-- a node-wise property survives `upd` if the new node has it -/
theorem forall_upd {P : Node → Prop} {s : St} {k : Nat} {nd : Node} (nd' : Node) (fl : List Msg)
    (hk : s.nodes[k]? = some nd) (hall : ∀ (j : Nat) ndj, s.nodes[j]? = some ndj → P ndj) (hnew : P nd') :
    ∀ (j : Nat) ndj, (upd s k nd' fl).nodes[j]? = some ndj → P ndj := by
  intro j ndj hj
  rw [upd_get nd' fl j hk] at hj
  split at hj
  · cases hj; exact hnew
  · exact hall j ndj hj

/-- a node that exists before `upd` exists after it (it is the new one at `k`, unchanged elsewhere) -/
theorem exists_upd {s : St} {k : Nat} {nd : Node} (nd' : Node) (fl : List Msg) (hk : s.nodes[k]? = some nd)
    (j : Nat) (ndj : Node) (hj : s.nodes[j]? = some ndj) :
    ∃ ndj', (upd s k nd' fl).nodes[j]? = some ndj' ∧ ((j = k ∧ ndj' = nd' ∧ ndj = nd) ∨ (j ≠ k ∧ ndj' = ndj)) := by
  rw [upd_get nd' fl j hk]
  by_cases hjk : j = k
  · subst hjk; rw [hk] at hj; cases hj; exact ⟨nd', by simp, Or.inl ⟨rfl, rfl, rfl⟩⟩
  · exact ⟨ndj, by simp [hjk, hj], Or.inr ⟨hjk, rfl⟩⟩

theorem mem_nodes_iff (s : St) (nd : Node) : nd ∈ s.nodes ↔ ∃ k : Nat, s.nodes[k]? = some nd := by
  rw [List.mem_iff_getElem?]

/-! ## `step` and `Step` -/

theorem Step_of_step {s s' : St} {a : Action} (h : step s a = some s') : Step s s' := by
  cases a with
  | beginProcess k e =>
    simp only [step, beginProcess] at h
    split at h
    · cases h
    · rename_i nd hk
      split at h
      · rename_i hg; cases h; exact .beginProcess k e nd hk hg.1 hg.2
      · cases h
  | emitLocal k x =>
    simp only [step, emitLocal] at h
    split at h
    · cases h
    · rename_i nd hk
      split at h
      · cases h
      · rename_i c hc
        split at h
        · rename_i hx; cases h; exact .emitLocal k x c nd hk hc hx
        · cases h
  | emitRemote k d x =>
    simp only [step, emitRemote] at h
    split at h
    · cases h
    · rename_i nd hk
      split at h
      · cases h
      · rename_i c hc
        split at h
        · rename_i hx; cases h; exact .emitRemote k d x c nd hk hc hx.1 hx.2
        · cases h
  | endProcess k =>
    simp only [step, endProcess] at h
    split at h
    · cases h
    · rename_i nd hk
      split at h
      · cases h
      · rename_i c hc; cases h; exact .endProcess k c nd hk hc
  | deliver i =>
    simp only [step, deliver] at h
    split at h
    · cases h
    · rename_i m hi
      split at h
      · cases h
      · rename_i nd hk; cases h; exact .deliver i m nd hi hk
  | join k =>
    simp only [step, join] at h
    split at h
    · cases h
    · rename_i nd hk
      split at h
      · rename_i hg; cases h; exact .join k nd hk hg.1 hg.2
      · cases h
  | flip k =>
    simp only [step, flip] at h
    split at h
    · cases h
    · rename_i nd hk
      split at h
      · rename_i hg; cases h; exact .flip k nd hk hg
      · cases h
  | pass k =>
    simp only [step, pass] at h
    split at h
    · cases h
    · rename_i nd hk
      split at h
      · rename_i hg; cases h; exact .pass k nd hk hg.1 hg.2
      · cases h
  | report k =>
    simp only [step, report] at h
    split at h
    · cases h
    · rename_i nd hk
      split at h
      · rename_i hg; cases h; exact .report k nd hk hg
      · cases h

theorem step_of_Step {s s' : St} (h : Step s s') : ∃ a, step s a = some s' := by
  cases h with
  | beginProcess k e nd hk he hc => exact ⟨.beginProcess k e, by simp [step, beginProcess, hk, he, hc]⟩
  | emitLocal k x c nd hk hc hx => exact ⟨.emitLocal k x, by simp [step, emitLocal, hk, hc, hx]⟩
  | emitRemote k d x c nd hk hc hx hd => exact ⟨.emitRemote k d x, by simp [step, emitRemote, hk, hc, hx, hd]⟩
  | endProcess k c nd hk hc => exact ⟨.endProcess k, by simp [step, endProcess, hk, hc]⟩
  | deliver i m nd hi hk => exact ⟨.deliver i, by simp [step, deliver, hk, hi]⟩
  | join k nd hk hs hc => exact ⟨.join k, by simp [step, join, hk, hs, hc]⟩
  | flip k nd hk hs => exact ⟨.flip k, by simp [step, flip, hk, hs]⟩
  | pass k nd hk hs hg => exact ⟨.pass k, by simp [step, pass, hk, hs, hg]⟩
  | report k nd hk hs => exact ⟨.report k, by simp [step, report, hk, hs]⟩

theorem step_iff (s s' : St) : Step s s' ↔ ∃ a, step s a = some s' :=
  ⟨step_of_Step, fun ⟨_, h⟩ => Step_of_step h⟩

theorem reach_run {s0 : St} (as : List Action) : ∀ s s', Reach s0 s → run s as = some s' → Reach s0 s' := by
  induction as with
  | nil => intro s s' hr h; simp only [run] at h; cases h; exact hr
  | cons a as ih =>
    intro s s' hr h
    simp only [run] at h
    split at h
    · cases h
    · rename_i s1 h1; exact ih s1 s' (.step hr (Step_of_step h1)) h

theorem run_of_reach {s0 s : St} (h : Reach s0 s) : ∃ as, run s0 as = some s := by
  induction h with
  | refl => exact ⟨[], rfl⟩
  | step _ hs ih =>
    obtain ⟨as, has⟩ := ih
    obtain ⟨a, ha⟩ := step_of_Step hs
    refine ⟨as ++ [a], ?_⟩
    clear hs
    revert has
    generalize s0 = t
    induction as generalizing t with
    | nil => intro has; simp only [run] at has; cases has; simp [run, ha]
    | cons b bs ihb =>
      intro has
      simp only [run, List.cons_append] at has ⊢
      split at has
      · cases has
      · exact ihb _ has

end RootSim.GvtGlobal
