import RootSim.Proofs.AllocTree
import RootSim.Proofs.AllocMem
/-! Helper lemmas about the multi-arena state `MM`: the arena-level invariant `Inv0`, effect of
`rs_malloc` / `rs_free` / stores on the live set, the bytes and `full_ckpt_size`. -/
namespace RootSim.Alloc

/-! ### `buddy_allocation_block_compute` -/

theorem bitLen_spec (i k : Nat) : bitLen i ≤ k ↔ i < 2 ^ k := by
  unfold bitLen
  split
  · subst i; simp; exact Nat.two_pow_pos k
  · rename_i h
    rw [← Nat.log2_lt h]; omega

/-- `buddy_allocation_block_compute(n)` is the least `k ≥ B` with `n ≤ 2^k`, i.e. `max B ⌈log2 n⌉` -/
theorem blockExp_le_iff (B n k : Nat) : blockExp B n ≤ k ↔ B ≤ k ∧ n ≤ 2 ^ k := by
  unfold blockExp
  rw [bitLen_spec]
  have hp : 0 < 2 ^ B := Nat.two_pow_pos B
  have hk : 0 < 2 ^ k := Nat.two_pow_pos k
  constructor
  · intro h
    have h1 : 2 ^ B ≤ 2 ^ k := by omega
    have : B ≤ k := by
      apply Nat.le_of_not_lt; intro hlt
      have := Nat.pow_lt_pow_right (a := 2) (by omega) hlt; omega
    exact ⟨this, by omega⟩
  · rintro ⟨h1, h2⟩
    have := Nat.pow_le_pow_right (n := 2) (by omega) h1
    omega

theorem blockExp_spec (B n : Nat) :
    B ≤ blockExp B n ∧ n ≤ 2 ^ blockExp B n ∧ (B < blockExp B n → 2 ^ (blockExp B n - 1) < n) := by
  have h := (blockExp_le_iff B n (blockExp B n)).1 (Nat.le_refl _)
  refine ⟨h.1, h.2, fun hlt => ?_⟩
  apply Nat.lt_of_not_le
  intro hle
  have := (blockExp_le_iff B n (blockExp B n - 1)).2 ⟨by omega, hle⟩
  omega

/-! ### arena lists -/

/-- one arena is well-formed: tree `WF`, memory of the right size -/
def ArenaOk (c : Cfg) (a : Arena) : Prop := a.tree.WF c.B c.T ∧ a.mem.length = 2 ^ c.T

/-- `Σ_arenas (perArena + Σ live block sizes)` -/
def sizeOf (c : Cfg) (as : List Arena) : Nat := (as.map fun a => c.perArena + a.tree.liveBytes c.T).sum

def ids (as : List Arena) : List Nat := as.map (·.id)

/-- the arena-level invariant -/
structure Inv0 (c : Cfg) (s : MM) : Prop where
  ok : ∀ a ∈ s.arenas, ArenaOk c a
  nodup : (ids s.arenas).Nodup
  fresh : ∀ a ∈ s.arenas, a.id < s.nextId
  full : s.full = c.base + sizeOf c s.arenas

@[simp] theorem sizeOf_nil (c) : sizeOf c [] = 0 := rfl
@[simp] theorem sizeOf_cons (c a as) : sizeOf c (a :: as) = c.perArena + a.tree.liveBytes c.T + sizeOf c as := rfl
@[simp] theorem sizeOf_append (c as bs) : sizeOf c (as ++ bs) = sizeOf c as + sizeOf c bs := by
  simp [sizeOf, List.sum_append]
@[simp] theorem ids_append (as bs) : ids (as ++ bs) = ids as ++ ids bs := by simp [ids]
@[simp] theorem ids_cons (a as) : ids (a :: as) = a.id :: ids as := rfl
@[simp] theorem ids_nil : ids [] = [] := rfl

theorem mem_ids {as : List Arena} {a : Arena} (h : a ∈ as) : a.id ∈ ids as := List.mem_map_of_mem h

theorem findArena_mem {as : List Arena} {id : Nat} {a : Arena} (h : findArena as id = some a) :
    a ∈ as ∧ a.id = id := by
  unfold findArena at h
  have := List.find?_some h
  exact ⟨List.mem_of_find?_eq_some h, by simpa using this⟩

theorem findArena_split {pre post : List Arena} {a : Arena} (hn : (ids (pre ++ a :: post)).Nodup) :
    findArena (pre ++ a :: post) a.id = some a := by
  unfold findArena
  rw [List.find?_eq_some_iff_append]
  refine ⟨by simp, pre, post, rfl, ?_⟩
  intro x hx
  simp at hn ⊢
  rw [List.nodup_append] at hn
  intro he
  exact hn.2.2 _ (mem_ids hx) a.id (by simp) he

theorem findArena_of_mem {as : List Arena} {a : Arena} (hn : (ids as).Nodup) (h : a ∈ as) :
    findArena as a.id = some a := by
  obtain ⟨pre, post, rfl⟩ := List.append_of_mem h
  exact findArena_split hn

theorem modArena_split {pre post : List Arena} {a : Arena} (f : Arena → Arena)
    (hn : (ids (pre ++ a :: post)).Nodup) :
    modArena a.id f (pre ++ a :: post) = pre ++ f a :: post := by
  simp at hn
  rw [List.nodup_append] at hn
  obtain ⟨_, h2, h3⟩ := hn
  have h2' := List.nodup_cons.1 h2
  unfold modArena
  rw [List.map_append, List.map_cons]
  congr 1
  · conv => rhs; rw [← List.map_id pre]
    apply List.map_congr_left
    intro x hx
    have : x.id ≠ a.id := h3 _ (mem_ids hx) _ (by simp)
    simp [this]
  · congr 1
    · simp
    · conv => rhs; rw [← List.map_id post]
      apply List.map_congr_left
      intro x hx
      have : x.id ≠ a.id := fun he => h2'.1 (he ▸ mem_ids hx)
      simp [this]

/-! ### live set as membership -/

theorem mem_live {c : Cfg} {s : MM} {b : Nat × Nat × Nat} :
    b ∈ s.live c ↔ ∃ a ∈ s.arenas, a.id = b.1 ∧ (b.2.1, b.2.2) ∈ a.tree.blocks c.T 0 := by
  unfold MM.live
  simp only [List.mem_flatMap, List.mem_map]
  constructor
  · rintro ⟨a, ha, x, hx, rfl⟩; exact ⟨a, ha, rfl, hx⟩
  · rintro ⟨a, ha, h1, h2⟩; exact ⟨a, ha, (b.2.1, b.2.2), h2, by simp [h1]⟩

/-- lookup in a list of arenas: what `live` says about the arena with identity `id` -/
def liveOf (c : Cfg) (as : List Arena) : List (Nat × Nat × Nat) :=
  as.flatMap fun a => (a.tree.blocks c.T 0).map fun b => (a.id, b.1, b.2)

theorem live_eq (c : Cfg) (s : MM) : s.live c = liveOf c s.arenas := rfl

theorem liveBytes_eq (T : Nat) (t : BT) (o : Nat) :
    t.liveBytes T = ((t.blocks T o).map fun b => 2 ^ b.2).sum := by
  unfold BT.liveBytes
  rw [BT.blocks_shift T o t, List.map_map]
  rfl


theorem mem_liveOf {c : Cfg} {as : List Arena} {b : Nat × Nat × Nat} :
    b ∈ liveOf c as ↔ ∃ a ∈ as, a.id = b.1 ∧ (b.2.1, b.2.2) ∈ a.tree.blocks c.T 0 :=
  mem_live (s := ⟨as, [], 0, 0⟩)

theorem mem_liveOf_split {c : Cfg} {pre post : List Arena} {a : Arena}
    (hn : (ids (pre ++ a :: post)).Nodup) {b : Nat × Nat × Nat} :
    b ∈ liveOf c (pre ++ a :: post) ↔
      (b.1 = a.id ∧ (b.2.1, b.2.2) ∈ a.tree.blocks c.T 0) ∨ (b.1 ≠ a.id ∧ b ∈ liveOf c (pre ++ post)) := by
  simp only [mem_liveOf, List.mem_append, List.mem_cons]
  simp at hn
  rw [List.nodup_append] at hn
  obtain ⟨_, h2, h3⟩ := hn
  have h2' := List.nodup_cons.1 h2
  constructor
  · rintro ⟨x, hx, h1, hb⟩
    rcases hx with hx | rfl | hx
    · exact Or.inr ⟨fun he => h3 _ (mem_ids hx) a.id (by simp) (h1.trans he), x, Or.inl hx, h1, hb⟩
    · exact Or.inl ⟨h1.symm, hb⟩
    · exact Or.inr ⟨fun he => h2'.1 (by rw [← he, ← h1]; exact mem_ids hx), x, Or.inr hx, h1, hb⟩
  · rintro (⟨h1, hb⟩ | ⟨_, x, hx, h1, hb⟩)
    · exact ⟨a, Or.inr (Or.inl rfl), h1.symm, hb⟩
    · exact ⟨x, by rcases hx with hx | hx <;> simp [hx], h1, hb⟩

/-- replacing one arena by one with the same identity -/
theorem Inv0.replace {c : Cfg} {s : MM} {pre post : List Arena} {a a' : Arena} (hI : Inv0 c s)
    (hs : s.arenas = pre ++ a :: post) (hid : a'.id = a.id) (hok : ArenaOk c a') (full' : Nat)
    (hfull : full' + a.tree.liveBytes c.T = s.full + a'.tree.liveBytes c.T) :
    Inv0 c { s with arenas := pre ++ a' :: post, full := full' } := by
  obtain ⟨h1, h2, h3, h4⟩ := hI
  rw [hs] at h1 h2 h3 h4
  constructor
  · intro x hx
    simp at hx
    rcases hx with hx | rfl | hx
    · exact h1 x (by simp [hx])
    · exact hok
    · exact h1 x (by simp [hx])
  · simpa [hid] using h2
  · intro x hx
    simp at hx
    rcases hx with hx | rfl | hx
    · exact h3 x (by simp [hx])
    · rw [hid]; exact h3 a (by simp)
    · exact h3 x (by simp [hx])
  · simp at h4 ⊢; omega

/-! ### `rs_malloc` -/

theorem mallocIn_spec {c : Cfg} {e : Nat} (hc : c.ok) (hBe : c.B ≤ e) (heT : e ≤ c.T) (as : List Arena)
    (hok : ∀ a ∈ as, ArenaOk c a) :
    (mallocIn c.T e as = none ∧ ∀ a ∈ as, a.tree.longest c.T < e) ∨
    ∃ pre a post t' off, as = pre ++ a :: post ∧
      mallocIn c.T e as = some (pre ++ { a with tree := t' } :: post, ⟨a.id, off⟩) ∧
      a.tree.bmalloc c.T e = some (t', off) := by
  induction as with
  | nil => left; simp [mallocIn]
  | cons a rest ih =>
    rcases ih (fun x hx => hok x (by simp [hx])) with ⟨h1, h2⟩ | ⟨pre, b, post, t', off, h1, h2, h3⟩
    · cases hb : a.tree.bmalloc c.T e with
      | none =>
        left
        refine ⟨by simp [mallocIn, h1, hb], ?_⟩
        intro x hx
        simp at hx
        rcases hx with rfl | hx
        · exact (BT.bmalloc_eq_none hc.1 hBe heT (hok x (by simp)).1).1 hb
        · exact h2 x hx
      | some r =>
        right
        exact ⟨[], a, rest, r.1, r.2, rfl, by simp [mallocIn, h1, hb], by simp [hb]⟩
    · right
      exact ⟨a :: pre, b, post, t', off, by simp [h1], by simp [mallocIn, h2], h3⟩

/-- What a successful allocation does (common to the "existing arena" and "new arena" paths). -/
structure AllocRes (c : Cfg) (s s' : MM) (p : Ptr) (e : Nat) : Prop where
  inv : Inv0 c s'
  live : ∀ b, b ∈ s'.live c ↔ b = (p.aid, p.off, e) ∨ b ∈ s.live c
  fresh : (p.aid, p.off, e) ∉ s.live c
  inside : p.off + 2 ^ e ≤ 2 ^ c.T
  aligned : 2 ^ e ∣ p.off
  mem : ∀ a ∈ s.arenas, ∃ a' ∈ s'.arenas, a'.id = a.id ∧ a'.mem = a.mem
  logs : s'.logs = s.logs
  sub : (ids s.arenas).Sublist (ids s'.arenas)
  full : s'.full = s.full + 2 ^ e + (s'.arenas.length - s.arenas.length) * c.perArena
  grow : s.arenas.length ≤ s'.arenas.length

theorem not_mem_of_sorted {l1 l2 : List (Nat × Nat)} {x : Nat × Nat}
    (h : (l1 ++ x :: l2).Pairwise fun a b => a.1 + 2 ^ a.2 ≤ b.1) : x ∉ l1 ++ l2 := by
  rw [List.pairwise_append] at h
  obtain ⟨_, h2, h3⟩ := h
  have h2' := List.pairwise_cons.1 h2
  have hp : 0 < 2 ^ x.2 := Nat.two_pow_pos _
  intro hx
  simp at hx
  rcases hx with hx | hx
  · have := h3 x hx x (by simp); omega
  · have := h2'.1 x hx; omega

theorem ids_insertAt (as : List Arena) (i : Nat) (a : Arena) :
    ids (insertAt as i a) = insertAt (ids as) i a.id := by
  simp [insertAt, ids, List.map_take, List.map_drop]

theorem sublist_insertAt {α} (l : List α) (i : Nat) (a : α) : l.Sublist (insertAt l i a) := by
  unfold insertAt
  conv => lhs; rw [← List.take_append_drop i l]
  exact List.Sublist.append (List.Sublist.refl _) (List.sublist_cons_self _ _)

theorem mem_insertAt {α} {l : List α} {i : Nat} {a x : α} : x ∈ insertAt l i a ↔ x = a ∨ x ∈ l := by
  unfold insertAt
  constructor
  · intro h
    simp at h
    rcases h with h | h | h
    · exact Or.inr (List.mem_of_mem_take h)
    · exact Or.inl h
    · exact Or.inr (List.mem_of_mem_drop h)
  · rintro (rfl | h)
    · simp
    · have h' : x ∈ l.take i ++ l.drop i := by rwa [List.take_append_drop]
      simp only [List.mem_append, List.mem_cons] at h' ⊢
      rcases h' with h' | h'
      · exact Or.inl h'
      · exact Or.inr (Or.inr h')

theorem length_insertAt {α} (l : List α) (i : Nat) (a : α) : (insertAt l i a).length = l.length + 1 := by
  simp [insertAt]; omega

theorem sizeOf_insertAt (c : Cfg) (as : List Arena) (i : Nat) (a : Arena) :
    sizeOf c (insertAt as i a) = sizeOf c as + (c.perArena + a.tree.liveBytes c.T) := by
  unfold insertAt
  have := sizeOf_append c (as.take i) (as.drop i)
  rw [List.take_append_drop] at this
  simp [this]; omega

theorem nodup_insertAt {l : List Nat} {i a : Nat} (h : l.Nodup) (ha : a ∉ l) : (insertAt l i a).Nodup := by
  unfold insertAt
  rw [← List.take_append_drop i l] at h
  have ha1 : a ∉ l.take i := fun hm => ha (List.mem_of_mem_take hm)
  have ha2 : a ∉ l.drop i := fun hm => ha (List.mem_of_mem_drop hm)
  rw [List.nodup_append] at h ⊢
  refine ⟨h.1, ?_, ?_⟩
  · exact List.nodup_cons.2 ⟨ha2, h.2.1⟩
  · intro x hx y hy
    simp at hy
    rcases hy with rfl | hy
    · intro he; exact ha1 (he ▸ hx)
    · exact h.2.2 x hx y hy

theorem rsMalloc_ptr {c : Cfg} {s s' : MM} {n ins : Nat} {p : Ptr} (hc : c.ok) (hI : Inv0 c s)
    (h : rsMalloc c s n ins = (s', .ptr p)) : AllocRes c s s' p (blockExp c.B n) := by
  unfold rsMalloc at h
  split at h
  · simp at h
  · simp only at h
    split at h
    · simp at h
    · rename_i hn heT
      have heT : blockExp c.B n ≤ c.T := by omega
      have hBe := (blockExp_spec c.B n).1
      generalize blockExp c.B n = e at *
      rcases mallocIn_spec hc hBe heT s.arenas hI.ok with ⟨h1, h2⟩ | ⟨pre, a, post, t', off, h1, h2, h3⟩
      · -- new arena
        rw [h1] at h
        simp only at h
        have hfree : BT.WF c.B c.T BT.free := by simpa using hc.2
        obtain ⟨t', off, q1, q2, q3, q4, q5⟩ :=
          BT.bmalloc_spec (t := BT.free) hc.1 hBe heT hfree (by simpa using heT)
        simp only [Arena.fresh] at h
        rw [q1] at h
        simp only [Prod.mk.injEq, Ret.ptr.injEq] at h
        obtain ⟨rfl, rfl⟩ := h
        obtain ⟨l1, l2, b1, b2⟩ := q5 0
        simp at b1
        obtain ⟨rfl, rfl⟩ := b1
        simp at b2
        have hnid : s.nextId ∉ ids s.arenas := by
          intro hm
          simp [ids] at hm
          obtain ⟨x, hx, he⟩ := hm
          have := hI.fresh x hx; omega
        constructor
        · constructor
          · intro x hx
            rw [mem_insertAt] at hx
            rcases hx with rfl | hx
            · exact ⟨q2, by simp⟩
            · exact hI.ok x hx
          · rw [ids_insertAt]; exact nodup_insertAt hI.nodup hnid
          · intro x hx
            rw [mem_insertAt] at hx
            rcases hx with rfl | hx
            · simp
            · have := hI.fresh x hx; simp; omega
          · simp only [sizeOf_insertAt]
            rw [liveBytes_eq c.T t' 0, b2, hI.full]; simp; omega
        · intro b
          rw [mem_live, mem_live]
          simp only [mem_insertAt]
          constructor
          · rintro ⟨x, hx | hx, h1, hb⟩
            · subst hx; simp [b2] at hb h1
              left
              rcases b with ⟨b1, b2, b3⟩
              simp at h1 hb ⊢
              exact ⟨h1.symm, hb.1, hb.2⟩
            · exact Or.inr ⟨x, hx, h1, hb⟩
          · rintro (rfl | ⟨x, hx, h1, hb⟩)
            · exact ⟨_, Or.inl rfl, rfl, by simp [b2]⟩
            · exact ⟨x, Or.inr hx, h1, hb⟩
        · rw [mem_live]
          rintro ⟨x, hx, h1, _⟩
          exact hnid (by simp at h1; rw [← h1]; exact mem_ids hx)
        · simpa using q3
        · simpa using q4
        · intro a ha; exact ⟨a, mem_insertAt.2 (Or.inr ha), rfl, rfl⟩
        · rfl
        · rw [ids_insertAt]; exact sublist_insertAt _ _ _
        · simp [length_insertAt]
        · simp [length_insertAt]
      · -- existing arena
        rw [h2] at h
        simp only [Prod.mk.injEq, Ret.ptr.injEq] at h
        obtain ⟨rfl, rfl⟩ := h
        have hok := hI.ok a (by simp [h1])
        have hle : e ≤ a.tree.longest c.T := by
          apply Nat.le_of_not_lt; intro hlt
          have := (BT.bmalloc_eq_none hc.1 hBe heT hok.1).2 hlt
          simp [this] at h3
        obtain ⟨t'', off', q1, q2, q3, q4, q5⟩ := BT.bmalloc_spec hc.1 hBe heT hok.1 hle
        rw [h3] at q1
        simp only [Option.some.injEq, Prod.mk.injEq] at q1
        obtain ⟨rfl, rfl⟩ := q1
        obtain ⟨l1, l2, b1, b2⟩ := q5 0
        simp at b2
        have hnd : (ids (pre ++ a :: post)).Nodup := by rw [← h1]; exact hI.nodup
        have hnd' : (ids (pre ++ { a with tree := t' } :: post)).Nodup := by simpa using hnd
        have hsort := BT.blocks_sorted q2 0
        rw [b2] at hsort
        have hnot := not_mem_of_sorted hsort
        constructor
        · apply Inv0.replace (a' := { a with tree := t' }) hI h1 rfl ⟨q2, hok.2⟩
          simp only
          rw [liveBytes_eq c.T t' 0, liveBytes_eq c.T a.tree 0, b1, b2]
          simp; omega
        · intro b
          rw [live_eq, live_eq]
          simp only
          rw [h1, mem_liveOf_split hnd, mem_liveOf_split hnd']
          simp only [b1, b2]
          constructor
          · rintro (⟨x1, x2⟩ | x)
            · simp at x2
              rcases x2 with x2 | x2 | x2
              · exact Or.inr (Or.inl ⟨x1, by simp [x2]⟩)
              · left; ext <;> simp [x1, x2.1, x2.2]
              · exact Or.inr (Or.inl ⟨x1, by simp [x2]⟩)
            · exact Or.inr (Or.inr x)
          · rintro (rfl | ⟨x1, x2⟩ | x)
            · left; simp
            · left; refine ⟨x1, ?_⟩; simp at x2 ⊢; rcases x2 with x2 | x2 <;> simp [x2]
            · exact Or.inr x
        · rw [live_eq, h1, mem_liveOf_split hnd]
          rintro (⟨_, x2⟩ | ⟨x1, _⟩)
          · rw [b1] at x2; exact hnot x2
          · exact x1 rfl
        · simpa using q3
        · simpa using q4
        · intro x hx
          rw [h1] at hx
          simp at hx
          rcases hx with hx | rfl | hx
          · exact ⟨x, by simp [hx], rfl, rfl⟩
          · exact ⟨{ x with tree := t' }, by simp, rfl, rfl⟩
          · exact ⟨x, by simp [hx], rfl, rfl⟩
        · rfl
        · simp [h1]
        · simp [h1]
        · simp [h1]


theorem two_pow_T_lt_iff {c : Cfg} (hc : c.ok) (n : Nat) : c.T < blockExp c.B n ↔ 2 ^ c.T < n := by
  have := blockExp_le_iff c.B n c.T
  have := hc.2
  omega

/-- the three outcomes of `rs_malloc` -/
theorem rsMalloc_cases {c : Cfg} {s : MM} (hc : c.ok) (hI : Inv0 c s) (n ins : Nat) :
    (n = 0 ∧ rsMalloc c s n ins = (s, .null)) ∨
    (2 ^ c.T < n ∧ rsMalloc c s n ins = (s, .enomem)) ∨
    (0 < n ∧ n ≤ 2 ^ c.T ∧ ∃ s' p, rsMalloc c s n ins = (s', .ptr p)) := by
  by_cases hn : n = 0
  · left; simp [rsMalloc, hn]
  by_cases hT : c.T < blockExp c.B n
  · right; left
    exact ⟨(two_pow_T_lt_iff hc n).1 hT, by simp [rsMalloc, hn, hT]⟩
  · right; right
    have hT' : ¬ 2 ^ c.T < n := fun h => hT ((two_pow_T_lt_iff hc n).2 h)
    refine ⟨by omega, by omega, ?_⟩
    have heT : blockExp c.B n ≤ c.T := by omega
    have hBe := (blockExp_spec c.B n).1
    simp only [rsMalloc, hn, hT, if_false]
    generalize blockExp c.B n = e at *
    rcases mallocIn_spec hc hBe heT s.arenas hI.ok with ⟨h1, _⟩ | ⟨pre, a, post, t', off, _, h2, _⟩
    · have hfree : BT.WF c.B c.T BT.free := by simpa using hc.2
      obtain ⟨t', off, q1, _⟩ := BT.bmalloc_spec (t := BT.free) hc.1 hBe heT hfree (by simpa using heT)
      simp only [h1, Arena.fresh, q1]
      exact ⟨_, _, rfl⟩
    · simp only [h2]
      exact ⟨_, _, rfl⟩

theorem rsMalloc_not_ptr {c : Cfg} {s s' : MM} {n ins : Nat} {r : Ret} (hc : c.ok) (hI : Inv0 c s)
    (h : rsMalloc c s n ins = (s', r)) (hr : ∀ p, r ≠ .ptr p) :
    s' = s ∧ ((n = 0 ∧ r = .null) ∨ (2 ^ c.T < n ∧ r = .enomem)) := by
  rcases rsMalloc_cases hc hI n ins with ⟨h1, h2⟩ | ⟨h1, h2⟩ | ⟨_, _, s'', p, h2⟩
  · rw [h2] at h; simp at h; exact ⟨h.1.symm, Or.inl ⟨h1, h.2.symm⟩⟩
  · rw [h2] at h; simp at h; exact ⟨h.1.symm, Or.inr ⟨h1, h.2.symm⟩⟩
  · rw [h2] at h; simp at h; exact absurd h.2.symm (hr p)

/-! ### pointers and live blocks -/

theorem pairwise_or {α} {R : α → α → Prop} {l : List α} (h : l.Pairwise R) {a b : α} (ha : a ∈ l) (hb : b ∈ l)
    (hne : a ≠ b) : R a b ∨ R b a := by
  induction l with
  | nil => simp at ha
  | cons x l ih =>
    rw [List.pairwise_cons] at h
    simp at ha hb
    rcases ha with rfl | ha <;> rcases hb with rfl | hb
    · exact absurd rfl hne
    · exact Or.inl (h.1 b hb)
    · exact Or.inr (h.1 a ha)
    · exact ih h.2 ha hb

theorem blockAt_iff {c : Cfg} {s : MM} (hI : Inv0 c s) (p : Ptr) (j : Nat) :
    s.blockAt c p = some j ↔ (p.aid, p.off, j) ∈ s.live c := by
  rw [mem_live]
  unfold MM.blockAt
  constructor
  · intro h
    split at h
    · simp at h
    · rename_i a ha
      obtain ⟨h1, h2⟩ := findArena_mem ha
      simp only [Option.map_eq_some_iff] at h
      obtain ⟨b, hb, rfl⟩ := h
      have hm := List.mem_of_find?_eq_some hb
      have hp := List.find?_some hb
      simp at hp
      exact ⟨a, h1, h2, by simp [← hp]; exact hm⟩
  · rintro ⟨a, ha, h1, hb⟩
    simp at h1 hb
    rw [← h1, findArena_of_mem hI.nodup ha]
    simp only
    cases hf : List.find? (fun b => b.1 == p.off) (a.tree.blocks c.T 0) with
    | none =>
      rw [List.find?_eq_none] at hf
      have := hf _ hb; simp at this
    | some b =>
      have hm := List.mem_of_find?_eq_some hf
      have hp := List.find?_some hf
      simp at hp
      simp
      by_cases hne : b = (p.off, j)
      · simp [hne]
      · have hs := BT.blocks_sorted (hI.ok a ha).1 0
        have hpos : 0 < 2 ^ b.2 := Nat.two_pow_pos _
        have hpos' : 0 < 2 ^ j := Nat.two_pow_pos _
        rcases pairwise_or hs hm hb hne with h | h <;> simp at h <;> omega

/-- two different live blocks of the same arena do not overlap -/
theorem live_disjoint {c : Cfg} {s : MM} (hI : Inv0 c s) {id o1 k1 o2 k2 : Nat}
    (h1 : (id, o1, k1) ∈ s.live c) (h2 : (id, o2, k2) ∈ s.live c) (hne : (o1, k1) ≠ (o2, k2)) :
    o1 + 2 ^ k1 ≤ o2 ∨ o2 + 2 ^ k2 ≤ o1 := by
  rw [mem_live] at h1 h2
  obtain ⟨a, ha, e1, b1⟩ := h1
  obtain ⟨a', ha', e2, b2⟩ := h2
  simp at e1 e2 b1 b2
  have : a' = a := by
    have q1 := findArena_of_mem hI.nodup ha
    have q2 := findArena_of_mem hI.nodup ha'
    rw [e1] at q1; rw [e2] at q2
    rw [q1] at q2; simp at q2; exact q2.symm
  subst this
  exact pairwise_or (BT.blocks_sorted (hI.ok a' ha).1 0) b1 b2 hne

/-- position of a live block -/
theorem live_bounds {c : Cfg} {s : MM} (hI : Inv0 c s) {id o k : Nat} (h : (id, o, k) ∈ s.live c) :
    c.B ≤ k ∧ k ≤ c.T ∧ o + 2 ^ k ≤ 2 ^ c.T ∧ 2 ^ k ∣ o := by
  rw [mem_live] at h
  obtain ⟨a, ha, _, b⟩ := h
  have := BT.blocks_bounds (hI.ok a ha).1 b
  simp at this
  exact ⟨this.1, this.2.1, by omega, this.2.2.2⟩

/-! ### `rs_free` -/

structure FreeRes (c : Cfg) (s s' : MM) (p : Ptr) (j : Nat) : Prop where
  inv : Inv0 c s'
  live : ∀ b, b ∈ s'.live c ↔ b ∈ s.live c ∧ b ≠ (p.aid, p.off, j)
  mem : ∀ a ∈ s.arenas, ∃ a' ∈ s'.arenas, a'.id = a.id ∧ a'.mem = a.mem
  ids : ids s'.arenas = ids s.arenas
  logs : s'.logs = s.logs
  full : s'.full + 2 ^ j = s.full
  reusable : ∃ a' ∈ s'.arenas, a'.id = p.aid ∧ j ≤ a'.tree.longest c.T
  next : s'.nextId = s.nextId

theorem rsFree_spec {c : Cfg} {s : MM} (hc : c.ok) (hI : Inv0 c s) {p : Ptr} {j : Nat}
    (hp : (p.aid, p.off, j) ∈ s.live c) : ∃ s', rsFree c s (some p) = some s' ∧ FreeRes c s s' p j := by
  have hb := live_bounds hI hp
  have hp' := hp
  rw [mem_live] at hp
  obtain ⟨a, ha, h1, hbk⟩ := hp
  simp at h1 hbk
  obtain ⟨pre, post, hs⟩ := List.append_of_mem ha
  have hnd : (ids (pre ++ a :: post)).Nodup := by rw [← hs]; exact hI.nodup
  have hok := hI.ok a ha
  have hpos : 0 < 2 ^ j := Nat.two_pow_pos _
  obtain ⟨t', q1, q2, q3, q4⟩ := BT.bfree_spec (o := p.off) hc.1 hok.1 hbk (by simp) (by omega)
  obtain ⟨l1, l2, b1, b2⟩ := q4 0
  simp at b1
  have hnd' : (ids (pre ++ { a with tree := t' } :: post)).Nodup := by simpa using hnd
  have hmod : modArena p.aid (fun x => { x with tree := t' }) s.arenas = pre ++ { a with tree := t' } :: post := by
    rw [← h1, hs]; exact modArena_split _ hnd
  have hfull : 2 ^ j ≤ s.full := by
    rw [hI.full, hs]; simp
    rw [liveBytes_eq c.T a.tree 0, b1]; simp; omega
  refine ⟨{ s with arenas := pre ++ { a with tree := t' } :: post, full := s.full - 2 ^ j }, ?_, ?_⟩
  · unfold rsFree
    simp only
    rw [← h1, findArena_of_mem hI.nodup ha]
    have : ¬ 2 ^ c.T ≤ p.off := by omega
    simp only [this, if_false, q1, h1, hmod]
  · have hsort := BT.blocks_sorted hok.1 0
    rw [b1] at hsort
    have hnot := not_mem_of_sorted hsort
    constructor
    · apply Inv0.replace (a' := { a with tree := t' }) hI hs rfl ⟨q2, hok.2⟩
      simp only
      rw [liveBytes_eq c.T t' 0, liveBytes_eq c.T a.tree 0, b1, b2]
      simp; omega
    · intro b
      rw [live_eq, live_eq]
      simp only
      rw [hs, mem_liveOf_split hnd, mem_liveOf_split hnd']
      simp only [b1, b2]
      constructor
      · rintro (⟨x1, x2⟩ | x)
        · refine ⟨Or.inl ⟨x1, ?_⟩, ?_⟩
          · simp at x2 ⊢; rcases x2 with x2 | x2 <;> simp [x2]
          · rintro rfl; exact hnot x2
        · refine ⟨Or.inr x, ?_⟩
          rintro rfl; exact x.1 h1.symm
      · rintro ⟨⟨x1, x2⟩ | x, hne⟩
        · left
          refine ⟨x1, ?_⟩
          simp at x2 ⊢
          rcases x2 with x2 | x2 | x2
          · exact Or.inl x2
          · exfalso; apply hne
            rcases b with ⟨b1, b2, b3⟩
            simp at x1 x2 ⊢
            exact ⟨by rw [x1, h1], x2.1, x2.2⟩
          · exact Or.inr x2
        · exact Or.inr x
    · intro x hx
      rw [hs] at hx
      simp at hx
      rcases hx with hx | rfl | hx
      · exact ⟨x, by simp [hx], rfl, rfl⟩
      · exact ⟨{ x with tree := t' }, by simp, rfl, rfl⟩
      · exact ⟨x, by simp [hx], rfl, rfl⟩
    · simp [hs]
    · rfl
    · simp only; omega
    · exact ⟨{ a with tree := t' }, by simp, h1, q3⟩
    · rfl


/-! ### loads and stores -/

theorem findArena_replace {pre post : List Arena} {a a' : Arena} (hn : (ids (pre ++ a :: post)).Nodup)
    (hid : a'.id = a.id) (id : Nat) :
    findArena (pre ++ a' :: post) id = if id = a.id then some a' else findArena (pre ++ a :: post) id := by
  split
  · rename_i h; subst h
    rw [← hid]; apply findArena_split; simpa [hid] using hn
  · rename_i h
    have h1 : (a'.id == id) = false := by simp [hid]; exact fun e => h e.symm
    have h2 : (a.id == id) = false := by simp; exact fun e => h e.symm
    simp [findArena, List.find?_append, h1, h2]

theorem peek_of_mem {c : Cfg} {s s' : MM} (hI : Inv0 c s) (hI' : Inv0 c s')
    (hm : ∀ a ∈ s.arenas, ∃ a' ∈ s'.arenas, a'.id = a.id ∧ a'.mem = a.mem) {a : Arena} (ha : a ∈ s.arenas)
    (o len : Nat) : s'.peek a.id o len = s.peek a.id o len := by
  obtain ⟨a', ha', e1, e2⟩ := hm a ha
  unfold MM.peek
  rw [findArena_of_mem hI.nodup ha, ← e1, findArena_of_mem hI'.nodup ha']
  simp only [e2]

theorem bytes_of_mem {c : Cfg} {s s' : MM} (hI : Inv0 c s) (hI' : Inv0 c s')
    (hm : ∀ a ∈ s.arenas, ∃ a' ∈ s'.arenas, a'.id = a.id ∧ a'.mem = a.mem) {b : Nat × Nat × Nat}
    (hb : b ∈ s.live c) : s'.bytes b = s.bytes b := by
  rw [mem_live] at hb
  obtain ⟨a, ha, e, _⟩ := hb
  unfold MM.bytes
  rw [← e]; exact peek_of_mem hI hI' hm ha _ _

structure PokeRes (c : Cfg) (s s' : MM) (aid o : Nat) (bs : List Nat) : Prop where
  inv : Inv0 c s'
  live : s'.live c = s.live c
  same : s'.peek aid o bs.length = bs
  frame : ∀ id o' len, (id ≠ aid ∨ o' + len ≤ o ∨ o + bs.length ≤ o') → s'.peek id o' len = s.peek id o' len
  get : ∀ o' len k, o' + k < o ∨ o + bs.length ≤ o' + k → (s'.peek aid o' len)[k]? = (s.peek aid o' len)[k]?
  trees : s'.arenas.map (fun a => (a.id, a.tree)) = s.arenas.map (fun a => (a.id, a.tree))
  logs : s'.logs = s.logs
  full : s'.full = s.full
  next : s'.nextId = s.nextId

theorem poke_spec {c : Cfg} {s : MM} (hI : Inv0 c s) {a : Arena} (ha : a ∈ s.arenas) (o : Nat) (bs : List Nat)
    (hb : o + bs.length ≤ 2 ^ c.T) : PokeRes c s (s.poke a.id o bs) a.id o bs := by
  obtain ⟨pre, post, hs⟩ := List.append_of_mem ha
  have hnd : (ids (pre ++ a :: post)).Nodup := by rw [← hs]; exact hI.nodup
  have hok := hI.ok a ha
  have hw : o + bs.length ≤ a.mem.length := by rw [hok.2]; exact hb
  have hp : s.poke a.id o bs = { s with arenas := pre ++ { a with mem := writeAt a.mem o bs } :: post } := by
    unfold MM.poke; rw [hs, modArena_split _ hnd]
  rw [hp]
  have hfa := fun id => findArena_replace (a' := { a with mem := writeAt a.mem o bs }) hnd rfl id
  constructor
  · have := Inv0.replace (a' := { a with mem := writeAt a.mem o bs }) hI hs rfl
      ⟨hok.1, by simp [writeAt_length hw, hok.2]⟩ s.full rfl
    exact this
  · simp [MM.live, hs]
  · simp only [MM.peek, hfa, if_true]
    exact readAt_writeAt_same hw
  · intro id o' len h
    simp only [MM.peek, hfa, hs]
    by_cases he : id = a.id
    · subst he
      rw [findArena_split hnd]
      simp only [if_true]
      apply readAt_ext
      intro i h1 h2
      rw [writeAt_get hw]
      have : ¬ (o ≤ i ∧ i < o + bs.length) := by
        rcases h with h | h | h
        · exact absurd rfl h
        · omega
        · omega
      simp [this]
    · simp only [he, if_false]
  · intro o' len k h
    simp only [MM.peek, hfa, hs, if_true, findArena_split hnd]
    rw [readAt_get, readAt_get]
    split
    · rw [writeAt_get hw]
      have : ¬ (o ≤ o' + k ∧ o' + k < o + bs.length) := by omega
      simp [this]
    · rfl
  · simp [hs]
  · rfl
  · rfl
  · rfl

end RootSim.Alloc
