import RootSim.Model.Heap
/-!
Helper lemmas for the heap of `heap.h` (C10 / heap half of C15).

Everything is proved once, for a call-site indexed comparator `cmp` that is *consistent* with some
total preorder `le` on the elements satisfying a predicate `P`:
`cmp n a b → le a b` and `¬ cmp n a b → le b a` for every call site `n`.
Two instances are used:
* `le a b := lt b a = false` for a strict weak order `lt` (the event order, C16), `cmp := fun _ => lt`;
* `le a b := key a ≤ key b` for an arbitrary family of comparators that merely respect the time stamps.
-/
namespace RootSim.Heap
variable {α : Type}

/-- `cmp` refines the total preorder `le` on the elements satisfying `P` -/
structure Consistent (cmp : Cmp α) (le : α → α → Prop) (P : α → Prop) : Prop where
  refl : ∀ a, P a → le a a
  trans : ∀ a b c, P a → P b → P c → le a b → le b c → le a c
  of_lt : ∀ n a b, P a → P b → cmp n a b = true → le a b
  of_not_lt : ∀ n a b, P a → P b → cmp n a b = false → le b a

/-- every stored element satisfies `P` -/
def AllP (P : α → Prop) (a : Array α) : Prop := ∀ k (h : k < a.size), P a[k]

/-- the heap invariant: no child is strictly below its parent (`parent ≤ child`) -/
def HeapLe (le : α → α → Prop) (a : Array α) : Prop :=
  ∀ c (hc : c < a.size), 0 < c → le (a[(c - 1) / 2]'(by omega)) a[c]

/-! ### multiset preservation (no assumption on the comparator) -/

theorem set_set_eq_swap (a : Array α) (i p : Nat) (x : α) (hi : i < a.size) (hp : p < a.size) (hne : p ≠ i) :
    (a.set i a[p]).set p x (by simpa using hp) = (a.set i x).swap i p (by simpa using hi) (by simpa using hp) := by
  apply Array.ext
  · simp
  · intro k h1 h2
    simp only [Array.getElem_swap, Array.getElem_set]
    grind

theorem siftUp_perm (cmp : Cmp α) (x : α) (a : Array α) (i : Nat) (hi : i < a.size) :
    (siftUp cmp x a i hi).1.Perm (a.set i x) := by
  fun_induction siftUp cmp x a i hi with
  | case1 a hi => exact .rfl
  | case2 a i hi h0 hc ih =>
    refine ih.trans ?_
    rw [set_set_eq_swap a i ((i - 1) / 2) x hi (by omega) (by omega)]
    exact Array.swap_perm _ _
  | case3 a i hi h0 hc => exact .rfl

theorem siftUp_size (cmp : Cmp α) (x : α) (a : Array α) (i : Nat) (hi : i < a.size) :
    (siftUp cmp x a i hi).1.size = a.size := by
  have := (siftUp_perm cmp x a i hi).size_eq
  simpa using this

theorem heapInsertI_perm (cmp : Cmp α) (a : Array α) (x : α) :
    (heapInsertI cmp a x).1.Perm (a.push x) := by
  unfold heapInsertI
  refine (siftUp_perm ..).trans ?_
  apply Array.Perm.of_eq
  apply Array.ext
  · simp
  · intro k h1 h2
    simp only [Array.getElem_set, Array.getElem_push]
    grind

theorem siftDown_perm (cmp : Cmp α) (last : α) (a : Array α) (j i : Nat) (hji : j < i) :
    (siftDown cmp last a j i hji).Perm (a.setIfInBounds j last) := by
  fun_induction siftDown cmp last a j i hji with
  | case1 a j i hji h hc hg hlt ih =>
    refine ih.trans ?_
    have hj : j < a.size := by omega
    rw [Array.setIfInBounds, dif_pos (by simpa using hc), Array.setIfInBounds, dif_pos hj]
    rw [set_set_eq_swap a j _ last hj hc (by omega)]
    exact Array.swap_perm _ _
  | case2 a j i hji h hc hg hlt =>
    rw [Array.setIfInBounds, dif_pos (by omega)]
  | case3 a j i hji h => exact .rfl

theorem siftDown_size (cmp : Cmp α) (last : α) (a : Array α) (j i : Nat) (hji : j < i) :
    (siftDown cmp last a j i hji).size = a.size := by
  have := (siftDown_perm cmp last a j i hji).size_eq
  simpa using this

theorem list_dropLast_set_perm : ∀ (l : List α) (h : l ≠ []),
    (l.dropLast.set 0 (l.getLast h)).Perm l.tail
  | [x], _ => by simp
  | x :: y :: r, _ => by
    have h2 : (y :: r) ≠ [] := by simp
    have e : (x :: y :: r).dropLast = x :: (y :: r).dropLast := by simp
    rw [e, List.set_cons_zero, List.getLast_cons h2, List.tail_cons]
    conv => rhs; rw [← List.dropLast_concat_getLast h2]
    exact (List.perm_append_singleton _ _).symm

/-- `heap_extract` removes exactly the returned element from the multiset, for ANY comparator. -/
theorem heapExtractI_perm (cmp : Cmp α) (a : Array α) (m : α) (a' : Array α)
    (h : heapExtractI cmp a = some (m, a')) : a.toList.Perm (m :: a'.toList) := by
  unfold heapExtractI at h
  split at h
  · rename_i hs
    simp only [Option.some.injEq, Prod.mk.injEq] at h
    obtain ⟨rfl, rfl⟩ := h
    have hp := (siftDown_perm cmp (a[a.size - 1]) a.pop 0 1 (by omega))
    rw [Array.perm_iff_toList_perm] at hp
    have hne : a.toList ≠ [] := by
      intro e; have := congrArg List.length e; simp only [Array.length_toList, List.length_nil] at this; omega
    have e1 : a[a.size - 1] = a.toList.getLast hne := by
      rw [List.getLast_eq_getElem]; simp
    have e0 : a[0] = a.toList.head hne := by
      rw [List.head_eq_getElem]; simp
    rw [e0]
    refine (List.Perm.trans ?_ (List.Perm.cons _ hp.symm))
    rw [Array.toList_setIfInBounds, Array.toList_pop, e1]
    refine (List.Perm.trans ?_ (List.Perm.cons _ (list_dropLast_set_perm a.toList hne).symm))
    rw [List.cons_head_tail]
  · exact absurd h (by simp)

theorem heapExtractI_size (cmp : Cmp α) (a : Array α) (m : α) (a' : Array α)
    (h : heapExtractI cmp a = some (m, a')) : a'.size + 1 = a.size := by
  have := (heapExtractI_perm cmp a m a' h).length_eq
  simp at this; omega

theorem heapExtractI_isSome (cmp : Cmp α) (a : Array α) (h : 0 < a.size) :
    ∃ a', heapExtractI cmp a = some (a[0], a') := by
  unfold heapExtractI; rw [dif_pos h]; exact ⟨_, rfl⟩

/-! ### preservation of the heap invariant, for a comparator consistent with a total preorder -/

theorem siftUp_heap {cmp : Cmp α} {le : α → α → Prop} {P : α → Prop} (C : Consistent cmp le P)
    (x : α) (hx : P x) (a : Array α) (i : Nat) (hi : i < a.size) :
    AllP P a →
    (∀ c (hc : c < a.size), 0 < c → c ≠ i → (c - 1) / 2 ≠ i → le (a[(c - 1) / 2]'(by omega)) a[c]) →
    (∀ c (hc : c < a.size), 0 < c → (c - 1) / 2 = i → le x a[c]) →
    (0 < i → ∀ c (hc : c < a.size), 0 < c → (c - 1) / 2 = i → le (a[(i - 1) / 2]'(by omega)) a[c]) →
    HeapLe le (siftUp cmp x a i hi).1 := by
  fun_induction siftUp cmp x a i hi with
  | case1 a hi =>
    intro hP h1 h2 h3 c hc hc0
    simp only [Array.size_set] at hc
    simp only [Array.getElem_set]
    by_cases e : (c - 1) / 2 = 0
    · rw [if_pos e.symm, if_neg (by omega)]; exact h2 c hc hc0 e
    · rw [if_neg (fun h => e h.symm), if_neg (by omega)]; exact h1 c hc hc0 (by omega) e
  | case2 a i hi h0 hlt ih =>
    intro hP h1 h2 h3
    have hp : (i - 1) / 2 < a.size := by omega
    have hxp : le x a[(i - 1) / 2] := C.of_lt _ _ _ hx (hP _ hp) hlt
    apply ih
    · intro k hk; simp only [Array.size_set] at hk
      simp only [Array.getElem_set]; split
      · exact hP _ hp
      · exact hP _ hk
    · intro c hc hc0 hcp hpp
      simp only [Array.size_set] at hc
      simp only [Array.getElem_set]
      by_cases e1 : i = c
      · omega
      · rw [if_neg e1]
        by_cases e2 : i = (c - 1) / 2
        · rw [if_pos e2]; exact h3 (by omega) c hc hc0 e2.symm
        · rw [if_neg e2]; exact h1 c hc hc0 (fun h => e1 h.symm) (fun h => e2 h.symm)
    · intro c hc hc0 hcp
      simp only [Array.size_set] at hc
      simp only [Array.getElem_set]
      by_cases e1 : i = c
      · rw [if_pos e1]; exact hxp
      · rw [if_neg e1]
        refine C.trans _ _ _ hx (hP _ hp) (hP _ hc) hxp ?_
        have := h1 c hc hc0 (fun h => e1 h.symm) (by omega)
        simpa only [hcp] using this
    · intro hp0 c hc hc0 hcp
      simp only [Array.size_set] at hc
      simp only [Array.getElem_set]
      have hpp : le (a[((i - 1) / 2 - 1) / 2]'(by omega)) a[(i - 1) / 2] := h1 _ hp hp0 (by omega) (by omega)
      rw [if_neg (by omega)]
      by_cases e1 : i = c
      · rw [if_pos e1]; exact hpp
      · rw [if_neg e1]
        refine C.trans _ _ _ (hP _ (by omega)) (hP _ hp) (hP _ hc) hpp ?_
        have := h1 c hc hc0 (fun h => e1 h.symm) (by omega)
        simpa only [hcp] using this
  | case3 a i hi h0 hlt =>
    intro hP h1 h2 h3 c hc hc0
    have hp : (i - 1) / 2 < a.size := by omega
    simp only [Array.size_set] at hc
    simp only [Array.getElem_set]
    by_cases e1 : i = c
    · subst e1
      rw [if_pos rfl, if_neg (by omega)]
      exact C.of_not_lt _ _ _ hx (hP _ hp) (by simpa using hlt)
    · rw [if_neg e1]
      by_cases e2 : i = (c - 1) / 2
      · rw [if_pos e2]; exact h2 c hc hc0 e2.symm
      · rw [if_neg e2]; exact h1 c hc hc0 (fun h => e1 h.symm) (fun h => e2 h.symm)

theorem allP_of_perm {P : α → Prop} {a b : Array α} (h : a.Perm b) (hb : AllP P b) : AllP P a := by
  intro k hk
  have : a[k] ∈ b := (h.mem_iff).1 (Array.getElem_mem hk)
  obtain ⟨j, hj, e⟩ := Array.mem_iff_getElem.1 this
  rw [← e]; exact hb j hj

theorem allP_push {P : α → Prop} {a : Array α} {x : α} (ha : AllP P a) (hx : P x) : AllP P (a.push x) := by
  intro k hk
  simp only [Array.getElem_push]; split
  · exact ha _ _
  · exact hx

/-- `heap_insert` preserves the heap invariant. -/
theorem heapInsertI_heap {cmp : Cmp α} {le : α → α → Prop} {P : α → Prop} (C : Consistent cmp le P)
    (a : Array α) (x : α) (hP : AllP P a) (hx : P x) (hh : HeapLe le a) :
    HeapLe le (heapInsertI cmp a x).1 := by
  unfold heapInsertI
  apply siftUp_heap C x hx
  · exact allP_push hP hx
  · intro c hc hc0 hci hpi
    simp only [Array.size_push] at hc
    have hc' : c < a.size := by omega
    simp only [Array.getElem_push, dif_pos hc', dif_pos (show (c - 1) / 2 < a.size by omega)]
    exact hh c hc' hc0
  · intro c hc hc0 hcp; simp only [Array.size_push] at hc; omega
  · intro _ c hc hc0 hcp; simp only [Array.size_push] at hc; omega

theorem heapInsertI_allP {cmp : Cmp α} {P : α → Prop} (a : Array α) (x : α) (hP : AllP P a) (hx : P x) :
    AllP P (heapInsertI cmp a x).1 :=
  allP_of_perm (heapInsertI_perm cmp a x) (allP_push hP hx)

theorem pickChild_le {cmp : Cmp α} {le : α → α → Prop} {P : α → Prop} (C : Consistent cmp le P)
    (a : Array α) (i : Nat) (h : i < a.size) (hP : AllP P a) (k : Nat) (hk : k < a.size)
    (h1 : i ≤ k) (h2 : k ≤ i + 1) :
    le (a[pickChild cmp a i h]'(pickChild_lt cmp a i h)) a[k] := by
  have hk' : k = i ∨ k = i + 1 := by omega
  unfold pickChild
  split
  · rename_i hs
    split
    · rename_i hc
      rcases hk' with rfl | rfl
      · exact C.of_lt _ _ _ (hP _ _) (hP _ _) hc
      · exact C.refl _ (hP _ _)
    · rename_i hc
      rcases hk' with rfl | rfl
      · exact C.refl _ (hP _ _)
      · exact C.of_not_lt _ _ _ (hP _ _) (hP _ _) (by simpa using hc)
  · have : k = i := by omega
    subst this; exact C.refl _ (hP _ _)

theorem siftDown_heap {cmp : Cmp α} {le : α → α → Prop} {P : α → Prop} (C : Consistent cmp le P)
    (last : α) (hl : P last) (a : Array α) (j i : Nat) (hji : j < i) :
    i = 2 * j + 1 →
    AllP P a →
    (∀ c (hc : c < a.size), 0 < c → c ≠ j → (c - 1) / 2 ≠ j → le (a[(c - 1) / 2]'(by omega)) a[c]) →
    ((h0 : 0 < j) → ∀ c (hc : c < a.size) (hc0 : 0 < c) (hcp : (c - 1) / 2 = j),
      le (a[(j - 1) / 2]'(by omega)) a[c]) →
    ((h0 : 0 < j) → (hj : j < a.size) → le (a[(j - 1) / 2]'(by omega)) last) →
    HeapLe le (siftDown cmp last a j i hji) := by
  fun_induction siftDown cmp last a j i hji with
  | case1 a j i hji h hc hg hlt ih =>
    intro hij hP h1 h2 h3
    have hj : j < a.size := by omega
    have hcl : le a[pickChild cmp a i h] last := C.of_lt _ _ _ (hP _ hc) hl hlt
    have hpar : (pickChild cmp a i h - 1) / 2 = j := by omega
    apply ih rfl
    · intro k hk; simp only [Array.size_set] at hk
      simp only [Array.getElem_set]; split
      · exact hP _ hc
      · exact hP _ hk
    · intro k hk hk0 hkc hkp
      simp only [Array.size_set] at hk
      simp only [Array.getElem_set]
      by_cases e1 : j = k
      · subst e1
        rw [if_pos rfl, if_neg (by omega)]
        exact h2 hk0 _ hc (by omega) hpar
      · rw [if_neg e1]
        by_cases e2 : j = (k - 1) / 2
        · rw [if_pos e2]
          exact pickChild_le C a i h hP k hk (by omega) (by omega)
        · rw [if_neg e2]; exact h1 k hk hk0 (fun h => e1 h.symm) (fun h => e2 h.symm)
    · intro hc0 k hk hk0 hkp
      simp only [Array.size_set] at hk
      simp only [Array.getElem_set]
      rw [if_pos hpar.symm, if_neg (by omega)]
      have := h1 k hk hk0 (by omega) (by omega)
      simpa only [hkp] using this
    · intro hc0 _
      simp only [Array.getElem_set]
      rw [if_pos hpar.symm]; exact hcl
  | case2 a j i hji h hc hg hlt =>
    intro hij hP h1 h2 h3 k hk hk0
    have hj : j < a.size := by omega
    have hcl : le last a[pickChild cmp a i h] := C.of_not_lt _ _ _ (hP _ hc) hl (by simpa using hlt)
    simp only [Array.size_set] at hk
    simp only [Array.getElem_set]
    by_cases e1 : j = k
    · subst e1
      rw [if_pos rfl, if_neg (by omega)]; exact h3 hk0 hj
    · rw [if_neg e1]
      by_cases e2 : j = (k - 1) / 2
      · rw [if_pos e2]
        exact C.trans _ _ _ hl (hP _ hc) (hP _ hk) hcl (pickChild_le C a i h hP k hk (by omega) (by omega))
      · rw [if_neg e2]; exact h1 k hk hk0 (fun h => e1 h.symm) (fun h => e2 h.symm)
  | case3 a j i hji h =>
    intro hij hP h1 h2 h3 k hk hk0
    have hk' : k < a.size := by simpa using hk
    rw [Array.getElem_setIfInBounds hk', Array.getElem_setIfInBounds (show (k - 1) / 2 < a.size by omega)]
    by_cases e1 : j = k
    · subst e1
      rw [if_pos rfl, if_neg (by omega)]; exact h3 hk0 hk'
    · rw [if_neg e1, if_neg (by omega)]
      exact h1 k hk' hk0 (fun h => e1 h.symm) (by omega)

/-- `heap_extract` preserves the heap invariant. -/
theorem heapExtractI_heap {cmp : Cmp α} {le : α → α → Prop} {P : α → Prop} (C : Consistent cmp le P)
    (a : Array α) (m : α) (a' : Array α) (h : heapExtractI cmp a = some (m, a'))
    (hP : AllP P a) (hh : HeapLe le a) : HeapLe le a' := by
  unfold heapExtractI at h
  split at h
  · rename_i hs
    simp only [Option.some.injEq, Prod.mk.injEq] at h
    obtain ⟨rfl, rfl⟩ := h
    apply siftDown_heap C _ (hP _ _) _ 0 1 (by omega) rfl
    · intro k hk; simp only [Array.size_pop] at hk
      simp only [Array.getElem_pop]; exact hP _ _
    · intro c hc hc0 _ _
      simp only [Array.size_pop] at hc
      simp only [Array.getElem_pop]; exact hh c (by omega) hc0
    · intro h0; omega
    · intro h0; omega
  · exact absurd h (by simp)

theorem heapExtractI_allP {cmp : Cmp α} {P : α → Prop} (a : Array α) (m : α) (a' : Array α)
    (h : heapExtractI cmp a = some (m, a')) (hP : AllP P a) : P m ∧ AllP P a' := by
  have hp := heapExtractI_perm cmp a m a' h
  have hall : ∀ y ∈ a.toList, P y := by
    intro y hy
    obtain ⟨j, hj, e⟩ := Array.mem_iff_getElem.1 (Array.mem_toList_iff.1 hy)
    rw [← e]; exact hP j hj
  constructor
  · exact hall m (hp.mem_iff.2 (by simp))
  · intro k hk
    exact hall _ (hp.mem_iff.2 (List.mem_cons_of_mem _ (Array.mem_toList_iff.2 (Array.getElem_mem hk))))

/-! ### the root is a minimum -/

theorem heapLe_root {le : α → α → Prop} {P : α → Prop}
    (hrefl : ∀ a, P a → le a a) (htrans : ∀ a b c, P a → P b → P c → le a b → le b c → le a c)
    (a : Array α) (hP : AllP P a) (hh : HeapLe le a) :
    ∀ k (hk : k < a.size), le (a[0]'(by omega)) a[k] := by
  intro k
  induction k using Nat.strongRecOn with
  | _ k ih =>
    intro hk
    by_cases h0 : k = 0
    · subst h0; exact hrefl _ (hP _ _)
    · have hp : (k - 1) / 2 < a.size := by omega
      exact htrans _ _ _ (hP _ _) (hP _ hp) (hP _ hk) (ih _ (by omega) hp) (hh k hk (by omega))

theorem heapLe_root_mem {le : α → α → Prop} {P : α → Prop}
    (hrefl : ∀ a, P a → le a a) (htrans : ∀ a b c, P a → P b → P c → le a b → le b c → le a c)
    (a : Array α) (hP : AllP P a) (hh : HeapLe le a) (h0 : 0 < a.size) :
    ∀ y ∈ a.toList, le a[0] y := by
  intro y hy
  obtain ⟨j, hj, e⟩ := Array.mem_iff_getElem.1 (Array.mem_toList_iff.1 hy)
  rw [← e]; exact heapLe_root hrefl htrans a hP hh j hj

/-! ### the root is not displaced by an insertion that is not before it -/

theorem siftUp_root (cmp : Cmp α) (x : α) (a : Array α) (i : Nat) (hi : i < a.size) :
    0 < i → (∀ n r, a[0]? = some r → cmp n x r = false) → (siftUp cmp x a i hi).1[0]? = a[0]? := by
  fun_induction siftUp cmp x a i hi with
  | case1 a hi => intro h; omega
  | case2 a i hi h0 hlt ih =>
    intro _ hx
    have hp0 : 0 < (i - 1) / 2 := by
      rcases Nat.eq_zero_or_pos ((i - 1) / 2) with h | h
      · have := hx i a[0] (Array.getElem?_eq_getElem (by omega))
        simp only [h] at hlt
        rw [this] at hlt; exact absurd hlt (by simp)
      · exact h
    have e0 : (a.set i a[(i - 1) / 2])[0]? = a[0]? := by
      rw [Array.getElem?_set]; simp [h0]
    rw [ih hp0 (by intro n r hr; rw [e0] at hr; exact hx n r hr), e0]
  | case3 a i hi h0 hlt =>
    intro _ _
    show (a.set i x)[0]? = a[0]?
    rw [Array.getElem?_set]; simp [h0]

theorem heapInsertI_root (cmp : Cmp α) (a : Array α) (x : α) (h0 : 0 < a.size)
    (hx : ∀ n, cmp n x a[0] = false) : (heapInsertI cmp a x).1[0]? = a[0]? := by
  unfold heapInsertI
  have e : (a.push x)[0]? = a[0]? := by
    rw [Array.getElem?_push]; simp; omega
  rw [siftUp_root cmp x (a.push x) a.size (by simp) h0, e]
  intro n r hr
  rw [e, Array.getElem?_eq_getElem h0] at hr
  simp only [Option.some.injEq] at hr
  subst hr; exact hx n
