import RootSim.Proofs.GvtNodeCount
/-! Consequences of the counting invariant when a thread reads `0` in `node_sent_wait`. -/
namespace RootSim.GvtNode

theorem countP_and_eq_all {α} (p q : α → Bool) (l : List α)
    (h : l.countP (fun x => p x && q x) = l.countP p) : ∀ x ∈ l, p x = true → q x = true := by
  induction l with
  | nil => simp
  | cons a l ih =>
    have hle : l.countP (fun x => p x && q x) ≤ l.countP p :=
      List.countP_mono_left (by intro x _; simp; intro a _; exact a)
    simp only [List.countP_cons] at h
    intro x hx hp
    cases hpa : p a <;> cases hqa : q a <;> simp [hpa, hqa] at h
    all_goals first
      | omega
      | (rcases List.mem_cons.1 hx with rfl | hx
         · simp_all
         · exact ih (by omega) x hx hp)

/-- once every node has deposited, every thread of every node has reported -/
theorem all_reported (old : Bool) (s : St) (hinv : Inv old s) (ha : allContrib s = true) :
    ∀ (t : Nat) th, s.thr[t]? = some th → th.stage.reported = true := by
  intro t th ht
  have T := hinv.thr t th ht
  obtain ⟨nd, hnd⟩ : ∃ nd, s.nodes[th.node]? = some nd :=
    ⟨s.nodes[th.node]'T.node_lt, List.getElem?_eq_getElem T.node_lt⟩
  have I := hinv.node _ nd hnd
  have hc := I.contrib_iff.1 (allContrib_get s _ nd hnd ha)
  have heq : nReported s th.node = nThr s th.node := by rw [← I.cc_eq, hc, I.nthr]
  have := countP_and_eq_all (fun x : Thr => decide (x.node = th.node)) (fun x => x.stage.reported) s.thr heq
    th (List.mem_of_getElem? ht) (by simp)
  exact this

theorem scatter_eq_reportedTo (s : St) (ha : allContrib s = true) (k : Nat) :
    scatter s k = reportedTo s k := by
  simp only [scatter, reportedTo]
  apply sumBy_congr
  intro nd hnd
  simp only [allContrib, List.all_eq_true] at ha
  have := ha nd hnd
  cases hc : nd.contrib <;> simp [hc, eff] at this ⊢

/-- core of `old_colour_drained`: a reported thread of node `k` sees `total_msg_received == 0` -/
theorem drained_of_zero (old : Bool) (s : St) (hinv : Inv old s) (t : Nat) (th : Thr) (nd : Node)
    (h : s.thr[t]? = some th) (hnd : s.nodes[th.node]? = some nd) (hr : th.stage.reported = true)
    (hz : nd.totalRecv = 0) :
    nd.subtracted = true ∧
    (∀ (t1 : Nat) th1, s.thr[t1]? = some th1 → th1.stage.reported = true) ∧
    unreportedTo old s th.node = 0 ∧ unpolledAt old s th.node = 0 ∧ flightTo old s th.node = 0 := by
  have hsub : nd.subtracted = true := by
    cases hsb : nd.subtracted
    · have := recv_pos_of_not_subtracted old s hinv t th nd h hnd hr hsb; omega
    · rfl
  have I := hinv.node _ nd hnd
  obtain ⟨hall, htr⟩ := I.sub hsub
  have hrep := all_reported old s hinv hall
  have hun : unreportedTo old s th.node = 0 := by
    apply sumBy_zero
    intro th1 hth1
    obtain ⟨t1, ht1⟩ := List.getElem?_of_mem hth1
    simp [(hinv.thr t1 th1 ht1).unrep_nil (hrep t1 th1 ht1)]
  have hcc : nd.cc = s.N := I.contrib_iff.1 (allContrib_get s _ nd hnd hall)
  have h1 := I.recv_eq
  have h2 := I.balance
  have h3 := scatter_eq_reportedTo s hall th.node
  simp only [hsub, htr, hz, hcc] at h1
  simp at h1
  refine ⟨hsub, hrep, hun, ?_, ?_⟩ <;> omega

/-- every thread of every node has flipped its colour -/
def AllFlipped (old : Bool) (s : St) : Prop := ∀ th ∈ s.thr, th.stage ≠ .redux1 ∧ th.colour = !old

/-- all flipped, and no old-colour message in flight to `k` -/
def Quiet (old : Bool) (s : St) (k : Nat) : Prop := AllFlipped old s ∧ flightTo old s k = 0

theorem allFlipped_set (old : Bool) (s : St) (t : Nat) (th' : Thr) (h : AllFlipped old s)
    (h' : th'.stage ≠ .redux1 ∧ th'.colour = !old) : ∀ th ∈ s.thr.set t th', th.stage ≠ .redux1 ∧ th.colour = !old := by
  intro th hth
  rcases List.mem_or_eq_of_mem_set hth with hm | rfl
  · exact h th hm
  · exact h'

theorem quiet_step (old : Bool) (s s' : St) (k : Nat) (a : Action) (hq : Quiet old s k)
    (hs : step s a = some s') : Quiet old s' k := by
  obtain ⟨hf, hz⟩ := hq
  cases a with
  | send t d ts =>
    simp only [step, send] at hs
    split at hs; · simp at hs
    rename_i th h
    have hth := hf th (List.mem_of_getElem? h)
    split at hs <;> simp only [Option.some.injEq, reduceCtorEq] at hs
    subst hs
    refine ⟨allFlipped_set old s t _ hf hth, ?_⟩
    simp only [flightTo, List.countP_append] at hz ⊢
    simp [hz, hth.2]
  | deliver i t =>
    simp only [step, deliver] at hs
    split at hs
    · rename_i m th hm h
      have hth := hf th (List.mem_of_getElem? h)
      split at hs <;> simp only [Option.some.injEq, reduceCtorEq] at hs
      subst hs
      refine ⟨allFlipped_set old s t _ hf hth, ?_⟩
      have := countP_eraseIdx' (fun m => m.colour = old && m.dest = k) s.flight i m hm
      simp only [flightTo] at hz ⊢; omega
    · simp at hs
  | flip t =>
    simp only [step, flip] at hs
    split at hs; · simp at hs
    rename_i th h
    have hth := hf th (List.mem_of_getElem? h)
    split at hs
    · rename_i h1; exact absurd h1 hth.1
    · simp at hs
  | report t =>
    simp only [step, report] at hs
    split at hs; · simp at hs
    rename_i th h
    have hth := hf th (List.mem_of_getElem? h)
    split at hs; · simp at hs
    split at hs <;> simp only [Option.some.injEq, reduceCtorEq] at hs
    subst hs
    refine ⟨allFlipped_set old s t _ hf ⟨?_, hth.2⟩, hz⟩
    dsimp only; split <;> simp
  | collective t =>
    simp only [step, collective] at hs
    split at hs; · simp at hs
    rename_i th h
    have hth := hf th (List.mem_of_getElem? h)
    split at hs; · simp at hs
    split at hs <;> simp only [Option.some.injEq, reduceCtorEq] at hs
    subst hs
    refine ⟨allFlipped_set old s t _ hf ⟨?_, hth.2⟩, hz⟩
    dsimp only; simp
  | poll t =>
    simp only [step, poll] at hs
    split at hs; · simp at hs
    rename_i th h
    have hth := hf th (List.mem_of_getElem? h)
    split at hs; · simp at hs
    split at hs <;> simp only [Option.some.injEq, reduceCtorEq] at hs
    subst hs
    refine ⟨allFlipped_set old s t _ hf ⟨?_, hth.2⟩, hz⟩
    dsimp only; split <;> simp

theorem quiet_run (old : Bool) (k : Nat) (as : List Action) (s s' : St) (hq : Quiet old s k)
    (hs : run s as = some s') : Quiet old s' k := by
  induction as generalizing s with
  | nil => simp [run] at hs; subst hs; exact hq
  | cons a as ih =>
    simp only [run] at hs
    split at hs
    · simp at hs
    · rename_i s1 h1; exact ih s1 (quiet_step old s s1 k a hq h1) hs

/-- reported threads have flipped -/
theorem allFlipped_of_reported (old : Bool) (s : St) (hinv : Inv old s)
    (h : ∀ (t1 : Nat) th1, s.thr[t1]? = some th1 → th1.stage.reported = true) : AllFlipped old s := by
  intro th hth
  obtain ⟨t1, ht1⟩ := List.getElem?_of_mem hth
  have hr := h t1 th ht1
  have hne : th.stage ≠ .redux1 := by intro h1; simp [h1, Stage.reported] at hr
  exact ⟨hne, (hinv.thr t1 th ht1).col_post hne⟩

/-- what an enabled `poll` did -/
theorem poll_spec (s s' : St) (t : Nat) (hs : poll s t = some s') :
    ∃ th nd th', s.thr[t]? = some th ∧ s.nodes[th.node]? = some nd ∧ th.stage = .wait ∧
      s'.thr[t]? = some th' ∧ th'.node = th.node ∧ (th'.stage = .redux2 ↔ nd.totalRecv = 0) ∧
      (th'.stage = .wait ↔ nd.totalRecv ≠ 0) := by
  unfold poll at hs
  split at hs; · simp at hs
  rename_i th h
  split at hs; · simp at hs
  rename_i nd hnd
  split at hs <;> simp only [Option.some.injEq, reduceCtorEq] at hs
  rename_i hst
  subst hs
  have hlt : t < s.thr.length := (List.getElem?_eq_some_iff.1 h).1
  refine ⟨th, nd, { th with
      recv := th.recv.set (!th.colour) 0
      stage := if nd.totalRecv = 0 then .redux2 else .wait }, h, hnd, hst, by simp [hlt], rfl, ?_, ?_⟩ <;>
    (dsimp only; split <;> simp [*])

end RootSim.GvtNode
