import RootSim.Proofs.RandBits
import RootSim.Proofs.Rne
/-!
Helper lemmas for the derived functions of random.c: the shape of the values of `Random()`,
`RandomRange`, `RandomRangeNonUniform`, `1 - Random()`, `Poisson`, `Gamma`, `Zipf`.
-/
namespace RootSim.Rand
open RootSim.Float

/-- The values `Random()` can return: `0.0`, or `M / 2^s` with a normalised 53-bit `M`
(so `2^-64 ≤ value ≤ 1 - 2^-53`). -/
inductive RandVal : FVal → Prop
  | zero : RandVal (.fin 0 0)
  | pos (M s : Nat) : 2 ^ 52 ≤ M → M < 2 ^ 53 → 53 ≤ s → s ≤ 116 → RandVal (.fin (M : Int) s)

/-- a bits function all of whose defined results denote such values -/
def GoodBits (f : BitsFn) : Prop := ∀ u b, u < 2 ^ 64 → f u = .ok b → RandVal (decodeDouble b)

/-- a bits function that is defined for every raw output -/
def Total (f : BitsFn) : Prop := ∀ u, u < 2 ^ 64 → ∃ b, f u = .ok b

theorem decode_zero : decodeDouble 0 = .fin 0 0 := by decide

theorem randVal_of_pattern {u : Nat} (h0 : u ≠ 0) (h64 : u < 2 ^ 64) :
    decodeDouble ((959 + Nat.log2 u) * 2 ^ 52 + mantOf u) =
      .fin ((2 ^ 52 + mantOf u : Nat) : Int) (116 - Nat.log2 u) ∧
    RandVal (decodeDouble ((959 + Nat.log2 u) * 2 ^ 52 + mantOf u)) := by
  have hL := log2_lt_64 h0 h64
  have hm := mantOf_lt h0
  have hd := decode_normal (959 + Nat.log2 u) (mantOf u) (by omega) (by omega) hm
  have e : 1075 - (959 + Nat.log2 u) = 116 - Nat.log2 u := by omega
  rw [e] at hd
  refine ⟨hd, ?_⟩
  rw [hd]
  exact RandVal.pos _ _ (by omega) (by omega) (by omega) (by omega)

theorem goodBits_pinned : GoodBits randomBits := by
  intro u b h64 hb
  by_cases h0 : u = 0
  · subst h0
    have : b = 0 := by
      have : randomBits 0 = .ok 0 := rfl
      rw [this] at hb; injection hb with hb; exact hb.symm
    subst this; rw [decode_zero]; exact RandVal.zero
  · by_cases h1 : u = 1
    · subst h1
      have : randomBits 1 = .error .shiftWidth := rfl
      rw [this] at hb; cases hb
    · rw [randomBits_eq (by omega) h64] at hb
      injection hb with hb
      subst hb
      exact (randVal_of_pattern h0 h64).2

theorem goodBits_fixed : GoodBits randomBitsFixed := by
  intro u b h64 hb
  by_cases h0 : u = 0
  · subst h0
    have : b = 0 := by
      have : randomBitsFixed 0 = .ok 0 := rfl
      rw [this] at hb; injection hb with hb; exact hb.symm
    subst this; rw [decode_zero]; exact RandVal.zero
  · rw [randomBitsFixed_eq (by omega) h64] at hb
    injection hb with hb
    subst hb
    exact (randVal_of_pattern h0 h64).2

theorem total_fixed : Total randomBitsFixed := by
  intro u h64
  by_cases h0 : u = 0
  · subst h0; exact ⟨0, rfl⟩
  · exact ⟨_, randomBitsFixed_eq (by omega) h64⟩

/-! ### `Random() * n`, floored -/

theorem rneNat_zero (s : Nat) : rneNat 0 s = 0 := by
  unfold rneNat
  simp

/-- `floor(r * n)` is an integer `k` with `0 ≤ k < n`, for `1 ≤ n < 2^31` -/
theorem floor_mul_lt (r : FVal) (hr : RandVal r) (n : Nat) (hn1 : 1 ≤ n) (hn : n < 2 ^ 31) :
    ∃ k : Nat, (FVal.mul r (FVal.ofInt (n : Int))).floor = .fin (k : Int) 0 ∧ k < n := by
  cases hr with
  | zero =>
    refine ⟨0, ?_, by omega⟩
    have hno : ¬ (0 ≥ 2 ^ (1024 + (0 + 0))) := by
      have := Nat.two_pow_pos (1024 + (0 + 0)); omega
    have hz : ((0 : Int) * (n : Int)).natAbs = 0 := by simp
    simp only [FVal.mul, FVal.ofInt, roundFin, hz, rneNat_zero, hno, if_false, FVal.floor]
    have hi : (if (0 : Int) * (n : Int) < 0 then -((0 : Nat) : Int) else ((0 : Nat) : Int)) = 0 := by
      split <;> rfl
    rw [hi, Int.zero_ediv]
    rfl
  | pos M s h52 h53 hs53 hs116 =>
    have hlt := rneNat_mul_lt M s n h53 hs53 (by omega) hn1 hn
    have hno : ¬ rneNat (M * n) s ≥ 2 ^ (1024 + s) := by
      apply small_no_overflow
      have : n * 2 ^ s ≤ 2 ^ 31 * 2 ^ s := Nat.mul_le_mul_right _ (by omega)
      rw [← Nat.pow_add] at this
      omega
    refine ⟨rneNat (M * n) s / 2 ^ s, ?_, ?_⟩
    · have hneg : ¬ ((M : Int) * (n : Int) < 0) := by
        have : (0 : Int) ≤ (M : Int) * (n : Int) := Int.mul_nonneg (Int.natCast_nonneg _) (Int.natCast_nonneg _)
        omega
      have habs : ((M : Int) * (n : Int)).natAbs = M * n := by
        rw [Int.natAbs_mul, Int.natAbs_natCast, Int.natAbs_natCast]
      simp only [FVal.mul, FVal.ofInt, roundFin, Nat.add_zero, habs, hno, hneg, if_false, FVal.floor]
      congr 1
    · rw [Nat.div_lt_iff_lt_mul (Nat.two_pow_pos _)]
      exact hlt

theorem toInt32_nat (k : Nat) (hk : k < 2 ^ 31) : toInt32 (.fin (k : Int) 0) = .ok (k : Int) := by
  unfold toInt32
  simp only
  have : Int.tdiv (k : Int) (2 ^ 0) = (k : Int) := by simp
  rw [this]
  have h1 : (-2147483648 : Int) ≤ (k : Int) := by omega
  have h2 : (k : Int) ≤ 2147483647 := by omega
  simp [h1, h2]

theorem ckInt_ok {i : Int} (h1 : intMin ≤ i) (h2 : i ≤ intMax) : ckInt i = .ok i := by
  unfold ckInt; simp [h1, h2]

/-- **`RandomRange` body**: for every value `Random()` can take, and arguments
`min ≤ max`, `max - min + 1 ≤ INT_MAX` (no `int` overflow), the result is defined and in
`[min, max]`. -/
theorem rangeOf_spec (r : FVal) (hr : RandVal r) (min max : Int) (hmin : intMin ≤ min)
    (hmax : max ≤ intMax) (hle : min ≤ max) (hspan : max - min + 1 ≤ intMax) :
    ∃ v, rangeOf r min max = .ok v ∧ min ≤ v ∧ v ≤ max := by
  unfold intMin intMax at *
  have h1 : ckInt (max - min) = .ok (max - min) := ckInt_ok (by unfold intMin; omega) (by unfold intMax; omega)
  have h2 : ckInt (max - min + 1) = .ok (max - min + 1) := ckInt_ok (by unfold intMin; omega) (by unfold intMax; omega)
  have hn : ((max - min + 1).toNat : Int) = max - min + 1 := Int.toNat_of_nonneg (by omega)
  obtain ⟨k, hk, hkn⟩ := floor_mul_lt r hr (max - min + 1).toNat (by omega) (by omega)
  rw [hn] at hk
  have h3 := toInt32_nat k (by omega)
  have h4 : ckInt ((k : Int) + min) = .ok ((k : Int) + min) :=
    ckInt_ok (by unfold intMin; omega) (by unfold intMax; omega)
  refine ⟨(k : Int) + min, ?_, by omega, by omega⟩
  simp only [rangeOf, bind, Except.bind, h1, h2, hk, h3, h4]

/-! ### one draw -/

theorem next_lt (g : Rng) : (xoshiroNext g).1 < 2 ^ 64 := Nat.mod_lt _ (by omega)

theorem random_ok {f : BitsFn} {g : Rng} {b : Nat} (h : f (xoshiroNext g).1 = .ok b) :
    random f g = .ok (decodeDouble b, (xoshiroNext g).2) := by
  simp [random, randomB, randomU64, h]

theorem random_err {f : BitsFn} {g : Rng} {e : UB} (h : f (xoshiroNext g).1 = .error e) :
    random f g = .error e := by
  simp [random, randomB, randomU64, h]

/-- `Random()` either fails because the bits function does, or returns a `RandVal` and the
generator advanced by one raw draw. -/
theorem random_cases (f : BitsFn) (hf : GoodBits f) (g : Rng) :
    (∃ r, random f g = .ok (r, advance 1 g) ∧ RandVal r) ∨ (∃ e, random f g = .error e) := by
  cases h : f (xoshiroNext g).1 with
  | ok b => exact .inl ⟨_, random_ok h, hf _ _ (next_lt g) h⟩
  | error e => exact .inr ⟨e, random_err h⟩

theorem random_total (f : BitsFn) (hf : GoodBits f) (ht : Total f) (g : Rng) :
    ∃ r, random f g = .ok (r, advance 1 g) ∧ RandVal r := by
  obtain ⟨b, hb⟩ := ht _ (next_lt g)
  exact ⟨_, random_ok hb, hf _ _ (next_lt g) hb⟩

/-- preconditions of `RandomRange(min, max)`: `int` arguments, `min ≤ max`, and `max - min + 1`
does not overflow -/
structure RangePre (min max : Int) : Prop where
  lo : intMin ≤ min
  hi : max ≤ intMax
  le : min ≤ max
  span : max - min + 1 ≤ intMax

theorem randomRange_cases (f : BitsFn) (hf : GoodBits f) (min max : Int) (hp : RangePre min max) (g : Rng) :
    (∃ v, randomRange f min max g = .ok (v, advance 1 g) ∧ min ≤ v ∧ v ≤ max) ∨
    (∃ e, randomRange f min max g = .error e) := by
  rcases random_cases f hf g with ⟨r, h, hr⟩ | ⟨e, h⟩
  · obtain ⟨v, hv, h1, h2⟩ := rangeOf_spec r hr min max hp.lo hp.hi hp.le hp.span
    exact .inl ⟨v, by simp [randomRange, bind, Except.bind, h, hv, pure, Except.pure], h1, h2⟩
  · exact .inr ⟨e, by simp [randomRange, bind, Except.bind, h]⟩

/-! ### `RandomRangeNonUniform` -/

theorem intOr_nonneg {a b : Int} (ha : 0 ≤ a) (ha' : a ≤ intMax) (hb : 0 ≤ b) (hb' : b ≤ intMax) :
    0 ≤ intOr a b ∧ intOr a b ≤ intMax := by
  unfold intMax at *
  have hA : (a % 2 ^ 32).toNat < 2 ^ 31 := by omega
  have hB : (b % 2 ^ 32).toNat < 2 ^ 31 := by omega
  have := Nat.or_lt_two_pow hA hB
  unfold intOr
  simp only
  split <;> omega

theorem intOr_range (a b : Int) : intMin ≤ intOr a b ∧ intOr a b ≤ intMax := by
  unfold intMax intMin
  have hA : (a % 2 ^ 32).toNat < 2 ^ 32 := by omega
  have hB : (b % 2 ^ 32).toNat < 2 ^ 32 := by omega
  have := Nat.or_lt_two_pow hA hB
  unfold intOr
  simp only
  split <;> omega

theorem intMod_pos (w n : Int) (hn : 1 ≤ n) : intMod w n = .ok (Int.tmod w n) := by
  unfold intMod
  have h1 : ¬ n = 0 := by omega
  have h2 : ¬ (w = intMin ∧ n = -1) := by omega
  simp [h1, h2]

/-- pinned tree: in range when both draws are non-negative (`0 ≤ min`) -/
theorem nonUniformOf_spec (a b min max : Int) (ha : 0 ≤ a) (ha' : a ≤ intMax) (hb : 0 ≤ b)
    (hb' : b ≤ intMax) (hp : RangePre min max) :
    ∃ v, nonUniformOf a b min max = .ok v ∧ min ≤ v ∧ v ≤ max := by
  obtain ⟨lo, hi, le, span⟩ := hp
  obtain ⟨o1, o2⟩ := intOr_nonneg ha ha' hb hb'
  unfold intMin intMax at *
  have h1 : ckInt (max - min) = .ok (max - min) := ckInt_ok (by unfold intMin; omega) (by unfold intMax; omega)
  have h2 : ckInt (max - min + 1) = .ok (max - min + 1) := ckInt_ok (by unfold intMin; omega) (by unfold intMax; omega)
  have h3 := intMod_pos (intOr a b) (max - min + 1) (by omega)
  have t1 := Int.tmod_nonneg (max - min + 1) o1
  have t2 := Int.tmod_lt_of_pos (intOr a b) (show 0 < max - min + 1 by omega)
  have h4 : ckInt ((intOr a b).tmod (max - min + 1) + min) = .ok ((intOr a b).tmod (max - min + 1) + min) :=
    ckInt_ok (by unfold intMin; omega) (by unfold intMax; omega)
  refine ⟨(intOr a b).tmod (max - min + 1) + min, ?_, by omega, by omega⟩
  simp only [nonUniformOf, bind, Except.bind, h1, h2, h3, h4]

/-- patched tree: in range for all `int` draws -/
theorem nonUniformOfFixed_spec (a b min max : Int) (hp : RangePre min max) :
    ∃ v, nonUniformOfFixed a b min max = .ok v ∧ min ≤ v ∧ v ≤ max := by
  obtain ⟨lo, hi, le, span⟩ := hp
  obtain ⟨o1, o2⟩ := intOr_range a b
  unfold intMin intMax at *
  have h1 : ckInt (max - min) = .ok (max - min) := ckInt_ok (by unfold intMin; omega) (by unfold intMax; omega)
  have h2 : ckInt (max - min + 1) = .ok (max - min + 1) := ckInt_ok (by unfold intMin; omega) (by unfold intMax; omega)
  have h3 := intMod_pos (intOr a b) (max - min + 1) (by omega)
  have t1 := Int.lt_tmod_of_pos (intOr a b) (show 0 < max - min + 1 by omega)
  have t2 := Int.tmod_lt_of_pos (intOr a b) (show 0 < max - min + 1 by omega)
  by_cases hneg : (intOr a b).tmod (max - min + 1) < 0
  · have h5 : ckInt ((intOr a b).tmod (max - min + 1) + (max - min + 1)) =
        .ok ((intOr a b).tmod (max - min + 1) + (max - min + 1)) :=
      ckInt_ok (by unfold intMin; omega) (by unfold intMax; omega)
    have h4 : ckInt ((intOr a b).tmod (max - min + 1) + (max - min + 1) + min) =
        .ok ((intOr a b).tmod (max - min + 1) + (max - min + 1) + min) :=
      ckInt_ok (by unfold intMin; omega) (by unfold intMax; omega)
    refine ⟨(intOr a b).tmod (max - min + 1) + (max - min + 1) + min, ?_, by omega, by omega⟩
    simp only [nonUniformOfFixed, bind, Except.bind, h1, h2, h3, hneg, if_true, h5, h4]
  · have h4 : ckInt ((intOr a b).tmod (max - min + 1) + min) = .ok ((intOr a b).tmod (max - min + 1) + min) :=
      ckInt_ok (by unfold intMin; omega) (by unfold intMax; omega)
    refine ⟨(intOr a b).tmod (max - min + 1) + min, ?_, by omega, by omega⟩
    simp only [nonUniformOfFixed, bind, Except.bind, h1, h2, h3, hneg, if_false, pure, Except.pure, h4]

/-- what the theorem needs of the combining function -/
def CombOk (comb : Int → Int → Int → Int → Except UB Int) (x min max : Int) : Prop :=
  ∀ a b, 0 ≤ a → a ≤ x → min ≤ b → b ≤ max → ∃ v, comb a b min max = .ok v ∧ min ≤ v ∧ v ≤ max

theorem combOk_pinned (x min max : Int) (hx : RangePre 0 x) (hp : RangePre min max) (h0 : 0 ≤ min) :
    CombOk nonUniformOf x min max := by
  intro a b ha ha' hb hb'
  have := hx.hi
  have := hp.hi
  exact nonUniformOf_spec a b min max ha (by omega) (by omega) (by omega) hp

theorem combOk_fixed (x min max : Int) (hp : RangePre min max) : CombOk nonUniformOfFixed x min max := by
  intro a b _ _ _ _
  exact nonUniformOfFixed_spec a b min max hp

theorem randomRangeNonUniform_cases (f : BitsFn) (hf : GoodBits f)
    (comb : Int → Int → Int → Int → Except UB Int) (leftFirst : Bool) (x min max : Int)
    (hx : RangePre 0 x) (hp : RangePre min max) (hc : CombOk comb x min max) (g : Rng) :
    (∃ v, randomRangeNonUniform f comb leftFirst x min max g = .ok (v, advance 2 g) ∧ min ≤ v ∧ v ≤ max) ∨
    (∃ e, randomRangeNonUniform f comb leftFirst x min max g = .error e) := by
  cases leftFirst with
  | true =>
    rcases randomRange_cases f hf 0 x hx g with ⟨a, ha, a1, a2⟩ | ⟨e, he⟩
    · rcases randomRange_cases f hf min max hp (advance 1 g) with ⟨b, hb, b1, b2⟩ | ⟨e, he⟩
      · obtain ⟨v, hv, v1, v2⟩ := hc a b a1 a2 b1 b2
        simp only [advance] at ha hb
        exact .inl ⟨v, by simp [randomRangeNonUniform, bind, Except.bind, ha, hb, hv, pure, Except.pure, advance], v1, v2⟩
      · exact .inr ⟨e, by simp [randomRangeNonUniform, bind, Except.bind, ha, he]⟩
    · exact .inr ⟨e, by simp [randomRangeNonUniform, bind, Except.bind, he]⟩
  | false =>
    rcases randomRange_cases f hf min max hp g with ⟨b, hb, b1, b2⟩ | ⟨e, he⟩
    · rcases randomRange_cases f hf 0 x hx (advance 1 g) with ⟨a, ha, a1, a2⟩ | ⟨e, he⟩
      · obtain ⟨v, hv, v1, v2⟩ := hc a b a1 a2 b1 b2
        simp only [advance] at ha hb
        exact .inl ⟨v, by simp [randomRangeNonUniform, bind, Except.bind, ha, hb, hv, pure, Except.pure, advance], v1, v2⟩
      · exact .inr ⟨e, by simp [randomRangeNonUniform, bind, Except.bind, hb, he]⟩
    · exact .inr ⟨e, by simp [randomRangeNonUniform, bind, Except.bind, he]⟩

/-- a call that cannot fail in its draws does not fail at all -/
theorem no_error_of_total {α : Type} {x : Except UB α} (h : ∀ e, x ≠ .error e) : ∃ a, x = .ok a := by
  cases x with
  | ok a => exact ⟨a, rfl⟩
  | error e => exact absurd rfl (h e)

/-! ### `1 - Random()`, products of such, `Poisson`, `Gamma(ia < 6)` -/

/-- a finite value in `[2^-j, 1]`, written at a scale `s ≤ smax` -/
def UnitVal (j smax : Nat) (v : FVal) : Prop :=
  ∃ m s : Nat, v = .fin (m : Int) s ∧ s ≤ smax ∧ m ≤ 2 ^ s ∧ 2 ^ s ≤ m * 2 ^ j

theorem roundFin_nat (m s : Nat) (h : ¬ rneNat m s ≥ 2 ^ (1024 + s)) :
    roundFin (m : Int) s = .fin ((rneNat m s : Nat) : Int) s := by
  have hneg : ¬ ((m : Int) < 0) := by omega
  simp only [roundFin, Int.natAbs_natCast, h, hneg, if_false]

/-- rounding keeps a value in `[2^-j, 1]` there (scale `≤ 1074`) -/
theorem roundFin_unit (m s j : Nat) (hs : s ≤ 1074) (h1 : m ≤ 2 ^ s) (h2 : 2 ^ s ≤ m * 2 ^ j) :
    ∃ a : Nat, roundFin (m : Int) s = .fin (a : Int) s ∧ a ≤ 2 ^ s ∧ 2 ^ s ≤ a * 2 ^ j := by
  have u := rneNat_le_one m s hs h1
  have l := rneNat_ge_pow m s j hs h2
  have hno : ¬ rneNat m s ≥ 2 ^ (1024 + s) := by
    have : 2 ^ s < 2 ^ (1024 + s) := Nat.pow_lt_pow_right (by omega) (by omega)
    omega
  exact ⟨rneNat m s, roundFin_nat m s hno, u, l⟩

theorem not_one_ge_pow (k : Nat) (hk : k ≠ 0) : ¬ 1 ≥ 2 ^ k :=
  Nat.not_le.mpr (Nat.one_lt_two_pow hk)

theorem oneMinus_unit (r : FVal) (hr : RandVal r) : UnitVal 53 116 (oneMinus r) := by
  cases hr with
  | zero =>
    obtain ⟨a, ha, a1, a2⟩ := roundFin_unit 1 (0 + 0) 53 (by omega) (by simp) (by simp)
    refine ⟨a, 0 + 0, ?_, by omega, a1, a2⟩
    have hexact : ((1 : Int) * 2 ^ 0 - (0 : Int) * 2 ^ 0) = ((1 : Nat) : Int) := by decide
    simp only [oneMinus, FVal.sub, FVal.one]
    rw [hexact]
    exact ha
  | pos M s h52 h53 hs53 hs116 =>
    have hpow : 2 ^ 53 ≤ 2 ^ s := Nat.pow_le_pow_right (by omega) hs53
    have hexact : ((1 : Int) * 2 ^ s - (M : Int) * 2 ^ 0) = ((2 ^ s - M : Nat) : Int) := by
      have : M ≤ 2 ^ s := by omega
      rw [Int.ofNat_sub this]
      simp
    -- (2^s - M) * 2^53 ≥ 2^s
    have hlow : 2 ^ s ≤ (2 ^ s - M) * 2 ^ 53 := by
      have hsplit : 2 ^ s = 2 ^ (s - 53) * 2 ^ 53 := by
        rw [← Nat.pow_add]; congr 1; omega
      have hP : 1 ≤ 2 ^ (s - 53) := Nat.one_le_two_pow
      have h1 : 2 ^ (s - 53) ≤ 2 ^ s - M := by
        -- P * B - M ≥ P  since  P * (B - 1) ≥ B - 1 ≥ M
        have h2 : 2 ^ 53 - 1 ≤ 2 ^ (s - 53) * (2 ^ 53 - 1) := Nat.le_mul_of_pos_left _ (by omega)
        have h3 : 2 ^ (s - 53) * (2 ^ 53 - 1) + 2 ^ (s - 53) = 2 ^ s := by
          rw [hsplit, Nat.mul_sub, Nat.mul_one]
          have : 2 ^ (s - 53) ≤ 2 ^ (s - 53) * 2 ^ 53 := Nat.le_mul_of_pos_right _ (by omega)
          omega
        omega
      calc 2 ^ s = 2 ^ (s - 53) * 2 ^ 53 := hsplit
        _ ≤ (2 ^ s - M) * 2 ^ 53 := Nat.mul_le_mul_right _ h1
    obtain ⟨a, ha, a1, a2⟩ := roundFin_unit (2 ^ s - M) (0 + s) 53 (by omega)
      (by rw [Nat.zero_add]; omega) (by rw [Nat.zero_add]; exact hlow)
    refine ⟨a, 0 + s, ?_, by omega, a1, a2⟩
    simp only [oneMinus, FVal.sub, FVal.one]
    rw [hexact]
    exact ha

theorem mul_unit (x f : FVal) (i j S1 S2 : Nat) (hx : UnitVal i S1 x) (hf : UnitVal j S2 f)
    (hS : S1 + S2 ≤ 1074) : UnitVal (i + j) (S1 + S2) (FVal.mul x f) := by
  obtain ⟨mx, sx, rfl, hsx, x1, x2⟩ := hx
  obtain ⟨mf, sf, rfl, hsf, f1, f2⟩ := hf
  have h1 : mx * mf ≤ 2 ^ (sx + sf) := by
    rw [Nat.pow_add]; exact Nat.mul_le_mul x1 f1
  have h2 : 2 ^ (sx + sf) ≤ mx * mf * 2 ^ (i + j) := by
    have := Nat.mul_le_mul x2 f2
    rw [Nat.pow_add, Nat.pow_add]
    calc 2 ^ sx * 2 ^ sf ≤ mx * 2 ^ i * (mf * 2 ^ j) := this
      _ = mx * mf * (2 ^ i * 2 ^ j) := by
        simp only [Nat.mul_assoc, Nat.mul_left_comm]
  obtain ⟨a, ha, a1, a2⟩ := roundFin_unit (mx * mf) (sx + sf) (i + j) (by omega) h1 h2
  refine ⟨a, sx + sf, ?_, by omega, a1, a2⟩
  simp only [FVal.mul]
  have : (mx : Int) * (mf : Int) = ((mx * mf : Nat) : Int) := by simp
  rw [this]
  exact ha

theorem unitVal_one : UnitVal 0 0 FVal.one := ⟨1, 0, rfl, by omega, by simp, by simp⟩

theorem unitVal_mono {i j S T : Nat} {v : FVal} (h : UnitVal i S v) (hij : i ≤ j) (hST : S ≤ T) :
    UnitVal j T v := by
  obtain ⟨m, s, rfl, hs, h1, h2⟩ := h
  refine ⟨m, s, rfl, by omega, h1, Nat.le_trans h2 (Nat.mul_le_mul_left _ (Nat.pow_le_pow_right (by omega) hij))⟩

/-- the `while(ia--) x *= 1 - Random();` loop: `ia` raw draws, `x` stays in `[2^-(i+53 ia), 1]` -/
theorem gammaLoop_cases (f : BitsFn) (hf : GoodBits f) (ia : Nat) (x : FVal) (i S : Nat)
    (hx : UnitVal i S x) (hS : S + 116 * ia ≤ 1074) (g : Rng) :
    (∃ x', gammaLoop f ia x g = .ok (x', advance ia g) ∧ UnitVal (i + 53 * ia) (S + 116 * ia) x') ∨
    (∃ e, gammaLoop f ia x g = .error e) := by
  induction ia generalizing x i S g with
  | zero => exact .inl ⟨x, rfl, by simpa using hx⟩
  | succ ia ih =>
    rcases random_cases f hf g with ⟨r, h, hr⟩ | ⟨e, h⟩
    · have hm := mul_unit x (oneMinus r) i 53 S 116 hx (oneMinus_unit r hr) (by omega)
      rcases ih (FVal.mul x (oneMinus r)) (i + 53) (S + 116) hm (by omega) (advance 1 g) with
        ⟨x', h', hu⟩ | ⟨e, h'⟩
      · refine .inl ⟨x', ?_, ?_⟩
        · simp only [advance] at h h'
          simp [gammaLoop, bind, Except.bind, h, h', advance]
        · have e1 : i + 53 + 53 * ia = i + 53 * (ia + 1) := by omega
          have e2 : S + 116 + 116 * ia = S + 116 * (ia + 1) := by omega
          rw [e1, e2] at hu; exact hu
      · refine .inr ⟨e, ?_⟩
        simp only [advance] at h h'
        simp [gammaLoop, bind, Except.bind, h, h']
    · exact .inr ⟨e, by simp [gammaLoop, bind, Except.bind, h]⟩

/-- finite, `0 ≤ v ≤ k` -/
def FinBetween0 (k : Nat) (v : FVal) : Prop :=
  ∃ (a : Int) (t : Nat), v = .fin a t ∧ 0 ≤ a ∧ a ≤ (k : Int) * 2 ^ t

theorem neg_log_unit (L : Libm) (hL : LibmLaws L) (x : FVal) (j S : Nat) (hx : UnitVal j S x) :
    FinBetween0 j (FVal.neg (L.log x)) := by
  obtain ⟨m, s, rfl, _, h1, h2⟩ := hx
  obtain ⟨a, t, hlog, a1, a2⟩ := hL.log_unit m s j h1 h2
  refine ⟨-a, t, by rw [hlog]; rfl, by omega, by omega⟩

theorem poisson_cases (f : BitsFn) (hf : GoodBits f) (L : Libm) (hL : LibmLaws L) (g : Rng) :
    (∃ v, poisson f L g = .ok (v, advance 1 g) ∧ FinBetween0 53 v) ∨ (∃ e, poisson f L g = .error e) := by
  rcases random_cases f hf g with ⟨r, h, hr⟩ | ⟨e, h⟩
  · refine .inl ⟨_, ?_, neg_log_unit L hL _ 53 116 (oneMinus_unit r hr)⟩
    simp [poisson, bind, Except.bind, h, pure, Except.pure]
  · exact .inr ⟨e, by simp [poisson, bind, Except.bind, h]⟩

theorem gammaSmall_cases (f : BitsFn) (hf : GoodBits f) (L : Libm) (hL : LibmLaws L) (ia : Nat)
    (hia : ia < 6) (g : Rng) :
    (∃ v, gammaSmall f L ia g = some (.ok (v, advance ia g)) ∧ FinBetween0 (53 * ia) v) ∨
    (∃ e, gammaSmall f L ia g = some (.error e)) := by
  rcases gammaLoop_cases f hf ia FVal.one 0 0 unitVal_one (by omega) g with ⟨x, h, hu⟩ | ⟨e, h⟩
  · refine .inl ⟨_, ?_, neg_log_unit L hL x _ _ (by simpa using hu)⟩
    simp [gammaSmall, hia, bind, Except.bind, h, pure, Except.pure]
  · exact .inr ⟨e, by simp [gammaSmall, hia, bind, Except.bind, h]⟩

/-- `mean * p` is finite and non-negative for `0 ≤ mean ≤ 2^1000`, `0 ≤ p ≤ 53` -/
theorem mul_finNonneg (mm : Nat) (sm : Nat) (hmean : mm ≤ 2 ^ 1000 * 2 ^ sm) (p : FVal)
    (hp : FinBetween0 53 p) : FVal.FinNonneg (FVal.mul (.fin (mm : Int) sm) p) := by
  obtain ⟨a, t, rfl, a1, a2⟩ := hp
  obtain ⟨q, rfl⟩ := Int.eq_ofNat_of_zero_le a1
  have hq : q ≤ 53 * 2 ^ t := by
    have : ((q : Nat) : Int) ≤ ((53 * 2 ^ t : Nat) : Int) := by simpa using a2
    exact Int.ofNat_le.mp this
  have hprod : mm * q ≤ 1 * 2 ^ (1006 + (sm + t)) := by
    have h64 : q ≤ 2 ^ 6 * 2 ^ t := by omega
    have := Nat.mul_le_mul hmean h64
    calc mm * q ≤ 2 ^ 1000 * 2 ^ sm * (2 ^ 6 * 2 ^ t) := this
      _ = 1 * 2 ^ (1006 + (sm + t)) := by
        simp only [← Nat.pow_add, Nat.one_mul]
        congr 1; omega
  have hlt : mm * q < 2 ^ (53 + (1006 + (sm + t))) := by
    have : 2 ^ (1006 + (sm + t)) < 2 ^ (53 + (1006 + (sm + t))) := Nat.pow_lt_pow_right (by omega) (by omega)
    omega
  have hle := rneNat_le_repr (mm * q) (sm + t) 1 (1006 + (sm + t)) (by omega) hprod hlt
  have hno : ¬ rneNat (mm * q) (sm + t) ≥ 2 ^ (1024 + (sm + t)) := by
    have : 2 ^ (1006 + (sm + t)) < 2 ^ (1024 + (sm + t)) := Nat.pow_lt_pow_right (by omega) (by omega)
    omega
  simp only [FVal.mul]
  have : (mm : Int) * (q : Int) = ((mm * q : Nat) : Int) := by simp
  rw [this, roundFin_nat _ _ hno]
  simp [FVal.FinNonneg]

/-! ### `Zipf` -/

theorem toUInt32_nat (k : Nat) (hk : k < 2 ^ 32) : toUInt32 (.fin (k : Int) 0) = .ok k := by
  unfold toUInt32
  simp only
  have : Int.tdiv (k : Int) (2 ^ 0) = (k : Int) := by simp
  rw [this]
  have h1 : (0 : Int) ≤ (k : Int) := by omega
  have h2 : (k : Int) ≤ 4294967295 := by omega
  simp [h1, h2]

/-- `x = floor(pow(Random(), ex))` for finite `ex < 0`: `+inf`, or an integer `≥ 1` -/
theorem zipf_x (L : Libm) (hL : LibmLaws L) (r : FVal) (hr : RandVal r) (e : Int) (t : Nat) (he : e < 0) :
    (L.pow r (.fin e t)).floor = .inf false ∨
    ∃ k : Nat, (L.pow r (.fin e t)).floor = .fin (k : Int) 0 ∧ 1 ≤ k := by
  cases hr with
  | zero =>
    left
    rw [hL.pow_zero_neg 0 e t he]; rfl
  | pos M s h52 h53 hs53 hs116 =>
    have hpow : 2 ^ 53 ≤ 2 ^ s := Nat.pow_le_pow_right (by omega) hs53
    rcases hL.pow_unit_neg M s e t (by omega) (by omega) he with h | ⟨a, u, h, ha⟩
    · left; rw [h]; rfl
    · right
      refine ⟨a / 2 ^ u, ?_, ?_⟩
      · rw [h]; simp only [FVal.floor]; congr 1
      · rw [Nat.le_div_iff_mul_le (Nat.two_pow_pos _)]; omega

theorem zipfIter_cases (f : BitsFn) (hf : GoodBits f) (L : Libm) (hL : LibmLaws L) (e : Int) (t : Nat)
    (he : e < 0) (accept : FVal → FVal → Bool) (limit : Nat) (hlim : limit < 2 ^ 32) (g : Rng) :
    (∃ o d, zipfIter f L (.fin e t) accept limit g = .ok (o, advance d g) ∧ 1 ≤ d ∧ d ≤ 2 ∧
        ∀ k, o = some k → 1 ≤ k ∧ k ≤ limit) ∨
    (∃ err, zipfIter f L (.fin e t) accept limit g = .error err) := by
  rcases random_cases f hf g with ⟨r1, h1, hr1⟩ | ⟨err, h1⟩
  · rcases zipf_x L hL r1 hr1 e t he with hx | ⟨k, hx, hk⟩
    · refine .inl ⟨none, 1, ?_, by omega, by omega, by intro k h; cases h⟩
      simp [zipfIter, bind, Except.bind, h1, hx, FVal.gt, FVal.ofInt, pure, Except.pure]
    · by_cases hgt : FVal.gt (.fin (k : Int) 0) (FVal.ofInt (limit : Int)) = true
      · refine .inl ⟨none, 1, ?_, by omega, by omega, by intro k h; cases h⟩
        simp [zipfIter, bind, Except.bind, h1, hx, hgt, pure, Except.pure]
      · have hkl : k ≤ limit := by
          simp [FVal.gt, FVal.ofInt] at hgt
          omega
        rcases random_cases f hf (advance 1 g) with ⟨r2, h2, _⟩ | ⟨err, h2⟩
        · simp only [advance] at h1 h2
          by_cases hacc : accept r2 (.fin (k : Int) 0) = true
          · refine .inl ⟨some k, 2, ?_, by omega, by omega, ?_⟩
            · simp [zipfIter, bind, Except.bind, h1, hx, hgt, h2, hacc, toUInt32_nat k (by omega), pure,
                Except.pure, advance]
            · intro k' h; injection h with h; omega
          · refine .inl ⟨none, 2, ?_, by omega, by omega, by intro k h; cases h⟩
            simp [zipfIter, bind, Except.bind, h1, hx, hgt, h2, hacc, pure, Except.pure, advance]
        · refine .inr ⟨err, ?_⟩
          simp only [advance] at h1 h2
          simp [zipfIter, bind, Except.bind, h1, hx, hgt, h2]
  · exact .inr ⟨err, by simp [zipfIter, bind, Except.bind, h1]⟩

theorem advance_add (a b : Nat) (g : Rng) : advance b (advance a g) = advance (a + b) g := by
  induction a generalizing g with
  | zero => simp [advance]
  | succ a ih =>
    have : a + 1 + b = (a + b) + 1 := by omega
    rw [this]
    simp only [advance]
    exact ih _

theorem zipf_cases (f : BitsFn) (hf : GoodBits f) (L : Libm) (hL : LibmLaws L) (e : Int) (t : Nat)
    (he : e < 0) (accept : FVal → FVal → Bool) (limit : Nat) (hlim : limit < 2 ^ 32) (fuel : Nat) (g : Rng) :
    (∃ o d, zipf f L (.fin e t) accept limit fuel g = .ok (o, advance d g) ∧ d ≤ 2 * fuel ∧
        ∀ k, o = some k → 1 ≤ k ∧ k ≤ limit) ∨
    (∃ err, zipf f L (.fin e t) accept limit fuel g = .error err) := by
  induction fuel generalizing g with
  | zero => exact .inl ⟨none, 0, rfl, by omega, by intro k h; cases h⟩
  | succ fuel ih =>
    rcases zipfIter_cases f hf L hL e t he accept limit hlim g with ⟨o, d, h, d1, d2, hk⟩ | ⟨err, h⟩
    · cases o with
      | some k =>
        refine .inl ⟨some k, d, ?_, by omega, hk⟩
        simp [zipf, bind, Except.bind, h, pure, Except.pure]
      | none =>
        rcases ih (advance d g) with ⟨o', d', h', hd', hk'⟩ | ⟨err, h'⟩
        · refine .inl ⟨o', d + d', ?_, by omega, hk'⟩
          rw [advance_add] at h'
          simp [zipf, bind, Except.bind, h, h']
        · exact .inr ⟨err, by simp [zipf, bind, Except.bind, h, h']⟩
    · exact .inr ⟨err, by simp [zipf, bind, Except.bind, h]⟩

/-! ### several LPs -/

theorem callAs_other {α : Type} (f : Rng → Except UB (α × Rng)) (i : Nat) (w : World) (a : α) (w' : World)
    (h : callAs f i w = .ok (a, w')) : ∀ j, j ≠ i → w' j = w j := by
  intro j hj
  unfold callAs at h
  split at h
  · injection h with h
    injection h with _ h
    subst h
    simp [hj]
  · cases h

theorem callAs_self {α : Type} (f : Rng → Except UB (α × Rng)) (i : Nat) (w : World) (a : α) (w' : World)
    (h : callAs f i w = .ok (a, w')) : f (w i) = .ok (a, w' i) := by
  unfold callAs at h
  split at h
  · rename_i a' g' hf
    injection h with h
    injection h with h1 h2
    subst h1; subst h2
    simp [hf]
  · cases h

/-- the result of a call depends on the caller's generator only -/
theorem callAs_congr {α : Type} (f : Rng → Except UB (α × Rng)) (i : Nat) (w1 w2 : World)
    (h : w1 i = w2 i) : (callAs f i w1).map Prod.fst = (callAs f i w2).map Prod.fst := by
  unfold callAs
  rw [h]
  cases f (w2 i) with
  | ok p => rfl
  | error e => rfl

/-! ### `[0, 1)` -/

/-- finite and in `[0, 1)` -/
def InUnitHalfOpen (v : FVal) : Prop := ∃ (m : Int) (s : Nat), v = .fin m s ∧ 0 ≤ m ∧ m < 2 ^ s

theorem inUnit_of_randVal {v : FVal} (h : RandVal v) : InUnitHalfOpen v := by
  cases h with
  | zero => exact ⟨0, 0, rfl, by omega, by decide⟩
  | pos M s h52 h53 hs53 _ =>
    have hs : 2 ^ 53 ≤ 2 ^ s := Nat.pow_le_pow_right (by omega) hs53
    refine ⟨_, _, rfl, by omega, ?_⟩
    have : M < 2 ^ s := by omega
    exact_mod_cast this

end RootSim.Rand
