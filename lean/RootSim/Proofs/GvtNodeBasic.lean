import RootSim.Model.GvtNode
/-! Generic list / pair lemmas for the node-level GVT counting proof. -/
namespace RootSim.GvtNode

@[simp] theorem Two.get_set_same {α} (p : Two α) (b : Bool) (x : α) : (p.set b x).get b = x := by
  cases b <;> simp [Two.get, Two.set]

@[simp] theorem Two.get_set_not {α} (p : Two α) (b : Bool) (x : α) : (p.set (!b) x).get b = p.get b := by
  cases b <;> simp [Two.get, Two.set]

@[simp] theorem Two.get_not_set {α} (p : Two α) (b : Bool) (x : α) : (p.set b x).get (!b) = p.get (!b) := by
  cases b <;> simp [Two.get, Two.set]

theorem Two.get_set_ne {α} (p : Two α) (b c : Bool) (x : α) (h : c ≠ b) : (p.set b x).get c = p.get c := by
  cases b <;> cases c <;> simp_all [Two.get, Two.set]

/-- replacing element `i` of a list: the sum changes by the difference -/
theorem sumBy_set {α} (f : α → Nat) (l : List α) (i : Nat) (a b : α) (h : l[i]? = some a) :
    sumBy f (l.set i b) + f a = sumBy f l + f b := by
  induction l generalizing i with
  | nil => simp at h
  | cons x l ih =>
    cases i with
    | zero => simp at h; subst h; simp [sumBy]; omega
    | succ i => simp at h; have := ih i h; simp [sumBy]; omega

theorem sumBy_set_same {α} (f : α → Nat) (l : List α) (i : Nat) (a b : α) (h : l[i]? = some a)
    (hf : f b = f a) : sumBy f (l.set i b) = sumBy f l := by
  have := sumBy_set f l i a b h; omega

theorem sumBy_congr {α} (f g : α → Nat) (l : List α) (h : ∀ a ∈ l, f a = g a) : sumBy f l = sumBy g l := by
  induction l with
  | nil => rfl
  | cons x l ih => simp [sumBy, h x (by simp), ih (fun a ha => h a (by simp [ha]))]

theorem sumBy_zero {α} (f : α → Nat) (l : List α) (h : ∀ a ∈ l, f a = 0) : sumBy f l = 0 := by
  induction l with
  | nil => rfl
  | cons x l ih => simp [sumBy, h x (by simp), ih (fun a ha => h a (by simp [ha]))]

theorem sumBy_eq_zero {α} (f : α → Nat) (l : List α) (h : sumBy f l = 0) : ∀ a ∈ l, f a = 0 := by
  induction l with
  | nil => simp
  | cons x l ih =>
    simp [sumBy] at h
    intro a ha
    rcases List.mem_cons.1 ha with rfl | ha
    · exact h.1
    · exact ih h.2 a ha

/-- replacing element `i` of a list: `countP` changes by the difference -/
theorem countP_set' {α} (p : α → Bool) (l : List α) (i : Nat) (a b : α) (h : l[i]? = some a) :
    List.countP p (l.set i b) + (if p a then 1 else 0) = List.countP p l + (if p b then 1 else 0) := by
  induction l generalizing i with
  | nil => simp at h
  | cons x l ih =>
    cases i with
    | zero => simp at h; subst h; simp [List.countP_cons]; omega
    | succ i => simp at h; have := ih i h; simp [List.countP_cons]; omega

end RootSim.GvtNode
