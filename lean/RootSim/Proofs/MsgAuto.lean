import RootSim.Model.MsgAuto
/-!
The reachable state space of the local per-message automaton is finite (70 states). `R` is computed by
breadth-first search; the kernel then *checks* (by evaluation, `decide +kernel`, no `native_decide`) that
`R` contains the initial state, is closed under every action, and that every state in it satisfies the
safety predicate `Good` and the progress predicates. Nothing depends on the search being correct: a
wrong `R` would make `R_facts` fail.
-/
namespace RootSim.MsgAuto

/-- candidate inductive invariant: the set of reachable states -/
def R : List LState :=
  (bfsBy LState.code LState.decode succs 100 [LState.init.code] [LState.init.code]).map LState.decode

def closed (l : List LState) : Bool := closedBy LState.code succs l

/-- progress measure for a cancelled message: strictly decreases with every action -/
def rank (s : LState) : Nat :=
  16 * ((if s.spend then 1 else 0) + (if s.rpend then 1 else 0)) + 12 * s.qc +
  (match s.rpc with | .idle => 0 | .hand => 10 | .proc => 8 | .antiRb => 6 | .antiFree => 1) +
  (if s.inHist then 2 else 0) + (if s.committed then 0 else 1) + (if s.down then 0 else 1) +
  (if s.sref then 1 else 0) + (match s.life with | .fresh => 3 | .packed => 2 | .live => 1 | _ => 0)

/-- is `a` executed by the runtime itself (not a decision of the environment) in state `s`?
`unprocess` is a runtime action while the receiver handles the anti copy (`antiRb`). -/
def isSys (s : LState) (a : LAct) : Bool := !a.isEnv || (a == .unprocess && s.rpc == .antiRb)

/-- Safety facts of the local automaton, part A: memory safety and the queue. -/
def GoodA (s : LState) : Prop :=
  -- (1) no undefined behaviour on the message (use after free, lost `match_anti_msg`, wrong branch)
  s.err = false ∧
  -- (2) never two queue copies at once
  s.qc ≤ 1 ∧
  -- (3) never freed twice
  s.life ≠ .dfreed ∧
  -- (7) a freed buffer is referenced by nothing that can still touch it
  (s.life = .freed → s.qc = 0 ∧ s.inHist = false ∧ s.rpc = .idle ∧ s.spend = false ∧ s.rpend = false ∧
      (s.sref = true → s.committed = true ∨ s.down = true)) ∧
  -- (8) a live buffer is never orphaned (no leak): somebody still holds it
  (s.life = .live → 0 < s.qc ∨ s.inHist = true ∨ s.rpc ≠ .idle ∨ s.spend = true ∨ s.rpend = true) ∧
  -- (9) `match_anti_msg` finds the message
  (s.rpc = .antiRb → s.inHist = true)

/-- part B: the flag word -/
def GoodB (s : LState) : Prop :=
  -- (4) the flag word takes only these values; 5 only while the receiver is rolling back for the anti copy
  (s.flags = 0 ∨ s.flags = 1 ∨ s.flags = 2 ∨ s.flags = 3 ∨ (s.flags = 5 ∧ s.rpc = .antiRb)) ∧
  -- (5) the ANTI bit is set iff the sender has cancelled
  (s.flags % 2 = 1 ↔ s.cancelled = true) ∧
  -- (6) while the receiver is not in the middle of this message (and before shutdown/release), PROCESSED
  --     is set iff the message is in the receiver's history
  ((s.rpc = .idle ∨ s.rpc = .hand) → s.life = .live → s.down = false →
      (s.flags / 2 % 2 = 1 ↔ s.inHist = true))

/-- part C: exactly-once cancellation -/
def GoodC (s : LState) : Prop :=
  -- (10) once the receiver has seen ANTI it never dispatches the message forward again
  s.fwdAfterObs = false ∧ (s.obs = true → s.rpc ≠ .proc) ∧
  -- (11) at most one forward dispatch can follow the cancel (the one whose flag update preceded the cancel)
  s.fwdAfterAnti ≤ 1 ∧
  -- (12) the receiver undoes the message at most once after the cancel, and only if the cancel saw PROCESSED
  s.unpAfter ≤ (if s.cproc then 1 else 0) ∧
  -- (13) released by the anti path: the sender cancelled; exactly one undo iff the cancel saw PROCESSED
  (s.freedBy = .anti → s.cancelled = true ∧ s.unpAfter = (if s.cproc then 1 else 0)) ∧
  -- (16) the sender's reference disappears with the cancel: it cancels at most once
  (s.cancelled = true → s.sref = false)

/-- part D: who releases a message that is never cancelled -/
def GoodD (s : LState) : Prop :=
  -- (14) a message that was never cancelled is released only by fossil collection / shutdown
  (s.life = .freed → s.cancelled = false → s.freedBy = .fossil ∨ s.freedBy = .fini ∨ s.freedBy = .qfini) ∧
  -- (15) fossil collection releases committed (past) messages only
  (s.freedBy = .fossil → s.committed = true)

instance (s : LState) : Decidable (GoodA s) := by unfold GoodA; infer_instance
instance (s : LState) : Decidable (GoodB s) := by unfold GoodB; infer_instance
instance (s : LState) : Decidable (GoodC s) := by unfold GoodC; infer_instance
instance (s : LState) : Decidable (GoodD s) := by unfold GoodD; infer_instance

/-- all safety facts -/
def Good (s : LState) : Prop := GoodA s ∧ GoodB s ∧ GoodC s ∧ GoodD s
instance (s : LState) : Decidable (Good s) := by unfold Good; infer_instance

/-- progress facts (about the outgoing transitions of a state) -/
def Prog (s : LState) : Bool :=
  -- every action from a cancelled state decreases `rank`
  (!s.cancelled || LAct.all.all (fun a => match lstep s a with
      | some s' => decide (rank s' < rank s) | none => true)) &&
  -- a state without enabled action is a released message
  (!(succs s).isEmpty || s.life == .freed) &&
  -- a cancelled, not yet released message always has a runtime (non-environment) action enabled
  (!(s.cancelled && s.life == .live) || LAct.all.any (fun a => isSys s a && (lstep s a).isSome))

set_option maxRecDepth 100000 in
theorem R_facts : (R.contains LState.init && closed R && R.all (fun s => decide (Good s)) && R.all Prog) = true := by
  decide +kernel

theorem LAct.mem_all (a : LAct) : a ∈ LAct.all := by cases a <;> decide

theorem R_init : LState.init ∈ R := by
  have := R_facts
  simp only [Bool.and_eq_true] at this
  exact List.contains_iff_mem.mp this.1.1.1

theorem R_step {s s' : LState} {a : LAct} (hs : s ∈ R) (h : lstep s a = some s') : s' ∈ R := by
  have := R_facts
  simp only [Bool.and_eq_true] at this
  have hc := this.1.1.2
  have hm : s' ∈ succs s := by
    unfold succs
    rw [List.mem_filterMap]
    exact ⟨a, LAct.mem_all a, h⟩
  exact closedBy_spec hc hs hm

theorem R_run {s s' : LState} (acts : List LAct) (hs : s ∈ R) (h : lrun s acts = some s') : s' ∈ R := by
  induction acts generalizing s with
  | nil => simp [lrun] at h; subst h; exact hs
  | cons a as ih =>
    simp only [lrun] at h
    split at h
    · rename_i s1 h1; exact ih (R_step hs h1) h
    · simp at h

theorem R_good {s : LState} (hs : s ∈ R) : Good s := by
  have := R_facts
  simp only [Bool.and_eq_true] at this
  exact of_decide_eq_true ((List.all_eq_true.mp this.1.2) s hs)

theorem R_prog {s : LState} (hs : s ∈ R) : Prog s = true := by
  have := R_facts
  simp only [Bool.and_eq_true] at this
  exact (List.all_eq_true.mp this.2) s hs

end RootSim.MsgAuto
