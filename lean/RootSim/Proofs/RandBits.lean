import RootSim.Model.Rand
/-!
Helper lemmas for `randomBits` / `randomBitsFixed` (`Random()` of random.c):
the bit pattern as exponent field · 2^52 + mantissa field, for every raw output.
-/
namespace RootSim.Rand
open RootSim.Float

/-- The 52 bits of `u` below its leading one (position `L = log2 u`), zero-filled on the right
when `u` has fewer than 53 bits, truncated when it has more. -/
def mantOf (u : Nat) : Nat :=
  let L := Nat.log2 u
  let t := u - 2 ^ L
  if L ≤ 52 then t * 2 ^ (52 - L) else t / 2 ^ (L - 52)

theorem log2_lt_64 {u : Nat} (h0 : u ≠ 0) (h : u < 2 ^ 64) : Nat.log2 u < 64 :=
  (Nat.log2_lt h0).2 h

theorem log2_pos {u : Nat} (h : 2 ≤ u) : 1 ≤ Nat.log2 u := by
  have h0 : u ≠ 0 := by omega
  rcases Nat.lt_or_ge (Nat.log2 u) 1 with h1 | h1
  · have := (Nat.log2_lt h0).1 h1
    omega
  · exact h1

theorem tail_lt {u : Nat} (h0 : u ≠ 0) : u - 2 ^ Nat.log2 u < 2 ^ Nat.log2 u := by
  have h1 := Nat.log2_self_le h0
  have h2 : u < 2 ^ (Nat.log2 u + 1) := Nat.lt_log2_self
  rw [Nat.pow_succ] at h2
  omega

theorem mantOf_lt {u : Nat} (h0 : u ≠ 0) : mantOf u < 2 ^ 52 := by
  have ht := tail_lt h0
  unfold mantOf
  simp only
  split
  · rename_i hL
    have : 2 ^ Nat.log2 u * 2 ^ (52 - Nat.log2 u) = 2 ^ 52 := by
      rw [← Nat.pow_add]; congr 1; omega
    calc (u - 2 ^ Nat.log2 u) * 2 ^ (52 - Nat.log2 u)
        < 2 ^ Nat.log2 u * 2 ^ (52 - Nat.log2 u) :=
          Nat.mul_lt_mul_of_pos_right ht (Nat.two_pow_pos _)
      _ = 2 ^ 52 := this
  · rename_i hL
    rw [Nat.div_lt_iff_lt_mul (Nat.two_pow_pos _)]
    have : 2 ^ 52 * 2 ^ (Nat.log2 u - 52) = 2 ^ Nat.log2 u := by
      rw [← Nat.pow_add]; congr 1; omega
    omega

/-- `(t * 2^(64-L)) / 2^12` is the mantissa field -/
theorem shifted_tail (t L : Nat) (hL : L ≤ 64) :
    t * 2 ^ (64 - L) / 2 ^ 12 = if L ≤ 52 then t * 2 ^ (52 - L) else t / 2 ^ (L - 52) := by
  split
  · rename_i h
    have : 2 ^ (64 - L) = 2 ^ (52 - L) * 2 ^ 12 := by
      rw [← Nat.pow_add]; congr 1; omega
    rw [this, ← Nat.mul_assoc, Nat.mul_div_cancel _ (Nat.two_pow_pos 12)]
  · rename_i h
    have : 2 ^ 12 = 2 ^ (64 - L) * 2 ^ (L - 52) := by
      rw [← Nat.pow_add]; congr 1; omega
    rw [this, Nat.mul_comm t, Nat.mul_div_mul_left _ _ (Nat.two_pow_pos _)]

theorem shl_aux (t L : Nat) (hL : L ≤ 64) (ht : t < 2 ^ L) :
    ((2 ^ L + t) * 2 ^ (64 - L)) % 2 ^ 64 = t * 2 ^ (64 - L) := by
  have hp : 2 ^ L * 2 ^ (64 - L) = 2 ^ 64 := by
    rw [← Nat.pow_add]; congr 1; omega
  have hlt : t * 2 ^ (64 - L) < 2 ^ 64 := by
    rw [← hp]; exact Nat.mul_lt_mul_of_pos_right ht (Nat.two_pow_pos _)
  rw [Nat.add_mul, hp, Nat.add_mod_left, Nat.mod_eq_of_lt hlt]

/-- `u << (64 - L)` on 64 bits drops exactly the leading one -/
theorem shl_drop_lead {u : Nat} (h0 : u ≠ 0) (h64 : u < 2 ^ 64) :
    (u * 2 ^ (64 - Nat.log2 u)) % 2 ^ 64 = (u - 2 ^ Nat.log2 u) * 2 ^ (64 - Nat.log2 u) := by
  have hL := log2_lt_64 h0 h64
  have h1 := Nat.log2_self_le h0
  have ht := tail_lt h0
  have hu : 2 ^ Nat.log2 u + (u - 2 ^ Nat.log2 u) = u := by omega
  have := shl_aux (u - 2 ^ Nat.log2 u) (Nat.log2 u) (by omega) ht
  rwa [hu] at this

theorem or_field (m e : Nat) (hm : m < 2 ^ 52) : m ||| (e <<< 52) = e * 2 ^ 52 + m := by
  rw [Nat.or_comm, ← Nat.shiftLeft_add_eq_or_of_lt hm, Nat.shiftLeft_eq]

/-- `Random()` on the pinned tree, every raw output `u ≥ 2`. -/
theorem randomBits_eq {u : Nat} (h2 : 2 ≤ u) (h64 : u < 2 ^ 64) :
    randomBits u = .ok ((959 + Nat.log2 u) * 2 ^ 52 + mantOf u) := by
  have h0 : u ≠ 0 := by omega
  have hL := log2_lt_64 h0 h64
  have hL1 := log2_pos h2
  have hm := mantOf_lt h0
  unfold randomBits clz64
  have e1 : 63 - Nat.log2 u + 1 = 64 - Nat.log2 u := by omega
  simp only [h0, if_false, e1]
  rw [if_neg (by omega)]
  simp only [Nat.shiftLeft_eq, Nat.shiftRight_eq_div_pow]
  rw [shl_drop_lead h0 h64, shifted_tail _ _ (by omega)]
  have e2 : 1023 - (64 - Nat.log2 u) = 959 + Nat.log2 u := by omega
  rw [e2]
  have := or_field (mantOf u) (959 + Nat.log2 u) hm
  rw [Nat.shiftLeft_eq] at this
  unfold mantOf at this hm ⊢
  simp only at this hm ⊢
  rw [this]

/-- `Random()` on the patched tree, every raw output `u ≥ 1`. -/
theorem randomBitsFixed_eq {u : Nat} (h1 : 1 ≤ u) (h64 : u < 2 ^ 64) :
    randomBitsFixed u = .ok ((959 + Nat.log2 u) * 2 ^ 52 + mantOf u) := by
  have h0 : u ≠ 0 := by omega
  have hL := log2_lt_64 h0 h64
  have hm := mantOf_lt h0
  have hle := Nat.log2_self_le h0
  unfold randomBitsFixed clz64
  have e1 : 64 - Nat.log2 u - 1 = 63 - Nat.log2 u := by omega
  have e1' : 63 - Nat.log2 u + 1 = 64 - Nat.log2 u := by omega
  simp only [h0, if_false, e1', e1]
  simp only [Nat.shiftLeft_eq, Nat.shiftRight_eq_div_pow]
  -- the first shift does not overflow: u * 2^(63-L) < 2^64
  have hp : 2 ^ (Nat.log2 u + 1) * 2 ^ (63 - Nat.log2 u) = 2 ^ 64 := by
    rw [← Nat.pow_add]; congr 1; omega
  have hlt : u * 2 ^ (63 - Nat.log2 u) < 2 ^ 64 := by
    rw [← hp]; exact Nat.mul_lt_mul_of_pos_right Nat.lt_log2_self (Nat.two_pow_pos _)
  rw [Nat.mod_eq_of_lt hlt]
  have e3 : u * 2 ^ (63 - Nat.log2 u) * 2 ^ 1 = u * 2 ^ (64 - Nat.log2 u) := by
    have : 63 - Nat.log2 u + 1 = 64 - Nat.log2 u := by omega
    rw [Nat.mul_assoc, ← Nat.pow_add, this]
  rw [e3, shl_drop_lead h0 h64, shifted_tail _ _ (by omega)]
  have e2 : 1023 - (64 - Nat.log2 u) = 959 + Nat.log2 u := by omega
  rw [e2]
  have := or_field (mantOf u) (959 + Nat.log2 u) hm
  rw [Nat.shiftLeft_eq] at this
  unfold mantOf at this hm ⊢
  simp only at this hm ⊢
  rw [this]

/-- fields of a pattern `e * 2^52 + m` -/
theorem fields (e m : Nat) (he : e < 2 ^ 11) (hm : m < 2 ^ 52) :
    (e * 2 ^ 52 + m) / 2 ^ 63 % 2 = 0 ∧ (e * 2 ^ 52 + m) / 2 ^ 52 % 2 ^ 11 = e ∧
    (e * 2 ^ 52 + m) % 2 ^ 52 = m := by
  omega

/-- value denoted by a positive normal pattern with exponent field below 1075 -/
theorem decode_normal (e m : Nat) (he0 : 0 < e) (he : e < 1075) (hm : m < 2 ^ 52) :
    decodeDouble (e * 2 ^ 52 + m) = .fin ((2 ^ 52 + m : Nat) : Int) (1075 - e) := by
  obtain ⟨f1, f2, f3⟩ := fields e m (by omega) hm
  unfold decodeDouble
  simp only [f1, f2, f3]
  have : ¬ (e = 2047) := by omega
  have h2 : ¬ (e = 0) := by omega
  have h3 : ¬ (e ≥ 1075) := by omega
  simp [this, h2, h3]

end RootSim.Rand
