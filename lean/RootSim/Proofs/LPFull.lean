import RootSim.Model.LPFull
import RootSim.Proofs.LPSorted
/-! Lemmas about ONE step of the complete LP step function (`Model/LPFull.lean`): forward execution, rollback, the backward
scans, inversion of `stepPre`, preservation of the invariants, exactness of the anti-message branches, definedness.
Runs (sequences of steps) are in `Proofs/LPFullRun.lean`; the property statements in `Props/C06LP.lean`. -/
namespace RootSim.LPFull
open RootSim RootSim.LP

variable {σ : Type}

/-! ### forward execution -/

theorem outEntries_not_past (remote : Nat → Bool) (alloc : Nat → Nat) :
    ∀ (evs : List Event) (k : Nat), ∀ e ∈ outEntries remote alloc k evs, e.isPast = false
  | [], _, e, he => by simp [outEntries] at he
  | x :: xs, k, e, he => by
    simp only [outEntries, List.mem_cons] at he
    rcases he with h | h
    · subst h; split <;> rfl
    · exact outEntries_not_past remote alloc xs (k + 1) e h

theorem pastMsgs_of_not_past : ∀ (l : List Entry), (∀ e ∈ l, e.isPast = false) → pastMsgs l = []
  | [], _ => rfl
  | e :: es, h => by
    have h1 := h e (by simp)
    have h2 := pastMsgs_of_not_past es (fun x hx => h x (by simp [hx]))
    cases e <;> simp_all [pastMsgs, Entry.isPast]

theorem pastMsgs_outEntries (remote : Nat → Bool) (alloc : Nat → Nat) (evs : List Event) (k : Nat) :
    pastMsgs (outEntries remote alloc k evs) = [] :=
  pastMsgs_of_not_past _ (outEntries_not_past remote alloc evs k)

theorem outEntries_local (alloc : Nat → Nat) : ∀ (evs : List Event) (k : Nat),
    outEntries (fun _ => false) alloc k evs = ((List.range' k evs.length).map alloc).map Entry.sent
  | [], _ => by simp [outEntries]
  | e :: es, k => by
    simp [outEntries, outEntries_local alloc es (k + 1), List.range'_succ]

/-- with no remote destination `stepFwd` is `LP.forward` (outputs numbered by the allocator) -/
theorem stepFwd_eq_forward (h : σ → Event → σ × List Event) (alloc : Nat → Nat) (s : St σ) (m : Nat) (e : Event) :
    (stepFwd h (fun _ => false) alloc s m e).1.lp =
      (forward h s.lp m e ((List.range (h s.lp.st e).2.length).map alloc)).1 := by
  simp [stepFwd, forward, outEntries_local, List.range_eq_range']

theorem stepFwd_hist (h : σ → Event → σ × List Event) (remote : Nat → Bool) (alloc : Nat → Nat) (s : St σ) (m : Nat) (e : Event) :
    (stepFwd h remote alloc s m e).1.lp.hist =
      s.lp.hist ++ outEntries remote alloc 0 (h s.lp.st e).2 ++ [Entry.past m] := rfl

theorem stepFwd_pastMsgs (h : σ → Event → σ × List Event) (remote : Nat → Bool) (alloc : Nat → Nat) (s : St σ) (m : Nat) (e : Event) :
    pastMsgs (stepFwd h remote alloc s m e).1.lp.hist = pastMsgs s.lp.hist ++ [m] := by
  rw [stepFwd_hist]; simp only [pastMsgs_append, pastMsgs_outEntries, List.append_nil]; rfl

theorem stepFwd_early (h : σ → Event → σ × List Event) (remote : Nat → Bool) (alloc : Nat → Nat) (s : St σ) (m : Nat) (e : Event) :
    (stepFwd h remote alloc s m e).1.earlyAntis = s.earlyAntis := rfl

variable {h : σ → Event → σ × List Event} {ev : Nat → Event} {init : σ} {base : List Nat}

theorem stepFwd_linv (remote : Nat → Bool) (alloc : Nat → Nat) {s : St σ} (hI : LInv h ev init base s.lp) (m : Nat) :
    LInv h ev init base (stepFwd h remote alloc s m (ev m)).1.lp := by
  have hh := stepFwd_hist h remote alloc s m (ev m)
  refine ⟨?_, ?_, ?_⟩
  · intro x hx
    have hx' : x ∈ s.lp.logs := hx
    obtain ⟨h1, h2⟩ := hI.log_ok x hx'
    rw [hh]
    refine ⟨by simp; omega, ?_⟩
    rw [h2, List.append_assoc, List.take_append_of_le_length h1]
  · exact hI.sorted
  · rw [stepFwd_pastMsgs, ← List.append_assoc, replay_append, ← hI.st_ok]
    simp [stepFwd, replay]

/-- pushing a processed message that is not before any kept one keeps the history sorted (generalises `forward_sorted`) -/
theorem sinv_push (look : Nat → Msg) (lp lp' : LPState σ) (m t : Nat) (hI : SInv look lp)
    (hp : pastMsgs lp'.hist = pastMsgs lp.hist ++ [m]) (hb : lp'.bound = some t)
    (hl : lp'.hist.getLast? = some (.past m))
    (hnb : ∀ x ∈ pastMsgs lp.hist, isBefore (look m) (look x) = false)
    (hwf : (look m).WF) (ht : (look m).destT = t) : SInv look lp' := by
  refine ⟨?_, ?_, ?_, ?_⟩
  · unfold Sorted; rw [hp, List.pairwise_append]
    refine ⟨hI.sorted, by simp, ?_⟩
    intro a ha b hb; simp at hb; subst hb; exact hnb a ha
  · intro x hx
    rw [hp] at hx
    refine ⟨t, hb, ?_⟩
    rcases List.mem_append.mp hx with h1 | h1
    · have := hnb x h1
      by_cases hlt : (look m).destT < (look x).destT
      · rw [isBefore_of_lt _ _ hlt] at this; exact Bool.noConfusion this
      · omega
    · simp at h1; subst h1; omega
  · intro e' he'
    rw [hl] at he'; cases he'; rfl
  · intro x hx; rw [hp] at hx
    rcases List.mem_append.mp hx with h1 | h1
    · exact hI.wf x h1
    · simp at h1; subst h1; exact hwf

/-! ### rollback -/

theorem rollback_some_hck {lp : LPState σ} {i : Nat} {o : RollbackOut σ} (ho : rollback h ev lp i = some o) :
    ∃ x ∈ lp.logs, x.1 ≤ i := by
  unfold rollback at ho
  split at ho
  · simp at ho
  · rename_i li hli
    obtain ⟨A, x, B, hl, _, hx, _⟩ := findLog_some hli
    exact ⟨x, by rw [hl]; simp, hx⟩

theorem rollback_bound {lp : LPState σ} {i : Nat} {o : RollbackOut σ} (ho : rollback h ev lp i = some o) :
    o.lp.bound = lp.bound ∧ o.lp.epoch = lp.epoch := by
  unfold rollback at ho
  split at ho
  · simp at ho
  · split at ho
    · simp at ho
    · simp at ho; subst ho; exact ⟨rfl, rfl⟩

/-- everything `doRollback` does, in one statement -/
theorem doRollback_spec {lp lp' : LPState σ} {i : Nat} {c : Option Nat} {acts : List Action}
    (hI : LInv h ev init base lp) (hd : doRollback h ev lp i c = some (lp', acts)) :
    lp'.hist = lp.hist.take i ∧ lp'.bound = lp.bound ∧
    lp'.st = replay h ev init (base ++ pastMsgs (lp.hist.take i)) ∧
    LInv h ev init base lp' ∧ endsWithSent (lp.hist.drop i) = false ∧
    ∃ (ref : Nat) (sil : List (Nat × Nat)), acts = undoActions c (lp.hist.drop i) ++ [.rollback i ref] ++
      sil.map (fun im => Action.silent im.1 im.2) ++ [.rollbackDone i] := by
  unfold doRollback at hd
  split at hd
  · simp at hd
  · rename_i o ho
    obtain ⟨o', ho', h1, h2, h3, h4⟩ := rollback_exact hI i (rollback_some_hck ho)
    rw [ho] at ho'; cases ho'
    split at hd
    · simp at hd
    · rename_i hes
      simp only [Option.some.injEq, Prod.mk.injEq] at hd
      obtain ⟨rfl, rfl⟩ := hd
      refine ⟨h1, (rollback_bound ho).1, h3, h4, by rw [← h2]; simpa using hes, o.ref, o.silent, by rw [h2]⟩

/-! projections of the actions of a rollback -/

theorem frees_append (a b : List Action) : frees (a ++ b) = frees a ++ frees b := by
  simp [frees, List.filterMap_append]
theorem unprocs_append (a b : List Action) : unprocs (a ++ b) = unprocs a ++ unprocs b := by
  simp [unprocs, List.filterMap_append]
theorem antis_append (a b : List Action) : antis (a ++ b) = antis a ++ antis b := by
  simp [antis, List.filterMap_append]

theorem frees_undo (c : Option Nat) : ∀ es : List Entry, frees (undoActions c es) = []
  | [] => rfl
  | .past m :: es => by simpa [undoActions, frees] using frees_undo c es
  | .sent m :: es => by simpa [undoActions, frees] using frees_undo c es
  | .rsent m :: es => by simpa [undoActions, frees] using frees_undo c es

theorem unprocs_undo (c : Option Nat) : ∀ es : List Entry,
    unprocs (undoActions c es) = (pastMsgs es).map (fun m => (m, c == some m))
  | [] => rfl
  | .past m :: es => by
    have := unprocs_undo c es
    simp [undoActions, unprocs, pastMsgs] at this ⊢; exact this
  | .sent m :: es => by
    have := unprocs_undo c es
    simp [undoActions, unprocs, pastMsgs] at this ⊢; exact this
  | .rsent m :: es => by
    have := unprocs_undo c es
    simp [undoActions, unprocs, pastMsgs] at this ⊢; exact this

theorem antis_undo (c : Option Nat) : ∀ es : List Entry,
    antis (undoActions c es) = es.filter Entry.isSent
  | [] => rfl
  | .past m :: es => by
    have := antis_undo c es
    simp [undoActions, antis, Entry.isSent, Entry.isPast] at this ⊢; exact this
  | .sent m :: es => by
    have := antis_undo c es
    simp [undoActions, antis, Entry.isSent, Entry.isPast] at this ⊢; exact this
  | .rsent m :: es => by
    have := antis_undo c es
    simp [undoActions, antis, Entry.isSent, Entry.isPast] at this ⊢; exact this

theorem frees_silent (sil : List (Nat × Nat)) : frees (sil.map (fun im => Action.silent im.1 im.2)) = [] := by
  induction sil with
  | nil => rfl
  | cons a as ih => simpa [frees] using ih
theorem unprocs_silent (sil : List (Nat × Nat)) : unprocs (sil.map (fun im => Action.silent im.1 im.2)) = [] := by
  induction sil with
  | nil => rfl
  | cons a as ih => simpa [unprocs] using ih
theorem antis_silent (sil : List (Nat × Nat)) : antis (sil.map (fun im => Action.silent im.1 im.2)) = [] := by
  induction sil with
  | nil => rfl
  | cons a as ih => simpa [antis] using ih

/-- the three projections of the action list of a rollback -/
theorem rollbackActs_proj (c : Option Nat) (es : List Entry) (i ref : Nat) (sil : List (Nat × Nat)) :
    let acts := undoActions c es ++ [.rollback i ref] ++ sil.map (fun im => Action.silent im.1 im.2) ++ [.rollbackDone i]
    frees acts = [] ∧ unprocs acts = (pastMsgs es).map (fun m => (m, c == some m)) ∧ antis acts = es.filter Entry.isSent := by
  refine ⟨?_, ?_, ?_⟩
  · simp [frees_append, frees_undo, frees_silent]; simp [frees]
  · simp [unprocs_append, unprocs_undo, unprocs_silent]; simp [unprocs]
  · simp [antis_append, antis_undo, antis_silent]; simp [antis]

/-! ### `fixBound` and truncation -/

theorem fixBound_linv {lp : LPState σ} (hI : LInv h ev init base lp) : LInv h ev init base (fixBound lp) :=
  ⟨hI.log_ok, hI.sorted, hI.st_ok⟩

theorem fixBound_sinv {look : Nat → Msg} {lp : LPState σ} (hI : SInv look lp) : SInv look (fixBound lp) := by
  refine ⟨hI.sorted, ?_, hI.last_past, hI.wf⟩
  intro m hm
  have hne : (fixBound lp).hist.isEmpty = false := by
    cases hh : lp.hist with
    | nil => simp [fixBound, hh, pastMsgs] at hm
    | cons a as => simp [fixBound, hh]
  obtain ⟨b, hb, hle⟩ := hI.bound_ok m hm
  refine ⟨b, ?_, hle⟩
  have : lp.hist.isEmpty = false := hne
  simp [fixBound, this, hb]

/-- truncating the history right after a processed message (or to nothing) keeps it sorted -/
theorem sinv_take {look : Nat → Msg} {lp lp' : LPState σ} (hI : SInv look lp) (k : Nat)
    (hh : lp'.hist = lp.hist.take k) (hb : lp'.bound = lp.bound)
    (hk : k = 0 ∨ ∃ e, lp.hist[k - 1]? = some e ∧ e.isPast = true) : SInv look lp' := by
  have hsub := pastMsgs_take_sub lp.hist k
  refine ⟨?_, ?_, ?_, ?_⟩
  · unfold Sorted; rw [hh]; exact hI.sorted.sublist hsub
  · intro x hx; rw [hh] at hx; rw [hb]; exact hI.bound_ok x (hsub.subset hx)
  · intro e he
    rw [hh] at he
    rcases hk with h0 | ⟨e', he', hp⟩
    · rw [h0] at he; simp at he
    · by_cases hk0 : k = 0
      · rw [hk0] at he; simp at he
      · rw [List.getLast?_take] at he
        simp only [hk0, if_false] at he
        rw [he'] at he; simp at he; subst he; exact hp
  · intro x hx; rw [hh] at hx; exact hI.wf x (hsub.subset hx)


/-! ### the backward scans -/

theorem scanBack_append_false {α : Type} (p : α → Bool) : ∀ (pre rest : List α), (∀ y ∈ pre, p y = false) →
    scanBack p (pre ++ rest) = scanBack p rest
  | [], _, _ => rfl
  | a :: as, rest, hp => by
    have ha : p a = false := hp a (by simp)
    simp only [List.cons_append, scanBack, ha]
    exact scanBack_append_false p as rest (fun y hy => hp y (by simp [hy]))

theorem scanBack_all_false {α : Type} (p : α → Bool) : ∀ (l : List α), (∀ y ∈ l, p y = false) → scanBack p l = 0
  | [], _ => rfl
  | a :: as, hp => by
    have ha : p a = false := hp a (by simp)
    simp only [scanBack, ha]
    exact scanBack_all_false p as (fun y hy => hp y (by simp [hy]))

/-- the scan from the end of `A ++ x :: B` stops at `x` when nothing in `B` satisfies `p` -/
theorem scanBack_rev_hit {α : Type} (p : α → Bool) (A : List α) (x : α) (B : List α)
    (hx : p x = true) (hB : ∀ y ∈ B, p y = false) : scanBack p (A ++ x :: B).reverse = A.length + 1 := by
  have : (A ++ x :: B).reverse = B.reverse ++ x :: A.reverse := by simp
  rw [this, scanBack_append_false p _ _ (fun y hy => hB y (List.mem_reverse.mp hy))]
  simp [scanBack, hx]

theorem scanBack_rev_none {α : Type} (p : α → Bool) (l : List α) (hl : ∀ y ∈ l, p y = false) :
    scanBack p l.reverse = 0 :=
  scanBack_all_false p _ (fun y hy => hl y (List.mem_reverse.mp hy))

theorem scanBack_le {α : Type} (p : α → Bool) : ∀ (l : List α), scanBack p l ≤ l.length
  | [] => by simp [scanBack]
  | a :: as => by
    simp only [scanBack]
    split
    · simp
    · have := scanBack_le p as; simp; omega

/-- `groupStart` on a history `A ++ G ++ rest` where `G` (ending at index `i`) holds only sent entries and `A` is empty or ends
with a processed message: the scan stops right after `A` -/
theorem groupStart_eq (A G rest : List Entry) (hG : ∀ g ∈ G, g.isPast = false)
    (hA : ∀ e, A.getLast? = some e → e.isPast = true) : groupStart (A ++ G ++ rest) (A.length + G.length) = A.length := by
  unfold groupStart
  have ht : (A ++ G ++ rest).take (A.length + G.length) = A ++ G := by
    rw [← List.length_append, List.take_left']; rfl
  rw [ht]
  have : (A ++ G).reverse = G.reverse ++ A.reverse := by simp
  rw [this, scanBack_append_false _ _ _ (fun y hy => hG y (List.mem_reverse.mp hy))]
  cases hAl : A.getLast? with
  | none =>
    have : A = [] := List.getLast?_eq_none_iff.mp hAl
    subst this; rfl
  | some e =>
    obtain ⟨A0, rfl⟩ : ∃ A0, A = A0 ++ [e] := by
      rw [List.getLast?_eq_some_iff] at hAl
      exact hAl
    have he := hA e hAl
    simp [scanBack, he]

/-- what `groupStart` returns, for any history and any index -/
theorem groupStart_spec (hist : List Entry) (i : Nat) :
    groupStart hist i ≤ i ∧
    (∀ j e, groupStart hist i ≤ j → j < i → hist[j]? = some e → e.isPast = false) ∧
    (groupStart hist i = 0 ∨ ∃ e, hist[groupStart hist i - 1]? = some e ∧ e.isPast = true) := by
  unfold groupStart
  have hlen : (hist.take i).length ≤ i := by simp; omega
  rcases scanBack_rev_spec Entry.isPast (hist.take i) with ⟨h0, hall⟩ | ⟨A, y, B, hl, hB, hy, hk⟩
  · rw [h0]
    refine ⟨by omega, ?_, Or.inl rfl⟩
    intro j e _ hj he
    have : (hist.take i)[j]? = some e := by rw [List.getElem?_take]; simp [hj, he]
    exact hall e (List.mem_of_getElem? this)
  · rw [hk]
    have hAl : A.length + 1 + B.length = (hist.take i).length := by rw [hl]; simp; omega
    refine ⟨by omega, ?_, Or.inr ⟨y, ?_, hy⟩⟩
    · intro j e hkj hj he
      have h1 : (hist.take i)[j]? = some e := by rw [List.getElem?_take]; simp [hj, he]
      rw [hl] at h1
      have h2 : (A ++ y :: B)[j]? = B[j - A.length - 1]? := by
        rw [List.getElem?_append_right (by omega)]
        obtain ⟨d, hd⟩ : ∃ d, j - A.length = d + 1 := ⟨j - A.length - 1, by omega⟩
        rw [hd, List.getElem?_cons_succ]; congr 1
      rw [h2] at h1
      exact hB e (List.mem_of_getElem? h1)
    · have h1 : (hist.take i)[A.length]? = some y := by rw [hl]; simp
      rw [List.getElem?_take] at h1
      simp only [Nat.add_sub_cancel]
      split at h1
      · exact h1
      · simp at h1

/-! ### `unlinkFirst` -/

theorem unlinkFirst_none (p : Nat → Bool) : ∀ (l : List Nat), unlinkFirst p l = none ↔ ∀ a ∈ l, p a = false
  | [] => by simp [unlinkFirst]
  | a :: as => by
    simp only [unlinkFirst]
    by_cases ha : p a = true
    · simp [ha]
    · have ha' : p a = false := by simpa using ha
      have ih := unlinkFirst_none p as
      simp only [ha', Bool.false_eq_true, if_false, List.mem_cons, forall_eq_or_imp, true_and]
      rw [← ih]
      cases unlinkFirst p as with
      | none => simp
      | some xr => simp

/-- `check_early_anti_messages` removes exactly one entry: the first one (from the head) that matches; every other entry stays,
in the same order -/
theorem unlinkFirst_some (p : Nat → Bool) : ∀ (l : List Nat) (a : Nat) (r : List Nat), unlinkFirst p l = some (a, r) →
    ∃ l1 l2, l = l1 ++ a :: l2 ∧ r = l1 ++ l2 ∧ p a = true ∧ ∀ b ∈ l1, p b = false
  | [], a, r, hu => by simp [unlinkFirst] at hu
  | x :: xs, a, r, hu => by
    simp only [unlinkFirst] at hu
    by_cases hx : p x = true
    · simp only [hx, if_true, Option.some.injEq, Prod.mk.injEq] at hu
      obtain ⟨rfl, rfl⟩ := hu
      exact ⟨[], xs, rfl, rfl, hx, by simp⟩
    · have hx' : p x = false := by simpa using hx
      simp only [hx', Bool.false_eq_true, if_false] at hu
      cases hr : unlinkFirst p xs with
      | none => simp [hr] at hu
      | some yr =>
        obtain ⟨y, r'⟩ := yr
        simp only [hr, Option.some.injEq, Prod.mk.injEq] at hu
        obtain ⟨rfl, rfl⟩ := hu
        obtain ⟨l1, l2, h1, h2, h3, h4⟩ := unlinkFirst_some p xs y r' hr
        refine ⟨x :: l1, l2, by simp [h1], by simp [h2], h3, ?_⟩
        intro b hb
        rcases List.mem_cons.mp hb with h | h
        · subst h; exact hx'
        · exact h4 b h

theorem unlinkFirst_of_split (p : Nat → Bool) (l1 l2 : List Nat) (a : Nat) (ha : p a = true) (h1 : ∀ b ∈ l1, p b = false) :
    unlinkFirst p (l1 ++ a :: l2) = some (a, l1 ++ l2) := by
  induction l1 with
  | nil => simp [unlinkFirst, ha]
  | cons x xs ih =>
    have hx : p x = false := h1 x (by simp)
    have := ih (fun b hb => h1 b (by simp [hb]))
    simp [unlinkFirst, hx, this]


/-! ### inversion of `stepPre`: the six branches -/

/-- the message `me` the straggler test of this step compares -/
def meOf (look : Nat → Msg) (m f : Nat) : Msg := { look m with rawFlags := f + 2 }

theorem stepPre_inv {s : St σ} {look : Nat → Msg} {m f : Nat} {p : PreOut σ}
    (hp : stepPre h ev look s m f = some p) :
    -- remote anti-message, parked
    (f % 2 = 1 ∧ 3 < f ∧ findRemote look s.lp.hist (f + 1) (look m).mSeq = 0 ∧
      p = { st := { lp := fixBound s.lp, earlyAntis := m :: s.earlyAntis }, acts := [.earlyPark m], cont := false }) ∨
    -- remote anti-message, matched
    (f % 2 = 1 ∧ 3 < f ∧ ∃ i x lp' racts, findRemote look s.lp.hist (f + 1) (look m).mSeq = i + 1 ∧
      s.lp.hist[i]? = some x ∧ doRollback h ev s.lp (groupStart s.lp.hist i) (some x.msg) = some (lp', racts) ∧
      p = { st := { s with lp := fixBound lp' }
            acts := .markAnti x.msg :: racts ++ [.termRollback (ev x.msg).t, .free x.msg, .free m], cont := false }) ∨
    -- local anti-message of a processed message
    (f = 3 ∧ ∃ k lp' racts, matchAnti s.lp.hist m = some k ∧ doRollback h ev s.lp k (some m) = some (lp', racts) ∧
      p = { st := { s with lp := fixBound lp' }
            acts := racts ++ [.termRollback (ev m).t, .antiDiscard m f, .free m], cont := false }) ∨
    -- local anti-message of a message not processed yet
    (f = 1 ∧ p = { st := { s with lp := fixBound s.lp }, acts := [.antiDiscard m f, .free m], cont := false }) ∨
    -- remote event annihilated by a parked anti-message
    (f % 2 = 0 ∧ f ≠ 0 ∧ ∃ a rest, unlinkFirst (earlyHit look (f + 2) (look m).mSeq) s.earlyAntis = some (a, rest) ∧
      p = { st := { s with earlyAntis := rest }, acts := [.earlyMatch m a, .free m, .free a], cont := false }) ∨
    -- ordinary message
    (f % 2 = 0 ∧ (f = 0 ∨ unlinkFirst (earlyHit look (f + 2) (look m).mSeq) s.earlyAntis = none) ∧
      ((isStraggler look s.lp (meOf look m f) = true ∧ ∃ lp' racts,
          doRollback h ev s.lp (matchStraggler look s.lp.hist (meOf look m f)) none = some (lp', racts) ∧
          p = { st := { s with lp := lp' }, acts := racts ++ [.termRollback (meOf look m f).destT], cont := true }) ∨
       (isStraggler look s.lp (meOf look m f) = false ∧ p = { st := s, acts := [], cont := true }))) := by
  unfold stepPre at hp
  by_cases hodd : f % 2 = 1
  · simp only [hodd, if_true] at hp
    by_cases h3 : 3 < f
    · simp only [gt_iff_lt, h3, if_true] at hp
      by_cases hk : findRemote look s.lp.hist (f + 1) (look m).mSeq = 0
      · simp only [hk, if_true, Option.some.injEq] at hp
        exact Or.inl ⟨hodd, h3, hk, hp.symm⟩
      · simp only [hk, if_false] at hp
        right; left
        obtain ⟨i, hi⟩ : ∃ i, findRemote look s.lp.hist (f + 1) (look m).mSeq = i + 1 :=
          ⟨findRemote look s.lp.hist (f + 1) (look m).mSeq - 1, by omega⟩
        rw [hi] at hp
        simp only [Nat.add_sub_cancel] at hp
        split at hp
        · simp at hp
        · rename_i x hx
          split at hp
          · simp at hp
          · rename_i lp' racts hd
            simp only [Option.some.injEq] at hp
            exact ⟨hodd, h3, i, x, lp', racts, hi, hx, hd, hp.symm⟩
    · simp only [gt_iff_lt, h3, if_false] at hp
      by_cases hf3 : f = 3
      · simp only [hf3, if_true] at hp
        right; right; left
        split at hp
        · simp at hp
        · rename_i k hk
          split at hp
          · simp at hp
          · rename_i lp' racts hd
            simp only [Option.some.injEq] at hp
            subst hf3
            exact ⟨rfl, k, lp', racts, hk, hd, hp.symm⟩
      · simp only [hf3, if_false, Option.some.injEq] at hp
        right; right; right; left
        exact ⟨by omega, hp.symm⟩
  · simp only [hodd, if_false] at hp
    have heven : f % 2 = 0 := by omega
    right; right; right; right
    split at hp
    · rename_i a rest hu
      left
      simp only [Option.some.injEq] at hp
      by_cases hf0 : f = 0
      · simp [hf0] at hu
      · simp only [ne_eq, hf0, not_false_eq_true, if_true] at hu
        exact ⟨heven, hf0, a, rest, hu, hp.symm⟩
    · rename_i hu
      right
      refine ⟨heven, ?_, ?_⟩
      · by_cases hf0 : f = 0
        · exact Or.inl hf0
        · right; simpa [hf0] using hu
      · by_cases hs : isStraggler look s.lp (meOf look m f) = true
        · left
          refine ⟨hs, ?_⟩
          have hs' : isStraggler look s.lp { look m with rawFlags := f + 2 } = true := hs
          simp only [hs', if_true] at hp
          split at hp
          · simp at hp
          · rename_i lp' racts hd
            simp only [Option.some.injEq] at hp
            exact ⟨lp', racts, hd, hp.symm⟩
        · right
          have hs' : isStraggler look s.lp { look m with rawFlags := f + 2 } = false := by
            simpa [meOf] using hs
          simp only [hs', Bool.false_eq_true, if_false, Option.some.injEq] at hp
          exact ⟨by simpa using hs, hp.symm⟩


/-! ### the straggler test (extracted from `processPlain_sorted`) -/

theorem take_getLast {α : Type} (l : List α) (k : Nat) (e : α) (hk : 0 < k) (he : l[k - 1]? = some e) :
    (l.take k).getLast? = some e := by
  rw [List.getLast?_take]
  have hk0 : k ≠ 0 := by omega
  simp only [hk0, if_false]
  rw [he]; rfl

/-- after the rollback to `matchStraggler`, the straggler is not before any kept processed message -/
theorem straggler_kept_not_before {look : Nat → Msg} {lp : LPState σ} (hI : SInv look lp) (sm : Msg) (hwf : sm.WF) :
    ∀ x ∈ pastMsgs (lp.hist.take (matchStraggler look lp.hist sm)), isBefore sm (look x) = false := by
  intro x hx
  have hspec := C01.matchStraggler_spec look lp.hist sm
  have hsub := pastMsgs_take_sub lp.hist (matchStraggler look lp.hist sm)
  rcases Nat.eq_zero_or_pos (matchStraggler look lp.hist sm) with h0 | h0
  · rw [h0] at hx; simp [pastMsgs] at hx
  · obtain ⟨e', he', hpast, hnb⟩ := hspec.2.1 h0
    have hlast := take_getLast lp.hist _ e' h0 he'
    obtain ⟨pre, hpre⟩ := pastMsgs_last _ e' hlast hpast
    have hsorted : (pastMsgs (lp.hist.take (matchStraggler look lp.hist sm))).Pairwise
        (fun a b => isBefore (look b) (look a) = false) := hI.sorted.sublist hsub
    rw [hpre, List.pairwise_append] at hsorted
    rw [hpre] at hx
    have hwfk : ∀ y ∈ pre ++ [e'.msg], (look y).WF := fun y hy => hI.wf y (hsub.subset (by rw [hpre]; exact hy))
    rcases List.mem_append.mp hx with h1 | h1
    · have h2 := hsorted.2.2 x h1 e'.msg (by simp)
      exact not_before_trans _ _ _ hwf (hwfk e'.msg (by simp)) (hwfk x (List.mem_append_left _ h1)) hnb h2
    · simp at h1; subst h1; exact hnb

/-- a message that fails the straggler test is not before any processed message of the history -/
theorem not_straggler_not_before {look : Nat → Msg} {lp : LPState σ} (hI : SInv look lp) (sm : Msg) (hwf : sm.WF)
    (hs : isStraggler look lp sm = false) : ∀ x ∈ pastMsgs lp.hist, isBefore sm (look x) = false := by
  intro x hx
  obtain ⟨b, hb, hxb⟩ := hI.bound_ok x hx
  unfold isStraggler at hs
  rw [hb] at hs
  cases hl : lp.hist.getLast? with
  | none =>
    have : lp.hist = [] := List.getLast?_eq_none_iff.mp hl
    rw [this] at hx; simp [pastMsgs] at hx
  | some last =>
    rw [hl] at hs
    simp only [Bool.and_eq_false_iff, decide_eq_false_iff_not] at hs
    have hlp := hI.last_past last hl
    obtain ⟨pre, hpre⟩ := pastMsgs_last lp.hist last hl hlp
    rcases hs with h1 | h1
    · exact not_before_of_lt _ _ (by omega)
    · have hsorted := hI.sorted
      unfold Sorted at hsorted
      rw [hpre, List.pairwise_append] at hsorted
      rw [hpre] at hx
      rcases List.mem_append.mp hx with h2 | h2
      · have h3 := hsorted.2.2 x h2 last.msg (by simp)
        have hwx : (look x).WF := hI.wf x (by rw [hpre]; exact List.mem_append_left _ h2)
        have hwe : (look last.msg).WF := hI.wf last.msg (by rw [hpre]; simp)
        exact not_before_trans _ _ _ hwf hwe hwx h1 h3
      · simp at h2; subst h2; exact h1

theorem meOf_eq {look : Nat → Msg} {m f : Nat} (hf : (look m).rawFlags = f + 2) : meOf look m f = look m := by
  unfold meOf; rw [← hf]

/-! ### the invariant and its preservation -/

/-- the well-formedness invariant of one LP: `LInv` (the LP state and every checkpoint are the deterministic re-execution of the
corresponding history prefix; checkpoint log sorted and inside the history — `Proofs/LP.lean`) and `SInv` (processed messages
sorted by the event order, `bound` an upper bound of their time stamps, history layout `[sent* past]*`, i.e. it ends with a
processed message — `Proofs/LPSorted.lean`) -/
structure WF (h : σ → Event → σ × List Event) (ev : Nat → Event) (look : Nat → Msg) (init : σ) (base : List Nat)
    (s : St σ) : Prop where
  linv : LInv h ev init base s.lp
  sinv : SInv look s.lp

theorem stepPre_linv {s : St σ} {look : Nat → Msg} {m f : Nat} {p : PreOut σ} (hI : LInv h ev init base s.lp)
    (hp : stepPre h ev look s m f = some p) : LInv h ev init base p.st.lp := by
  rcases stepPre_inv hp with ⟨_, _, _, rfl⟩ | ⟨_, _, i, x, lp', racts, _, _, hd, rfl⟩ | ⟨_, k, lp', racts, _, hd, rfl⟩ |
    ⟨_, rfl⟩ | ⟨_, _, a, rest, _, rfl⟩ | ⟨_, _, ⟨_, lp', racts, hd, rfl⟩ | ⟨_, rfl⟩⟩
  · exact fixBound_linv hI
  · exact fixBound_linv (doRollback_spec hI hd).2.2.2.1
  · exact fixBound_linv (doRollback_spec hI hd).2.2.2.1
  · exact fixBound_linv hI
  · exact hI
  · exact (doRollback_spec hI hd).2.2.2.1
  · exact hI

/-- the LP state stays the exact re-execution of the remaining processed messages, in EVERY branch (no hypothesis on `look`) -/
theorem step_linv {s s' : St σ} {look : Nat → Msg} {remote : Nat → Bool} {alloc : Nat → Nat} {m f : Nat} {acts : List Action}
    (hI : LInv h ev init base s.lp) (hs : step h ev look remote alloc s m f = some (s', acts)) :
    LInv h ev init base s'.lp := by
  unfold step at hs
  split at hs
  · simp at hs
  · rename_i p hp
    have hI' := stepPre_linv hI hp
    split at hs
    · simp only [Option.some.injEq, Prod.mk.injEq] at hs
      rw [← hs.1]; exact stepFwd_linv remote alloc hI' m
    · simp only [Option.some.injEq, Prod.mk.injEq] at hs
      rw [← hs.1]; exact hI'

theorem stepPre_sinv {s : St σ} {look : Nat → Msg} {m f : Nat} {p : PreOut σ} (hL : LInv h ev init base s.lp)
    (hI : SInv look s.lp) (hp : stepPre h ev look s m f = some p) : SInv look p.st.lp := by
  rcases stepPre_inv hp with ⟨_, _, _, rfl⟩ | ⟨_, _, i, x, lp', racts, _, _, hd, rfl⟩ | ⟨_, k, lp', racts, hk, hd, rfl⟩ |
    ⟨_, rfl⟩ | ⟨_, _, a, rest, _, rfl⟩ | ⟨_, _, ⟨_, lp', racts, hd, rfl⟩ | ⟨_, rfl⟩⟩
  · exact fixBound_sinv hI
  · obtain ⟨h1, h2, _⟩ := doRollback_spec hL hd
    exact fixBound_sinv (sinv_take hI _ h1 h2 (groupStart_spec s.lp.hist i).2.2)
  · obtain ⟨h1, h2, _⟩ := doRollback_spec hL hd
    refine fixBound_sinv (sinv_take hI _ h1 h2 ?_)
    obtain ⟨_, _, _, _, _, h5⟩ := C01.matchAnti_spec _ _ _ hk
    rcases Nat.eq_zero_or_pos k with h0 | h0
    · exact Or.inl h0
    · exact Or.inr (h5 h0)
  · exact fixBound_sinv hI
  · exact hI
  · obtain ⟨h1, h2, _⟩ := doRollback_spec hL hd
    refine sinv_take hI _ h1 h2 ?_
    have hspec := C01.matchStraggler_spec look s.lp.hist (meOf look m f)
    rcases Nat.eq_zero_or_pos (matchStraggler look s.lp.hist (meOf look m f)) with h0 | h0
    · exact Or.inl h0
    · obtain ⟨e, he, hp, _⟩ := hspec.2.1 h0
      exact Or.inr ⟨e, he, hp⟩
  · exact hI

/-- sortedness / layout / `bound` are preserved by EVERY branch; `look` is the snapshot this step works on. The hypotheses on the
dequeued message itself are needed only when it is going to be processed (`f` even): its buffer holds `pl_size` bytes, the
snapshot shows its time stamp and the flag word right after the `fetch_add` -/
theorem step_sinv {s s' : St σ} {look : Nat → Msg} {remote : Nat → Bool} {alloc : Nat → Nat} {m f : Nat} {acts : List Action}
    (hL : LInv h ev init base s.lp) (hI : SInv look s.lp)
    (hm : f % 2 = 0 → (look m).WF ∧ (look m).destT = (ev m).t ∧ (look m).rawFlags = f + 2)
    (hs : step h ev look remote alloc s m f = some (s', acts)) : SInv look s'.lp := by
  unfold step at hs
  split at hs
  · simp at hs
  · rename_i p hp
    have hI' := stepPre_sinv hL hI hp
    split at hs
    · rename_i hc
      simp only [Option.some.injEq, Prod.mk.injEq] at hs
      rw [← hs.1]
      rcases stepPre_inv hp with ⟨_, _, _, rfl⟩ | ⟨_, _, i, x, lp', racts, _, _, hd, rfl⟩ | ⟨_, k, lp', racts, hk, hd, rfl⟩ |
        ⟨_, rfl⟩ | ⟨_, _, a, rest, _, rfl⟩ | ⟨hev, _, hcase⟩
      · simp at hc
      · simp at hc
      · simp at hc
      · simp at hc
      · simp at hc
      · obtain ⟨hwf, ht, hf⟩ := hm hev
        have hme := meOf_eq hf
        refine sinv_push look p.st.lp _ m (ev m).t hI' (stepFwd_pastMsgs h remote alloc p.st m (ev m)) rfl
          (by rw [stepFwd_hist]; simp) ?_ hwf ht
        -- the message is not before any kept processed message
        rcases hcase with ⟨_, lp', racts, hd, rfl⟩ | ⟨hns, rfl⟩
        · obtain ⟨h1, _⟩ := doRollback_spec hL hd
          intro x hx
          simp only at hx
          rw [h1, hme] at hx
          exact straggler_kept_not_before hI (look m) hwf x hx
        · rw [hme] at hns
          exact not_straggler_not_before hI (look m) hwf hns
    · simp only [Option.some.injEq, Prod.mk.injEq] at hs
      rw [← hs.1]; exact hI'

/-! ### an anti-message removes exactly its target -/

theorem step_noncont {s s' : St σ} {look : Nat → Msg} {remote : Nat → Bool} {alloc : Nat → Nat} {m f : Nat} {acts : List Action}
    {p : PreOut σ} (hp : stepPre h ev look s m f = some p) (hc : p.cont = false)
    (hs : step h ev look remote alloc s m f = some (s', acts)) : s' = p.st ∧ acts = p.acts := by
  unfold step at hs
  rw [hp] at hs
  simp only [hc, Bool.false_eq_true, if_false, Option.some.injEq, Prod.mk.injEq] at hs
  exact ⟨hs.1.symm, hs.2.symm⟩

theorem step_stepPre_some {s s' : St σ} {look : Nat → Msg} {remote : Nat → Bool} {alloc : Nat → Nat} {m f : Nat}
    {acts : List Action} (hs : step h ev look remote alloc s m f = some (s', acts)) :
    ∃ p, stepPre h ev look s m f = some p := by
  unfold step at hs
  split at hs
  · simp at hs
  · rename_i p hp; exact ⟨p, hp⟩

theorem filter_isSent_of_not_past (G : List Entry) (hG : ∀ g ∈ G, g.isPast = false) : G.filter Entry.isSent = G := by
  rw [List.filter_eq_self]
  intro g hg; simp [Entry.isSent, hG g hg]

theorem pastMsgs_mem {l : List Entry} {x : Nat} : x ∈ pastMsgs l ↔ Entry.past x ∈ l := by
  unfold pastMsgs
  rw [List.mem_filterMap]
  constructor
  · rintro ⟨e, he, hx⟩
    cases e <;> simp at hx
    subst hx; exact he
  · intro hx; exact ⟨_, hx, rfl⟩

/-- the shape of the undone segment `G ++ past x :: B` seen through the projections -/
theorem undone_proj (x : Nat) (G B : List Entry) (hG : ∀ g ∈ G, g.isPast = false) (hB : Entry.past x ∉ B) :
    (pastMsgs (G ++ Entry.past x :: B)).map (fun y => (y, some x == some y)) =
      (x, true) :: (pastMsgs B).map (fun y => (y, false)) ∧
    (G ++ Entry.past x :: B).filter Entry.isSent = G ++ B.filter Entry.isSent := by
  constructor
  · rw [pastMsgs_append, pastMsgs_of_not_past G hG]
    have : pastMsgs (Entry.past x :: B) = x :: pastMsgs B := rfl
    rw [this]
    simp only [List.nil_append, List.map_cons, BEq.rfl, List.cons.injEq, true_and]
    apply List.map_congr_left
    intro y hy
    have : x ≠ y := by
      intro hxy; subst hxy; exact hB (pastMsgs_mem.mp hy)
    simp [this]
  · rw [List.filter_append, filter_isSent_of_not_past G hG]
    simp [Entry.isSent, Entry.isPast]


theorem matchAnti_eq (A G B : List Entry) (m : Nat) (hG : ∀ g ∈ G, g.isPast = false)
    (hA : ∀ e, A.getLast? = some e → e.isPast = true) (hB : Entry.past m ∉ B) :
    matchAnti (A ++ G ++ Entry.past m :: B) m = some A.length := by
  unfold matchAnti findPast
  have hk : scanBack (fun e => e == Entry.past m) (A ++ G ++ Entry.past m :: B).reverse = (A ++ G).length + 1 :=
    scanBack_rev_hit _ (A ++ G) (Entry.past m) B (by simp) (by
      intro y hy; simp; intro h; subst h; exact hB hy)
  simp only [hk, Nat.add_one_ne_zero, if_false, Nat.add_sub_cancel]
  have := groupStart_eq A G (Entry.past m :: B) hG hA
  unfold groupStart at this
  rw [List.length_append, this]

/-- local anti-message of a processed message (`f = 3`), target anywhere in the history -/
theorem anti_local_exact {s s' : St σ} {look : Nat → Msg} {remote : Nat → Bool} {alloc : Nat → Nat} {m : Nat}
    {acts : List Action} (hI : LInv h ev init base s.lp)
    (A G B : List Entry) (hh : s.lp.hist = A ++ G ++ Entry.past m :: B)
    (hG : ∀ g ∈ G, g.isPast = false) (hA : ∀ e, A.getLast? = some e → e.isPast = true) (hB : Entry.past m ∉ B)
    (hs : step h ev look remote alloc s m 3 = some (s', acts)) :
    s'.lp.hist = A ∧ s'.earlyAntis = s.earlyAntis ∧
    s'.lp.st = replay h ev init (base ++ pastMsgs A) ∧
    unprocs acts = (m, true) :: (pastMsgs B).map (fun y => (y, false)) ∧
    frees acts = [m] ∧
    antis acts = G ++ B.filter Entry.isSent := by
  obtain ⟨p, hp⟩ := step_stepPre_some hs
  rcases stepPre_inv hp with ⟨_, h3, _⟩ | ⟨_, h3, _⟩ | ⟨_, k, lp', racts, hk, hd, rfl⟩ |
    ⟨h1, _⟩ | ⟨h2, _⟩ | ⟨h2, _⟩
  · omega
  · omega
  · obtain ⟨rfl, rfl⟩ := step_noncont hp rfl hs
    rw [hh, matchAnti_eq A G B m hG hA hB] at hk
    cases hk
    obtain ⟨h1, _, h3, _, _, ref, sil, rfl⟩ := doRollback_spec hI hd
    have htake : s.lp.hist.take A.length = A := by rw [hh, List.append_assoc]; simp
    have hdrop : s.lp.hist.drop A.length = G ++ Entry.past m :: B := by rw [hh, List.append_assoc]; simp
    rw [htake] at h1 h3
    rw [hdrop]
    obtain ⟨q1, q2, q3⟩ := rollbackActs_proj (some m) (G ++ Entry.past m :: B) A.length ref sil
    obtain ⟨u1, u2⟩ := undone_proj m G B hG hB
    refine ⟨h1, rfl, h3, ?_, ?_, ?_⟩
    · rw [unprocs_append, q2, u1]; simp [unprocs]
    · rw [frees_append, q1]; simp [frees]
    · rw [antis_append, q3, u2]; simp [antis]
  · omega
  · omega
  · omega

/-- remote anti-message whose event is a processed entry: same statement, the target is found by (id word, m_seq) -/
theorem anti_remote_exact {s s' : St σ} {look : Nat → Msg} {remote : Nat → Bool} {alloc : Nat → Nat} {m f x : Nat}
    {acts : List Action} (hI : LInv h ev init base s.lp) (hf : f % 2 = 1) (hf3 : 3 < f)
    (A G B : List Entry) (hh : s.lp.hist = A ++ G ++ Entry.past x :: B)
    (hG : ∀ g ∈ G, g.isPast = false) (hA : ∀ e, A.getLast? = some e → e.isPast = true)
    (hx : remoteHit look (f + 1) (look m).mSeq (Entry.past x) = true)
    (hB : ∀ b ∈ B, remoteHit look (f + 1) (look m).mSeq b = false)
    (hs : step h ev look remote alloc s m f = some (s', acts)) :
    s'.lp.hist = A ∧ s'.earlyAntis = s.earlyAntis ∧
    s'.lp.st = replay h ev init (base ++ pastMsgs A) ∧
    unprocs acts = (x, true) :: (pastMsgs B).map (fun y => (y, false)) ∧
    frees acts = [x, m] ∧
    antis acts = G ++ B.filter Entry.isSent := by
  have hfind : findRemote look s.lp.hist (f + 1) (look m).mSeq = (A ++ G).length + 1 := by
    unfold findRemote; rw [hh]; exact scanBack_rev_hit _ (A ++ G) (Entry.past x) B hx hB
  have hBx : Entry.past x ∉ B := fun hmem => by have := hB _ hmem; rw [hx] at this; exact Bool.noConfusion this
  obtain ⟨p, hp⟩ := step_stepPre_some hs
  rcases stepPre_inv hp with ⟨_, _, h0, _⟩ | ⟨_, _, i, y, lp', racts, hi, hy, hd, rfl⟩ | ⟨h3, _⟩ |
    ⟨h1, _⟩ | ⟨h2, _⟩ | ⟨h2, _⟩
  · rw [hfind] at h0; omega
  · obtain ⟨rfl, rfl⟩ := step_noncont hp rfl hs
    rw [hfind] at hi
    have hi' : i = (A ++ G).length := by omega
    subst hi'
    have hy' : y = Entry.past x := by
      rw [hh] at hy; simp at hy; exact hy.symm
    subst hy'
    have hgs : groupStart s.lp.hist (A ++ G).length = A.length := by
      rw [hh, List.length_append]; exact groupStart_eq A G (Entry.past x :: B) hG hA
    rw [hgs] at hd
    obtain ⟨h1, _, h3, _, _, ref, sil, rfl⟩ := doRollback_spec hI hd
    have htake : s.lp.hist.take A.length = A := by rw [hh, List.append_assoc]; simp
    have hdrop : s.lp.hist.drop A.length = G ++ Entry.past x :: B := by rw [hh, List.append_assoc]; simp
    rw [htake] at h1 h3
    rw [hdrop]
    obtain ⟨q1, q2, q3⟩ := rollbackActs_proj (some x) (G ++ Entry.past x :: B) A.length ref sil
    obtain ⟨u1, u2⟩ := undone_proj x G B hG hBx
    have hm : (Entry.past x).msg = x := rfl
    refine ⟨h1, rfl, h3, ?_, ?_, ?_⟩
    · rw [hm]
      show unprocs (Action.markAnti x :: (_ ++ _)) = _
      rw [show ∀ l, unprocs (Action.markAnti x :: l) = unprocs l from fun l => rfl, unprocs_append, q2, u1]
      simp [unprocs]
    · rw [hm]
      show frees (Action.markAnti x :: (_ ++ _)) = _
      rw [show ∀ l, frees (Action.markAnti x :: l) = frees l from fun l => rfl, frees_append, q1]; simp [frees]
    · rw [hm]
      show antis (Action.markAnti x :: (_ ++ _)) = _
      rw [show ∀ l, antis (Action.markAnti x :: l) = antis l from fun l => rfl, antis_append, q3, u2]; simp [antis]
  · omega
  · omega
  · omega
  · omega


/-! ### a uniform summary of one step (used by the trace-level theorems) -/

/-- (id word, m_seq) of a message as seen through a snapshot -/
def keyAt (look : Nat → Msg) (x : Nat) : Nat × Nat := ((look x).rawFlags, (look x).mSeq)

theorem remoteHit_iff (look : Nat → Msg) (mId seq : Nat) (e : Entry) :
    remoteHit look mId seq e = true ↔ ∃ x, e = Entry.past x ∧ keyAt look x = (mId, seq) := by
  cases e <;> simp [remoteHit, Entry.isPast, Entry.msg, keyAt]

theorem earlyHit_iff (look : Nat → Msg) (mId seq a : Nat) :
    earlyHit look mId seq a = true ↔ keyAt look a = (mId, seq) := by
  simp [earlyHit, keyAt]

theorem earlyHit_false_iff (look : Nat → Msg) (mId seq a : Nat) :
    earlyHit look mId seq a = false ↔ keyAt look a ≠ (mId, seq) := by
  rw [Ne, ← earlyHit_iff]; simp

theorem findRemote_zero {look : Nat → Msg} {hist : List Entry} {mId seq : Nat}
    (h0 : findRemote look hist mId seq = 0) : ∀ x ∈ pastMsgs hist, keyAt look x ≠ (mId, seq) := by
  intro x hx hk
  unfold findRemote at h0
  rcases scanBack_rev_spec (remoteHit look mId seq) hist with ⟨_, hall⟩ | ⟨A, y, B, _, _, _, hk'⟩
  · have := hall _ (pastMsgs_mem.mp hx)
    rw [(remoteHit_iff look mId seq _).mpr ⟨x, rfl, hk⟩] at this
    exact Bool.noConfusion this
  · omega

theorem findRemote_zero_of {look : Nat → Msg} {hist : List Entry} {mId seq : Nat}
    (hall : ∀ x ∈ pastMsgs hist, keyAt look x ≠ (mId, seq)) : findRemote look hist mId seq = 0 := by
  unfold findRemote
  apply scanBack_rev_none
  intro y hy
  cases hh : remoteHit look mId seq y with
  | false => rfl
  | true =>
    obtain ⟨x, rfl, hk⟩ := (remoteHit_iff look mId seq y).mp hh
    exact absurd hk (hall x (pastMsgs_mem.mpr hy))

theorem findRemote_succ {look : Nat → Msg} {hist : List Entry} {mId seq i : Nat}
    (hi : findRemote look hist mId seq = i + 1) :
    ∃ x, hist[i]? = some (Entry.past x) ∧ keyAt look x = (mId, seq) ∧
      ∀ j y, i < j → hist[j]? = some (Entry.past y) → keyAt look y ≠ (mId, seq) := by
  unfold findRemote at hi
  rcases scanBack_rev_spec (remoteHit look mId seq) hist with ⟨h0, _⟩ | ⟨A, y, B, hl, hB, hy, hk⟩
  · omega
  · obtain ⟨x, rfl, hx⟩ := (remoteHit_iff look mId seq y).mp hy
    have hiA : i = A.length := by omega
    subst hiA
    refine ⟨x, by rw [hl]; simp, hx, ?_⟩
    intro j z hj hz hkz
    rw [hl] at hz
    have h2 : (A ++ Entry.past x :: B)[j]? = B[j - A.length - 1]? := by
      rw [List.getElem?_append_right (by omega)]
      obtain ⟨d, hd⟩ : ∃ d, j - A.length = d + 1 := ⟨j - A.length - 1, by omega⟩
      rw [hd, List.getElem?_cons_succ]; congr 1
    rw [h2] at hz
    have := hB _ (List.mem_of_getElem? hz)
    rw [(remoteHit_iff look mId seq _).mpr ⟨z, rfl, hkz⟩] at this
    exact Bool.noConfusion this

theorem frees_outActions (remote : Nat → Bool) (alloc : Nat → Nat) : ∀ (evs : List Event) (k : Nat),
    frees (outActions remote alloc k evs) = []
  | [], _ => rfl
  | e :: es, k => by
    have := frees_outActions remote alloc es (k + 1)
    simp only [outActions]
    split <;> simpa [frees] using this

theorem frees_stepFwd (remote : Nat → Bool) (alloc : Nat → Nat) (s : St σ) (m : Nat) (e : Event) :
    frees (stepFwd h remote alloc s m e).2 = [] := by
  simp only [stepFwd, frees_append, frees_outActions]; simp [frees]

theorem frees_doRollback {lp lp' : LPState σ} {i : Nat} {c : Option Nat} {racts : List Action}
    (hI : LInv h ev init base lp) (hd : doRollback h ev lp i c = some (lp', racts)) : frees racts = [] := by
  obtain ⟨_, _, _, _, _, ref, sil, rfl⟩ := doRollback_spec hI hd
  exact (rollbackActs_proj c _ i ref sil).1

/-- what one step does to the processed messages, the early list and the released buffers, branch by branch -/
theorem step_summary {s s' : St σ} {look : Nat → Msg} {remote : Nat → Bool} {alloc : Nat → Nat} {m f : Nat}
    {acts : List Action} (hI : LInv h ev init base s.lp)
    (hs : step h ev look remote alloc s m f = some (s', acts)) :
    -- remote anti-message, parked
    (f % 2 = 1 ∧ 3 < f ∧ findRemote look s.lp.hist (f + 1) (look m).mSeq = 0 ∧
      s'.lp.hist = s.lp.hist ∧ s'.earlyAntis = m :: s.earlyAntis ∧ acts = [.earlyPark m]) ∨
    -- remote anti-message, matched with the processed event `x` at index `i`
    (f % 2 = 1 ∧ 3 < f ∧ ∃ i x k, findRemote look s.lp.hist (f + 1) (look m).mSeq = i + 1 ∧
      s.lp.hist[i]? = some (Entry.past x) ∧ keyAt look x = (f + 1, (look m).mSeq) ∧ k ≤ i ∧
      s'.lp.hist = s.lp.hist.take k ∧ s'.earlyAntis = s.earlyAntis ∧ frees acts = [x, m]) ∨
    -- local anti-message
    ((f = 3 ∨ f = 1) ∧ ∃ k, s'.lp.hist = s.lp.hist.take k ∧ s'.earlyAntis = s.earlyAntis ∧ frees acts = [m]) ∨
    -- remote event annihilated by the parked anti-message `b`
    (f % 2 = 0 ∧ f ≠ 0 ∧ ∃ b l1 l2, s.earlyAntis = l1 ++ b :: l2 ∧ keyAt look b = (f + 2, (look m).mSeq) ∧
      (∀ c ∈ l1, keyAt look c ≠ (f + 2, (look m).mSeq)) ∧
      s'.lp.hist = s.lp.hist ∧ s'.earlyAntis = l1 ++ l2 ∧ acts = [.earlyMatch m b, .free m, .free b]) ∨
    -- ordinary message: processed
    (f % 2 = 0 ∧ (f = 0 ∨ ∀ c ∈ s.earlyAntis, keyAt look c ≠ (f + 2, (look m).mSeq)) ∧ ∃ k,
      pastMsgs s'.lp.hist = pastMsgs (s.lp.hist.take k) ++ [m] ∧ s'.earlyAntis = s.earlyAntis ∧ frees acts = []) := by
  obtain ⟨p, hp⟩ := step_stepPre_some hs
  rcases stepPre_inv hp with ⟨h1, h2, h0, rfl⟩ | ⟨h1, h2, i, x, lp', racts, hi, hx, hd, rfl⟩ |
    ⟨h3, k, lp', racts, hk, hd, rfl⟩ | ⟨h1, rfl⟩ | ⟨h1, h2, a, rest, hu, rfl⟩ | ⟨h1, h2, hcase⟩
  · obtain ⟨rfl, rfl⟩ := step_noncont hp rfl hs
    exact Or.inl ⟨h1, h2, h0, rfl, rfl, rfl⟩
  · obtain ⟨rfl, rfl⟩ := step_noncont hp rfl hs
    right; left
    obtain ⟨y, hy, hky, _⟩ := findRemote_succ hi
    rw [hx] at hy; cases hy
    obtain ⟨q1, _⟩ := doRollback_spec hI hd
    have hfr := frees_doRollback hI hd
    refine ⟨h1, h2, i, y, groupStart s.lp.hist i, hi, hx, hky, (groupStart_spec s.lp.hist i).1, q1, rfl, ?_⟩
    show frees (Action.markAnti y :: (racts ++ _)) = _
    rw [show ∀ l, frees (Action.markAnti y :: l) = frees l from fun l => rfl, frees_append, hfr]
    simp [frees, Entry.msg]
  · obtain ⟨rfl, rfl⟩ := step_noncont hp rfl hs
    right; right; left
    obtain ⟨q1, _⟩ := doRollback_spec hI hd
    refine ⟨Or.inl h3, k, q1, rfl, ?_⟩
    show frees (racts ++ _) = _
    rw [frees_append, frees_doRollback hI hd]; simp [frees]
  · obtain ⟨rfl, rfl⟩ := step_noncont hp rfl hs
    right; right; left
    exact ⟨Or.inr h1, s.lp.hist.length, by simp [fixBound], rfl, by simp [frees]⟩
  · obtain ⟨rfl, rfl⟩ := step_noncont hp rfl hs
    right; right; right; left
    obtain ⟨l1, l2, e1, e2, e3, e4⟩ := unlinkFirst_some _ _ _ _ hu
    refine ⟨h1, h2, a, l1, l2, e1, (earlyHit_iff _ _ _ _).mp e3, ?_, rfl, e2, rfl⟩
    intro c hc; exact (earlyHit_false_iff _ _ _ _).mp (e4 c hc)
  · right; right; right; right
    have hnohit : f = 0 ∨ ∀ c ∈ s.earlyAntis, keyAt look c ≠ (f + 2, (look m).mSeq) := by
      rcases h2 with h0 | hu
      · exact Or.inl h0
      · right; intro c hc
        exact (earlyHit_false_iff _ _ _ _).mp ((unlinkFirst_none _ _).mp hu c hc)
    refine ⟨h1, hnohit, ?_⟩
    unfold step at hs
    rw [hp] at hs
    rcases hcase with ⟨_, lp', racts, hd, rfl⟩ | ⟨_, rfl⟩
    · simp only [if_true, Option.some.injEq, Prod.mk.injEq] at hs
      obtain ⟨rfl, rfl⟩ := hs
      obtain ⟨q1, _⟩ := doRollback_spec hI hd
      refine ⟨matchStraggler look s.lp.hist (meOf look m f), ?_, rfl, ?_⟩
      · rw [stepFwd_pastMsgs]; simp only; rw [q1]
      · rw [frees_append, frees_append, frees_doRollback hI hd, frees_stepFwd]; simp [frees]
    · simp only [if_true, Option.some.injEq, Prod.mk.injEq] at hs
      obtain ⟨rfl, rfl⟩ := hs
      refine ⟨s.lp.hist.length, ?_, rfl, ?_⟩
      · rw [stepFwd_pastMsgs]; simp
      · rw [frees_append, frees_stepFwd]; simp [frees]

/-! ### every history splits around a target; the step is defined -/

/-- every list of entries is `A ++ G` with `G` the trailing sent entries and `A` empty or ending with a processed message -/
theorem split_trailing_sent : ∀ (l : List Entry), ∃ A G, l = A ++ G ∧ (∀ g ∈ G, g.isPast = false) ∧
    (∀ e, A.getLast? = some e → e.isPast = true)
  | [] => ⟨[], [], rfl, by simp, by simp⟩
  | x :: l => by
    obtain ⟨A, G, rfl, hG, hA⟩ := split_trailing_sent l
    cases A with
    | nil =>
      by_cases hx : x.isPast = true
      · exact ⟨[x], G, rfl, hG, by intro e he; simp at he; subst he; exact hx⟩
      · refine ⟨[], x :: G, rfl, ?_, by simp⟩
        intro g hg
        rcases List.mem_cons.mp hg with h1 | h1
        · subst h1; simpa using hx
        · exact hG g h1
    | cons a A' =>
      refine ⟨x :: a :: A', G, rfl, hG, ?_⟩
      intro e he
      rw [List.getLast?_cons_cons] at he
      exact hA e he

/-- the target of a local anti-message that is a processed entry: the history splits as `A ++ G ++ past m :: B` -/
theorem exists_target_decomp (hist : List Entry) (p : Entry → Bool) (hm : ∃ e ∈ hist, p e = true) :
    ∃ A G x B, hist = A ++ G ++ x :: B ∧ p x = true ∧ (∀ b ∈ B, p b = false) ∧ (∀ g ∈ G, g.isPast = false) ∧
      (∀ e, A.getLast? = some e → e.isPast = true) := by
  rcases scanBack_rev_spec p hist with ⟨_, hall⟩ | ⟨A0, x, B, hl, hB, hx, _⟩
  · obtain ⟨e, he, hpe⟩ := hm
    rw [hall e he] at hpe; exact Bool.noConfusion hpe
  · obtain ⟨A, G, rfl, hG, hA⟩ := split_trailing_sent A0
    exact ⟨A, G, x, B, hl, hx, hB, hG, hA⟩

theorem endsWithSent_drop_false {look : Nat → Msg} {lp : LPState σ} (hS : SInv look lp) (k : Nat) :
    endsWithSent (lp.hist.drop k) = false := by
  unfold endsWithSent
  cases hl : (lp.hist.drop k).getLast? with
  | none => rfl
  | some e =>
    have hne : lp.hist.drop k ≠ [] := by
      intro h0; rw [h0] at hl; simp at hl
    have : lp.hist.getLast? = some e := by
      have h1 : lp.hist = lp.hist.take k ++ lp.hist.drop k := (List.take_append_drop k lp.hist).symm
      rw [h1, List.getLast?_append, hl]; rfl
    simp [Entry.isSent, hS.last_past e this]

/-- `do_rollback` is defined whenever a checkpoint is not after the target (C13 guarantees one with reference 0 after the first
fossil collection) and the history has its layout -/
theorem doRollback_defined {look : Nat → Msg} {lp : LPState σ} (hI : LInv h ev init base lp) (hS : SInv look lp) (k : Nat)
    (c : Option Nat) (hck : ∃ x ∈ lp.logs, x.1 ≤ k) : ∃ r, doRollback h ev lp k c = some r := by
  obtain ⟨o, ho, _, h2, _⟩ := rollback_exact hI k hck
  unfold doRollback
  rw [ho]
  simp only
  rw [h2, endsWithSent_drop_false hS k]
  exact ⟨_, rfl⟩

/-- **the step is defined** (the C code stays within its arrays) in every well-formed state that owns a checkpoint with
reference 0, provided a local anti-message with flag word 3 really has its message in the history (that is the per-message
automaton's invariant `processed_bit_iff_in_history`, C06) -/
theorem step_defined {look : Nat → Msg} {remote : Nat → Bool} {alloc : Nat → Nat} {s : St σ} {m f : Nat}
    (hI : LInv h ev init base s.lp) (hS : SInv look s.lp) (hck : ∃ x ∈ s.lp.logs, x.1 = 0)
    (h3 : f = 3 → Entry.past m ∈ s.lp.hist) : ∃ r, step h ev look remote alloc s m f = some r := by
  have hck' : ∀ k, ∃ x ∈ s.lp.logs, x.1 ≤ k := fun k => by
    obtain ⟨x, hx, h0⟩ := hck; exact ⟨x, hx, by omega⟩
  have hpre : ∃ p, stepPre h ev look s m f = some p := by
    unfold stepPre
    by_cases hodd : f % 2 = 1
    · simp only [hodd, if_true]
      by_cases hgt : 3 < f
      · simp only [gt_iff_lt, hgt, if_true]
        by_cases hk : findRemote look s.lp.hist (f + 1) (look m).mSeq = 0
        · simp [hk]
        · simp only [hk, if_false]
          obtain ⟨i, hi⟩ : ∃ i, findRemote look s.lp.hist (f + 1) (look m).mSeq = i + 1 :=
            ⟨findRemote look s.lp.hist (f + 1) (look m).mSeq - 1, by omega⟩
          obtain ⟨x, hx, _⟩ := findRemote_succ hi
          rw [hi]
          simp only [Nat.add_sub_cancel, hx]
          obtain ⟨r, hr⟩ := doRollback_defined hI hS (groupStart s.lp.hist i) (some (Entry.past x).msg) (hck' _)
          rw [hr]; exact ⟨_, rfl⟩
      · simp only [gt_iff_lt, hgt, if_false]
        by_cases hf3 : f = 3
        · simp only [hf3, if_true]
          obtain ⟨A, G, x, B, hh, hx, hB, hG, hA⟩ := exists_target_decomp s.lp.hist (fun e => e == Entry.past m)
            ⟨_, h3 hf3, by simp⟩
          have hxm : x = Entry.past m := by simpa using hx
          subst hxm
          have hB' : Entry.past m ∉ B := fun hmem => by have := hB _ hmem; simp at this
          rw [hh, matchAnti_eq A G B m hG hA hB']
          simp only
          obtain ⟨r, hr⟩ := doRollback_defined hI hS A.length (some m) (hck' _)
          rw [hr]; exact ⟨_, rfl⟩
        · simp [hf3]
    · simp only [hodd, if_false]
      split
      · exact ⟨_, rfl⟩
      · split
        · obtain ⟨r, hr⟩ := doRollback_defined hI hS
            (matchStraggler look s.lp.hist { look m with rawFlags := f + 2 }) none (hck' _)
          rw [hr]; exact ⟨_, rfl⟩
        · exact ⟨_, rfl⟩
  obtain ⟨p, hp⟩ := hpre
  unfold step
  rw [hp]
  simp only
  split <;> exact ⟨_, rfl⟩

/-- `check_early_anti_messages`, exactly: wherever the matching anti-message sits in the list, it — and nothing else — is
unlinked, both buffers are released, the LP is otherwise untouched (not even the `bound` fix-up) -/
theorem early_match_exact {look : Nat → Msg} {remote : Nat → Bool} {alloc : Nat → Nat} (s : St σ) (m f b : Nat)
    (l1 l2 : List Nat) (hf : f % 2 = 0) (hf0 : f ≠ 0) (hl : s.earlyAntis = l1 ++ b :: l2)
    (hb : keyAt look b = (f + 2, (look m).mSeq)) (hl1 : ∀ c ∈ l1, keyAt look c ≠ (f + 2, (look m).mSeq)) :
    step h ev look remote alloc s m f =
      some ({ s with earlyAntis := l1 ++ l2 }, [.earlyMatch m b, .free m, .free b]) := by
  have hu : unlinkFirst (earlyHit look (f + 2) (look m).mSeq) s.earlyAntis = some (b, l1 ++ l2) := by
    rw [hl]
    exact unlinkFirst_of_split _ l1 l2 b ((earlyHit_iff _ _ _ _).mpr hb)
      (fun c hc => (earlyHit_false_iff _ _ _ _).mpr (hl1 c hc))
  have hodd : ¬ f % 2 = 1 := by omega
  simp [step, stepPre, hodd, hf0, hu]

end RootSim.LPFull
