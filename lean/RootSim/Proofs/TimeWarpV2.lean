import RootSim.Proofs.TimeWarp
import RootSim.Proofs.SpecV2
/-! The invariant `TW.Inv` (I1 well-formed sorted histories, I2 counting) of the CONTENT-LEVEL global Time
Warp machine (`Model/TimeWarp.lean`) does not need strict causality: the proofs of `Proofs/TimeWarp.lean` use
the contract only for "destinations exist, types are model types". This file repeats them under `Spec.V2`.
Hence `Spec.Hist` holds of every reachable state of the content-level machine under V2 alone — but `Hist`
is not sufficient under V2, and the end-to-end statements are FALSE for the content-level machine
(`Props/C01GlueV2.lean: tw_V2_counterexample`). -/
namespace RootSim.TW
open RootSim RootSim.Spec List

variable {σ : Type}

/-- under the NON-STRICT contract everything a fold of the handler schedules is a model event for an
existing LP -/
theorem outsFrom_ok2 {M : SimModel σ} (V : V2 M) {ℓ : Nat} {st : σ} {l : List Event} {y : Event}
    (h : y ∈ outsFrom M ℓ st l) : y.dest < M.nLps ∧ y.type < LP_INIT := by
  obtain ⟨P, c, S, _, hy⟩ := mem_outsFrom M ℓ st l h
  exact (V ℓ _ c y hy).2

theorem inv_init2 {M : SimModel σ} (V : V2 M) : Inv M (init M) := by
  refine ⟨?_, ?_, ?_, ?_, ?_, ?_, ?_⟩
  · intro ℓ hℓ
    have : ¬ ℓ < M.nLps := by omega
    simp [init, initPast, this]
  · intro ℓ hℓ; simp [init, initPast, hℓ]
  · intro ℓ hℓ e he; simp [init, initPast, hℓ] at he
  · intro ℓ hℓ; simp [init, initPast, hℓ]
  · intro x hx
    simp only [init, outsAll, List.mem_flatMap] at hx
    obtain ⟨ℓ, _, hx⟩ := hx
    exact outsFrom_ok2 V hx
  · intro x hx; simp [init] at hx
  · intro x
    have hr : (restAll M.nLps (init M).past).count x = 0 := by
      rw [List.count_eq_zero]
      simp only [restAll, List.mem_flatMap, List.mem_range, not_exists, not_and]
      intro ℓ hℓ; simp [init, initPast, hℓ]
    rw [hr]
    simp [init]

section steps
variable {M : SimModel σ} {s : TWState}

theorem Inv.exec2 (V : V2 M) (I : Inv M s) {ℓ : Nat} {e h : Event} {T : List Event}
    (hmem : e ∈ s.pending) (hdest : e.dest = ℓ) (hℓ : ℓ < M.nLps) (htype : e.type < LP_INIT)
    (hpast : s.past ℓ = h :: T) : Inv M (execResult M s ℓ e h T) := by
  have hh : h = initEv ℓ := by
    have := I.head ℓ hℓ
    rw [hpast] at this
    simpa using this
  have hTd := I.dest ℓ hℓ
  have hTs := I.sorted ℓ hℓ
  rw [hpast, List.tail_cons] at hTd hTs
  have happ : (splitUndo e T).1 ++ undoOf e T = T := splitUndo_append e T
  refine ⟨?_, ?_, ?_, ?_, ?_, ?_, ?_⟩
  · intro ℓ' hℓ'
    show upd s.past ℓ _ ℓ' = []
    rw [upd_other _ _ (by omega)]
    exact I.out ℓ' hℓ'
  · intro ℓ' hℓ'
    show (upd s.past ℓ _ ℓ').head? = _
    by_cases hne : ℓ' = ℓ
    · subst hne
      rw [upd_same, keep_snoc, hh]; rfl
    · rw [upd_other _ _ hne]; exact I.head ℓ' hℓ'
  · intro ℓ' hℓ' a
    show a ∈ (upd s.past ℓ _ ℓ').tail → _
    by_cases hne : ℓ' = ℓ
    · subst hne
      rw [upd_same, keep_snoc, List.tail_cons, List.mem_append]
      rintro (ha | ha)
      · exact hTd a (by rw [← happ]; exact List.mem_append_left _ ha)
      · rw [List.mem_singleton] at ha
        rw [ha]; exact ⟨hdest, htype⟩
    · rw [upd_other _ _ hne]; exact I.dest ℓ' hℓ' a
  · intro ℓ' hℓ'
    show (upd s.past ℓ _ ℓ').tail.Pairwise _
    by_cases hne : ℓ' = ℓ
    · subst hne
      rw [upd_same, keep_snoc, List.tail_cons]
      exact sorted_keep_snoc hTs
    · rw [upd_other _ _ hne]; exact I.sorted ℓ' hℓ'
  · intro x hx
    simp only [execResult, List.mem_append] at hx
    rcases hx with (hx | hx) | hx
    · exact I.pendOk x (List.mem_of_mem_erase hx)
    · have := hTd x (by rw [← happ]; exact List.mem_append_right _ hx)
      exact ⟨by rw [this.1]; exact hℓ, this.2⟩
    · exact (V ℓ _ e x hx).2
  · intro x hx
    simp only [execResult, List.mem_append] at hx
    rcases hx with hx | hx
    · exact I.antiOk x hx
    · exact outsFrom_ok2 V hx
  · intro x
    have hc := I.cnt x
    have he := count_erase_add hmem x
    have hr : (restAll M.nLps (upd s.past ℓ (keepOf e h T ++ [e]))).count x + (undoOf e T).count x =
        (restAll M.nLps s.past).count x + [e].count x := by
      apply count_restAll_upd hℓ
      rw [hpast, keep_snoc, List.tail_cons, List.tail_cons, List.count_append]
      conv => rhs; rw [← happ, List.count_append]
      omega
    have ho : (outsAll M (upd s.past ℓ (keepOf e h T ++ [e]))).count x +
          (outsFrom M ℓ (lpState M ℓ (keepOf e h T)) (undoOf e T)).count x =
        (outsAll M s.past).count x + (M.handler ℓ (lpState M ℓ (keepOf e h T)) e).2.count x := by
      apply count_outsAll_upd M hℓ
      rw [hpast, ← keep_undo e h T, outs_append, outs_append, List.count_append, List.count_append]
      simp only [outsFrom, List.append_nil]
      omega
    simp only [execResult, List.count_append]
    omega

theorem Inv.antiRollback2 (V : V2 M) (I : Inv M s) {ℓ : Nat} {o : Event} {K U : List Event}
    (ha : o ∈ s.antis) (hpast : s.past ℓ = K ++ o :: U) (hK : K ≠ []) :
    Inv M (antiRollbackResult M s ℓ o K U) := by
  have hℓ : ℓ < M.nLps := by
    apply Nat.lt_of_not_le
    intro hge
    have := I.out ℓ hge
    rw [hpast] at this
    simp at this
  obtain ⟨k0, Kt, rfl⟩ := List.exists_cons_of_ne_nil hK
  have hhd := I.head ℓ hℓ
  have hTd := I.dest ℓ hℓ
  have hTs := I.sorted ℓ hℓ
  rw [hpast] at hhd hTd hTs
  simp only [List.cons_append, List.tail_cons, List.head?_cons] at hhd hTd hTs
  refine ⟨?_, ?_, ?_, ?_, ?_, ?_, ?_⟩
  · intro ℓ' hℓ'
    show upd s.past ℓ _ ℓ' = []
    rw [upd_other _ _ (by omega)]
    exact I.out ℓ' hℓ'
  · intro ℓ' hℓ'
    show (upd s.past ℓ _ ℓ').head? = _
    by_cases hne : ℓ' = ℓ
    · subst hne
      rw [upd_same]; exact hhd
    · rw [upd_other _ _ hne]; exact I.head ℓ' hℓ'
  · intro ℓ' hℓ' a
    show a ∈ (upd s.past ℓ _ ℓ').tail → _
    by_cases hne : ℓ' = ℓ
    · subst hne
      rw [upd_same, List.tail_cons]
      intro ha'
      exact hTd a (List.mem_append_left _ ha')
    · rw [upd_other _ _ hne]; exact I.dest ℓ' hℓ' a
  · intro ℓ' hℓ'
    show (upd s.past ℓ _ ℓ').tail.Pairwise _
    by_cases hne : ℓ' = ℓ
    · subst hne
      rw [upd_same, List.tail_cons]
      exact (List.pairwise_append.mp hTs).1
    · rw [upd_other _ _ hne]; exact I.sorted ℓ' hℓ'
  · intro x hx
    simp only [antiRollbackResult, List.mem_append] at hx
    rcases hx with hx | hx
    · exact I.pendOk x hx
    · have := hTd x (List.mem_append_right _ (List.mem_cons_of_mem _ hx))
      exact ⟨by rw [this.1]; exact hℓ, this.2⟩
  · intro x hx
    simp only [antiRollbackResult, List.mem_append] at hx
    rcases hx with hx | hx
    · exact I.antiOk x (List.mem_of_mem_erase hx)
    · exact outsFrom_ok2 V hx
  · intro x
    have hc := I.cnt x
    have he := count_erase_add ha x
    have hr : (restAll M.nLps (upd s.past ℓ (k0 :: Kt))).count x + ([o].count x + U.count x) =
        (restAll M.nLps s.past).count x + 0 := by
      apply count_restAll_upd hℓ
      rw [hpast]
      simp only [List.cons_append, List.tail_cons, List.count_append]
      rw [show o :: U = [o] ++ U from rfl, List.count_append]
      omega
    have ho : (outsAll M (upd s.past ℓ (k0 :: Kt))).count x +
          (outsFrom M ℓ (lpState M ℓ (k0 :: Kt)) (o :: U)).count x =
        (outsAll M s.past).count x + 0 := by
      apply count_outsAll_upd M hℓ
      rw [hpast, outs_append, List.count_append]
      omega
    simp only [antiRollbackResult, List.count_append]
    omega

theorem Inv.step2 (V : V2 M) (I : Inv M s) {s' : TWState} (h : Step M s s') : Inv M s' := by
  cases h with
  | exec ℓ e h T hmem hdest hℓ htype hpast => exact I.exec2 V hmem hdest hℓ htype hpast
  | annihilate o hp ha => exact I.annihilate hp ha
  | antiRollback ℓ o K U ha hpast hK => exact I.antiRollback2 V ha hpast hK

end steps

/-- the invariant (I1, I2) of the content-level machine holds in every reachable state under V2 alone -/
theorem reachable_inv_V2 {M : SimModel σ} (V : V2 M) {s : TWState} (hr : Reachable M s) : Inv M s := by
  induction hr with
  | init => exact inv_init2 V
  | step _ hs ih => exact ih.step2 V hs

end RootSim.TW
