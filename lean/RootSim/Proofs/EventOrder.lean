import RootSim.Model.Sim
import RootSim.Props.C16
/-! The event order `Event.before` is a strict weak order whose incomparability classes are
"equal up to the destination LP" (lifted from C16 through `Event.toMsg`); existence of minimal
elements in finite lists. -/
namespace RootSim
namespace Event

theorem toMsg_WF (e : Event) : e.toMsg.WF := by simp [Msg.WF, Event.toMsg]

theorem before_irrefl (a : Event) : Event.before a a = false := C16.irrefl _

theorem before_asymm {a b : Event} (h : Event.before a b = true) : Event.before b a = false :=
  C16.asymm _ _ h

theorem before_trans {a b c : Event} (h1 : Event.before a b = true) (h2 : Event.before b c = true) :
    Event.before a c = true :=
  C16.trans _ _ _ a.toMsg_WF b.toMsg_WF c.toMsg_WF h1 h2

theorem before_of_t_lt {a b : Event} (h : a.t < b.t) : Event.before a b = true := by
  simp [Event.before, isBefore, Event.toMsg, h]

theorem t_le_of_before {a b : Event} (h : Event.before a b = true) : a.t ≤ b.t := by
  unfold Event.before at h
  rw [isBefore_iff] at h
  simp only [Event.toMsg] at h
  omega

theorem t_le_of_not_before {a b : Event} (h : Event.before b a = false) : a.t ≤ b.t := by
  apply Nat.le_of_not_lt
  intro hlt
  rw [before_of_t_lt hlt] at h
  exact Bool.noConfusion h

/-- incomparability is transitive -/
theorem incomp_trans {a b c : Event} (h1 : Event.before a b = false) (h1' : Event.before b a = false)
    (h2 : Event.before b c = false) (h2' : Event.before c b = false) :
    Event.before a c = false ∧ Event.before c a = false :=
  C16.incomp_trans _ _ _ a.toMsg_WF b.toMsg_WF c.toMsg_WF ⟨h1, h1'⟩ ⟨h2, h2'⟩

/-- negative transitivity of a strict weak order -/
theorem before_cases {a c : Event} (b : Event) (h : Event.before a c = true) :
    Event.before a b = true ∨ Event.before b c = true := by
  cases hab : Event.before a b with
  | true => exact Or.inl rfl
  | false =>
    cases hbc : Event.before b c with
    | true => exact Or.inr rfl
    | false =>
      exfalso
      have hba : Event.before b a = false := by
        cases hba : Event.before b a with
        | false => rfl
        | true => rw [before_trans hba h] at hbc; exact Bool.noConfusion hbc
      have hcb : Event.before c b = false := by
        cases hcb : Event.before c b with
        | false => rfl
        | true => rw [before_trans h hcb] at hab; exact Bool.noConfusion hab
      have := (incomp_trans hab hba hbc hcb).1
      rw [h] at this; exact Bool.noConfusion this

/-- incomparable events for the same LP are equal -/
theorem eq_of_incomp {a b : Event} (h1 : Event.before a b = false) (h2 : Event.before b a = false)
    (hd : a.dest = b.dest) : a = b := by
  have hc := (C16.incomp_iff_content_eq a.toMsg b.toMsg a.toMsg_WF b.toMsg_WF).mp ⟨h1, h2⟩
  simp only [Msg.content, Msg.body, Event.toMsg, Prod.mk.injEq, List.take_length] at hc
  obtain ⟨ht, _, hty, _, hpl⟩ := hc
  cases a; cases b; simp_all

/-- every non-empty finite list has a minimal element -/
theorem exists_minimal : ∀ (l : List Event), l ≠ [] →
    ∃ y ∈ l, ∀ z ∈ l, Event.before z y = false
  | [], h => absurd rfl h
  | [a], _ => ⟨a, by simp, by intro z hz; simp at hz; subst hz; exact before_irrefl _⟩
  | a :: b :: l, _ => by
    obtain ⟨y, hy, hmin⟩ := exists_minimal (b :: l) (by simp)
    cases hay : Event.before a y with
    | true =>
      refine ⟨a, by simp, ?_⟩
      intro z hz
      rcases List.mem_cons.mp hz with rfl | hz
      · exact before_irrefl _
      · cases hza : Event.before z a with
        | false => rfl
        | true => have := hmin z hz; rw [before_trans hza hay] at this; exact Bool.noConfusion this
    | false =>
      refine ⟨y, List.mem_cons_of_mem _ hy, ?_⟩
      intro z hz
      rcases List.mem_cons.mp hz with rfl | hz
      · exact hay
      · exact hmin z hz

end Event
end RootSim
