import RootSim.Proofs.GvtNodeReset
/-! `total_sent` is cleared slice by slice by the threads that pass `node_sent_wait`. -/
namespace RootSim.GvtNode

theorem mem_two_set {α} (p : Two (List α)) (b c : Bool) (l : List α) (d : α)
    (h : d ∈ (p.set b l).get c) : d ∈ l ∨ d ∈ p.get c := by
  cases b <;> cases c <;> simp_all [Two.get, Two.set]

/-- frame of a step on the unreported-send bags: only `send` adds, and only a valid destination -/
theorem step_unrep (s s' : St) (a : Action) (hs : step s a = some s') (t : Nat) (th' : Thr)
    (ht : s'.thr[t]? = some th') :
    ∃ th, s.thr[t]? = some th ∧ ∀ c d, d ∈ th'.unrep.get c → d ∈ th.unrep.get c ∨ d < s.nodes.length := by
  have key : ∀ (t0 : Nat) (th0 th0' : Thr), s.thr[t0]? = some th0 → s'.thr = s.thr.set t0 th0' →
      (∀ c d, d ∈ th0'.unrep.get c → d ∈ th0.unrep.get c ∨ d < s.nodes.length) →
      ∃ th, s.thr[t]? = some th ∧ ∀ c d, d ∈ th'.unrep.get c → d ∈ th.unrep.get c ∨ d < s.nodes.length := by
    intro t0 th0 th0' h0 hthr hsub
    rw [hthr] at ht
    rcases thr_set_cases _ _ _ _ _ ht with ⟨rfl, rfl⟩ | ⟨_, ht⟩
    · exact ⟨th0, h0, hsub⟩
    · exact ⟨th', ht, fun c d h => Or.inl h⟩
  cases a with
  | send t0 d0 ts =>
    simp only [step, send] at hs
    split at hs; · simp at hs
    rename_i th h
    split at hs <;> simp only [Option.some.injEq, reduceCtorEq] at hs
    rename_i hd
    subst hs
    refine key t0 th _ h rfl ?_
    intro c d hm
    rcases mem_two_set _ _ _ _ _ hm with h1 | h1
    · rcases List.mem_cons.1 h1 with rfl | h1
      · exact Or.inr hd
      · by_cases hc : c = th.colour
        · subst hc; exact Or.inl h1
        · exact Or.inl (by rw [Two.get_set_ne _ _ _ _ hc] at hm; exact hm)
    · exact Or.inl h1
  | deliver i t0 =>
    simp only [step, deliver] at hs
    split at hs
    · rename_i m th hm h
      split at hs <;> simp only [Option.some.injEq, reduceCtorEq] at hs
      subst hs
      exact key t0 th _ h rfl (fun c d h => Or.inl h)
    · simp at hs
  | flip t0 =>
    simp only [step, flip] at hs
    split at hs; · simp at hs
    rename_i th h
    split at hs <;> simp only [Option.some.injEq, reduceCtorEq] at hs
    subst hs
    exact key t0 th _ h rfl (fun c d h => Or.inl h)
  | report t0 =>
    simp only [step, report] at hs
    split at hs; · simp at hs
    rename_i th h
    split at hs; · simp at hs
    split at hs <;> simp only [Option.some.injEq, reduceCtorEq] at hs
    subst hs
    refine key t0 th _ h rfl ?_
    intro c d hm
    rcases mem_two_set _ _ _ _ _ hm with h1 | h1
    · simp at h1
    · exact Or.inl h1
  | collective t0 =>
    simp only [step, collective] at hs
    split at hs; · simp at hs
    rename_i th h
    split at hs; · simp at hs
    split at hs <;> simp only [Option.some.injEq, reduceCtorEq] at hs
    subst hs
    exact key t0 th _ h rfl (fun c d h => Or.inl h)
  | poll t0 =>
    simp only [step, poll] at hs
    split at hs; · simp at hs
    rename_i th h
    split at hs; · simp at hs
    split at hs <;> simp only [Option.some.injEq, reduceCtorEq] at hs
    subst hs
    exact key t0 th _ h rfl (fun c d h => Or.inl h)

/-- `d` lies in the slice of `total_sent` that the thread with this `rid` clears -/
def inSlice (K N rid d : Nat) : Prop := rid * (K / N + 1) ≤ d ∧ d < rid * (K / N + 1) + (K / N + 1)

theorem mem_cleanup (K N rid : Nat) (l : List Nat) (d : Nat) (h : d ∈ cleanup K N rid l) :
    d ∈ l ∧ ¬ inSlice K N rid d := by
  simp only [cleanup, List.mem_filter] at h
  refine ⟨h.1, ?_⟩
  have := h.2
  simp only [inSlice]
  simp at this
  omega

/-- frame of a step on `total_sent` of node `k` -/
theorem step_totalSent (s s' : St) (a : Action) (hs : step s a = some s') (k : Nat) (nd' : Node)
    (hk : s'.nodes[k]? = some nd') :
    ∃ nd, s.nodes[k]? = some nd ∧
      (∀ d ∈ nd'.totalSent, d ∈ nd.totalSent ∨
        ∃ t th, a = .report t ∧ s.thr[t]? = some th ∧ th.stage = .reduce ∧ d ∈ th.unrep.get (!th.colour)) ∧
      (∀ t th, a = .poll t → s.thr[t]? = some th → th.node = k → nd.totalRecv = 0 →
        ∀ d ∈ nd'.totalSent, ¬ inSlice s.nodes.length s.N th.rid d) := by
  cases a with
  | send t d ts =>
    simp only [step, send] at hs
    split at hs; · simp at hs
    split at hs <;> simp only [Option.some.injEq, reduceCtorEq] at hs
    subst hs; exact ⟨nd', hk, fun d h => Or.inl h, by intro _ _ h; cases h⟩
  | deliver i t =>
    simp only [step, deliver] at hs
    split at hs
    · split at hs <;> simp only [Option.some.injEq, reduceCtorEq] at hs
      subst hs; exact ⟨nd', hk, fun d h => Or.inl h, by intro _ _ h; cases h⟩
    · simp at hs
  | flip t =>
    simp only [step, flip] at hs
    split at hs; · simp at hs
    split at hs <;> simp only [Option.some.injEq, reduceCtorEq] at hs
    subst hs; exact ⟨nd', hk, fun d h => Or.inl h, by intro _ _ h; cases h⟩
  | report t =>
    simp only [step, report] at hs
    split at hs; · simp at hs
    rename_i th h
    split at hs; · simp at hs
    rename_i nd hnd
    split at hs <;> simp only [Option.some.injEq, reduceCtorEq] at hs
    rename_i hg
    subst hs
    rcases thr_set_cases _ _ _ _ _ hk with ⟨rfl, rfl⟩ | ⟨_, hk⟩
    · refine ⟨nd, hnd, ?_, by intro _ _ h; cases h⟩
      intro d hd
      rcases List.mem_append.1 hd with h1 | h1
      · exact Or.inl h1
      · exact Or.inr ⟨t, th, rfl, h, hg.1, h1⟩
    · exact ⟨nd', hk, fun d h => Or.inl h, by intro _ _ h; cases h⟩
  | collective t =>
    simp only [step, collective] at hs
    split at hs; · simp at hs
    rename_i th h
    split at hs; · simp at hs
    rename_i nd hnd
    split at hs <;> simp only [Option.some.injEq, reduceCtorEq] at hs
    subst hs
    rcases thr_set_cases _ _ _ _ _ hk with ⟨rfl, rfl⟩ | ⟨_, hk⟩
    · exact ⟨nd, hnd, fun d h => Or.inl h, by intro _ _ h; cases h⟩
    · exact ⟨nd', hk, fun d h => Or.inl h, by intro _ _ h; cases h⟩
  | poll t =>
    simp only [step, poll] at hs
    split at hs; · simp at hs
    rename_i th h
    split at hs; · simp at hs
    rename_i nd hnd
    split at hs <;> simp only [Option.some.injEq, reduceCtorEq] at hs
    subst hs
    rcases thr_set_cases _ _ _ _ _ hk with ⟨rfl, rfl⟩ | ⟨hne, hk⟩
    · refine ⟨nd, hnd, ?_, ?_⟩
      · intro d hd
        dsimp only at hd
        split at hd
        · exact Or.inl (mem_cleanup _ _ _ _ _ hd).1
        · exact Or.inl hd
      · intro t' th' ha ht' _ hz d hd
        cases ha
        rw [h] at ht'; cases ht'
        dsimp only at hd
        rw [if_pos hz] at hd
        exact (mem_cleanup _ _ _ _ _ hd).2
    · refine ⟨nd', hk, fun d h => Or.inl h, ?_⟩
      intro t' th' ha ht' hk'
      cases ha
      rw [h] at ht'; cases ht'
      exact absurd hk'.symm hne

end RootSim.GvtNode
