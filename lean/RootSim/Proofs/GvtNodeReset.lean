import RootSim.Proofs.GvtNodeDrain
/-! After a thread of node `k` has passed `node_sent_wait`, `total_msg_received` of `k` stays `0`. -/
namespace RootSim.GvtNode

/-- frame of a step: one thread is replaced, it keeps its node and `rid`; it enters
`node_phase_redux_second` only by a passing `poll` -/
theorem step_thr (s s' : St) (a : Action) (hs : step s a = some s') :
    ∃ t th th', s.thr[t]? = some th ∧ s'.thr = s.thr.set t th' ∧ th'.node = th.node ∧ th'.rid = th.rid ∧
      s'.N = s.N ∧ s'.nodes.length = s.nodes.length ∧
      (th'.stage = .redux2 → th.stage = .redux2 ∨ a = .poll t) := by
  cases a with
  | send t d ts =>
    simp only [step, send] at hs
    split at hs; · simp at hs
    rename_i th h
    split at hs <;> simp only [Option.some.injEq, reduceCtorEq] at hs
    subst hs
    exact ⟨t, th, _, h, rfl, rfl, rfl, rfl, rfl, fun h => Or.inl h⟩
  | deliver i t =>
    simp only [step, deliver] at hs
    split at hs
    · rename_i m th hm h
      split at hs <;> simp only [Option.some.injEq, reduceCtorEq] at hs
      subst hs
      exact ⟨t, th, _, h, rfl, rfl, rfl, rfl, rfl, fun h => Or.inl h⟩
    · simp at hs
  | flip t =>
    simp only [step, flip] at hs
    split at hs; · simp at hs
    rename_i th h
    split at hs <;> simp only [Option.some.injEq, reduceCtorEq] at hs
    subst hs
    exact ⟨t, th, _, h, rfl, rfl, rfl, rfl, rfl, fun h => by simp at h⟩
  | report t =>
    simp only [step, report] at hs
    split at hs; · simp at hs
    rename_i th h
    split at hs; · simp at hs
    split at hs <;> simp only [Option.some.injEq, reduceCtorEq] at hs
    subst hs
    refine ⟨t, th, _, h, rfl, rfl, rfl, rfl, by simp, fun h => ?_⟩
    dsimp only at h; split at h <;> simp at h
  | collective t =>
    simp only [step, collective] at hs
    split at hs; · simp at hs
    rename_i th h
    split at hs; · simp at hs
    split at hs <;> simp only [Option.some.injEq, reduceCtorEq] at hs
    subst hs
    exact ⟨t, th, _, h, rfl, rfl, rfl, rfl, by simp, fun h => by simp at h⟩
  | poll t =>
    simp only [step, poll] at hs
    split at hs; · simp at hs
    rename_i th h
    split at hs; · simp at hs
    split at hs <;> simp only [Option.some.injEq, reduceCtorEq] at hs
    subst hs
    exact ⟨t, th, _, h, rfl, rfl, rfl, rfl, by simp, fun _ => Or.inr rfl⟩

/-- how `total_msg_received` of node `k` can move in one step -/
theorem step_node_recv (s s' : St) (a : Action) (k : Nat) (nd' : Node) (hs : step s a = some s')
    (hk : s'.nodes[k]? = some nd') :
    ∃ nd, s.nodes[k]? = some nd ∧
      (nd'.totalRecv = nd.totalRecv
       ∨ (∃ t th, a = .report t ∧ s.thr[t]? = some th ∧ th.stage = .reduce)
       ∨ (∃ t th, a = .collective t ∧ s.thr[t]? = some th ∧ th.stage = .reduceWait ∧ th.node = k)
       ∨ (∃ t th, a = .poll t ∧ s.thr[t]? = some th ∧ th.node = k ∧ th.stage = .wait ∧
            nd'.totalRecv = nd.totalRecv + (th.recv.get (!th.colour) : Int))) := by
  cases a with
  | send t d ts =>
    simp only [step, send] at hs
    split at hs; · simp at hs
    split at hs <;> simp only [Option.some.injEq, reduceCtorEq] at hs
    subst hs; exact ⟨nd', hk, Or.inl rfl⟩
  | deliver i t =>
    simp only [step, deliver] at hs
    split at hs
    · split at hs <;> simp only [Option.some.injEq, reduceCtorEq] at hs
      subst hs; exact ⟨nd', hk, Or.inl rfl⟩
    · simp at hs
  | flip t =>
    simp only [step, flip] at hs
    split at hs; · simp at hs
    split at hs <;> simp only [Option.some.injEq, reduceCtorEq] at hs
    subst hs; exact ⟨nd', hk, Or.inl rfl⟩
  | report t =>
    simp only [step, report] at hs
    split at hs; · simp at hs
    rename_i th h
    split at hs; · simp at hs
    rename_i nd hnd
    split at hs <;> simp only [Option.some.injEq, reduceCtorEq] at hs
    rename_i hg
    subst hs
    rcases thr_set_cases _ _ _ _ _ hk with ⟨rfl, _⟩ | ⟨_, hk⟩
    · exact ⟨nd, hnd, Or.inr (Or.inl ⟨t, th, rfl, h, hg.1⟩)⟩
    · exact ⟨nd', hk, Or.inl rfl⟩
  | collective t =>
    simp only [step, collective] at hs
    split at hs; · simp at hs
    rename_i th h
    split at hs; · simp at hs
    rename_i nd hnd
    split at hs <;> simp only [Option.some.injEq, reduceCtorEq] at hs
    rename_i hg
    subst hs
    rcases thr_set_cases _ _ _ _ _ hk with ⟨rfl, _⟩ | ⟨_, hk⟩
    · exact ⟨nd, hnd, Or.inr (Or.inr (Or.inl ⟨t, th, rfl, h, hg.1, rfl⟩))⟩
    · exact ⟨nd', hk, Or.inl rfl⟩
  | poll t =>
    simp only [step, poll] at hs
    split at hs; · simp at hs
    rename_i th h
    split at hs; · simp at hs
    rename_i nd hnd
    split at hs <;> simp only [Option.some.injEq, reduceCtorEq] at hs
    rename_i hg
    subst hs
    rcases thr_set_cases _ _ _ _ _ hk with ⟨rfl, rfl⟩ | ⟨_, hk⟩
    · exact ⟨nd, hnd, Or.inr (Or.inr (Or.inr ⟨t, th, rfl, h, rfl, hg, rfl⟩))⟩
    · exact ⟨nd', hk, Or.inl rfl⟩

theorem nRedWait_pos (s : St) (t : Nat) (th : Thr) (h : s.thr[t]? = some th)
    (hr : th.stage = .reduceWait) : 1 ≤ nRedWait s th.node := by
  have h1 := countP_set' (fun th0 : Thr => decide (th0.node = th.node) && decide (th0.stage = .reduceWait))
    s.thr t th { th with stage := .redux1 } h
  simp [hr] at h1
  simp only [nRedWait]; omega

/-- once a reported thread of node `k` has seen `total_msg_received == 0`, it stays `0` -/
theorem recv_zero_step (old : Bool) (s s' : St) (a : Action) (hinv : Inv old s) (hs : step s a = some s')
    (t0 : Nat) (th0 : Thr) (nd nd' : Node) (h0 : s.thr[t0]? = some th0) (hr0 : th0.stage.reported = true)
    (hnd : s.nodes[th0.node]? = some nd) (hz : nd.totalRecv = 0) (hnd' : s'.nodes[th0.node]? = some nd') :
    nd'.totalRecv = 0 := by
  obtain ⟨d1, d2, _, d4, _⟩ := drained_of_zero old s hinv t0 th0 nd h0 hnd hr0 hz
  obtain ⟨nd1, hnd1, hc⟩ := step_node_recv s s' a th0.node nd' hs hnd'
  rw [hnd] at hnd1; cases hnd1
  rcases hc with hc | ⟨t, th, _, ht, hst⟩ | ⟨t, th, _, ht, hst, hk⟩ | ⟨t, th, _, ht, hk, hst, hv⟩
  · rw [hc, hz]
  · have := d2 t th ht; simp [hst, Stage.reported] at this
  · have h1 := nRedWait_pos s t th ht hst
    rw [hk] at h1
    have h2 := (hinv.node _ nd hnd).redwait
    simp [d1] at h2; omega
  · have hcol : th.colour = !old := (hinv.thr t th ht).col_post (by simp [hst])
    have := sumBy_eq_zero _ _ d4 th (List.mem_of_getElem? ht)
    simp [hk] at this
    rw [hv, hz, hcol]; simp [this]

/-- a thread in `node_phase_redux_second` implies `total_msg_received == 0` on its node -/
def PassedZero (s : St) : Prop :=
  ∀ (t : Nat) th nd, s.thr[t]? = some th → th.stage = .redux2 → s.nodes[th.node]? = some nd → nd.totalRecv = 0

theorem passedZero_step (old : Bool) (s s' : St) (a : Action) (hinv : Inv old s) (hp : PassedZero s)
    (hs : step s a = some s') : PassedZero s' := by
  intro t1 th1 nd1 h1 hst1 hnd1
  obtain ⟨t, th, th', hth, hthr, hn, _, _, hlen, hback⟩ := step_thr s s' a hs
  have T := hinv.thr t th hth
  -- some reported thread of the same node saw (or sees) 0 in `s`
  suffices h : ∃ (t0 : Nat) (th0 : Thr) (nd : Node), s.thr[t0]? = some th0 ∧ th0.stage.reported = true ∧
      th0.node = th1.node ∧ s.nodes[th0.node]? = some nd ∧ nd.totalRecv = 0 by
    obtain ⟨t0, th0, nd, h0, hr0, hk, hnd, hz⟩ := h
    exact recv_zero_step old s s' a hinv hs t0 th0 nd nd1 h0 hr0 hnd hz (hk ▸ hnd1)
  have old_case : ∀ (t0 : Nat) (th0 : Thr), s.thr[t0]? = some th0 → th0.stage = .redux2 → th0.node = th1.node →
      ∃ (t0 : Nat) (th0 : Thr) (nd : Node), s.thr[t0]? = some th0 ∧ th0.stage.reported = true ∧
        th0.node = th1.node ∧ s.nodes[th0.node]? = some nd ∧ nd.totalRecv = 0 := by
    intro t0 th0 h0 hs0 hk
    have hlt := (hinv.thr t0 th0 h0).node_lt
    exact ⟨t0, th0, s.nodes[th0.node], h0, by simp [hs0, Stage.reported], hk,
      List.getElem?_eq_getElem hlt, hp t0 th0 _ h0 hs0 (List.getElem?_eq_getElem hlt)⟩
  rw [hthr] at h1
  rcases thr_set_cases _ _ _ _ _ h1 with ⟨rfl, rfl⟩ | ⟨_, h1⟩
  · rcases hback hst1 with hb | rfl
    · exact old_case t1 th hth hb hn.symm
    · obtain ⟨th2, nd2, th2', p1, p2, p3, p4, p5, p6, _⟩ := poll_spec s s' t1 hs
      rw [hth] at p1; cases p1
      rw [hthr] at p4
      have hlt : t1 < s.thr.length := (List.getElem?_eq_some_iff.1 hth).1
      simp [hlt] at p4; subst p4
      exact ⟨t1, th, nd2, hth, by simp [p3, Stage.reported], hn.symm, p2, p6.1 hst1⟩
  · exact old_case t1 th1 h1 hst1 rfl

end RootSim.GvtNode
