import RootSim.Model.SeqSpec
import RootSim.Props.C15Heap
/-!
Helper lemmas for the reference semantics (C10): the event order on `Event`s (from C16), permutation
invariance of `Step`, persistence of minimal events, the diamond property for equal-content events with
different destinations.
-/
namespace RootSim
open RootSim.C15.Heap

/-! ### the event order on `Event` -/

theorem Event.toMsg_WF (e : Event) : e.toMsg.WF := by
  simp [Event.toMsg, Msg.WF]

theorem Event.toMsg_toEvent (e : Event) : e.toMsg.toEvent = e := by
  cases e; simp [Event.toMsg, Msg.toEvent, Msg.body]

theorem Event.before_irrefl (a : Event) : Event.before a a = false := C16.irrefl _

theorem Event.before_asymm (a b : Event) (h : Event.before a b = true) : Event.before b a = false :=
  C16.asymm _ _ h

theorem Event.before_ntrans (a b c : Event) (h1 : Event.before a b = false) (h2 : Event.before b c = false) :
    Event.before a c = false :=
  isBefore_strictWeak.ntrans _ _ _ a.toMsg_WF b.toMsg_WF c.toMsg_WF h1 h2

theorem Event.before_trans (a b c : Event) (h1 : Event.before a b = true) (h2 : Event.before b c = true) :
    Event.before a c = true :=
  C16.trans _ _ _ a.toMsg_WF b.toMsg_WF c.toMsg_WF h1 h2

/-- incomparable events have the same time, type and payload (they may differ in the destination only) -/
theorem Event.incomp_content (a b : Event) (h1 : Event.before a b = false) (h2 : Event.before b a = false) :
    a.t = b.t ∧ a.type = b.type ∧ a.payload = b.payload := by
  have := (C16.incomp_iff_content_eq a.toMsg b.toMsg a.toMsg_WF b.toMsg_WF).1 ⟨h1, h2⟩
  simp only [Msg.content, Event.toMsg, Msg.body, Prod.mk.injEq, List.take_length] at this
  exact ⟨this.1, this.2.2.1, this.2.2.2.2⟩

theorem Event.incomp_eq (a b : Event) (h1 : Event.before a b = false) (h2 : Event.before b a = false)
    (hd : a.dest = b.dest) : a = b := by
  obtain ⟨h3, h4, h5⟩ := Event.incomp_content a b h1 h2
  cases a; cases b; simp_all

/-- what the event order can see of an event: everything but the destination -/
def Event.content (e : Event) : Nat × Nat × List Nat := (e.t, e.type, e.payload)

/-- events with the same time, type and payload are interchangeable in the order -/
theorem Event.before_congr_left (a b x : Event) (h : a.t = b.t ∧ a.type = b.type ∧ a.payload = b.payload) :
    Event.before a x = Event.before b x := by
  apply C16.content_only <;> simp [Msg.content, Event.toMsg, Msg.body, Msg.anti, h.1, h.2.1, h.2.2]

theorem Event.before_congr_right (a b x : Event) (h : a.t = b.t ∧ a.type = b.type ∧ a.payload = b.payload) :
    Event.before x a = Event.before x b := by
  apply C16.content_only <;> simp [Msg.content, Event.toMsg, Msg.body, Msg.anti, h.1, h.2.1, h.2.2]

/-! ### steps of the reference semantics -/
section Steps
variable {σ : Type} {M : SimModel σ}

/-- same states and flags, pending events equal as multisets -/
def Cfg.Equiv (c d : Cfg σ) : Prop := c.st = d.st ∧ c.ended = d.ended ∧ c.pend.Perm d.pend

theorem Cfg.Equiv.refl (c : Cfg σ) : c.Equiv c := ⟨rfl, rfl, .refl _⟩
theorem Cfg.Equiv.symm {c d : Cfg σ} (h : c.Equiv d) : d.Equiv c := ⟨h.1.symm, h.2.1.symm, h.2.2.symm⟩

theorem minIn_perm {e : Event} {l l' : List Event} (hp : l.Perm l') (h : e.minIn l) : e.minIn l' :=
  ⟨hp.mem_iff.1 h.1, fun x hx => h.2 x (hp.mem_iff.2 hx)⟩

theorem Step.congr {c d c' : Cfg σ} {e : Event} (h : Step M c e c') (hd : d.Equiv c) : Step M d e c' := by
  obtain ⟨s, b, hmin, hs, hb, h1, h2, h3⟩ := h
  refine ⟨s, b, minIn_perm hd.2.2.symm hmin, by rw [hd.1]; exact hs, by rw [hd.2.1]; exact hb,
    by rw [hd.1]; exact h1, by rw [hd.2.1]; exact h2, ?_⟩
  exact h3.trans ((hd.2.2.symm.erase e).append_right _)

theorem Step.congr_right {c c' d' : Cfg σ} {e : Event} (h : Step M c e c') (hd : d'.Equiv c') : Step M c e d' := by
  obtain ⟨s, b, hmin, hs, hb, h1, h2, h3⟩ := h
  exact ⟨s, b, hmin, hs, hb, by rw [hd.1]; exact h1, by rw [hd.2.1]; exact h2, hd.2.2.trans h3⟩

/-- the successor of a step is unique up to the order of the pending list -/
theorem Step.result_equiv {c c1 c2 : Cfg σ} {e : Event} (h1 : Step M c e c1) (h2 : Step M c e c2) :
    c1.Equiv c2 := by
  obtain ⟨s, b, _, hs, hb, a1, a2, a3⟩ := h1
  obtain ⟨s', b', _, hs', hb', b1, b2, b3⟩ := h2
  rw [hs] at hs'; rw [hb] at hb'
  simp only [Option.some.injEq] at hs' hb'
  subst hs' hb'
  exact ⟨a1.trans b1.symm, a2.trans b2.symm, a3.trans b3.symm⟩

theorem Steps.append {c c' c'' : Cfg σ} {t1 t2 : List Event} (h1 : Steps M c t1 c') (h2 : Steps M c' t2 c'') :
    Steps M c (t1 ++ t2) c'' := by
  induction h1 with
  | nil => exact h2
  | cons hs _ ih => exact .cons hs (ih h2)

theorem Steps.congr {c d c' : Cfg σ} {tr : List Event} (h : Steps M c tr c') (hd : d.Equiv c) :
    ∃ d', Steps M d tr d' ∧ d'.Equiv c' := by
  cases h with
  | nil => exact ⟨d, .nil d, hd⟩
  | cons hs ht => exact ⟨c', .cons (hs.congr hd) ht, .refl _⟩

/-- an event that is minimal stays minimal while other events are dispatched (contract V2) -/
theorem minIn_after_step {c c2 : Cfg σ} {a g : Event} (ha : a.minIn c.pend) (hne : a ≠ g)
    (hs : Step M c g c2) (hv : ∀ s, c.st[g.dest]? = some s → M.validStep g.dest s g) : a.minIn c2.pend := by
  obtain ⟨s, b, hmin, hst, hb, h1, h2, h3⟩ := hs
  have hv' := hv s hst
  refine minIn_perm h3.symm ⟨?_, ?_⟩
  · exact List.mem_append_left _ ((List.mem_erase_of_ne hne).2 ha.1)
  · intro x hx
    rcases List.mem_append.1 hx with hx | hx
    · exact ha.2 x (List.mem_of_mem_erase hx)
    · exact Event.before_ntrans x g a (hv' x hx).1 (ha.2 g hmin.1)

/-- **diamond**: two minimal events for different LPs commute -/
theorem step_diamond {c c1 c2 c3 : Cfg σ} {a b : Event} (hd : a.dest ≠ b.dest)
    (ha : Step M c a c1) (hb : Step M c b c2) (hba : Step M c2 a c3)
    (hv : ∀ s, c.st[a.dest]? = some s → M.validStep a.dest s a) : Step M c1 b c3 := by
  obtain ⟨sa, ba, hmina, hsa, hea, a1, a2, a3⟩ := ha
  obtain ⟨sb, bb, hminb, hsb, heb, b1, b2, b3⟩ := hb
  obtain ⟨sa', ba', hmina', hsa', hea', c1', c2', c3'⟩ := hba
  have hne : a ≠ b := fun h => hd (by rw [h])
  rw [b1, List.getElem?_set_ne (fun h => hd h.symm)] at hsa'
  rw [b2, List.getElem?_set_ne (fun h => hd h.symm)] at hea'
  rw [hsa] at hsa'; rw [hea] at hea'
  simp only [Option.some.injEq] at hsa' hea'
  subst hsa' hea'
  have hva := hv sa hsa
  have hb_in : b ∈ c.pend.erase a := (List.mem_erase_of_ne hne.symm).2 hminb.1
  have ha_in : a ∈ c.pend.erase b := (List.mem_erase_of_ne hne).2 hmina.1
  refine ⟨sb, bb, minIn_perm a3.symm ⟨List.mem_append_left _ hb_in, ?_⟩, ?_, ?_, ?_, ?_, ?_⟩
  · intro x hx
    rcases List.mem_append.1 hx with hx | hx
    · exact hminb.2 x (List.mem_of_mem_erase hx)
    · exact Event.before_ntrans x a b (hva x hx).1 (hminb.2 a hmina.1)
  · rw [a1, List.getElem?_set_ne hd]; exact hsb
  · rw [a2, List.getElem?_set_ne hd]; exact heb
  · rw [c1', b1, a1, List.set_comm _ _ (fun h => hd h.symm)]
  · rw [c2', b2, a2, List.set_comm _ _ (fun h => hd h.symm)]
  · -- pending multisets
    refine c3'.trans ?_
    refine ((b3.erase a).append_right _).trans ?_
    refine List.Perm.trans ?_ (((a3.erase b).append_right _)).symm
    rw [List.erase_append_left _ ha_in, List.erase_append_left _ hb_in, List.erase_comm]
    simp only [List.append_assoc]
    exact List.Perm.append_left _ List.perm_append_comm

/-! ### confluence: per-LP dispatch sequences do not depend on the choices among minimal events -/

/-- every handler call that can be made from `c` on satisfies the contract -/
def GoodFrom (M : SimModel σ) (c : Cfg σ) : Prop :=
  ∀ tr c', Steps M c tr c' → ∀ e s, e.minIn c'.pend → c'.st[e.dest]? = some s → M.validStep e.dest s e

theorem GoodFrom.here {c : Cfg σ} (h : GoodFrom M c) {e : Event} (he : e.minIn c.pend) :
    ∀ s, c.st[e.dest]? = some s → M.validStep e.dest s e := fun s hs => h [] c (.nil c) e s he hs

theorem GoodFrom.step {c c' : Cfg σ} {e : Event} (h : GoodFrom M c) (hs : Step M c e c') : GoodFrom M c' :=
  fun tr c'' ht => h (e :: tr) c'' (.cons hs ht)

theorem GoodFrom.congr {c d : Cfg σ} (h : GoodFrom M c) (hd : d.Equiv c) : GoodFrom M d := by
  intro tr d' ht e s he hs
  obtain ⟨c', hc', heq⟩ := ht.congr hd.symm
  exact h tr c' hc' e s (minIn_perm heq.2.2.symm he) (by rw [heq.1]; exact hs)

/-- the events dispatched at LP `lp`, in order -/
def perLp (lp : Nat) (tr : List Event) : List Event := tr.filter (fun e => e.dest == lp)

/-- one list is a prefix of the other -/
def Comparable {α : Type} (l1 l2 : List α) : Prop := l1 <+: l2 ∨ l2 <+: l1

theorem Comparable.cons {α : Type} (a : α) {l1 l2 : List α} (h : Comparable l1 l2) :
    Comparable (a :: l1) (a :: l2) := by
  rcases h with h | h
  · exact .inl ((List.prefix_cons_inj a).2 h)
  · exact .inr ((List.prefix_cons_inj a).2 h)

theorem perLp_nil_of_ne (lp : Nat) (l : List Event) (h : ∀ x ∈ l, x.dest ≠ lp) : perLp lp l = [] := by
  unfold perLp
  rw [List.filter_eq_nil_iff]
  intro x hx; simpa using h x hx

theorem step_exists {c : Cfg σ} {e : Event} {s : σ} {b : Bool} (h : e.minIn c.pend)
    (hs : c.st[e.dest]? = some s) (hb : c.ended[e.dest]? = some b) : ∃ c', Step M c e c' :=
  ⟨⟨c.st.set e.dest (M.handler e.dest s e).1, c.ended.set e.dest (b || M.canEnd e.dest (M.handler e.dest s e).1),
    c.pend.erase e ++ (M.handler e.dest s e).2⟩, s, b, h, hs, hb, rfl, rfl, .refl _⟩

/-- a minimal event `a` can be moved to the front of any run: it commutes with everything dispatched before it -/
theorem pull_front {a : Event} : ∀ (B : List Event) (c c1 cB : Cfg σ), GoodFrom M c → Step M c a c1 →
    Steps M c B cB →
    (∃ B1 B2, B = B1 ++ a :: B2 ∧ (∀ x ∈ B1, x.dest ≠ a.dest ∧ x.content = a.content) ∧
      ∃ cB', Steps M c1 (B1 ++ B2) cB') ∨
    ((∀ x ∈ B, x.dest ≠ a.dest ∧ x.content = a.content) ∧ ∃ cB', Steps M c1 B cB') := by
  intro B
  induction B with
  | nil => intro c c1 cB _ _ _; exact .inr ⟨by simp, c1, .nil c1⟩
  | cons b B' ih =>
    intro c c1 cB hg ha hB
    cases hB with
    | cons hb hB' =>
      rename_i c2
      by_cases hab : b = a
      · subst hab
        obtain ⟨d, hd, _⟩ := hB'.congr (ha.result_equiv hb)
        exact .inl ⟨[], B', rfl, by simp, d, hd⟩
      · have hamin : a.minIn c.pend := by obtain ⟨_, _, h, _⟩ := ha; exact h
        have hbmin : b.minIn c.pend := by obtain ⟨_, _, h, _⟩ := hb; exact h
        have hdest : a.dest ≠ b.dest := by
          intro hd
          exact hab (Event.incomp_eq a b (hbmin.2 a hamin.1) (hamin.2 b hbmin.1) hd).symm
        have hamin2 : a.minIn c2.pend :=
          minIn_after_step hamin (fun h => hab h.symm) hb (hg.here hbmin)
        obtain ⟨c3, hc3⟩ : ∃ c3, Step M c2 a c3 := by
          obtain ⟨sa, ba, _, hsa, hea, _⟩ := ha
          obtain ⟨sb, bb, _, _, _, b1, b2, _⟩ := hb
          exact step_exists hamin2
            (by rw [b1, List.getElem?_set_ne (fun h => hdest h.symm)]; exact hsa)
            (by rw [b2, List.getElem?_set_ne (fun h => hdest h.symm)]; exact hea)
        have hdia : Step M c1 b c3 := step_diamond hdest ha hb hc3 (hg.here hamin)
        have hcont : b.content = a.content := by
          obtain ⟨h1, h2, h3⟩ := Event.incomp_content b a (hamin.2 b hbmin.1) (hbmin.2 a hamin.1)
          simp [Event.content, h1, h2, h3]
        rcases ih c2 c3 cB (hg.step hb) hc3 hB' with ⟨B1, B2, rfl, hB1, d, hd⟩ | ⟨hall, d, hd⟩
        · refine .inl ⟨b :: B1, B2, rfl, ?_, d, .cons hdia hd⟩
          intro x hx
          rcases List.mem_cons.1 hx with rfl | hx
          · exact ⟨fun h => hdest h.symm, hcont⟩
          · exact hB1 x hx
        · refine .inr ⟨?_, d, .cons hdia hd⟩
          intro x hx
          rcases List.mem_cons.1 hx with rfl | hx
          · exact ⟨fun h => hdest h.symm, hcont⟩
          · exact hall x hx

/-- **confluence**: for any two runs from the same configuration and every LP, the sequences of events
dispatched at that LP are prefix-comparable. -/
theorem steps_confluent : ∀ (n : Nat) (A B : List Event) (c cA cB : Cfg σ), A.length + B.length ≤ n →
    GoodFrom M c → Steps M c A cA → Steps M c B cB → ∀ lp, Comparable (perLp lp A) (perLp lp B) := by
  intro n
  induction n with
  | zero =>
    intro A B c cA cB hn _ _ _ lp
    have : A = [] := List.eq_nil_of_length_eq_zero (by omega)
    subst this; exact .inl (List.nil_prefix)
  | succ n ih =>
    intro A B c cA cB hn hg hA hB lp
    cases hA with
    | nil => exact .inl (List.nil_prefix)
    | cons ha hA' =>
      rename_i c1 a A'
      rcases pull_front B c c1 cB hg ha hB with ⟨B1, B2, rfl, hB1, d, hd⟩ | ⟨hall, d, hd⟩
      · have hlen : A'.length + (B1 ++ B2).length ≤ n := by
          simp only [List.length_cons, List.length_append] at hn ⊢; omega
        have hc := ih A' (B1 ++ B2) c1 cA d hlen (hg.step ha) hA' hd lp
        by_cases hlp : a.dest = lp
        · have e1 : perLp lp (a :: A') = a :: perLp lp A' := by simp [perLp, hlp]
          have e2 : perLp lp (B1 ++ a :: B2) = a :: perLp lp (B1 ++ B2) := by
            have z : perLp lp B1 = [] := perLp_nil_of_ne lp B1 (fun x hx => hlp ▸ (hB1 x hx).1)
            unfold perLp at z ⊢
            simp [List.filter_append, z, hlp]
          rw [e1, e2]; exact hc.cons a
        · have e1 : perLp lp (a :: A') = perLp lp A' := by simp [perLp, hlp]
          have e2 : perLp lp (B1 ++ a :: B2) = perLp lp (B1 ++ B2) := by
            simp [perLp, List.filter_append, hlp]
          rw [e1, e2]; exact hc
      · have hlen : A'.length + B.length ≤ n := by
          simp only [List.length_cons] at hn; omega
        have hc := ih A' B c1 cA d hlen (hg.step ha) hA' hd lp
        by_cases hlp : a.dest = lp
        · rw [perLp_nil_of_ne lp B (fun x hx => hlp ▸ (hall x hx).1)]
          exact .inr (List.nil_prefix)
        · have e1 : perLp lp (a :: A') = perLp lp A' := by simp [perLp, hlp]
          rw [e1]; exact hc

theorem map_const_middle {α β : Type} (f : α → β) (c : β) (l : List α) (r : List β) (h : ∀ x ∈ l, f x = c) :
    l.map f ++ c :: r = c :: (l.map f ++ r) := by
  induction l with
  | nil => rfl
  | cons x xs ih =>
    simp only [List.map_cons, List.cons_append]
    rw [ih (fun y hy => h y (List.mem_cons_of_mem _ hy)), h x List.mem_cons_self]

theorem comparable_cons_const {β : Type} (c : β) : ∀ (B X : List β), (∀ x ∈ B, x = c) →
    Comparable X B → Comparable (c :: X) B := by
  intro B
  induction B with
  | nil => intro X _ _; exact .inr List.nil_prefix
  | cons b B' ih =>
    intro X hB hc
    have hb : b = c := hB b List.mem_cons_self
    subst hb
    cases X with
    | nil => exact .inl ((List.prefix_cons_inj b).2 List.nil_prefix)
    | cons x X' =>
      have hx : x = b ∧ Comparable X' B' := by
        rcases hc with h | h
        · have := List.cons_prefix_cons.1 h; exact ⟨this.1, .inl this.2⟩
        · have := List.cons_prefix_cons.1 h; exact ⟨this.1.symm, .inr this.2⟩
      obtain ⟨rfl, hc'⟩ := hx
      exact (ih X' (fun y hy => hB y (List.mem_cons_of_mem _ hy)) hc').cons x

/-- **confluence, global form**: the sequences of dispatched contents `(t, type, payload)` — everything the
event order can see — of any two runs are prefix-comparable: runs differ only in the order in which
equal-content events for different LPs are dispatched. -/
theorem steps_confluent_content : ∀ (n : Nat) (A B : List Event) (c cA cB : Cfg σ), A.length + B.length ≤ n →
    GoodFrom M c → Steps M c A cA → Steps M c B cB →
    Comparable (A.map Event.content) (B.map Event.content) := by
  intro n
  induction n with
  | zero =>
    intro A B c cA cB hn _ _ _
    have : A = [] := List.eq_nil_of_length_eq_zero (by omega)
    subst this; exact .inl (List.nil_prefix)
  | succ n ih =>
    intro A B c cA cB hn hg hA hB
    cases hA with
    | nil => exact .inl (List.nil_prefix)
    | cons ha hA' =>
      rename_i c1 a A'
      rcases pull_front B c c1 cB hg ha hB with ⟨B1, B2, rfl, hB1, d, hd⟩ | ⟨hall, d, hd⟩
      · have hlen : A'.length + (B1 ++ B2).length ≤ n := by
          simp only [List.length_cons, List.length_append] at hn ⊢; omega
        have hc := ih A' (B1 ++ B2) c1 cA d hlen (hg.step ha) hA' hd
        simp only [List.map_append, List.map_cons] at hc ⊢
        rw [map_const_middle Event.content a.content B1 _ (fun x hx => (hB1 x hx).2)]
        exact hc.cons _
      · have hlen : A'.length + B.length ≤ n := by
          simp only [List.length_cons] at hn; omega
        have hc := ih A' B c1 cA d hlen (hg.step ha) hA' hd
        simp only [List.map_cons]
        apply comparable_cons_const a.content _ _ _ hc
        intro x hx
        obtain ⟨y, hy, rfl⟩ := List.mem_map.1 hx
        exact (hall y hy).2

theorem steps_length {c c' : Cfg σ} {tr : List Event} (h : Steps M c tr c') : c'.st.length = c.st.length := by
  induction h with
  | nil => rfl
  | cons hs _ ih =>
    obtain ⟨_, _, _, _, _, h1, _, _⟩ := hs
    rw [ih, h1]; simp

/-- the state of an LP is a function of the events it has processed -/
def runLp (M : SimModel σ) (lp : Nat) (s : σ) (es : List Event) : σ :=
  es.foldl (fun s e => (M.handler lp s e).1) s

theorem steps_state {c c' : Cfg σ} {tr : List Event} (h : Steps M c tr c') (lp : Nat) (s : σ)
    (hs : c.st[lp]? = some s) : c'.st[lp]? = some (runLp M lp s (perLp lp tr)) := by
  induction h generalizing s with
  | nil => simpa [perLp, runLp] using hs
  | @cons c c1 c2 e tr hstep _ ih =>
    obtain ⟨se, be, _, hse, _, h1, _, _⟩ := hstep
    by_cases hlp : e.dest = lp
    · subst hlp
      rw [hs] at hse; simp only [Option.some.injEq] at hse; subst hse
      have hlt : e.dest < c.st.length := by
        rcases Nat.lt_or_ge e.dest c.st.length with h | h
        · exact h
        · rw [List.getElem?_eq_none h] at hs; exact absurd hs (by simp)
      have := ih (M.handler e.dest s e).1 (by rw [h1, List.getElem?_set_self hlt])
      simpa [perLp, runLp] using this
    · have := ih s (by rw [h1, List.getElem?_set_ne hlp]; exact hs)
      simpa [perLp, runLp, hlp] using this

/-! ### reachable configurations, validity, the main phase -/

theorem Reachable.congr {c d : Cfg σ} (h : Reachable M c) (hd : d.Equiv c) : Reachable M d := by
  cases h with
  | init h1 h2 h3 => exact .init (hd.1.trans h1) (hd.2.1.trans h2) (hd.2.2.trans h3)
  | step hr hs => exact .step hr (hs.congr_right hd)

theorem Reachable.steps {c c' : Cfg σ} {tr : List Event} (h : Reachable M c) (ht : Steps M c tr c') :
    Reachable M c' := by
  induction ht with
  | nil => exact h
  | cons hs _ ih => exact ih (h.step hs)

theorem SimModel.Valid.goodFrom (hv : M.Valid) {c : Cfg σ} (h : Reachable M c) : GoodFrom M c :=
  fun _ c' ht e s he hs => hv.step c' (h.steps ht) e s he hs

theorem initStep_fold_st (l : List Nat) (c : Cfg σ) :
    ((l.foldl (initStep M) c).st.length = c.st.length) ∧ ((l.foldl (initStep M) c).ended = c.ended) := by
  induction l generalizing c with
  | nil => exact ⟨rfl, rfl⟩
  | cons x xs ih =>
    simp only [List.foldl_cons]
    obtain ⟨h1, h2⟩ := ih (initStep M c x)
    exact ⟨by rw [h1]; simp [initStep], by rw [h2]; simp [initStep]⟩

theorem initStep_fold_pend (hv : M.Valid) (l : List Nat) (hl : ∀ lp ∈ l, lp < M.nLps) (c : Cfg σ)
    (hc : ∀ x ∈ c.pend, x.dest < M.nLps ∧ x.type < LP_INIT) :
    ∀ x ∈ (l.foldl (initStep M) c).pend, x.dest < M.nLps ∧ x.type < LP_INIT := by
  induction l generalizing c with
  | nil => exact hc
  | cons y ys ih =>
    simp only [List.foldl_cons]
    apply ih (fun lp h => hl lp (List.mem_cons_of_mem _ h))
    intro x hx
    simp only [initStep, List.mem_append] at hx
    rcases hx with hx | hx
    · exact hc x hx
    · have := hv.init y (hl y List.mem_cons_self) x hx
      exact ⟨this.2.1, this.2.2⟩

/-- shape invariant of reachable configurations: one state and one flag per LP, destinations exist (V4) -/
theorem Reachable.shape (hv : M.Valid) {c : Cfg σ} (h : Reachable M c) :
    c.st.length = M.nLps ∧ c.ended.length = M.nLps ∧ ∀ x ∈ c.pend, x.dest < M.nLps := by
  induction h with
  | init h1 h2 h3 =>
    have a := initStep_fold_st (M := M) (List.range M.nLps) (initCfg0 M)
    have b := initStep_fold_pend hv (List.range M.nLps) (fun lp h => List.mem_range.1 h) (initCfg0 M)
      (by intro x hx; simp [initCfg0] at hx)
    refine ⟨?_, ?_, ?_⟩
    · rw [h1]; unfold initCfg; rw [a.1]; simp [initCfg0]
    · rw [h2]; unfold initCfg; rw [a.2]; simp [initCfg0]
    · intro x hx; exact (b x (h3.mem_iff.1 hx)).1
  | @step c c' e hr hs ih =>
    obtain ⟨s, b, hmin, hst, _, h1, h2, h3⟩ := hs
    refine ⟨by rw [h1]; simpa using ih.1, by rw [h2]; simpa using ih.2.1, ?_⟩
    intro x hx
    rcases List.mem_append.1 (h3.mem_iff.1 hx) with hx | hx
    · exact ih.2.2 x (List.mem_of_mem_erase hx)
    · exact ((hv.step c hr e s hmin hst) x hx).2.1

theorem MainRun.steps {termT : Nat} {timer : Nat → Bool} {k : Nat} {c c' : Cfg σ} {tr : List Event} {fin : Bool}
    (h : MainRun M termT timer k c tr c' fin) : Steps M c tr c' := by
  induction h with
  | cut => exact .nil _
  | empty => exact .nil _
  | stop hs _ => exact .cons hs (.nil _)
  | step hs _ _ ih => exact .cons hs ih

theorem MainRun.congr {termT : Nat} {timer : Nat → Bool} {k : Nat} {c d c' : Cfg σ} {tr : List Event} {fin : Bool}
    (h : MainRun M termT timer k c tr c' fin) (hd : d.Equiv c) :
    ∃ d', MainRun M termT timer k d tr d' fin ∧ d'.Equiv c' := by
  cases h with
  | cut => exact ⟨d, .cut k d, hd⟩
  | empty _ _ he => exact ⟨d, .empty k d (by have h2 := hd.2.2; rw [he] at h2; exact h2.eq_nil), hd⟩
  | stop hs hst => exact ⟨c', .stop (hs.congr hd) hst, .refl _⟩
  | step hs hst hr => exact ⟨c', .step (hs.congr hd) hst hr, .refl _⟩

/-! ### derived facts about every run: order and exactly-once accounting -/

/-- dispatches are in non-decreasing event order, and nothing pending is before anything dispatched -/
theorem steps_sorted {c c' : Cfg σ} {tr : List Event} (h : Steps M c tr c') (hg : GoodFrom M c) :
    tr.Pairwise (fun a b => Event.before b a = false) ∧ ∀ e ∈ tr, ∀ x ∈ c'.pend, Event.before x e = false := by
  induction h with
  | nil => exact ⟨.nil, by simp⟩
  | @cons c c1 c2 e tr hs hrest ih =>
    obtain ⟨ih1, ih2⟩ := ih (hg.step hs)
    have hmin : e.minIn c.pend := by obtain ⟨_, _, h, _⟩ := hs; exact h
    -- everything pending after the step is not before `e`; this persists
    have key : ∀ (d d' : Cfg σ) (t : List Event), Steps M d t d' → GoodFrom M d →
        (∀ x ∈ d.pend, Event.before x e = false) →
        (∀ y ∈ t, Event.before y e = false) ∧ (∀ x ∈ d'.pend, Event.before x e = false) := by
      intro d d' t ht
      induction ht with
      | nil => intro _ h; exact ⟨by simp, h⟩
      | @cons d d1 d2 g t hs' _ ih' =>
        intro hgd hp
        obtain ⟨s, b, hming, hst, _, _, _, h3⟩ := hs'
        have hv := hgd.here hming s hst
        have hd1 : ∀ x ∈ d1.pend, Event.before x e = false := by
          intro x hx
          rcases List.mem_append.1 (h3.mem_iff.1 hx) with hx | hx
          · exact hp x (List.mem_of_mem_erase hx)
          · exact Event.before_ntrans x g e (hv x hx).1 (hp g hming.1)
        obtain ⟨r1, r2⟩ := ih' (hgd.step ⟨s, b, hming, hst, ‹_›, ‹_›, ‹_›, h3⟩) hd1
        exact ⟨fun y hy => by
          rcases List.mem_cons.1 hy with rfl | hy
          · exact hp _ hming.1
          · exact r1 y hy, r2⟩
    have hc1 : ∀ x ∈ c1.pend, Event.before x e = false := by
      obtain ⟨s, b, _, hst, _, _, _, h3⟩ := hs
      have hv := hg.here hmin s hst
      intro x hx
      rcases List.mem_append.1 (h3.mem_iff.1 hx) with hx | hx
      · exact hmin.2 x (List.mem_of_mem_erase hx)
      · exact (hv x hx).1
    obtain ⟨k1, k2⟩ := key c1 c2 tr hrest (hg.step hs) hc1
    refine ⟨List.Pairwise.cons k1 ih1, ?_⟩
    intro y hy x hx
    rcases List.mem_cons.1 hy with rfl | hy
    · exact k2 x hx
    · exact ih2 y hy x hx

/-- replay of the handler calls of a dispatch sequence: final states and all events scheduled on the way -/
def replay (M : SimModel σ) : List σ → List Event → List σ × List Event
  | st, [] => (st, [])
  | st, e :: tr =>
    match st[e.dest]? with
    | some s =>
      let r := M.handler e.dest s e
      let rest := replay M (st.set e.dest r.1) tr
      (rest.1, r.2 ++ rest.2)
    | none => (st, [])

/-- **exactly once**: (initially pending) + (scheduled during the run) = (dispatched) + (still pending),
as multisets. -/
theorem steps_accounting {c c' : Cfg σ} {tr : List Event} (h : Steps M c tr c') :
    c'.st = (replay M c.st tr).1 ∧ (c.pend ++ (replay M c.st tr).2).Perm (tr ++ c'.pend) := by
  induction h with
  | nil => simp [replay]
  | @cons c c1 c2 e tr hs _ ih =>
    obtain ⟨s, b, hmin, hst, _, h1, _, h3⟩ := hs
    simp only [replay, hst]
    rw [h1] at ih
    refine ⟨ih.1, ?_⟩
    have p1 : c.pend.Perm (e :: c.pend.erase e) := List.perm_cons_erase hmin.1
    have p2 := ih.2
    -- c.pend ++ (outs ++ R) ~ e :: (erase ++ outs) ++ R ~ e :: c1.pend ++ R ~ e :: tr ++ c2.pend
    refine (List.Perm.append_right _ p1).trans ?_
    simp only [List.cons_append]
    refine List.Perm.cons e ?_
    rw [← List.append_assoc]
    exact (List.Perm.append_right _ h3.symm).trans p2

/-! ### models without simultaneous minimal events: the semantics is a function -/

/-- no two distinct events are ever simultaneously minimal: the model never has equal-content events for
different LPs at the front of the event list -/
def UniqueMin (M : SimModel σ) : Prop :=
  ∀ c, Reachable M c → ∀ a b : Event, a.minIn c.pend → b.minIn c.pend → a = b

theorem step_minIn {c c' : Cfg σ} {e : Event} (h : Step M c e c') : e.minIn c.pend := by
  obtain ⟨_, _, h, _⟩ := h; exact h

/-- without simultaneous minimal events the reference semantics is a function: complete runs with the same
timer oracle dispatch literally the same sequence -/
theorem mainRun_unique (hu : UniqueMin M) {termT : Nat} {timer : Nat → Bool} :
    ∀ {k : Nat} {c : Cfg σ} {A : List Event} {cA : Cfg σ}, MainRun M termT timer k c A cA true →
    ∀ {d : Cfg σ} {B : List Event} {cB : Cfg σ}, MainRun M termT timer k d B cB true → d.Equiv c → Reachable M c →
    A = B ∧ cA.st = cB.st := by
  intro k c A cA hA
  generalize hfin : true = fin at hA
  induction hA with
  | cut => exact absurd hfin (by simp)
  | empty k c he =>
    intro d B cB hB hd _
    have hdp : d.pend = [] := by have := hd.2.2; rw [he] at this; exact this.eq_nil
    cases hB with
    | empty => exact ⟨rfl, hd.1.symm⟩
    | stop hs _ => have := (step_minIn hs).1; rw [hdp] at this; exact absurd this (by simp)
    | step hs _ _ => have := (step_minIn hs).1; rw [hdp] at this; exact absurd this (by simp)
  | @stop k c c' e hs hst =>
    intro d B cB hB hd hr
    cases hB with
    | empty _ _ he =>
      have h1 := (step_minIn hs).1
      have h2 : c.pend = [] := by have := hd.2.2; rw [he] at this; exact this.symm.eq_nil
      rw [h2] at h1; exact absurd h1 (by simp)
    | @stop _ _ _ e' hs' hst' =>
      have hs'' := hs'.congr hd.symm
      have : e = e' := hu c hr e e' (step_minIn hs) (step_minIn hs'')
      subst this
      exact ⟨rfl, (hs.result_equiv hs'').1⟩
    | @step _ _ c'' _ e' _ _ hs' hst' _ =>
      have hs'' := hs'.congr hd.symm
      have : e = e' := hu c hr e e' (step_minIn hs) (step_minIn hs'')
      subst this
      have heq := hs.result_equiv hs''
      simp only [stopNow, Cfg.allEnded, heq.2.1] at hst
      simp only [stopNow, Cfg.allEnded] at hst'
      rw [hst] at hst'; exact absurd hst' (by simp)
  | @step k c c' c'' e tr fin hs hst hrest ih =>
    intro d B cB hB hd hr
    subst hfin
    cases hB with
    | empty _ _ he =>
      have h1 := (step_minIn hs).1
      have h2 : c.pend = [] := by have := hd.2.2; rw [he] at this; exact this.symm.eq_nil
      rw [h2] at h1; exact absurd h1 (by simp)
    | @stop _ _ _ e' hs' hst' =>
      have hs'' := hs'.congr hd.symm
      have : e = e' := hu c hr e e' (step_minIn hs) (step_minIn hs'')
      subst this
      have heq := hs.result_equiv hs''
      simp only [stopNow, Cfg.allEnded, heq.2.1] at hst
      simp only [stopNow, Cfg.allEnded] at hst'
      rw [hst] at hst'; exact absurd hst' (by simp)
    | @step _ _ d' _ e' trB _ hs' hst' hrestB =>
      have hs'' := hs'.congr hd.symm
      have : e = e' := hu c hr e e' (step_minIn hs) (step_minIn hs'')
      subst this
      have heq := hs.result_equiv hs''
      obtain ⟨i1, i2⟩ := ih rfl hrestB heq.symm (hr.step hs)
      exact ⟨by rw [i1], i2⟩

theorem uniqueMin_of_single_lp (hv : M.Valid) (h1 : M.nLps = 1) : UniqueMin M := by
  intro c hr a b ha hb
  obtain ⟨_, _, sh⟩ := hr.shape hv
  have hda := sh a ha.1
  have hdb := sh b hb.1
  exact Event.incomp_eq a b (hb.2 a ha.1) (ha.2 b hb.1) (by omega)

end Steps
end RootSim
