import RootSim.Proofs.SeqSpec
/-!
Helper lemmas for `ref_refines_spec` (C10): the sorted-list executor `refRun` of `Model/SeqSpec.lean` is a
run of the reference semantics.
-/
namespace RootSim
variable {σ : Type} {M : SimModel σ}

def SortedEv (l : List Event) : Prop := l.Pairwise (fun a b => Event.before b a = false)

theorem insertSorted_perm (e : Event) (l : List Event) : (insertSorted e l).Perm (e :: l) := by
  induction l with
  | nil => exact .refl _
  | cons x xs ih =>
    simp only [insertSorted]
    split
    · exact .refl _
    · exact (List.Perm.cons x ih).trans (List.Perm.swap e x xs)

theorem insertSorted_sorted (e : Event) (l : List Event) (h : SortedEv l) : SortedEv (insertSorted e l) := by
  induction l with
  | nil => simp [insertSorted, SortedEv]
  | cons x xs ih =>
    simp only [insertSorted]
    have hx := List.pairwise_cons.1 h
    split
    · rename_i hb
      refine List.pairwise_cons.2 ⟨?_, h⟩
      intro y hy
      rcases List.mem_cons.1 hy with rfl | hy
      · exact Event.before_asymm _ _ hb
      · cases hye : Event.before y e
        · rfl
        · have := Event.before_trans y e x hye hb
          rw [hx.1 y hy] at this; exact absurd this (by simp)
    · rename_i hb
      refine List.pairwise_cons.2 ⟨?_, ih hx.2⟩
      intro y hy
      rcases List.mem_cons.1 ((insertSorted_perm e xs).mem_iff.1 hy) with rfl | hy
      · simpa using hb
      · exact hx.1 y hy

theorem insertAllSorted_spec (es : List Event) : ∀ (l : List Event), SortedEv l →
    SortedEv (insertAllSorted es l) ∧ (insertAllSorted es l).Perm (l ++ es) := by
  induction es with
  | nil => intro l h; exact ⟨h, by simp [insertAllSorted]⟩
  | cons e es ih =>
    intro l h
    obtain ⟨h1, h2⟩ := ih (insertSorted e l) (insertSorted_sorted e l h)
    refine ⟨h1, h2.trans ?_⟩
    refine (List.Perm.append_right _ (insertSorted_perm e l)).trans ?_
    simp only [List.cons_append]
    exact List.perm_middle.symm

theorem sorted_head_minIn {e : Event} {rest : List Event} (h : SortedEv (e :: rest)) : e.minIn (e :: rest) := by
  refine ⟨List.mem_cons_self, ?_⟩
  intro x hx
  rcases List.mem_cons.1 hx with rfl | hx
  · exact Event.before_irrefl _
  · exact (List.pairwise_cons.1 h).1 x hx

def RefSt.cfg (S : RefSt σ) : Cfg σ := ⟨S.st, S.ended, S.pend⟩

theorem refMain_refines (hv : M.Valid) (termT : Nat) (timer : Nat → Bool) : ∀ (fuel k : Nat) (S : RefSt σ),
    SortedEv S.pend → Reachable M S.cfg →
    ∃ tr c', (refMain M termT timer fuel k S).1.traceRev = tr.reverse ++ S.traceRev ∧
      (refMain M termT timer fuel k S).1.st = c'.st ∧
      (((refMain M termT timer fuel k S).2 = .finished ∧ MainRun M termT timer k S.cfg tr c' true) ∨
       ((refMain M termT timer fuel k S).2 = .outOfFuel ∧ MainRun M termT timer k S.cfg tr c' false)) := by
  intro fuel
  induction fuel with
  | zero =>
    intro k S _ _
    exact ⟨[], S.cfg, by simp [refMain], by simp [refMain, RefSt.cfg], .inr ⟨by simp [refMain], .cut _ _⟩⟩
  | succ fuel ih =>
    intro k S hsorted hreach
    obtain ⟨sh1, sh2, sh3⟩ := hreach.shape hv
    cases hp : S.pend with
    | nil =>
      exact ⟨[], S.cfg, by simp [refMain, hp], by simp [refMain, hp, RefSt.cfg],
        .inl ⟨by simp [refMain, hp], .empty _ _ (by simp [RefSt.cfg, hp])⟩⟩
    | cons e rest =>
      rw [hp] at hsorted
      have hminIn : e.minIn S.cfg.pend := by
        show e.minIn S.pend
        rw [hp]; exact sorted_head_minIn hsorted
      have hdest : e.dest < M.nLps := sh3 _ hminIn.1
      obtain ⟨s, hs⟩ : ∃ s, S.st[e.dest]? = some s :=
        ⟨S.st[e.dest]'(by rw [show S.st.length = M.nLps from sh1]; exact hdest), List.getElem?_eq_getElem _⟩
      obtain ⟨b, hb⟩ : ∃ b, S.ended[e.dest]? = some b :=
        ⟨S.ended[e.dest]'(by rw [show S.ended.length = M.nLps from sh2]; exact hdest), List.getElem?_eq_getElem _⟩
      obtain ⟨hso, hpe⟩ := insertAllSorted_spec (M.handler e.dest s e).2 rest (List.pairwise_cons.1 hsorted).2
      let S' : RefSt σ :=
        { st := S.st.set e.dest (M.handler e.dest s e).1,
          ended := S.ended.set e.dest (b || M.canEnd e.dest (M.handler e.dest s e).1),
          pend := insertAllSorted (M.handler e.dest s e).2 rest, traceRev := e :: S.traceRev }
      have hstep : Step M S.cfg e S'.cfg := by
        refine ⟨s, b, hminIn, hs, hb, rfl, rfl, ?_⟩
        show (insertAllSorted _ rest).Perm (S.pend.erase e ++ _)
        rw [hp, List.erase_cons_head]; exact hpe
      have heq : refMain M termT timer (fuel + 1) k S =
          if S'.ended.all id || (timer k && decide (termT ≤ e.t)) then (S', .finished)
          else refMain M termT timer fuel (k + 1) S' := by
        simp only [refMain, hp, hs, hb]; rfl
      rw [heq]
      have hstop : stopNow termT timer k S'.cfg e = (S'.ended.all id || (timer k && decide (termT ≤ e.t))) := rfl
      by_cases hst : (S'.ended.all id || (timer k && decide (termT ≤ e.t))) = true
      · rw [if_pos hst]
        exact ⟨[e], S'.cfg, by simp [S'], rfl, .inl ⟨rfl, .stop hstep (hstop.trans hst)⟩⟩
      · rw [if_neg hst]
        have hst' : (S'.ended.all id || (timer k && decide (termT ≤ e.t))) = false := by simpa using hst
        obtain ⟨tr, c', t1, t2, t3⟩ := ih (k + 1) S' hso (hreach.step hstep)
        refine ⟨e :: tr, c', by rw [t1]; simp [S'], t2, ?_⟩
        rcases t3 with ⟨o, hm⟩ | ⟨o, hm⟩
        · exact .inl ⟨o, .step hstep (hstop.trans hst') hm⟩
        · exact .inr ⟨o, .step hstep (hstop.trans hst') hm⟩

def refInitStep (M : SimModel σ) (S : RefSt σ) (lp : Nat) : RefSt σ :=
  let r := M.handler lp (M.init lp) (initEvent lp)
  { S with st := S.st.set lp r.1, pend := insertAllSorted r.2 S.pend, traceRev := initEvent lp :: S.traceRev }

theorem refInit_fold : ∀ (l : List Nat) (S : RefSt σ) (c : Cfg σ), SortedEv S.pend → S.cfg.Equiv c →
    SortedEv (l.foldl (refInitStep M) S).pend ∧ (l.foldl (refInitStep M) S).cfg.Equiv (l.foldl (initStep M) c) ∧
    (l.foldl (refInitStep M) S).traceRev = (l.map initEvent).reverse ++ S.traceRev := by
  intro l
  induction l with
  | nil => intro S c h he; exact ⟨h, he, by simp⟩
  | cons lp rest ih =>
    intro S c h he
    obtain ⟨h1, h2⟩ := insertAllSorted_spec (M.handler lp (M.init lp) (initEvent lp)).2 S.pend h
    have he1 : (refInitStep M S lp).cfg.Equiv (initStep M c lp) := by
      refine ⟨?_, he.2.1, ?_⟩
      · show S.st.set lp _ = c.st.set lp _
        rw [show S.st = c.st from he.1]
      · exact h2.trans (List.Perm.append_right _ he.2.2)
    obtain ⟨i1, i2, i3⟩ := ih (refInitStep M S lp) (initStep M c lp) h1 he1
    refine ⟨i1, i2, ?_⟩
    simp only [List.foldl_cons]
    rw [i3]; simp [refInitStep]

theorem refInit_eq (M : SimModel σ) : refInit M = (List.range M.nLps).foldl (refInitStep M)
    { st := (List.range M.nLps).map M.init, ended := List.replicate M.nLps false, pend := [], traceRev := [] } := rfl

/-- the sorted-list executor is a run of the reference semantics -/
theorem refRun_isSpecRun (hv : M.Valid) (termT : Nat) (timer : Nat → Bool) (fuel : Nat) :
    IsSpecRun M termT timer (refRun M termT timer fuel) := by
  obtain ⟨hso, he, htr⟩ := refInit_fold (M := M) (List.range M.nLps)
    { st := (List.range M.nLps).map M.init, ended := List.replicate M.nLps false, pend := [], traceRev := [] }
    (initCfg0 M) (by simp [SortedEv]) ⟨rfl, rfl, .refl _⟩
  rw [← refInit_eq] at hso he htr
  have hreach : Reachable M (refInit M).cfg := .init he.1 he.2.1 he.2.2
  obtain ⟨tr, c', t1, t2, t3⟩ := refMain_refines hv termT timer fuel 0 (refInit M) hso hreach
  have htr0 : (refInit M).traceRev.reverse = initTrace M := by rw [htr]; simp [initTrace]
  unfold refRun
  rcases t3 with ⟨o, hm⟩ | ⟨o, hm⟩
  · obtain ⟨d', hd', hde⟩ := hm.congr (Cfg.Equiv.symm he)
    refine ⟨tr, d', .inl ?_⟩
    cases hres : refMain M termT timer fuel 0 (refInit M) with
    | mk S oc =>
    rw [hres] at t1 t2 o
    simp only at o t1 t2
    subst o
    refine ⟨rfl, hd', ?_, ?_⟩
    · simp only [t1, List.reverse_append, List.reverse_reverse, htr0]
    · simp only [t2, hde.1]
  · obtain ⟨d', hd', hde⟩ := hm.congr (Cfg.Equiv.symm he)
    refine ⟨tr, d', .inr ?_⟩
    cases hres : refMain M termT timer fuel 0 (refInit M) with
    | mk S oc =>
    rw [hres] at t1 t2 o
    simp only at o t1 t2
    subst o
    refine ⟨rfl, hd', ?_, ?_⟩
    · simp only [t1, List.reverse_append, List.reverse_reverse, htr0]
    · simp only [t2, hde.1]
end RootSim
