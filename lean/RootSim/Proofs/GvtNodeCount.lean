import RootSim.Proofs.GvtNodeReport
import RootSim.Proofs.GvtNodeColl
/-! The counting invariant of the node-level GVT round: holds at the start of a round, preserved by every
step, hence in every reachable state, for any number of nodes and threads and any interleaving. -/
namespace RootSim.GvtNode

theorem inv_step (old : Bool) (s s' : St) (a : Action) (hinv : Inv old s) (hs : step s a = some s') :
    Inv old s' := by
  cases a with
  | send t d ts => exact inv_send old s s' t d ts hinv hs
  | deliver i t => exact inv_deliver old s s' i t hinv hs
  | flip t => exact inv_flip old s s' t hinv hs
  | report t => exact inv_report old s s' t hinv hs
  | collective t => exact inv_collective old s s' t hinv hs
  | poll t => exact inv_poll old s s' t hinv hs

theorem inv_run (old : Bool) (as : List Action) (s s' : St) (hinv : Inv old s) (hs : run s as = some s') :
    Inv old s' := by
  induction as generalizing s with
  | nil => simp [run] at hs; subst hs; exact hinv
  | cons a as ih =>
    simp only [run] at hs
    split at hs
    · simp at hs
    · rename_i s1 h1; exact ih s1 (inv_step old s s1 a hinv h1) hs

theorem countP_false {α} (p : α → Bool) (l : List α) (h : ∀ a ∈ l, p a = false) : l.countP p = 0 := by
  rw [List.countP_eq_zero]; intro a ha; simp [h a ha]

theorem inv_of_roundStart (old : Bool) (s : St) (h : RoundStart old s) : Inv old s := by
  constructor
  · intro t th ht
    obtain ⟨h1, h2, h3⟩ := h.thr th (List.mem_of_getElem? ht)
    exact ⟨h1, fun _ => h2, fun hn => absurd h3 hn, fun hr => by simp [h3, Stage.reported] at hr⟩
  · intro k nd hk
    have hlt : k < s.nodes.length := (List.getElem?_eq_some_iff.1 hk).1
    have hnd := h.node nd (List.mem_of_getElem? hk)
    subst hnd
    have hrep : nReported s k = 0 := countP_false _ _ (by
      intro th hth; simp [(h.thr th hth).2.2, Stage.reported])
    have hrw : nRedWait s k = 0 := countP_false _ _ (by
      intro th hth; simp [(h.thr th hth).2.2])
    have hrt : reportedTo s k = 0 := sumBy_zero _ _ (by
      intro nd1 h1; simp [h.node nd1 h1, eff])
    have := h.npos
    refine ⟨h.nthr k hlt, by simp [hrep], by simp [hrw], by simp, ?_, by simp, ?_⟩
    · simp; omega
    · simp [hrt]; exact h.balance k hlt

end RootSim.GvtNode
