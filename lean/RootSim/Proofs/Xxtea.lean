import RootSim.Model.Rand
/-!
`xxtea_decode ∘ xxtea_encode = id` (xxtea.c), for blocks of every length `n ≥ 2` and every key.

The C loops thread a variable (`z` resp. `y`) that always equals a neighbour of the word being
updated; `stepE`/`stepD` are the same updates written without that variable.  Every encode step
adds to `v[p]` a function of the OTHER words, the matching decode step subtracts the same value.
-/
namespace RootSim.Rand

def Words (v : List Nat) : Prop := ∀ i, v.getD i 0 < 2 ^ 32

def nxt (n p : Nat) : Nat := if p + 1 = n then 0 else p + 1
def prv (n p : Nat) : Nat := if p = 0 then n - 1 else p - 1

/-- the encode update of word `p` -/
def stepE (key : List Nat) (sum e p : Nat) (v : List Nat) : List Nat :=
  v.set p ((v.getD p 0 + xxteaMx (v.getD (nxt v.length p) 0) (v.getD (prv v.length p) 0) sum p e key) % 2 ^ 32)

/-- the decode update of word `p` -/
def stepD (key : List Nat) (sum e p : Nat) (v : List Nat) : List Nat :=
  v.set p ((v.getD p 0 + (2 ^ 32 - xxteaMx (v.getD (nxt v.length p) 0) (v.getD (prv v.length p) 0) sum p e key)) % 2 ^ 32)

/-- `cnt` encode updates at `p, p+1, …` -/
def stepsE (key : List Nat) (sum e : Nat) : Nat → Nat → List Nat → List Nat
  | 0, _, v => v
  | c + 1, p, v => stepsE key sum e c (p + 1) (stepE key sum e p v)

/-- `cnt` decode updates at `p, p-1, …` -/
def stepsD (key : List Nat) (sum e : Nat) : Nat → Nat → List Nat → List Nat
  | 0, _, v => v
  | c + 1, p, v => stepsD key sum e c (p - 1) (stepD key sum e p v)

theorem getD_set_self (v : List Nat) (p a : Nat) (h : p < v.length) : (v.set p a).getD p 0 = a := by
  simp [List.getD_eq_getElem?_getD, List.getElem?_set_self h]

theorem getD_set_ne (v : List Nat) (p q a : Nat) (h : p ≠ q) : (v.set p a).getD q 0 = v.getD q 0 := by
  simp [List.getD_eq_getElem?_getD, List.getElem?_set_ne h]

theorem set_getD_self (v : List Nat) (p : Nat) (h : p < v.length) : v.set p (v.getD p 0) = v := by
  have : v.getD p 0 = v[p] := by simp [List.getD_eq_getElem?_getD, h]
  rw [this]; exact List.set_getElem_self h

theorem xxteaMx_lt (y z sum p e : Nat) (key : List Nat) : xxteaMx y z sum p e key < 2 ^ 32 := by
  unfold xxteaMx
  exact Nat.xor_lt_two_pow (Nat.mod_lt _ (by omega)) (Nat.mod_lt _ (by omega))

theorem length_stepE (key : List Nat) (sum e p : Nat) (v : List Nat) :
    (stepE key sum e p v).length = v.length := by simp [stepE]

theorem length_stepD (key : List Nat) (sum e p : Nat) (v : List Nat) :
    (stepD key sum e p v).length = v.length := by simp [stepD]

theorem words_set (v : List Nat) (p a : Nat) (hv : Words v) (ha : a < 2 ^ 32) : Words (v.set p a) := by
  intro i
  by_cases h : p = i
  · subst h
    by_cases hl : p < v.length
    · rw [getD_set_self v p a hl]; exact ha
    · have : v.set p a = v := by
        apply List.set_eq_of_length_le; omega
      rw [this]; exact hv p
  · rw [getD_set_ne v p i a h]; exact hv i

theorem words_stepE (key : List Nat) (sum e p : Nat) (v : List Nat) (hv : Words v) :
    Words (stepE key sum e p v) :=
  words_set v p _ hv (Nat.mod_lt _ (by omega))

theorem length_stepsE (key : List Nat) (sum e : Nat) (c p : Nat) (v : List Nat) :
    (stepsE key sum e c p v).length = v.length := by
  induction c generalizing p v with
  | zero => rfl
  | succ c ih => simp [stepsE, ih, length_stepE]

theorem words_stepsE (key : List Nat) (sum e : Nat) (c p : Nat) (v : List Nat) (hv : Words v) :
    Words (stepsE key sum e c p v) := by
  induction c generalizing p v with
  | zero => exact hv
  | succ c ih => exact ih _ _ (words_stepE key sum e p v hv)

/-- one decode update undoes the matching encode update -/
theorem stepD_stepE (key : List Nat) (sum e p : Nat) (v : List Nat) (hn : 2 ≤ v.length)
    (hp : p < v.length) (hv : Words v) : stepD key sum e p (stepE key sum e p v) = v := by
  have hnx : p ≠ nxt v.length p := by unfold nxt; split <;> omega
  have hpr : p ≠ prv v.length p := by unfold prv; split <;> omega
  unfold stepD
  rw [length_stepE]
  unfold stepE
  rw [getD_set_ne _ _ _ _ hnx, getD_set_ne _ _ _ _ hpr, getD_set_self _ _ _ hp, List.set_set]
  have hM := xxteaMx_lt (v.getD (nxt v.length p) 0) (v.getD (prv v.length p) 0) sum p e key
  have hx := hv p
  have : ((v.getD p 0 + xxteaMx (v.getD (nxt v.length p) 0) (v.getD (prv v.length p) 0) sum p e key) % 2 ^ 32
      + (2 ^ 32 - xxteaMx (v.getD (nxt v.length p) 0) (v.getD (prv v.length p) 0) sum p e key)) % 2 ^ 32
      = v.getD p 0 := by omega
  rw [this]
  exact set_getD_self v p hp

theorem stepsE_snoc (key : List Nat) (sum e : Nat) (c p : Nat) (v : List Nat) :
    stepsE key sum e (c + 1) p v = stepE key sum e (p + c) (stepsE key sum e c p v) := by
  induction c generalizing p v with
  | zero => rfl
  | succ c ih =>
    have := ih (p + 1) (stepE key sum e p v)
    have e1 : p + 1 + c = p + (c + 1) := by omega
    rw [e1] at this
    exact this

/-- `c` decode updates at `p+c-1, …, p` undo `c` encode updates at `p, …, p+c-1` -/
theorem stepsD_stepsE (key : List Nat) (sum e : Nat) (c p : Nat) (v : List Nat) (hn : 2 ≤ v.length)
    (hpc : p + c ≤ v.length) (hv : Words v) :
    stepsD key sum e c (p + c - 1) (stepsE key sum e c p v) = v := by
  induction c with
  | zero => rfl
  | succ c ih =>
    rw [stepsE_snoc]
    have e1 : p + (c + 1) - 1 = p + c := by omega
    rw [e1]
    rw [stepsD]
    rw [stepD_stepE key sum e (p + c) _ (by rw [length_stepsE]; exact hn) (by rw [length_stepsE]; omega)
      (words_stepsE key sum e c p v hv)]
    exact ih (by omega)

/-! ### the C loops are these updates -/

theorem encInner_eq (key : List Nat) (sum e : Nat) (cnt p : Nat) (v : List Nat) (z : Nat)
    (hp : p + cnt < v.length) (hz : z = v.getD (prv v.length p) 0) :
    encInner key sum e cnt p v z =
      (stepsE key sum e cnt p v, (stepsE key sum e cnt p v).getD (prv v.length (p + cnt)) 0) := by
  induction cnt generalizing p v z with
  | zero => simp [encInner, stepsE, hz]
  | succ c ih =>
    have hnx : nxt v.length p = p + 1 := by unfold nxt; split <;> omega
    have hstep : v.set p ((v.getD p 0 + xxteaMx (v.getD (p + 1) 0) z sum p e key) % 2 ^ 32)
        = stepE key sum e p v := by
      unfold stepE; rw [hnx, hz]
    unfold encInner
    simp only
    rw [hstep]
    have hlen := length_stepE key sum e p v
    have := ih (p + 1) (stepE key sum e p v)
      ((v.getD p 0 + xxteaMx (v.getD (p + 1) 0) z sum p e key) % 2 ^ 32)
      (by rw [hlen]; omega)
      (by
        rw [hlen]
        have : prv v.length (p + 1) = p := by unfold prv; split <;> omega
        rw [this, ← hstep, getD_set_self _ _ _ (by omega)])
    rw [this, hlen]
    have e1 : p + 1 + c = p + (c + 1) := by omega
    simp [stepsE, e1]

/-- one round of `xxtea_encode` = `n` updates at `0, …, n-1` -/
def roundE (key : List Nat) (sum : Nat) (v : List Nat) : List Nat :=
  stepsE key sum ((sum >>> 2) &&& 3) v.length 0 v

theorem encRound_eq (key : List Nat) (sum : Nat) (v : List Nat) (z : Nat) (hn : 2 ≤ v.length)
    (hz : z = v.getD (v.length - 1) 0) :
    encRound key sum v z = (roundE key sum v, (roundE key sum v).getD (v.length - 1) 0) := by
  have hpr0 : prv v.length 0 = v.length - 1 := by simp [prv]
  have h1 := encInner_eq key sum ((sum >>> 2) &&& 3) (v.length - 1) 0 v z (by omega) (by rw [hpr0]; exact hz)
  have hl := length_stepsE key sum ((sum >>> 2) &&& 3) (v.length - 1) 0 v
  have hround : roundE key sum v = stepE key sum ((sum >>> 2) &&& 3) (v.length - 1)
      (stepsE key sum ((sum >>> 2) &&& 3) (v.length - 1) 0 v) := by
    unfold roundE
    have : v.length = (v.length - 1) + 1 := by omega
    conv => lhs; rw [this, stepsE_snoc]
    simp
  unfold encRound
  simp only
  rw [h1]
  simp only
  have hnx : nxt v.length (v.length - 1) = 0 := by unfold nxt; split <;> omega
  have hstep : (stepsE key sum ((sum >>> 2) &&& 3) (v.length - 1) 0 v).set (v.length - 1)
      (((stepsE key sum ((sum >>> 2) &&& 3) (v.length - 1) 0 v).getD (v.length - 1) 0 +
        xxteaMx ((stepsE key sum ((sum >>> 2) &&& 3) (v.length - 1) 0 v).getD 0 0)
          ((stepsE key sum ((sum >>> 2) &&& 3) (v.length - 1) 0 v).getD (prv v.length (0 + (v.length - 1))) 0)
          sum (v.length - 1) ((sum >>> 2) &&& 3) key) % 2 ^ 32) = roundE key sum v := by
    rw [hround]
    unfold stepE
    rw [hl, hnx]
    simp
  rw [hstep]
  congr 1
  rw [← hstep, getD_set_self _ _ _ (by rw [hl]; omega)]

theorem length_roundE (key : List Nat) (sum : Nat) (v : List Nat) : (roundE key sum v).length = v.length :=
  length_stepsE _ _ _ _ _ _

theorem words_roundE (key : List Nat) (sum : Nat) (v : List Nat) (hv : Words v) : Words (roundE key sum v) :=
  words_stepsE _ _ _ _ _ _ hv

def roundsE (key : List Nat) : Nat → Nat → List Nat → List Nat
  | 0, _, v => v
  | r + 1, sum, v => roundsE key r ((sum + xxteaDelta) % 2 ^ 32) (roundE key sum v)

theorem encRounds_eq (key : List Nat) (r sum : Nat) (v : List Nat) (z : Nat) (hn : 2 ≤ v.length)
    (hz : z = v.getD (v.length - 1) 0) : encRounds key r sum v z = roundsE key r sum v := by
  induction r generalizing sum v z with
  | zero => rfl
  | succ r ih =>
    unfold encRounds roundsE
    simp only
    rw [encRound_eq key sum v z hn hz]
    simp only
    exact ih _ _ _ (by rw [length_roundE]; exact hn) (by rw [length_roundE])

theorem decInner_eq (key : List Nat) (sum e : Nat) (cnt p : Nat) (v : List Nat) (y : Nat)
    (hc : cnt ≤ p) (hp : p < v.length) (hy : y = v.getD (nxt v.length p) 0) :
    decInner key sum e cnt p v y =
      (stepsD key sum e cnt p v, (stepsD key sum e cnt p v).getD (nxt v.length (p - cnt)) 0) := by
  induction cnt generalizing p v y with
  | zero =>
    rw [decInner, stepsD, hy, Nat.sub_zero]
  | succ c ih =>
    have hpr : prv v.length p = p - 1 := by unfold prv; split <;> omega
    have hstep : v.set p ((v.getD p 0 + (2 ^ 32 - xxteaMx y (v.getD (p - 1) 0) sum p e key)) % 2 ^ 32)
        = stepD key sum e p v := by
      unfold stepD; rw [hpr, hy]
    unfold decInner
    simp only
    rw [hstep]
    have hlen := length_stepD key sum e p v
    have := ih (p - 1) (stepD key sum e p v)
      ((v.getD p 0 + (2 ^ 32 - xxteaMx y (v.getD (p - 1) 0) sum p e key)) % 2 ^ 32)
      (by omega) (by rw [hlen]; omega)
      (by
        rw [hlen]
        have : nxt v.length (p - 1) = p := by unfold nxt; split <;> omega
        rw [this, ← hstep, getD_set_self _ _ _ (by omega)])
    rw [this, hlen]
    have e1 : p - 1 - c = p - (c + 1) := by omega
    simp [stepsD, e1]

/-- one round of `xxtea_decode` = `n` updates at `n-1, …, 0` -/
def roundD (key : List Nat) (sum : Nat) (v : List Nat) : List Nat :=
  stepsD key sum ((sum >>> 2) &&& 3) v.length (v.length - 1) v

theorem length_stepsD (key : List Nat) (sum e : Nat) (c p : Nat) (v : List Nat) :
    (stepsD key sum e c p v).length = v.length := by
  induction c generalizing p v with
  | zero => rfl
  | succ c ih => simp [stepsD, ih, length_stepD]

theorem stepsD_snoc (key : List Nat) (sum e : Nat) (c p : Nat) (v : List Nat) :
    stepsD key sum e (c + 1) p v = stepD key sum e (p - c) (stepsD key sum e c p v) := by
  induction c generalizing p v with
  | zero => rfl
  | succ c ih =>
    have := ih (p - 1) (stepD key sum e p v)
    have e1 : p - 1 - c = p - (c + 1) := by omega
    rw [e1] at this
    exact this

theorem decRound_eq (key : List Nat) (sum : Nat) (v : List Nat) (y : Nat) (hn : 2 ≤ v.length)
    (hy : y = v.getD 0 0) :
    decRound key sum v y = (roundD key sum v, (roundD key sum v).getD 0 0) := by
  have hnx0 : nxt v.length (v.length - 1) = 0 := by unfold nxt; split <;> omega
  have h1 := decInner_eq key sum ((sum >>> 2) &&& 3) (v.length - 1) (v.length - 1) v y (by omega) (by omega)
    (by rw [hnx0]; exact hy)
  have hl := length_stepsD key sum ((sum >>> 2) &&& 3) (v.length - 1) (v.length - 1) v
  have hround : roundD key sum v = stepD key sum ((sum >>> 2) &&& 3) 0
      (stepsD key sum ((sum >>> 2) &&& 3) (v.length - 1) (v.length - 1) v) := by
    unfold roundD
    have : v.length = (v.length - 1) + 1 := by omega
    conv => lhs; rw [this, stepsD_snoc]
    simp
  unfold decRound
  simp only
  rw [h1]
  simp only
  have hnx : nxt v.length (v.length - 1 - (v.length - 1)) = 1 := by unfold nxt; split <;> omega
  have hpr : prv v.length 0 = v.length - 1 := by simp [prv]
  have hstep : (stepsD key sum ((sum >>> 2) &&& 3) (v.length - 1) (v.length - 1) v).set 0
      (((stepsD key sum ((sum >>> 2) &&& 3) (v.length - 1) (v.length - 1) v).getD 0 0 + (2 ^ 32 -
        xxteaMx ((stepsD key sum ((sum >>> 2) &&& 3) (v.length - 1) (v.length - 1) v).getD
            (nxt v.length (v.length - 1 - (v.length - 1))) 0)
          ((stepsD key sum ((sum >>> 2) &&& 3) (v.length - 1) (v.length - 1) v).getD (v.length - 1) 0)
          sum 0 ((sum >>> 2) &&& 3) key)) % 2 ^ 32) = roundD key sum v := by
    rw [hround]
    unfold stepD
    rw [hl, hnx, hpr]
    have : nxt v.length 0 = 1 := by unfold nxt; split <;> omega
    rw [this]
  rw [hstep]
  congr 1
  rw [← hstep, getD_set_self _ _ _ (by rw [hl]; omega)]

def roundsD (key : List Nat) : Nat → Nat → List Nat → List Nat
  | 0, _, v => v
  | r + 1, sum, v => roundsD key r ((sum + (2 ^ 32 - xxteaDelta)) % 2 ^ 32) (roundD key sum v)

theorem length_roundD (key : List Nat) (sum : Nat) (v : List Nat) : (roundD key sum v).length = v.length :=
  length_stepsD _ _ _ _ _ _

theorem decRounds_eq (key : List Nat) (r sum : Nat) (v : List Nat) (y : Nat) (hn : 2 ≤ v.length)
    (hy : y = v.getD 0 0) : decRounds key r sum v y = roundsD key r sum v := by
  induction r generalizing sum v y with
  | zero => rfl
  | succ r ih =>
    unfold decRounds roundsD
    simp only
    rw [decRound_eq key sum v y hn hy]
    simp only
    exact ih _ _ _ (by rw [length_roundD]; exact hn) rfl

/-- a decode round undoes the encode round with the same `sum` -/
theorem roundD_roundE (key : List Nat) (sum : Nat) (v : List Nat) (hn : 2 ≤ v.length) (hv : Words v) :
    roundD key sum (roundE key sum v) = v := by
  unfold roundD
  rw [length_roundE]
  unfold roundE
  have := stepsD_stepsE key sum ((sum >>> 2) &&& 3) v.length 0 v hn (by omega) hv
  simpa using this

/-- the `k`-th value of `sum`: `k * DELTA` on 32 bits -/
def sumAt (k : Nat) : Nat := (k * xxteaDelta) % 2 ^ 32

theorem sumAt_succ (k : Nat) : (sumAt k + xxteaDelta) % 2 ^ 32 = sumAt (k + 1) := by
  unfold sumAt xxteaDelta; omega

theorem sumAt_pred (k : Nat) : (sumAt (k + 1) + (2 ^ 32 - xxteaDelta)) % 2 ^ 32 = sumAt k := by
  unfold sumAt xxteaDelta; omega

theorem length_roundsE (key : List Nat) (r sum : Nat) (v : List Nat) : (roundsE key r sum v).length = v.length := by
  induction r generalizing sum v with
  | zero => rfl
  | succ r ih => simp [roundsE, ih, length_roundE]

theorem words_roundsE (key : List Nat) (r sum : Nat) (v : List Nat) (hv : Words v) : Words (roundsE key r sum v) := by
  induction r generalizing sum v with
  | zero => exact hv
  | succ r ih => exact ih _ _ (words_roundE key sum v hv)

theorem roundsE_snoc (key : List Nat) (r k : Nat) (v : List Nat) :
    roundsE key (r + 1) (sumAt (k + 1)) v = roundE key (sumAt (k + 1 + r)) (roundsE key r (sumAt (k + 1)) v) := by
  induction r generalizing k v with
  | zero => rfl
  | succ r ih =>
    have h := ih (k + 1) (roundE key (sumAt (k + 1)) v)
    have e1 : k + 1 + 1 + r = k + 1 + (r + 1) := by omega
    rw [e1] at h
    show roundsE key (r + 1) ((sumAt (k + 1) + xxteaDelta) % 2 ^ 32) (roundE key (sumAt (k + 1)) v) = _
    rw [sumAt_succ, h]
    show _ = roundE key _ (roundsE key r ((sumAt (k + 1) + xxteaDelta) % 2 ^ 32) (roundE key (sumAt (k + 1)) v))
    rw [sumAt_succ]

theorem roundsD_roundsE (key : List Nat) (r k : Nat) (v : List Nat) (hn : 2 ≤ v.length) (hv : Words v) :
    roundsD key r (sumAt (k + r)) (roundsE key r (sumAt (k + 1)) v) = v := by
  induction r with
  | zero => rfl
  | succ r ih =>
    rw [roundsE_snoc]
    have e1 : k + (r + 1) = k + 1 + r := by omega
    rw [e1]
    show roundsD key r ((sumAt (k + 1 + r) + (2 ^ 32 - xxteaDelta)) % 2 ^ 32)
      (roundD key (sumAt (k + 1 + r)) (roundE key (sumAt (k + 1 + r)) (roundsE key r (sumAt (k + 1)) v))) = v
    rw [roundD_roundE key _ _ (by rw [length_roundsE]; exact hn) (words_roundsE key r _ v hv)]
    have e2 : k + 1 + r = (k + r) + 1 := by omega
    rw [e2, sumAt_pred]
    exact ih

theorem length_xxteaEncodeCore (v key : List Nat) (hn : 2 ≤ v.length) :
    (xxteaEncodeCore v key).length = v.length := by
  unfold xxteaEncodeCore
  simp only
  rw [encRounds_eq key _ _ v _ hn rfl, length_roundsE]

/-- **XXTEA round trip**, every block length `≥ 2`, every key -/
theorem xxteaDecodeCore_encodeCore (v key : List Nat) (hn : 2 ≤ v.length) (hv : Words v) :
    xxteaDecodeCore (xxteaEncodeCore v key) key = v := by
  have hlen := length_xxteaEncodeCore v key hn
  unfold xxteaDecodeCore
  simp only
  rw [hlen]
  rw [decRounds_eq key _ _ _ _ (by rw [hlen]; exact hn) rfl]
  unfold xxteaEncodeCore
  simp only
  rw [encRounds_eq key _ _ v _ hn rfl]
  have hd : xxteaDelta = sumAt (0 + 1) := by unfold sumAt xxteaDelta; rfl
  have hs : (8 + 50 / v.length) * xxteaDelta % 2 ^ 32 = sumAt (0 + (8 + 50 / v.length)) := by
    unfold sumAt; simp
  rw [hs]
  conv => lhs; arg 4; rw [hd]
  exact roundsD_roundsE key _ 0 v hn hv

/-- the seeded block consists of 32-bit words -/
theorem seedWords_words (lp seed : Nat) (hl : lp < 2 ^ 64) (hs : seed < 2 ^ 64) : Words (seedWords lp seed) := by
  intro i
  unfold seedWords
  have h1 : lp / 2 ^ 32 < 2 ^ 32 := by omega
  have h2 : seed / 2 ^ 32 < 2 ^ 32 := by omega
  have h3 : lp % 2 ^ 32 < 2 ^ 32 := by omega
  have h4 : seed % 2 ^ 32 < 2 ^ 32 := by omega
  rcases i with _ | _ | _ | _ | _ | _ | _ | _ | i <;> simp [List.getD] <;> omega

end RootSim.Rand
