import RootSim.Model.Termination
/-!
# Specification ledger and invariants for `termination.c` (C07)

The *ledger* is the specification-side shadow of what the LPs of a thread have done: for each LP
whether the predicate held on the initial state (after `LP_INIT`, never undone) and the list of
history entries `(timestamp, predicate value on the state reached)` that have been processed and
not undone. It is independent of the code model: `proc` appends, a rollback keeps a prefix.
-/
namespace RootSim.Term

/-- specification shadow of one LP -/
structure LpL where
  initHeld : Bool
  hist     : List (Nat × Bool)
deriving Repr, DecidableEq

/-- the predicate held on a not-undone state with time stamp below `g` (the initial state counts) -/
def HeldBelow (l : LpL) (g : Nat) : Prop := l.initHeld = true ∨ ∃ e ∈ l.hist, e.2 = true ∧ e.1 < g

instance (l : LpL) (g : Nat) : Decidable (HeldBelow l g) := by
  unfold HeldBelow
  exact inferInstanceAs (Decidable (_ ∨ _))

/-- ledger of one thread -/
abbrev TL := List LpL

/-- effect of one thread-local operation on the thread's ledger -/
def tlInit (tl : TL) (term : Bool) : TL := tl ++ [⟨term, []⟩]
def tlProc (tl : TL) (i t : Nat) (term : Bool) : Option TL :=
  match tl[i]? with
  | none => none
  | some l => some (tl.set i { l with hist := l.hist ++ [(t, term)] })
def tlRb (tl : TL) (i k : Nat) : Option TL :=
  match tl[i]? with
  | none => none
  | some l => some (tl.set i { l with hist := l.hist.take k })

/-- environment assumption on a rollback caused by a straggler / anti-message with time stamp `s`
that keeps the first `k` entries: every undone entry has a time stamp `≥ s`. (Entries with time
stamp exactly `s` may or may not be undone: both directions are allowed.) -/
def RbOk (tl : TL) (i s k : Nat) : Prop := ∀ l, tl[i]? = some l → ∀ e ∈ l.hist.drop k, s ≤ e.1

/-- what makes the sentinel collision harmless: patched code, or a strictly positive time stamp -/
def TsOk (fix : Bool) (t : Nat) : Prop := fix = true ∨ 0 < t

/-- the invariant tying the code state of a thread to its ledger -/
structure TInv (fix : Bool) (th : Thread) (tl : TL) : Prop where
  len   : th.termT.length = tl.length
  small : th.termT.length < W64
  cnt   : th.lpsToEnd = th.termT.countP (fun x => !isSet fix x)
  maxle : th.maxT ≤ SIMTIME_MAX
  good  : ∀ (i : Nat) (x : Int) (l : LpL), th.termT[i]? = some x → tl[i]? = some l → isSet fix x = true →
            (x = (SIMTIME_MAX : Int) ∧ l.initHeld = true) ∨
            (∃ t : Nat, x = (t : Int) ∧ t ≤ th.maxT ∧ (t < SIMTIME_MAX → (t, true) ∈ l.hist))

theorem isSet_unset (fix : Bool) : isSet fix (unsetV fix) = false := by
  cases fix <;> simp [isSet, unsetV]

theorem isSet_max (fix : Bool) : isSet fix (SIMTIME_MAX : Int) = true := by
  cases fix <;> simp [isSet, SIMTIME_MAX]

theorem isSet_time (fix : Bool) (t : Nat) (h : TsOk fix t) : isSet fix (t : Int) = true := by
  rcases h with h | h
  · subst h; simp [isSet]
  · cases fix <;> simp [isSet] <;> omega

/-- a value that is not "set" is below every positive time stamp (below every time stamp if patched) -/
theorem lt_of_not_isSet (fix : Bool) (x : Int) (s : Nat) (h : isSet fix x = false) (hs : TsOk fix s) :
    x < (s : Int) := by
  rcases hs with hs | hs
  · subst hs; simp [isSet] at h; omega
  · cases fix <;> simp [isSet] at h <;> omega

theorem TInv.init (fix : Bool) : TInv fix Thread.init [] := by
  refine ⟨rfl, by simp [Thread.init, W64], rfl, by simp [Thread.init], ?_⟩
  intro i x l h; simp [Thread.init] at h

theorem tinv_lpInit (fix : Bool) (th : Thread) (tl : TL) (term : Bool) (h : TInv fix th tl)
    (hs : th.termT.length + 1 < W64) : TInv fix (lpInit fix th term) (tlInit tl term) := by
  obtain ⟨hlen, hsmall, hcnt, hmax, hgood⟩ := h
  have hle : th.termT.countP (fun x => !isSet fix x) ≤ th.termT.length := List.countP_le_length
  refine ⟨by simp [lpInit, tlInit, hlen], by simpa [lpInit] using hs, ?_, hmax, ?_⟩
  · simp only [lpInit, List.countP_append, List.countP_cons, List.countP_nil]
    cases term
    · simp only [isSet_unset, Bool.false_eq_true, if_false, Bool.not_false, if_true]
      rw [Nat.mod_eq_of_lt (by omega)]; omega
    · simp only [isSet_max, if_true, Bool.not_true, Bool.false_eq_true, if_false]
      rw [Nat.mod_eq_of_lt (by omega)]; omega
  · intro i x l hx hl hset
    simp only [lpInit, List.getElem?_append] at hx
    simp only [tlInit, List.getElem?_append] at hl
    by_cases hi : i < th.termT.length
    · have hi' : i < tl.length := by omega
      simp only [hi, if_true] at hx
      simp only [hi', if_true] at hl
      exact hgood i x l hx hl hset
    · have hi' : ¬ i < tl.length := by omega
      simp only [hi, if_false] at hx
      simp only [hi', if_false] at hl
      have h0 : i - th.termT.length = 0 ∨ i - th.termT.length ≥ 1 := by omega
      rcases h0 with h0 | h0
      · have h0' : i - tl.length = 0 := by omega
        rw [h0] at hx; rw [h0'] at hl
        simp only [List.getElem?_cons_zero, Option.some.injEq] at hx hl
        subst hl
        cases term
        · simp only [Bool.false_eq_true, if_false] at hx
          subst hx; rw [isSet_unset] at hset; cases hset
        · left; simp at hx; exact ⟨hx.symm, rfl⟩
      · have : (i - th.termT.length) = (i - th.termT.length - 1) + 1 := by omega
        rw [this] at hx; simp at hx

theorem tinv_proc (fix : Bool) (th th' : Thread) (tl tl' : TL) (i t : Nat) (term : Bool)
    (h : TInv fix th tl) (ht : TsOk fix t) (htm : t ≤ SIMTIME_MAX)
    (hc : onMsgProcess fix th i t term = some th') (hl : tlProc tl i t term = some tl') :
    TInv fix th' tl' := by
  obtain ⟨hlen, hsmall, hcnt, hmax, hgood⟩ := h
  unfold onMsgProcess at hc
  unfold tlProc at hl
  split at hc
  · cases hc
  · rename_i old hold
    split at hl
    · cases hl
    · rename_i l0 hl0
      simp only [Option.some.injEq] at hl
      subst hl
      have hi : i < th.termT.length := (List.getElem?_eq_some_iff.mp hold).1
      have hgi : th.termT[i] = old := (List.getElem?_eq_some_iff.mp hold).2
      by_cases hset : isSet fix old = true
      · -- early return: code state unchanged, ledger grows
        simp only [hset, if_true, Option.some.injEq] at hc
        subst hc
        refine ⟨by simp [hlen], hsmall, hcnt, hmax, ?_⟩
        intro j x l hx hl hs
        rw [List.getElem?_set] at hl
        by_cases hij : i = j
        · subst hij
          have : i < tl.length := by omega
          simp only [this, if_true, Option.some.injEq] at hl
          subst hl
          rcases hgood i x l0 hx hl0 hs with hh | ⟨t', h1, h2, h3⟩
          · left; exact hh
          · right; exact ⟨t', h1, h2, fun hh => List.mem_append_left _ (h3 hh)⟩
        · simp only [hij, if_false] at hl
          exact hgood j x l hx hl hs
      · have hset' : isSet fix old = false := by simpa using hset
        simp only [hset', Bool.false_eq_true, if_false, Option.some.injEq] at hc
        subst hc
        have hle : th.termT.countP (fun x => !isSet fix x) ≤ th.termT.length := List.countP_le_length
        have hpos : 0 < th.termT.countP (fun x => !isSet fix x) :=
          List.countP_pos_iff.mpr ⟨old, List.mem_of_getElem? hold, by simp [hset']⟩
        refine ⟨by simp [hlen], by simpa using hsmall, ?_, ?_, ?_⟩
        · simp only [List.countP_set hi, hgi, hset', Bool.not_false, if_true]
          cases term
          · simp only [Bool.false_eq_true, if_false, isSet_unset, Bool.not_false, if_true]
            rw [hcnt]
            have : (th.termT.countP (fun x => !isSet fix x) + W64 - 0) % W64 =
                th.termT.countP (fun x => !isSet fix x) := by
              rw [Nat.sub_zero, Nat.add_mod_right, Nat.mod_eq_of_lt (by omega)]
            rw [this]; omega
          · simp only [if_true, isSet_time fix t ht, Bool.not_true, Bool.false_eq_true, if_false]
            rw [hcnt]
            have : (th.termT.countP (fun x => !isSet fix x) + W64 - 1) % W64 =
                th.termT.countP (fun x => !isSet fix x) - 1 := by
              have : th.termT.countP (fun x => !isSet fix x) + W64 - 1 =
                  (th.termT.countP (fun x => !isSet fix x) - 1) + W64 := by omega
              rw [this, Nat.add_mod_right, Nat.mod_eq_of_lt (by omega)]
            rw [this]; omega
        · cases term <;> simp <;> omega
        · intro j x l hx hl hs
          simp only [List.getElem?_set] at hx hl
          by_cases hij : i = j
          · subst hij
            have hi2 : i < tl.length := by omega
            simp only [hi, hi2, if_true, Option.some.injEq] at hx hl
            subst hl
            cases term
            · simp only [Bool.false_eq_true, if_false] at hx
              subst hx; rw [isSet_unset] at hs; cases hs
            · simp only [if_true] at hx
              right
              refine ⟨t, hx.symm, by simp; omega, fun _ => ?_⟩
              simp
          · simp only [hij, if_false] at hx hl
            rcases hgood j x l hx hl hs with hh | ⟨t', h1, h2, h3⟩
            · left; exact hh
            · right; refine ⟨t', h1, ?_, h3⟩
              cases term <;> simp <;> omega

theorem tinv_rb (fix : Bool) (th th' : Thread) (tl tl' : TL) (i s k : Nat)
    (h : TInv fix th tl) (hs : TsOk fix s) (hrb : RbOk tl i s k)
    (hc : onRollback fix th i s = some th') (hl : tlRb tl i k = some tl') :
    TInv fix th' tl' := by
  obtain ⟨hlen, hsmall, hcnt, hmax, hgood⟩ := h
  unfold onRollback at hc
  unfold tlRb at hl
  split at hc
  · cases hc
  · rename_i old hold
    split at hl
    · cases hl
    · rename_i l0 hl0
      simp only [Option.some.injEq] at hl hc
      subst hl; subst hc
      have hi : i < th.termT.length := (List.getElem?_eq_some_iff.mp hold).1
      have hgi : th.termT[i] = old := (List.getElem?_eq_some_iff.mp hold).2
      have hi2 : i < tl.length := by omega
      have hle : th.termT.countP (fun x => !isSet fix x) ≤ th.termT.length := List.countP_le_length
      have hdrop := hrb l0 hl0
      by_cases hkeep : (decide (old < (s : Int)) || decide (old = (SIMTIME_MAX : Int))) = true
      · simp only [hkeep, if_true]
        refine ⟨by simp [hlen], by simpa using hsmall, ?_, hmax, ?_⟩
        · simp only [List.countP_set hi, hgi]
          rw [Nat.add_zero, Nat.mod_eq_of_lt (by omega), hcnt]
          have hpos : (!isSet fix old) = true → 0 < th.termT.countP (fun x => !isSet fix x) := fun hh =>
            List.countP_pos_iff.mpr ⟨old, List.mem_of_getElem? hold, hh⟩
          cases hh : isSet fix old
          · have := hpos (by simp [hh]); simp; omega
          · simp
        · intro j x l hx hl hst
          simp only [List.getElem?_set] at hx hl
          by_cases hij : i = j
          · subst hij
            simp only [hi, hi2, if_true, Option.some.injEq] at hx hl
            subst hl; subst hx
            rcases hgood i old l0 hold hl0 hst with hh | ⟨t', h1, h2, h3⟩
            · left; exact hh
            · right
              refine ⟨t', h1, h2, fun hlt => ?_⟩
              have hmem := h3 hlt
              rw [← List.take_append_drop k l0.hist] at hmem
              rcases List.mem_append.mp hmem with hm | hm
              · exact hm
              · have := hdrop _ hm
                simp only [Bool.or_eq_true, decide_eq_true_eq] at hkeep
                simp only at this
                simp only [SIMTIME_MAX] at hkeep hlt
                omega
          · simp only [hij, if_false] at hx hl
            exact hgood j x l hx hl hst
      · have hkeep' : (decide (old < (s : Int)) || decide (old = (SIMTIME_MAX : Int))) = false := by
          simpa using hkeep
        have holdset : isSet fix old = true := by
          cases hh : isSet fix old
          · have := lt_of_not_isSet fix old s hh hs
            simp only [Bool.or_eq_false_iff, decide_eq_false_iff_not] at hkeep'
            omega
          · rfl
        simp only [hkeep', Bool.false_eq_true, if_false]
        refine ⟨by simp [hlen], by simpa using hsmall, ?_, hmax, ?_⟩
        · simp only [List.countP_set hi, hgi, holdset, Bool.not_true, Bool.false_eq_true, if_false,
            isSet_unset, Bool.not_false, if_true]
          have hlt : th.termT.countP (fun x => !isSet fix x) < th.termT.length := by
            rcases Nat.lt_or_ge (th.termT.countP (fun x => !isSet fix x)) th.termT.length with h | h
            · exact h
            · have := List.countP_eq_length.mp (Nat.le_antisymm hle h) old (List.mem_of_getElem? hold)
              simp [holdset] at this
          rw [hcnt, Nat.mod_eq_of_lt (by omega)]; omega
        · intro j x l hx hl hst
          simp only [List.getElem?_set] at hx hl
          by_cases hij : i = j
          · subst hij
            simp only [hi, hi2, if_true, Option.some.injEq] at hx hl
            subst hx; rw [isSet_unset] at hst; cases hst
          · simp only [hij, if_false] at hx hl
            exact hgood j x l hx hl hst

/-- the vote: raising `max_t` to `SIMTIME_MAX` keeps the invariant -/
theorem tinv_vote (fix : Bool) (th : Thread) (tl : TL) (h : TInv fix th tl) :
    TInv fix { th with maxT := SIMTIME_MAX } tl := by
  obtain ⟨hlen, hsmall, hcnt, hmax, hgood⟩ := h
  refine ⟨hlen, hsmall, hcnt, Nat.le_refl _, ?_⟩
  intro i x l hx hl hs
  rcases hgood i x l hx hl hs with hh | ⟨t', h1, h2, h3⟩
  · left; exact hh
  · right; exact ⟨t', h1, Nat.le_trans h2 hmax, h3⟩

/-- **Thread-level soundness of a vote.** If the thread does not take the early return of
`termination_on_gvt(g)`, then every LP of the thread has its predicate true on a not-undone state
with time stamp below `g`, or `g` has reached the termination time. -/
theorem vote_sound (fix : Bool) (th : Thread) (tl : TL) (g ttime : Nat) (h : TInv fix th tl)
    (hg : g ≤ SIMTIME_MAX) (hv : noVote th g ttime = false) :
    (∀ l ∈ tl, HeldBelow l g) ∨ ttime ≤ g := by
  obtain ⟨hlen, hsmall, hcnt, hmax, hgood⟩ := h
  by_cases htt : ttime ≤ g
  · right; exact htt
  · left
    simp only [noVote, Bool.and_eq_false_iff, Bool.or_eq_false_iff, decide_eq_false_iff_not,
      Decidable.not_not] at hv
    rcases hv with ⟨h0, hm⟩ | hv
    · intro l hl
      obtain ⟨i, hi, hil⟩ := List.getElem_of_mem hl
      have hi' : i < th.termT.length := by omega
      have hx : th.termT[i]? = some th.termT[i] := List.getElem?_eq_getElem hi'
      have hl' : tl[i]? = some l := by rw [List.getElem?_eq_getElem hi, hil]
      have hz : th.termT.countP (fun x => !isSet fix x) = 0 := by omega
      have hall := List.countP_eq_zero.mp hz th.termT[i] (List.getElem_mem hi')
      have hs : isSet fix th.termT[i] = true := by simpa using hall
      rcases hgood i _ l hx hl' hs with ⟨_, hh⟩ | ⟨t', _, h2, h3⟩
      · left; exact hh
      · right; exact ⟨(t', true), h3 (by omega), rfl, by simp only; omega⟩
    · omega

/-- committed entries are stable: a rollback whose time stamp is `≥ g` keeps `HeldBelow · g` -/
theorem heldBelow_take (l : LpL) (g s k : Nat) (h : HeldBelow l g) (hs : g ≤ s)
    (hd : ∀ e ∈ l.hist.drop k, s ≤ e.1) : HeldBelow { l with hist := l.hist.take k } g := by
  rcases h with h | ⟨e, hm, ht, hlt⟩
  · left; exact h
  · right
    refine ⟨e, ?_, ht, hlt⟩
    rw [← List.take_append_drop k l.hist] at hm
    rcases List.mem_append.mp hm with hm | hm
    · exact hm
    · have := hd _ hm; omega

theorem heldBelow_append (l : LpL) (g : Nat) (e : Nat × Bool) (h : HeldBelow l g) :
    HeldBelow { l with hist := l.hist ++ [e] } g := by
  rcases h with h | ⟨e', hm, ht, hlt⟩
  · left; exact h
  · right; exact ⟨e', List.mem_append_left _ hm, ht, hlt⟩

theorem heldBelow_mono (l : LpL) (g g' : Nat) (h : HeldBelow l g) (hg : g ≤ g') : HeldBelow l g' := by
  rcases h with h | ⟨e, hm, ht, hlt⟩
  · left; exact h
  · right; exact ⟨e, hm, ht, by omega⟩

end RootSim.Term

namespace RootSim.Term

/-! ### The whole node together with the specification ledger -/

/-- code state + specification state (ledger and ghost bookkeeping of the votes) -/
structure Sys where
  node  : Node
  /-- ledger, per thread -/
  led   : List TL
  /-- per thread: the last GVT value handed to `termination_on_gvt` (0 before the first) -/
  lastG : List Nat
  /-- per thread: the GVT value at which it cast its first vote -/
  voteG : List (Option Nat)
  /-- some vote was cast at a GVT that had reached `termination_time` -/
  ttHit : Bool
  /-- `RootsimStop` was called or a termination message of another node arrived -/
  ext   : Bool

def Sys.init (nThreads nNodes ttime : Nat) : Sys :=
  { node := Node.init nThreads nNodes ttime, led := List.replicate nThreads [],
    lastG := List.replicate nThreads 0, voteG := List.replicate nThreads none,
    ttHit := false, ext := false }

/-- effect of an operation on the ledger -/
def ledStep (L : List TL) : Op → Option (List TL)
  | .lpInit ti term => match L[ti]? with
    | none => none
    | some tl => some (L.set ti (tlInit tl term))
  | .proc ti i t term => match L[ti]? with
    | none => none
    | some tl => match tlProc tl i t term with
      | none => none
      | some tl' => some (L.set ti tl')
  | .rb ti i _ k => match L[ti]? with
    | none => none
    | some tl => match tlRb tl i k with
      | none => none
      | some tl' => some (L.set ti tl')
  | _ => some L

/-- one operation on code state and specification state together -/
def sstep (fix : Bool) (nNodes : Nat) (s : Sys) (o : Op) : Option (Sys × Bool) :=
  match step fix nNodes s.node o, ledStep s.led o with
  | some (n', v), some L' =>
    some ({ node := n', led := L'
            lastG := match o with
              | .gvt ti g => s.lastG.set ti g
              | _ => s.lastG
            voteG := match o with
              | .gvt ti g => if v && s.voteG[ti]? == some none then s.voteG.set ti (some g) else s.voteG
              | _ => s.voteG
            ttHit := match o with
              | .gvt _ g => s.ttHit || (v && decide (s.node.ttime ≤ g))
              | _ => s.ttHit
            ext := match o with
              | .stop => true
              | .ctrl => true
              | _ => s.ext }, v)
  | _, _ => none

/-- `pos = true` additionally demands strictly positive time stamps (the hypothesis that excludes
finding F2 on the pinned code) -/
def TsReq (pos : Bool) (t : Nat) : Prop := pos = true → 0 < t

instance (pos : Bool) (t : Nat) : Decidable (TsReq pos t) := by unfold TsReq; infer_instance

/-- decidable form of `RbOk` -/
def RbOk' (tl : TL) (i s k : Nat) : Prop := ∀ l ∈ tl[i]?, ∀ e ∈ l.hist.drop k, s ≤ e.1

instance (tl : TL) (i s k : Nat) : Decidable (RbOk' tl i s k) := by unfold RbOk'; infer_instance

theorem RbOk'.rbOk {tl : TL} {i s k : Nat} (h : RbOk' tl i s k) : RbOk tl i s k :=
  fun l hl => h l (Option.mem_def.mpr hl)

/-- Environment assumptions under which an operation is issued. -/
def EnvOk (pos : Bool) (s : Sys) : Op → Prop
  | .lpInit ti _ => (∀ th ∈ s.node.thrs[ti]?, th.termT.length + 1 < W64) ∧
                     s.voteG[ti]? = some none      -- LPs are created before the thread sees a GVT
  | .proc _ _ t _ => TsReq pos t ∧ t ≤ SIMTIME_MAX  -- V3: finite time stamps
  | .rb ti i s' k => TsReq pos s' ∧ (∀ tl ∈ s.led[ti]?, RbOk' tl i s' k) ∧
                     (∀ g ∈ s.lastG[ti]?, g ≤ s')          -- C04: no rollback below the GVT
  | .gvt ti g => g ≤ SIMTIME_MAX ∧ (∀ g0 ∈ s.lastG[ti]?, g0 ≤ g)  -- C04: GVT monotone
  | .stop => True
  | .ctrl => True

instance (pos : Bool) (s : Sys) (o : Op) : Decidable (EnvOk pos s o) := by
  cases o <;> unfold EnvOk <;> infer_instance

/-- states reachable from initialisation by operations that respect the environment assumptions -/
inductive Reach (fix pos : Bool) (nNodes nThreads ttime : Nat) : Sys → Prop where
  | init : Reach fix pos nNodes nThreads ttime (Sys.init nThreads nNodes ttime)
  | step {s s' : Sys} {o : Op} {v : Bool} : Reach fix pos nNodes nThreads ttime s → EnvOk pos s o →
      sstep fix nNodes s o = some (s', v) → Reach fix pos nNodes nThreads ttime s'

/-- executable: run a list of operations, checking the environment assumptions on the way -/
def runChk (fix pos : Bool) (nNodes : Nat) (s : Sys) : List Op → Option Sys
  | [] => some s
  | o :: os =>
    if EnvOk pos s o then
      match sstep fix nNodes s o with
      | some (s', _) => runChk fix pos nNodes s' os
      | none => none
    else none

theorem reach_runChk (fix pos : Bool) (nNodes N ttime : Nat) (ops : List Op) :
    ∀ (s s' : Sys), Reach fix pos nNodes N ttime s → runChk fix pos nNodes s ops = some s' →
      Reach fix pos nNodes N ttime s' := by
  induction ops with
  | nil => intro s s' h hr; simp only [runChk, Option.some.injEq] at hr; subst hr; exact h
  | cons o os ih =>
    intro s s' h hr
    simp only [runChk] at hr
    split at hr
    · rename_i henv
      split at hr
      · rename_i s1 v hst
        exact ih s1 s' (Reach.step h henv hst) hr
      · cases hr
    · cases hr

/-- number of threads that have voted -/
def nVoted (s : Sys) : Nat := s.voteG.countP Option.isSome

structure SInv (fix : Bool) (nNodes N : Nat) (s : Sys) : Prop where
  l1 : s.node.thrs.length = N
  l2 : s.led.length = N
  l3 : s.lastG.length = N
  l4 : s.voteG.length = N
  nsmall : N < W32
  tinv : ∀ (ti : Nat) (th : Thread) (tl : TL), s.node.thrs[ti]? = some th → s.led[ti]? = some tl → TInv fix th tl
  cnt : s.ttHit = false → s.node.thrToEnd = N - nVoted s
  vmax : s.ttHit = false → ∀ (ti : Nat) (th : Thread) (gv : Nat), s.node.thrs[ti]? = some th →
          s.voteG[ti]? = some (some gv) → th.maxT = SIMTIME_MAX
  held : s.ttHit = false → ∀ (ti : Nat) (tl : TL) (gv lg : Nat), s.led[ti]? = some tl →
          s.voteG[ti]? = some (some gv) → s.lastG[ti]? = some lg → gv ≤ lg ∧ ∀ l ∈ tl, HeldBelow l gv
  nte : s.ttHit = false → s.ext = false →
          s.node.nodesToEnd = (nNodes : Int) ∨ (s.node.nodesToEnd = (nNodes : Int) - 1 ∧ nVoted s = N)

end RootSim.Term

namespace RootSim.Term

theorem sinv_init (fix : Bool) (nNodes N ttime : Nat) (hN : N < W32) :
    SInv fix nNodes N (Sys.init N nNodes ttime) := by
  refine ⟨by simp [Sys.init, Node.init], by simp [Sys.init], by simp [Sys.init], by simp [Sys.init], hN,
    ?_, ?_, ?_, ?_, ?_⟩
  · intro ti th tl h1 h2
    simp only [Sys.init, Node.init, List.getElem?_replicate] at h1 h2
    by_cases hlt : ti < N
    · simp only [hlt, if_true, Option.some.injEq] at h1 h2
      subst h1; subst h2; exact TInv.init fix
    · simp only [hlt, if_false] at h1; cases h1
  · intro _
    have : (List.replicate N (none : Option Nat)).countP Option.isSome = 0 := by
      rw [List.countP_eq_zero]; intro a ha; rw [List.mem_replicate] at ha; simp [ha.2]
    simp only [Sys.init, Node.init, nVoted, this]
    rw [Nat.mod_eq_of_lt hN]; rfl
  · intro _ ti th gv _ h
    simp only [Sys.init, List.getElem?_replicate] at h
    split at h <;> simp at h
  · intro _ ti tl gv lg _ h
    simp only [Sys.init, List.getElem?_replicate] at h
    split at h <;> simp at h
  · intro _ _; left; rfl

theorem updThread_some {n n' : Node} {ti : Nat} {f : Thread → Option Thread}
    (h : updThread n ti f = some n') :
    ∃ th th', n.thrs[ti]? = some th ∧ f th = some th' ∧ n' = { n with thrs := n.thrs.set ti th' } := by
  unfold updThread at h
  split at h
  · cases h
  · rename_i th hth
    split at h
    · cases h
    · rename_i th' hf
      simp only [Option.some.injEq] at h
      exact ⟨th, th', hth, hf, h.symm⟩

/-- common part of the three thread-local operations -/
theorem sinv_local (fix : Bool) (nNodes N : Nat) (s : Sys) (ti : Nat) (th th' : Thread) (tl tl' : TL)
    (hinv : SInv fix nNodes N s) (hth : s.node.thrs[ti]? = some th) (htl : s.led[ti]? = some tl)
    (h1 : TInv fix th' tl') (h2 : th.maxT = SIMTIME_MAX → th'.maxT = SIMTIME_MAX)
    (h3 : ∀ gv lg, s.voteG[ti]? = some (some gv) → s.lastG[ti]? = some lg → gv ≤ lg →
            (∀ l ∈ tl, HeldBelow l gv) → ∀ l ∈ tl', HeldBelow l gv) :
    SInv fix nNodes N { s with node := { s.node with thrs := s.node.thrs.set ti th' },
                               led := s.led.set ti tl' } := by
  obtain ⟨l1, l2, l3, l4, hN, tinv, cnt, vmax, held, nte⟩ := hinv
  have hti : ti < s.node.thrs.length := (List.getElem?_eq_some_iff.mp hth).1
  have hti2 : ti < s.led.length := (List.getElem?_eq_some_iff.mp htl).1
  refine ⟨by simpa using l1, by simpa using l2, l3, l4, hN, ?_, cnt, ?_, ?_, nte⟩
  · intro j thj tlj hj1 hj2
    simp only [List.getElem?_set] at hj1 hj2
    by_cases hij : ti = j
    · subst hij
      simp only [hti, hti2, if_true, Option.some.injEq] at hj1 hj2
      subst hj1; subst hj2; exact h1
    · simp only [hij, if_false] at hj1 hj2
      exact tinv j thj tlj hj1 hj2
  · intro htt j thj gv hj1 hj2
    simp only [List.getElem?_set] at hj1
    by_cases hij : ti = j
    · subst hij
      simp only [hti, if_true, Option.some.injEq] at hj1
      subst hj1
      exact h2 (vmax htt ti th gv hth hj2)
    · simp only [hij, if_false] at hj1
      exact vmax htt j thj gv hj1 hj2
  · intro htt j tlj gv lg hj1 hj2 hj3
    simp only [List.getElem?_set] at hj1
    by_cases hij : ti = j
    · subst hij
      simp only [hti2, if_true, Option.some.injEq] at hj1
      subst hj1
      have := held htt ti tl gv lg htl hj2 hj3
      exact ⟨this.1, h3 gv lg hj2 hj3 this.1 this.2⟩
    · simp only [hij, if_false] at hj1
      exact held htt j tlj gv lg hj1 hj2 hj3

theorem onMsgProcess_maxT {fix : Bool} {th th' : Thread} {i t : Nat} {term : Bool}
    (h : onMsgProcess fix th i t term = some th') (ht : t ≤ SIMTIME_MAX)
    (hm : th.maxT = SIMTIME_MAX) : th'.maxT = SIMTIME_MAX := by
  unfold onMsgProcess at h
  split at h
  · cases h
  · split at h
    · simp only [Option.some.injEq] at h; subst h; exact hm
    · simp only [Option.some.injEq] at h; subst h
      cases term <;> simp [hm] <;> omega

theorem onRollback_maxT {fix : Bool} {th th' : Thread} {i s : Nat}
    (h : onRollback fix th i s = some th') : th'.maxT = th.maxT := by
  unfold onRollback at h
  split at h
  · cases h
  · simp only [Option.some.injEq] at h; subst h; rfl

theorem mem_set_cases {α : Type} {l : List α} {i : Nat} {a b : α} (h : b ∈ l.set i a) : b = a ∨ b ∈ l := by
  rcases List.mem_or_eq_of_mem_set h with h | h
  · right; exact h
  · left; exact h

/-- the vote condition spelled out -/
theorem noVote_false {th : Thread} {g ttime : Nat} (h : noVote th g ttime = false) :
    (th.lpsToEnd = 0 ∧ th.maxT < g) ∨ ttime ≤ g := by
  simp only [noVote, Bool.and_eq_false_iff, Bool.or_eq_false_iff, decide_eq_false_iff_not,
    Decidable.not_not] at h
  omega

theorem countP_isSome_lt {l : List (Option Nat)} {i : Nat} (h : l[i]? = some none) :
    l.countP Option.isSome < l.length := by
  rcases Nat.lt_or_ge (l.countP Option.isSome) l.length with h' | h'
  · exact h'
  · have := List.countP_eq_length.mp (Nat.le_antisymm List.countP_le_length h') none (List.mem_of_getElem? h)
    simp at this

/-- **The invariant is preserved by every operation that respects the environment assumptions.** -/
theorem sinv_step (fix pos : Bool) (nNodes N : Nat) (s s' : Sys) (o : Op) (v : Bool)
    (hfp : fix = true ∨ pos = true)
    (hinv : SInv fix nNodes N s) (henv : EnvOk pos s o) (hs : sstep fix nNodes s o = some (s', v)) :
    SInv fix nNodes N s' := by
  have hts : ∀ t, TsReq pos t → TsOk fix t := by
    intro t ht
    rcases hfp with h | h
    · left; exact h
    · right; exact ht h
  unfold sstep at hs
  split at hs
  · rename_i n' v' L' hstep hled
    simp only [Option.some.injEq, Prod.mk.injEq] at hs
    obtain ⟨hs, hv⟩ := hs
    subst hv
    cases o with
    | lpInit ti term =>
      simp only [step, Option.map_eq_some_iff, Prod.mk.injEq] at hstep
      obtain ⟨n1, hupd, rfl, rfl⟩ := hstep
      obtain ⟨th, th', hth, hf, rfl⟩ := updThread_some hupd
      simp only [Option.some.injEq] at hf
      simp only [ledStep] at hled
      split at hled
      · cases hled
      · rename_i tl htl
        simp only [Option.some.injEq] at hled
        subst hled; subst hf; subst hs
        obtain ⟨he1, he2⟩ := henv
        refine sinv_local fix nNodes N s ti th _ tl _ hinv hth htl
          (tinv_lpInit fix th tl term (hinv.tinv ti th tl hth htl) (he1 th (Option.mem_def.mpr hth))) (fun h => h) ?_
        intro gv lg hvg; rw [he2] at hvg; cases hvg
    | proc ti i t term =>
      simp only [step, Option.map_eq_some_iff, Prod.mk.injEq] at hstep
      obtain ⟨n1, hupd, rfl, rfl⟩ := hstep
      obtain ⟨th, th', hth, hf, rfl⟩ := updThread_some hupd
      simp only [ledStep] at hled
      split at hled
      · cases hled
      · rename_i tl htl
        split at hled
        · cases hled
        · rename_i tl' htl'
          simp only [Option.some.injEq] at hled
          subst hled; subst hs
          obtain ⟨he1, he2⟩ := henv
          refine sinv_local fix nNodes N s ti th th' tl tl' hinv hth htl
            (tinv_proc fix th th' tl tl' i t term (hinv.tinv ti th tl hth htl) (hts t he1) he2 hf htl')
            (onMsgProcess_maxT hf he2) ?_
          intro gv lg _ _ _ hall l hl
          unfold tlProc at htl'
          split at htl'
          · cases htl'
          · rename_i l0 hl0
            simp only [Option.some.injEq] at htl'
            subst htl'
            rcases mem_set_cases hl with rfl | hl
            · exact heldBelow_append l0 gv _ (hall l0 (List.mem_of_getElem? hl0))
            · exact hall l hl
    | rb ti i s0 k =>
      simp only [step, Option.map_eq_some_iff, Prod.mk.injEq] at hstep
      obtain ⟨n1, hupd, rfl, rfl⟩ := hstep
      obtain ⟨th, th', hth, hf, rfl⟩ := updThread_some hupd
      simp only [ledStep] at hled
      split at hled
      · cases hled
      · rename_i tl htl
        split at hled
        · cases hled
        · rename_i tl' htl'
          simp only [Option.some.injEq] at hled
          subst hled; subst hs
          obtain ⟨he1, he2, he3⟩ := henv
          refine sinv_local fix nNodes N s ti th th' tl tl' hinv hth htl
            (tinv_rb fix th th' tl tl' i s0 k (hinv.tinv ti th tl hth htl) (hts s0 he1)
              (he2 tl (Option.mem_def.mpr htl)).rbOk hf htl')
            (fun h => by rw [onRollback_maxT hf]; exact h) ?_
          intro gv lg _ hlg hle hall l hl
          unfold tlRb at htl'
          split at htl'
          · cases htl'
          · rename_i l0 hl0
            simp only [Option.some.injEq] at htl'
            subst htl'
            rcases mem_set_cases hl with rfl | hl
            · exact heldBelow_take l0 gv s0 k (hall l0 (List.mem_of_getElem? hl0))
                (Nat.le_trans hle (he3 lg (Option.mem_def.mpr hlg)))
                ((he2 tl (Option.mem_def.mpr htl)).rbOk l0 hl0)
            · exact hall l hl
    | stop =>
      simp only [step, Option.some.injEq, Prod.mk.injEq] at hstep
      obtain ⟨rfl, rfl⟩ := hstep
      simp only [ledStep, Option.some.injEq] at hled
      subst hled; subst hs
      obtain ⟨l1, l2, l3, l4, hN, tinv, cnt, vmax, held, nte⟩ := hinv
      exact ⟨l1, l2, l3, l4, hN, tinv, cnt, vmax, held, fun _ h => (by cases h)⟩
    | ctrl =>
      simp only [step, Option.some.injEq, Prod.mk.injEq] at hstep
      obtain ⟨rfl, rfl⟩ := hstep
      simp only [ledStep, Option.some.injEq] at hled
      subst hled; subst hs
      obtain ⟨l1, l2, l3, l4, hN, tinv, cnt, vmax, held, nte⟩ := hinv
      exact ⟨l1, l2, l3, l4, hN, tinv, cnt, vmax, held, fun _ h => (by cases h)⟩
    | gvt ti g =>
      simp only [ledStep, Option.some.injEq] at hled
      subst hled
      obtain ⟨hg, hmono⟩ := henv
      obtain ⟨l1, l2, l3, l4, hN, tinv, cnt, vmax, held, nte⟩ := hinv
      simp only [step, onGvt] at hstep
      split at hstep
      · cases hstep
      · rename_i th hth
        have hti : ti < s.node.thrs.length := (List.getElem?_eq_some_iff.mp hth).1
        have hti3 : ti < s.lastG.length := by omega
        have hti4 : ti < s.voteG.length := by omega
        have hti2 : ti < s.led.length := by omega
        by_cases hnv : noVote th g s.node.ttime = true
        · -- no vote
          simp only [hnv, if_true, Option.some.injEq, Prod.mk.injEq] at hstep
          obtain ⟨rfl, rfl⟩ := hstep
          subst hs
          simp only [Bool.false_and, Bool.or_false, Bool.false_eq_true, if_false]
          refine ⟨l1, l2, by simpa using l3, l4, hN, tinv, cnt, vmax, ?_, nte⟩
          intro htt j tlj gv lg hj1 hj2 hj3
          simp only [List.getElem?_set] at hj3
          by_cases hij : ti = j
          · subst hij
            simp only [hti3, if_true, Option.some.injEq] at hj3
            subst hj3
            have hlg0 : s.lastG[ti]? = some s.lastG[ti] := List.getElem?_eq_getElem hti3
            have := held htt ti tlj gv _ hj1 hj2 hlg0
            exact ⟨Nat.le_trans this.1 (hmono _ (Option.mem_def.mpr hlg0)), this.2⟩
          · simp only [hij, if_false] at hj3
            exact held htt j tlj gv lg hj1 hj2 hj3
        · -- vote
          have hnv' : noVote th g s.node.ttime = false := by simpa using hnv
          simp only [hnv', Bool.false_eq_true, if_false, Option.some.injEq, Prod.mk.injEq] at hstep
          obtain ⟨hn', rfl⟩ := hstep
          have htl : s.led[ti]? = some s.led[ti] := List.getElem?_eq_getElem hti2
          have htinv' := tinv_vote fix th s.led[ti] (tinv ti th _ hth htl)
          have hthrs : n'.thrs = s.node.thrs.set ti { th with maxT := SIMTIME_MAX } := by
            rw [← hn']; split <;> rfl
          have htinv'' : ∀ (j : Nat) (thj : Thread) (tlj : TL), n'.thrs[j]? = some thj → s.led[j]? = some tlj →
              TInv fix thj tlj := by
            intro j thj tlj hj1 hj2
            rw [hthrs, List.getElem?_set] at hj1
            by_cases hij : ti = j
            · subst hij
              simp only [hti, if_true, Option.some.injEq] at hj1
              rw [htl] at hj2; simp only [Option.some.injEq] at hj2
              subst hj1; subst hj2; exact htinv'
            · simp only [hij, if_false] at hj1
              exact tinv j thj tlj hj1 hj2
          by_cases hnew : (s.ttHit || (true && decide (s.node.ttime ≤ g))) = true
          · -- termination time reached (now or before): only the structural part is claimed
            subst hs
            simp only [hnew]
            refine ⟨by rw [hthrs]; simpa using l1, l2, by simpa using l3, ?_, hN, htinv'',
              fun h => (by cases h), fun h => (by cases h), fun h => (by cases h), fun h => (by cases h)⟩
            simp only [Bool.true_and]; split <;> simp [l4]
          · have hnew' : (s.ttHit || (true && decide (s.node.ttime ≤ g))) = false := by simpa using hnew
            simp only [Bool.true_and, Bool.or_eq_false_iff, decide_eq_false_iff_not, Nat.not_le] at hnew'
            obtain ⟨htt, hgtt⟩ := hnew'
            rcases noVote_false hnv' with ⟨hz, hmx⟩ | hbad
            · -- predicate path: the thread has not voted before
              have hvg : s.voteG[ti]? = some none := by
                have h0 : s.voteG[ti]? = some s.voteG[ti] := List.getElem?_eq_getElem hti4
                cases hc : s.voteG[ti] with
                | none => rw [h0, hc]
                | some gv =>
                  rw [hc] at h0
                  have := vmax htt ti th gv hth h0
                  omega
              have hlt := countP_isSome_lt hvg
              have hgi : s.voteG[ti] = none := by
                have := (List.getElem?_eq_some_iff.mp hvg).2; exact this
              have hnv1 : (s.voteG.set ti (some g)).countP Option.isSome = nVoted s + 1 := by
                rw [List.countP_set hti4, hgi]; simp [nVoted]
              have hcnt := cnt htt
              subst hs
              simp only [Bool.true_and, hvg, beq_self_eq_true, if_true, htt, Bool.false_or]
              have hdec : decide (s.node.ttime ≤ g) = false := by simp; omega
              simp only [hdec]
              refine ⟨by rw [hthrs]; simpa using l1, l2, by simpa using l3, by simpa using l4, hN, htinv'',
                ?_, ?_, ?_, ?_⟩
              · intro _
                simp only [nVoted] at hlt ⊢
                rw [hnv1]
                have : n'.thrToEnd = (s.node.thrToEnd + W32 - 1) % W32 := by
                  rw [← hn']; split <;> rfl
                rw [this, hcnt]
                simp only [nVoted] at *
                have h1 : N - List.countP Option.isSome s.voteG + W32 - 1 =
                    (N - List.countP Option.isSome s.voteG - 1) + W32 := by omega
                rw [h1, Nat.add_mod_right, Nat.mod_eq_of_lt (by omega)]; omega
              · intro _ j thj gv hj1 hj2
                rw [hthrs, List.getElem?_set] at hj1
                rw [List.getElem?_set] at hj2
                by_cases hij : ti = j
                · subst hij
                  simp only [hti, if_true, Option.some.injEq] at hj1
                  subst hj1; rfl
                · simp only [hij, if_false] at hj1 hj2
                  exact vmax htt j thj gv hj1 hj2
              · intro _ j tlj gv lg hj1 hj2 hj3
                rw [List.getElem?_set] at hj2 hj3
                by_cases hij : ti = j
                · subst hij
                  simp only [hti3, hti4, if_true, Option.some.injEq] at hj2 hj3
                  subst hj2; subst hj3
                  refine ⟨Nat.le_refl _, ?_⟩
                  rw [htl] at hj1; simp only [Option.some.injEq] at hj1; subst hj1
                  rcases vote_sound fix th _ g s.node.ttime (tinv ti th _ hth htl) hg hnv' with h | h
                  · exact h
                  · omega
                · simp only [hij, if_false] at hj2 hj3
                  exact held htt j tlj gv lg hj1 hj2 hj3
              · intro _ hext
                simp only [nVoted] at hlt hcnt ⊢
                rw [hnv1]
                rcases nte htt hext with h | ⟨_, h⟩
                · rw [← hn']
                  by_cases h1 : s.node.thrToEnd = 1
                  · right
                    simp only [h1, if_true, onCtrlMsg]
                    refine ⟨by rw [h], ?_⟩
                    simp only [nVoted] at *; omega
                  · left; simp only [h1, if_false]; exact h
                · simp only [nVoted] at *; omega
            · omega
  · cases hs

theorem reach_sinv (fix pos : Bool) (nNodes N ttime : Nat) (hfp : fix = true ∨ pos = true) (hN : N < W32)
    (s : Sys) (h : Reach fix pos nNodes N ttime s) : SInv fix nNodes N s := by
  induction h with
  | init => exact sinv_init fix nNodes N ttime hN
  | step _ henv hs ih => exact sinv_step fix pos nNodes N _ _ _ _ hfp ih henv hs

end RootSim.Term
