import RootSim.Model.Refine
import RootSim.Proofs.LPFull
import RootSim.Proofs.TimeWarp
/-! Lemmas for the LP-local simulation theorems of `Props/C01Refine.lean`: the "sent entries are the handler's outputs" invariant
(`OInv`) and its preservation, the link between the concrete backward scans and `TW.splitUndo`, the projections of the action
trace of a step, the translation `replay` / `outsOf` ↔ `Spec.stFrom` / `Spec.outsFrom`. -/
namespace RootSim.Refine
open RootSim RootSim.LP RootSim.LPFull RootSim.Spec

variable {σ : Type}

/-! ### the invariant: every group `[sent* past p]` of the history holds exactly the outputs of the handler on `p` -/

/-- outputs of the deterministic re-execution of a list of messages (the concrete counterpart of `Spec.outsFrom`) -/
def outsOf (h : σ → Event → σ × List Event) (ev : Nat → Event) : σ → List Nat → List Event
  | _, [] => []
  | s, m :: ms => (h s (ev m)).2 ++ outsOf h ev (h s (ev m)).1 ms

/-- walk the history from the left with the LP state before the current group and the contents of the sent entries seen since
the last processed message: at every processed message `p` these are exactly the outputs of the handler on `p`. (Sent entries
after the last processed message are not constrained: they belong to a handler that is still running.) -/
def sentsOk (h : σ → Event → σ × List Event) (ev : Nat → Event) : σ → List Event → List Entry → Prop
  | _, _, [] => True
  | st, acc, .past p :: l => acc = (h st (ev p)).2 ∧ sentsOk h ev (h st (ev p)).1 [] l
  | st, acc, .sent o :: l => sentsOk h ev st (acc ++ [ev o]) l
  | st, acc, .rsent o :: l => sentsOk h ev st (acc ++ [ev o]) l

/-- layout `[sent* past]*`: empty, or the last entry is a processed message -/
def EndsPast (l : List Entry) : Prop := ∀ e, l.getLast? = some e → e.isPast = true

/-- **the output invariant** of one LP: the message table `ev` gives every sent entry of the history the content of the
corresponding output of the handler invocation that follows it (the one whose `past` entry closes the group), when the handler is
re-executed from `init` over the committed messages `base` and the processed entries before the group -/
def OInv (h : σ → Event → σ × List Event) (ev : Nat → Event) (init : σ) (base : List Nat) (lp : LPState σ) : Prop :=
  sentsOk h ev (replay h ev init base) [] lp.hist

/-- contents of the sent entries (local and remote) of a history segment, in order -/
def sentEvs (ev : Nat → Event) (l : List Entry) : List Event := (l.filter Entry.isSent).map (fun e => ev e.msg)

variable {h : σ → Event → σ × List Event} {ev : Nat → Event} {init : σ} {base : List Nat}

theorem replay_cons (h : σ → Event → σ × List Event) (ev : Nat → Event) (s : σ) (m : Nat) (ms : List Nat) :
    replay h ev s (m :: ms) = replay h ev (h s (ev m)).1 ms := rfl

theorem EndsPast.tail {x : Entry} {l : List Entry} (hl : EndsPast (x :: l)) : EndsPast l := by
  intro e he
  cases l with
  | nil => simp at he
  | cons a as => exact hl e (by rw [List.getLast?_cons_cons]; exact he)

theorem endsPast_nil : EndsPast [] := by intro e he; simp at he

theorem sentsOk_append (l2 : List Entry) : ∀ (A : List Entry), EndsPast A → ∀ (st : σ) (acc : List Event),
    (sentsOk h ev st acc (A ++ l2) ↔
      sentsOk h ev st acc A ∧ sentsOk h ev (replay h ev st (pastMsgs A)) (if A = [] then acc else []) l2)
  | [], _, st, acc => by simp [sentsOk, pastMsgs, replay]
  | .past p :: A', hA, st, acc => by
    have ih := sentsOk_append l2 A' hA.tail (h st (ev p)).1 []
    have hp : pastMsgs (Entry.past p :: A') = p :: pastMsgs A' := rfl
    simp only [List.cons_append, sentsOk, hp, replay_cons, ih, ite_self, reduceCtorEq, if_false, and_assoc]
  | .sent o :: A', hA, st, acc => by
    have hne : A' ≠ [] := by
      intro h0; subst h0
      have := hA (.sent o) rfl; simp [Entry.isPast] at this
    have ih := sentsOk_append l2 A' hA.tail st (acc ++ [ev o])
    have hp : pastMsgs (Entry.sent o :: A') = pastMsgs A' := rfl
    simp only [List.cons_append, sentsOk, hp, ih, hne, reduceCtorEq, if_false]
  | .rsent o :: A', hA, st, acc => by
    have hne : A' ≠ [] := by
      intro h0; subst h0
      have := hA (.rsent o) rfl; simp [Entry.isPast] at this
    have ih := sentsOk_append l2 A' hA.tail st (acc ++ [ev o])
    have hp : pastMsgs (Entry.rsent o :: A') = pastMsgs A' := rfl
    simp only [List.cons_append, sentsOk, hp, ih, hne, reduceCtorEq, if_false]

theorem sentEvs_cons_past (ev : Nat → Event) (p : Nat) (l : List Entry) : sentEvs ev (.past p :: l) = sentEvs ev l := by
  simp [sentEvs, Entry.isSent, Entry.isPast]
theorem sentEvs_cons_sent (ev : Nat → Event) (o : Nat) (l : List Entry) : sentEvs ev (.sent o :: l) = ev o :: sentEvs ev l := by
  simp [sentEvs, Entry.isSent, Entry.isPast, Entry.msg]
theorem sentEvs_cons_rsent (ev : Nat → Event) (o : Nat) (l : List Entry) : sentEvs ev (.rsent o :: l) = ev o :: sentEvs ev l := by
  simp [sentEvs, Entry.isSent, Entry.isPast, Entry.msg]

/-- in a segment with the layout `[sent* past]*` the contents of the sent entries are, in order, the outputs of the re-execution of
its processed messages -/
theorem sentsOk_outs : ∀ (l : List Entry) (st : σ) (acc : List Event), sentsOk h ev st acc l → EndsPast l → (l = [] → acc = []) →
    acc ++ sentEvs ev l = outsOf h ev st (pastMsgs l)
  | [], st, acc, _, _, h0 => by simp [h0 rfl, sentEvs, pastMsgs, outsOf]
  | .past p :: l, st, acc, hok, hl, _ => by
    obtain ⟨h1, h2⟩ := hok
    have ih := sentsOk_outs l _ [] h2 hl.tail (fun _ => rfl)
    have hp : pastMsgs (Entry.past p :: l) = p :: pastMsgs l := rfl
    rw [sentEvs_cons_past, hp, outsOf, ← ih, h1]; simp
  | .sent o :: l, st, acc, hok, hl, _ => by
    have hne : l ≠ [] := by
      intro h0; subst h0
      have := hl (.sent o) rfl; simp [Entry.isPast] at this
    have ih := sentsOk_outs l st (acc ++ [ev o]) hok hl.tail (fun h0 => absurd h0 hne)
    have hp : pastMsgs (Entry.sent o :: l) = pastMsgs l := rfl
    rw [sentEvs_cons_sent, hp, ← ih]; simp
  | .rsent o :: l, st, acc, hok, hl, _ => by
    have hne : l ≠ [] := by
      intro h0; subst h0
      have := hl (.rsent o) rfl; simp [Entry.isPast] at this
    have ih := sentsOk_outs l st (acc ++ [ev o]) hok hl.tail (fun h0 => absurd h0 hne)
    have hp : pastMsgs (Entry.rsent o :: l) = pastMsgs l := rfl
    rw [sentEvs_cons_rsent, hp, ← ih]; simp

/-- the group pushed by a forward execution: the allocator's ordinals `alloc k, alloc (k+1), …` carry the contents `evs` -/
theorem sentsOk_outEntries (remote : Nat → Bool) (alloc : Nat → Nat) (m : Nat) : ∀ (evs : List Event) (k : Nat) (st : σ)
    (acc : List Event), (∀ i, (hi : i < evs.length) → ev (alloc (k + i)) = evs[i]) →
    (sentsOk h ev st acc (outEntries remote alloc k evs ++ [Entry.past m]) ↔ acc ++ evs = (h st (ev m)).2)
  | [], k, st, acc, _ => by simp [outEntries, sentsOk]
  | e :: es, k, st, acc, hal => by
    have h0 : ev (alloc k) = e := by have := hal 0 (by simp); simpa using this
    have ih := sentsOk_outEntries remote alloc m es (k + 1) st (acc ++ [e]) (by
      intro i hi
      have := hal (i + 1) (by simp; omega)
      simpa [Nat.add_assoc, Nat.add_comm 1 i] using this)
    simp only [outEntries]
    split <;> simp [sentsOk, h0, ih]

/-! ### `replay` / `outsOf` are `Spec.stFrom` / `Spec.outsFrom` on the contents -/

theorem replay_eq_stFrom (M : SimModel σ) (ℓ : Nat) (ev : Nat → Event) : ∀ (ms : List Nat) (s : σ),
    replay (M.handler ℓ) ev s ms = stFrom M ℓ s (ms.map ev)
  | [], _ => rfl
  | m :: ms, s => by rw [replay_cons, List.map_cons, stFrom, replay_eq_stFrom M ℓ ev ms]

theorem outsOf_eq_outsFrom (M : SimModel σ) (ℓ : Nat) (ev : Nat → Event) : ∀ (ms : List Nat) (s : σ),
    outsOf (M.handler ℓ) ev s ms = outsFrom M ℓ s (ms.map ev)
  | [], _ => rfl
  | m :: ms, s => by rw [outsOf, List.map_cons, outsFrom, outsOf_eq_outsFrom M ℓ ev ms]

theorem replay_eq_lpState (M : SimModel σ) (ℓ : Nat) (ev : Nat → Event) (ms : List Nat) :
    replay (M.handler ℓ) ev (M.init ℓ) ms = lpState M ℓ (ms.map ev) := replay_eq_stFrom M ℓ ev ms _

/-! ### `TW.splitUndo`, characterised -/

theorem splitUndo_all (e : Event) : ∀ (U : List Event), (∀ x ∈ U, Event.before e x = true) → TW.splitUndo e U = ([], U)
  | [], _ => rfl
  | x :: l, hU => by
    have ih := splitUndo_all e l (fun y hy => hU y (by simp [hy]))
    simp [TW.splitUndo, ih, hU x (by simp)]

/-- `splitUndo` returns `(K, U)` as soon as everything in `U` is after `e` and the last entry of `K` (if any) is not -/
theorem splitUndo_eq (e : Event) (U : List Event) (hU : ∀ x ∈ U, Event.before e x = true) : ∀ (K : List Event),
    (∀ y, K.getLast? = some y → Event.before e y = false) → TW.splitUndo e (K ++ U) = (K, U)
  | [], _ => splitUndo_all e U hU
  | [a], hK => by
    have ha : Event.before e a = false := hK a rfl
    simp [TW.splitUndo, splitUndo_all e U hU, ha]
  | a :: b :: K', hK => by
    have ih := splitUndo_eq e U hU (b :: K') (fun y hy => hK y (by rw [List.getLast?_cons_cons]; exact hy))
    have h1 : TW.splitUndo e (a :: b :: K' ++ U) =
        if (TW.splitUndo e (b :: K' ++ U)).1.isEmpty && Event.before e a then ([], a :: (TW.splitUndo e (b :: K' ++ U)).2)
        else (a :: (TW.splitUndo e (b :: K' ++ U)).1, (TW.splitUndo e (b :: K' ++ U)).2) := by
      simp only [List.cons_append]; rw [TW.splitUndo]
    rw [h1, ih]; simp

/-! ### projections of the action trace -/

theorem sends_append (a b : List Action) : sends (a ++ b) = sends a ++ sends b := by
  simp [sends, List.filterMap_append]

theorem sends_undo (c : Option Nat) : ∀ es : List Entry, sends (undoActions c es) = []
  | [] => rfl
  | .past m :: es => by simpa [undoActions, sends] using sends_undo c es
  | .sent m :: es => by simpa [undoActions, sends] using sends_undo c es
  | .rsent m :: es => by simpa [undoActions, sends] using sends_undo c es

theorem sends_silent (sil : List (Nat × Nat)) : sends (sil.map (fun im => Action.silent im.1 im.2)) = [] := by
  induction sil with
  | nil => rfl
  | cons a as ih => simp [sends]

theorem sends_rollbackActs (c : Option Nat) (es : List Entry) (i ref : Nat) (sil : List (Nat × Nat)) :
    sends (undoActions c es ++ [.rollback i ref] ++ sil.map (fun im => Action.silent im.1 im.2) ++ [.rollbackDone i]) = [] := by
  simp [sends_append, sends_undo]; simp [sends]

theorem sends_outActions (remote : Nat → Bool) (alloc : Nat → Nat) : ∀ (evs : List Event) (k : Nat),
    sends (outActions remote alloc k evs) = ((List.range' k evs.length).map alloc).zip evs
  | [], _ => rfl
  | e :: es, k => by
    have ih := sends_outActions remote alloc es (k + 1)
    simp only [outActions]
    split <;> simp [sends, List.range'_succ] at ih ⊢ <;> exact ih

theorem unprocs_outActions (remote : Nat → Bool) (alloc : Nat → Nat) : ∀ (evs : List Event) (k : Nat),
    unprocs (outActions remote alloc k evs) = []
  | [], _ => rfl
  | e :: es, k => by
    have := unprocs_outActions remote alloc es (k + 1)
    simp only [outActions]
    split <;> simpa [unprocs] using this

theorem antis_outActions (remote : Nat → Bool) (alloc : Nat → Nat) : ∀ (evs : List Event) (k : Nat),
    antis (outActions remote alloc k evs) = []
  | [], _ => rfl
  | e :: es, k => by
    have := antis_outActions remote alloc es (k + 1)
    simp only [outActions]
    split <;> simpa [antis] using this

theorem stepFwd_proj (remote : Nat → Bool) (alloc : Nat → Nat) (s : St σ) (m : Nat) (e : Event) :
    unprocs (stepFwd h remote alloc s m e).2 = [] ∧ antis (stepFwd h remote alloc s m e).2 = [] ∧
    sends (stepFwd h remote alloc s m e).2 = ((List.range' 0 (h s.lp.st e).2.length).map alloc).zip (h s.lp.st e).2 := by
  refine ⟨?_, ?_, ?_⟩
  · simp only [stepFwd, unprocs_append, unprocs_outActions]; simp [unprocs]
  · simp only [stepFwd, antis_append, antis_outActions]; simp [antis]
  · simp only [stepFwd, sends_append, sends_outActions]; simp [sends]

/-! ### the dispatch, classified -/

/-- the six branches of `stepPre_inv` are the four kinds -/
theorem stepPre_kinds {s : St σ} {look : Nat → Msg} {m f : Nat} {p : PreOut σ}
    (hp : stepPre h ev look s m f = some p) :
    (kindOf look s m f = .park ∧ f % 2 = 1 ∧ 3 < f ∧ findRemote look s.lp.hist (f + 1) (look m).mSeq = 0 ∧
      p = { st := { lp := fixBound s.lp, earlyAntis := m :: s.earlyAntis }, acts := [.earlyPark m], cont := false }) ∨
    (∃ i x lp' racts, kindOf look s m f = .antiRollback x ∧ f % 2 = 1 ∧ 3 < f ∧
      findRemote look s.lp.hist (f + 1) (look m).mSeq = i + 1 ∧ s.lp.hist[i]? = some (Entry.past x) ∧
      doRollback h ev s.lp (groupStart s.lp.hist i) (some x) = some (lp', racts) ∧
      p = { st := { s with lp := fixBound lp' }
            acts := .markAnti x :: racts ++ [.termRollback (ev x).t, .free x, .free m], cont := false }) ∨
    (kindOf look s m f = .antiRollback m ∧ f = 3 ∧ ∃ k lp' racts, matchAnti s.lp.hist m = some k ∧
      doRollback h ev s.lp k (some m) = some (lp', racts) ∧
      p = { st := { s with lp := fixBound lp' }
            acts := racts ++ [.termRollback (ev m).t, .antiDiscard m f, .free m], cont := false }) ∨
    (kindOf look s m f = .annihilate ∧ f = 1 ∧
      p = { st := { s with lp := fixBound s.lp }, acts := [.antiDiscard m f, .free m], cont := false }) ∨
    (kindOf look s m f = .annihilate ∧ f % 2 = 0 ∧ f ≠ 0 ∧
      ∃ a rest, unlinkFirst (earlyHit look (f + 2) (look m).mSeq) s.earlyAntis = some (a, rest) ∧
      p = { st := { s with earlyAntis := rest }, acts := [.earlyMatch m a, .free m, .free a], cont := false }) ∨
    (kindOf look s m f = .exec ∧ f % 2 = 0 ∧ p.cont = true) := by
  rcases stepPre_inv hp with ⟨h1, h2, h0, rfl⟩ | ⟨h1, h2, i, x, lp', racts, hi, hx, hd, rfl⟩ |
    ⟨h3, k, lp', racts, hk, hd, rfl⟩ | ⟨h1, rfl⟩ | ⟨h1, h2, a, rest, hu, rfl⟩ | ⟨h1, h2, hcase⟩
  · left
    refine ⟨?_, h1, h2, h0, rfl⟩
    simp [kindOf, h1, h2, h0]
  · right; left
    obtain ⟨y, hy, _, _⟩ := findRemote_succ hi
    rw [hx] at hy; cases hy
    refine ⟨i, y, lp', racts, ?_, h1, h2, hi, hx, hd, rfl⟩
    simp [kindOf, h1, h2, hi, hx, Entry.msg]
  · right; right; left
    subst h3
    exact ⟨by simp [kindOf], rfl, k, lp', racts, hk, hd, rfl⟩
  · right; right; right; left
    subst h1
    exact ⟨by simp [kindOf], rfl, rfl⟩
  · right; right; right; right; left
    refine ⟨?_, h1, h2, a, rest, hu, rfl⟩
    have : ¬ f % 2 = 1 := by omega
    simp [kindOf, this, h2, hu]
  · right; right; right; right; right
    refine ⟨?_, h1, ?_⟩
    · have : ¬ f % 2 = 1 := by omega
      rcases h2 with h0 | hu
      · simp [kindOf, h0]
      · simp [kindOf, this, hu]
    · rcases hcase with ⟨_, lp', racts, hd, rfl⟩ | ⟨_, rfl⟩ <;> rfl

/-! ### an ordinary message: what the concrete step does, in terms of the rollback index -/

theorem plain_core {s s' : St σ} {look : Nat → Msg} {remote : Nat → Bool} {alloc : Nat → Nat} {m f : Nat} {acts : List Action}
    (hL : LInv h ev init base s.lp) (hS : SInv look s.lp) (hk : kindOf look s m f = .exec)
    (hs : step h ev look remote alloc s m f = some (s', acts)) :
    ∃ k, ((isStraggler look s.lp (meOf look m f) = true ∧ k = matchStraggler look s.lp.hist (meOf look m f)) ∨
          (isStraggler look s.lp (meOf look m f) = false ∧ k = s.lp.hist.length)) ∧
      EndsPast (s.lp.hist.take k) ∧
      s'.lp.hist = s.lp.hist.take k ++
        outEntries remote alloc 0 (h (replay h ev init (base ++ pastMsgs (s.lp.hist.take k))) (ev m)).2 ++ [Entry.past m] ∧
      s'.earlyAntis = s.earlyAntis ∧
      unprocs acts = (pastMsgs (s.lp.hist.drop k)).map (fun y => (y, false)) ∧
      antis acts = (s.lp.hist.drop k).filter Entry.isSent ∧
      sends acts = ((List.range' 0 (h (replay h ev init (base ++ pastMsgs (s.lp.hist.take k))) (ev m)).2.length).map alloc).zip
        (h (replay h ev init (base ++ pastMsgs (s.lp.hist.take k))) (ev m)).2 := by
  obtain ⟨p, hp⟩ := step_stepPre_some hs
  have hsin := stepPre_sinv hL hS hp
  have hc : p.cont = true := by
    rcases stepPre_kinds hp with ⟨h1, _⟩ | ⟨_, _, _, _, h1, _⟩ | ⟨h1, _⟩ | ⟨h1, _⟩ | ⟨h1, _⟩ | ⟨_, _, h1⟩
    · rw [hk] at h1; cases h1
    · rw [hk] at h1; cases h1
    · rw [hk] at h1; cases h1
    · rw [hk] at h1; cases h1
    · rw [hk] at h1; cases h1
    · exact h1
  unfold step at hs
  rw [hp] at hs
  simp only [hc, if_true, Option.some.injEq, Prod.mk.injEq] at hs
  obtain ⟨rfl, rfl⟩ := hs
  obtain ⟨u1, u2, u3⟩ := stepFwd_proj (h := h) remote alloc p.st m (ev m)
  rcases stepPre_inv hp with ⟨_, _, _, rfl⟩ | ⟨_, _, i, x, lp', racts, _, _, hd, rfl⟩ | ⟨_, k, lp', racts, _, hd, rfl⟩ |
    ⟨_, rfl⟩ | ⟨_, _, a, rest, _, rfl⟩ | ⟨_, _, ⟨hst, lp', racts, hd, rfl⟩ | ⟨hst, rfl⟩⟩
  · cases hc
  · cases hc
  · cases hc
  · cases hc
  · cases hc
  · obtain ⟨h1, _, h3, _, _, ref, sil, rfl⟩ := doRollback_spec hL hd
    obtain ⟨_, q2, q3⟩ := rollbackActs_proj none (s.lp.hist.drop (matchStraggler look s.lp.hist (meOf look m f)))
      (matchStraggler look s.lp.hist (meOf look m f)) ref sil
    have q4 := sends_rollbackActs none (s.lp.hist.drop (matchStraggler look s.lp.hist (meOf look m f)))
      (matchStraggler look s.lp.hist (meOf look m f)) ref sil
    refine ⟨_, Or.inl ⟨hst, rfl⟩, ?_, ?_, rfl, ?_, ?_, ?_⟩
    · have := hsin.last_past; simp only [h1] at this; exact this
    · rw [stepFwd_hist]; simp only; rw [h1, h3]
    · simp only [unprocs_append, u1, q2, List.append_nil]
      simp [unprocs]
    · simp only [antis_append, u2, q3, List.append_nil]
      simp [antis]
    · simp only [sends_append, u3, q4, List.nil_append]
      simp only [h3]; simp [sends]
  · refine ⟨_, Or.inr ⟨hst, rfl⟩, ?_, ?_, rfl, ?_, ?_, ?_⟩
    · rw [List.take_length]; exact hS.last_past
    · rw [stepFwd_hist, List.take_length, ← hL.st_ok]
    · have u1' : unprocs (stepFwd h remote alloc s m (ev m)).2 = [] := u1
      simp only [List.nil_append, u1', List.drop_length]; rfl
    · have u2' : antis (stepFwd h remote alloc s m (ev m)).2 = [] := u2
      simp only [List.nil_append, u2', List.drop_length]; rfl
    · simp only [List.nil_append, u3, List.take_length, ← hL.st_ok]

/-! ### the hypotheses on the environment of an `exec` step, and the link `match_straggler_msg` ↔ `TW.splitUndo` -/

/-- **the comparisons of this step agree with the content order**: for every processed message `x` of the history, what
`msg_is_before(msg, x)` returns on the snapshot (`look`; the dequeued message carries the flag word `f + 2`) is the event order of
the contents. See `cmpOk_of_content` for the usual reason (the snapshot shows the contents recorded in `ev` and no ANTI bit on
the history's messages). -/
def CmpOk (look : Nat → Msg) (ev : Nat → Event) (hist : List Entry) (m f : Nat) : Prop :=
  ∀ x ∈ pastMsgs hist, isBefore (meOf look m f) (look x) = Event.before (ev m) (ev x)

/-- the snapshot of message `x` shows the content `ev x` -/
def ContentOk (look : Nat → Msg) (ev : Nat → Event) (x : Nat) : Prop :=
  (look x).destT = (ev x).t ∧ (look x).mType = (ev x).type ∧ (look x).plSize = (ev x).payload.length ∧
  (look x).body = (ev x).payload

instance (look : Nat → Msg) (ev : Nat → Event) (x : Nat) : Decidable (ContentOk look ev x) := by
  unfold ContentOk; infer_instance

theorem cmpOk_of_content {look : Nat → Msg} {ev : Nat → Event} {hist : List Entry} {m f : Nat} (hf : f % 2 = 0)
    (hm : ContentOk look ev m) (hx : ∀ x ∈ pastMsgs hist, ContentOk look ev x ∧ (look x).anti = 0) :
    CmpOk look ev hist m f := by
  intro x hxm
  obtain ⟨⟨x1, x2, x3, x4⟩, x5⟩ := hx x hxm
  obtain ⟨m1, m2, m3, m4⟩ := hm
  have hev : ∀ e : Event, e.toMsg.content = (e.t, 0, e.type, e.payload.length, e.payload) := by
    intro e; simp [Msg.content, Event.toMsg, Msg.anti, Msg.body]
  have ha : (meOf look m f).anti = 0 := by simp [meOf, Msg.anti]; omega
  unfold Event.before
  apply C16.content_only
  · rw [hev]
    show ((look m).destT, (meOf look m f).anti, (look m).mType, (look m).plSize, (look m).body) = _
    rw [ha, m1, m2, m3, m4]
  · rw [hev]
    show ((look x).destT, (look x).anti, (look x).mType, (look x).plSize, (look x).body) = _
    rw [x5, x1, x2, x3, x4]

/-- **the dequeued message is not before what must never be undone**: the abstract history is not empty (it starts with the
`LP_INIT` event), the message is not before the last committed message (GVT safety, C04) and — while nothing is committed yet —
not before the first processed entry (the `LP_INIT` message: under strict causality no message is) -/
structure CommitSafe (ev : Nat → Event) (base : List Nat) (hist : List Entry) (m : Nat) : Prop where
  nonempty : base ++ pastMsgs hist ≠ []
  base_ok : ∀ b, base.getLast? = some b → Event.before (ev m) (ev b) = false
  init_ok : base = [] → ∀ p, (pastMsgs hist).head? = some p → Event.before (ev m) (ev p) = false

theorem isStraggler_true {look : Nat → Msg} {lp : LPState σ} {sm : Msg} (hs : isStraggler look lp sm = true) :
    ∃ last, lp.hist.getLast? = some last ∧ isBefore sm (look last.msg) = true := by
  unfold isStraggler at hs
  split at hs
  · rename_i b last hb hl
    simp only [Bool.and_eq_true] at hs
    exact ⟨last, hl, hs.2⟩
  · cases hs

theorem not_straggler_last {look : Nat → Msg} {lp : LPState σ} {sm : Msg} (hS : SInv look lp)
    (hs : isStraggler look lp sm = false) {last : Entry} (hl : lp.hist.getLast? = some last) :
    isBefore sm (look last.msg) = false := by
  have hlp := hS.last_past last hl
  obtain ⟨b, hb, hle⟩ := hS.bound_ok last.msg (getLast?_past_mem _ _ hl hlp)
  unfold isStraggler at hs
  rw [hb, hl] at hs
  simp only [Bool.and_eq_false_iff, decide_eq_false_iff_not] at hs
  rcases hs with h1 | h1
  · exact not_before_of_lt _ _ (by omega)
  · exact h1

theorem getLast_map_append {ev : Nat → Event} {base l : List Nat} {y : Event}
    (hy : ((base ++ l).map ev).getLast? = some y) :
    (l = [] ∧ ∃ b, base.getLast? = some b ∧ ev b = y) ∨ (∃ pre z, l = pre ++ [z] ∧ y = ev z) := by
  rcases List.eq_nil_or_concat l with h0 | ⟨pre, z, hz⟩
  <;> try rw [List.concat_eq_append] at hz
  · left
    subst h0
    simp only [List.append_nil, List.getLast?_map, Option.map_eq_some_iff] at hy
    exact ⟨rfl, hy⟩
  · right
    subst hz
    refine ⟨pre, z, rfl, ?_⟩
    rw [← List.append_assoc, List.map_append] at hy
    simp at hy
    exact hy.symm

/-- the three facts `splitUndo_eq` needs, from the concrete scans -/
theorem exec_split_facts {s : St σ} {look : Nat → Msg} {m f k : Nat} (hS : SInv look s.lp)
    (hcmp : CmpOk look ev s.lp.hist m f) (hsafe : CommitSafe ev base s.lp.hist m)
    (hk : (isStraggler look s.lp (meOf look m f) = true ∧ k = matchStraggler look s.lp.hist (meOf look m f)) ∨
          (isStraggler look s.lp (meOf look m f) = false ∧ k = s.lp.hist.length)) :
    (∀ x ∈ pastMsgs (s.lp.hist.drop k), Event.before (ev m) (ev x) = true) ∧
    (∀ y, ((base ++ pastMsgs (s.lp.hist.take k)).map ev).getLast? = some y → Event.before (ev m) y = false) ∧
    base ++ pastMsgs (s.lp.hist.take k) ≠ [] := by
  have hsub := pastMsgs_take_sub s.lp.hist k
  rcases hk with ⟨hst, rfl⟩ | ⟨hst, rfl⟩
  · obtain ⟨last, hl, hbl⟩ := isStraggler_true hst
    have hspec := C01.matchStraggler_spec look s.lp.hist (meOf look m f)
    have hU : ∀ x ∈ pastMsgs (s.lp.hist.drop (matchStraggler look s.lp.hist (meOf look m f))),
        Event.before (ev m) (ev x) = true := by
      intro x hx
      have hmem := pastMsgs_mem.mp hx
      have hmemH : x ∈ pastMsgs s.lp.hist := pastMsgs_mem.mpr (List.mem_of_mem_drop hmem)
      rw [← hcmp x hmemH]
      obtain ⟨j, hj⟩ := List.mem_iff_getElem?.mp hmem
      rw [List.getElem?_drop] at hj
      by_cases hlt : matchStraggler look s.lp.hist (meOf look m f) + j < s.lp.hist.length - 1
      · exact hspec.2.2 _ _ (by omega) hlt hj rfl
      · have hlen : matchStraggler look s.lp.hist (meOf look m f) + j < s.lp.hist.length := by
          have := List.getElem?_eq_some_iff.mp hj
          exact this.1
        have : matchStraggler look s.lp.hist (meOf look m f) + j = s.lp.hist.length - 1 := by omega
        rw [this, ← List.getLast?_eq_getElem?, hl] at hj
        cases hj
        exact hbl
    refine ⟨hU, ?_, ?_⟩
    · intro y hy
      rcases getLast_map_append hy with ⟨h0, b, hb, rfl⟩ | ⟨pre, z, hz, rfl⟩
      · exact hsafe.base_ok b hb
      · rcases Nat.eq_zero_or_pos (matchStraggler look s.lp.hist (meOf look m f)) with h0 | h0
        · rw [h0] at hz; simp [pastMsgs] at hz
        · obtain ⟨e', he', hpast, hnb⟩ := hspec.2.1 h0
          obtain ⟨pre', hpre'⟩ := pastMsgs_last _ e' (take_getLast _ _ e' h0 he') hpast
          rw [hpre'] at hz
          have hze : z = e'.msg := by
            have := congrArg List.getLast? hz
            simpa using this.symm
          subst hze
          rw [← hcmp e'.msg (hsub.subset (by rw [hpre']; simp))]
          exact hnb
    · intro hnil
      have hb0 : base = [] := (List.append_eq_nil_iff.mp hnil).1
      have hne := hsafe.nonempty
      rw [hb0, List.nil_append] at hne
      obtain ⟨p0, hp0⟩ : ∃ p0, (pastMsgs s.lp.hist).head? = some p0 := by
        cases hh : pastMsgs s.lp.hist with
        | nil => exact absurd hh hne
        | cons a as => exact ⟨a, rfl⟩
      have h1 := hsafe.init_ok hb0 p0 hp0
      have hp0mem : p0 ∈ pastMsgs s.lp.hist := List.mem_of_mem_head? hp0
      rcases Nat.eq_zero_or_pos (matchStraggler look s.lp.hist (meOf look m f)) with h0 | h0
      · rw [h0, List.drop_zero] at hU
        rw [hU p0 hp0mem] at h1; cases h1
      · obtain ⟨e', he', hpast, _⟩ := hspec.2.1 h0
        obtain ⟨pre', hpre'⟩ := pastMsgs_last _ e' (take_getLast _ _ e' h0 he') hpast
        rw [hpre'] at hnil
        simp at hnil
  · refine ⟨by simp [pastMsgs], ?_, by rw [List.take_length]; exact hsafe.nonempty⟩
    intro y hy
    rw [List.take_length] at hy
    rcases getLast_map_append hy with ⟨h0, b, hb, rfl⟩ | ⟨pre, z, hz, rfl⟩
    · exact hsafe.base_ok b hb
    · have hne : s.lp.hist ≠ [] := by
        intro h0; rw [h0] at hz; simp [pastMsgs] at hz
      obtain ⟨last, hl⟩ : ∃ last, s.lp.hist.getLast? = some last := by
        cases hh : s.lp.hist.getLast? with
        | none => exact absurd (List.getLast?_eq_none_iff.mp hh) hne
        | some a => exact ⟨a, rfl⟩
      obtain ⟨pre', hpre'⟩ := pastMsgs_last _ last hl (hS.last_past last hl)
      rw [hpre'] at hz
      have hze : z = last.msg := by
        have := congrArg List.getLast? hz
        simpa using this.symm
      subst hze
      rw [← hcmp last.msg (by rw [hpre']; simp)]
      exact not_straggler_last hS hst hl

/-- **`match_straggler_msg` (with the straggler test in front of it) computes `TW.splitUndo`** on the abstract history: the kept
prefix is `keepOf`, the undone suffix is `undoOf` -/
theorem exec_split {s : St σ} {look : Nat → Msg} {m f k : Nat} (hS : SInv look s.lp)
    (hcmp : CmpOk look ev s.lp.hist m f) (hsafe : CommitSafe ev base s.lp.hist m)
    (hk : (isStraggler look s.lp (meOf look m f) = true ∧ k = matchStraggler look s.lp.hist (meOf look m f)) ∨
          (isStraggler look s.lp (meOf look m f) = false ∧ k = s.lp.hist.length)) :
    ∃ hd T, absPast ev base s = hd :: T ∧
      (base ++ pastMsgs (s.lp.hist.take k)).map ev = TW.keepOf (ev m) hd T ∧
      (pastMsgs (s.lp.hist.drop k)).map ev = TW.undoOf (ev m) T := by
  obtain ⟨hU, hK, hne⟩ := exec_split_facts (base := base) hS hcmp hsafe hk
  have hP : absPast ev base s = (base ++ pastMsgs (s.lp.hist.take k)).map ev ++ (pastMsgs (s.lp.hist.drop k)).map ev := by
    unfold absPast
    rw [← List.map_append, List.append_assoc, ← pastMsgs_append, List.take_append_drop]
  cases hK' : (base ++ pastMsgs (s.lp.hist.take k)).map ev with
  | nil => simp at hK'; exact absurd hK' (by simpa using hne)
  | cons hd K =>
    rw [hK'] at hP hK
    refine ⟨hd, K ++ (pastMsgs (s.lp.hist.drop k)).map ev, by rw [hP]; rfl, ?_, ?_⟩
    all_goals
      have hsp := splitUndo_eq (ev m) ((pastMsgs (s.lp.hist.drop k)).map ev)
        (by intro x hx; obtain ⟨y, hy, rfl⟩ := List.mem_map.mp hx; exact hU y hy) K
        (by
          intro y hy
          apply hK y
          cases K with
          | nil => simp at hy
          | cons a as => rw [List.getLast?_cons_cons]; exact hy)
      simp [TW.keepOf, TW.undoOf, hsp]

/-! ### `OInv`: use and preservation -/

theorem sentsOk_prefix (l2 : List Entry) : ∀ (A : List Entry) (st : σ) (acc : List Event),
    sentsOk h ev st acc (A ++ l2) → sentsOk h ev st acc A
  | [], _, _, _ => trivial
  | .past _ :: A', _, _, hok => ⟨hok.1, sentsOk_prefix l2 A' _ _ hok.2⟩
  | .sent _ :: A', st, _, hok => sentsOk_prefix l2 A' st _ hok
  | .rsent _ :: A', st, _, hok => sentsOk_prefix l2 A' st _ hok

/-- **what `send_anti_messages` cancels is what the undone invocations scheduled**: split the history at a group boundary; the
contents of the sent entries of the suffix are, in order, the outputs of the re-execution of its processed messages from the state
after the prefix -/
theorem undone_outs {look : Nat → Msg} {lp : LPState σ} (hO : OInv h ev init base lp) (hS : SInv look lp)
    (A R : List Entry) (hh : lp.hist = A ++ R) (hA : EndsPast A) :
    sentEvs ev R = outsOf h ev (replay h ev init (base ++ pastMsgs A)) (pastMsgs R) := by
  unfold OInv at hO
  rw [hh] at hO
  have h2 := ((sentsOk_append R A hA _ _).mp hO).2
  have hR : EndsPast R := by
    intro e he
    apply hS.last_past e
    rw [hh, List.getLast?_append, he]; rfl
  have := sentsOk_outs R _ _ h2 hR (by intro _; split <;> rfl)
  rw [replay_append, ← this]
  split <;> rfl

theorem oinv_take {lp lp' : LPState σ} (hO : OInv h ev init base lp) (k : Nat) (hh : lp'.hist = lp.hist.take k) :
    OInv h ev init base lp' := by
  unfold OInv at hO ⊢
  rw [hh]
  rw [← List.take_append_drop k lp.hist] at hO
  exact sentsOk_prefix _ _ _ _ hO

theorem kindOf_exec_of {s : St σ} {look : Nat → Msg} {m f : Nat} (hf : f % 2 = 0)
    (hno : f = 0 ∨ ∀ c ∈ s.earlyAntis, keyAt look c ≠ (f + 2, (look m).mSeq)) : kindOf look s m f = .exec := by
  have h1 : ¬ f % 2 = 1 := by omega
  rcases hno with h0 | hno
  · simp [kindOf, h0]
  · have : unlinkFirst (earlyHit look (f + 2) (look m).mSeq) s.earlyAntis = none :=
      (unlinkFirst_none _ _).mpr (fun c hc => (earlyHit_false_iff _ _ _ _).mpr (hno c hc))
    simp [kindOf, h1, this]

/-- **`OInv` is preserved by every branch of `process_msg`**, provided the message table records, for every ordinal the allocator
hands out during this step, the content that is sent with it -/
theorem step_oinv {s s' : St σ} {look : Nat → Msg} {remote : Nat → Bool} {alloc : Nat → Nat} {m f : Nat} {acts : List Action}
    (hL : LInv h ev init base s.lp) (hS : SInv look s.lp) (hO : OInv h ev init base s.lp)
    (hs : step h ev look remote alloc s m f = some (s', acts))
    (hal : ∀ oe ∈ sends acts, ev oe.1 = oe.2) : OInv h ev init base s'.lp := by
  by_cases hk : kindOf look s m f = .exec
  · obtain ⟨k, _, hA, hh, _, _, _, hsd⟩ := plain_core hL hS hk hs
    unfold OInv
    rw [hh, List.append_assoc, sentsOk_append _ _ hA]
    refine ⟨?_, ?_⟩
    · exact (oinv_take (lp' := { s.lp with hist := s.lp.hist.take k }) hO k rfl)
    · rw [ite_self, ← replay_append, sentsOk_outEntries]
      · rfl
      · intro i hi
        rw [hsd] at hal
        have hlen : i < (((List.range' 0 (h (replay h ev init (base ++ pastMsgs (List.take k s.lp.hist))) (ev m)).2.length).map
            alloc).zip (h (replay h ev init (base ++ pastMsgs (List.take k s.lp.hist))) (ev m)).2).length := by
          simp; exact hi
        have := hal _ (List.getElem_mem hlen)
        simpa using this
  · rcases step_summary hL hs with ⟨_, _, _, hh, _⟩ | ⟨_, _, i, x, k, _, _, _, _, hh, _⟩ | ⟨_, k, hh, _⟩ |
      ⟨_, _, b, l1, l2, _, _, _, hh, _⟩ | ⟨hf, hno, _⟩
    · exact oinv_take hO s.lp.hist.length (by rw [hh, List.take_length])
    · exact oinv_take hO k hh
    · exact oinv_take hO k hh
    · exact oinv_take hO s.lp.hist.length (by rw [hh, List.take_length])
    · exact absurd (kindOf_exec_of hf hno) hk

/-! ### the steps that do not process the message -/

/-- `f = 1`, a parked anti-message, an early match: the history is untouched, nothing is un-processed, cancelled or sent -/
theorem discard_core {s s' : St σ} {look : Nat → Msg} {remote : Nat → Bool} {alloc : Nat → Nat} {m f : Nat} {acts : List Action}
    (hs : step h ev look remote alloc s m f = some (s', acts))
    (hk : kindOf look s m f = .annihilate ∨ kindOf look s m f = .park) :
    s'.lp.hist = s.lp.hist ∧ unprocs acts = [] ∧ antis acts = [] ∧ sends acts = [] := by
  obtain ⟨p, hp⟩ := step_stepPre_some hs
  rcases stepPre_kinds hp with ⟨_, _, _, _, rfl⟩ | ⟨_, _, _, _, h1, _⟩ | ⟨h1, _⟩ | ⟨_, _, rfl⟩ | ⟨_, _, _, a, rest, _, rfl⟩ |
    ⟨h1, _⟩
  · obtain ⟨rfl, rfl⟩ := step_noncont hp rfl hs
    exact ⟨rfl, rfl, rfl, rfl⟩
  · rw [h1] at hk; rcases hk with hk | hk <;> cases hk
  · rw [h1] at hk; rcases hk with hk | hk <;> cases hk
  · obtain ⟨rfl, rfl⟩ := step_noncont hp rfl hs
    exact ⟨rfl, rfl, rfl, rfl⟩
  · obtain ⟨rfl, rfl⟩ := step_noncont hp rfl hs
    exact ⟨rfl, rfl, rfl, rfl⟩
  · rw [h1] at hk; rcases hk with hk | hk <;> cases hk

theorem split_at_index {α : Type} {l : List α} {i : Nat} {v : α} (hi : l[i]? = some v) :
    l = l.take i ++ v :: l.drop (i + 1) := by
  obtain ⟨hlt, hv⟩ := List.getElem?_eq_some_iff.mp hi
  conv => lhs; rw [← List.take_append_drop i l, List.drop_eq_getElem_cons hlt, hv]

/-- an anti-message for a processed message `x` (local with flag word 3, or remote and matched): the shape of the history around
the target and what the step does -/
theorem anti_core {s s' : St σ} {look : Nat → Msg} {remote : Nat → Bool} {alloc : Nat → Nat} {m f x : Nat} {acts : List Action}
    (hL : LInv h ev init base s.lp) (hs : step h ev look remote alloc s m f = some (s', acts))
    (hk : kindOf look s m f = .antiRollback x) :
    ∃ A G B, s.lp.hist = A ++ G ++ Entry.past x :: B ∧ (∀ g ∈ G, g.isPast = false) ∧ EndsPast A ∧
      s'.lp.hist = A ∧ s'.earlyAntis = s.earlyAntis ∧
      unprocs acts = (x, true) :: (pastMsgs B).map (fun y => (y, false)) ∧
      antis acts = G ++ B.filter Entry.isSent ∧ sends acts = [] := by
  obtain ⟨p, hp⟩ := step_stepPre_some hs
  rcases stepPre_kinds hp with ⟨h1, _⟩ | ⟨i, x', lp', racts, h1, hodd, h3, hi, hx, hd, rfl⟩ |
    ⟨h1, rfl, k, lp', racts, hma, hd, rfl⟩ | ⟨h1, _⟩ | ⟨h1, _⟩ | ⟨h1, _⟩
  · rw [hk] at h1; cases h1
  · rw [hk] at h1; cases h1
    obtain ⟨y, hy, hky, hlater⟩ := findRemote_succ hi
    rw [hx] at hy; cases hy
    obtain ⟨A, G, hAG, hG, hA⟩ := split_trailing_sent (s.lp.hist.take i)
    have hh : s.lp.hist = A ++ G ++ Entry.past x :: s.lp.hist.drop (i + 1) := by
      rw [← hAG]; exact split_at_index hx
    have hxhit : remoteHit look (f + 1) (look m).mSeq (Entry.past x) = true := (remoteHit_iff _ _ _ _).mpr ⟨x, rfl, hky⟩
    have hB : ∀ b ∈ s.lp.hist.drop (i + 1), remoteHit look (f + 1) (look m).mSeq b = false := by
      intro b hb
      cases hrb : remoteHit look (f + 1) (look m).mSeq b with
      | false => rfl
      | true =>
        obtain ⟨z, rfl, hkz⟩ := (remoteHit_iff _ _ _ _).mp hrb
        obtain ⟨j, hj⟩ := List.mem_iff_getElem?.mp hb
        rw [List.getElem?_drop] at hj
        exact absurd hkz (hlater _ _ (by omega) hj)
    obtain ⟨e1, e2, _, e4, _, e6⟩ := anti_remote_exact hL hodd h3 A G _ hh hG hA hxhit hB hs
    obtain ⟨rfl, rfl⟩ := step_noncont hp rfl hs
    refine ⟨A, G, _, hh, hG, hA, e1, e2, e4, e6, ?_⟩
    obtain ⟨_, _, _, _, _, ref, sil, rfl⟩ := doRollback_spec hL hd
    show sends (Action.markAnti x :: (_ ++ _)) = _
    rw [show ∀ l, sends (Action.markAnti x :: l) = sends l from fun l => rfl, sends_append, sends_rollbackActs]
    rfl
  · rw [hk] at h1; cases h1
    obtain ⟨i, hi, _⟩ := C01.matchAnti_spec _ _ _ hma
    have hmem : Entry.past m ∈ s.lp.hist := List.mem_of_getElem? hi
    obtain ⟨A, G, y, B, hh, hy, hB, hG, hA⟩ := exists_target_decomp s.lp.hist (fun e => e == Entry.past m) ⟨_, hmem, by simp⟩
    have hym : y = Entry.past m := by simpa using hy
    subst hym
    have hB' : Entry.past m ∉ B := fun hmem => by have := hB _ hmem; simp at this
    obtain ⟨e1, e2, _, e4, _, e6⟩ := anti_local_exact hL A G B hh hG hA hB' hs
    obtain ⟨rfl, rfl⟩ := step_noncont hp rfl hs
    refine ⟨A, G, B, hh, hG, hA, e1, e2, e4, e6, ?_⟩
    obtain ⟨_, _, _, _, _, ref, sil, rfl⟩ := doRollback_spec hL hd
    rw [sends_append, sends_rollbackActs]
    rfl
  · rw [hk] at h1; cases h1
  · rw [hk] at h1; cases h1
  · rw [hk] at h1; cases h1

end RootSim.Refine
