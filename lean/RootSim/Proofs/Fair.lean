/-!
# Generic liveness lemma: progress measure + deadlock-freedom ⇒ every weakly fair run terminates
-/
namespace RootSim.Fair

variable {σ α : Type}

/-- the state after the first `n` actions of the schedule `f` -/
def exec (step : σ → α → σ) (f : Nat → α) (s0 : σ) : Nat → σ
  | 0 => s0
  | n + 1 => step (exec step f s0 n) (f n)

/-- every thread is scheduled again and again (`owns a i`: `a` is an action by which thread `i` runs) -/
def FairSched (owns : α → Nat → Prop) (N : Nat) (f : Nat → α) : Prop := ∀ i, i < N → ∀ n, ∃ k, n ≤ k ∧ owns (f k) i

/-- between `k` and a later scheduling of an enabled thread, some step changes the state -/
theorem first_change (step : σ → α → σ) (f : Nat → α) (s0 s : σ) (P : α → Prop)
    (hen : ∀ a, P a → step s a ≠ s) :
    ∀ d k, exec step f s0 k = s → P (f (k + d)) → ∃ j, k ≤ j ∧ exec step f s0 j = s ∧ step s (f j) ≠ s := by
  intro d
  induction d with
  | zero => intro k hk hP; exact ⟨k, Nat.le_refl _, hk, hen _ hP⟩
  | succ d ih =>
    intro k hk hP
    by_cases hch : step s (f k) = s
    · have hk1 : exec step f s0 (k + 1) = s := by simp only [exec, hk, hch]
      have hP' : P (f (k + 1 + d)) := by
        have : k + 1 + d = k + (d + 1) := by omega
        rw [this]; exact hP
      obtain ⟨j, hj, h1, h2⟩ := ih (k + 1) hk1 hP'
      exact ⟨j, by omega, h1, h2⟩
    · exact ⟨k, Nat.le_refl _, hk, hch⟩

/-- **(i) + (ii) ⇒ (iii).** `R` is an invariant of the schedule's run; on `R`-states every non-spin step
decreases the measure `m`; in every non-final `R`-state some thread is enabled whatever choices the
schedule makes for it. Then every run in which every thread is scheduled again and again reaches a
final state. -/
theorem fair_terminates (step : σ → α → σ) (owns : α → Nat → Prop) (N : Nat) (final R : σ → Prop) (m : σ → Nat)
    (hR : ∀ s a, R s → R (step s a))
    (hmeasure : ∀ s a, R s → step s a ≠ s → m (step s a) < m s)
    (hlive : ∀ s, R s → ¬ final s → ∃ i, i < N ∧ ∀ a, owns a i → step s a ≠ s)
    (f : Nat → α) (hfair : FairSched owns N f) (s0 : σ) (h0 : R s0) :
    ∃ n, final (exec step f s0 n) := by
  have hRn : ∀ n, R (exec step f s0 n) := by
    intro n; induction n with
    | zero => exact h0
    | succ n ih => exact hR _ _ ih
  -- strong induction on the measure
  have key : ∀ b k, m (exec step f s0 k) ≤ b → ∃ n, final (exec step f s0 n) := by
    intro b
    induction b with
    | zero =>
      intro k hb
      by_cases hf : final (exec step f s0 k)
      · exact ⟨k, hf⟩
      · obtain ⟨i, hiN, hi⟩ := hlive _ (hRn k) hf
        obtain ⟨k', hk', hown⟩ := hfair i hiN k
        obtain ⟨j, _, hj, hne⟩ := first_change step f s0 _ (fun a => owns a i) hi (k' - k) k rfl
          (by have : k + (k' - k) = k' := by omega
              rw [this]; exact hown)
        have := hmeasure _ (f j) (hRn k) hne
        omega
    | succ b ih =>
      intro k hb
      by_cases hf : final (exec step f s0 k)
      · exact ⟨k, hf⟩
      · obtain ⟨i, hiN, hi⟩ := hlive _ (hRn k) hf
        obtain ⟨k', hk', hown⟩ := hfair i hiN k
        obtain ⟨j, _, hj, hne⟩ := first_change step f s0 _ (fun a => owns a i) hi (k' - k) k rfl
          (by have : k + (k' - k) = k' := by omega
              rw [this]; exact hown)
        have hlt := hmeasure _ (f j) (hRn k) hne
        refine ih (j + 1) ?_
        have : exec step f s0 (j + 1) = step (exec step f s0 k) (f j) := by simp only [exec, hj]
        rw [this]; omega
  exact key _ 0 (Nat.le_refl _)

/-- Run-based form: the two hypotheses are only needed along the run itself. -/
theorem fair_terminates_run (step : σ → α → σ) (owns : α → Nat → Prop) (N : Nat) (final : σ → Prop) (m : σ → Nat)
    (f : Nat → α) (s0 : σ)
    (hmeasure : ∀ k, step (exec step f s0 k) (f k) ≠ exec step f s0 k → m (exec step f s0 (k + 1)) < m (exec step f s0 k))
    (hlive : ∀ k, ¬ final (exec step f s0 k) → ∃ i, i < N ∧ ∀ a, owns a i → step (exec step f s0 k) a ≠ exec step f s0 k)
    (hfair : FairSched owns N f) :
    ∃ n, final (exec step f s0 n) := by
  have key : ∀ b k, m (exec step f s0 k) ≤ b → ∃ n, final (exec step f s0 n) := by
    intro b
    induction b with
    | zero =>
      intro k hb
      by_cases hf : final (exec step f s0 k)
      · exact ⟨k, hf⟩
      · obtain ⟨i, hiN, hi⟩ := hlive k hf
        obtain ⟨k', hk', hown⟩ := hfair i hiN k
        obtain ⟨j, _, hj, hne⟩ := first_change step f s0 _ (fun a => owns a i) hi (k' - k) k rfl
          (by have : k + (k' - k) = k' := by omega
              rw [this]; exact hown)
        have := hmeasure j (by rw [hj]; exact hne)
        rw [hj] at this; omega
    | succ b ih =>
      intro k hb
      by_cases hf : final (exec step f s0 k)
      · exact ⟨k, hf⟩
      · obtain ⟨i, hiN, hi⟩ := hlive k hf
        obtain ⟨k', hk', hown⟩ := hfair i hiN k
        obtain ⟨j, _, hj, hne⟩ := first_change step f s0 _ (fun a => owns a i) hi (k' - k) k rfl
          (by have : k + (k' - k) = k' := by omega
              rw [this]; exact hown)
        have hlt := hmeasure j (by rw [hj]; exact hne)
        rw [hj] at hlt
        exact ih (j + 1) (by omega)
  exact key _ 0 (Nat.le_refl _)

end RootSim.Fair
