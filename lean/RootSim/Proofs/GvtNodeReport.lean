import RootSim.Proofs.GvtNodePoll
/-! Preservation of `Inv` by `report`. -/
namespace RootSim.GvtNode

theorem inv_report (old : Bool) (s s' : St) (t : Nat) (hinv : Inv old s)
    (hs : report s t = some s') : Inv old s' := by
  unfold report at hs
  split at hs
  · simp at hs
  rename_i th h
  split at hs
  · simp at hs
  rename_i nd hnd
  split at hs
  case isFalse => simp at hs
  rename_i hg
  obtain ⟨hst, _⟩ := hg
  have T := hinv.thr t th h
  have I0 := hinv.node _ nd hnd
  have hpost : th.colour = !old := T.col_post (by simp [hst])
  have hrep : th.stage.reported = false := by simp [hst, Stage.reported]
  have hno : (!th.colour) = old := by simp [hpost]
  simp only [Option.some.injEq, hno] at hs
  generalize hth' : ({ th with
      unrep := th.unrep.set old []
      stage := if nd.cc = s.N - 1 then Stage.reduceWait else Stage.wait } : Thr) = th' at hs
  generalize hnd' : ({ nd with
      totalSent := nd.totalSent ++ th.unrep.get old
      totalRecv := nd.totalRecv + 1
      cc := nd.cc + 1
      contrib := if nd.cc = s.N - 1 then some (nd.totalSent ++ th.unrep.get old) else nd.contrib } : Node)
      = nd' at hs
  have hthr : s'.thr = s.thr.set t th' := by rw [← hs]
  have hnodes : s'.nodes = s.nodes.set th.node nd' := by rw [← hs]
  have hN : s'.N = s.N := by rw [← hs]
  have hfl : s'.flight = s.flight := by rw [← hs]
  clear hs
  -- the reporter has not reported: `c_c < n_threads`, hence nothing deposited, nothing subtracted anywhere
  have hlt : nd.cc < s.N := by
    have := nReported_lt s t th h hrep; rw [I0.cc_eq, ← I0.nthr]; exact this
  have hcn : nd.contrib = none := by
    cases hc : nd.contrib
    · rfl
    · have := I0.contrib_iff.1 (by simp [hc]); omega
  have hnosub : ∀ (k : Nat) nd1, s.nodes[k]? = some nd1 → nd1.subtracted = false := by
    intro k nd1 hk
    cases hsb : nd1.subtracted
    · rfl
    · have := allContrib_get s _ nd hnd ((hinv.node k nd1 hk).sub hsb).1
      simp [hcn] at this
  have e1 : th'.node = th.node := by rw [← hth']
  have e2 : th'.colour = th.colour := by rw [← hth']
  have e3 : th'.unrep.get old = [] := by rw [← hth']; simp
  have e4 : th'.recv = th.recv := by rw [← hth']
  have e5 : th'.stage.reported = true ∧ th'.stage ≠ .redux1 ∧
      (th'.stage = .reduceWait ↔ nd.cc = s.N - 1) := by
    rw [← hth']; dsimp only; split <;> simp [Stage.reported, *]
  have f1 : nd'.cc = nd.cc + 1 := by rw [← hnd']
  have f2 : nd'.contrib.isSome = true ↔ nd.cc = s.N - 1 := by
    rw [← hnd']; dsimp only; split <;> simp [*]
  have f3 : nd'.subtracted = false := by rw [← hnd']; exact hnosub _ nd hnd
  have f5 : nd'.totalRecv = nd.totalRecv + 1 := by rw [← hnd']
  have f6 : nd'.polled = nd.polled := by rw [← hnd']
  have f7 : eff nd' = eff nd ++ th.unrep.get old := by
    rw [← hnd']; simp only [eff, hcn]; split <;> simp
  obtain ⟨o1, o2, o3⟩ := counts_own s s' t th th' h e1 hthr
  rw [hrep, e5.1] at o2; simp at o2
  simp [hst] at o3
  constructor
  · intro t' x hx
    rw [hthr] at hx; simp only [hnodes, List.length_set]
    rcases thr_set_cases _ _ _ _ _ hx with ⟨_, rfl⟩ | ⟨_, hx⟩
    · exact ⟨e1 ▸ T.node_lt, fun h1 => absurd h1 e5.2.1, fun _ => e2 ▸ hpost, fun _ => e3⟩
    · exact hinv.thr t' x hx
  · intro k nd1 hk
    obtain ⟨b1, b2, b3⟩ := sums_step old s s' t th.node th th' nd nd' h hnd hthr hnodes k
    rw [f7, List.count_append] at b1; rw [e3, List.count_nil] at b2; rw [e1, e4] at b3
    rw [hnodes] at hk
    rcases thr_set_cases _ _ _ _ _ hk with ⟨hk1, hk2⟩ | ⟨hne, hk⟩
    · subst hk1; rw [hk2]
      have bal := I0.balance
      have hr := I0.recv_eq
      have hrw := I0.redwait
      have hsb0 := hnosub _ nd hnd
      simp only [hsb0, hcn] at hr hrw
      simp at hr hrw
      constructor <;> (try rw [hN])
      · rw [o1]; exact I0.nthr
      · rw [f1, I0.cc_eq]; omega
      · by_cases hl : nd.cc = s.N - 1
        · have := e5.2.2.2 hl; have := f2.2 hl; simp_all
        · have h1 : ¬ th'.stage = .reduceWait := fun h => hl (e5.2.2.1 h)
          have h2 : ¬ nd'.contrib.isSome = true := fun h => hl (f2.1 h)
          simp_all
      · rw [f1, f3, f5, f6, hr]; simp; omega
      · rw [f1, f2]; omega
      · rw [f3]; intro h; cases h
      · simp only [flightTo, hfl] at *; simp at b3; omega
    · have I := hinv.node k nd1 hk
      obtain ⟨c1, c2, c3⟩ := counts_other s s' t th th' h e1 hthr k hne
      have bal := I.balance
      have hne' : th.node ≠ k := fun h => hne h.symm
      constructor <;> (try rw [hN])
      · rw [c1]; exact I.nthr
      · rw [c2]; exact I.cc_eq
      · rw [c3]; exact I.redwait
      · exact I.recv_eq
      · exact I.contrib_iff
      · rw [hnosub k nd1 hk]; intro h; cases h
      · simp only [flightTo, hfl] at *; simp [hne'] at b3; omega

end RootSim.GvtNode
