import RootSim.Proofs.GvtGlobal
/-!
# The invariant of a GVT round (`Model/GvtGlobal.lean`), used by `Props/C04Global.lean`
-/
namespace RootSim.GvtGlobal

/-- `g` is `≤ floor k` for every node and `≤` every old-colour message in flight -/
def LBnd (old : Bool) (g : Nat) (s : St) : Prop :=
  (∀ (k : Nat) nd, s.nodes[k]? = some nd → Le g (floor nd)) ∧ ∀ m ∈ s.flight, m.colour = old → g ≤ m.ts

/-- `g` is `≤` every `pend`, `cur` and in-flight time stamp -/
def AllGe (g : Nat) (s : St) : Prop :=
  (∀ (k : Nat) nd, s.nodes[k]? = some nd → (∀ x ∈ nd.pend, g ≤ x) ∧ Le g nd.cur) ∧ ∀ m ∈ s.flight, g ≤ m.ts

def NoIdle (s : St) : Prop := ∀ (k : Nat) nd, s.nodes[k]? = some nd → nd.stage ≠ .idle

theorem le_floor_unrep (g : Nat) (nd : Node) (h : nd.stage.isReported = false) :
    Le g (floor nd) ↔ Le g nd.acc ∧ (∀ x ∈ nd.pend, g ≤ x) ∧ Le g nd.cur := by
  unfold floor
  cases hs : nd.stage <;> simp_all [Stage.isReported, le_omin, le_lmin]

theorem le_floor_rep (g : Nat) (nd : Node) (m : Option Nat) (h : nd.stage = .reported m) :
    Le g (floor nd) ↔ Le g m := by
  unfold floor; rw [h]

theorem mem_erase_cases {l : List Nat} {e x : Nat} (h : x ∈ l) : x = e ∨ x ∈ l.erase e := by
  by_cases hx : x = e
  · exact Or.inl hx
  · exact Or.inr ((List.mem_erase_of_ne hx).2 h)

/-- nothing below `g` is ever created: every step keeps `AllGe g` -/
theorem allge_step {g : Nat} {s s' : St} (h : AllGe g s) (st : Step s s') : AllGe g s' := by
  obtain ⟨hn, hf⟩ := h
  cases st with
  | beginProcess k e nd hk he hc =>
    have hnd := hn k nd hk
    refine ⟨forall_upd _ _ hk hn ⟨fun x hx => hnd.1 x (List.mem_of_mem_erase hx), ?_⟩, hf⟩
    simpa using hnd.1 e he
  | emitLocal k x c nd hk hc hx =>
    have hnd := hn k nd hk
    have hgc : g ≤ c := hnd.2 c hc
    refine ⟨forall_upd _ _ hk hn ⟨?_, hnd.2⟩, hf⟩
    intro y hy
    rcases List.mem_cons.1 hy with rfl | hy
    · omega
    · exact hnd.1 y hy
  | emitRemote k d x c nd hk hc hx hd =>
    have hnd := hn k nd hk
    have hgc : g ≤ c := hnd.2 c hc
    refine ⟨forall_upd _ _ hk hn hnd, ?_⟩
    intro m hm
    simp only [upd_flight, List.mem_append, List.mem_singleton] at hm
    rcases hm with hm | rfl
    · exact hf m hm
    · simp; omega
  | endProcess k c nd hk hc =>
    have hnd := hn k nd hk
    exact ⟨forall_upd _ _ hk hn ⟨hnd.1, le_none g⟩, hf⟩
  | deliver i m nd hi hk =>
    have hnd := hn m.dest nd hk
    have hm : m ∈ s.flight := List.mem_of_getElem? hi
    refine ⟨forall_upd _ _ hk hn ⟨?_, hnd.2⟩, fun m' hm' => hf m' (List.mem_of_mem_eraseIdx hm')⟩
    intro y hy
    rcases List.mem_cons.1 hy with rfl | hy
    · exact hf m hm
    · exact hnd.1 y hy
  | join k nd hk hs hc => exact ⟨forall_upd _ _ hk hn (hn k nd hk), hf⟩
  | flip k nd hk hs => exact ⟨forall_upd _ _ hk hn (hn k nd hk), hf⟩
  | pass k nd hk hs hg => exact ⟨forall_upd _ _ hk hn (hn k nd hk), hf⟩
  | report k nd hk hs => exact ⟨forall_upd _ _ hk hn (hn k nd hk), hf⟩


/-- the invariant of a round whose old colour is `old` (see the header of `Proofs/GvtGlobal.lean`) -/
structure RInv (old : Bool) (s : St) : Prop where
  col : ∀ (k : Nat) nd, s.nodes[k]? = some nd → nd.colour = (if nd.stage.hasFlipped then !old else old)
  allFlipped : ∀ (k : Nat) nd, s.nodes[k]? = some nd → nd.stage.hasPassed = true →
    ∀ (j : Nat) ndj, s.nodes[j]? = some ndj → ndj.stage.hasFlipped = true
  accCur : ∀ (k : Nat) nd, s.nodes[k]? = some nd → nd.stage ≠ .idle → ∀ c, nd.cur = some c → OLe nd.acc c
  oldFlight : ∀ m ∈ s.flight, m.colour = old → ∃ nd, s.nodes[m.dest]? = some nd ∧ nd.stage.hasPassed = false
  destOk : ∀ m ∈ s.flight, m.dest < s.nodes.length
  newFlight : ∀ m ∈ s.flight, m.colour = (!old) →
    NoIdle s ∨ ∃ (j : Nat) (nd : Node), s.nodes[j]? = some nd ∧ nd.stage.hasFlipped = true ∧ OLe nd.acc m.ts
  safe : NoIdle s → ∀ g, LBnd old g s → AllGe g s

theorem col_step {old : Bool} {s s' : St} (h : RInv old s) (st : Step s s') :
    ∀ (k : Nat) nd, s'.nodes[k]? = some nd → nd.colour = (if nd.stage.hasFlipped then !old else old) := by
  cases st with
  | beginProcess k e nd hk he hc | emitLocal k x c nd hk hc hx | emitRemote k d x c nd hk hc hx hd
  | endProcess k c nd hk hc | deliver i m nd hi hk | join k nd hk hs hc | flip k nd hk hs
  | pass k nd hk hs hg | report k nd hk hs =>
    exact forall_upd _ _ hk h.col (by have := h.col _ nd hk; simp_all [Stage.hasFlipped])

theorem accCur_step {old : Bool} {s s' : St} (h : RInv old s) (st : Step s s') :
    ∀ (k : Nat) nd, s'.nodes[k]? = some nd → nd.stage ≠ .idle → ∀ c, nd.cur = some c → OLe nd.acc c := by
  cases st with
  | beginProcess k e nd hk he hc =>
    exact forall_upd _ _ hk h.accCur (by intro _ c hc'; cases hc'; exact (ole_omin _ _ _).2 (Or.inr (by simp)))
  | emitLocal k x c nd hk hc hx | emitRemote k d x c nd hk hc hx hd
  | endProcess k c nd hk hc | deliver i m nd hi hk | join k nd hk hs hc | flip k nd hk hs
  | pass k nd hk hs hg | report k nd hk hs =>
    exact forall_upd _ _ hk h.accCur (by have := h.accCur _ nd hk; simp_all)

theorem noIdle_step {s s' : St} (h : NoIdle s) (st : Step s s') : NoIdle s' := by
  cases st with
  | beginProcess k e nd hk he hc | emitLocal k x c nd hk hc hx | emitRemote k d x c nd hk hc hx hd
  | endProcess k c nd hk hc | deliver i m nd hi hk | join k nd hk hs hc | flip k nd hk hs
  | pass k nd hk hs hg | report k nd hk hs =>
    exact forall_upd _ _ hk h (by have := h _ nd hk; simp_all)


theorem allFlipped_step {old : Bool} {s s' : St} (h : RInv old s) (st : Step s s') :
    ∀ (k : Nat) nd, s'.nodes[k]? = some nd → nd.stage.hasPassed = true →
    ∀ (j : Nat) ndj, s'.nodes[j]? = some ndj → ndj.stage.hasFlipped = true := by
  -- enough: some node passed in `s'` → all nodes of `s` have flipped
  have key : ∀ (k : Nat) (nd nd' : Node) (fl : List Msg), s.nodes[k]? = some nd → s' = upd s k nd' fl →
      (nd.stage.hasFlipped = true → nd'.stage.hasFlipped = true) →
      (nd'.stage.hasPassed = true → nd.stage.hasPassed = true ∨ ∀ n ∈ s.nodes, n.stage.hasFlipped = true) →
      ∀ (k1 : Nat) nd1, s'.nodes[k1]? = some nd1 → nd1.stage.hasPassed = true →
      ∀ (j : Nat) ndj, s'.nodes[j]? = some ndj → ndj.stage.hasFlipped = true := by
    intro k nd nd' fl hk hs' hfl hps k1 nd1 h1 hp1
    subst hs'
    have hall : ∀ (j : Nat) ndj, s.nodes[j]? = some ndj → ndj.stage.hasFlipped = true := by
      rw [upd_get nd' fl k1 hk] at h1
      split at h1
      · cases h1
        rcases hps hp1 with hp | hg
        · exact h.allFlipped k nd hk hp
        · intro j ndj hj; exact hg ndj ((mem_nodes_iff s ndj).2 ⟨j, hj⟩)
      · exact h.allFlipped k1 nd1 h1 hp1
    exact forall_upd nd' fl hk hall (hfl (hall k nd hk))
  cases st with
  | beginProcess k e nd hk he hc | emitLocal k x c nd hk hc hx | emitRemote k d x c nd hk hc hx hd
  | endProcess k c nd hk hc | deliver i m nd hi hk =>
    exact key _ nd _ _ hk rfl (fun hf => hf) (fun hp => Or.inl hp)
  | join k nd hk hs hc => exact key _ nd _ _ hk rfl (by simp [hs, Stage.hasFlipped]) (by simp [Stage.hasPassed])
  | flip k nd hk hs => exact key _ nd _ _ hk rfl (by simp [Stage.hasFlipped]) (by simp [Stage.hasPassed])
  | pass k nd hk hs hg => exact key _ nd _ _ hk rfl (by simp [Stage.hasFlipped]) (fun _ => Or.inr hg.1)
  | report k nd hk hs => exact key _ nd _ _ hk rfl (by simp [Stage.hasFlipped]) (by simp [hs, Stage.hasPassed])

theorem destOk_step {old : Bool} {s s' : St} (h : RInv old s) (st : Step s s') :
    ∀ m ∈ s'.flight, m.dest < s'.nodes.length := by
  cases st with
  | beginProcess k e nd hk he hc | emitLocal k x c nd hk hc hx
  | endProcess k c nd hk hc | join k nd hk hs hc | flip k nd hk hs
  | pass k nd hk hs hg | report k nd hk hs => simpa using h.destOk
  | emitRemote k d x c nd hk hc hx hd =>
    intro m hm
    simp only [upd_flight, List.mem_append, List.mem_singleton] at hm
    rcases hm with hm | rfl
    · simpa using h.destOk m hm
    · simpa using hd
  | deliver i m nd hi hk =>
    intro m' hm'
    simpa using h.destOk m' (List.mem_of_mem_eraseIdx hm')

/-- shape shared by the flight part of the steps that do not touch `flight` -/
theorem oldFlight_keep {old : Bool} {s : St} (h : RInv old s) {k : Nat} {nd : Node} (nd' : Node)
    (hk : s.nodes[k]? = some nd)
    (hp : nd.stage.hasPassed = false → nd'.stage.hasPassed = true →
      ∀ m ∈ s.flight, m.dest = k → m.colour ≠ old)
    (m : Msg) (hm : m ∈ s.flight) (hc : m.colour = old) (fl : List Msg) :
    ∃ ndd, (upd s k nd' fl).nodes[m.dest]? = some ndd ∧ ndd.stage.hasPassed = false := by
  obtain ⟨ndd, hd, hnp⟩ := h.oldFlight m hm hc
  obtain ⟨ndd', hd', hcase⟩ := exists_upd nd' fl hk m.dest ndd hd
  refine ⟨ndd', hd', ?_⟩
  rcases hcase with ⟨hmk, rfl, rfl⟩ | ⟨_, rfl⟩
  · cases hq : ndd'.stage.hasPassed with
    | false => rfl
    | true => exact absurd hc (hp hnp hq m hm hmk)
  · exact hnp

theorem oldFlight_step {old : Bool} {s s' : St} (h : RInv old s) (st : Step s s') :
    ∀ m ∈ s'.flight, m.colour = old → ∃ nd, s'.nodes[m.dest]? = some nd ∧ nd.stage.hasPassed = false := by
  cases st with
  | beginProcess k e nd hk he hc | emitLocal k x c nd hk hc hx | endProcess k c nd hk hc =>
    intro m hm hc'
    exact oldFlight_keep h _ hk (by intro h1 h2; simp_all) m hm hc' _
  | join k nd hk hs hc =>
    intro m hm hc'
    exact oldFlight_keep h _ hk (by intro h1 h2; simp_all [Stage.hasPassed]) m hm hc' _
  | flip k nd hk hs =>
    intro m hm hc'
    exact oldFlight_keep h _ hk (by intro h1 h2; simp_all [Stage.hasPassed]) m hm hc' _
  | report k nd hk hs =>
    intro m hm hc'
    exact oldFlight_keep h _ hk (by intro h1 h2; simp_all [Stage.hasPassed]) m hm hc' _
  | pass k nd hk hs hg =>
    intro m hm hc'
    refine oldFlight_keep h _ hk ?_ m hm hc' _
    intro _ _ m' hm' hd'
    have h1 := hg.2 m' hm' hd'
    have h2 := h.col k nd hk
    rw [hs] at h2
    simp only [Stage.hasFlipped, if_true] at h2
    rw [h1, h2]; cases old <;> simp
  | deliver i m nd hi hk =>
    intro m' hm' hc'
    exact oldFlight_keep h _ hk (by intro h1 h2; simp_all) m' (List.mem_of_mem_eraseIdx hm') hc' _
  | emitRemote k d x c nd hk hc hx hd =>
    intro m hm hc'
    simp only [upd_flight, List.mem_append, List.mem_singleton] at hm
    rcases hm with hm | rfl
    · exact oldFlight_keep h _ hk (by intro h1 h2; simp_all) m hm hc' _
    · -- a message stamped `old`: the sender has not flipped, so nobody has passed
      simp only at hc' ⊢
      have hnf : nd.stage.hasFlipped = false := by
        have := h.col k nd hk
        cases hf : nd.stage.hasFlipped with
        | false => rfl
        | true => rw [hf, hc'] at this; cases old <;> simp at this
      obtain ⟨ndd, hdd⟩ : ∃ ndd, s.nodes[d]? = some ndd := ⟨s.nodes[d], List.getElem?_eq_getElem hd⟩
      obtain ⟨ndd', hd', hcase⟩ := exists_upd nd (s.flight ++ [⟨nd.colour, d, x⟩]) hk d ndd hdd
      refine ⟨ndd', hd', ?_⟩
      have : ndd'.stage = ndd.stage := by
        rcases hcase with ⟨_, rfl, rfl⟩ | ⟨_, rfl⟩ <;> rfl
      rw [this]
      cases hq : ndd.stage.hasPassed with
      | false => rfl
      | true => have := h.allFlipped d ndd hdd hq k nd hk; rw [hnf] at this; cases this


/-- a new-colour message that was in flight before the step keeps its witness -/
theorem newFlight_keep {old : Bool} {s : St} (h : RInv old s) {k : Nat} {nd : Node} (nd' : Node)
    (hk : s.nodes[k]? = some nd) (fl : List Msg) (hst : Step s (upd s k nd' fl))
    (hp : nd.stage.hasFlipped = true → nd'.stage.hasFlipped = true ∧ ∀ x, OLe nd.acc x → OLe nd'.acc x)
    (m : Msg) (hm : m ∈ s.flight) (hc : m.colour = (!old)) :
    NoIdle (upd s k nd' fl) ∨ ∃ (j : Nat) (ndj : Node), (upd s k nd' fl).nodes[j]? = some ndj ∧
      ndj.stage.hasFlipped = true ∧ OLe ndj.acc m.ts := by
  rcases h.newFlight m hm hc with hni | ⟨j, ndj, hj, hf, hle⟩
  · exact Or.inl (noIdle_step hni hst)
  · obtain ⟨ndj', hj', hcase⟩ := exists_upd nd' fl hk j ndj hj
    refine Or.inr ⟨j, ndj', hj', ?_⟩
    rcases hcase with ⟨_, rfl, rfl⟩ | ⟨_, rfl⟩
    · exact ⟨(hp hf).1, (hp hf).2 _ hle⟩
    · exact ⟨hf, hle⟩

theorem newFlight_step {old : Bool} {s s' : St} (h : RInv old s) (st : Step s s') :
    ∀ m ∈ s'.flight, m.colour = (!old) →
    NoIdle s' ∨ ∃ (j : Nat) (nd : Node), s'.nodes[j]? = some nd ∧ nd.stage.hasFlipped = true ∧ OLe nd.acc m.ts := by
  have st0 := st
  cases st with
  | beginProcess k e nd hk he hc =>
    intro m hm hc'
    exact newFlight_keep h _ hk _ st0 (fun hf => ⟨hf, fun x hx => (ole_omin _ _ _).2 (Or.inl hx)⟩) m hm hc'
  | emitLocal k x c nd hk hc hx | endProcess k c nd hk hc =>
    intro m hm hc'
    exact newFlight_keep h _ hk _ st0 (fun hf => ⟨hf, fun x hx => hx⟩) m hm hc'
  | join k nd hk hs hc =>
    intro m hm hc'
    exact newFlight_keep h _ hk _ st0 (by simp [hs, Stage.hasFlipped]) m hm hc'
  | flip k nd hk hs | pass k nd hk hs hg | report k nd hk hs =>
    intro m hm hc'
    exact newFlight_keep h _ hk _ st0 (fun _ => ⟨by simp [Stage.hasFlipped], fun x hx => hx⟩) m hm hc'
  | deliver i m nd hi hk =>
    intro m' hm' hc'
    exact newFlight_keep h _ hk _ st0 (fun hf => ⟨hf, fun x hx => hx⟩) m' (List.mem_of_mem_eraseIdx hm') hc'
  | emitRemote k d x c nd hk hc hx hd =>
    intro m hm hc'
    simp only [upd_flight, List.mem_append, List.mem_singleton] at hm
    rcases hm with hm | rfl
    · exact newFlight_keep h _ hk _ st0 (fun hf => ⟨hf, fun x hx => hx⟩) m hm hc'
    · -- stamped `!old`: the sender has flipped, hence joined, hence `acc ≤ cur ≤ x`
      simp only at hc' ⊢
      have hf : nd.stage.hasFlipped = true := by
        have := h.col k nd hk
        cases hf : nd.stage.hasFlipped with
        | true => rfl
        | false => rw [hf, hc'] at this; cases old <;> simp at this
      have hni : nd.stage ≠ .idle := by intro hi; rw [hi] at hf; simp [Stage.hasFlipped] at hf
      refine Or.inr ⟨k, nd, ?_, hf, ole_trans (h.accCur k nd hk hni c hc) hx⟩
      rw [upd_get _ _ k hk]; simp

/-- `floor` of the old node from `floor` of the new one, for a step that keeps the stage -/
theorem floor_local {g : Nat} {nd nd' : Node} (hst : nd'.stage = nd.stage)
    (hu : nd.stage.isReported = false → Le g nd'.acc → (∀ x ∈ nd'.pend, g ≤ x) → Le g nd'.cur →
      Le g nd.acc ∧ (∀ x ∈ nd.pend, g ≤ x) ∧ Le g nd.cur) :
    Le g (floor nd') → Le g (floor nd) := by
  intro hfl
  cases hr : nd.stage.isReported with
  | false =>
    have h' := (le_floor_unrep g nd' (by rw [hst]; exact hr)).1 hfl
    exact (le_floor_unrep g nd hr).2 (hu hr h'.1 h'.2.1 h'.2.2)
  | true =>
    cases hs : nd.stage with
    | reported m =>
      rw [le_floor_rep g nd m hs]
      rwa [le_floor_rep g nd' m (by rw [hst]; exact hs)] at hfl
    | idle | joined | flipped | passed => rw [hs] at hr; cases hr

/-- same for a step between two unreported stages that keeps the other fields -/
theorem floor_local' {g : Nat} {nd nd' : Node} (h1 : nd.stage.isReported = false) (h2 : nd'.stage.isReported = false)
    (ha : nd'.acc = nd.acc) (hp : nd'.pend = nd.pend) (hc : nd'.cur = nd.cur) :
    Le g (floor nd') → Le g (floor nd) := by
  intro hfl
  have h' := (le_floor_unrep g nd' h2).1 hfl
  rw [ha, hp, hc] at h'
  exact (le_floor_unrep g nd h1).2 h'

/-- once no node is idle, a step does not enlarge the set of lower bounds of
`min(min_k floor k, min old-colour in flight)`: that quantity does not increase -/
theorem lbnd_const {old : Bool} {g : Nat} {s s' : St} (h : RInv old s) (hni : NoIdle s) (st : Step s s')
    (hl : LBnd old g s') : LBnd old g s := by
  obtain ⟨hn', hf'⟩ := hl
  -- node part, given the local fact at the updated node
  have nodes : ∀ (k : Nat) (nd nd' : Node) (fl : List Msg), s.nodes[k]? = some nd → s' = upd s k nd' fl →
      (Le g (floor nd') → Le g (floor nd)) →
      ∀ (j : Nat) ndj, s.nodes[j]? = some ndj → Le g (floor ndj) := by
    intro k nd nd' fl hk hs' hloc j ndj hj
    subst hs'
    obtain ⟨ndj', hj', hcase⟩ := exists_upd nd' fl hk j ndj hj
    have := hn' j ndj' hj'
    rcases hcase with ⟨_, rfl, rfl⟩ | ⟨_, rfl⟩
    · exact hloc this
    · exact this
  cases st with
  | beginProcess k e nd hk he hc =>
    refine ⟨nodes k nd _ _ hk rfl (floor_local rfl ?_), hf'⟩
    intro _ ha hp hcur
    have ha' := (le_omin _ _ _).1 ha
    refine ⟨ha'.1, ?_, by rw [hc]; exact le_none g⟩
    intro x hx
    rcases mem_erase_cases (e := e) hx with rfl | hx
    · exact (le_some _ _).1 ha'.2
    · exact hp x hx
  | emitLocal k x c nd hk hc hx =>
    refine ⟨nodes k nd _ _ hk rfl (floor_local rfl ?_), hf'⟩
    intro _ ha hp hcur
    exact ⟨ha, fun y hy => hp y (List.mem_cons_of_mem _ hy), hcur⟩
  | emitRemote k d x c nd hk hc hx hd =>
    refine ⟨nodes k nd _ _ hk rfl (fun hfl => hfl), ?_⟩
    intro m hm hcm
    exact hf' m (by simp [hm]) hcm
  | endProcess k c nd hk hc =>
    refine ⟨nodes k nd _ _ hk rfl (floor_local rfl ?_), hf'⟩
    intro _ ha hp _
    have hac := h.accCur k nd hk (hni k nd hk) c hc
    refine ⟨ha, hp, ?_⟩
    rw [hc]; exact (le_some _ _).2 (le_ole_trans ha hac)
  | deliver i m nd hi hk =>
    have hloc : Le g (floor { nd with pend := m.ts :: nd.pend }) → Le g (floor nd) := by
      refine floor_local rfl ?_
      intro _ ha hp hcur
      exact ⟨ha, fun y hy => hp y (List.mem_cons_of_mem _ hy), hcur⟩
    refine ⟨nodes m.dest nd _ _ hk rfl hloc, ?_⟩
    intro m' hm' hcm'
    obtain ⟨i', hi'⟩ := List.mem_iff_getElem?.1 hm'
    by_cases hii : i' = i
    · subst hii
      rw [hi] at hi'; cases hi'
      -- the delivered message is old-coloured: its destination has not passed, so it is under `floor`
      obtain ⟨ndd, hdd, hnp⟩ := h.oldFlight m hm' hcm'
      rw [hk] at hdd; cases hdd
      have hfl := hn' m.dest { nd with pend := m.ts :: nd.pend } (by rw [upd_get _ _ _ hk]; simp)
      have hnr : nd.stage.isReported = false := by
        revert hnp; cases nd.stage <;> simp [Stage.hasPassed, Stage.isReported]
      exact ((le_floor_unrep g { nd with pend := m.ts :: nd.pend } hnr).1 hfl).2.1 m.ts (List.mem_cons_self ..)
    · exact hf' m' ((List.mem_eraseIdx_iff_getElem?).2 ⟨i', hii, hi'⟩) hcm'
  | join k nd hk hs hc => exact absurd hs (hni k nd hk)
  | flip k nd hk hs =>
    exact ⟨nodes k nd _ _ hk rfl (floor_local' (by simp [hs, Stage.isReported]) (by simp [Stage.isReported])
      rfl rfl rfl), hf'⟩
  | pass k nd hk hs hg =>
    exact ⟨nodes k nd _ _ hk rfl (floor_local' (by simp [hs, Stage.isReported]) (by simp [Stage.isReported])
      rfl rfl rfl), hf'⟩
  | report k nd hk hs =>
    refine ⟨nodes k nd _ _ hk rfl ?_, hf'⟩
    intro hfl; simpa [floor] using hfl

/-- a step other than `join` keeps an idle node idle -/
theorem idle_keep {s : St} {k : Nat} {nd : Node} (nd' : Node) (fl : List Msg) (hk : s.nodes[k]? = some nd)
    (hst : nd'.stage = nd.stage) (hni : NoIdle (upd s k nd' fl)) : NoIdle s := by
  intro j ndj hj hid
  obtain ⟨ndj', hj', hcase⟩ := exists_upd nd' fl hk j ndj hj
  have := hni j ndj' hj'
  rcases hcase with ⟨_, rfl, rfl⟩ | ⟨_, rfl⟩
  · rw [hst] at this; exact this hid
  · exact this hid

theorem idle_keep' {s : St} {k : Nat} {nd : Node} (nd' : Node) (fl : List Msg) (hk : s.nodes[k]? = some nd)
    (hst : nd.stage ≠ .idle) (hni : NoIdle (upd s k nd' fl)) : NoIdle s := by
  intro j ndj hj hid
  obtain ⟨ndj', hj', hcase⟩ := exists_upd nd' fl hk j ndj hj
  have := hni j ndj' hj'
  rcases hcase with ⟨_, rfl, rfl⟩ | ⟨_, rfl⟩
  · exact hst hid
  · exact this hid

theorem safe_step {old : Bool} {s s' : St} (h : RInv old s) (st : Step s s') :
    NoIdle s' → ∀ g, LBnd old g s' → AllGe g s' := by
  intro hni' g hl
  by_cases hni : NoIdle s
  · exact allge_step (h.safe hni g (lbnd_const h hni st hl)) st
  · have st0 := st
    cases st with
    | beginProcess k e nd hk he hc | emitLocal k x c nd hk hc hx | emitRemote k d x c nd hk hc hx hd
    | endProcess k c nd hk hc | deliver i m nd hi hk =>
      exact absurd (idle_keep _ _ hk (by rfl) hni') hni
    | flip k nd hk hs | pass k nd hk hs hg | report k nd hk hs =>
      exact absurd (idle_keep' _ _ hk (by simp [hs]) hni') hni
    | join k nd hk hs hc =>
      -- the last idle node joins: nobody has passed, every node is still under its own `floor`
      obtain ⟨hn', hf'⟩ := hl
      have hnf : nd.stage.hasFlipped = false := by simp [hs, Stage.hasFlipped]
      have hnp : ∀ (j : Nat) ndj, s.nodes[j]? = some ndj → ndj.stage.hasPassed = false := by
        intro j ndj hj
        cases hq : ndj.stage.hasPassed with
        | false => rfl
        | true => have := h.allFlipped j ndj hj hq k nd hk; rw [hnf] at this; cases this
      have hnr : ∀ nd0 : Node, nd0.stage.hasPassed = false → nd0.stage.isReported = false := by
        intro nd0; cases nd0.stage <;> simp [Stage.hasPassed, Stage.isReported]
      have hnp' : ∀ (j : Nat) ndj, (upd s k { nd with stage := .joined, acc := none } s.flight).nodes[j]? =
          some ndj → ndj.stage.isReported = false :=
        forall_upd _ _ hk (fun j ndj hj => hnr ndj (hnp j ndj hj)) (by simp [Stage.isReported])
      refine ⟨?_, ?_⟩
      · intro j ndj hj
        have := (le_floor_unrep g ndj (hnp' j ndj hj)).1 (hn' j ndj hj)
        exact ⟨this.2.1, this.2.2⟩
      · intro m hm
        simp only [upd_flight] at hm hf'
        by_cases hcm : m.colour = old
        · exact hf' m hm hcm
        · have hcm' : m.colour = (!old) := by cases hc0 : m.colour <;> cases old <;> simp_all
          rcases h.newFlight m hm hcm' with h1 | ⟨j, ndj, hj, hfj, hle⟩
          · exact absurd h1 hni
          · have hjk : j ≠ k := by
              intro hjk; subst hjk; rw [hk] at hj; cases hj; rw [hnf] at hfj; cases hfj
            have hj' : (upd s k { nd with stage := .joined, acc := none } s.flight).nodes[j]? = some ndj := by
              rw [upd_get _ _ j hk]; simp [hjk, hj]
            have := (le_floor_unrep g ndj (hnp' j ndj hj')).1 (hn' j ndj hj')
            exact le_ole_trans this.1 hle

theorem rinv_step {old : Bool} {s s' : St} (h : RInv old s) (st : Step s s') : RInv old s' :=
  ⟨col_step h st, allFlipped_step h st, accCur_step h st, oldFlight_step h st, destOk_step h st,
   newFlight_step h st, safe_step h st⟩

theorem rinv_init {old : Bool} {s : St} (h0 : RoundStart old s) : RInv old s := by
  obtain ⟨hn, hf⟩ := h0
  have hn' : ∀ (k : Nat) nd, s.nodes[k]? = some nd → nd.stage = .idle ∧ nd.colour = old :=
    fun k nd hk => hn nd ((mem_nodes_iff s nd).2 ⟨k, hk⟩)
  refine ⟨?_, ?_, ?_, ?_, ?_, ?_, ?_⟩
  · intro k nd hk; simp [(hn' k nd hk).1, (hn' k nd hk).2, Stage.hasFlipped]
  · intro k nd hk hp; rw [(hn' k nd hk).1] at hp; simp [Stage.hasPassed] at hp
  · intro k nd hk hni; exact absurd (hn' k nd hk).1 hni
  · intro m hm _
    have hd := (hf m hm).2
    refine ⟨s.nodes[m.dest], List.getElem?_eq_getElem hd, ?_⟩
    rw [(hn' m.dest _ (List.getElem?_eq_getElem hd)).1]; rfl
  · intro m hm; exact (hf m hm).2
  · intro m hm hc; rw [(hf m hm).1] at hc; cases old <;> simp at hc
  · intro hni g hl
    refine ⟨?_, ?_⟩
    · intro k nd hk; exact absurd (hn' k nd hk).1 (hni k nd hk)
    · intro m hm; exact hl.2 m hm (hf m hm).1

theorem rinv_reach {old : Bool} {s0 s : St} (h0 : RoundStart old s0) (hr : Reach s0 s) : RInv old s := by
  induction hr with
  | refl => exact rinv_init h0
  | step _ st ih => exact rinv_step ih st


/-! ## after the last report -/

theorem map_stage_upd {s : St} {k : Nat} {nd : Node} (nd' : Node) (fl : List Msg) (hk : s.nodes[k]? = some nd)
    (hst : nd'.stage = nd.stage) :
    (upd s k nd' fl).nodes.map (·.stage) = s.nodes.map (·.stage) := by
  apply List.ext_getElem?
  intro j
  rw [List.getElem?_map, List.getElem?_map, upd_get nd' fl j hk]
  by_cases hjk : j = k
  · subst hjk; simp [hk, hst]
  · simp [hjk]

theorem allReported_iff (s : St) : AllReported s ↔ ∀ st ∈ s.nodes.map (·.stage), st.isReported = true := by
  simp [AllReported]

theorem allReported_get {s : St} (h : AllReported s) {k : Nat} {nd : Node} (hk : s.nodes[k]? = some nd) :
    nd.stage.isReported = true := h nd ((mem_nodes_iff s nd).2 ⟨k, hk⟩)

/-- once every node has reported, no step changes a stage: the round's result is fixed -/
theorem stages_step {s s' : St} (hall : AllReported s) (st : Step s s') :
    s'.nodes.map (·.stage) = s.nodes.map (·.stage) := by
  cases st with
  | beginProcess k e nd hk he hc | emitLocal k x c nd hk hc hx | emitRemote k d x c nd hk hc hx hd
  | endProcess k c nd hk hc | deliver i m nd hi hk => exact map_stage_upd _ _ hk rfl
  | join k nd hk hs hc | flip k nd hk hs | pass k nd hk hs hg | report k nd hk hs =>
    have := allReported_get hall hk; rw [hs] at this; cases this

theorem stages_reach {s s' : St} (hall : AllReported s) (hr : Reach s s') :
    s'.nodes.map (·.stage) = s.nodes.map (·.stage) := by
  induction hr with
  | refl => rfl
  | step _ st ih =>
    have hall' := (allReported_iff _).2 (by rw [ih]; exact (allReported_iff _).1 hall)
    rw [stages_step hall' st, ih]

theorem reach_trans {s0 s s' : St} (h1 : Reach s0 s) (h2 : Reach s s') : Reach s0 s' := by
  induction h2 with
  | refl => exact h1
  | step _ st ih => exact .step ih st

theorem gvt_eq_of_stages {s s' : St} (h : s'.nodes.map (·.stage) = s.nodes.map (·.stage)) : gvt s' = gvt s := by
  have : s'.nodes.map (·.stage.value) = s.nodes.map (·.stage.value) := by
    have := congrArg (List.map Stage.value) h
    simpa [List.map_map, Function.comp_def] using this
  unfold gvt; rw [this]

/-- with every node reported, every `g ≤ gvt s` is in `LBnd`, hence (invariant `safe`) below everything -/
theorem allge_of_allReported {old : Bool} {s : St} (h : RInv old s) (hall : AllReported s) (g : Nat)
    (hg : Le g (gvt s)) : AllGe g s := by
  have hni : NoIdle s := by
    intro k nd hk hid; have := allReported_get hall hk; rw [hid] at this; cases this
  apply h.safe hni g
  refine ⟨?_, ?_⟩
  · intro k nd hk
    have hrep := allReported_get hall hk
    cases hs : nd.stage with
    | reported m =>
      rw [le_floor_rep g nd m hs]
      have := (le_ominL g _).1 hg nd.stage.value (List.mem_map.2 ⟨nd, (mem_nodes_iff s nd).2 ⟨k, hk⟩, rfl⟩)
      rwa [hs] at this
    | idle | joined | flipped | passed => rw [hs] at hrep; cases hrep
  · intro m hm hc
    obtain ⟨nd, hd, hnp⟩ := h.oldFlight m hm hc
    have := allReported_get hall hd
    revert hnp this; cases nd.stage <;> simp [Stage.hasPassed, Stage.isReported]

theorem lowerBound_of_allge {v : Option Nat} {s : St} (h : ∀ g, Le g v → AllGe g s) : LowerBound v s := by
  refine ⟨?_, ?_⟩
  · intro nd hnd
    obtain ⟨k, hk⟩ := (mem_nodes_iff s nd).1 hnd
    refine ⟨fun x hx => ole_of_forall_le fun g hg => ((h g hg).1 k nd hk).1 x hx, ?_⟩
    intro c hc
    exact ole_of_forall_le fun g hg => ((h g hg).1 k nd hk).2 c hc
  · intro m hm
    exact ole_of_forall_le fun g hg => (h g hg).2 m hm

/-! ## monotonicity across rounds -/

/-- everything the round can ever look at is `≥ g0` -/
def Mono (g0 : Nat) (s : St) : Prop :=
  AllGe g0 s ∧ ∀ (k : Nat) nd, s.nodes[k]? = some nd → (nd.stage ≠ .idle → Le g0 nd.acc) ∧ Le g0 nd.stage.value

theorem mono_step {g0 : Nat} {s s' : St} (h : Mono g0 s) (st : Step s s') : Mono g0 s' := by
  refine ⟨allge_step h.1 st, ?_⟩
  obtain ⟨⟨hn, hf⟩, hm⟩ := h
  cases st with
  | beginProcess k e nd hk he hc =>
    refine forall_upd _ _ hk hm ⟨fun hni => (le_omin _ _ _).2 ⟨(hm k nd hk).1 hni, ?_⟩, (hm k nd hk).2⟩
    exact (le_some _ _).2 ((hn k nd hk).1 e he)
  | emitLocal k x c nd hk hc hx | emitRemote k d x c nd hk hc hx hd
  | endProcess k c nd hk hc | deliver i m nd hi hk => exact forall_upd _ _ hk hm (hm _ nd hk)
  | join k nd hk hs hc => exact forall_upd _ _ hk hm ⟨fun _ => le_none g0, by simp [Stage.value]⟩
  | flip k nd hk hs | pass k nd hk hs hg =>
    exact forall_upd _ _ hk hm ⟨fun _ => (hm k nd hk).1 (by simp [hs]), by simp [Stage.value]⟩
  | report k nd hk hs =>
    have ha := (hm k nd hk).1 (by simp [hs])
    refine forall_upd _ _ hk hm ⟨fun _ => ha, ?_⟩
    simp only [Stage.value]
    exact (le_floor_unrep g0 nd (by simp [hs, Stage.isReported])).2 ⟨ha, (hn k nd hk).1, (hn k nd hk).2⟩

theorem mono_init {old : Bool} {g0 : Nat} {s : St} (h0 : RoundStart old s) (hg : LowerBound (some g0) s) :
    Mono g0 s := by
  refine ⟨⟨?_, fun m hm => (ole_some _ _).1 (hg.2 m hm)⟩, ?_⟩
  · intro k nd hk
    have := hg.1 nd ((mem_nodes_iff s nd).2 ⟨k, hk⟩)
    exact ⟨fun x hx => (ole_some _ _).1 (this.1 x hx), fun c hc => (ole_some _ _).1 (this.2 c hc)⟩
  · intro k nd hk
    have := (h0.1 nd ((mem_nodes_iff s nd).2 ⟨k, hk⟩)).1
    exact ⟨fun hni => absurd this hni, by rw [this]; exact le_none g0⟩

theorem mono_reach {g0 : Nat} {s0 s : St} (h : Mono g0 s0) (hr : Reach s0 s) : Mono g0 s := by
  induction hr with
  | refl => exact h
  | step _ st ih => exact mono_step ih st

end RootSim.GvtGlobal
