import RootSim.Model.Float
/-!
Lemmas about `rneNat` (round to nearest even to binary64 precision): it never crosses a
representable number (sandwich lemmas) and it stays strictly below a grid point that is more
than half a grid step away.  Scales `s ≤ 1074` only (no subnormal grid): that covers every value
that occurs in random.c.
-/
namespace RootSim.Float

theorem bitlen_lt (m : Nat) : m < 2 ^ bitlen m := by
  unfold bitlen
  split
  · omega
  · exact Nat.lt_log2_self

theorem bitlen_le_of_lt {m n : Nat} (h : m < 2 ^ n) : bitlen m ≤ n := by
  unfold bitlen
  split
  · omega
  · rename_i h0
    have := (Nat.log2_lt h0).2 h
    omega

theorem pow_bitlen_le {m : Nat} (h0 : m ≠ 0) : 2 ^ (bitlen m - 1) ≤ m := by
  unfold bitlen
  simp only [h0, if_false, Nat.add_sub_cancel]
  exact Nat.log2_self_le h0

theorem dropBits_eq {m s : Nat} (hs : s ≤ 1074) : dropBits m s = bitlen m - 53 := by
  unfold dropBits
  omega

/-- shape of the result: on the grid `2^k`, at `q` or `q + 1`, up only from the upper half -/
theorem rneNat_cases (m s : Nat) :
    let k := dropBits m s
    (k = 0 ∧ rneNat m s = m) ∨
    (0 < k ∧ (rneNat m s = (m / 2 ^ k) * 2 ^ k ∨
              (rneNat m s = (m / 2 ^ k + 1) * 2 ^ k ∧ 2 ^ (k - 1) ≤ m % 2 ^ k))) := by
  intro k
  unfold rneNat
  simp only
  by_cases hk : dropBits m s = 0
  · left; exact ⟨hk, by simp [hk]⟩
  · right
    refine ⟨Nat.pos_of_ne_zero hk, ?_⟩
    simp only [hk, if_false]
    split
    · rename_i h
      right
      refine ⟨rfl, ?_⟩
      show 2 ^ (dropBits m s - 1) ≤ m % 2 ^ dropBits m s
      omega
    · left; rfl

/-- rounding does not go below the grid point under `m` -/
theorem rneNat_ge_floor (m s : Nat) : (m / 2 ^ dropBits m s) * 2 ^ dropBits m s ≤ rneNat m s := by
  rcases rneNat_cases m s with ⟨hk, h⟩ | ⟨hk, h | ⟨h, _⟩⟩
  · rw [h, hk]; simp
  · rw [h]; exact Nat.le_refl _
  · rw [h]; exact Nat.mul_le_mul_right _ (Nat.le_succ _)

/-- rounding does not cross a grid point above `m` -/
theorem rneNat_le_grid (m s Y : Nat) (h : m ≤ Y * 2 ^ dropBits m s) :
    rneNat m s ≤ Y * 2 ^ dropBits m s := by
  rcases rneNat_cases m s with ⟨hk, e⟩ | ⟨hk, e | ⟨e, hr⟩⟩
  · rw [e]; exact h
  · rw [e]
    exact Nat.le_trans (Nat.div_mul_le_self _ _) h
  · rw [e]
    have hg : 0 < 2 ^ dropBits m s := Nat.two_pow_pos _
    have hpos : 0 < 2 ^ (dropBits m s - 1) := Nat.two_pow_pos _
    have hdm : m / 2 ^ dropBits m s * 2 ^ dropBits m s + m % 2 ^ dropBits m s = m := by
      rw [Nat.mul_comm]; exact Nat.div_add_mod m (2 ^ dropBits m s)
    -- q * g < m ≤ Y * g
    have hlt : m / 2 ^ dropBits m s * 2 ^ dropBits m s < Y * 2 ^ dropBits m s := by
      omega
    have := Nat.lt_of_mul_lt_mul_right hlt
    exact Nat.mul_le_mul_right _ this

/-- more than half a grid step below a grid point: the result stays strictly below it -/
theorem rneNat_lt_grid (m s Y : Nat) (hk : 0 < dropBits m s)
    (h : m + 2 ^ (dropBits m s - 1) < Y * 2 ^ dropBits m s) :
    rneNat m s < Y * 2 ^ dropBits m s := by
  have hg : 2 ^ dropBits m s = 2 * 2 ^ (dropBits m s - 1) := by
    rw [← Nat.pow_succ']; congr 1; omega
  rcases rneNat_cases m s with ⟨hk0, _⟩ | ⟨_, e | ⟨e, hr⟩⟩
  · omega
  · rw [e]
    have := Nat.div_mul_le_self m (2 ^ dropBits m s)
    omega
  · rw [e, Nat.add_mul, Nat.one_mul]
    have hdm : m / 2 ^ dropBits m s * 2 ^ dropBits m s + m % 2 ^ dropBits m s = m := by
      rw [Nat.mul_comm]; exact Nat.div_add_mod m (2 ^ dropBits m s)
    omega

/-- **upper sandwich**: a representable `c * 2^j / 2^s` (`m < 2^(53+j)`, on the subnormal grid
or coarser) above `m / 2^s` is not crossed -/
theorem rneNat_le_repr (m s c j : Nat) (hs : s ≤ 1074 + j)
    (h : m ≤ c * 2 ^ j) (hlt : m < 2 ^ (53 + j)) : rneNat m s ≤ c * 2 ^ j := by
  have hk : dropBits m s ≤ j := by
    unfold dropBits
    have := bitlen_le_of_lt hlt
    omega
  have e : c * 2 ^ j = (c * 2 ^ (j - dropBits m s)) * 2 ^ dropBits m s := by
    rw [Nat.mul_assoc, ← Nat.pow_add]; congr 2; omega
  rw [e] at h ⊢
  exact rneNat_le_grid m s _ h

/-- the value 1 (`2^s` at scale `s`) is not crossed from below -/
theorem rneNat_le_one (m s : Nat) (hs : s ≤ 1074) (h : m ≤ 2 ^ s) : rneNat m s ≤ 2 ^ s := by
  by_cases hm0 : m = 0
  · subst hm0
    have : rneNat 0 s = 0 := by
      unfold rneNat dropBits bitlen
      have : s - 1074 = 0 := by omega
      simp [this]
    rw [this]; exact Nat.zero_le _
  · have := rneNat_le_repr m s 1 s (by omega) (by simpa using h)
      (by
        have : 2 ^ s < 2 ^ (53 + s) := Nat.pow_lt_pow_right (by omega) (by omega)
        omega)
    simpa using this

/-- **lower sandwich** for a power of two: `2^-j ≤ m / 2^s → 2^-j ≤ rne (m / 2^s)` -/
theorem rneNat_ge_pow (m s j : Nat) (hs : s ≤ 1074) (h : 2 ^ s ≤ m * 2 ^ j) :
    2 ^ s ≤ rneNat m s * 2 ^ j := by
  have hm0 : m ≠ 0 := by
    intro h0; subst h0
    have := Nat.two_pow_pos s
    omega
  rcases rneNat_cases m s with ⟨_, e⟩ | ⟨hk, _⟩
  · rw [e]; exact h
  · -- k = bitlen m - 53 > 0
    have hfl := rneNat_ge_floor m s
    rw [dropBits_eq hs] at hk hfl
    -- m ≥ 2^(52 + k), so the floor is ≥ 2^(52+k)
    have hb := pow_bitlen_le hm0
    have hb' : 2 ^ (52 + (bitlen m - 53)) ≤ m := by
      have : 52 + (bitlen m - 53) = bitlen m - 1 := by omega
      rw [this]; exact hb
    have hq : 2 ^ 52 ≤ m / 2 ^ (bitlen m - 53) := by
      rw [Nat.le_div_iff_mul_le (Nat.two_pow_pos _), ← Nat.pow_add]
      exact hb'
    have hfloor : 2 ^ (52 + (bitlen m - 53)) ≤ rneNat m s := by
      refine Nat.le_trans ?_ hfl
      rw [Nat.pow_add]
      exact Nat.mul_le_mul_right _ hq
    -- 2^s ≤ m * 2^j < 2^(bitlen m + j)
    have hlt : 2 ^ s < 2 ^ (bitlen m + j) := by
      rw [Nat.pow_add]
      exact Nat.lt_of_le_of_lt h (Nat.mul_lt_mul_of_pos_right (bitlen_lt m) (Nat.two_pow_pos _))
    have hsj : s < bitlen m + j := (Nat.pow_lt_pow_iff_right (by omega)).1 hlt
    have hle : 2 ^ s ≤ 2 ^ (52 + (bitlen m - 53) + j) :=
      Nat.pow_le_pow_right (by omega) (by omega)
    refine Nat.le_trans hle ?_
    rw [Nat.pow_add _ _ j]
    exact Nat.mul_le_mul_right _ hfloor

/-- overflow threshold is far away for anything `≤ 2^(31+s)` -/
theorem small_no_overflow {a s : Nat} (h : a ≤ 2 ^ (31 + s)) : ¬ a ≥ 2 ^ (1024 + s) := by
  have : 2 ^ (31 + s) < 2 ^ (1024 + s) := Nat.pow_lt_pow_right (by omega) (by omega)
  omega

/-- **`Random() * n < n` after rounding**: `M / 2^s ≤ 1 - 2^-53`, `1 ≤ n < 2^31`. -/
theorem rneNat_mul_lt (M s n : Nat) (hM : M < 2 ^ 53) (hs53 : 53 ≤ s) (hs : s ≤ 1074)
    (hn1 : 1 ≤ n) (hn : n < 2 ^ 31) : rneNat (M * n) s < n * 2 ^ s := by
  have hpow : 2 ^ 53 ≤ 2 ^ s := Nat.pow_le_pow_right (by omega) hs53
  -- M*n + n ≤ n * 2^s
  have hgap : M * n + n ≤ n * 2 ^ s := by
    have h1 : (M + 1) * n ≤ 2 ^ s * n := Nat.mul_le_mul_right _ (by omega)
    rw [Nat.add_mul, Nat.one_mul] at h1
    rw [Nat.mul_comm n]
    exact h1
  rcases Nat.eq_zero_or_pos (dropBits (M * n) s) with hk | hk
  · rcases rneNat_cases (M * n) s with ⟨_, e⟩ | ⟨hk', _⟩
    · rw [e]; omega
    · omega
  · have hk' := hk
    rw [dropBits_eq hs] at hk'
    have hm0 : M * n ≠ 0 := by
      intro h0
      rw [h0] at hk'
      simp [bitlen] at hk'
    -- 2^53 * h ≤ m < 2^53 * n, so h < n
    have hb := pow_bitlen_le hm0
    have e1 : bitlen (M * n) - 1 = 53 + (bitlen (M * n) - 53 - 1) := by omega
    rw [e1, Nat.pow_add] at hb
    have hmn : M * n < 2 ^ 53 * n := Nat.mul_lt_mul_of_pos_right hM (by omega)
    have hh : 2 ^ (bitlen (M * n) - 53 - 1) < n := by
      have := Nat.lt_of_le_of_lt hb hmn
      exact Nat.lt_of_mul_lt_mul_left this
    -- k ≤ s
    have hk31 : bitlen (M * n) - 53 - 1 < 31 :=
      (Nat.pow_lt_pow_iff_right (by omega)).1 (Nat.lt_trans hh hn)
    have e : n * 2 ^ s = (n * 2 ^ (s - dropBits (M * n) s)) * 2 ^ dropBits (M * n) s := by
      rw [Nat.mul_assoc, ← Nat.pow_add]; congr 2
      rw [dropBits_eq hs]; omega
    rw [e]
    apply rneNat_lt_grid _ _ _ hk
    rw [← e, dropBits_eq hs]
    omega

end RootSim.Float
