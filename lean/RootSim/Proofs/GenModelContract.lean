import RootSim.Model.GenModel
import RootSim.Model.SpecV2
import RootSim.Proofs.EventOrder
/-!
# The GenModel family and the model contracts `Spec.V2s` / `Spec.V2`

`Spec.V2s M` / `Spec.V2 M` quantify over EVERY LP index, EVERY state and EVERY event. For the GenModel
family (`GenModel.simModel P rng0`, the twin of `harness/genmodel.h`) they are FALSE as stated
(`genmodel_not_V2s_*`, `genmodel_not_V2_*` below, kernel-checked):

* an LP index `ℓ ≥ nLps` (the runtime never has one): `LP_INIT` and the tick send to `me`;
* an `LP_INIT` event with a time stamp `> 0` (the runtime only dispatches `Spec.initEv ℓ`, time 0):
  `gm_process` schedules the first events at the ABSOLUTE times `dq`, not at `now + dq`;
* an event type above `LP_FINI` (the API contract V3 demands `type < LP_INIT`; the runtime only dispatches such
  events): the fan-out types are `< e.type` but not `< LP_INIT`.

The contracts that ARE true are the relativised ones, `Spec.V2sOn` / `Spec.V2On`: the same conclusion for
every ADMISSIBLE invocation (`Spec.Admissible`: an existing LP, and either a model event type or exactly the
`LP_INIT` event of this LP) — in every state, reachable or not. These are the only invocations any of the
machines (`Spec.Step`, `TW.Step`, `TWG.Step`, `TWD.Step`) perform; `Proofs/ClampTransfer.lean` makes this
precise (the reachable states of `M` and of `Spec.clamp M` coincide, and `V2sOn M ↔ V2s (clamp M)`).
-/
namespace RootSim.Spec
open RootSim

variable {σ : Type}

/-- the invocations the runtime can perform: an existing LP `ℓ` processes a model event (type below
`LP_INIT`) or its own `LP_INIT` event (time 0, empty payload) -/
def Admissible (M : SimModel σ) (ℓ : Nat) (c : Event) : Prop :=
  ℓ < M.nLps ∧ (c.type < LP_INIT ∨ c = initEv ℓ)

instance (M : SimModel σ) (ℓ : Nat) (c : Event) : Decidable (Admissible M ℓ c) := by
  unfold Admissible; infer_instance

/-- `V2s` relativised to the admissible invocations (still EVERY state) -/
def V2sOn (M : SimModel σ) : Prop :=
  ∀ (ℓ : Nat) (s : σ) (c : Event), Admissible M ℓ c → ∀ o ∈ (M.handler ℓ s c).2,
    Event.before c o = true ∧ o.dest < M.nLps ∧ o.type < LP_INIT

/-- `V2` relativised to the admissible invocations (still EVERY state) -/
def V2On (M : SimModel σ) : Prop :=
  ∀ (ℓ : Nat) (s : σ) (c : Event), Admissible M ℓ c → ∀ o ∈ (M.handler ℓ s c).2,
    Event.before o c = false ∧ o.dest < M.nLps ∧ o.type < LP_INIT

/-- the model that answers the non-admissible invocations with "no change, nothing scheduled" and is `M`
on the admissible ones -/
def clamp (M : SimModel σ) : SimModel σ :=
  { M with handler := fun ℓ s c => if Admissible M ℓ c then M.handler ℓ s c else (s, []) }

@[simp] theorem clamp_nLps (M : SimModel σ) : (clamp M).nLps = M.nLps := rfl
@[simp] theorem clamp_init (M : SimModel σ) : (clamp M).init = M.init := rfl

theorem clamp_handler_of {M : SimModel σ} {ℓ : Nat} {c : Event} (h : Admissible M ℓ c) (s : σ) :
    (clamp M).handler ℓ s c = M.handler ℓ s c := by
  simp [clamp, h]

theorem clamp_handler_not {M : SimModel σ} {ℓ : Nat} {c : Event} (h : ¬ Admissible M ℓ c) (s : σ) :
    (clamp M).handler ℓ s c = (s, []) := by
  simp [clamp, h]

theorem V2sOn_iff_clamp (M : SimModel σ) : V2sOn M ↔ V2s (clamp M) := by
  constructor
  · intro V ℓ s c o ho
    by_cases h : Admissible M ℓ c
    · rw [clamp_handler_of h] at ho; exact V ℓ s c h o ho
    · rw [clamp_handler_not h] at ho; simp at ho
  · intro V ℓ s c h o ho
    have := V ℓ s c o (by rw [clamp_handler_of h]; exact ho)
    exact this

theorem V2On_iff_clamp (M : SimModel σ) : V2On M ↔ V2 (clamp M) := by
  constructor
  · intro V ℓ s c o ho
    by_cases h : Admissible M ℓ c
    · rw [clamp_handler_of h] at ho; exact V ℓ s c h o ho
    · rw [clamp_handler_not h] at ho; simp at ho
  · intro V ℓ s c h o ho
    have := V ℓ s c o (by rw [clamp_handler_of h]; exact ho)
    exact this

theorem V2s.on {M : SimModel σ} (V : V2s M) : V2sOn M := fun ℓ s c _ => V ℓ s c
theorem V2.on {M : SimModel σ} (V : V2 M) : V2On M := fun ℓ s c _ => V ℓ s c

theorem V2sOn.toV2On {M : SimModel σ} (V : V2sOn M) : V2On M := by
  intro ℓ s c h o ho
  have := V ℓ s c h o ho
  exact ⟨Event.before_asymm this.1, this.2⟩

end RootSim.Spec

namespace RootSim.GenModel
open RootSim RootSim.Spec

/-! ### The event order on events built by `ScheduleNewEvent` -/

theorem before_of_type_gt {a b : Event} (ht : a.t = b.t) (hty : b.type < a.type) :
    Event.before a b = true := by
  have : a.type ≠ b.type := by omega
  simp [Event.before, isBefore, isBeforeExt, Msg.anti, Event.toMsg, ht, this, hty]

theorem before_of_le_type_gt {a b : Event} (ht : a.t ≤ b.t) (hty : b.type < a.type) :
    Event.before a b = true := by
  rcases Nat.lt_or_ge a.t b.t with h | h
  · exact Event.before_of_t_lt h
  · exact before_of_type_gt (by omega) hty

/-- same time stamp, type, payload: not before (whatever the destinations) -/
theorem not_before_of_same {a b : Event} (ht : a.t = b.t) (hty : a.type = b.type)
    (hp : a.payload = b.payload) : Event.before a b = false := by
  have h : Event.before a b = Event.before b b := by
    simp [Event.before, isBefore, isBeforeExt, Msg.anti, Msg.body, Event.toMsg, ht, hty, hp]
  rw [h]; exact Event.before_irrefl b

/-! ### The delay table -/

theorem delay_pos (k : Nat) : 1 ≤ delaysQ.getD (1 + k) 1 := by
  match k with
  | 0 | 1 | 2 | 3 | 4 | 5 => decide
  | k + 6 =>
    have : 1 + (k + 6) = k + 7 := by omega
    rw [this]
    simp [delaysQ]

/-! ### What `gm_process` schedules -/

/-- every event scheduled by the `LP_INIT` branch -/
theorem onInit_out {P : Params} {me : Nat} {s : GState} {o : Event} (ho : o ∈ (onInit P me s).2) :
    (o.dest = me ∨ o.dest % P.nLps = o.dest ∧ (0 < P.nLps → o.dest < P.nLps)) ∧
    (o.type = P.nTypes - 1 ∨ (0 < P.nTypes → o.type < P.nTypes)) ∧
    (P.t0Events = false → 1 ≤ o.t) := by
  simp only [onInit, List.mem_map] at ho
  obtain ⟨j, -, rfl⟩ := ho
  refine ⟨?_, ?_, ?_⟩
  · by_cases hj : j = 0
    · left; simp [mkEvent, hj]
    · right
      simp only [mkEvent, hj, if_false]
      exact ⟨Nat.mod_mod _ _, fun h => Nat.mod_lt _ h⟩
  · by_cases hj : j = 0
    · left; simp [mkEvent, hj]
    · right
      simp only [mkEvent, hj, if_false]
      exact fun h => Nat.mod_lt _ h
  · intro ht
    simp only [mkEvent, ht]
    exact delay_pos _

/-- every event scheduled by the ordinary-event branch: the tick (strictly later, same type, to `me`),
a fan-out event (not earlier, strictly smaller type), or the V2-only forward (same time, type and
payload, to the next LP) -/
theorem tick_out {P : Params} {me : Nat} {e o : Event} {k sz : Nat} {a : UInt64} {b : Bool}
    (ho : o ∈ (if e.type = P.nTypes - 1 then
      [mkEvent me (e.t + delaysQ.getD (1 + k) 1 * (1 + me % 3 * P.skew)) e.type sz a b] else [])) :
    e.type = P.nTypes - 1 ∧ o.dest = me ∧ e.t < o.t ∧ o.type = e.type := by
  split at ho
  · rename_i h
    simp only [List.mem_singleton] at ho
    subst ho
    refine ⟨h, rfl, ?_, rfl⟩
    simp only [mkEvent]
    have := Nat.mul_pos (delay_pos k) (show 0 < 1 + me % 3 * P.skew by omega)
    omega
  · simp at ho

theorem extras_out {P : Params} (hn : 0 < P.nLps) {me : Nat} {e o : Event} {a hh : UInt64} (h0 : e.type ≠ 0)
    (ho : o ∈ (List.range (P.maxFan - 1)).filterMap (fun j0 =>
      let j := j0 + 1
      if bit a (8 + 2 * j) then none else
      let hj := mix (hh + UInt64.ofNat j)
      let dest := match ((hj + (a >>> 30)) % 4).toNat with
        | 0 => me
        | 1 => (me + 1) % P.nLps
        | 2 => (a >>> 20).toNat % P.nLps
        | _ => (hj >>> 32).toNat % P.nLps
      let dq := delaysQ.getD ((((hj >>> 8) + (a >>> 34)) % 7).toNat) 0
      let ty' := (hj >>> 16).toNat % e.type
      some (mkEvent dest (e.t + dq) ty' (sizes.getD (((hj >>> 24) % 8).toNat) 0) a (bit hj 40)))) :
    (o.dest = me ∨ o.dest < P.nLps) ∧ e.t ≤ o.t ∧ o.type < e.type := by
  obtain ⟨j0, -, hj⟩ := List.mem_filterMap.mp ho
  dsimp only at hj
  by_cases hb : bit a (8 + 2 * (j0 + 1)) = true
  · rw [if_pos hb] at hj; simp at hj
  · rw [if_neg hb] at hj
    simp only [Option.some.injEq] at hj
    subst hj
    refine ⟨?_, ?_, ?_⟩
    · simp only [mkEvent]
      split
      · exact Or.inl rfl
      · exact Or.inr (Nat.mod_lt _ hn)
      · exact Or.inr (Nat.mod_lt _ hn)
      · exact Or.inr (Nat.mod_lt _ hn)
    · simp only [mkEvent]; omega
    · simp only [mkEvent]; exact Nat.mod_lt _ (by omega)

theorem onEvent_out {P : Params} (hn : 0 < P.nLps) {me : Nat} {s : GState} {e o : Event}
    (ho : o ∈ (onEvent P me s e).2) :
    (e.type = P.nTypes - 1 ∧ o.dest = me ∧ e.t < o.t ∧ o.type = e.type) ∨
    (e.type ≠ 0 ∧ (o.dest = me ∨ o.dest < P.nLps) ∧ e.t ≤ o.t ∧ o.type < e.type) ∨
    (P.fwdTok = true ∧ e.type ≠ 0 ∧ e.type ≠ P.nTypes - 1 ∧
      o = { dest := (me + 1) % P.nLps, t := e.t, type := e.type, payload := e.payload }) := by
  unfold onEvent at ho
  split at ho
  · simp at ho
  · dsimp only at ho
    split at ho
    · exact Or.inl (tick_out ho)
    · rename_i h0
      dsimp only at ho
      rcases List.mem_append.mp ho with ho | ho
      · rcases List.mem_append.mp ho with ho | ho
        · exact Or.inl (tick_out ho)
        · exact Or.inr (Or.inl ⟨h0, extras_out hn h0 ho⟩)
      · right; right
        split at ho
        · rename_i h
          simp only [List.mem_singleton] at ho
          exact ⟨h.1, h0, h.2.1, ho⟩
        · simp at ho

/-! ### The contracts -/

theorem handler_of_model {P : Params} {me : Nat} {s : GState} {c : Event} (h : c.type < LP_INIT) :
    handler P me s c = onEvent P me s c := by
  have h1 : c.type ≠ LP_INIT := Nat.ne_of_lt h
  have h2 : c.type ≠ LP_FINI := by simp only [LP_INIT] at h; simp only [LP_FINI]; omega
  simp [handler, h1, h2]

theorem handler_of_init {P : Params} {me : Nat} {s : GState} :
    handler P me s (initEv me) = onInit P me s := by
  simp [handler, initEv]

/-- **Strict contract, strict mode.** With `fwdTok = false`, every admissible invocation of the GenModel
handler — every existing LP, EVERY state (reachable or not), every model event and the LP's `LP_INIT` —
schedules only events strictly after their cause (later time stamp, or same time stamp and strictly
smaller type), for existing LPs, with model types. No condition on `maxFan`, thresholds, `skew`, ... -/
theorem genmodel_V2sOn (P : Params) (rng0 : Nat → Rng) (hL : 0 < P.nLps) (hT : 0 < P.nTypes)
    (hT' : P.nTypes ≤ LP_INIT) (hF : P.fwdTok = false) : V2sOn (simModel P rng0) := by
  intro ℓ s c hA o ho
  obtain ⟨hℓ, hc⟩ := hA
  change ℓ < P.nLps at hℓ
  change o ∈ (handler P ℓ s c).2 at ho
  change _ ∧ o.dest < P.nLps ∧ _
  rcases hc with hc | hc
  · rw [handler_of_model hc] at ho
    rcases onEvent_out hL ho with ⟨_, hd, ht, hty⟩ | ⟨_, hd, ht, hty⟩ | ⟨hf, _⟩
    · exact ⟨Event.before_of_t_lt ht, by omega, by omega⟩
    · exact ⟨before_of_le_type_gt ht hty, by omega, by omega⟩
    · rw [hF] at hf; exact Bool.noConfusion hf
  · subst hc
    rw [handler_of_init] at ho
    obtain ⟨hd, hty, _⟩ := onInit_out ho
    have hty' : o.type < LP_INIT := by
      rcases hty with h | h
      · omega
      · have := h hT; omega
    refine ⟨before_of_le_type_gt (Nat.zero_le _) hty', ?_, hty'⟩
    rcases hd with h | h
    · omega
    · exact h.2 hL

/-- **The runtime's contract, both modes.** Whatever `fwdTok`: no admissible invocation schedules an event
before its cause, every destination exists, every type is a model type. -/
theorem genmodel_V2On (P : Params) (rng0 : Nat → Rng) (hL : 0 < P.nLps) (hT : 0 < P.nTypes)
    (hT' : P.nTypes ≤ LP_INIT) : V2On (simModel P rng0) := by
  intro ℓ s c hA o ho
  obtain ⟨hℓ, hc⟩ := hA
  change ℓ < P.nLps at hℓ
  change o ∈ (handler P ℓ s c).2 at ho
  change _ ∧ o.dest < P.nLps ∧ _
  rcases hc with hc | hc
  · rw [handler_of_model hc] at ho
    rcases onEvent_out hL ho with ⟨_, hd, ht, hty⟩ | ⟨_, hd, ht, hty⟩ | ⟨_, _, _, ho⟩
    · exact ⟨Event.before_asymm (Event.before_of_t_lt ht), by omega, by omega⟩
    · exact ⟨Event.before_asymm (before_of_le_type_gt ht hty), by omega, by omega⟩
    · subst ho
      exact ⟨not_before_of_same rfl rfl rfl, Nat.mod_lt _ hL, hc⟩
  · subst hc
    rw [handler_of_init] at ho
    obtain ⟨hd, hty, _⟩ := onInit_out ho
    have hty' : o.type < LP_INIT := by
      rcases hty with h | h
      · omega
      · have := h hT; omega
    refine ⟨Event.before_asymm (before_of_le_type_gt (Nat.zero_le _) hty'), ?_, hty'⟩
    rcases hd with h | h
    · omega
    · exact h.2 hL

/-- the strict and the V2-only mode, as contracts of the clamped model -/
theorem genmodel_clamp_V2s (P : Params) (rng0 : Nat → Rng) (hL : 0 < P.nLps) (hT : 0 < P.nTypes)
    (hT' : P.nTypes ≤ LP_INIT) (hF : P.fwdTok = false) : V2s (clamp (simModel P rng0)) :=
  (V2sOn_iff_clamp _).mp (genmodel_V2sOn P rng0 hL hT hT' hF)

theorem genmodel_clamp_V2 (P : Params) (rng0 : Nat → Rng) (hL : 0 < P.nLps) (hT : 0 < P.nTypes)
    (hT' : P.nTypes ≤ LP_INIT) : V2 (clamp (simModel P rng0)) :=
  (V2On_iff_clamp _).mp (genmodel_V2On P rng0 hL hT hT')

/-! ### The V2-only mode leaves the strict contract, and the unrelativised contracts are false -/

/-- a typical check configuration: 4 LPs, 3 types, fan 3, threshold 40, spread 20 -/
def P0 : Params :=
  { seed := 12345, nLps := 4, nTypes := 3, maxFan := 3, thrBase := 40, thrSpread := 20,
    useRng := true, memOps := true, t0Events := false }

/-- the same in the V2-only mode -/
def P0fwd : Params := { P0 with fwdTok := true }

def rngZ : Nat → Rng := fun _ => ⟨1, 2, 3, 4⟩

/-- the state of LP 0 after its `LP_INIT` (a reachable state) -/
def s0 (P : Params) : GState := (handler P 0 ((simModel P rngZ).init 0) (initEv 0)).1

/-- a model event of type 1 at time 5 (in the V2-only mode it is forwarded unchanged to LP 1) -/
def cFwd : Event := { dest := 0, t := 5, type := 1, payload := [] }

set_option maxRecDepth 100000 in
/-- **The V2-only mode really leaves the strict contract**: LP 0, in its state after `LP_INIT`, processing the
admissible event `cFwd`, schedules an event that is NOT after its cause. -/
theorem genmodel_fwd_not_V2sOn : ¬ V2sOn (simModel P0fwd rngZ) := by
  intro V
  have h := V 0 (s0 P0fwd) cFwd (by decide) { dest := 1, t := 5, type := 1, payload := [] } (by decide)
  exact absurd h.1 (by decide)

theorem genmodel_fwd_not_V2s : ¬ V2s (simModel P0fwd rngZ) :=
  fun V => genmodel_fwd_not_V2sOn V.on

set_option maxRecDepth 100000 in
/-- (a) a non-existing LP index: `LP_INIT` schedules the first tick for `me` -/
theorem genmodel_not_validStep_lp : ¬ (simModel P0 rngZ).validStep 7 ((simModel P0 rngZ).init 7) (initEv 7) := by
  unfold SimModel.validStep; decide

set_option maxRecDepth 100000 in
/-- (b) an `LP_INIT` event with a positive time stamp: the first events are scheduled at absolute times -/
theorem genmodel_not_validStep_initTime : ¬ (simModel P0 rngZ).validStep 0 ((simModel P0 rngZ).init 0)
    { dest := 0, t := 100, type := LP_INIT, payload := [] } := by
  unfold SimModel.validStep; decide

set_option maxRecDepth 100000 in
/-- (c) an event type above `LP_FINI`: the fan-out types are below the cause's type, not below `LP_INIT` -/
theorem genmodel_not_validStep_type : ¬ (simModel P0 rngZ).validStep 0 (s0 P0)
    { dest := 0, t := 5, type := 65823, payload := [] } := by
  unfold SimModel.validStep; decide

/-- hence the UNRELATIVISED contracts are false for the GenModel family (already for the typical strict-mode
configuration): `Spec.V2`, a fortiori `Spec.V2s`, quantify over invocations the runtime never performs -/
theorem genmodel_not_V2 : ¬ V2 (simModel P0 rngZ) := fun V => genmodel_not_validStep_lp (V 7 _ _)

theorem genmodel_not_V2s : ¬ V2s (simModel P0 rngZ) :=
  fun V => genmodel_not_V2 (fun ℓ s c o ho => ⟨Event.before_asymm (V ℓ s c o ho).1, (V ℓ s c o ho).2⟩)

end RootSim.GenModel
