import RootSim.Proofs.GvtNodeInv
/-! Preservation of `Inv` by `send`, `deliver`, `flip` (steps that touch one thread and no node). -/
namespace RootSim.GvtNode

theorem countP_set_same {α} (p : α → Bool) (l : List α) (i : Nat) (a b : α) (h : l[i]? = some a)
    (hp : p b = p a) : List.countP p (l.set i b) = List.countP p l := by
  have := countP_set' p l i a b h; rw [hp] at this; omega

/-- the thread counters of every node are unchanged when a thread keeps its node and stage -/
theorem counts_set (s : St) (t : Nat) (th th' : Thr) (h : s.thr[t]? = some th)
    (hn : th'.node = th.node) (hs1 : th'.stage.reported = th.stage.reported)
    (hs2 : (th'.stage = .reduceWait ↔ th.stage = .reduceWait)) (s' : St) (hs' : s'.thr = s.thr.set t th') (k : Nat) :
    nThr s' k = nThr s k ∧ nReported s' k = nReported s k ∧ nRedWait s' k = nRedWait s k := by
  simp only [nThr, nReported, nRedWait, hs']
  refine ⟨countP_set_same _ _ _ _ _ h ?_, countP_set_same _ _ _ _ _ h ?_, countP_set_same _ _ _ _ _ h ?_⟩ <;>
    simp [hn, hs1, hs2]

/-- `allContrib`, `scatter`, `reportedTo` only look at the nodes -/
theorem nodes_same (s s' : St) (h : s'.nodes = s.nodes) (k : Nat) :
    allContrib s' = allContrib s ∧ scatter s' k = scatter s k ∧ reportedTo s' k = reportedTo s k := by
  simp [allContrib, scatter, reportedTo, h]

/-- threads other than `t` are untouched by `set t` -/
theorem thr_set_cases {α} (l : List α) (t t' : Nat) (a x : α) (h : (l.set t a)[t']? = some x) :
    (t' = t ∧ x = a) ∨ (t' ≠ t ∧ l[t']? = some x) := by
  rw [List.getElem?_set] at h
  split at h
  · split at h
    · left; simp_all
    · simp at h
  · right; exact ⟨by omega, h⟩

/-- generic preservation for a step that replaces thread `t` only (plus the in-flight list) -/
theorem inv_thread_step (old : Bool) (s s' : St) (t : Nat) (th th' : Thr) (hinv : Inv old s)
    (h : s.thr[t]? = some th) (hN : s'.N = s.N) (hnodes : s'.nodes = s.nodes)
    (hthr : s'.thr = s.thr.set t th') (hok : ThrOK old s.nodes.length th')
    (hn : th'.node = th.node) (hs1 : th'.stage.reported = th.stage.reported)
    (hs2 : (th'.stage = .reduceWait ↔ th.stage = .reduceWait))
    (hbal : ∀ k, (th'.unrep.get old).count k + (if th.node = k then th.recv.get old else 0) + flightTo old s k
              = (th.unrep.get old).count k + (if th.node = k then th'.recv.get old else 0) + flightTo old s' k) :
    Inv old s' := by
  constructor
  · intro t' x hx
    rw [hthr] at hx; rw [hnodes]
    rcases thr_set_cases _ _ _ _ _ hx with ⟨_, rfl⟩ | ⟨_, hx⟩
    · exact hok
    · exact hinv.thr t' x hx
  · intro k nd hk
    rw [hnodes] at hk
    have I := hinv.node k nd hk
    obtain ⟨c1, c2, c3⟩ := counts_set s t th th' h hn hs1 hs2 s' hthr k
    obtain ⟨d1, d2, d3⟩ := nodes_same s s' hnodes k
    have hu := sumBy_set (fun th => (th.unrep.get old).count k) s.thr t th th' h
    have hp := sumBy_set (fun th => if th.node = k then th.recv.get old else 0) s.thr t th th' h
    have hb := hbal k
    have bal := I.balance
    constructor
    · rw [c1, hN]; exact I.nthr
    · rw [c2]; exact I.cc_eq
    · rw [c3]; exact I.redwait
    · rw [hN]; exact I.recv_eq
    · rw [hN]; exact I.contrib_iff
    · rw [d1, d2]; exact I.sub
    · simp only [unreportedTo, unpolledAt, hthr, d3] at *
      simp only [hn] at hp
      omega

theorem inv_send (old : Bool) (s s' : St) (t d ts : Nat) (hinv : Inv old s) (hs : send s t d ts = some s') :
    Inv old s' := by
  unfold send at hs
  split at hs
  · simp at hs
  · rename_i th h
    split at hs
    · simp only [Option.some.injEq] at hs; subst hs
      have T := hinv.thr t th h
      refine inv_thread_step old s _ t th _ hinv h rfl rfl rfl ?_ rfl rfl Iff.rfl ?_
      · refine ⟨T.node_lt, T.col_pre, T.col_post, ?_⟩
        intro hr
        have hc : th.colour = !old := T.col_post (by intro h1; simp [h1, Stage.reported] at hr)
        simp only [hc, Two.get_set_not]; exact T.unrep_nil hr
      · intro k
        simp only [flightTo, List.countP_append, List.countP_cons, List.countP_nil]
        by_cases hc : th.colour = old
        · subst hc; by_cases hd : d = k <;> simp [hd]; omega
        · have : old ≠ th.colour := fun h => hc h.symm
          simp [Two.get_set_ne _ _ _ _ this, hc]
    · simp at hs

theorem countP_eraseIdx' {α} (p : α → Bool) (l : List α) (i : Nat) (a : α) (h : l[i]? = some a) :
    List.countP p (l.eraseIdx i) + (if p a then 1 else 0) = List.countP p l := by
  induction l generalizing i with
  | nil => simp at h
  | cons x l ih =>
    cases i with
    | zero => simp at h; subst h; simp [List.countP_cons]
    | succ i => simp at h; have := ih i h; simp [List.countP_cons]; omega

theorem inv_deliver (old : Bool) (s s' : St) (i t : Nat) (hinv : Inv old s) (hs : deliver s i t = some s') :
    Inv old s' := by
  unfold deliver at hs
  split at hs
  · rename_i m th hm h
    split at hs
    · rename_i hnode
      simp only [Option.some.injEq] at hs; subst hs
      have T := hinv.thr t th h
      refine inv_thread_step old s _ t th _ hinv h rfl rfl rfl ?_ rfl rfl Iff.rfl ?_
      · exact ⟨T.node_lt, T.col_pre, T.col_post, T.unrep_nil⟩
      · intro k
        have he := countP_eraseIdx' (fun m => m.colour = old && m.dest = k) s.flight i m hm
        simp only [flightTo]
        by_cases hc : m.colour = old
        · subst hc; by_cases hd : th.node = k <;> simp [hd, ← hnode] at he ⊢ <;> omega
        · have : old ≠ m.colour := fun h => hc h.symm
          simp [Two.get_set_ne _ _ _ _ this, hc] at he ⊢; omega
    · simp at hs
  · simp at hs

theorem inv_flip (old : Bool) (s s' : St) (t : Nat) (hinv : Inv old s) (hs : flip s t = some s') :
    Inv old s' := by
  unfold flip at hs
  split at hs
  · simp at hs
  · rename_i th h
    split at hs
    · rename_i hst
      simp only [Option.some.injEq] at hs; subst hs
      have T := hinv.thr t th h
      refine inv_thread_step old s _ t th _ hinv h rfl rfl rfl ?_ rfl ?_ ?_ ?_
      · refine ⟨T.node_lt, by simp, ?_, by simp [Stage.reported]⟩
        intro _; simp [T.col_pre hst]
      · simp [hst, Stage.reported]
      · simp [hst]
      · intro k; simp [flightTo]
    · simp at hs

end RootSim.GvtNode
