import RootSim.Proofs.TimeWarpD
import RootSim.Proofs.TimeWarpGProgress
/-! From the invariant of the Time Warp machine with the straggler rule of the code (`Proofs/TimeWarpD.lean`) to
the two hypotheses of prefix uniqueness under V2 (`Proofs/SpecV2.lean`), for the UNTAINTED prefixes of the
histories (`TWD.cleanOf`): `Spec.Hist` and `Spec.Progress`. Below a lower bound `g` of everything pending the
untainted prefix and the whole history have the same entries (`DInv.clean_filter`): a doomed entry has its
anti-message in `antis` (time stamp `≥ g`), and the histories are sorted by time stamp. -/
namespace RootSim.TWD
open RootSim RootSim.Spec RootSim.TW RootSim.TWG List

variable {σ : Type}

/-! ### the untainted prefix and the tainted rest -/

theorem dropWhile_head {α : Type} (p : α → Bool) : ∀ (l : List α) (x : α) (R : List α),
    l.dropWhile p = x :: R → p x = false
  | [], _, _, h => by simp at h
  | a :: l, x, R, h => by
    rw [List.dropWhile_cons] at h
    split at h
    · exact dropWhile_head p l x R h
    · rename_i hp
      cases h
      simpa using hp

theorem mem_takeWhile_true {α : Type} (p : α → Bool) : ∀ (l : List α) (x : α),
    x ∈ l.takeWhile p → p x = true
  | [], _, h => by simp at h
  | a :: l, x, h => by
    rw [List.takeWhile_cons] at h
    split at h
    · rename_i hp
      rcases List.mem_cons.mp h with rfl | h
      · exact hp
      · exact mem_takeWhile_true p l x h
    · simp at h

theorem past_split (s : TWGState) (ℓ : Nat) : s.past ℓ = cleanPast s ℓ ++ taintedPast s ℓ := by
  unfold cleanPast taintedPast
  cases s.past ℓ with
  | nil => rfl
  | cons h T => simp [List.takeWhile_append_dropWhile]

theorem cleanPast_tail (s : TWGState) (ℓ : Nat) :
    (cleanPast s ℓ).tail = (s.past ℓ).tail.takeWhile (fun u => !decide (u.msg ∈ s.antis)) := by
  unfold cleanPast
  cases s.past ℓ with
  | nil => rfl
  | cons h T => rfl

theorem cleanPast_head? (s : TWGState) (ℓ : Nat) : (cleanPast s ℓ).head? = (s.past ℓ).head? := by
  unfold cleanPast
  cases s.past ℓ with
  | nil => rfl
  | cons h T => rfl

theorem tail_split (s : TWGState) (ℓ : Nat) :
    (s.past ℓ).tail = (cleanPast s ℓ).tail ++ taintedPast s ℓ := by
  rw [cleanPast_tail]
  exact (List.takeWhile_append_dropWhile).symm

/-- nothing in the untainted prefix is doomed -/
theorem cleanPast_undoomed (s : TWGState) (ℓ : Nat) : ∀ u ∈ (cleanPast s ℓ).tail, u.msg ∉ s.antis := by
  intro u hu
  rw [cleanPast_tail] at hu
  have := mem_takeWhile_true _ _ u hu
  simpa using this

/-- the tainted rest starts with a doomed entry -/
theorem tainted_head (s : TWGState) (ℓ : Nat) {x : TEntry} {R : List TEntry}
    (h : taintedPast s ℓ = x :: R) : x.msg ∈ s.antis := by
  have := dropWhile_head _ _ x R h
  simpa using this

/-- without anti-messages nothing is tainted -/
theorem cleanPast_eq_past {s : TWGState} (ha : s.antis = []) (ℓ : Nat) : cleanPast s ℓ = s.past ℓ := by
  have : taintedPast s ℓ = [] := by
    cases h : taintedPast s ℓ with
    | nil => rfl
    | cons x R => have := tainted_head s ℓ h; rw [ha] at this; simp at this
  conv => rhs; rw [past_split s ℓ, this, List.append_nil]

theorem cleanOf_eq_histOf {s : TWGState} (ha : s.antis = []) : cleanOf s = histOf s := by
  funext ℓ
  unfold cleanOf histOf
  rw [cleanPast_eq_past ha]

theorem histOf_split (s : TWGState) (ℓ : Nat) : histOf s ℓ = cleanOf s ℓ ++ evs (taintedPast s ℓ) := by
  unfold histOf cleanOf
  rw [← evs_append, ← past_split]

section inv
variable {M : SimModel σ} {s : TWGState}

/-- I2 for tagged messages, as a permutation -/
theorem BInv.cntPerm (I : BInv M s) :
    (s.pending ++ restAllT M.nLps s.past).Perm (toutsAll M s.past ++ s.antis) := by
  rw [List.perm_iff_count]
  intro a
  rw [List.count_append, List.count_append]
  exact I.cnt a

/-- I2 for contents -/
theorem BInv.cntEv (I : BInv M s) (x : Event) :
    (s.pending.map TMsg.ev).count x + (restAll M.nLps (histOf s)).count x =
      (outsAll M (histOf s)).count x + (s.antis.map TMsg.ev).count x := by
  have hperm := (I.cntPerm.map TMsg.ev).count_eq x
  rw [List.map_append, List.map_append, restAllT_ev, toutsAll_ev, List.count_append,
    List.count_append] at hperm
  exact hperm

/-- **below a lower bound nothing is tainted**: every tainted entry has a time stamp `≥ g` -/
theorem DInv.tainted_ge (I : DInv M s) {g : Nat} (ha : ∀ x ∈ s.antis, g ≤ x.ev.t) (ℓ : Nat) :
    ∀ u ∈ taintedPast s ℓ, g ≤ u.ev.t := by
  intro u hu
  cases h : taintedPast s ℓ with
  | nil => rw [h] at hu; simp at hu
  | cons x R =>
    have hx := ha _ (tainted_head s ℓ h)
    rw [msg_ev] at hx
    have hs := I.s.tsorted ℓ
    rw [tail_split, h, evs_append, List.pairwise_append, evs_cons, List.pairwise_cons] at hs
    rw [h] at hu
    rcases List.mem_cons.mp hu with rfl | hu
    · exact hx
    · have := hs.2.1.1 u.ev (mem_evs.mpr ⟨u, hu, rfl⟩)
      omega

/-- below `g` the untainted prefix IS the history -/
theorem DInv.clean_filter (I : DInv M s) {g : Nat} (ha : ∀ x ∈ s.antis, g ≤ x.ev.t) (ℓ : Nat) :
    (cleanOf s ℓ).filter (below g) = (histOf s ℓ).filter (below g) := by
  rw [histOf_split, List.filter_append]
  have : (evs (taintedPast s ℓ)).filter (below g) = [] := by
    rw [List.filter_eq_nil_iff]
    intro a ha'
    obtain ⟨u, hu, rfl⟩ := mem_evs.mp ha'
    have := I.tainted_ge ha ℓ u hu
    simp only [below, decide_eq_true_eq]; omega
  rw [this, List.append_nil]

/-- the whole history is sorted by time stamp (the `LP_INIT` event has time 0) -/
theorem DInv.hist_tsorted (I : DInv M s) {ℓ : Nat} (hℓ : ℓ < M.nLps) :
    (histOf s ℓ).Pairwise (fun a b => a.t ≤ b.t) := by
  have hh := I.b.head ℓ hℓ
  obtain ⟨T, hT⟩ := List.head?_eq_some_iff.mp hh
  have hs := I.s.tsorted ℓ
  unfold histOf
  rw [hT] at hs ⊢
  rw [evs_cons, List.pairwise_cons]
  exact ⟨fun b _ => by simp [initEntry, initEv], hs⟩

/-- with a lower bound `g` of everything pending, the UNTAINTED prefixes of the histories satisfy H1–H3 at `g` -/
theorem DInv.hist (V : V2 M) (I : DInv M s) {g : Nat}
    (hp : ∀ x ∈ s.pending, g ≤ x.ev.t) (ha : ∀ x ∈ s.antis, g ≤ x.ev.t) : Hist M (cleanOf s) g := by
  have hdest : ∀ ℓ, ℓ < M.nLps → ∀ e ∈ (cleanOf s ℓ).tail, e.dest = ℓ ∧ e.type < LP_INIT := by
    intro ℓ hℓ e he
    change e ∈ (evs (cleanPast s ℓ)).tail at he
    rw [← evs_tail] at he
    obtain ⟨u, hu, rfl⟩ := mem_evs.mp he
    exact I.b.dest ℓ hℓ u (by rw [tail_split]; exact List.mem_append_left _ hu)
  refine ⟨?_, hdest, ?_, ?_⟩
  · intro ℓ hℓ
    show (evs (cleanPast s ℓ)).head? = _
    unfold evs
    rw [List.head?_map, cleanPast_head?, I.b.head ℓ hℓ]; rfl
  · intro ℓ hℓ
    show (evs (cleanPast s ℓ)).tail.Pairwise _
    rw [← evs_tail]
    have hpre : (cleanPast s ℓ).tail = (s.past ℓ).tail.take (cleanPast s ℓ).tail.length := by
      conv => rhs; rw [tail_split]
      exact (List.take_left' rfl).symm
    rw [hpre]
    apply I.s.csorted ℓ
    rw [← hpre]
    exact cleanPast_undoomed s ℓ
  · intro ℓ hℓ e he
    by_cases hd : e.dest = ℓ
    · subst hd
      rw [List.count_filter (by simp)]
      have hc := I.b.cntEv e
      have h1 : (s.pending.map TMsg.ev).count e = 0 :=
        List.count_eq_zero.mpr (fun hx => by
          obtain ⟨m, hm, hme⟩ := List.mem_map.mp hx
          have := hp m hm; rw [hme] at this; omega)
      have h2 : (s.antis.map TMsg.ev).count e = 0 :=
        List.count_eq_zero.mpr (fun hx => by
          obtain ⟨m, hm, hme⟩ := List.mem_map.mp hx
          have := ha m hm; rw [hme] at this; omega)
      -- the processed copies are those of the untainted prefix of LP `e.dest`
      have h3 : (restAll M.nLps (histOf s)).count e = (cleanOf s e.dest).tail.count e := by
        have hA : (restAll M.nLps (histOf s)).count e = (histOf s e.dest).tail.count e := by
          apply count_flatMap_single (f := fun ℓ => (histOf s ℓ).tail) _ List.nodup_range
            (List.mem_range.mpr hℓ)
          intro ℓ' hℓ' hne hx
          change e ∈ (evs (s.past ℓ')).tail at hx
          rw [← evs_tail] at hx
          obtain ⟨u, hu, rfl⟩ := mem_evs.mp hx
          exact hne (I.b.dest ℓ' (List.mem_range.mp hℓ') u hu).1.symm
        rw [hA]
        show (evs (s.past e.dest)).tail.count e = (evs (cleanPast s e.dest)).tail.count e
        rw [← evs_tail, ← evs_tail, tail_split, evs_append, List.count_append]
        have : (evs (taintedPast s e.dest)).count e = 0 :=
          List.count_eq_zero.mpr (fun hm => by
            obtain ⟨u, hu, hue⟩ := mem_evs.mp hm
            have := I.tainted_ge ha e.dest u hu
            rw [hue] at this; omega)
        omega
      -- the sent copies are those sent by the untainted prefixes
      have h4 : (outsAll M (histOf s)).count e = (outsAll M (cleanOf s)).count e := by
        unfold outsAll
        apply add_flatMap_congr (additive_count e)
        intro ℓ' _
        rw [histOf_split, outs_append, List.count_append]
        have : (outsFrom M ℓ' (lpState M ℓ' (cleanOf s ℓ')) (evs (taintedPast s ℓ'))).count e = 0 :=
          List.count_eq_zero.mpr (fun hm => by
            obtain ⟨P0, c, S0, hl, hy⟩ := mem_outsFrom M ℓ' _ _ hm
            have hc' : c ∈ evs (taintedPast s ℓ') := by rw [hl]; simp
            obtain ⟨u, hu, rfl⟩ := mem_evs.mp hc'
            have h1 := I.tainted_ge ha ℓ' u hu
            have h2 := V.timeMono ℓ' _ u.ev e hy
            omega)
        omega
      omega
    · have h1 : (cleanOf s ℓ).tail.count e = 0 :=
        List.count_eq_zero.mpr (fun hm => hd (hdest ℓ hℓ e hm).1)
      have h2 : ((outsAll M (cleanOf s)).filter (fun o => decide (o.dest = ℓ))).count e = 0 :=
        List.count_eq_zero.mpr (fun hm => by
          have := (List.mem_filter.mp hm).2
          exact hd (by simpa using this))
      rw [h1, h2]

/-- **The machine's contribution under V2** (cf. `TWG.GInv.progress`), for the untainted prefixes: whenever a
sequential run has followed them so far and some event of them below `g` is not dispatched yet, a minimal such
event is pending in the sequential run. The counting argument of `TWG.GInv.progress` runs over the WHOLE
histories (tainted entries included): a tainted entry has a time stamp `≥ g`, so by V2 it neither is nor sends
a copy of an event below `g`. -/
theorem DInv.progress (V : V2 M) (I : DInv M s) {g : Nat}
    (hp : ∀ x ∈ s.pending, g ≤ x.ev.t) (ha : ∀ x ∈ s.antis, g ≤ x.ev.t) :
    Progress M (cleanOf s) g := by
  intro q P hne
  have H : Hist M (cleanOf s) g := I.hist V hp ha
  have hlen : ∀ ℓ, ℓ < M.nLps → (q.disp ℓ).length ≤ (cleanPast s ℓ).length := by
    intro ℓ hℓ
    have := (P.pre ℓ hℓ).length_le
    simpa [cleanOf, evs] using this
  have hrem : ∀ ℓ, remOf (cleanOf s) q ℓ = evs ((cleanPast s ℓ).drop (q.disp ℓ).length) := by
    intro ℓ; simp [remOf, cleanOf, evs, List.map_drop]
  -- every LP's entries split into the part the sequential run has dispatched and the remainder
  have htake : ∀ ℓ, ℓ < M.nLps →
      (s.past ℓ).take (q.disp ℓ).length = (cleanPast s ℓ).take (q.disp ℓ).length := by
    intro ℓ hℓ
    conv => lhs; rw [past_split s ℓ]
    exact List.take_append_of_le_length (hlen ℓ hℓ)
  have hdrop : ∀ ℓ, ℓ < M.nLps → (s.past ℓ).drop (q.disp ℓ).length =
      (cleanPast s ℓ).drop (q.disp ℓ).length ++ taintedPast s ℓ := by
    intro ℓ hℓ
    conv => lhs; rw [past_split s ℓ]
    exact List.drop_append_of_le_length (hlen ℓ hℓ)
  have hD : ∀ ℓ, ℓ < M.nLps → evs ((s.past ℓ).take (q.disp ℓ).length) = q.disp ℓ := by
    intro ℓ hℓ
    rw [htake ℓ hℓ]
    have := List.prefix_iff_eq_take.mp (P.pre ℓ hℓ)
    rw [this]
    simp [cleanOf, evs, List.map_take]
  -- a not-yet-dispatched entry below `g` is untainted
  have hcl : ∀ ℓ, ℓ < M.nLps → ∀ w ∈ (s.past ℓ).drop (q.disp ℓ).length, w.ev.t < g →
      w ∈ (cleanPast s ℓ).drop (q.disp ℓ).length := by
    intro ℓ hℓ w hw hwt
    rw [hdrop ℓ hℓ] at hw
    rcases List.mem_append.mp hw with h | h
    · exact h
    · have := I.tainted_ge ha ℓ w h; omega
  -- the candidates: steps at which a minimal not-yet-dispatched entry below `g` was processed
  have hC : ∃ τ, ∃ ℓ, ℓ < M.nLps ∧ ∃ u ∈ (cleanPast s ℓ).drop (q.disp ℓ).length, u.ev.t < g ∧
      (∀ z ∈ remAll M (cleanOf s) g q, Event.before z u.ev = false) ∧ u.pr = τ := by
    obtain ⟨y, hyR, hymin⟩ := Event.exists_minimal _ hne
    obtain ⟨ℓ, hℓ, hyr, hyt⟩ := mem_remAll.mp hyR
    rw [hrem] at hyr
    obtain ⟨u, hu, rfl⟩ := mem_evs.mp hyr
    exact ⟨u.pr, ℓ, hℓ, u, hu, hyt, hymin, rfl⟩
  obtain ⟨τ, ⟨ℓ, hℓ, u, hu, hut, humin, hupr⟩, hτmin⟩ := exists_min_nat hC
  have hyr : u.ev ∈ remOf (cleanOf s) q ℓ := by rw [hrem]; exact mem_evs.mpr ⟨u, hu, rfl⟩
  have hyR : u.ev ∈ remAll M (cleanOf s) g q := mem_remAll.mpr ⟨ℓ, hℓ, hyr, hut⟩
  refine ⟨u.ev, hyR, humin, ?_⟩
  have hdest : u.ev.dest = ℓ := P.rem_dest H hℓ hyr
  have huF : u ∈ (s.past ℓ).drop (q.disp ℓ).length := by
    rw [hdrop ℓ hℓ]; exact List.mem_append_left _ hu
  -- the tagged messages with the content of `u` created before step `τ`
  let φ : TMsg → Bool := fun m => decide (m.ev = u.ev) && decide (m.cr < τ)
  have hφ : ∀ m, φ m = true ↔ m.ev = u.ev ∧ m.cr < τ := by
    intro m; simp [φ]
  have hcp := I.b.cntPerm.countP_eq φ
  rw [List.countP_append, List.countP_append] at hcp
  have hpend0 : s.pending.countP φ = 0 := by
    rw [List.countP_eq_zero]
    intro m hm hm'
    have := hp m hm
    rw [((hφ m).mp hm').1] at this
    omega
  have hanti0 : s.antis.countP φ = 0 := by
    rw [List.countP_eq_zero]
    intro m hm hm'
    have := ha m hm
    rw [((hφ m).mp hm').1] at this
    omega
  -- (1) processed: at least the dispatched copies and `u` itself
  have hlow : (q.disp ℓ).tail.count u.ev + 1 ≤ (restAllT M.nLps s.past).countP φ := by
    have h1 : ((s.past ℓ).tail.map TEntry.msg).countP φ ≤ (restAllT M.nLps s.past).countP φ :=
      addM_single_le (addM_countP φ) (f := fun ℓ' => (s.past ℓ').tail.map TEntry.msg)
        (List.range M.nLps) (List.mem_range.mpr hℓ)
    have hsplit : s.past ℓ = (s.past ℓ).take (q.disp ℓ).length ++ (s.past ℓ).drop (q.disp ℓ).length :=
      (List.take_append_drop _ _).symm
    have hDne : (s.past ℓ).take (q.disp ℓ).length ≠ [] := by
      intro h0
      have := hD ℓ hℓ
      rw [h0] at this
      exact P.ne ℓ hℓ this.symm
    have htail : (s.past ℓ).tail = ((s.past ℓ).take (q.disp ℓ).length).tail ++
        (s.past ℓ).drop (q.disp ℓ).length := by
      conv => lhs; rw [hsplit]
      exact List.tail_append_of_ne_nil hDne
    have hinc := I.b.prInc ℓ
    rw [hsplit, List.pairwise_append] at hinc
    have hutail : u ∈ (s.past ℓ).tail := by rw [htail]; exact List.mem_append_right _ huF
    have hR : 1 ≤ (((s.past ℓ).drop (q.disp ℓ).length).map TEntry.msg).countP φ := by
      apply List.countP_pos_iff.mpr
      refine ⟨u.msg, List.mem_map.mpr ⟨u, huF, rfl⟩, ?_⟩
      rw [hφ]
      refine ⟨rfl, ?_⟩
      have := I.b.crLt ℓ u hutail
      rw [msg_cr]; omega
    have hDc : (q.disp ℓ).tail.count u.ev ≤
        ((((s.past ℓ).take (q.disp ℓ).length).tail).map TEntry.msg).countP φ := by
      have hDt : evs ((s.past ℓ).take (q.disp ℓ).length).tail = (q.disp ℓ).tail := by
        rw [evs_tail, hD ℓ hℓ]
      rw [← hDt]
      unfold evs
      rw [List.count_eq_countP, List.countP_map, List.countP_map]
      apply List.countP_mono_left
      intro w hw hwy
      have hwy' : w.ev = u.ev := by simpa using hwy
      have hwD : w ∈ (s.past ℓ).take (q.disp ℓ).length := List.mem_of_mem_tail hw
      have hwt : w ∈ (s.past ℓ).tail := by rw [htail]; exact List.mem_append_left _ hw
      have h2 := I.b.crLt ℓ w hwt
      have h3 := hinc.2.2 w hwD u huF
      show φ w.msg = true
      rw [hφ]
      exact ⟨hwy', by rw [msg_cr]; omega⟩
    rw [htail, List.map_append, List.countP_append] at h1
    omega
  -- (2) sent: only by invocations the sequential run has performed too
  have hup : (toutsAll M s.past).countP φ ≤ (outsAll M q.disp).count u.ev := by
    unfold toutsAll outsAll
    apply addM_flatMap_le (addM_countP φ) (addM_count u.ev)
      (f₁ := fun ℓ' => touts M ℓ' (s.past ℓ')) (f₂ := fun ℓ' => outs M ℓ' (q.disp ℓ'))
    intro ℓ' hℓ'
    have hℓ' := List.mem_range.mp hℓ'
    show (touts M ℓ' (s.past ℓ')).countP φ ≤ _
    have hsplit : s.past ℓ' = (s.past ℓ').take (q.disp ℓ').length ++
        (s.past ℓ').drop (q.disp ℓ').length := (List.take_append_drop _ _).symm
    rw [hsplit, touts_append, List.countP_append, hD ℓ' hℓ']
    have h1 : (touts M ℓ' ((s.past ℓ').take (q.disp ℓ').length)).countP φ ≤
        (outs M ℓ' (q.disp ℓ')).count u.ev := by
      have hO : outs M ℓ' (q.disp ℓ') =
          (touts M ℓ' ((s.past ℓ').take (q.disp ℓ').length)).map TMsg.ev := by
        rw [touts_ev, hD ℓ' hℓ']
      rw [hO, List.count_eq_countP, List.countP_map]
      apply List.countP_mono_left
      intro m _ hm
      simpa using ((hφ m).mp hm).1
    have h2 : (toutsFrom M ℓ' (lpState M ℓ' (q.disp ℓ'))
        ((s.past ℓ').drop (q.disp ℓ').length)).countP φ = 0 := by
      rw [List.countP_eq_zero]
      intro m hm hm'
      obtain ⟨hmy, hmτ⟩ := (hφ m).mp hm'
      obtain ⟨P0, w, S0, hl, hcr, hout⟩ := mem_toutsFrom M ℓ' _ _ hm
      rw [hmy] at hout
      have hV := (V ℓ' _ w.ev u.ev hout).1
      have hwt : w.ev.t < g := by have := Event.t_le_of_not_before hV; omega
      have hwmin : ∀ z ∈ remAll M (cleanOf s) g q, Event.before z w.ev = false := by
        intro z hz
        cases hzw : Event.before z w.ev with
        | false => rfl
        | true =>
          rcases Event.before_cases u.ev hzw with h | h
          · rw [humin z hz] at h; exact Bool.noConfusion h
          · rw [hV] at h; exact Bool.noConfusion h
      have hwc := hcl ℓ' hℓ' w (by rw [hl]; simp) hwt
      have := hτmin w.pr ⟨ℓ', hℓ', w, hwc, hwt, hwmin, rfl⟩
      omega
    omega
  -- (3) the sequential run's own counting
  have hcq := P.cnt u.ev
  have hrq := P.count_rest H (x := u.ev) (by rw [hdest]; exact hℓ)
  rw [hdest] at hrq
  exact List.count_pos_iff.mp (by omega)

/-- `Progress` also holds literally for the WHOLE histories: a sequential run that has followed them and has only dispatched events
below `g` has followed the untainted prefixes, and the not-yet-dispatched entries below `g` are the same -/
theorem DInv.progress_full (V : V2 M) (I : DInv M s) {g : Nat}
    (hp : ∀ x ∈ s.pending, g ≤ x.ev.t) (ha : ∀ x ∈ s.antis, g ≤ x.ev.t) :
    Progress M (histOf s) g := by
  intro q P hne
  have W := I.progress V hp ha
  have hTg : ∀ ℓ, ∀ x ∈ evs (taintedPast s ℓ), g ≤ x.t := by
    intro ℓ x hx
    obtain ⟨u, hu, rfl⟩ := mem_evs.mp hx
    exact I.tainted_ge ha ℓ u hu
  have hpre : ∀ ℓ, ℓ < M.nLps → q.disp ℓ <+: cleanOf s ℓ := by
    intro ℓ hℓ
    have h1 : q.disp ℓ <+: histOf s ℓ := P.pre ℓ hℓ
    have h2 : cleanOf s ℓ <+: histOf s ℓ := by rw [histOf_split]; exact List.prefix_append _ _
    rcases List.prefix_or_prefix_of_prefix h1 h2 with h | h
    · exact h
    · obtain ⟨r, hr⟩ := h
      rw [← hr, histOf_split, List.prefix_append_right_inj] at h1
      cases r with
      | nil => rw [← hr, List.append_nil]; exact List.prefix_refl _
      | cons x r' =>
        exfalso
        have hxT : x ∈ evs (taintedPast s ℓ) := h1.subset (by simp)
        have hne' : cleanOf s ℓ ≠ [] := by
          intro h0
          have hh : (cleanOf s ℓ).head? = some (initEv ℓ) := by
            show (evs (cleanPast s ℓ)).head? = _
            unfold evs
            rw [List.head?_map, cleanPast_head?, I.b.head ℓ hℓ]; rfl
          rw [h0] at hh; simp at hh
        have hxt : x ∈ (q.disp ℓ).tail := by
          rw [← hr, List.tail_append_of_ne_nil hne']
          exact List.mem_append_right _ (by simp)
        have := P.low ℓ hℓ x hxt
        have := hTg ℓ x hxT
        omega
  have P' : Phase1 M (cleanOf s) g q := ⟨hpre, P.ne, P.low, P.st, P.cnt⟩
  have hrem : remAll M (histOf s) g q = remAll M (cleanOf s) g q := by
    unfold remAll
    apply flatMap_congr_mem
    intro ℓ hℓ
    have hℓ := List.mem_range.mp hℓ
    show ((histOf s ℓ).drop (q.disp ℓ).length).filter (below g) =
      ((cleanOf s ℓ).drop (q.disp ℓ).length).filter (below g)
    rw [histOf_split, List.drop_append_of_le_length (hpre ℓ hℓ).length_le, List.filter_append]
    have : (evs (taintedPast s ℓ)).filter (below g) = [] := by
      rw [List.filter_eq_nil_iff]
      intro a ha'
      have := hTg ℓ a ha'
      simp only [below, decide_eq_true_eq]; omega
    rw [this, List.append_nil]
  rw [hrem] at hne ⊢
  exact W q P' hne

end inv

/-! ### the executable step functions perform exactly the steps of the relation -/

theorem stopOk?_iff (s : TWGState) (e : Event) (V : List TEntry) : stopOk? s e V = true ↔ StopOk s e V := by
  unfold stopOk? StopOk Doomed
  cases h : V.getLast? with
  | none => simp
  | some x => simp

theorem exec?_sound {M : SimModel σ} {s s' : TWGState} {ℓ : Nat} {m : TMsg} {k : Nat}
    (h : exec? M s ℓ m k = some s') : Step M s s' := by
  unfold exec? at h
  split at h
  · rename_i hc
    split at h
    · cases h
    · rename_i hd T hpast
      split at h
      · rename_i hs
        cases h
        exact Step.exec s ℓ m hd T _ _ hc.1 hc.2.1 hc.2.2.1 hc.2.2.2 hpast
          (List.take_append_drop k _).symm ((stopOk?_iff _ _ _).mp hs)
      · cases h
  · cases h

theorem step?_sound {M : SimModel σ} {s s' : TWGState} {a : Action} (h : step? M s a = some s') :
    Step M s s' := by
  cases a with
  | exec ℓ e c k => exact exec?_sound h
  | annihilate e c => exact twg_step_is_twd_step (TWG.annihilate?_sound h)
  | antiRollback ℓ i => exact twg_step_is_twd_step (TWG.antiRollback?_sound h)

theorem step?_complete {M : SimModel σ} {s s' : TWGState} (h : Step M s s') :
    ∃ a, step? M s a = some s' := by
  cases h with
  | exec ℓ m hd T V W hmem hdest hℓ htype hpast hsplit hstop =>
    refine ⟨.exec ℓ m.ev m.cr V.length, ?_⟩
    have h1 : (undoG m.ev T).take V.length = V := by rw [hsplit]; exact List.take_left' rfl
    have h2 : (undoG m.ev T).drop V.length = W := by rw [hsplit]; exact List.drop_left' rfl
    have h3 : stopOk? s m.ev V = true := (stopOk?_iff _ _ _).mpr hstop
    simp only [step?, exec?, hmem, hdest, hℓ, htype, and_self, if_true, hpast, h1, h2, h3]
  | annihilate o hp ha =>
    refine ⟨.annihilate o.ev o.cr, ?_⟩
    simp only [step?, TWG.annihilate?, hp, ha, and_self, if_true]
  | antiRollback ℓ o K U ha hpast hK =>
    refine ⟨.antiRollback ℓ K.length, ?_⟩
    have hpos : 0 < K.length := List.length_pos_iff.mpr hK
    have hget : (s.past ℓ)[K.length]? = some o := by rw [hpast]; simp
    have htake : (s.past ℓ).take K.length = K := by rw [hpast]; simp
    have hdrop : (s.past ℓ).drop (K.length + 1) = U := by rw [hpast]; simp
    simp only [step?, TWG.antiRollback?, hget, hpos, ha, and_self, if_true, htake, hdrop]

theorem run?_reachable {M : SimModel σ} : ∀ (as : List Action) {s s' : TWGState},
    Reachable M s → run? M s as = some s' → Reachable M s'
  | [], s, s', hr, h => by simp only [run?, Option.some.injEq] at h; rw [← h]; exact hr
  | a :: as, s, s', hr, h => by
    unfold run? at h
    split at h
    · cases h
    · rename_i s1 hs1
      exact run?_reachable as (Reachable.step hr (step?_sound hs1)) h

/-- a TWG trace replays on this machine, action by action, with no extra entry kept -/
theorem step?_ofTWG {M : SimModel σ} (s : TWGState) (a : TWG.Action) :
    step? M s (ofTWG a) = TWG.step? M s a := by
  cases a with
  | exec ℓ e c =>
    simp only [ofTWG, step?, TWG.step?, exec?, TWG.exec?]
    split
    · cases hp : s.past ℓ with
      | nil => rfl
      | cons h T =>
        simp only [List.take_zero, List.drop_zero, List.append_nil]
        have : stopOk? s e [] = true := rfl
        simp only [this, if_true]
        rfl
    · rfl
  | annihilate e c => rfl
  | antiRollback ℓ i => rfl

/-! ### quiescent states -/

/-- a state with nothing pending and no anti-message IS a final state of a sequential run -/
theorem DInv.quiescent_sequential {M : SimModel σ} (V : V2 M) {s : TWGState} (I : DInv M s)
    (hp : s.pending = []) (ha : s.antis = []) :
    ∃ q, Spec.Reachable M q ∧ q.pending = [] ∧ ∀ ℓ, ℓ < M.nLps → q.disp ℓ = histOf s ℓ := by
  obtain ⟨g, hg⟩ := exists_time_bound ((List.range M.nLps).flatMap (histOf s))
  have hg' : ∀ ℓ, ℓ < M.nLps → ∀ x ∈ histOf s ℓ, x.t < g := fun ℓ hℓ x hx =>
    hg x (List.mem_flatMap.mpr ⟨ℓ, List.mem_range.mpr hℓ, hx⟩)
  have H : Hist M (cleanOf s) g := I.hist V (by rw [hp]; simp) (by rw [ha]; simp)
  have W : Progress M (cleanOf s) g := I.progress V (by rw [hp]; simp) (by rw [ha]; simp)
  rw [cleanOf_eq_histOf ha] at H W
  obtain ⟨q, hq, P, hl⟩ := exists_run_to2 H V W
  have P2 := P.toPhase2' H W hl
  have hdisp : ∀ ℓ, ℓ < M.nLps → q.disp ℓ = histOf s ℓ := by
    intro ℓ hℓ
    have h1 := P2.filter_eq H hℓ
    have hpre := P.pre ℓ hℓ
    rw [filter_below_self (hg' ℓ hℓ),
      filter_below_self (fun x hx => hg' ℓ hℓ x (hpre.subset hx))] at h1
    exact h1
  refine ⟨q, hq, ?_, hdisp⟩
  rw [List.eq_nil_iff_forall_not_mem]
  intro x hx
  have hc := P.cnt x
  have hi := I.b.cntEv x
  have hr : (restAll M.nLps q.disp).count x = (restAll M.nLps (histOf s)).count x := by
    unfold restAll
    apply add_flatMap_congr (additive_count x)
    intro ℓ hℓ; rw [hdisp ℓ (List.mem_range.mp hℓ)]
  have ho : (outsAll M q.disp).count x = (outsAll M (histOf s)).count x := by
    unfold outsAll
    apply add_flatMap_congr (additive_count x)
    intro ℓ hℓ; rw [hdisp ℓ (List.mem_range.mp hℓ)]
  simp only [hp, ha, List.map_nil, List.count_nil] at hi
  have : 0 < q.pending.count x := List.count_pos_iff.mpr hx
  omega

end RootSim.TWD
