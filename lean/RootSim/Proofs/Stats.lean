import RootSim.Model.Stats
/-! Helper lemmas for C20: the codec pieces round-trip, the accounting machine refines `tally`. -/
namespace RootSim.Stats

/-! ### integers -/

theorem leBytes_length (w v : Nat) : (leBytes w v).length = w := by
  induction w generalizing v with
  | zero => rfl
  | succ w ih => simp [leBytes, ih]

theorem leVal_leBytes (w v : Nat) : leVal (leBytes w v) = v % 256^w := by
  induction w generalizing v with
  | zero => simp [leBytes, leVal, Nat.mod_one]
  | succ w ih =>
    simp only [leBytes, leVal, ih]
    rw [Nat.pow_succ, Nat.mul_comm (256^w) 256, Nat.mod_mul]

theorem encInt_length (be : Bool) (w v : Nat) : (encInt be w v).length = w := by
  unfold encInt; split <;> simp [leBytes_length]

theorem decInt_enc (be : Bool) (w v : Nat) (rest : Bytes) (h : v < 256^w) :
    decInt be w (encInt be w v ++ rest) = .ok (v, rest) := by
  have hl := encInt_length be w v
  unfold decInt
  have ht : (encInt be w v ++ rest).take w = encInt be w v := by
    exact List.take_left' hl
  have hd : (encInt be w v ++ rest).drop w = rest := by
    exact List.drop_left' hl
  rw [ht, hd]
  have h1 : ¬ (encInt be w v).length < w := by omega
  rw [if_neg h1]
  cases be <;> simp [encInt, leVal_leBytes, Nat.mod_eq_of_lt h]

theorem decCount_enc (be : Bool) (v : Nat) (rest : Bytes) (h : v < 2^63) :
    decCount be (encInt be 8 v ++ rest) = .ok (v, rest) := by
  unfold decCount
  rw [decInt_enc be 8 v rest (by omega)]
  simp [h]

/-! ### lists of items -/

theorem decList_enc {α : Type} (d : Dec α) (e : α → Bytes) (xs : List α) (rest : Bytes)
    (h : ∀ x ∈ xs, ∀ r, d (e x ++ r) = .ok (x, r)) :
    decList d xs.length (xs.flatMap e ++ rest) = .ok (xs, rest) := by
  induction xs with
  | nil => simp [decList]
  | cons x xs ih =>
    simp only [List.length_cons, List.flatMap_cons, List.append_assoc, decList]
    rw [h x (by simp)]
    simp only
    rw [ih (fun y hy => h y (by simp [hy]))]

theorem flatMap_length_const {α : Type} (e : α → Bytes) (xs : List α) (k : Nat)
    (h : ∀ x ∈ xs, (e x).length = k) : (xs.flatMap e).length = xs.length * k := by
  induction xs with
  | nil => simp
  | cons x xs ih =>
    simp only [List.flatMap_cons, List.length_append, List.length_cons]
    rw [h x (by simp), ih (fun y hy => h y (by simp [hy])), Nat.succ_mul]; omega

theorem decName_enc (n : Bytes) (rest : Bytes) (h : n.length ≤ 255) :
    decName (encName n ++ rest) = .ok (n, rest) := by
  have hm : min n.length 255 = n.length := by omega
  simp only [encName, hm, List.take_length, List.cons_append, decName]
  have ht : (n ++ rest).take n.length = n := List.take_left' rfl
  have hd : (n ++ rest).drop n.length = rest := List.drop_left' rfl
  rw [ht, hd]
  simp

theorem encName_length (n : Bytes) (h : n.length ≤ 255) : (encName n).length = 1 + n.length := by
  have hm : min n.length 255 = n.length := by omega
  simp [encName, hm]; omega

theorem decNodeRec_enc (be : Bool) (x : NodeRec) (rest : Bytes) (h : x.gvt < 2^64 ∧ x.rss < 2^64) :
    decNodeRec be (encNodeRec be x ++ rest) = .ok (x, rest) := by
  unfold decNodeRec encNodeRec
  rw [List.append_assoc, decInt_enc be 8 _ _ (by omega)]
  simp only
  rw [decInt_enc be 8 _ _ (by omega)]

theorem encNodeRec_length (be : Bool) (x : NodeRec) : (encNodeRec be x).length = nodeRecSize := by
  simp [encNodeRec, encInt_length, nodeRecSize]

theorem encRec_length (be : Bool) (vals : List Nat) : (encRec be vals).length = vals.length * 8 :=
  flatMap_length_const _ _ 8 (fun _ _ => encInt_length be 8 _)

theorem decRec_enc (be : Bool) (vals : List Nat) (rest : Bytes) (h : ∀ v ∈ vals, v < 2^64) :
    decList (decInt be 8) vals.length (encRec be vals ++ rest) = .ok (vals, rest) :=
  decList_enc (decInt be 8) (encInt be 8) vals rest
    (fun v hv r => decInt_enc be 8 v r (by have := h v hv; omega))

theorem decThread_enc (be : Bool) (sCnt : Nat) (hs : 0 < sCnt) (th : List (List Nat)) (rest : Bytes)
    (h : th.length * (8 * sCnt) < 2^63 ∧ ∀ rc ∈ th, rc.length = sCnt ∧ ∀ v ∈ rc, v < 2^64) :
    decThread be sCnt (encThread be th ++ rest) = .ok (th, rest) := by
  obtain ⟨hsz, hrc⟩ := h
  have hlen : (th.flatMap (encRec be)).length = th.length * (8 * sCnt) := by
    apply flatMap_length_const
    intro rc hr
    rw [encRec_length, (hrc rc hr).1]; omega
  unfold decThread encThread
  simp only [List.append_assoc]
  rw [decCount_enc be _ _ (by rw [hlen]; exact hsz)]
  simp only [hlen, Nat.mul_mod_left, ne_eq, not_true_eq_false, if_false]
  rw [Nat.mul_div_cancel _ (by omega : 0 < 8 * sCnt)]
  apply decList_enc
  intro rc hr r
  have := hrc rc hr
  rw [← this.1]
  exact decRec_enc be rc r this.2

theorem encThread_length (be : Bool) (sCnt : Nat) (th : List (List Nat)) (h : ∀ rc ∈ th, rc.length = sCnt) :
    (encThread be th).length = 8 + th.length * (8 * sCnt) := by
  have hlen : (th.flatMap (encRec be)).length = th.length * (8 * sCnt) := by
    apply flatMap_length_const
    intro rc hr
    rw [encRec_length, h rc hr]; omega
  simp [encThread, encInt_length, hlen]

theorem decNode_enc (be : Bool) (sCnt : Nat) (hs : 0 < sCnt) (n : NodeStats) (rest : Bytes) (h : n.WF sCnt) :
    decNode be sCnt (encNode be n ++ rest) = .ok (n, rest) := by
  obtain ⟨h1, h2, h3, h4, h5, h6, h7, h8⟩ := h
  have hlen : (n.recs.flatMap (encNodeRec be)).length = n.recs.length * nodeRecSize :=
    flatMap_length_const _ _ _ (fun x _ => encNodeRec_length be x)
  unfold decNode encNode
  simp only [List.append_assoc]
  rw [decInt_enc be 8 _ _ (by omega)]
  simp only
  rw [decInt_enc be 8 _ _ (by omega)]
  simp only
  rw [decInt_enc be 8 _ _ (by omega)]
  simp only
  rw [← h4, decList_enc (decInt be 8) (encInt be 8) n.ts _
        (fun v hv r => decInt_enc be 8 v r (by have := h5 v hv; omega))]
  simp only
  rw [decCount_enc be _ _ (by rw [hlen]; exact h6)]
  simp only [hlen, Nat.mul_mod_left, ne_eq, not_true_eq_false, if_false]
  rw [Nat.mul_div_cancel _ (by decide : 0 < nodeRecSize)]
  rw [decList_enc (decNodeRec be) (encNodeRec be) n.recs _ (fun x hx r => decNodeRec_enc be x r (h7 x hx))]
  simp only
  rw [decList_enc (decThread be sCnt) (encThread be) n.threads rest
        (fun th hth r => decThread_enc be sCnt hs th r (h8 th hth))]

theorem encNode_length (be : Bool) (sCnt : Nat) (n : NodeStats) (h : n.WF sCnt) :
    (encNode be n).length =
      globSize + 8 + n.recs.length * nodeRecSize + (n.threads.map (fun th => 8 + th.length * (8 * sCnt))).sum := by
  obtain ⟨h1, h2, h3, h4, h5, h6, h7, h8⟩ := h
  have hlen : (n.recs.flatMap (encNodeRec be)).length = n.recs.length * nodeRecSize :=
    flatMap_length_const _ _ _ (fun x _ => encNodeRec_length be x)
  have hts : (n.ts.flatMap (encInt be 8)).length = globalCount * 8 := by
    rw [← h4]; exact flatMap_length_const _ _ 8 (fun _ _ => encInt_length be 8 _)
  have hth : (n.threads.flatMap (encThread be)).length =
      (n.threads.map (fun th => 8 + th.length * (8 * sCnt))).sum := by
    have : ∀ l : List (List (List Nat)), (∀ th ∈ l, ∀ rc ∈ th, rc.length = sCnt) →
        (l.flatMap (encThread be)).length = (l.map (fun th => 8 + th.length * (8 * sCnt))).sum := by
      intro l
      induction l with
      | nil => simp
      | cons th l ih =>
        intro hl
        simp only [List.flatMap_cons, List.length_append, List.map_cons, List.sum_cons]
        rw [encThread_length be sCnt th (hl th (by simp)), ih (fun t ht => hl t (by simp [ht]))]
    exact this _ (fun th hth rc hrc => ((h8 th hth).2 rc hrc).1)
  simp only [encNode, List.length_append, encInt_length, hlen, hts, hth, globSize, globalCount]
  omega

/-! ### accounting -/

theorem take64_take64 (x a b : Nat) : take64 (take64 x a) b = take64 x (a + b) := by
  simp only [take64]; omega

theorem take64_zero_of_lt (x : Nat) (h : x < 2^64) : take64 x 0 = x := by
  simp only [take64]; omega

/-- accumulate a (possibly large) tally onto a wrapped accumulator -/
def Counters.bump (c t : Counters) : Counters := (c.add t).wrap

theorem Counters.bump_bump (c a b : Counters) : (c.bump a).bump b = c.bump (a.add b) := by
  simp only [Counters.bump, Counters.add, Counters.wrap, Counters.mk.injEq]
  refine ⟨?_, ?_, ?_, ?_, ?_, ?_, ?_, ?_, ?_, ?_, ?_, ?_⟩ <;> omega

theorem Counters.wrap_fits (c : Counters) : c.wrap.Fits := by
  simp only [Counters.wrap, Counters.Fits]
  refine ⟨?_, ?_, ?_, ?_, ?_, ?_, ?_, ?_, ?_, ?_, ?_, ?_⟩ <;> omega

theorem Counters.wrap_of_fits (c : Counters) (h : c.Fits) : c.wrap = c := by
  obtain ⟨h1, h2, h3, h4, h5, h6, h7, h8, h9, h10, h11, h12⟩ := h
  cases c
  simp only [Counters.wrap, Counters.mk.injEq] at *
  refine ⟨?_, ?_, ?_, ?_, ?_, ?_, ?_, ?_, ?_, ?_, ?_, ?_⟩ <;> omega

theorem Counters.zero_bump (t : Counters) : ({} : Counters).bump t = t.wrap := by
  simp [Counters.bump, Counters.add]

theorem Counters.bump_zero (c : Counters) (h : c.Fits) : c.bump {} = c := by
  have : c.add {} = c := by cases c; simp [Counters.add]
  rw [Counters.bump, this, Counters.wrap_of_fits c h]

/-- a non-flush step moves the accumulator by its `delta` (modulo 2^64), as long as the accumulator fits -/
theorem step_cur (rid0 : Bool) (s s' : TState) (a : Step) (hf : s.cur.Fits)
    (hg : ∀ g now rss, a ≠ .gvt g now rss) (h : step rid0 s a = some s') :
    s'.cur = s.cur.bump a.delta ∧ s'.out = s.out ∧ s'.nodeOut = s.nodeOut := by
  obtain ⟨h1, h2, h3, h4, h5, h6, h7, h8, h9, h10, h11, h12⟩ := hf
  cases a with
  | gvt g now rss => exact absurd rfl (hg g now rss)
  | forward dt =>
    simp only [step, Option.some.injEq] at h; subst h
    refine ⟨?_, rfl, rfl⟩
    simp only [Counters.bump, Counters.add, Counters.wrap, Step.delta, take64, Counters.mk.injEq]
    refine ⟨?_, ?_, ?_, ?_, ?_, ?_, ?_, ?_, ?_, ?_, ?_, ?_⟩ <;> first | trivial | omega
  | anti =>
    simp only [step, Option.some.injEq] at h; subst h
    refine ⟨?_, rfl, rfl⟩
    simp only [Counters.bump, Counters.add, Counters.wrap, Step.delta, take64, Counters.mk.injEq]
    refine ⟨?_, ?_, ?_, ?_, ?_, ?_, ?_, ?_, ?_, ?_, ?_, ?_⟩ <;> first | trivial | omega
  | rollback k dt =>
    simp only [step] at h
    split at h
    · simp only [Option.some.injEq] at h; subst h
      refine ⟨?_, rfl, rfl⟩
      simp only [Counters.bump, Counters.add, Counters.wrap, Step.delta, take64, Counters.mk.injEq]
      refine ⟨?_, ?_, ?_, ?_, ?_, ?_, ?_, ?_, ?_, ?_, ?_, ?_⟩ <;> first | trivial | omega
    · exact absurd h (by simp)
  | silent j dt =>
    simp only [step, Option.some.injEq] at h; subst h
    refine ⟨?_, rfl, rfl⟩
    simp only [Counters.bump, Counters.add, Counters.wrap, Step.delta, take64, Counters.mk.injEq]
    refine ⟨?_, ?_, ?_, ?_, ?_, ?_, ?_, ?_, ?_, ?_, ?_, ?_⟩ <;> first | trivial | omega
  | ckpt size dt =>
    simp only [step, Option.some.injEq] at h; subst h
    refine ⟨?_, rfl, rfl⟩
    simp only [Counters.bump, Counters.add, Counters.wrap, Step.delta, take64, Counters.mk.injEq]
    refine ⟨?_, ?_, ?_, ?_, ?_, ?_, ?_, ?_, ?_, ?_, ?_, ?_⟩ <;> first | trivial | omega
  | fossil f =>
    simp only [step] at h
    split at h
    · simp only [Option.some.injEq] at h; subst h
      refine ⟨?_, rfl, rfl⟩
      exact (Counters.bump_zero s.cur ⟨h1, h2, h3, h4, h5, h6, h7, h8, h9, h10, h11, h12⟩).symm
    · exact absurd h (by simp)

end RootSim.Stats

namespace RootSim.Stats

theorem periods_cons_other (a : Step) (as : List Step) (hg : ∀ g now rss, a ≠ .gvt g now rss) :
    periods (a :: as) =
      match periods as with
      | ([], t) => ([], a :: t)
      | (p :: ps, t) => ({ p with steps := a :: p.steps } :: ps, t) := by
  cases a with
  | gvt g now rss => exact absurd rfl (hg g now rss)
  | _ => rfl

/-- records expected from a run that starts with accumulator `c` -/
def expectOut (c : Counters) : List Period → List Counters
  | [] => []
  | p :: ps => { c.bump (tally p.steps) with realTime := p.now % 2^64 } :: ps.map Period.record

def expectCur (c : Counters) (ps : List Period) (t : List Step) : Counters :=
  match ps with
  | [] => c.bump (tally t)
  | _ :: _ => (tally t).wrap

theorem expectOut_zero (ps : List Period) : expectOut {} ps = ps.map Period.record := by
  cases ps with
  | nil => rfl
  | cons p ps => simp [expectOut, Period.record, Counters.zero_bump]

theorem expectCur_zero (ps : List Period) (t : List Step) : expectCur {} ps t = (tally t).wrap := by
  cases ps <;> simp [expectCur, Counters.zero_bump]

theorem fits_zero : ({} : Counters).Fits := by decide

theorem run_spec (rid0 : Bool) (l : List Step) : ∀ (s s' : TState), s.cur.Fits → run rid0 s l = some s' →
    s'.out = s.out ++ expectOut s.cur (periods l).1 ∧
    s'.cur = expectCur s.cur (periods l).1 (periods l).2 ∧ s'.cur.Fits := by
  induction l with
  | nil =>
    intro s s' hf h
    simp only [run, Option.some.injEq] at h; subst h
    simp [periods, expectOut, expectCur, tally, Counters.bump_zero _ hf, hf]
  | cons a as ih =>
    intro s s' hf h
    simp only [run] at h
    split at h
    · exact absurd h (by simp)
    · rename_i s1 hs1
      by_cases hg : ∃ g now rss, a = .gvt g now rss
      · obtain ⟨g, now, rss, rfl⟩ := hg
        simp only [step, Option.some.injEq] at hs1
        subst hs1
        obtain ⟨h1, h2, h3⟩ := ih _ s' fits_zero h
        simp only [periods]
        refine ⟨?_, ?_, h3⟩
        · rw [h1, expectOut_zero]
          simp [expectOut, tally, Counters.bump_zero _ hf]
        · rw [h2, expectCur_zero]; rfl
      · have hg' : ∀ g now rss, a ≠ .gvt g now rss := fun g now rss he => hg ⟨g, now, rss, he⟩
        obtain ⟨c1, c2, c3⟩ := step_cur rid0 s s1 a hf hg' hs1
        have hf1 : s1.cur.Fits := by rw [c1]; exact Counters.wrap_fits _
        obtain ⟨h1, h2, h3⟩ := ih s1 s' hf1 h
        rw [periods_cons_other a as hg']
        refine ⟨?_, ?_, h3⟩
        · rw [h1, c2, c1]
          cases hp : (periods as).1 with
          | nil =>
            have : periods as = ([], (periods as).2) := by rw [← hp]
            rw [this]; simp [expectOut]
          | cons p ps =>
            have : periods as = (p :: ps, (periods as).2) := by rw [← hp]
            rw [this]; simp [expectOut, tally, Counters.bump_bump]
        · rw [h2, c1]
          cases hp : (periods as).1 with
          | nil =>
            have : periods as = ([], (periods as).2) := by rw [← hp]
            rw [this]; simp [expectCur, tally, Counters.bump_bump]
          | cons p ps =>
            have : periods as = (p :: ps, (periods as).2) := by rw [← hp]
            rw [this]; simp [expectCur]

/-! ### history bookkeeping: what was undone had been executed forward -/

def fosTotal : List Step → Nat
  | [] => 0
  | .fossil f :: as => f + fosTotal as
  | _ :: as => fosTotal as

theorem tally_cons (a : Step) (as : List Step) : tally (a :: as) = a.delta.add (tally as) := rfl

theorem tally_append (l m : List Step) : tally (l ++ m) = (tally l).add (tally m) := by
  induction l with
  | nil =>
    show tally m = ({} : Counters).add (tally m)
    cases tally m; simp [Counters.add]
  | cons a as ih =>
    simp only [List.cons_append, tally_cons, ih, Counters.add, Counters.mk.injEq]
    refine ⟨?_, ?_, ?_, ?_, ?_, ?_, ?_, ?_, ?_, ?_, ?_, ?_⟩ <;> omega

theorem hist_invariant (rid0 : Bool) (l : List Step) : ∀ (s s' : TState), run rid0 s l = some s' →
    undTotal l + s'.hist + fosTotal l = s.hist + fwdTotal l := by
  induction l with
  | nil =>
    intro s s' h
    simp only [run, Option.some.injEq] at h; subst h
    simp [undTotal, fwdTotal, fosTotal, tally]
  | cons a as ih =>
    intro s s' h
    simp only [run] at h
    split at h
    · exact absurd h (by simp)
    · rename_i s1 hs1
      have := ih s1 s' h
      simp only [undTotal, fwdTotal] at this ⊢
      cases a with
      | forward dt =>
        simp only [step, Option.some.injEq] at hs1; subst hs1
        simp only [tally_cons, Step.delta, Counters.add, fosTotal] at this ⊢; omega
      | anti =>
        simp only [step, Option.some.injEq] at hs1; subst hs1
        simp only [tally_cons, Step.delta, Counters.add, fosTotal] at this ⊢; omega
      | rollback k dt =>
        simp only [step] at hs1
        split at hs1
        · simp only [Option.some.injEq] at hs1; subst hs1
          simp only [tally_cons, Step.delta, Counters.add, fosTotal] at this ⊢; omega
        · exact absurd hs1 (by simp)
      | silent j dt =>
        simp only [step, Option.some.injEq] at hs1; subst hs1
        simp only [tally_cons, Step.delta, Counters.add, fosTotal] at this ⊢; omega
      | ckpt size dt =>
        simp only [step, Option.some.injEq] at hs1; subst hs1
        simp only [tally_cons, Step.delta, Counters.add, fosTotal] at this ⊢; omega
      | fossil f =>
        simp only [step] at hs1
        split at hs1
        · simp only [Option.some.injEq] at hs1; subst hs1
          simp only [tally_cons, Step.delta, Counters.add, fosTotal] at this ⊢; omega
        · exact absurd hs1 (by simp)
      | gvt g now rss =>
        simp only [step, Option.some.injEq] at hs1; subst hs1
        simp only [tally_cons, Step.delta, Counters.add, fosTotal] at this ⊢; omega

theorem run_append (rid0 : Bool) (p q : List Step) : ∀ (s s' : TState), run rid0 s (p ++ q) = some s' →
    ∃ s1, run rid0 s p = some s1 ∧ run rid0 s1 q = some s' := by
  induction p with
  | nil => intro s s' h; exact ⟨s, rfl, h⟩
  | cons a as ih =>
    intro s s' h
    simp only [List.cons_append, run] at h ⊢
    split at h
    · exact absurd h (by simp)
    · rename_i s1 hs1
      obtain ⟨s2, h2, h3⟩ := ih s1 s' h
      exact ⟨s2, h2, h3⟩

/-! ### the run is the concatenation of its periods -/

theorem periods_flat (l : List Step) : l = (periods l).1.flatMap Period.flat ++ (periods l).2 := by
  induction l with
  | nil => simp [periods]
  | cons a as ih =>
    by_cases hg : ∃ g now rss, a = .gvt g now rss
    · obtain ⟨g, now, rss, rfl⟩ := hg
      simp only [periods, List.flatMap_cons, Period.flat, List.nil_append, List.cons_append]
      rw [← ih]
    · have hg' : ∀ g now rss, a ≠ .gvt g now rss := fun g now rss he => hg ⟨g, now, rss, he⟩
      rw [periods_cons_other a as hg']
      cases hp : (periods as).1 with
      | nil =>
        have h2 : periods as = ([], (periods as).2) := by rw [← hp]
        rw [h2]
        rw [hp] at ih
        simp only [List.flatMap_nil, List.nil_append] at ih ⊢
        rw [← ih]
      | cons p ps =>
        have h2 : periods as = (p :: ps, (periods as).2) := by rw [← hp]
        rw [h2]
        rw [hp] at ih
        simp only [List.flatMap_cons, Period.flat, List.cons_append, List.append_assoc] at ih ⊢
        rw [← ih]

theorem tally_flat (p : Period) : tally p.flat = tally p.steps := by
  rw [Period.flat, tally_append]
  cases h : tally p.steps
  simp [tally, Step.delta, Counters.add]

theorem tally_flatMap_und (ps : List Period) :
    undTotal (ps.flatMap Period.flat) = (ps.map (fun p => (tally p.steps).undone)).sum := by
  induction ps with
  | nil => simp [undTotal, tally]
  | cons p ps ih =>
    simp only [undTotal] at ih ⊢
    simp only [List.flatMap_cons, tally_append, tally_flat, Counters.add, List.map_cons, List.sum_cons, ih]

theorem tally_flatMap_fwd (ps : List Period) :
    fwdTotal (ps.flatMap Period.flat) = (ps.map (fun p => (tally p.steps).processed)).sum := by
  induction ps with
  | nil => simp [fwdTotal, tally]
  | cons p ps ih =>
    simp only [fwdTotal] at ih ⊢
    simp only [List.flatMap_cons, tally_append, tally_flat, Counters.add, List.map_cons, List.sum_cons, ih]

/-! ### node entries -/

theorem nodeOut_spec (l : List Step) : ∀ (s s' : TState), run true s l = some s' →
    s'.nodeOut.map (·.gvt) = s.nodeOut.map (·.gvt) ++ gvtInputs l := by
  induction l with
  | nil => intro s s' h; simp only [run, Option.some.injEq] at h; subst h; simp [gvtInputs]
  | cons a as ih =>
    intro s s' h
    simp only [run] at h
    split at h
    · exact absurd h (by simp)
    · rename_i s1 hs1
      have := ih s1 s' h
      by_cases hg : ∃ g now rss, a = .gvt g now rss
      · obtain ⟨g, now, rss, rfl⟩ := hg
        simp only [step, Option.some.injEq] at hs1; subst hs1
        simp only [gvtInputs]
        rw [this]; simp
      · have hg' : ∀ g now rss, a ≠ .gvt g now rss := fun g now rss he => hg ⟨g, now, rss, he⟩
        have hn : s1.nodeOut = s.nodeOut := by
          cases a with
          | gvt g now rss => exact absurd rfl (hg' g now rss)
          | forward _ | anti | silent _ _ | ckpt _ _ =>
            simp only [step, Option.some.injEq] at hs1; subst hs1; rfl
          | rollback _ _ | fossil _ =>
            simp only [step] at hs1
            split at hs1
            · simp only [Option.some.injEq] at hs1; subst hs1; rfl
            · exact absurd hs1 (by simp)
        have hgi : gvtInputs (a :: as) = gvtInputs as := by
          cases a with
          | gvt g now rss => exact absurd rfl (hg' g now rss)
          | _ => rfl
        rw [this, hn, hgi]

theorem nodeOut_other (l : List Step) : ∀ (s s' : TState), run false s l = some s' → s'.nodeOut = s.nodeOut := by
  induction l with
  | nil => intro s s' h; simp only [run, Option.some.injEq] at h; subst h; rfl
  | cons a as ih =>
    intro s s' h
    simp only [run] at h
    split at h
    · exact absurd h (by simp)
    · rename_i s1 hs1
      rw [ih s1 s' h]
      cases a with
      | forward _ | anti | silent _ _ | ckpt _ _ | gvt _ _ _ =>
        simp only [step, Option.some.injEq] at hs1; subst hs1; rfl
      | rollback _ _ | fossil _ =>
        simp only [step] at hs1
        split at hs1
        · simp only [Option.some.injEq] at hs1; subst hs1; rfl
        · exact absurd hs1 (by simp)

theorem periods_length (l : List Step) : (periods l).1.length = (gvtInputs l).length := by
  induction l with
  | nil => rfl
  | cons a as ih =>
    by_cases hg : ∃ g now rss, a = .gvt g now rss
    · obtain ⟨g, now, rss, rfl⟩ := hg
      simp [periods, gvtInputs, ih]
    · have hg' : ∀ g now rss, a ≠ .gvt g now rss := fun g now rss he => hg ⟨g, now, rss, he⟩
      have hgi : gvtInputs (a :: as) = gvtInputs as := by
        cases a with
        | gvt g now rss => exact absurd rfl (hg' g now rss)
        | _ => rfl
      rw [periods_cons_other a as hg', hgi, ← ih]
      cases hp : (periods as).1 with
      | nil =>
        have h2 : periods as = ([], (periods as).2) := by rw [← hp]
        rw [h2]
      | cons p ps =>
        have h2 : periods as = (p :: ps, (periods as).2) := by rw [← hp]
        rw [h2]; simp

end RootSim.Stats

/-! ### the decoder accepts only canonical files (converse of the round trip) -/
namespace RootSim.Stats

/-- a list of bytes -/
def IsBytes (bs : Bytes) : Prop := ∀ b ∈ bs, b < 256

instance (bs : Bytes) : Decidable (IsBytes bs) := by unfold IsBytes; infer_instance

theorem IsBytes.of_append_right {a b : Bytes} (h : IsBytes (a ++ b)) : IsBytes b :=
  fun x hx => h x (List.mem_append_right a hx)

theorem IsBytes.of_append_left {a b : Bytes} (h : IsBytes (a ++ b)) : IsBytes a :=
  fun x hx => h x (List.mem_append_left b hx)

theorem leBytes_leVal (bs : Bytes) (hb : IsBytes bs) : leBytes bs.length (leVal bs) = bs := by
  induction bs with
  | nil => rfl
  | cons b bs ih =>
    have hb0 : b < 256 := hb b (by simp)
    have ih' := ih (fun x hx => hb x (by simp [hx]))
    simp only [List.length_cons, leBytes, leVal]
    have h1 : (b + 256 * leVal bs) % 256 = b := by omega
    have h2 : (b + 256 * leVal bs) / 256 = leVal bs := by omega
    rw [h1, h2, ih']

theorem leVal_lt (bs : Bytes) (hb : IsBytes bs) : leVal bs < 256 ^ bs.length := by
  induction bs with
  | nil => simp [leVal]
  | cons b bs ih =>
    have hb0 : b < 256 := hb b (by simp)
    have ih' := ih (fun x hx => hb x (by simp [hx]))
    simp only [List.length_cons, leVal, Nat.pow_succ]
    omega

theorem decInt_sound (be : Bool) (w : Nat) (bs : Bytes) (v : Nat) (r : Bytes) (hb : IsBytes bs)
    (h : decInt be w bs = .ok (v, r)) : bs = encInt be w v ++ r ∧ v < 256 ^ w := by
  unfold decInt at h
  split at h
  · exact absurd h (by simp)
  · rename_i hlen
    simp only [Except.ok.injEq, Prod.mk.injEq] at h
    obtain ⟨hv, hr⟩ := h
    have hl : (bs.take w).length = w := by
      have := List.length_take_le w bs
      omega
    have hbt : IsBytes (bs.take w) := fun x hx => hb x (List.mem_of_mem_take hx)
    cases be with
    | false =>
      simp only [Bool.false_eq_true, if_false] at hv
      subst hv hr
      refine ⟨?_, ?_⟩
      · simp only [encInt, Bool.false_eq_true, if_false]
        have := leBytes_leVal (bs.take w) hbt
        rw [hl] at this
        rw [this, List.take_append_drop]
      · have := leVal_lt (bs.take w) hbt
        rwa [hl] at this
    | true =>
      simp only [if_true] at hv
      subst hv hr
      have hbr : IsBytes (bs.take w).reverse := fun x hx => hbt x (List.mem_reverse.mp hx)
      have hlr : (bs.take w).reverse.length = w := by simp [hl]
      refine ⟨?_, ?_⟩
      · simp only [encInt, if_true]
        have := leBytes_leVal (bs.take w).reverse hbr
        rw [hlr] at this
        rw [this, List.reverse_reverse, List.take_append_drop]
      · have := leVal_lt (bs.take w).reverse hbr
        rwa [hlr] at this

theorem decCount_sound (be : Bool) (bs : Bytes) (v : Nat) (r : Bytes) (hb : IsBytes bs)
    (h : decCount be bs = .ok (v, r)) : bs = encInt be 8 v ++ r ∧ v < 2 ^ 63 := by
  unfold decCount at h
  split at h
  · exact absurd h (by simp)
  · rename_i v' r' hd
    split at h
    · rename_i hlt
      simp only [Except.ok.injEq, Prod.mk.injEq] at h
      obtain ⟨rfl, rfl⟩ := h
      exact ⟨(decInt_sound be 8 bs _ _ hb hd).1, hlt⟩
    · exact absurd h (by simp)

theorem decList_sound {α : Type} (d : Dec α) (e : α → Bytes) (P : α → Prop)
    (hd : ∀ bs x r, IsBytes bs → d bs = .ok (x, r) → bs = e x ++ r ∧ P x) :
    ∀ (n : Nat) (bs : Bytes) (xs : List α) (r : Bytes), IsBytes bs → decList d n bs = .ok (xs, r) →
      bs = xs.flatMap e ++ r ∧ xs.length = n ∧ ∀ x ∈ xs, P x := by
  intro n
  induction n with
  | zero =>
    intro bs xs r _ h
    simp only [decList, Except.ok.injEq, Prod.mk.injEq] at h
    obtain ⟨rfl, rfl⟩ := h
    simp
  | succ n ih =>
    intro bs xs r hb h
    simp only [decList] at h
    split at h
    · exact absurd h (by simp)
    · rename_i x r1 hx
      split at h
      · exact absurd h (by simp)
      · rename_i xs' r2 hxs
        simp only [Except.ok.injEq, Prod.mk.injEq] at h
        obtain ⟨rfl, rfl⟩ := h
        obtain ⟨e1, p1⟩ := hd bs x r1 hb hx
        have hb1 : IsBytes r1 := by rw [e1] at hb; exact hb.of_append_right
        obtain ⟨e2, l2, p2⟩ := ih r1 xs' r2 hb1 hxs
        refine ⟨?_, by simp [l2], ?_⟩
        · rw [List.flatMap_cons, List.append_assoc, ← e2, ← e1]
        · intro y hy
          rcases List.mem_cons.mp hy with rfl | hy'
          · exact p1
          · exact p2 y hy'

theorem decName_sound (bs : Bytes) (n : Bytes) (r : Bytes) (hb : IsBytes bs)
    (h : decName bs = .ok (n, r)) : bs = encName n ++ r ∧ n.length ≤ 255 := by
  unfold decName at h
  split at h
  · exact absurd h (by simp)
  · rename_i l rest
    split at h
    · exact absurd h (by simp)
    · rename_i hlen
      simp only [Except.ok.injEq, Prod.mk.injEq] at h
      obtain ⟨rfl, rfl⟩ := h
      have hl0 : l < 256 := hb l (by simp)
      have hl : (rest.take l).length = l := by
        have := List.length_take_le l rest
        omega
      refine ⟨?_, by omega⟩
      have hm : min (rest.take l).length 255 = l := by omega
      have ht : (rest.take l).take l = rest.take l := by rw [List.take_take, Nat.min_self]
      simp only [encName, hm, List.cons_append, ht, List.take_append_drop]

theorem decNodeRec_sound (be : Bool) (bs : Bytes) (x : NodeRec) (r : Bytes) (hb : IsBytes bs)
    (h : decNodeRec be bs = .ok (x, r)) : bs = encNodeRec be x ++ r ∧ (x.gvt < 2^64 ∧ x.rss < 2^64) := by
  unfold decNodeRec at h
  split at h
  · exact absurd h (by simp)
  · rename_i g r1 h1
    split at h
    · exact absurd h (by simp)
    · rename_i m r2 h2
      simp only [Except.ok.injEq, Prod.mk.injEq] at h
      obtain ⟨rfl, rfl⟩ := h
      obtain ⟨e1, p1⟩ := decInt_sound be 8 bs g r1 hb h1
      have hb1 : IsBytes r1 := by rw [e1] at hb; exact hb.of_append_right
      obtain ⟨e2, p2⟩ := decInt_sound be 8 r1 m r2 hb1 h2
      refine ⟨?_, by omega, by omega⟩
      simp only [encNodeRec, List.append_assoc]
      rw [← e2, ← e1]

theorem decRec_sound (be : Bool) (sCnt : Nat) (bs : Bytes) (vals : List Nat) (r : Bytes) (hb : IsBytes bs)
    (h : decList (decInt be 8) sCnt bs = .ok (vals, r)) :
    bs = encRec be vals ++ r ∧ (vals.length = sCnt ∧ ∀ v ∈ vals, v < 2^64) := by
  obtain ⟨e, l, p⟩ := decList_sound (decInt be 8) (encInt be 8) (fun v => v < 2^64)
    (fun bs x r hb h => by
      obtain ⟨e, p⟩ := decInt_sound be 8 bs x r hb h
      exact ⟨e, by omega⟩) sCnt bs vals r hb h
  exact ⟨e, l, p⟩

theorem decThread_sound (be : Bool) (sCnt : Nat) (bs : Bytes) (th : List (List Nat)) (r : Bytes)
    (hb : IsBytes bs) (h : decThread be sCnt bs = .ok (th, r)) :
    bs = encThread be th ++ r ∧
      (th.length * (8 * sCnt) < 2^63 ∧ ∀ rc ∈ th, rc.length = sCnt ∧ ∀ v ∈ rc, v < 2^64) := by
  unfold decThread at h
  split at h
  · exact absurd h (by simp)
  · rename_i tsiz r1 h1
    split at h
    · exact absurd h (by simp)
    · rename_i hmod
      obtain ⟨e1, p1⟩ := decCount_sound be bs tsiz r1 hb h1
      have hb1 : IsBytes r1 := by rw [e1] at hb; exact hb.of_append_right
      obtain ⟨e2, l2, p2⟩ := decList_sound (decList (decInt be 8) sCnt) (encRec be)
        (fun rc => rc.length = sCnt ∧ ∀ v ∈ rc, v < 2^64)
        (fun bs x r hb h => decRec_sound be sCnt bs x r hb h) _ r1 th r hb1 h
      have hmod' : tsiz % (8 * sCnt) = 0 := by
        simpa using hmod
      have hsz : th.length * (8 * sCnt) = tsiz := by
        rw [l2]; exact Nat.div_mul_cancel (Nat.dvd_of_mod_eq_zero hmod')
      have hlen : (th.flatMap (encRec be)).length = th.length * (8 * sCnt) := by
        apply flatMap_length_const
        intro rc hr
        rw [encRec_length, (p2 rc hr).1]; omega
      refine ⟨?_, by omega, p2⟩
      simp only [encThread, List.append_assoc]
      rw [hlen, hsz, ← e2, ← e1]

theorem decNode_sound (be : Bool) (sCnt : Nat) (bs : Bytes) (n : NodeStats) (r : Bytes)
    (hb : IsBytes bs) (h : decNode be sCnt bs = .ok (n, r)) : bs = encNode be n ++ r ∧ n.WF sCnt := by
  unfold decNode at h
  split at h
  · exact absurd h (by simp)
  rename_i tc r1 h1
  split at h
  · exact absurd h (by simp)
  rename_i lps r2 h2
  split at h
  · exact absurd h (by simp)
  rename_i mr r3 h3
  split at h
  · exact absurd h (by simp)
  rename_i ts r4 h4
  split at h
  · exact absurd h (by simp)
  rename_i nsiz r5 h5
  split at h
  · exact absurd h (by simp)
  rename_i hmod
  split at h
  · exact absurd h (by simp)
  rename_i recs r6 h6
  split at h
  · exact absurd h (by simp)
  rename_i ths r7 h7
  simp only [Except.ok.injEq, Prod.mk.injEq] at h
  obtain ⟨rfl, rfl⟩ := h
  obtain ⟨e1, p1⟩ := decInt_sound be 8 bs tc r1 hb h1
  have hb1 : IsBytes r1 := by rw [e1] at hb; exact hb.of_append_right
  obtain ⟨e2, p2⟩ := decInt_sound be 8 r1 lps r2 hb1 h2
  have hb2 : IsBytes r2 := by rw [e2] at hb1; exact hb1.of_append_right
  obtain ⟨e3, p3⟩ := decInt_sound be 8 r2 mr r3 hb2 h3
  have hb3 : IsBytes r3 := by rw [e3] at hb2; exact hb2.of_append_right
  obtain ⟨e4, l4, p4⟩ := decRec_sound be globalCount r3 ts r4 hb3 h4
  have hb4 : IsBytes r4 := by rw [e4] at hb3; exact hb3.of_append_right
  obtain ⟨e5, p5⟩ := decCount_sound be r4 nsiz r5 hb4 h5
  have hb5 : IsBytes r5 := by rw [e5] at hb4; exact hb4.of_append_right
  obtain ⟨e6, l6, p6⟩ := decList_sound (decNodeRec be) (encNodeRec be) (fun x => x.gvt < 2^64 ∧ x.rss < 2^64)
    (fun bs x r hb h => decNodeRec_sound be bs x r hb h) _ r5 recs r6 hb5 h6
  have hb6 : IsBytes r6 := by rw [e6] at hb5; exact hb5.of_append_right
  obtain ⟨e7, l7, p7⟩ := decList_sound (decThread be sCnt) (encThread be)
    (fun th => th.length * (8 * sCnt) < 2^63 ∧ ∀ rc ∈ th, rc.length = sCnt ∧ ∀ v ∈ rc, v < 2^64)
    (fun bs x r hb h => decThread_sound be sCnt bs x r hb h) _ r6 ths r7 hb6 h7
  have hmod' : nsiz % nodeRecSize = 0 := by simpa using hmod
  have hsz : recs.length * nodeRecSize = nsiz := by
    rw [l6]; exact Nat.div_mul_cancel (Nat.dvd_of_mod_eq_zero hmod')
  have hlen : (recs.flatMap (encNodeRec be)).length = recs.length * nodeRecSize :=
    flatMap_length_const _ _ _ (fun x _ => encNodeRec_length be x)
  refine ⟨?_, ?_⟩
  · simp only [encNode, List.append_assoc]
    rw [hlen, hsz, l7, ← e7, ← e6, ← e5]
    have : ts.flatMap (encInt be 8) = encRec be ts := rfl
    rw [this, ← e4, ← e3, ← e2, ← e1]
  · refine ⟨by rw [l7]; omega, by omega, by omega, l4, p4, ?_, p6, p7⟩
    show recs.length * nodeRecSize < 2^63
    omega

end RootSim.Stats
