import RootSim.Proofs.GvtNodeSteps2
/-! Preservation of `Inv` by `collective`. -/
namespace RootSim.GvtNode

theorem inv_collective (old : Bool) (s s' : St) (t : Nat) (hinv : Inv old s)
    (hs : collective s t = some s') : Inv old s' := by
  unfold collective at hs
  split at hs
  · simp at hs
  rename_i th h
  split at hs
  · simp at hs
  rename_i nd hnd
  split at hs
  case isFalse => simp at hs
  rename_i hg
  obtain ⟨hst, hall⟩ := hg
  simp only [Option.some.injEq] at hs
  have hthr : s'.thr = s.thr.set t { th with stage := .wait } := by rw [← hs]
  have hnodes : s'.nodes = s.nodes.set th.node { nd with
      toReceive := some (scatter s th.node)
      subtracted := true
      totalRecv := nd.totalRecv - ((scatter s th.node : Int) + s.N) } := by rw [← hs]
  have hN : s'.N = s.N := by rw [← hs]
  have hfl : s'.flight = s.flight := by rw [← hs]
  clear hs
  have T := hinv.thr t th h
  have I0 := hinv.node _ nd hnd
  have hpost : th.colour = !old := T.col_post (by simp [hst])
  have hrep : th.stage.reported = true := by simp [hst, Stage.reported]
  obtain ⟨o1, o2, o3⟩ := counts_own s s' t th { th with stage := .wait } h rfl hthr
  simp [hst, Stage.reported] at o2 o3
  -- the stepping thread sits in `reduceWait`, so the collective has not been consumed yet
  have hcs : nd.contrib.isSome ∧ nd.subtracted = false := by
    have := I0.redwait
    by_cases hc : nd.contrib.isSome ∧ nd.subtracted = false
    · exact hc
    · rw [if_neg hc] at this; omega
  constructor
  · intro t' x hx
    rw [hthr] at hx; simp only [hnodes, List.length_set]
    rcases thr_set_cases _ _ _ _ _ hx with ⟨_, rfl⟩ | ⟨_, hx⟩
    · exact ⟨T.node_lt, by simp, fun _ => hpost, fun _ => T.unrep_nil hrep⟩
    · exact hinv.thr t' x hx
  · intro k nd1 hk
    obtain ⟨a1, a2⟩ := contrib_same s s' th.node nd _ hnd hnodes (by rfl) k
    obtain ⟨b1, b2, b3⟩ := sums_step old s s' t th.node th _ nd _ h hnd hthr hnodes k
    rw [hnodes] at hk
    rcases thr_set_cases _ _ _ _ _ hk with ⟨rfl, rfl⟩ | ⟨hne, hk⟩
    · have bal := I0.balance
      have hr := I0.recv_eq
      constructor <;> (try rw [hN])
      · rw [o1]; exact I0.nthr
      · show nd.cc = _; rw [I0.cc_eq]; omega
      · have := I0.redwait; rw [if_pos hcs] at this; simp; omega
      · simp only [hcs.2] at hr; simp [hr]
      · exact I0.contrib_iff
      · intro _; rw [a1, a2]; exact ⟨hall, rfl⟩
      · simp only [eff] at *; simp only [flightTo, hfl] at *; omega
    · have I := hinv.node k nd1 hk
      obtain ⟨c1, c2, c3⟩ := counts_other s s' t th { th with stage := .wait } h rfl hthr k hne
      have bal := I.balance
      constructor <;> (try rw [hN])
      · rw [c1]; exact I.nthr
      · rw [c2]; exact I.cc_eq
      · rw [c3]; exact I.redwait
      · exact I.recv_eq
      · exact I.contrib_iff
      · rw [a1, a2]; exact I.sub
      · simp only [eff] at *; simp only [flightTo, hfl] at *; omega

end RootSim.GvtNode
