import RootSim.Model.Rand
/-!
The output function of xoshiro256** (`s1 ↦ rotl(s1 * 5, 7) * 9` on 64 bits) is onto:
`craftS1 u` is a preimage of `u`.  Hence every raw output `u < 2^64` is produced by some
generator state, which is what the harness uses to drive `Random()` with chosen raw outputs.
-/
namespace RootSim.Rand

theorem rotr7_eq (x : Nat) (hx : x < 2 ^ 64) : rotr x 7 = 2 ^ 57 * (x % 2 ^ 7) + x / 2 ^ 7 := by
  unfold rotr
  have h1 : x >>> 7 = x / 2 ^ 7 := Nat.shiftRight_eq_div_pow x 7
  have h2 : (x <<< (64 - 7)) % 2 ^ 64 = 2 ^ 57 * (x % 2 ^ 7) := by
    rw [Nat.shiftLeft_eq]; omega
  rw [h1, h2, Nat.or_comm]
  exact (Nat.two_pow_add_eq_or_of_lt (by omega) _).symm

theorem rotl7_eq (y : Nat) (hy : y < 2 ^ 64) : rotl y 7 = 2 ^ 7 * (y % 2 ^ 57) + y / 2 ^ 57 := by
  unfold rotl
  have h1 : y >>> (64 - 7) = y / 2 ^ 57 := Nat.shiftRight_eq_div_pow y 57
  have h2 : (y <<< 7) % 2 ^ 64 = 2 ^ 7 * (y % 2 ^ 57) := by
    rw [Nat.shiftLeft_eq]; omega
  rw [h1, h2]
  exact (Nat.two_pow_add_eq_or_of_lt (by omega) _).symm

theorem rotl_rotr7 (x : Nat) (hx : x < 2 ^ 64) : rotl (rotr x 7) 7 = x := by
  rw [rotr7_eq x hx, rotl7_eq _ (by omega)]
  omega

/-- **every raw output is reachable**: with `state[1] = craftS1 u` the next raw output is `u` -/
theorem craft_output (u s0 s2 s3 : Nat) (hu : u < 2 ^ 64) :
    (xoshiroNext ⟨s0, craftS1 u, s2, s3⟩).1 = u := by
  unfold xoshiroNext craftS1
  simp only
  have hr : rotr (0x8E38E38E38E38E39 * u % 2 ^ 64) 7 < 2 ^ 64 := by
    rw [rotr7_eq _ (Nat.mod_lt _ (by omega))]; omega
  have h5 : 0xCCCCCCCCCCCCCCCD * rotr (0x8E38E38E38E38E39 * u % 2 ^ 64) 7 % 2 ^ 64 * 5 % 2 ^ 64
      = rotr (0x8E38E38E38E38E39 * u % 2 ^ 64) 7 := by omega
  rw [h5, rotl_rotr7 _ (Nat.mod_lt _ (by omega))]
  omega

end RootSim.Rand
